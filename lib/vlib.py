#!/usr/bin/env python3
"""Common layer of the libTMCG model-based verification framework.

  build      objects of /repo's *current working tree* (content-hash keyed cache)
  tlc        run TLC (BFS / simulate / trace validation), parse its statistics
  behaviours collect JSON lines that a GEN config printed with PrintT(ToJson(..))
  evidence   write /verif/evidence/<id>.json
  findings   /verif/known_findings.json protocol (KNOWN-FINDING / VIOLATION)
"""
import os, sys, json, hashlib, subprocess, time, glob, re, fcntl, shutil, random

VERIF = os.path.dirname(os.path.dirname(os.path.abspath(__file__)))
REPO = os.environ.get("VERIF_REPO", "/repo")
SPEC = os.path.join(VERIF, "spec")
HARN = os.path.join(VERIF, "harness")
# VERIF_SCRATCH=<dir> (used with VERIF_REPO=<mutated copy>) keeps build output, logs and evidence of a
# run against another tree away from the real ones
_SCR = os.environ.get("VERIF_SCRATCH")
BUILD = os.path.join(_SCR or VERIF, "build")
EVID = os.path.join(_SCR or VERIF, "evidence")
OUT = os.path.join(_SCR or VERIF, "out")
GUARD = "LIBTMCG_VERIF"
NCPU = os.cpu_count() or 4

class Infra(Exception):
    """infrastructure trouble (compile error, TLC crash, time-out): exit 2"""

def log(*a):
    print("[verif]", *a, flush=True)

def sha(*parts):
    h = hashlib.sha256()
    for p in parts:
        h.update(p if isinstance(p, bytes) else p.encode())
        h.update(b"\0")
    return h.hexdigest()[:20]

def rd(path):
    with open(path, "rb") as f:
        return f.read()

# --------------------------------------------------------------------------
# build
# --------------------------------------------------------------------------
VARIANTS = {
    "plain": ["-O1", "-g0"],
    "asan": ["-O1", "-g", "-fsanitize=address,undefined", "-fno-sanitize=shift", "-fno-sanitize=enum",
             "-fno-sanitize-recover=undefined", "-fno-omit-frame-pointer"],
    # assert() active is the default in both (no -DNDEBUG), like the library build
}
BASEFLAGS = ["-std=c++17", "-w", "-DHAVE_CONFIG_H", "-D" + GUARD, "-I" + REPO, "-I" + REPO + "/src", "-I" + HARN]
LIBS = ["-lgcrypt", "-lgpg-error", "-lgmp", "-lpthread"]
PGP_UNIT = "CallasDonnerhackeFinneyShawThayerRFC4880"

def lib_sources():
    src = sorted(glob.glob(REPO + "/src/*.cc"))
    return [s for s in src if os.path.basename(s) != "gen_primes.cc"]

def header_hash():
    hs = sorted(glob.glob(REPO + "/src/*.hh")) + [REPO + "/libTMCG_config.h"]
    return sha(*[rd(h) for h in hs if os.path.exists(h)])

class _Lock:
    def __init__(self, path):
        self.path = path
    def __enter__(self):
        os.makedirs(os.path.dirname(self.path), exist_ok=True)
        self.f = open(self.path, "w")
        fcntl.flock(self.f, fcntl.LOCK_EX)
    def __exit__(self, *a):
        fcntl.flock(self.f, fcntl.LOCK_UN)
        self.f.close()

def _compile_many(jobs):
    """jobs: list of (cmd, out). Runs up to NCPU at once."""
    running = []
    errs = []
    jobs = list(jobs)
    while jobs or running:
        while jobs and len(running) < NCPU:
            cmd, out = jobs.pop(0)
            p = subprocess.Popen(cmd, stdout=subprocess.PIPE, stderr=subprocess.STDOUT)
            running.append((p, cmd, out))
        p, cmd, out = running.pop(0)
        so, _ = p.communicate()
        if p.returncode != 0:
            errs.append((cmd, so.decode(errors="replace")))
    if errs:
        for cmd, so in errs:
            sys.stderr.write(" ".join(cmd) + "\n" + so[-4000:] + "\n")
        raise Infra("compile error in working tree or harness")

def build_lib(variant="plain", with_pgp=True):
    """compile /repo/src/*.cc of the current working tree; returns object list"""
    flags = BASEFLAGS + VARIANTS[variant]
    objdir = os.path.join(BUILD, variant, "obj")
    os.makedirs(objdir, exist_ok=True)
    hh = header_hash()
    objs, jobs = [], []
    with _Lock(os.path.join(BUILD, variant, ".lock")):
        for s in lib_sources():
            base = os.path.basename(s)[:-3]
            if base == PGP_UNIT and not with_pgp:
                continue
            key = sha(rd(s), hh, " ".join(flags))
            o = os.path.join(objdir, "%s-%s.o" % (base, key))
            objs.append(o)
            if not os.path.exists(o):
                for old in glob.glob(os.path.join(objdir, base + "-*.o")):
                    os.unlink(old)
                jobs.append((["g++"] + flags + ["-c", s, "-o", o + ".tmp"], o))
        if jobs:
            log("compiling %d library units (%s)" % (len(jobs), variant))
            _compile_many(jobs)
            for _, o in jobs:
                os.rename(o + ".tmp", o)
    return objs

def build_driver(name, variant="plain", with_pgp=True, extra_src=(), extra_flags=()):
    """compile harness/<name>.cc (+extra harness sources) and link with the library objects"""
    objs = build_lib(variant, with_pgp=with_pgp)
    flags = BASEFLAGS + VARIANTS[variant] + list(extra_flags)
    bindir = os.path.join(BUILD, variant, "bin")
    os.makedirs(bindir, exist_ok=True)
    srcs = [os.path.join(HARN, name + ".cc")] + [os.path.join(HARN, e) for e in extra_src]
    hh = sha(*[rd(h) for h in sorted(glob.glob(HARN + "/*.hh"))])
    key = sha(hh, header_hash(), " ".join(flags), *[rd(s) for s in srcs], *[os.path.basename(o) for o in objs])
    exe = os.path.join(bindir, "%s-%s" % (name, key))
    with _Lock(os.path.join(BUILD, variant, ".lock-" + name)):
        if not os.path.exists(exe):
            for old in glob.glob(os.path.join(bindir, name + "-*")):
                try: os.unlink(old)
                except OSError: pass
            log("linking driver %s (%s)" % (name, variant))
            _compile_many([(["g++"] + flags + srcs + objs + LIBS + ["-o", exe + ".tmp"], exe)])
            os.rename(exe + ".tmp", exe)
    return exe

# --------------------------------------------------------------------------
# TLC
# --------------------------------------------------------------------------
TLA_JAR = "/opt/veriftools/tla/tla2tools.jar"
def _cp():
    jars = [TLA_JAR] + sorted(glob.glob("/opt/veriftools/tla/*.jar"))
    seen, out = set(), []
    for j in jars:
        if j not in seen:
            seen.add(j); out.append(j)
    return ":".join(out)

class TlcResult:
    def __init__(self):
        self.rc = None; self.out = ""; self.generated = 0; self.distinct = 0; self.depth = 0
        self.printed = []; self.violation = None; self.wall = 0.0; self.coverage = {}
        self.error = None
    def ok(self):
        return self.rc == 0 and self.violation is None and self.error is None

def tlc(module, cfg, workers=None, simulate=None, depth=None, seed=None, timeout=900,
        env=None, xmx="8g", deadlock=False, coverage=False, dfs=False, extra=(), cwd=SPEC, keep_out=False):
    """run TLC on spec/<module>.tla with spec/<cfg>; returns TlcResult"""
    md = os.path.join(OUT, "md", "%s-%s-%d-%d" % (module, os.path.basename(cfg), os.getpid(), random.randrange(1 << 30)))
    os.makedirs(md, exist_ok=True)
    jopts = ["-Xmx" + xmx, "-Xss64m", "-XX:+UseParallelGC"]
    if dfs:
        jopts.append("-Dtlc2.tool.queue.IStateQueue=StateDeque")
    cmd = ["java"] + jopts + ["-cp", _cp(), "tlc2.TLC", "-metadir", md, "-config", cfg, "-noGenerateSpecTE"]
    if workers is None:
        workers = NCPU
    cmd += ["-workers", str(workers)]
    if simulate is not None:
        cmd += ["-simulate", "num=%d" % simulate]
        if depth: cmd += ["-depth", str(depth)]
    if seed is not None:
        cmd += ["-seed", str(seed)]
    if deadlock:
        pass
    else:
        cmd += ["-deadlock"]
    if coverage:
        cmd += ["-coverage", "1"]
    cmd += list(extra) + [module + ".tla"]
    e = dict(os.environ)
    e.pop("JAVA_TOOL_OPTIONS", None)
    if env: e.update(env)
    r = TlcResult()
    t0 = time.time()
    try:
        p = subprocess.run(cmd, cwd=cwd, env=e, stdout=subprocess.PIPE, stderr=subprocess.STDOUT, timeout=timeout)
        r.rc = p.returncode
        r.out = p.stdout.decode(errors="replace")
    except subprocess.TimeoutExpired as ex:
        r.rc = -1
        r.out = (ex.stdout or b"").decode(errors="replace")
        r.error = "timeout after %ds" % timeout
    r.wall = time.time() - t0
    shutil.rmtree(md, ignore_errors=True)
    for line in r.out.splitlines():
        if line.startswith('"') and line.endswith('"') and len(line) > 1:
            try:
                r.printed.append(json.loads(json.loads(line)))
            except Exception:
                try:
                    r.printed.append(json.loads(line))
                except Exception:
                    pass
        m = re.match(r"(\d+) states generated, (\d+) distinct states found", line)
        if m:
            r.generated, r.distinct = int(m.group(1)), int(m.group(2))
        m = re.match(r"The depth of the complete state graph search is (\d+)", line)
        if m:
            r.depth = int(m.group(1))
        m = re.match(r"Error: (Invariant|Action property|Temporal properties|Assumption|Deadlock|Postcondition)(.*)", line)
        if m and r.violation is None:
            r.violation = line
        m = re.match(r"Progress\((\d+)\) at .*: (\d+) states generated.*?(\d+) distinct states", line)
        if m and simulate is not None:
            r.generated, r.distinct = int(m.group(2)), int(m.group(3))
        m = re.match(r"The number of states generated: (\d+)", line)
        if m:
            r.generated = int(m.group(1)); r.distinct = max(r.distinct, 0)
    if r.violation is None and r.error is None and r.rc != 0:
        # 12 = safety violation, 13 = liveness violation, 10/11 assumption/deadlock
        if r.rc in (10, 11, 12, 13):
            r.violation = "TLC exit %d" % r.rc
        else:
            r.error = "TLC exit %d" % r.rc
    if "Temporal properties were violated" in r.out and r.violation is None:
        r.violation = "temporal"
    if coverage:
        for m in re.finditer(r"<(\w+) line (\d+), col \d+ to line \d+, col \d+ of module (\w+)>: (\d+):(\d+)", r.out):
            r.coverage[m.group(1)] = (int(m.group(4)), int(m.group(5)))
    if keep_out or not r.ok():
        os.makedirs(os.path.join(OUT, "tlc"), exist_ok=True)
        with open(os.path.join(OUT, "tlc", "%s-%s.log" % (module, os.path.basename(cfg))), "w") as f:
            f.write(r.out)
    return r

def tlc_must_pass(what, r):
    """a model-level failure on the spec itself is an infrastructure/model failure (exit 2) unless the
    caller interprets it; used for MC of the design."""
    if r.error:
        sys.stderr.write(r.out[-3000:])
        raise Infra("%s: %s" % (what, r.error))
    return r

# --------------------------------------------------------------------------
# running drivers
# --------------------------------------------------------------------------
def run_driver(exe, args, stdin=None, timeout=1800, env=None):
    e = dict(os.environ)
    e.setdefault("ASAN_OPTIONS", "detect_leaks=0:abort_on_error=0")
    if env: e.update(env)
    t0 = time.time()
    import tempfile
    # stderr goes to a file and only its tail is read: a driver that loops on an error message must not exhaust memory
    with tempfile.TemporaryFile(dir=OUT if os.path.isdir(OUT) else None) as ef:
        try:
            p = subprocess.run([exe] + [str(a) for a in args], input=stdin, stdout=subprocess.PIPE,
                               stderr=ef, timeout=timeout, env=e)
        except subprocess.TimeoutExpired:
            raise Infra("driver %s timed out after %ds" % (os.path.basename(exe), timeout))
        size = ef.seek(0, 2)
        ef.seek(max(0, size - (4 << 20)))
        se = ef.read().decode(errors="replace")
    return p.returncode, p.stdout.decode(errors="replace"), se, time.time() - t0

def write_ndjson(path, items):
    os.makedirs(os.path.dirname(path), exist_ok=True)
    with open(path, "w") as f:
        for it in items:
            f.write(json.dumps(it, separators=(",", ":")) + "\n")

def read_ndjson(path):
    out = []
    with open(path) as f:
        for line in f:
            line = line.strip()
            if line:
                out.append(json.loads(line))
    return out

# --------------------------------------------------------------------------
# findings + evidence
# --------------------------------------------------------------------------
def known_findings():
    p = os.path.join(VERIF, "known_findings.json")
    if not os.path.exists(p):
        return {"findings": [], "fixed": []}
    return json.load(open(p))

class Check:
    """one run of one property's check"""
    def __init__(self, pid, tier, seed, level):
        self.pid, self.tier, self.seed, self.level = pid, tier, seed, level
        self.t0 = time.time()
        self.cov = {"states": 0, "transitions": 0, "traces_validated_against_impl": 0, "samples": [],
                    "evaluations": 0, "distinct_nontrivial": 0, "rule": "", "parts": {}}
        self.assumptions = []
        self.violations = 0
        self.known_hit = []
        self.kf = known_findings()
        self._distinct = set()
        os.makedirs(os.path.join(OUT, pid), exist_ok=True)

    # --- accounting
    def add_tlc(self, name, r):
        self.cov["states"] += r.distinct
        self.cov["transitions"] += r.generated
        self.cov["parts"][name] = {"tlc_distinct_states": r.distinct, "tlc_states_generated": r.generated,
                                   "depth": r.depth, "wall_s": round(r.wall, 1)}
    def add_cases(self, name, n_eval, keys, trivial=0):
        """keys: iterable of hashable case identities that are non-trivial"""
        self.cov["evaluations"] += n_eval
        before = len(self._distinct)
        for k in keys:
            self._distinct.add((name, k))
        self.cov["parts"].setdefault(name, {}).update({"cases": n_eval, "distinct_nontrivial": len(self._distinct) - before})
        self.cov["distinct_nontrivial"] = len(self._distinct)
    def add_traces(self, n):
        self.cov["traces_validated_against_impl"] += n
    def sample(self, s, limit=6):
        if len(self.cov["samples"]) < limit:
            self.cov["samples"].append(s)
    def part(self, name, **kw):
        self.cov["parts"].setdefault(name, {}).update(kw)

    # --- verdicts
    def violation(self, key, what, replay_obj=None, replay_path=None):
        """key identifies the failing call site/input class; a listed key is a KNOWN-FINDING"""
        for f in self.kf.get("findings", []):
            if f.get("property") == self.pid and f.get("key") == key:
                if key not in self.known_hit:
                    self.known_hit.append(key)
                    print("KNOWN-FINDING: property=%s %s" % (self.pid, f.get("description", what)), flush=True)
                return False
        self.violations += 1
        if replay_path is None:
            replay_path = os.path.join(OUT, self.pid, "violation-%d.json" % self.violations)
            with open(replay_path, "w") as f:
                json.dump({"property": self.pid, "key": key, "what": what, "case": replay_obj}, f, indent=1)
        print("VIOLATION property=%s replay=%s" % (self.pid, replay_path), flush=True)
        print("  key=%s: %s" % (key, what), flush=True)
        return True

    def finish(self):
        os.makedirs(EVID, exist_ok=True)
        if not self.cov["samples"]:
            self.cov["samples"] = ["(no sample recorded)"]
        ev = {"property_id": self.pid, "tier": self.tier, "seed": self.seed, "level": self.level,
              "coverage": self.cov, "assumptions": self.assumptions,
              "wall_s": round(time.time() - self.t0, 1), "violations": self.violations}
        if self.known_hit:
            ev["known_findings_hit"] = self.known_hit
        tmp = os.path.join(EVID, self.pid + ".json.tmp")
        with open(tmp, "w") as f:
            json.dump(ev, f, indent=1)
        os.rename(tmp, os.path.join(EVID, self.pid + ".json"))
        log("%s %s: states=%d transitions=%d traces=%d evaluations=%d distinct=%d violations=%d wall=%.0fs" % (
            self.pid, self.tier, self.cov["states"], self.cov["transitions"], self.cov["traces_validated_against_impl"],
            self.cov["evaluations"], self.cov["distinct_nontrivial"], self.violations, time.time() - self.t0))
        return 1 if self.violations else 0
