"""Scratch check X_ROT: runs checks/rotation_common.py for all three parts (C03 honest, C04 false statements,
C05 replaced lines / public inputs) until the lead has wired it into c03/c04/c05.
   bin/check x_rotation --tier quick            X_ROT_PARTS=C04 restricts the parts"""
import os
import vlib, rotation_common

PID = "X_ROT"

def run(tier, seed):
    ck = vlib.Check(PID, tier, seed, "model_checking")
    # the finding reported to the lead (listed for C05 in known_findings.json once the part is wired in)
    ck.kf.setdefault("findings", []).append({"property": PID, "key": "rotation:BoundPub:nonmember-statement-component",
        "description": "the rotation verifiers do not check that the statement consists of group elements: a component replaced by "
                       "a non-member (e.g. its negative) is accepted whenever the exponent it meets kills the difference (probability 1/2)"})
    n = 0
    for part in os.environ.get("X_ROT_PARTS", "C03,C04,C05").split(","):
        n += rotation_common.run(ck, PID, tier, seed, part, mc=not os.environ.get("X_ROT_NOMC"))
    if n == 0 and not ck.violations:
        raise vlib.Infra("no execution was validated")
    ck.cov["rule"] = ("rotation argument (PUB-ROT-ZK, EXP-ZK): TLC evaluates spec/Rotation.tla exhaustively in p=23/47 (MC_Rotation.tla) and "
                      "validates recorded executions of the real prover and verifier (RotationTrace.tla); non-trivial = an execution in "
                      "which the verifier was reached; distinct = (seed, index, part)")
    ck.cov["exhaustive"] = False
    return ck.finish()

def replay(path, seed):
    ck = vlib.Check(PID, "quick", seed, "model_checking")
    rotation_common.replay(ck, PID, path)
    ck.cov["states"] = max(ck.cov["states"], 1); ck.cov["transitions"] = max(ck.cov["transitions"], 1)
    return ck.finish()
