"""C18 - oblivious transfer delivers exactly the chosen message (NaorPinkasEOTP: 1-of-2, 1-of-N, optimised 1-of-N).

  MC : spec/OT.tla + OTProto.tla (the protocol from the paper, one action per move, the network as an action)
       explored exhaustively by TLC in the groups p=7, 11, 23 (MC_OT_*.cfg): every index, message vectors incl. 1
       and repeats, every chooser coin, sender coins from a range, every first move of the mutation catalogue;
       invariants Correct / HonestAbort / Refusal / OneOnly / Curious / CuriousPairs; the slot theorem (algebra,
       exact set of coins for which a non-chosen slot opens, uniformity of (w, key) for c # ab) for all
       (a, b, c, s, r, m) of the group.
  A  : spec/OTGen.tla - TLC enumerates cases (all (a, b[, c]) in small groups, sampled elsewhere, N up to 64, coins
       of both parties, malformed first moves at every position) and prints them with the expected first move,
       verdicts, answer, output and curious decryptions; harness/drv_ot.cc runs the real chooser and sender with the
       coins dictated; the comparison below is field by field.
  B  : seeded random executions of the real code (random groups p <= 46337, N up to 64, man-in-the-middle
       mutations, forced collisions / zero blinding exponents) are logged and validated by TLC against
       spec/OTTrace.tla (every value recomputed from the logged coins, the invariants evaluated in every state).
"""
import os, json, time, concurrent.futures as cf
import vlib, tracecheck
from vlib import OUT, SPEC

PID = "C18"
MC_QUICK = ["thm23q", "two23q", "two11q", "n7q", "n11q", "opt23q", "tamper23q"]
MC_THOROUGH = ["thm23", "thm47", "thm11", "thm7", "two23", "two23w", "two11", "n7", "n11", "n23", "opt23", "opt7",
               "tamper23", "tamper7"]

def d(*p):
    x = os.path.join(OUT, PID, *p)
    os.makedirs(os.path.dirname(x), exist_ok=True)
    return x

# ----------------------------------------------------------------------------------------------- A
def zclass(c, pos):
    """which element of the first move a position (1-based) is"""
    if pos == 1: return "x"
    if pos == 2: return "y"
    if c["var"] == "opt" or pos == 3: return "z0"
    return "zlast" if pos == c["N"] + 2 else "zmid"

def compare(c, r):
    """c: case printed by TLC (inputs and expectations), r: raw results of the real code.
    Returns a list of (key, what)."""
    bad = []
    v = c["var"]
    refused = (not r["sret"]) or r["sexc"]
    if r["mism"]:
        bad.append(("%s:coin-lengths" % v, "a draw of unexpected length was made while coins were dictated"))
    if c["k"] == "h":
        if r["q1"] != c["q1"]:
            bad.append(("%s:chooser-first-move" % v, "the chooser wrote %s, the specification says %s" % (r["q1"], c["q1"])))
        if r["cdraws"] != c["cc"]:
            bad.append(("%s:chooser-coins" % v, "the chooser drew %s, dictated were %s" % (r["cdraws"], c["cc"])))
    if c["sok"]:
        if refused:
            bad.append(("%s:sender-refuses-valid-query" % v, "the sender refused (ret=%s exc=%s) a query that passes the guards" % (r["sret"], r["sexc"])))
        else:
            if r["a2"] != c["a2"]:
                bad.append(("%s:sender-answer" % v, "the sender answered %s, the specification says %s" % (r["a2"], c["a2"])))
            if r["sdraws"] != c["sc"]:
                bad.append(("%s:sender-coins" % v, "the sender drew %s, dictated were %s (fresh (r, s) per message)" % (r["sdraws"], c["sc"])))
    else:
        why = "coinciding exponents" if c["k"] == "h" else "%s at %s" % (c["mut"], zclass(c, c["pos"]))
        if not refused:
            bad.append(("%s:sender-answers-bad-query:%s" % (v, why.replace(" ", "-")), "the sender answered a first move it must refuse (%s): %s" % (why, c.get("d1", c.get("q1")))))
        if r["a2"]:
            bad.append(("%s:sender-writes-on-refusal" % v, "the sender wrote %s although it must refuse" % r["a2"]))
    if c["k"] == "h":
        cok = r["cret"] and not r["cexc"]
        if c["cok"]:
            if not cok:
                bad.append(("%s:chooser-fails" % v, "the chooser failed (ret=%s exc=%s) on a valid answer" % (r["cret"], r["cexc"])))
            elif r["out"] != c["out"] or r["out"] != c["M"][c["sigma"]]:
                bad.append(("%s:chooser-output" % v, "the chooser output %s, the message of its index is %s" % (r["out"], c["M"][c["sigma"]])))
        elif cok:
            bad.append(("%s:chooser-output-after-refusal" % v, "the chooser returned true (output %s) although the sender must refuse" % r["out"]))
        if c["sok"] and not refused and r["a2"] == c["a2"] and r["dec"] != c["dec"]:
            bad.append(("%s:curious-decryption" % v, "opening all slots with b gives %s, the specification says %s" % (r["dec"], c["dec"])))
    return bad

def nontrivial_key(c):
    """a case is non-trivial when the sender answers (a complete transfer) or refuses a mutated / colliding move;
    distinct = distinct (group, variant, N, sigma, kind, verdict, mutation, position class)"""
    return json.dumps([c["grp"][0], c["var"], c["N"], c["sigma"], c["k"], c["sok"], c.get("mut"), zclass(c, c["pos"]) if "pos" in c else None,
                       c["cc"][:3] if c["k"] == "h" and c["grp"][0] <= 23 else None])

def gen_tlc(tier, seed):
    cfgp = d("gen", "GEN_OT_%s.cfg" % tier)
    with open(cfgp, "w") as f:
        f.write('SPECIFICATION Spec\nCONSTANTS\n Tier = "%s"\n Seed = %d\nINVARIANTS Theorems Emit\nCHECK_DEADLOCK FALSE\n' % (tier, seed % 1000003))
    return cfgp, vlib.tlc("OTGen", cfgp, workers=8 if tier == "quick" else 12, timeout=900 if tier == "quick" else 3000, xmx="6g")

def gen_cases(ck, cfgp, r):
    if r.error:
        raise vlib.Infra("TLC OTGen: %s" % r.error)
    ck.add_tlc("OTGen", r)
    if r.violation:
        ck.violation("model:OTGen", "a theorem of OTGen.tla fails on a generated case: %s" % r.violation,
                     replay_path=os.path.join(OUT, "tlc", "OTGen-%s.log" % os.path.basename(cfgp)))
    cases = [c for c in r.printed if isinstance(c, dict) and "k" in c and "grp" in c]
    if len(cases) < 100:
        raise vlib.Infra("OTGen printed only %d cases" % len(cases))
    return cases

def run_cases(ck, exe, cases, tag, prefix=""):
    cp, rp = d("cases-%s.ndjson" % tag), d("results-%s.ndjson" % tag)
    vlib.write_ndjson(cp, cases)
    rc, so, se, _ = vlib.run_driver(exe, ["replay", cp, rp])
    if rc != 0:
        raise vlib.Infra("drv_ot replay failed (rc=%d): %s %s" % (rc, so[-400:], se[-400:]))
    res = vlib.read_ndjson(rp)
    if len(res) != len(cases):
        raise vlib.Infra("drv_ot replay: %d results for %d cases" % (len(res), len(cases)))
    seen = {}
    for c, r in zip(cases, res):
        if r["id"] != c["id"]:
            raise vlib.Infra("drv_ot replay: results out of order")
        for key, what in compare(c, r):
            key = prefix + key
            if key in seen:
                seen[key][0] += 1
                continue
            seen[key] = [1, what, c, r]
    for key, (n, what, c, r) in sorted(seen.items()):
        ck.violation(key, "%s  [%d case(s); first: group %s %s N=%d sigma=%d M=%s coins chooser=%s sender=%s]" % (
            what, n, c["grp"], c["var"], c["N"], c["sigma"], c["M"], c.get("cc"), c["sc"]), replay_obj={"case": c, "result": r})
    return res

# ----------------------------------------------------------------------------------------------- B
def classify(ev, r):
    if r.violation and "Invariant" in r.violation:
        return "trace:invariant:" + r.violation.split()[2]
    k = ev.get("e", "?")
    if k == "Send":
        return "trace:Send-%s" % ("answered" if ev.get("ret") else ("exception" if ev.get("exc") else "refused"))
    if k == "Choose2":
        return "trace:Choose2-%s" % ("output" if ev.get("ret") else ("exception" if ev.get("exc") else "failed"))
    return "trace:" + k

def record(exe, seed, nexec, chunks):
    def rec(k):
        tp = d("trace-rand-%d.ndjson" % k)
        rc, so, se, _ = vlib.run_driver(exe, ["record", seed * 1000 + k, nexec // chunks, tp])
        if rc != 0:
            raise vlib.Infra("drv_ot record failed: %s %s" % (so[-400:], se[-400:]))
        return tp
    with cf.ThreadPoolExecutor(max_workers=min(8, chunks)) as ex:
        tps = list(ex.map(rec, range(chunks)))
    merged = d("trace-rand.ndjson")
    with open(merged, "w") as f:
        for t in tps:
            f.write(open(t).read()); os.unlink(t)
    return merged

def exec_key(x):
    """an execution is non-trivial when the sender was reached; distinct = (seed, index)"""
    return json.dumps([x[0]["src"]["seed"], x[0]["src"]["idx"]])

# ----------------------------------------------------------------------------------------------- run
def run(tier, seed):
    ck = vlib.Check(PID, tier, seed, "model_checking")
    quick = tier == "quick"
    exe = vlib.build_driver("drv_ot", extra_src=["seam_rng.cc"])
    vlib.log("driver ready at %.0fs" % (time.time() - ck.t0))
    pool = cf.ThreadPoolExecutor(max_workers=16)
    # ---- MC of the design (in the background while A and B run)
    def mc(c):
        return c, vlib.tlc("MC_OT", "MC_OT_%s.cfg" % c, workers=2 if quick else 4, timeout=900 if quick else 3300, xmx="3g" if quick else "8g")
    mcf = [pool.submit(mc, c) for c in (MC_QUICK if quick else MC_THOROUGH)]
    # ---- B: record and validate (the case generator of A runs meanwhile)
    nexec, chunks = (480, 8) if quick else (8000, 16)
    merged = record(exe, seed, nexec, chunks)
    execs = tracecheck.split_executions(merged)
    vlib.log("recorded %d executions at %.0fs" % (len(execs), time.time() - ck.t0))
    gf = pool.submit(gen_tlc, tier, seed)
    nB = tracecheck.validate(ck, PID, "rand", "OTTrace", "OTTrace.cfg", execs, classify, 8 if quick else 12)
    vlib.log("trace validation done at %.0fs (%d accepted)" % (time.time() - ck.t0, nB))
    # ---- A: TLC-generated cases on the real code
    cases = gen_cases(ck, *gf.result())
    vlib.log("%d cases generated at %.0fs" % (len(cases), time.time() - ck.t0))
    run_cases(ck, exe, cases, "tlc")
    ck.add_cases("tlc-cases", len(cases), set(nontrivial_key(c) for c in cases if c["sok"] or c["k"] == "t" or c.get("coll")))
    hs = [c for c in cases if c["k"] == "h" and c["sok"]]
    ts = [c for c in cases if c["k"] == "t" and not c["sok"]]
    def pick(pred):
        return next((c for c in cases if pred(c)), None)
    for c in [pick(lambda c: c["k"] == "h" and c["sok"] and c["grp"][0] == 23 and c["var"] == "two"),
              pick(lambda c: c["k"] == "h" and c["sok"] and c["var"] == "n" and c["grp"][0] >= 47 and 3 <= c["N"] <= 5),
              pick(lambda c: c["k"] == "h" and not c["sok"] and c["grp"][0] == 23 and c["var"] == "n"),
              pick(lambda c: c["k"] == "t" and not c["sok"] and c["grp"][0] == 23 and c["mut"] == "dupprev" and c["pos"] > 3)]:
        if c is not None:
            ck.sample({"tlc_case": c})
    ck.part("tlc-cases", honest_answered=len(hs), honest_refused=len([c for c in cases if c["k"] == "h" and not c["sok"]]),
            malformed_refused=len(ts), malformed_answered=len([c for c in cases if c["k"] == "t" and c["sok"]]),
            max_N=max(c["N"] for c in cases), groups=sorted(set(c["grp"][0] for c in cases)))
    vlib.log("replay compared at %.0fs" % (time.time() - ck.t0))
    if os.environ.get("C18_NDEBUG"):
        # opt-in: the same cases on the class compiled with NDEBUG (`./configure --disable-assert`), see notes/C18.md
        exe_nd = vlib.build_driver("drv_ot_nd", extra_src=["seam_rng.cc"])
        run_cases(ck, exe_nd, cases, "tlc-ndebug", prefix="ndebug:")
        ck.part("tlc-cases-ndebug", cases=len(cases))
    reached = [x for x in execs if any(e["e"] == "Send" for e in x)]
    ck.add_cases("recorded-executions", len(execs), set(exec_key(x) for x in reached))
    ck.part("recorded-executions", answered=sum(1 for x in execs for e in x if e["e"] == "Send" and e["ret"]),
            refused=sum(1 for x in execs for e in x if e["e"] == "Send" and not e["ret"]),
            mitm=sum(1 for x in execs if x[0]["mode"] == "mitm"), max_N=max(x[0]["N"] for x in execs),
            groups=len(set(tuple(x[0]["grp"]) for x in execs)))
    for x in [x for x in execs if x[0]["mode"] == "mitm"][:1] + execs[:1]:
        ck.sample({"recorded_execution": x})
    # ---- collect MC
    for fu in mcf:
        c, r = fu.result()
        if r.error:
            raise vlib.Infra("TLC MC_OT %s: %s" % (c, r.error))
        ck.add_tlc("MC_OT_" + c, r)
        if r.violation:
            ck.violation("model:" + c, "MC_OT (%s): %s" % (c, r.violation), replay_path=os.path.join(OUT, "tlc", "MC_OT-MC_OT_%s.cfg.log" % c))
        elif r.distinct < 10:
            raise vlib.Infra("MC_OT %s explored only %d states" % (c, r.distinct))
    pool.shutdown()
    # vacuity guards: the interesting antecedents must have occurred in this run
    def opens_other(c):
        return any(t != c["sigma"] and c["dec"][t] == c["M"][t] for t in range(c["N"]))
    def sent(x):
        return next((e for e in x if e["e"] == "Send"), None)
    vac = {"traces": nB, "cases_answered": len(hs), "cases_malformed_refused": len(ts),
           "cases_collision_refused": sum(1 for c in cases if c["k"] == "h" and c["coll"]),
           "cases_curious_slot_opens": sum(1 for c in hs if opens_other(c)),
           "cases_malformed_still_valid": sum(1 for c in cases if c["k"] == "t" and c["sok"]),
           "exec_collision_refused": sum(1 for x in execs if x[0]["mode"] == "collide" and sent(x) and not sent(x)["ret"]),
           "exec_zero_blinding": sum(1 for x in execs if x[0]["mode"] == "szero" and sent(x) and sent(x)["ret"]),
           "exec_mitm_refused": sum(1 for x in execs if x[0]["mode"] == "mitm" and sent(x) and not sent(x)["ret"]),
           "exec_mitm_answered": sum(1 for x in execs if x[0]["mode"] == "mitm" and sent(x) and sent(x)["ret"])}
    ck.part("vacuity", **vac)
    if min(vac.values()) == 0:
        raise vlib.Infra("vacuous run: %s" % vac)
    ck.cov["rule"] = ("TLC BFS over OTProto.tla in the groups p=7,11,23 (every index, chooser coin, first-move mutation; sender coins "
                      "from a range) and the slot theorem over all (a,b,c,s,r,m); TLC-enumerated cases (OTGen.tla: all (a,b[,c]) in "
                      "p<=23, LCG-sampled from the seed elsewhere, N<=64) executed on NaorPinkasEOTP with dictated coins and compared "
                      "field by field; seeded random executions recorded and validated against OTTrace.tla. Non-trivial: the sender "
                      "was reached and answered, or refused a colliding / mutated first move; distinct = (group, variant, N, sigma, "
                      "kind, verdict, mutation, position class[, a,b,c in p<=23]) for cases, (seed, index) for executions")
    ck.cov["exhaustive"] = False
    ck.assumptions += ["groups with p <= 46337 (TLC integers); operand-size dependent arithmetic is C09's",
                       "optimised 1-of-N: N <= q (z_0 g^i must not wrap; always true for cryptographic q)",
                       "the order in which a party's draws are used (OT.tla 'coins') is read off the implementation; "
                       "the values computed from them are the paper's",
                       "the curious chooser is the harness computing e_j / w_j^b on the real wire values",
                       "hiding of non-chosen messages is shown as the exact opening condition s_j (c_j - ab) = 0 and, at the "
                       "specification level, uniformity of (w_j, key_j); computational (DDH) arguments are outside the model"]
    return ck.finish()

def replay(path, seed):
    ck = vlib.Check(PID, "quick", seed, "model_checking")
    exe = vlib.build_driver("drv_ot", extra_src=["seam_rng.cc"])
    if path.endswith(".ndjson"):
        execs = tracecheck.split_executions(path)
        n = tracecheck.validate(ck, PID, "replay", "OTTrace", "OTTrace.cfg", execs, classify, 1)
        ck.add_cases("replayed-executions", len(execs), set(exec_key(x) for x in execs))
    else:
        obj = json.load(open(path))
        c = obj["case"]["case"] if "case" in obj.get("case", {}) else obj["case"]
        run_cases(ck, exe, [c], "replay")
        ck.add_cases("replayed-case", 1, [nontrivial_key(c)])
        ck.sample({"tlc_case": c})
    ck.cov["states"] = max(ck.cov["states"], 1); ck.cov["transitions"] = max(ck.cov["transitions"], 1)
    return ck.finish()
