"""Zero-knowledge proofs of the quadratic-residue (Schindelhauer) card encoding: part of C01 / C03 / C04 / C05.

  spec/QRProof.tla       the QR / NQR / MaskValue / MaskOne / perfect-ZK-NQR protocols as defined, the two roles as
                         stream programs, the cheating provers of the soundness statements
  spec/MC_QRProof.tla    exhaustive theorems in m = 21 and m = 77 (MC_QRProof_<part>_<q|t><n>.cfg)
  spec/QRProofTrace.tla  recomputes every line, draw and verdict of executions recorded from the real functions
  harness/drv_qrproof.cc prover against verifier over in-memory streams, guessing / lying / zero provers, relay

  run(ck, pid, tier, seed, part)   part in C01 C03 C04 C05; reports through ck, returns nothing

Families of recorded executions: open (C01)  honest (C03)  false + typechange (C04)  mut + zero (C05).
Keys of the two defects found while building (see DESIGN section 3 / known_findings.json):
  qrproof:maskcard-type-changing-mask-accepted   every per-entry proof is valid, only the column parity of the secret is
                                                 wrong: the executions validate with Strict = FALSE and fail with TRUE
  qrproof:maskvalue-non-unit-accepted            the prover that sends only zeros is accepted (repaired: fea3dcd)
  qrproof:stackequality-type-changing-secret-accepted   the same gap in the cut-and-choose stack proof of TMCG_Card stacks
Opt-in: QRP_STRICT_MASKONE=1 validates the honest family against the DEFINITION of the MaskOne verifier (private code).
"""
import os, json, time, concurrent.futures as cf
import vlib, tracecheck
from vlib import OUT

KEY_TYPE = "qrproof:maskcard-type-changing-mask-accepted"
KEY_UNIT = "qrproof:maskvalue-non-unit-accepted"
KEY_MASKONE = "qrproof:maskone-verifier-parity-of-square"
KEY_STACK = "qrproof:stackequality-type-changing-secret-accepted"

MC = {
    ("C01", "quick"): ["C01_q"], ("C01", "thorough"): ["C01_q"],
    ("C03", "quick"): ["C03_q", "C03_qd"], ("C03", "thorough"): ["C03_t", "C03_td"],
    ("C04", "quick"): ["C04_q", "C04_qd"], ("C04", "thorough"): ["C04_t", "C04_td"],
    ("C05", "quick"): ["C05_q", "C05_qd"], ("C05", "thorough"): ["C05_t", "C05_td"],
}
# family -> (executions quick, executions thorough)
FAMILIES = {"C01": [("open", 40, 600)],
            "C03": [("honest", 90, 1500)],
            "C04": [("false", 120, 2000), ("typechange", 10, 60), ("stackeq", 8, 40)],
            "C05": [("mut", 150, 2500), ("zero", 10, 60)]}

def d(pid, *p):
    x = os.path.join(OUT, pid, "qrproof", *p)
    os.makedirs(os.path.dirname(x), exist_ok=True)
    return x

def describe(ev):
    if ev.get("e") != "Proof":
        return str(ev.get("e"))
    mu = ev.get("mut", {}).get("kind", "none")
    return "%s-%s%s-%s" % (ev.get("proto"), ev.get("pm"), "" if mu == "none" else "-mut-" + mu,
                           "accepted" if ev.get("acc") else ("exception" if ev.get("vexc") else "refused"))

def classify(ev, r):
    if ev.get("e") == "Proof" and ev.get("pm") == "zero" and ev.get("acc"):
        return KEY_UNIT
    return "qrproof:trace:" + describe(ev)

def classify_strict(ev, r):
    # only reached for executions that validate with Strict = FALSE: the one thing Strict adds is the demand that an
    # accepted mask preserves the type
    if ev.get("e") == "Proof" and ev.get("proto") == "MC" and ev.get("pm") == "alg" and ev.get("acc"):
        return KEY_TYPE
    if ev.get("e") == "StackEq" and ev.get("acc"):
        return KEY_STACK
    return "qrproof:trace-strict:" + describe(ev)

def classify_maskone(ev, r):
    if ev.get("e") == "Proof" and ev.get("proto") in ("MO", "PC", "PZK"):
        return KEY_MASKONE
    return "qrproof:trace-maskone:" + describe(ev)

def record(exe, pid, family, seed, nexec, tier, procs):
    def rec(k):
        tp = d(pid, "trace-%s-%d.ndjson" % (family, k))
        n = nexec // procs + (1 if k < nexec % procs else 0)
        rc, so, se, _ = vlib.run_driver(exe, ["record", family, seed * 1000 + k, n, tp, tier], timeout=1500)
        if rc != 0:
            raise vlib.Infra("drv_qrproof record %s failed (rc=%s): %s %s" % (family, rc, so[-300:], se[-300:]))
        return tp
    with cf.ThreadPoolExecutor(max_workers=procs) as ex:
        tps = list(ex.map(rec, range(procs)))
    execs = []
    for t in tps:
        execs += tracecheck.split_executions(t)
        os.unlink(t)
    return execs

def proofs(execs):
    return [e for x in execs for e in x if e["e"] == "Proof"]

def case_key(e):
    return json.dumps([e["proto"], e["pm"], e["mut"]["kind"], e["acc"], e["vexc"], e["pst"], e["kv"], e["key"]["m"] if "key" in e else None])

def run_mc(ck, pid, part, tier, pool):
    quick = tier == "quick"
    def one(c):
        return c, vlib.tlc("MC_QRProof", "MC_QRProof_%s.cfg" % c, workers=2 if quick else 4, timeout=900 if quick else 3000, xmx="3g")
    futs = [pool.submit(one, c) for c in MC[(part, tier)]]
    if part == "C04":
        futs.append(pool.submit(one, "C04_gap"))
    return futs

def collect_mc(ck, pid, futs):
    for fu in futs:
        c, r = fu.result()
        if r.error:
            raise vlib.Infra("TLC MC_QRProof %s: %s" % (c, r.error))
        ck.add_tlc("MC_QRProof_" + c, r)
        log = os.path.join(OUT, "tlc", "MC_QRProof-MC_QRProof_%s.cfg.log" % c)
        if c == "C04_gap":
            # the property's demand on the card-level mask proof: the model of the protocol as implemented must NOT
            # satisfy it (that is the known finding); if TLC finds no counterexample the model is wrong
            if not r.violation:
                raise vlib.Infra("MC_QRProof C04_gap: TLC found no type-changing mask that is accepted - the model lost deviation D4")
            ck.part("MC_QRProof_" + c, expected_counterexample=True)
            continue
        if r.violation:
            ck.violation("qrproof:model:" + c, "MC_QRProof (%s): %s" % (c, r.violation), replay_path=log)
        elif r.distinct < 10:
            raise vlib.Infra("MC_QRProof %s explored only %d states" % (c, r.distinct))

def run(ck, pid, tier, seed, part):
    quick = tier == "quick"
    t0 = time.time()
    exe = vlib.build_driver("drv_qrproof", extra_src=["seam_rng.cc"])
    pool = cf.ThreadPoolExecutor(max_workers=6 if quick else 5)
    futs = run_mc(ck, pid, part, tier, pool)
    vac = {}
    recorded = []
    for family, nq, nt in FAMILIES[part]:
        n = nq if quick else nt
        recorded.append((family, n, record(exe, pid, family, seed, n, tier, 2 if quick else 8)))
    vlib.log("qrproof %s: %s recorded at %.0fs" % (part, ", ".join("%d x %s" % (len(x), f) for f, _, x in recorded), time.time() - t0))
    for family, n, execs in recorded:
        chunks = (1 if n <= 20 else 3) if quick else (2 if n <= 100 else 10)
        tag = "qrp-" + family
        ok = tracecheck.validate(ck, pid, tag, "QRProofTrace", "QRProofTrace.cfg", execs, classify, chunks)
        pr = proofs(execs)
        ck.add_cases("qrproof-" + family, len(pr), set(case_key(e) for e in pr))
        vac["%s_validated" % family] = ok
        if family in ("typechange", "stackeq") and ok:
            # the same executions under the property's demand (Strict): every one that is refused now is explained
            # exactly by the missing column-parity test, because it was a behaviour of the specification without it
            ck2_before = ck.cov["traces_validated_against_impl"]
            tracecheck.validate(ck, pid, tag + "-strict", "QRProofTrace", "QRProofTrace_strict.cfg", execs, classify_strict, chunks)
            ck.cov["traces_validated_against_impl"] = ck2_before          # not counted twice
        if family == "honest" and os.environ.get("QRP_STRICT_MASKONE"):
            before = ck.cov["traces_validated_against_impl"]
            tracecheck.validate(ck, pid, tag + "-maskone", "QRProofTrace", "QRProofTrace_maskone.cfg", execs, classify_maskone, chunks)
            ck.cov["traces_validated_against_impl"] = before
        # vacuity: what must have occurred
        def cnt(pred):
            return sum(1 for e in pr if pred(e))
        if family == "open":
            vac["open_types"] = sum(1 for x in execs for e in x if e["e"] == "Type")
            vac["open_openings_accepted"] = cnt(lambda e: e["proto"] == "CS" and e["acc"])
        if family == "honest":
            for p in ("QR", "NQR", "MV", "MC", "CS"):
                vac["honest_%s_accepted" % p] = cnt(lambda e: e["proto"] == p and e["acc"] and e["kv"] > 0)
            vac["honest_maskone_runs"] = cnt(lambda e: e["proto"] in ("MO", "PC", "PZK"))
        if family == "false":
            vac["guess_accepted"] = cnt(lambda e: e["pm"] == "guess" and e["acc"] and e["kv"] > 0)
            vac["guess_refused"] = cnt(lambda e: e["pm"] == "guess" and not e["acc"])
            vac["lie_accepted"] = cnt(lambda e: e["pm"] == "lie" and e["acc"] and e["kv"] > 0)
            vac["lie_refused"] = cnt(lambda e: e["pm"] == "lie" and not e["acc"])
            vac["wrong_witness_refused"] = cnt(lambda e: e["pm"] == "alg" and e["proto"] in ("MV", "MC", "MO", "PC") and not e["acc"])
        if family == "mut":
            vac["mutated_refused"] = cnt(lambda e: e["mut"]["kind"] != "none" and not e["acc"])
            vac["mutated_accepted"] = cnt(lambda e: e["mut"]["kind"] != "none" and e["acc"] and e["kv"] > 0)
        if family in ("typechange", "zero"):
            vac[family + "_runs"] = len(pr)
        if family == "stackeq":
            vac["stackeq_runs"] = sum(1 for x in execs for e in x if e["e"] == "StackEq")
        for e in pr[:1]:
            ck.sample({"recorded_proof": {k: e[k] for k in e if k not in ("pc", "vc")}})
    collect_mc(ck, pid, futs)
    pool.shutdown()
    ck.part("qrproof-vacuity-" + part, **vac)
    if min(vac.values()) == 0 and ck.violations == 0 and not ck.known_hit:
        raise vlib.Infra("qrproof %s: vacuous run: %s" % (part, vac))
    vlib.log("qrproof %s done at %.0fs" % (part, time.time() - t0))

RULE = ("QR encoding proofs: TLC BFS over MC_QRProof (every statement, witness, coin, challenge string for 1-3 rounds in "
        "m=21/77: completeness with exact exceptional sets, guessing prover accepted for exactly its string, special "
        "soundness over every commitment, binding under the mutation catalogue); executions of the real prover/verifier "
        "functions (honest, guessing / lying / zero provers with dictated verifier coins, one line changed by a relay) "
        "validated line by line against QRProofTrace.tla. distinct = (protocol, prover kind, mutation, verdict, how either "
        "party ended, kappa, modulus)")
ASSUMPTIONS = ["Blum moduli m <= 46337 (TLC integers) with gcd(m, phi(m)) = 1 (the library's key precomputation needs it)",
               "TMCG_VerifyMaskOne is modelled as coded (parity of r^2 instead of the received bit): private, unreachable from the public API",
               "a swap of two lines is judged by the exact verdict only (it changes two values)",
               "zero knowledge (simulatability) is not examined"]

def replay(ck, pid, path):
    execs = tracecheck.split_executions(path)
    fam = execs[0][0].get("src", {}).get("family", "") if execs else ""
    ok = tracecheck.validate(ck, pid, "qrp-replay", "QRProofTrace", "QRProofTrace.cfg", execs, classify, 1)
    if fam in ("typechange", "stackeq") and ok:
        tracecheck.validate(ck, pid, "qrp-replay-strict", "QRProofTrace", "QRProofTrace_strict.cfg", execs, classify_strict, 1)
    pr = proofs(execs)
    ck.add_cases("qrproof-replay", len(pr), set(case_key(e) for e in pr))
