"""C15 / C16: multi-party sharing and signing protocols run under the deterministic simulator (harness/drv_dkg.cc),
results judged by spec/DKGTrace.tla"""
import os, json, concurrent.futures as cf
import vlib, tracecheck
from vlib import OUT

# the listed findings this machinery knows how to recognise: key -> (constant of DKGTrace.tla that tolerates it,
# protocol, explicit configuration of an execution that shows it (drv_dkg one <json>), recogniser)
def erased(x):
    """a good party was qualified in the sharing of x but is missing from the final QUAL"""
    for e in x:
        if e.get("e") == "Out" and e.get("ret") and "xq" in e and sorted(e["xq"]) != sorted(e.get("qual", [])):
            return True
    return False

def erased_bad_signature(x):
    return erased(x) and any(e.get("e") == "Out" and e.get("role") == 0 and ((e.get("sret") and not e.get("ver")) or
                                                                           (e.get("sret2") and not e.get("ver2"))) for e in x)

def withheld_split(x):
    """dealer stopped dealing (role 4) and the honest parties took different decisions about it"""
    r0 = x[0]
    if r0.get("proto") != "vss":
        return False
    outs = [e for e in x if e.get("e") == "Out" and e.get("role") == 0]
    if not outs or r0["role"][outs[0]["dealer"]] != 4:
        return False
    return len({bool(e.get("ret")) for e in outs}) > 1

def stopper_fails(x):
    """a party stopped part-way (role 4) in a key generation and an honest party failed it"""
    r0 = x[0]
    if r0.get("proto") not in ("dkg", "dss", "nts") or 4 not in r0["role"]:
        return False
    return any(e.get("e") == "Out" and e.get("role") == 0 and e.get("ret") is False for e in x)

K7_TRIGGER = {"cut_after": [-1, 160, -1, -1], "gi": 0, "grp": [2063, 1031, 121, 964], "n": 4, "proto": "dkg", "rnd": True,
              "role": [0, 4, 0, 0], "seed": 13316, "t": 1, "tamper": [-1, -1], "trbc": 1}
K1_TRIGGER = {"cut_after": [-1, -1, -1, -1], "gi": 2, "grp": [46327, 1103, 39443, 18015], "n": 4, "proto": "dss", "rnd": True,
              "role": [0, 0, 0, 1], "seed": 4197, "t": 1, "tamper": [-1, -1], "trbc": 1}
K4_TRIGGER = {"cut_after": [-1, 42, -1, -1], "gi": 2, "grp": [46327, 1103, 24792, 21861], "n": 4, "proto": "vss", "rnd": False,
              "role": [0, 4, 0, 0], "seed": 5012, "t": 1, "tamper": [-1, -1], "trbc": 1}
FINDINGS = {
    "C15": [("cgjkr-dkg-party-erased-from-qual-after-sharing-of-x", "KnownErase", K1_TRIGGER, erased),
            ("vss-dealer-stops-dealing-splits-honest-parties", "KnownWithheld", K4_TRIGGER, withheld_split),
            ("keygen-party-stops-midway-honest-party-fails", "KnownStop", K7_TRIGGER, stopper_fails)],
    "C16": [("cgjkr-dss-signature-under-inconsistent-key", "KnownErase", K1_TRIGGER, erased_bad_signature)],
}

def listed(pid, key=None):
    keys = {f.get("key") for f in vlib.known_findings().get("findings", []) if f.get("property") == pid}
    if key is not None:
        return key in keys
    return any(k in keys for k, _, _, _ in FINDINGS[pid])

def trace_cfg(pid):
    """the configuration of DKGTrace.tla for this property: a deviation is tolerated only while its finding is listed"""
    consts = {"KnownErase": False, "KnownGJKR": False, "KnownWithheld": False, "KnownStop": False, "KeygenStrict": pid == "C15"}
    for key, const, _, _ in FINDINGS[pid]:
        if listed(pid, key):
            consts[const] = True
    d = os.path.join(OUT, pid); os.makedirs(d, exist_ok=True)
    p = os.path.join(d, "DKGTrace-%s.cfg" % pid)
    with open(p, "w") as f:
        f.write("SPECIFICATION TSpec\nCONSTANTS\n" + "".join(" %s = %s\n" % (k, "TRUE" if v else "FALSE") for k, v in sorted(consts.items()))
                + "POSTCONDITION Accepted\nCHECK_DEADLOCK FALSE\n")
    return p

def classify(ev, r):
    return "result-inconsistent"

def report_known(ck, pid, execs, where):
    """a listed finding is tolerated by the trace specification; say so for every listed finding that occurred"""
    hits = {}
    for key, _, _, rec in FINDINGS[pid]:
        hit = [x for x in execs if rec(x)]
        hits[key] = len(hit)
        if hit and listed(pid, key):
            ck.violation(key, "%s: finding occurred in %d of %d executions" % (where, len(hit), len(execs)), replay_obj=hit[0][0])
    return hits

def run_trigger(ck, pid):
    """one explicit execution per finding this property has (or had) listed: always run, so that every run of the check
    re-examines the finding - with the finding listed the deviation must still be there to be reported as known,
    without it the strict specification decides"""
    exe = vlib.build_driver("drv_dkg", extra_src=["seam_rng.cc", "seam_clock.cc"])
    d = os.path.join(OUT, pid); os.makedirs(d, exist_ok=True)
    execs = []
    for k, (key, _, trig, _) in enumerate(FINDINGS[pid]):
        tp = os.path.join(d, "trace-trigger-%d.ndjson" % k)
        rc, so, se, _ = vlib.run_driver(exe, ["one", json.dumps(trig), tp], timeout=1500)
        if rc != 0:
            raise vlib.Infra("drv_dkg failed: %s %s" % (so[-300:], se[-300:]))
        execs += tracecheck.split_executions(tp)
    tracecheck.validate(ck, pid, "trigger", "DKGTrace", trace_cfg(pid), execs,
                        classify=lambda ev, r: "trigger-" + classify(ev, r), chunks=1)
    hits = report_known(ck, pid, execs, "trigger execution")
    ck.part("trigger-executions", executions=len(execs), findings_seen=hits)

def directed(proto, n, t, role, seed, gi=2, grp=(46327, 1103, 39443, 18015), tamper=(-1, -1), cut=None):
    return {"cut_after": cut or [-1] * n, "gi": gi, "grp": list(grp), "n": n, "proto": proto, "rnd": True, "role": role,
            "seed": seed, "t": t, "tamper": list(tamper), "trbc": min(t, (n - 1) // 3)}

def run_directed(ck, pid, configs):
    """explicit executions that every run repeats (deviations the random generator reaches only now and then)"""
    exe = vlib.build_driver("drv_dkg", extra_src=["seam_rng.cc", "seam_clock.cc"])
    d = os.path.join(OUT, pid); os.makedirs(d, exist_ok=True)
    def rec(kc):
        k, c = kc
        tp = os.path.join(d, "trace-directed-%d.ndjson" % k)
        rc, so, se, _ = vlib.run_driver(exe, ["one", json.dumps(c), tp], timeout=1500)
        if rc != 0:
            raise vlib.Infra("drv_dkg failed: %s %s" % (so[-300:], se[-300:]))
        x = tracecheck.split_executions(tp); os.unlink(tp)
        return x
    with cf.ThreadPoolExecutor(max_workers=8) as ex:
        execs = [x for part in ex.map(rec, enumerate(configs)) for x in part]
    tracecheck.validate(ck, pid, "directed", "DKGTrace", trace_cfg(pid), execs,
                        classify=lambda ev, r: "directed-" + classify(ev, r), chunks=4)
    hits = report_known(ck, pid, execs, "directed execution")
    ck.add_cases("directed", len(execs), [json.dumps([x[0]["proto"], x[0]["n"], x[0]["t"], x[0]["role"], x[0]["seed"]]) for x in execs])
    ck.part("directed-executions", executions=len(execs), findings_seen=hits)

def run_proto(ck, pid, proto, nexec, seed, maxn, chunks=8):
    exe = vlib.build_driver("drv_dkg", extra_src=["seam_rng.cc", "seam_clock.cc"])
    d = os.path.join(OUT, pid); os.makedirs(d, exist_ok=True)
    per = max(1, nexec // chunks)
    def rec(k):
        tp = os.path.join(d, "trace-%s-%d.ndjson" % (proto, k))
        rc, so, se, _ = vlib.run_driver(exe, ["run", seed * 100 + k, per, tp, proto, maxn], timeout=3000)
        if rc != 0:
            raise vlib.Infra("drv_dkg failed: %s %s" % (so[-300:], se[-300:]))
        return tp
    with cf.ThreadPoolExecutor(max_workers=chunks) as ex:
        tps = list(ex.map(rec, range(chunks)))
    execs = []
    for tp in tps:
        execs += tracecheck.split_executions(tp); os.unlink(tp)
    n = tracecheck.validate(ck, pid, proto, "DKGTrace", trace_cfg(pid), execs, classify=lambda ev, r: "%s-%s" % (proto, classify(ev, r)), chunks=chunks)
    hits = report_known(ck, pid, execs, "simulated " + proto)
    keys = []
    for x in execs:
        r0 = x[0]
        keys.append(json.dumps([proto, r0["n"], r0["t"], r0["role"], r0["tamper"], r0["seed"]]))
    nontrivial = [k for k, x in zip(keys, execs) if any(e.get("e") == "Out" and e.get("ret") for e in x)]
    ck.add_cases("simulated-" + proto, len(execs), nontrivial)
    ck.part("simulated-" + proto, with_faults=sum(1 for x in execs if any(r != 0 for r in x[0]["role"])),
            known_findings_seen=hits)
    if execs:
        ck.sample({"reset": execs[0][0], "first_result": {k: v for k, v in execs[0][1].items() if k not in ("C", "hv")}})
    return n
