"""C15 / C16: multi-party sharing and signing protocols run under the deterministic simulator (harness/drv_dkg.cc),
results judged by spec/DKGTrace.tla"""
import os, json, concurrent.futures as cf
import vlib, tracecheck
from vlib import OUT

FINDING_KEYS = {"C15": "cgjkr-dkg-party-erased-from-qual-after-sharing-of-x",
                "C16": "cgjkr-dss-signature-under-inconsistent-key"}

def listed(pid):
    return any(f.get("property") == pid and f.get("key") == FINDING_KEYS[pid] for f in vlib.known_findings().get("findings", []))

def erased(x):
    """the trigger of the known finding: a good party was qualified in the sharing of x but not in the final QUAL"""
    for e in x:
        if e.get("e") == "Out" and e.get("ret") and "xq" in e and sorted(e["xq"]) != sorted(e.get("qual", [])):
            return True
    return False

def classify(ev, r):
    return "result-inconsistent"

def run_trigger(ck, pid):
    """the execution that exhibits the recorded finding (n=4, t=1, party 3 with the library's faulty switch): always
    run, so that the finding is re-examined by every run of the check"""
    exe = vlib.build_driver("drv_dkg", extra_src=["seam_rng.cc", "seam_clock.cc"])
    d = os.path.join(OUT, pid); os.makedirs(d, exist_ok=True)
    tp = os.path.join(d, "trace-trigger.ndjson")
    rc, so, se, _ = vlib.run_driver(exe, ["run", 5, 30, tp, "dss", 5], timeout=1500, env={"VERIF_ONLY": "29"})
    if rc != 0:
        raise vlib.Infra("drv_dkg failed: %s %s" % (so[-300:], se[-300:]))
    execs = tracecheck.split_executions(tp)
    known = listed(pid)
    tracecheck.validate(ck, pid, "trigger", "DKGTrace", "DKGTrace_known.cfg" if known else "DKGTrace.cfg", execs,
                        classify=lambda ev, r: FINDING_KEYS[pid], chunks=1)
    if known and any(erased(x) for x in execs):
        ck.violation(FINDING_KEYS[pid], "trigger execution still shows the finding", replay_obj=execs[0][0])

def run_proto(ck, pid, proto, nexec, seed, maxn, chunks=8):
    exe = vlib.build_driver("drv_dkg", extra_src=["seam_rng.cc", "seam_clock.cc"])
    d = os.path.join(OUT, pid); os.makedirs(d, exist_ok=True)
    per = max(1, nexec // chunks)
    def rec(k):
        tp = os.path.join(d, "trace-%s-%d.ndjson" % (proto, k))
        rc, so, se, _ = vlib.run_driver(exe, ["run", seed * 100 + k, per, tp, proto, maxn], timeout=3000)
        if rc != 0:
            raise vlib.Infra("drv_dkg failed: %s %s" % (so[-300:], se[-300:]))
        return tp
    with cf.ThreadPoolExecutor(max_workers=chunks) as ex:
        tps = list(ex.map(rec, range(chunks)))
    execs = []
    for tp in tps:
        execs += tracecheck.split_executions(tp); os.unlink(tp)
    known = listed(pid)
    cfgp = "DKGTrace_known.cfg" if known else "DKGTrace.cfg"
    n = tracecheck.validate(ck, pid, proto, "DKGTrace", cfgp, execs, classify=lambda ev, r: "%s-%s" % (proto, classify(ev, r)), chunks=chunks)
    hit = [x for x in execs if erased(x)]
    if hit and known:
        ck.violation(FINDING_KEYS[pid], "known finding occurred in %d of %d executions" % (len(hit), len(execs)), replay_obj=hit[0][0])
    keys = []
    for x in execs:
        r0 = x[0]
        keys.append(json.dumps([proto, r0["n"], r0["t"], r0["role"], r0["tamper"], r0["seed"]]))
    nontrivial = [k for k, x in zip(keys, execs) if any(e.get("e") == "Out" and e.get("ret") for e in x)]
    ck.add_cases("simulated-" + proto, len(execs), nontrivial)
    ck.part("simulated-" + proto, with_faults=sum(1 for x in execs if any(r != 0 for r in x[0]["role"])),
            known_finding_trigger=len(hit))
    if execs:
        ck.sample({"reset": execs[0][0], "first_result": {k: v for k, v in execs[0][1].items() if k not in ("C", "hv")}})
    return n
