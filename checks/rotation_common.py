"""The rotation argument of de Hoogh, Schoenmakers, Skoric, Villegas (PUB-ROT-ZK + EXP-ZK; classes
HooghSchoenmakersSkoricVillegasPUBROTZK / ...VRHE) with its algebra transcribed: spec/Rotation.tla.

  run(ck, pid, tier, seed, part)   part "C03" completeness / "C04" soundness (exact accepting set) / "C05" binding

  MC : spec/MC_Rotation.tla - TLC evaluates the honest algorithm and the verifier predicate in the groups p=23 (q=11)
       and p=47 (q=23), n = 2..4: completeness for every rotation (pubC, rotC); with a non-fitting witness the exact
       accepting challenge set and its measure (pubS: (2q-1)/q^2, rotS: <= 1/q); one transmitted line replaced (bind):
       number of accepting challenge triples; the sequential runs of the three challenge sources against the
       predicates (runs).
  B  : harness/drv_rotation.cc runs the real prover and verifier of every form against each other (threads, one
       runnable at a time, in-memory pipes that can replace a line) in random groups p <= 46337, n = 2..6, and logs
       draws, lines, oracle calls, verdict; spec/RotationTrace.tla recomputes every line from the logged draws, fixes the
       oracle tuples, predicts the verdict of this very run and evaluates the property invariants.
"""
import os, json, time, re, concurrent.futures as cf
import vlib, tracecheck
from vlib import OUT

MC = {
    ("C03", "quick"): ["pubC_q", "rotC_q", "runs_q"],
    ("C03", "thorough"): ["pubC_t", "pubCx_t", "pubC47_t", "rotC_t", "rotCw_t", "rotC47_t", "runs_t"],
    ("C04", "quick"): ["pubS_q", "rotS_q"],
    ("C04", "thorough"): ["pubS_t", "pubS47_t", "rotS_t", "rotS3_t", "rotS4_t", "rotS47_t"],
    ("C05", "quick"): ["bind_q", "runs_q"],
    ("C05", "thorough"): ["bind_t", "bind47_t", "runs_t"],
}
SWEEP = 720                                   # drv_rotation sweepsize: one pass over (form, source, value class, mutation) of C05
NEXEC = {"quick": 216, "thorough": 3600}
INVS = ["Transport", "ProverLines", "ProverOracle", "ProverCoins", "VerifierOracle", "VerifierLines", "VerifierCoins",
        "Verdict", "Complete", "ExactSet", "BoundPub"]

def _d(pid, *p):
    x = os.path.join(OUT, pid, "rotation", *p)
    os.makedirs(os.path.dirname(x), exist_ok=True)
    return x

def _classify(group):
    def classify(ev, r):
        v = r.violation or ""
        m = re.search(r"Invariant (\w+) is violated", v)
        if m and m.group(1) == "BoundPub":
            return "rotation:BoundPub:nonmember-statement-component" if group == "pubin" else "rotation:BoundPub:unexpected"
        return "rotation:%s" % (m.group(1) if m else "trace:" + str(ev.get("e")))
    return classify

def _describe(x):
    r = x[0]
    ver = next((e for e in x if e["e"] == "Verify"), {})
    return "%s/%s n=%d group %s kind=%s mut=%s target=%s note=%s verdict=%s" % (
        r["form"], r["mode"], r["n"], r["grp"], r["kind"], r["mut"], r["target"], json.dumps(r.get("note")), ver.get("ret"))

def record(exe, pid, seed, nexec, part, chunks, nmax=6):
    def rec(k):
        tp = _d(pid, "trace-%s-%d.ndjson" % (part, k))
        rc, so, se, _ = vlib.run_driver(exe, ["record", seed, nexec // chunks, part, tp, k * (nexec // chunks), nmax], timeout=1500)
        if rc != 0:
            raise vlib.Infra("drv_rotation record failed (rc=%d): %s %s" % (rc, so[-400:], se[-400:]))
        return tp
    with cf.ThreadPoolExecutor(max_workers=min(4, chunks)) as ex:
        tps = list(ex.map(rec, range(chunks)))
    execs = []
    for t in tps:
        execs += tracecheck.split_executions(t)
        os.unlink(t)
    return execs

def run(ck, pid, tier, seed, part, workers=2, mc=True):
    quick = tier == "quick"
    t0 = time.time()
    exe = vlib.build_driver("drv_rotation", extra_src=["seam_rng.cc"])
    pool = cf.ThreadPoolExecutor(max_workers=12)
    def mc_run(c):
        return c, vlib.tlc("MC_Rotation", "MC_Rotation_%s.cfg" % c, workers=workers if quick else 4, timeout=600 if quick else 2400, xmx="3g" if quick else "6g")
    mcf = [pool.submit(mc_run, c) for c in (MC[(part, tier)] if mc else [])]
    # ---- B: record and validate
    nexec, chunks = (SWEEP if quick else 5 * SWEEP) if part == "C05" else NEXEC[tier], (4 if quick else 12)
    execs = record(exe, pid, seed, nexec, part, chunks, 3 if quick else 6)
    vlib.log("rotation %s: recorded %d executions at %.0fs" % (part, len(execs), time.time() - t0))
    stuck = sum(1 for x in execs for e in x if e["e"] == "End" and e.get("stuck"))
    if stuck:
        raise vlib.Infra("drv_rotation: %d executions with a blocked party" % stuck)
    before = ck.violations
    # executions with a changed public input are validated in a group of their own: conformance (every line, draw, oracle
    # call, the verdict) with RotationTrace_conf.cfg, then once more with the property BoundPub switched on.  TLC reports the
    # first violated invariant in the order of the configuration, BoundPub is the last one: a BoundPub report means that the
    # execution conforms in everything else and that the specification PREDICTS this acceptance (invariant Verdict) - the
    # verifier accepted a statement with a changed component that is no group element under an exponent # 0 mod q.
    pubin = [x for x in execs if x[0]["kind"] == "pubin"]
    rest = [x for x in execs if x[0]["kind"] != "pubin"]
    f1 = pool.submit(tracecheck.validate, ck, pid, "rotation-" + part, "RotationTrace", "RotationTrace.cfg", rest, _classify("rest"), 6 if quick else 12)
    f2 = pool.submit(tracecheck.validate, ck, pid, "rotation-" + part + "-pubin-conf", "RotationTrace", "RotationTrace_conf.cfg", pubin, _classify("rest"), 3 if quick else 6)
    nacc = f1.result() + f2.result()
    # BoundPub can only fail where the verifier accepted
    pubacc = [x for x in pubin if any(e["e"] == "Verify" and e.get("ret") for e in x)]
    if pubacc:
        nb = ck.cov["traces_validated_against_impl"]
        tracecheck.validate(ck, pid, "rotation-" + part + "-pubin", "RotationTrace", "RotationTrace.cfg", pubacc, _classify("pubin"), 1)
        ck.cov["traces_validated_against_impl"] = nb          # (the same executions: not counted twice)
    vlib.log("rotation %s: %d executions validated at %.0fs" % (part, nacc, time.time() - t0))
    # ---- accounting
    def ver(x): return next((e for e in x if e["e"] == "Verify"), {})
    def key(x): return json.dumps([x[0]["src"]["seed"], x[0]["src"]["idx"], part])
    ck.add_cases("rotation-%s-executions" % part, len(execs), set(key(x) for x in execs))
    acc = [x for x in execs if ver(x).get("ret")]
    st = {"executions": len(execs), "accepted": len(acc), "refused": len(execs) - len(acc),
          "forms": sorted(set(x[0]["form"] + "/" + x[0]["mode"] for x in execs)), "sizes": sorted(set(x[0]["n"] for x in execs)),
          "groups": len(set(tuple(x[0]["grp"]) for x in execs)), "kinds": {}}
    for x in execs:
        k = x[0]["kind"] + ("" if x[0]["mut"] == "none" else ":" + x[0]["mut"])
        a = st["kinds"].setdefault(k, [0, 0]); a[0] += 1; a[1] += 1 if ver(x).get("ret") else 0
    ck.part("rotation-%s" % part, **st)
    for x in (acc[:1] if part != "C03" else []) + execs[:1]:
        ck.sample({"rotation_execution": _describe(x)})
    # vacuity: the interesting antecedents must have occurred
    vac = {"validated": nacc}
    if part == "C03":
        vac["honest_accepted"] = sum(1 for x in acc if x[0]["kind"] == "honest")
        for f in ("rot/i", "rot/pc", "rot/ni", "pub/i", "pub/pc", "pub/ni"):
            vac["form_" + f] = sum(1 for x in execs if x[0]["form"] + "/" + x[0]["mode"] == f)
    if part == "C04":
        vac["false_refused"] = sum(1 for x in execs if x[0]["kind"].startswith("false") and not ver(x).get("ret"))
        vac["noncyclic"] = sum(1 for x in execs if x[0]["kind"] == "false:noncyclic")
        if not quick:
            vac["false_accepted_by_coincidence"] = sum(1 for x in acc if x[0]["kind"].startswith("false"))
    if part == "C05":
        vac["line_replaced_refused"] = sum(1 for x in execs if x[0]["kind"] == "line" and ver(x).get("applied") and not ver(x).get("ret"))
        vac["public_input_changed_refused"] = sum(1 for x in execs if x[0]["kind"] == "pubin" and not ver(x).get("ret"))
        vac["challenge_replaced"] = sum(1 for x in execs if x[0]["kind"] == "vline")
    ck.part("rotation-%s-vacuity" % part, **vac)
    if min(vac.values()) == 0 and ck.violations == before:
        raise vlib.Infra("rotation %s: vacuous run: %s" % (part, vac))
    # ---- collect MC
    for fu in mcf:
        c, r = fu.result()
        if r.error:
            raise vlib.Infra("TLC MC_Rotation %s: %s" % (c, r.error))
        ck.add_tlc("MC_Rotation_" + c, r)
        if r.violation:
            ck.violation("rotation:model:" + c, "MC_Rotation (%s): %s" % (c, r.violation),
                         replay_path=os.path.join(OUT, "tlc", "MC_Rotation-MC_Rotation_%s.cfg.log" % c))
        elif r.distinct < 10:
            raise vlib.Infra("MC_Rotation %s explored only %d states" % (c, r.distinct))
    pool.shutdown()
    ck.assumptions += ["rotation argument: groups with p <= 46337 (TLC integers), n = 2..6 in recorded runs, n = 2..4 exhaustive",
                       "rotation argument: the statement is not checked for membership by the classes (NoStmtCheck, modelled); "
                       "negative representatives of exponents (|x| < q passes) are outside the mutation catalogue used here",
                       "rotation argument: after the verifier has refused, the prover's further lines (computed from end-of-file) are not judged"]
    return nacc

def replay(ck, pid, path):
    execs = tracecheck.split_executions(path)
    grp = "pubin" if execs and all(x[0]["kind"] == "pubin" for x in execs) else "rest"
    n = tracecheck.validate(ck, pid, "rotation-replay", "RotationTrace", "RotationTrace.cfg", execs, _classify(grp), 1)
    ck.add_cases("rotation-replayed", len(execs), set(json.dumps(x[0]["src"]) for x in execs))
    return n
