"""C15 - secret sharing and distributed key generation are consistent"""
import vlib, dkg_common, tracecheck, parts, gjkr_common
PID = "C15"
def run(tier, seed):
    ck = vlib.Check(PID, tier, seed, "model_checking")
    q = tier == "quick"
    # protocol-level model of Pedersen-VSS (rounds, complaint resolution, one deviating party), exhaustive for n=3, t=1
    import os
    r = vlib.tlc("VSS", "MC_VSS.cfg", workers=8, timeout=900, xmx="4g")
    if r.error:
        raise vlib.Infra("TLC MC_VSS: %s" % r.error)
    ck.add_tlc("MC_VSS", r)
    if r.violation:
        ck.violation("model:MC_VSS", "VSS.tla violates the property: %s" % r.violation, replay_path=os.path.join(vlib.OUT, "tlc", "VSS-MC_VSS.cfg.log"))
    # protocol-level model of the GJKR key generation (GJKR.tla: phases, complaints, disqualification, extraction, reconstruction;
    # exhaustive for n=3, t=1 with every party as the deviating one) and message-level validation of real runs (GJKRTrace.tla),
    # side by side with the result-level judgement below
    import concurrent.futures as cf
    gj_pool = cf.ThreadPoolExecutor(max_workers=1); gj = gj_pool.submit(lambda: gjkr_common.run(ck, PID, tier, seed))
    dkg_common.run_trigger(ck, PID)
    D = dkg_common.directed
    # scripted deviations every run repeats: a party that is honest until the share refresh and then deals a "zero" sharing with a
    # non-zero constant term (consistent with its commitments); reconstruction from four and more points (t = 3: n = 7)
    dirs = [D("dss", 4, 1, [0, 6, 0, 0], 31), D("dss", 4, 1, [6, 0, 0, 0], 32), D("dss", 5, 2, [0, 0, 6, 0, 0], 33), D("dss", 5, 1, [0, 0, 0, 0, 6], 34),
            D("dkg", 7, 3, [1, 0, 0, 0, 0, 0, 0], 35), D("dkg", 7, 3, [0, 0, 0, 1, 0, 0, 0], 36), D("dkg", 7, 3, [0, 0, 0, 0, 0, 0, 1], 37), D("dkg", 7, 2, [0, 1, 0, 0, 0, 1, 0], 38)]
    # the two executions that showed finding F20 (extraction-phase complaints of GJKR judged with wrong values: in a small group
    # one honest party sees the check "hold" by coincidence, blames the complainer and ends alone)
    dirs += [D("dkg", 6, 2, [0, 0, 0, 0, 0, 1], 13360, gi=0, grp=(2063, 1031, 64, 597)),
             dict(D("dkg", 7, 3, [0, 1, 0, 0, 0, 0, 0], 13298, gi=0, grp=(2063, 1031, 25, 623)), rnd=False)]
    # Pedersen-VSS dealer that hands one party a pair with only the first (seed even) or only the second (seed odd) half wrong
    # and then answers the complaint: the party must end with the published, consistent pair
    dirs += [D("vss", 4, 1, [0, 3, 0, 0], 51, tamper=(1, 2)), D("vss", 4, 1, [0, 3, 0, 0], 52, tamper=(1, 0)),
             D("vss", 5, 2, [3, 0, 0, 0, 0], 53, tamper=(0, 3)), D("vss", 5, 1, [0, 0, 0, 3, 0], 54, tamper=(3, 4))]
    if not q:
        dirs += [D("dss", n, t, [6 if k == w else 0 for k in range(n)], 40 + 7 * n + w) for n, t in ((6, 2), (7, 3), (7, 2)) for w in range(n)]
        dirs += [D("dkg", 7, 3, [1 if k == w else 0 for k in range(7)], 100 + w + 10 * sd) for w in range(7) for sd in range(4)]
    dkg_common.run_directed(ck, PID, dirs)
    dkg_common.run_proto(ck, PID, "dkg", 48 if q else 1200, seed, 5 if q else 7)
    dkg_common.run_proto(ck, PID, "vss", 64 if q else 1600, seed, 5 if q else 7)
    dkg_common.run_proto(ck, PID, "dss", 16 if q else 400, seed, 4 if q else 6)
    gj.result(); gj_pool.shutdown()
    ck.cov["rule"] = ("n real party objects per execution in one process under the deterministic simulator (seeded schedules, virtual "
                      "clock), faulty parties: library switch / silent / one tampered private share; DKGTrace.tla checks agreement on "
                      "QUAL and y, share vs verification values, every (t+1)-subset of good shares interpolating to one secret with "
                      "image y, reconstruction, refresh; an execution is non-trivial when at least one party completed")
    ck.assumptions += ["synchrony: every protocol phase is started together (barrier) and message hand-over is instantaneous; time-outs fire only when all parties wait",
                       "groups with p <= 46340; n <= 5 (quick) / 7 (thorough)",
                       "protocol-level models: Pedersen-VSS (VSS.tla) and GJKR New-DKG (GJKR.tla, reliable broadcast abstracted to consistent FIFO streams); CGJKR RVSS/ZVSS/DSS: the spec is the oracle for the results"]
    return ck.finish()
def replay(path, seed):
    ck = vlib.Check(PID, "quick", seed, "model_checking")
    parts.replay_dispatch(ck, PID, path, lambda: tracecheck.validate(ck, PID, "replay", "DKGTrace", dkg_common.trace_cfg(PID),
                        tracecheck.split_executions(path), chunks=1))
    return ck.finish()
