"""C01 - opening a masked card returns the type it was created with (discrete-log encoding; QR encoding: see c01 part 2)"""
import vlib, vtmf_common, qr_common, qrproof_common, parts
PID = "C01"
def run(tier, seed):
    ck = vlib.Check(PID, tier, seed, "model_checking")
    vtmf_common.run_mc(ck, ["MC_VTMF_card"] + (["MC_VTMF_card67"] if tier == "thorough" else []), tier)
    def interesting(e):
        if e["e"] == "Type":
            return "type:%s:%s" % (e.get("card"), e.get("res"))
        if e["e"] in ("Mask", "Priv", "Open"):
            return "%s:%s" % (e["e"], e.get("card"))
        return None
    vtmf_common.record_and_validate(ck, PID, "c01", 400 if tier == "quick" else 6000, seed, interesting)
    # the opening proofs of the quadratic-residue encoding (TMCG_ProveCardSecret / TMCG_VerifyCardSecret): QRProof.tla
    qrproof_common.run(ck, PID, tier, seed, PID)
    qr_common.run_mc(ck)
    qr_common.record_and_validate(ck, PID, 150 if tier == "quick" else 3000, seed, ["Open","Mask","Type","CSec","Self"])
    ck.cov["rule"] = ("MC: all key vectors x types x mask chains (all coins) x contributed subsets in the group p=23,q=11; "
                      "traces: random groups (p<=46327), 1-4 players, type bits 1-4, chains <=8, TimingAttackProtection on/off, "
                      "missing shares; a case is a distinct (execution, card operation) pair")
    ck.assumptions += ["group arithmetic decided in groups with p <= 46340 (TLC integers); operand-size dependent code paths are C09's"]
    return ck.finish()
def replay(path, seed):
    import tracecheck
    ck = vlib.Check(PID, "quick", seed, "model_checking")
    parts.replay_dispatch(ck, PID, path, lambda: tracecheck.validate(ck, PID, "replay", "VTMFTrace", "VTMFTrace.cfg", tracecheck.split_executions(path), classify=vtmf_common.classify, chunks=1))
    return ck.finish()
