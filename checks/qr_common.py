"""QR card encoding part of C01 / C02"""
import os, json
import vlib, tracecheck
from vlib import OUT
def run_mc(ck):
    r = vlib.tlc("MC_QR", "MC_QR.cfg", workers=8, timeout=900, xmx="4g")
    if r.error:
        raise vlib.Infra("TLC MC_QR: %s" % r.error)
    ck.add_tlc("MC_QR", r)
    if r.violation:
        ck.violation("model:MC_QR", "MC_QR: %s" % r.violation, replay_path=os.path.join(OUT, "tlc", "MC_QR-MC_QR.cfg.log"))
def record_and_validate(ck, pid, nexec, seed, kinds):
    exe = vlib.build_driver("drv_qr", extra_src=["seam_rng.cc"])
    tp = os.path.join(OUT, pid, "trace-qr.ndjson"); os.makedirs(os.path.dirname(tp), exist_ok=True)
    rc, so, se, _ = vlib.run_driver(exe, ["random", seed, nexec, tp])
    if rc != 0:
        raise vlib.Infra("drv_qr failed: %s %s" % (so[-300:], se[-300:]))
    execs = tracecheck.split_executions(tp)
    n = tracecheck.validate(ck, pid, "qr", "QRTrace", "QRTrace.cfg", execs, classify=lambda ev, r: "qr-" + str(ev.get("e")), chunks=8)
    keys = set(); nev = 0
    for x in execs:
        for e in x:
            if e["e"] in kinds:
                nev += 1; keys.add(json.dumps([x[0]["src"], e["e"], e.get("card") or e.get("out")])[:300])
    ck.add_cases("recorded-qr", nev, keys)
    return n
