"""C11 - export and import round-trip every object unchanged.

  oracle : spec/Wire.tla - every exportable type as an abstract object, Export(o) = its text on the wire (base-62 numerals
           incl. sign and zero, decimal dimensions, the delimiter grammars of cards / secrets / stacks / stack secrets / keys,
           the line sequences of parameter sets and persisted protocol states), Import = the parser with its limits.
  MC + A : spec/WireGen.tla - TLC enumerates the small domain (all integers of a range + boundary integers + numerals beyond
           2^31 up to the maximal length, all 32 x 10 card dimensions, stack sizes incl. 511 / 512, all permutations of small
           stack secrets, key records, all small Schnorr groups, all (n, t, i, QUAL) of small protocol states, 256 parties),
           checks Import(Export(o)) = o and Export(Import(Export(o))) = Export(o) on the level of the specification in every
           case state and prints (object description, expected text, dimensions of used objects); plus malformed texts
           (dimension 0 / limit + 1, wrong counts, non-permutations, missing ends) with the verdict of the spec's parser.
           harness/drv_wire.cc builds each object from its public members, exports it, imports the SPEC's text through every
           import path (member import, operator>>, string / stream constructors) into fresh and used objects, compares member
           by member and with operator==, re-exports.  The comparison below is a table lookup.
  B      : drv_wire record - objects made by the library itself (generated keys with proofs, toolbox cards / stacks / stack
           secrets in both codings, protocol states after simulated runs of Pedersen VSS, GJKR DKG, CGJKR DSS + refresh);
           spec/WireTrace.tla judges every logged event (text = Export(members), round trip results).
"""
import os, json, sys, time, re, concurrent.futures as cf
import vlib
from vlib import SPEC, OUT

PID = "C11"
GROUPS = {"A": ["int", "lim", "key"], "B": ["card", "group"], "C": ["stack"], "D": ["state"]}     # one TLC run (one JVM) per group
TYPES = {"int": ["int", "ints"], "card": ["tcard", "tsec", "vcard", "vsec"], "stack": ["tstack", "vstack", "tss", "vss"],
         "key": ["pub", "sec"], "group": ["vtmf", "com", "vsshe", "vrhe", "ptc", "eotp"],
         "state": ["pvss", "gjkr", "rvss", "zvss", "cdkg", "dss"]}
NO_BIG = {"sec"}                       # a secret key must be a real Rabin key: real sizes are covered by direction B
LIMITS = {"MaxPlayers": 32, "MaxTypeBits": 10, "MaxCards": 512, "MaxDkgPlayers": 256}      # the CONSTANTS of the cfg files
JENV = {"JAVA_TOOL_OPTIONS": "-XX:ParallelGCThreads=2 -XX:CICompilerCount=2"}
NAMES = {"tcard": "TMCG_Card", "tsec": "TMCG_CardSecret", "vcard": "VTMF_Card", "vsec": "VTMF_CardSecret",
         "tstack": "TMCG_Stack<TMCG_Card>", "vstack": "TMCG_Stack<VTMF_Card>", "tss": "TMCG_StackSecret<TMCG_CardSecret>",
         "vss": "TMCG_StackSecret<VTMF_CardSecret>", "pub": "TMCG_PublicKey", "sec": "TMCG_SecretKey",
         "int": "mpz_t / TMCG_Bigint / gcry_mpi_t stream operators", "ints": "mpz_t / TMCG_Bigint stream operators (several lines)",
         "vtmf": "BarnettSmartVTMF_dlog::PublishGroup + stream constructor", "com": "PedersenCommitmentScheme / GrothSKC ::PublishGroup + stream constructor",
         "vsshe": "GrothVSSHE::PublishGroup + stream constructor", "vrhe": "HooghSchoenmakersSkoricVillegasVRHE::PublishGroup + stream constructor",
         "ptc": "PedersenTrapdoorCommitmentScheme::PublishGroup + stream constructor", "eotp": "NaorPinkasEOTP::PublishGroup + stream constructor",
         "pvss": "PedersenVSS::PublishState + stream constructor", "gjkr": "GennaroJareckiKrawczykRabinDKG::PublishState + stream constructor",
         "rvss": "CanettiGennaroJareckiKrawczykRabinRVSS::PublishState + stream constructor",
         "zvss": "CanettiGennaroJareckiKrawczykRabinZVSS::PublishState + stream constructor",
         "cdkg": "CanettiGennaroJareckiKrawczykRabinDKG::PublishState + stream constructor",
         "dss": "CanettiGennaroJareckiKrawczykRabinDSS::PublishState + stream constructor"}

def short(x, n=300):
    s = x if isinstance(x, str) else json.dumps(x, sort_keys=True)
    return s if len(s) <= n else s[:n] + "...(%d chars)" % len(s)

class Findings:
    """violations grouped by stable key; one VIOLATION line per key"""
    def __init__(self):
        self.by_key = {}
    def add(self, key, what, case):
        e = self.by_key.setdefault(key, {"n": 0, "what": what, "examples": []})
        e["n"] += 1
        if len(e["examples"]) < 3:
            e["examples"].append(case)

# ------------------------------------------------------------------------------------------------
# the table lookup
def dims_class(c):
    o = c.get("o") or {}
    if c["ty"] in ("tcard", "tsec"):
        return "k=%s,w=%s" % (o.get("k"), o.get("w"))
    if c["ty"] in ("tstack", "vstack", "tss", "vss"):
        return "size=%d" % len(o.get("s", []))
    if "n" in o:
        return "n=%s,t=%s,i=%s" % (o.get("n"), o.get("t"), o.get("i"))
    return ""

def judge_case(c, r, F):
    """c: line printed by TLC, r: raw result of the driver"""
    ty = c["ty"]
    who = NAMES.get(ty, ty)
    desc = "%s %s%s" % (who, dims_class(c), " (numerals beyond 2^31)" if c.get("big") else "")
    if r is None:
        F.add("%s:no-result" % ty, "the driver reported nothing for %s" % desc, c); return
    if r.get("skipped_after_crashes"):
        return
    if "harness_error" in r and str(r["harness_error"]).startswith("EXPORT_NOT_IMPORTABLE"):
        F.add("%s:library-export-refused" % ty, str(r["harness_error"]), {"case": c, "result": r})
        return
    if "harness_error" in r:
        raise vlib.Infra("drv_wire could not set up a case of type %s: %s" % (ty, r["harness_error"]))
    if c["c"] == "case":
        if r.get("pre") is False:
            F.add("%s:setup-refused" % ty, "%s: precompute() refuses the well-formed key m=%s y=%s p=%s q=%s" % (
                who, c["o"].get("m"), c["o"].get("y"), c["o"].get("p"), c["o"].get("q")), c)
        if r.get("ex") != c["txt"]:
            F.add("%s:export:text" % ty, "%s: exported text %s, specification %s" % (desc, short(r.get("ex"), 160), short(c["txt"], 160)), c)
        for k in r:
            if k.startswith("ex_") and r[k] != "=":
                wr = k[3:]
                if r[k] == "conversion failed":
                    F.add("%s:%s-writer:refused" % (ty, wr), "%s refuses (exception) to write the integer %s (%d base-62 digits, i.e. a value of the maximal size TMCG_MAX_KEYBITS)" % (
                        {"gcry": "operator<<(std::ostream&, const gcry_mpi_t) [tmcg_mpz_set_gcry_mpi]", "bigint": "operator<<(std::ostream&, const TMCG_Bigint&)"}.get(wr, wr),
                        short(c["txt"].strip(), 40), len(c["txt"].strip())), c)
                else:
                    F.add("%s:%s-writer:text" % (ty, wr), "%s: the %s writer produced %s, specification %s" % (desc, wr, short(r[k], 160), short(c["txt"], 160)), c)
        for name, p in sorted(r.get("paths", {}).items()):
            judge_path(ty, desc, name, "", p, F, c)
        for u in r.get("used", []):
            judge_path(ty, desc, u["path"] + "-used", (" into a used object%s" % (" of dimensions %s" % u["d"] if "d" in u else "")), u, F, c)
            if u.get("prepared") is False:
                raise vlib.Infra("drv_wire could not prepare the used key object")
    else:
        for name, p in sorted(r.get("paths", {}).items()):
            if p["ok"] != c["ok"]:
                kind = "accepts-malformed" if p["ok"] else "rejects-wellformed"
                F.add("%s:%s:%s" % (ty, name, kind), "%s (%s): %s the text %s; the specification's parser %s it" % (
                    who, name, "accepts" if p["ok"] else "refuses", short(c["txt"], 200), "accepts" if c["ok"] else "refuses"), c)
            elif p["ok"] and p.get("re") != c["re"]:
                F.add("%s:%s:normalisation" % (ty, name), "%s (%s): imports %s and exports it as %s, specification %s" % (
                    who, name, short(c["txt"], 120), short(p.get("re"), 120), short(c["re"], 120)), c)

def judge_path(ty, desc, name, how, p, F, c):
    if not p["ok"]:
        F.add("%s:%s:refused" % (ty, name), "%s: import (%s)%s refuses the text %s" % (desc, name, how, short(c["txt"], 200)), c); return
    if not p.get("eq", True):
        F.add("%s:%s:differs" % (ty, name), "%s: the object imported (%s)%s differs from the original at %s; text %s" % (
            desc, name, how, p.get("diff"), short(c["txt"], 200)), c)
    if p.get("eqop") is False:
        F.add("%s:%s:operator==" % (ty, name), "%s: operator== says the object imported (%s)%s is not the original; text %s" % (
            desc, name, how, short(c["txt"], 200)), c)
    if p.get("re", "=") != "=":
        F.add("%s:%s:re-export" % (ty, name), "%s: re-export after import (%s)%s gives %s, original text %s" % (
            desc, name, how, short(p["re"], 160), short(c["txt"], 160)), c)

NUMERAL = re.compile(r"[|^\n]")
def nontrivial(c):
    """more than two fields, or a numeral of two digits or more (incl. a sign)"""
    fields = [f for f in NUMERAL.split(c["txt"]) if f != ""]
    return len(fields) > 3 or any(len(f) >= 2 and f not in ("crd", "crs", "stk", "sts", "pub", "sec") for f in fields)

def run_cases(exe, cases, tag):
    """hand the cases to the driver; returns {id: result} and the ids at which the driver died"""
    d = os.path.join(OUT, PID)
    results, crashed = {}, []
    todo = cases
    rnd = 0
    crashes_of = {}
    while todo:
        cp = os.path.join(d, "cases-%s-%d.ndjson" % (tag, rnd)); rp = os.path.join(d, "results-%s-%d.ndjson" % (tag, rnd))
        vlib.write_ndjson(cp, todo)
        if os.path.exists(rp): os.unlink(rp)
        rc, so, se, wall = vlib.run_driver(exe, ["cases", cp, rp], timeout=3000)
        last_begin = None
        if os.path.exists(rp):
            with open(rp) as f:
                for line in f:
                    line = line.strip()
                    if not line: continue
                    try: x = json.loads(line)
                    except ValueError: continue          # a torn last line of a crashed run
                    if "begin" in x: last_begin = x["begin"]
                    else: results[x["id"]] = x
        if rc == 0:
            break
        if rc == 2 and last_begin is None:
            raise vlib.Infra("drv_wire cases failed: %s %s" % (so[-300:], se[-300:]))
        # the library killed the process (abort / signal) inside case last_begin: that is a finding; go on behind it
        if last_begin is None or last_begin in results:
            raise vlib.Infra("drv_wire died (exit %s) outside a case: %s" % (rc, se[-300:]))
        crashed.append((last_begin, rc, se[-400:]))
        ids = [c["id"] for c in todo]
        bad_ty = todo[ids.index(last_begin)]["ty"]
        todo = todo[ids.index(last_begin) + 1:]
        crashes_of[bad_ty] = crashes_of.get(bad_ty, 0) + 1
        if crashes_of[bad_ty] >= 3:          # three kills by one type are enough: its remaining cases are not run
            skipped = [c["id"] for c in todo if c["ty"] == bad_ty]
            todo = [c for c in todo if c["ty"] != bad_ty]
            for i in skipped: results[i] = {"skipped_after_crashes": True}
        rnd += 1
        if rnd > 80:
            raise vlib.Infra("drv_wire keeps dying")
    return results, crashed

def group_A(exe, group, tier, seed):
    """one TLC run: the theorems of the specification + the cases; then the real code on these cases"""
    cfg = "GEN_Wire_%s_%s.cfg" % (group, "q" if tier == "quick" else "t")
    r = vlib.tlc("WireGen", cfg, workers=3 if tier == "quick" else 5, timeout=1000 if tier == "quick" else 3000, xmx="6g", env=JENV)
    vlib.log("TLC WireGen %s: %d states, %.0fs" % (cfg, r.distinct, r.wall))
    if r.error:
        raise vlib.Infra("TLC %s: %s" % (cfg, r.error))
    lines = [x for x in r.printed if isinstance(x, dict) and x.get("c") in ("case", "lim")]
    F = Findings()
    if r.violation:
        F.add("model:" + group, "Wire.tla violates its own round-trip theorems (%s): %s" % (cfg, r.violation), {"cfg": cfg})
        return r, [], {}, F, {}
    # vacuity: every type of every family of the group, with integer leaves and with numerals beyond 2^31
    for fam in GROUPS[group]:
        if fam == "lim":
            if sum(1 for x in lines if x["c"] == "lim") < 60:
                raise vlib.Infra("TLC %s printed too few malformed texts" % cfg)
            continue
        for ty in TYPES[fam]:
            for big in (False, True):
                if big and ty in NO_BIG: continue
                if not any(x["c"] == "case" and x["ty"] == ty and x["big"] == big for x in lines):
                    raise vlib.Infra("TLC %s printed no case of type %s (big=%s)" % (cfg, ty, big))
    if r.distinct != len(lines) + 1 + sum(2 * len(TYPES[f]) if f != "lim" else 1 for f in GROUPS[group]) - sum(1 for f in GROUPS[group] if f != "lim" for t in TYPES[f] if t in NO_BIG):
        raise vlib.Infra("TLC %s: %d states but %d printed lines" % (cfg, r.distinct, len(lines)))
    lines.sort(key=lambda x: (x["ty"], x["c"], len(x["txt"]), x["txt"]))
    for i, x in enumerate(lines):
        x["id"] = "%s%d" % (group, i)
    results, crashed = run_cases(exe, lines, group)
    byid = {x["id"]: x for x in lines}
    for cid, rc, se in crashed:
        c = byid[cid]
        F.add("%s:crash" % c["ty"], "the library kills the process (exit %s) on %s %s: %s" % (rc, NAMES.get(c["ty"], c["ty"]), dims_class(c), short(c["txt"], 200)), c)
    stats = {}
    for x in lines:
        if any(x["id"] == cid for cid, _, _ in crashed):
            continue
        judge_case(x, results.get(x["id"]), F)
        s = stats.setdefault(x["ty"] if x["c"] == "case" else "lim", {"n": 0, "keys": [], "checks": 0})
        s["n"] += 1
        res = results.get(x["id"]) or {}
        s["checks"] += len(res.get("paths", {})) + len(res.get("used", []))
        if x["c"] == "lim" or nontrivial(x):
            s["keys"].append((x["ty"], x["txt"]))
    return r, lines, results, F, stats

# ------------------------------------------------------------------------------------------------
# direction B
def bad_event(F, b, ev, seed):
    """b: the line TLC printed for an event it judged bad"""
    key = "recorded:%s:%s" % (b.get("ty"), b["kind"])
    what = "%s (made by the library, seed %s): " % (b.get("what"), ev.get("seed", seed))
    if b["kind"] == "export-text":
        what += "exported text %s is not the text of its members, specification %s" % (short(ev.get("txt"), 160), short(b.get("want"), 160))
    elif b["kind"] in ("import", "stream"):
        p = ev.get("imp" if b["kind"] == "import" else "str", {})
        what += "import of the object's own export (%s path): %s; text %s" % (b["kind"], short(p, 200), short(ev.get("txt"), 160))
    elif b["kind"] == "specification-round-trip":
        # the text is the text of the members, but the format cannot carry these members: reading the text gives another object
        key = "recorded:%s:field-contains-delimiter" % b.get("ty")
        what += ("the library made and exported an object that cannot be imported again (also by the specification's parser: a field "
                 "contains the delimiter); import of the exported text: %s; text %s" % (short(ev.get("imp"), 120), short(ev.get("txt"), 160)))
    else:
        what += b["kind"]
    F.add(key, what, {"event": ev})

def section_B(exe, tier, seed):
    d = os.path.join(OUT, PID)
    F = Findings()
    events = []
    seeds = [seed] if tier == "quick" else [seed + k for k in range(24)]
    for s in seeds:
        tp = os.path.join(d, "trace-%d.ndjson" % s)
        rc, so, se, wall = vlib.run_driver(exe, ["record", s, 0 if tier == "quick" else 1, tp], timeout=1500)
        evs = vlib.read_ndjson(tp) if os.path.exists(tp) else []
        if rc != 0:
            if rc < 0 or rc >= 128 or rc == 3:
                F.add("crash:record", "drv_wire record died (exit %s, seed %d) after event %s; stderr: %s" % (
                    rc, s, short(evs[-1], 300) if evs else "-", se[-300:]), {"last_event": evs[-1] if evs else None, "seed": s})
            else:
                raise vlib.Infra("drv_wire record failed: rc=%s %s" % (rc, se[-300:]))
        for e in evs:
            e["seed"] = s
        events += evs
    for e in events:
        if e.get("e") == "Exc":
            raise vlib.Infra("drv_wire record: a protocol run threw: %s" % short(e))
    # negative control: a copy of an event with one character of the text changed must be judged bad
    ctl = None
    for e in events:
        if e.get("e") == "Obj" and e["o"]["ty"] == "gjkr":
            ctl = json.loads(json.dumps(e)); break
    if ctl is None:
        raise vlib.Infra("no GJKR state among the recorded events")
    t = ctl["txt"]; ctl["txt"] = t[:-2] + ("1" if t[-2] != "1" else "2") + t[-1]; ctl["control"] = True
    allp = os.path.join(d, "trace-all.ndjson")
    vlib.write_ndjson(allp, events + [ctl])
    r = vlib.tlc("WireTrace", "WireTrace.cfg", workers=1, env=dict(JENV, TRACE=allp), timeout=2400, xmx="4g")
    vlib.log("TLC WireTrace: %d events, %.0fs" % (len(events), r.wall))
    if r.error or r.violation:
        raise vlib.Infra("trace validation: %s %s" % (r.error, r.violation))
    bad = [x for x in r.printed if isinstance(x, dict) and "bad" in x]
    ctl_seen = [b for b in bad if b["bad"] == len(events) + 1]
    if len(ctl_seen) != 1 or ctl_seen[0]["kind"] != "export-text":
        raise vlib.Infra("trace validation did not notice the corrupted control event")
    good = 0
    badidx = set(b["bad"] for b in bad)
    for b in bad:
        if b["bad"] == len(events) + 1: continue
        bad_event(F, b, events[b["bad"] - 1], seed)
    for i, e in enumerate(events):
        if (i + 1) not in badidx and e.get("e") == "Obj":
            good += 1
    return r, events, good, F

# ------------------------------------------------------------------------------------------------
def check_limits(exe):
    rc, so, se, _ = vlib.run_driver(exe, ["info"])
    if rc != 0:
        raise vlib.Infra("drv_wire info failed: %s" % se[-300:])
    info = json.loads(so)
    for k, v in LIMITS.items():
        if info.get(k) != v:
            raise vlib.Infra("the library is built with %s = %s, the specification is configured for %s" % (k, info.get(k), v))
    return info

def report(ck, F, replay_path=None):
    for key in sorted(F.by_key):
        e = F.by_key[key]
        what = e["what"] + (" (%d cases of this kind)" % e["n"] if e["n"] > 1 else "")
        ck.violation(key, what, {"kind": "B" if key.startswith("recorded:") else "A", "examples": e["examples"]}, replay_path=replay_path)

def run(tier, seed):
    ck = vlib.Check(PID, tier, seed, "model_checking")
    os.makedirs(os.path.join(OUT, PID), exist_ok=True)
    exe = vlib.build_driver("drv_wire", extra_src=["seam_rng.cc", "seam_clock.cc"])
    info = check_limits(exe)
    allF = Findings()
    with cf.ThreadPoolExecutor(max_workers=5) as ex:
        futB = ex.submit(section_B, exe, tier, seed)
        futA = {g: ex.submit(group_A, exe, g, tier, seed) for g in GROUPS}
        for g in sorted(futA):
            r, lines, results, F, stats = futA[g].result()
            ck.add_tlc("WireGen:" + g, r)
            for ty in sorted(stats):
                s = stats[ty]
                ck.add_cases("A:" + ty, s["n"], s["keys"])
                ck.part("A:" + ty, import_checks=s["checks"])
            for k, e in F.by_key.items():
                d = allF.by_key.setdefault(k, {"n": 0, "what": e["what"], "examples": []})
                d["n"] += e["n"]; d["examples"] = (d["examples"] + e["examples"])[:3]
            for want in (("tcard", False), ("vss", False), ("gjkr", False), ("lim", None)):
                for x in lines:
                    if (x["ty"] == want[0] and x["c"] == "case" and x["big"] == want[1] and 40 < len(x["txt"]) < 400) or \
                       (want[0] == "lim" and x["c"] == "lim" and 10 < len(x["txt"]) < 200):
                        s = {k: x[k] for k in ("c", "ty", "big", "txt") if k in x}
                        if x["c"] == "case": s["o"] = x["o"]; s["driver"] = {k: v for k, v in (results.get(x["id"]) or {}).items() if k in ("paths", "used")}
                        else: s["spec_accepts"] = x["ok"]; s["driver"] = (results.get(x["id"]) or {}).get("paths")
                        if len(json.dumps(s)) < 2500:
                            ck.sample({"tlc_case": s}, limit=5)
                            break
        rB, events, good, FB = futB.result()
    ck.add_tlc("WireTrace", rB)
    ck.add_traces(good)
    nt = [(e["o"]["ty"], e["txt"]) for e in events if e.get("e") == "Obj"]
    ck.add_cases("B:recorded-objects", len(events), nt)
    for e in events:
        if e.get("e") == "Obj" and e["o"]["ty"] == "dss" and len(json.dumps(e)) < 3000:
            ck.sample({"recorded_event": e}, limit=6); break
    for k, e in FB.by_key.items():
        allF.by_key[k] = e
    report(ck, allF)
    ck.cov["rule"] = ("A: one TLC state per case of spec/WireGen.tla (bounds %s); every case is built, exported and imported by the real code; "
                      "evaluations = cases, import_checks = imports performed (paths x fresh / used objects); a case is non-trivial when its text "
                      "has more than three fields or a numeral of two or more characters; distinct = distinct (type, text).  B: objects made by "
                      "the library (keys, toolbox stacks, protocol states); traces_validated_against_impl = recorded objects whose event TLC "
                      "(spec/WireTrace.tla) accepted; distinct = distinct (type, text)" % ("PQuick" if tier == "quick" else "PThorough"))
    ck.cov["exhaustive"] = False
    ck.cov["exhaustive_parts"] = ["all card / card secret dimensions 1..32 x 1..10", "all permutations of stack secrets of size <= %d" % (4 if tier == "quick" else 5),
                                  "all integers of the range %s" % ("-3000..3000" if tier == "quick" else "-50000..50000"),
                                  "stack sizes %s" % ("1 2 3 4 7 64 511 512" if tier == "quick" else "1..100 127..129 200 255..257 300 400 500 510 511 512")]
    ck.cov["library_limits"] = info
    ck.assumptions += ["direction A: key fields name / email / type / nizk contain neither '|' nor a newline (the format has no escaping); direction B generates one key whose name contains '|'",
                       "stack secrets hold a permutation of 0..n-1 (what the toolbox creates); empty stacks are outside the property (sizes 1..TMCG_MAX_CARDS)",
                       "numerals beyond 2^31 are opaque to the specification (identity of the digit string is checked, not its value); 2^k, 2^k +- 1 (k <= 128) are computed by the spec with schoolbook arithmetic",
                       "maximal length = TMCG_MAX_KEYBITS (16384) bits = 2752 base-62 digits",
                       "group parameter sets have a non-zero modulus (p = 0 makes the stream constructors divide by zero: DESIGN finding F6, property C12)",
                       "BarnettSmartVTMF_dlog_GroupQR shares PublishGroup / the stream reading with its base class and is not constructed (DESIGN finding F5)"]
    return ck.finish()

def replay(path, seed):
    ck = vlib.Check(PID, "quick", seed, "model_checking")
    os.makedirs(os.path.join(OUT, PID), exist_ok=True)
    obj = json.load(open(path))
    case = obj.get("case") or {}
    exe = vlib.build_driver("drv_wire", extra_src=["seam_rng.cc", "seam_clock.cc"])
    F = Findings()
    tp = os.path.join(OUT, PID, "replay-trace.ndjson")
    if case.get("kind") == "B":
        evs = [x["event"] for x in case["examples"] if "event" in x]
        lines = []
    else:
        lines = [x for x in case.get("examples", []) if "ty" in x]
        # the stored expectation is recomputed: TLC must find the stored text to be the text of the stored object
        fine = {"ok": True, "eq": True, "re": "="}
        evs = [{"e": "Obj", "what": "stored case", "o": x["o"], "txt": x["txt"], "imp": fine, "str": fine} for x in lines if x.get("c") == "case"]
    if evs:
        vlib.write_ndjson(tp, evs)
        r = vlib.tlc("WireTrace", "WireTrace.cfg", workers=1, env=dict(JENV, TRACE=tp), timeout=600, xmx="4g")
        if r.error or r.violation:
            raise vlib.Infra("trace validation: %s %s" % (r.error, r.violation))
        ck.add_tlc("WireTrace", r)
        for b in [x for x in r.printed if isinstance(x, dict) and "bad" in x]:
            if case.get("kind") == "B":
                bad_event(F, b, evs[b["bad"] - 1], seed)
            else:
                raise vlib.Infra("the replay file does not hold a case of the specification (%s)" % b["kind"])
    if case.get("kind") == "B":
        ck.add_cases("B:replayed", len(evs), [(e["o"]["ty"], e["txt"]) for e in evs])
        ck.sample({"replayed_events": len(evs)})
    else:
        for i, x in enumerate(lines): x["id"] = "R%d" % i
        results, crashed = run_cases(exe, lines, "replay")
        for cid, rc, se in crashed:
            c = [x for x in lines if x["id"] == cid][0]
            F.add("%s:crash" % c["ty"], "the library kills the process (exit %s) on %s" % (rc, short(c["txt"], 200)), c)
        for x in lines:
            if not any(x["id"] == cid for cid, _, _ in crashed):
                judge_case(x, results.get(x["id"]), F)
        ck.add_cases("A:replayed", len(lines), [(x["ty"], x["txt"]) for x in lines])
        ck.sample({"replayed": [short(x, 400) for x in lines[:2]]})
    report(ck, F, replay_path=path)
    return ck.finish()
