"""the checks of the VTMF family (C01 C02 C03 C04 C05 C08) share one driver and one trace spec"""
import os, json
import vlib, tracecheck
from vlib import OUT, SPEC

def classify(ev, r):
    if r.violation and "Invariant" in r.violation:
        return "invariant:" + r.violation.split()[2]
    k = ev.get("e", "?")
    if k == "CC":
        return "CC-%s-%s" % (ev.get("mode"), "crash" if "crash" in ev else ("accepted" if ev.get("res") else "rejected"))
    if k in ("VMask", "VPriv", "VSec", "UpdKey"):
        honest = ev.get("mut") == "none" or not ev.get("applied", True)
        if "exc" in ev:
            return k + "-exception"
        return "%s-%s-%s" % (k, "honest" if honest else "mutated:" + str(ev.get("mut")) + (":pub%d" % ev["pub"] if ev.get("pub") else ""),
                             "accepted" if ev.get("res") else "rejected")
    return k

def run_mc(ck, cfgs, tier):
    for c in cfgs:
        r = vlib.tlc("MC_VTMF", c + ".cfg", workers=8, timeout=1800, xmx="8g")
        if r.error:
            raise vlib.Infra("TLC %s: %s" % (c, r.error))
        ck.add_tlc(c, r)
        if r.violation:
            ck.violation("model:" + c, "MC_VTMF (%s): %s" % (c, r.violation), replay_path=os.path.join(OUT, "tlc", "MC_VTMF-%s.cfg.log" % c))

def record_and_validate(ck, pid, focus, nexec, seed, interesting):
    """interesting(event) -> key or None: which events make an execution count for this property"""
    exe = vlib.build_driver("drv_vtmf", extra_src=["seam_rng.cc"])
    tp = os.path.join(OUT, pid, "trace-%s.ndjson" % focus)
    os.makedirs(os.path.dirname(tp), exist_ok=True)
    rc, so, se, _ = vlib.run_driver(exe, ["random", seed, nexec, tp, focus])
    if rc != 0:
        raise vlib.Infra("drv_vtmf failed: %s %s" % (so[-300:], se[-300:]))
    execs = tracecheck.split_executions(tp)
    n = tracecheck.validate(ck, pid, focus, "VTMFTrace", "VTMFTrace.cfg", execs, classify=classify, chunks=8)
    keys = set()
    nev = 0
    for x in execs:
        for e in x:
            k = interesting(e)
            if k is not None:
                nev += 1
                keys.add((json.dumps(x[0].get("src")), k))
    ck.add_cases("recorded-" + focus, nev, keys)
    for x in execs[:1]:
        for e in x:
            if interesting(e) is not None:
                ck.sample({k: v for k, v in e.items() if k != "h"}); break
    return n
