"""scratch check X_QRP: the QR-encoding proof part (checks/qrproof_common.py) on its own, all four parts in one run.
   X_QRP_PARTS=C03,C04 restricts the parts.  The key of the known design-level finding (type-changing mask accepted by the
   card-level mask proof, DESIGN section 3) is registered here in memory for the scratch id; the lead lists it for C04."""
import os
import vlib, qrproof_common as q

PID = "X_QRP"
def _ck(tier, seed):
    ck = vlib.Check(PID, tier, seed, "model_checking")
    ck.kf.setdefault("findings", []).append({"property": PID, "key": q.KEY_TYPE, "description":
        "TMCG_VerifyMaskCard (QR encoding) accepts a mask whose secret is not neutral: one independent value proof per entry, "
        "the parity of a column of b bits is never examined, the type of the card changes"})
    ck.kf["findings"].append({"property": PID, "key": q.KEY_STACK, "description":
        "TMCG_VerifyStackEquality for TMCG_Card stacks accepts a shuffle whose revealed card secrets are not neutral "
        "(TMCG_CardSecret::import and the verifier never examine the column parity): card types change"})
    return ck

def run(tier, seed):
    ck = _ck(tier, seed)
    for part in [p for p in os.environ.get("X_QRP_PARTS", "C01,C03,C04,C05").split(",") if p]:
        q.run(ck, PID, tier, seed, part)
    ck.cov["rule"] = q.RULE
    ck.cov["exhaustive"] = False
    ck.assumptions += q.ASSUMPTIONS
    return ck.finish()

def replay(path, seed):
    ck = _ck("quick", seed)
    q.replay(ck, PID, path)
    ck.cov["states"] = max(ck.cov["states"], 1); ck.cov["transitions"] = max(ck.cov["transitions"], 1)
    return ck.finish()
