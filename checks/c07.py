"""C07 - shuffle permutations, rotation offsets and random residues are uniform.

A distribution cannot be observed; decided instead:
  MC   : spec/Sampler.tla defines the coin -> output maps (bounded sampler with rejection, Fisher-Yates, rotation,
         residue sampler with 64 extra bits).  TLC checks the theorems that make them uniform (every residue has the
         same number of accepted words, coin vectors <-> arrangements is a bijection, marginals, each shift once,
         preimage counts differ by <= 1) exhaustively in small domains, and that the digit-string version of the maps
         (needed for the real word space 2^64) equals the integer version for all small (Base, WordLen).
  A    : TLC (SamplerGen.tla) turns requests into cases - the raw 64-bit words / byte strings to dictate to the
         library's coin source and the result the spec defines - for all n! coin vectors of n <= 6 (7 in thorough),
         sampled vectors up to n = 64, all rotations, moduli 2, 3, 2^k-1, 2^k, 2^k+1, around ULONG_MAX/2 and
         ULONG_MAX with the words at the edges of the accepted range, residues for small and big moduli; the driver
         runs random_permutation_fast / random_rotation / TMCG_CreateStackSecret (both card kinds) /
         tmcg_mpz_{ss,s,w}random_mod / tmcg_mpz_{ss,s,w}randomm on them and reports raw results.
  B    : seeded random calls of the same entry points with every coin logged (a third of the words dictated next to
         the rejection boundary) are validated by TLC against SamplerTrace.tla.
Python only selects inputs from the seed, moves data and compares for equality.
"""
import os, json, random, time, concurrent.futures as cf
import vlib
from vlib import OUT

PID = "C07"
D = os.path.join(OUT, PID)
MAX_HANGS = 6          # each costs the 8 s watchdog of the driver

# vlib.tlc has no parameter for JVM flags; the environment it is given is applied last, so JAVA_TOOL_OPTIONS can be set
# there.  Many short TLC runs in parallel on a shared machine: 16 GC threads and the C2 compiler per JVM cost more CPU
# than the model checking itself.
JVM = {"quick": "-XX:ParallelGCThreads=2 -XX:TieredStopAtLevel=1", "thorough": "-XX:ParallelGCThreads=2 -XX:CICompilerCount=2"}
_tier = ["quick"]
def jenv(**kw):
    e = {"JAVA_TOOL_OPTIONS": JVM[_tier[0]]}
    e.update(kw)
    return e

MC_QUICK = ["MC_Sampler_thm", "MC_Sampler_ref_2_3q", "MC_Sampler_ref_4_2q", "MC_Sampler_ref_7_1q"]
MC_THOROUGH = ["MC_Sampler_thm_big", "MC_Sampler_ref_2_3", "MC_Sampler_ref_4_2", "MC_Sampler_ref_3_2", "MC_Sampler_ref_7_1",
               "MC_Sampler_ref_16_1", "MC_Sampler_ref_2_5", "MC_Sampler_ref_5_2"]

def le(x):
    b = []
    while x:
        b.append(x & 255); x >>= 8
    return b

# --------------------------------------------------------------------------
# requests (inputs chosen from the seed; the spec computes everything else)
# --------------------------------------------------------------------------
def requests(tier, seed):
    rnd = random.Random(seed * 7919 + 17)
    quick = tier == "quick"
    rq = []
    # all coin vectors of small stacks
    for n in range(0, 6):
        for pat in range(6):
            rq.append({"q": "fyall", "n": n, "pat": pat})
    for pat in ([3] + rnd.sample([0, 1, 2, 4, 5], 2) if quick else range(6)):
        rq.append({"q": "fyall", "n": 6, "pat": pat})
    if not quick:
        for pat in (2, 5):
            rq.append({"q": "fyall", "n": 7, "pat": pat})
    # sampled coin vectors of bigger stacks
    sizes = [52, 64, 63, 32, 33] + [rnd.randint(7, 64) for _ in range(95 if quick else 2000)]
    for n in sizes:
        rq.append({"q": "fy", "n": n, "c": [rnd.randint(0, n - j) for j in range(1, n)], "pat": rnd.randrange(6)})
    # rotations: every offset
    for n in list(range(0, 17)) + [31, 32, 33, 52, 63, 64] + ([] if quick else list(range(17, 31)) + [128, 512]):
        for pat in (range(6) if n <= 8 else [rnd.randrange(6), rnd.randrange(6)]):
            rq.append({"q": "rotall", "n": n, "pat": pat})
    # bounded sampler: moduli
    ks = sorted(set([2, 3, 31, 32, 33, 63] + rnd.sample(range(4, 63), 8))) if quick else list(range(2, 64))
    mods = [2, 3, 5, 6, 7, 10, 52, 64, 2**63 - 1, 2**63, 2**63 + 1, 2**63 + 2, 2**63 + 12345, 2**64 - 1, 2**64 - 2, 2**64 - 3]
    for k in ks:
        mods += [2**k - 1, 2**k, 2**k + 1]
    mods += [rnd.randrange(2, 2**64) for _ in range(4 if quick else 100)]
    mods += [rnd.randrange(2, 2**15) for _ in range(4 if quick else 100)]
    mods += [rnd.randrange(2**63, 2**64) for _ in range(3 if quick else 40)]
    seen = set()
    for m in mods:
        if m < 2 or m >= 2**64 or m in seen:
            continue
        seen.add(m)
        rq.append({"q": "mod", "m": le(m)})
        for _ in range(1 if quick else 3):
            ws = [le(rnd.randrange(2**64)) + [0] * 8 for _ in range(2)] + [[1, 0, 0, 0, 0, 0, 0, 0]]
            rq.append({"q": "modw", "m": le(m), "ws": [w[:8] for w in ws]})
    # residue sampler
    def rlen(m):
        return (m.bit_length() + 64 + 7) // 8
    small = [1, 2, 3, 7, 11, 23, 255, 256, 257, 1031, 2063, 65535, 65536, 65537, 2**23 - 1, 2**23 - 15]
    small += [rnd.randrange(2, 2**23) for _ in range(6 if quick else 100)]
    for m in small:
        for draw in ([0] * rlen(m), [255] * rlen(m), [rnd.randrange(256) for _ in range(rlen(m))]):
            rq.append({"q": "res", "m": le(m), "draw": draw})
    mid = [2**64 - 1, 2**64, 2**64 + 1, 2**127 - 1, 2**128 + 51] + [rnd.getrandbits(rnd.randint(24, 200)) | 1 for _ in range(10 if quick else 200)]
    for m in mid:
        for draw in ([255] * rlen(m), [rnd.randrange(256) for _ in range(rlen(m))]):
            rq.append({"q": "res", "m": le(m), "draw": draw})
    big = [2**521 - 1, rnd.getrandbits(1024) | (1 << 1023) | 1, rnd.getrandbits(2048) | (1 << 2047)] + \
          [rnd.getrandbits(rnd.randint(65, 700)) | 1 for _ in range(4 if quick else 60)]
    for m in big + mid[:5]:
        for a in (0, 1, 2**64 - 1, rnd.randrange(2**64)):
            lo, hi = rnd.choice([(0, 0), (1, 0), (0, 1), (0, 2), (rnd.randrange(2, 1000), 0)])
            rq.append({"q": "resk", "m": le(m), "a": le(a), "lo": lo, "hi": hi})
    return rq

# --------------------------------------------------------------------------
def case_identity(c):
    if c["kind"] in ("perm", "rot"):
        return json.dumps([c["kind"], c["n"], c["c"], c["pat"]])
    if c["kind"] == "mod":
        return json.dumps(["mod", c["m"], c["words"]])
    return json.dumps(["resid", c["m"], c["draw"]])

def nontrivial(c):
    if c["kind"] in ("perm", "rot"):
        return c["n"] >= 2
    return True

def classify(c, run):
    """stable key of a disagreement: entry point + which observable differs"""
    e = c["expect"]
    kind = c["kind"]
    if kind in ("perm", "rot") and c["n"] <= 1 and ("exc" in run or "crash" in run):
        return "%s-size%d-%s" % ("shuffle" if kind == "perm" else "rotation", c["n"], "crash" if "crash" in run else "throws")
    if "hang" in run:
        return kind + ":no-return"
    if "crash" in run:
        return kind + ":crash"
    if "exc" in run:
        return kind + ":exception"
    for k in ("used", "lens"):
        if k in e and run.get(k) != e[k]:
            return kind + ":coins-consumed"
    for k in ("pi", "ret", "val"):
        if k in e and run.get(k) != e[k]:
            return kind + ":" + k
    return kind + ":level"

def agrees(c, run):
    e = c["expect"]
    for k in e:
        if k == "lv":
            allowed = e["lv"][run.get("lvl", "s")]
            if any(x not in allowed for x in run.get("lv", [])):
                return False
        elif run.get(k) != e[k]:
            return False
    if c["kind"] in ("perm", "rot"):
        if run.get("pending") != len(c["words"]) - e["used"]:
            return False
        if any(x != 1 for x in run.get("lv", [])):           # the stack functions use the "strong" family
            return False
    if c["kind"] == "mod" and run.get("pending") != len(c["words"]) - e["used"]:
        return False
    if c["kind"] == "resid" and (run.get("pending") != 0 or run.get("neg")):
        return False
    return True

def generate(ck, tag, rq, workers, timeout):
    rp = os.path.join(D, "req-%s.ndjson" % tag)
    vlib.write_ndjson(rp, rq)
    r = vlib.tlc("SamplerGen", "GEN_Sampler.cfg", workers=workers, timeout=timeout, xmx="6g", env=jenv(REQ=rp))
    if r.error:
        raise vlib.Infra("TLC generator %s: %s" % (tag, r.error))
    if r.violation:
        raise vlib.Infra("generator %s: a request is outside the specification's domain or Part II disagrees with Part I: %s"
                         % (tag, r.violation))
    cases = [c for c in r.printed if isinstance(c, dict) and "kind" in c]
    # the property quantifies over stack sizes 1.. for permutations and 2.. for rotations (C02/C07 quantifier):
    # size 0 (and a rotation of a single card) is outside it - the library throws / crashes there, which is
    # recorded as an observation in DESIGN.md, not judged by this check
    cases = [c for c in cases if not (c["kind"] == "perm" and c["n"] < 1) and not (c["kind"] == "rot" and c["n"] < 2)]
    for i, c in enumerate(cases):
        c["id"] = i
    return r, cases

def run_cases(exe, tag, cases):
    cp = os.path.join(D, "cases-%s.ndjson" % tag)
    op = os.path.join(D, "results-%s.ndjson" % tag)
    vlib.write_ndjson(cp, cases)
    start, hangs = 0, 0
    while True:
        rc, so, se, _ = vlib.run_driver(exe, ["cases", cp, op, start], timeout=1500)
        if rc == 0:
            break
        if rc != 4:
            raise vlib.Infra("drv_sampler cases failed (rc=%s): %s %s" % (rc, so[-400:], se[-400:]))
        # a library call did not return (watchdog): the last line names the case; go on behind it
        last = vlib.read_ndjson(op)[-1]
        if not last.get("hang"):
            raise vlib.Infra("drv_sampler exit 4 without hang marker")
        hangs += 1
        start = last["line"]
        if hangs >= MAX_HANGS:
            vlib.log("%s: %d library calls did not return; the remaining %d cases are not executed" % (tag, hangs, len(cases) - start))
            break
    res = []
    for x in vlib.read_ndjson(op):
        if x.get("hang"):
            x = {"id": x["id"], "runs": [{"hang": True}]}
        res.append(x)
    if len(res) != len(cases) and hangs < MAX_HANGS:
        raise vlib.Infra("drv_sampler returned %d results for %d cases" % (len(res), len(cases)))
    return res

def compare(ck, rq, cases, res, seen_keys):
    nrun = 0
    for c, x in zip(cases, res):
        if x["id"] != c["id"]:
            raise vlib.Infra("result order")
        for run in x["runs"]:
            nrun += 1
            if agrees(c, run):
                continue
            key = classify(c, run)
            if key in seen_keys:
                seen_keys[key] += 1
                continue
            seen_keys[key] = 1
            who = run.get("via") or run.get("lvl")
            what = "%s (%s): specification expects %s, the library gave %s" % (
                c["kind"], who, json.dumps(c["expect"])[:300],
                json.dumps({k: run[k] for k in run if k not in ("ws",)})[:400])
            if c["kind"] in ("perm", "rot"):
                what = "n=%d coins=%s " % (c["n"], json.dumps(c["c"])[:120]) + what
            else:
                what = "m=%s " % json.dumps(c["m"])[:120] + what
            ck.violation(key, what, {"req": rq[c["rq"] - 1], "case": c, "run": run})
    return nrun

# --------------------------------------------------------------------------
def validate_trace(ck, tag, path):
    """TLC must consume the whole log; returns (ok, events, TlcResult)"""
    r = vlib.tlc("SamplerTrace", "SamplerTrace.cfg", workers=1, env=jenv(TRACE=path), timeout=1500, xmx="3g")
    if r.error:
        raise vlib.Infra("trace validation %s: %s" % (tag, r.error))
    return r

def record_and_validate(ck, exe, k, seed, count, maxn):
    tp = os.path.join(D, "trace-%d.ndjson" % k)
    rc, so, se, _ = vlib.run_driver(exe, ["record", seed * 1000 + k, count, tp, maxn], timeout=1500)
    if rc not in (0, 4):                                # 4: a call did not return; the log ends with a Hang event
        raise vlib.Infra("drv_sampler record failed (rc=%s): %s %s" % (rc, so[-400:], se[-400:]))
    evs = vlib.read_ndjson(tp)
    r = validate_trace(ck, "chunk%d" % k, tp)
    return k, tp, evs, r

def trace_failure(ck, tag, evs, r, seen_keys):
    """a rejection is reported only if it repeats on the single offending event"""
    pos = r.depth if r.depth else 1                     # depth D: D-1 events consumed, event D unmatched
    pos = min(max(pos, 1), len(evs))
    bad = evs[pos - 1]
    rp = os.path.join(D, "rejected-%s.ndjson" % tag)
    vlib.write_ndjson(rp, [bad])
    r2 = validate_trace(ck, tag + "-single", rp)
    if r2.ok():
        raise vlib.Infra("trace rejection did not repeat on the single event (%s #%d)" % (tag, pos))
    key = "trace:%s:%s" % (bad.get("e"), "exception" if "exc" in bad else (bad.get("via") or bad.get("lvl") or ""))
    if key in seen_keys:
        seen_keys[key] += 1
        return pos
    seen_keys[key] = 1
    ck.violation(key, "recorded call is not explained by Sampler.tla: %s" % json.dumps(bad)[:700], replay_path=rp)
    return pos

# --------------------------------------------------------------------------
def run(tier, seed):
    ck = vlib.Check(PID, tier, seed, "model_checking")
    os.makedirs(D, exist_ok=True)
    quick = tier == "quick"
    _tier[0] = tier
    exe = vlib.build_driver("drv_sampler", extra_src=["seam_rng.cc"])
    seen_keys = {}
    rq = requests(tier, seed)
    ex = cf.ThreadPoolExecutor(max_workers=12)
    # ---- 1. theorems about the maps, refinement of the digit-string version (started first, collected last)
    mcs = MC_QUICK if quick else MC_THOROUGH
    def mc(c):
        return c, vlib.tlc("MC_Sampler", c + ".cfg", workers=3 if quick else 4, timeout=600 if quick else 1700, xmx="4g", env=jenv())
    mc_f = [ex.submit(mc, c) for c in mcs]
    # ---- 2. direction B: recorded calls
    chunks, per = (4, 200) if quick else (12, 1000)
    rec_f = [ex.submit(record_and_validate, ck, exe, k, seed, per, 64 if k % 3 else 24) for k in range(chunks)]
    # ---- 3. direction A: cases from TLC, executed by the driver
    parts = 2 if quick else 6
    split = [rq[i::parts] for i in range(parts)]
    gen_f = [ex.submit(generate, ck, "g%d" % i, split[i], 3, 600 if quick else 1700) for i in range(parts)]
    ncases = nruns = 0
    samples = {}
    for i, fu in enumerate(gen_f):
        r, cases = fu.result()
        ck.add_tlc("GEN_Sampler_%d" % i, r)
        res = run_cases(exe, "g%d" % i, cases)
        nruns += compare(ck, split[i], cases, res, seen_keys)
        ncases += len(cases)
        ck.add_cases("A-cases-%d" % i, len(cases), [case_identity(c) for c in cases if nontrivial(c)])
        for c, x in zip(cases, res):
            if c["kind"] not in samples and (c["kind"] not in ("perm", "rot") or 3 <= c["n"] <= 6):
                samples[c["kind"]] = {"case": {k: c[k] for k in c if k not in ("id", "rq")}, "library": x["runs"][0]}
    vlib.log("direction A done at %.0fs: %d cases, %d library runs" % (time.time() - ck.t0, ncases, nruns))
    if ncases == 0:
        raise vlib.Infra("no cases generated")
    ck.part("A", cases=ncases, library_runs=nruns)
    for s in samples.values():
        ck.sample(s)
    # ---- collect B
    nev = 0
    kinds = {}
    for fu in rec_f:
        k, tp, evs, r = fu.result()
        ck.add_tlc("trace-%d" % k, r)
        if r.ok():
            nev += len(evs)
        else:
            pos = trace_failure(ck, "chunk%d" % k, evs, r, seen_keys)
            nev += pos - 1
        for e in evs:
            kinds[e["e"]] = kinds.get(e["e"], 0) + 1
        if k == 0 and evs:
            small = [e for e in evs if e["e"] in ("Perm", "Rot") and e["n"] <= 6][:1] + [e for e in evs if e["e"] == "Mod"][:1]
            for e in small:
                ck.sample({"recorded_call": e})
    ck.add_traces(nev)
    ck.part("B", recorded_calls=nev, by_kind=kinds)
    vlib.log("direction B done at %.0fs: %d recorded calls validated" % (time.time() - ck.t0, nev))
    if nev == 0 and not seen_keys:
        raise vlib.Infra("no recorded call validated")
    # ---- collect MC
    for fu in mc_f:
        c, r = fu.result()
        if r.error:
            raise vlib.Infra("TLC %s: %s" % (c, r.error))
        ck.add_tlc(c, r)
        if r.violation:
            ck.violation("model:" + c, "a theorem of Sampler.tla / Digits.tla fails (%s): %s" % (c, r.violation),
                         replay_path=os.path.join(OUT, "tlc", "MC_Sampler-%s.cfg.log" % c))
        elif r.distinct < 10:
            raise vlib.Infra("TLC %s explored only %d states" % (c, r.distinct))
    ex.shutdown()
    for key, cnt in seen_keys.items():
        if cnt > 1:
            vlib.log("%s: %d further disagreements with the same key" % (key, cnt - 1))
    ck.cov["disagreements_by_key"] = seen_keys
    ck.cov["rule"] = ("states/transitions: TLC BFS over theorem instances and process states of MC_Sampler (integers: all word "
                      "spaces W <= %d with all moduli, Fisher-Yates n <= %d, rotation n <= %d; digit strings: all (Base,WordLen) "
                      "configs listed in parts), plus one state per generated case and per recorded call.  evaluations: cases "
                      "generated by TLC from seeded requests and executed on the library (each through 3 entry points / quality "
                      "levels); a case is non-trivial when at least one coin is consumed (stack size >= 2; every bounded/residue "
                      "case); distinct = distinct (kind, size, coin vector, word pattern) / (modulus, words) / (modulus, bytes).  "
                      "traces_validated_against_impl: recorded library calls (each an independent execution) that TLC explained "
                      "with SamplerTrace.tla" % ((64, 7, 64) if quick else (128, 8, 128)))
    ck.cov["exhaustive"] = False
    ck.assumptions += [
        "uniformity is established for the coin -> output map under uniform, independent raw coins; the statistical quality of "
        "libgcrypt's generators is outside the model (no chi-square test is part of the claim)",
        "the theorems are checked for word spaces W <= 64 (128 thorough) and carried to W = 2^64 by the same operator text, "
        "whose digit-string arithmetic is checked against integer arithmetic for small bases only",
        "gcry_randomize / gcry_create_nonce are interposed by the harness (seam_rng); BOTAN mixing is not compiled in",
    ]
    return ck.finish()

def replay(path, seed):
    """re-run one reported disagreement: a violation-N.json (direction A) or a rejected-*.ndjson (direction B)"""
    ck = vlib.Check(PID, "quick", seed, "model_checking")
    os.makedirs(D, exist_ok=True)
    exe = vlib.build_driver("drv_sampler", extra_src=["seam_rng.cc"])
    seen = {}
    if path.endswith(".ndjson"):
        evs = vlib.read_ndjson(path)
        r = validate_trace(ck, "replay", path)
        ck.add_tlc("trace-replay", r)
        if r.ok():
            ck.add_traces(len(evs))
        else:
            trace_failure(ck, "replay", evs, r, seen)
        ck.sample({"recorded_call": evs[0]})
    else:
        v = json.load(open(path))
        req = v["case"]["req"]
        r, cases = generate(ck, "replay", [req], 2, 600)        # the expectation is recomputed by TLC
        ck.add_tlc("GEN_replay", r)
        want = case_identity(v["case"]["case"])
        cases = [c for c in cases if case_identity(c) == want] or cases
        res = run_cases(exe, "replay", cases)
        compare(ck, [req], cases, res, seen)
        ck.add_cases("replay", len(cases), [case_identity(c) for c in cases])
        ck.sample({"case": cases[0], "library": res[0]["runs"]})
    return ck.finish()
