"""C09 - arithmetic primitives agree with their mathematical definition.

  oracle : spec/Arith.tla - powers, inverses, squares/roots, CRT, polynomials, primes and the wrapper's operations,
           written from the definitions.
  MC + A : spec/ArithGen.tla - TLC enumerates the small domain exhaustively (all bases x exponents x moduli, exponents
           around the table limit, all blinding coins, all odd primes with all residues and non-residues, all products
           of two primes, all abscissa vectors with all polynomials), checks in every case state the theorems that make
           the oracle trustworthy, and prints every case with its expected result / accepted set.  harness/drv_arith.cc
           runs the real routines on exactly these cases; the comparison below is a table lookup.
  B      : drv_arith record - seeded exploration in the larger domain (moduli up to 46337, exponents up to 2^30,
           prime generators, mpz<->gcry_mpi conversion up to 16000 bits, operation sequences on plain and secure
           TMCG_Bigint registers); every call is logged and spec/ArithTrace.tla judges every event.
"""
import os, json, sys, time, math, concurrent.futures as cf
import vlib
from vlib import SPEC, OUT

PID = "C09"
FAMS = ["pow", "powT", "koch", "sqp", "sqn", "ip", "big"]
GROUPS = {"power": ["pow", "powT", "koch"], "rest": ["sqp", "sqn", "ip", "big"]}     # one TLC run (one JVM) per group
GROUP_OF = {f: g for g, fs in GROUPS.items() for f in fs}
SECTIONS = ["gen,conv,big", "rpow,rsq,rip"]                                                 # one recorded trace + one TLC run each
# several JVMs run side by side on a shared machine: keep their helper threads few
JENV = {"JAVA_TOOL_OPTIONS": "-XX:ParallelGCThreads=2 -XX:CICompilerCount=2"}
MUST, MAY, REFUSE = 0, 1, 2
NAMES = {"spowm": "tmcg_mpz_spowm", "fpowm": "tmcg_mpz_fpowm", "fpowm_min": "tmcg_mpz_fpowm (smallest table)",
         "fpowm_ui": "tmcg_mpz_fpowm_ui", "fspowm": "tmcg_mpz_fspowm", "fspowm_min": "tmcg_mpz_fspowm (smallest table)",
         "baseblind": "tmcg_mpz_spowm_baseblind", "kocher": "tmcg_mpz_spowm_init/calc"}

class Findings:
    """violations grouped by stable key; one VIOLATION line per key"""
    def __init__(self):
        self.by_key = {}
    def add(self, key, what, case):
        e = self.by_key.setdefault(key, {"n": 0, "what": what, "examples": [], "telling": False})
        e["n"] += 1
        telling = isinstance(case.get("base"), int) and case["base"] > 1      # a headline with base 0/1 says little
        if telling and not e["telling"]:
            e["what"], e["telling"] = what, True
            e["examples"].insert(0, case)
            del e["examples"][5:]
        elif len(e["examples"]) < 5:
            e["examples"].append(case)
    def merge(self, other):
        for k, e in other.by_key.items():
            d = self.by_key.setdefault(k, {"n": 0, "what": e["what"], "examples": [], "telling": e.get("telling", False)})
            d["n"] += e["n"]
            d["examples"] = (d["examples"] + e["examples"])[:5]

def outcome_kind(out, v, cls):
    """None if the observed outcome is admitted by (value v, class cls) of the spec, else a short kind"""
    if out is None:
        return None
    if out == "S":                      # call not made by the harness (would raise SIGFPE inside GMP): only where a refusal is due
        return None if cls == REFUSE else "harness-skipped-a-defined-case"
    if out == "T":
        return None if cls in (MAY, REFUSE) else "unexpected-refusal"
    if cls == REFUSE:
        return "missing-refusal"
    return None if out == v else "wrong-value"

# ------------------------------------------------------------------------------------------------
# direction A: per family - what goes to the driver, and the table lookup afterwards
def call_of(L):
    f = L["f"]
    if f == "pow":
        return {"f": "pow", "m": L["m"], "b": L["b"], "e0": L["e0"], "ne": len(L["v"]), "reps": L["reps"], "wrong": L["wrong"],
                "coins": L["coins"]}
    if f == "powT":
        return {"f": "powT", "m": L["m"], "b": L["b"], "T": L["T"], "terms": [{"s": t["s"], "k": t["k"], "r": t["r"]} for t in L["terms"]]}
    if f == "koch":
        return {"f": "koch", "m": L["m"], "e": L["e"], "bases": L["bases"], "coins": L["coins"]}
    if f == "sqp":
        return {"f": "sqp", "p": L["p"], "ins": [x[0] for x in L["ins"]], "h1": L["h1"], "h2": L["h2"], "h3": L["h3"], "nq": L["nq"],
                "coins": L["coins"]}
    if f == "sqn":
        qr = sorted(set(v for v in L["sq"] if v >= 0))
        return {"f": "sqn", "p": L["p"], "q": L["q"], "n": L["n"], "blum": L["blum"], "up": L["up"], "vq": L["vq"], "h1p": L["h1p"],
                "h1q": L["h1q"], "as": qr}
    if f == "ip":
        return {"f": "ip", "q": L["q"], "a": L["a"], "bs": [x[1] for x in L["fb"]]}
    if f == "ipc":
        return {"f": "ip", "q": L["q"], "a": L["a"], "bs": L["bs"]}
    if f == "big":
        ops = [{"op": h[0], "d": h[1], "s": h[2], "u": h[3], "mx": h[4]} for h in L["hist"]]
        ops += [{"op": o[0], "d": o[1], "s": o[2] if o[0] == "cmp" else 0, "u": 0 if o[0] == "cmp" else o[2], "mx": 0} for o in L["obs"]]
        return {"f": "big", "init": L["init"], "ops": ops}
    raise vlib.Infra("unknown family " + f)

def cmp_pow(L, R, F, stats):
    m, b, e0 = L["m"], L["b"], L["e0"]
    v, r = L["v"], R["r"]
    ne = len(v)
    def one(variant, outs, cls, base, extra=None):
        for i in range(ne):
            out = outs[i]
            if out is None:
                continue
            stats["n"] += 1
            k = outcome_kind(out, v[i], cls[i])
            if k:
                e = e0 + i
                key = "pow:%s:%s" % (variant.replace("_min", ""), k)
                if variant == "spowm" and k == "unexpected-refusal" and e > 0 and math.gcd(e, m) != 1:
                    key = "pow:spowm:refuses-exponent-sharing-a-factor-with-the-modulus"
                case = {"routine": NAMES.get(variant, variant), "base": base, "exponent": e, "modulus": m,
                        "expected": ("refusal" if cls[i] == REFUSE else v[i]), "observed": ("refusal (exception)" if out == "T" else out)}
                if extra: case.update(extra)
                F.add(key, "%s(base=%s, exponent=%d, modulus=%d): spec %s, code %s" % (
                    NAMES.get(variant, variant), base, e, m, case["expected"], case["observed"]), case)
    for ri, rep in enumerate(L["reps"]):
        one("spowm", r["spowm"][ri], L["co"], rep)
        for var in ("fpowm", "fpowm_min", "fpowm_ui", "fspowm", "fspowm_min", "baseblind"):
            one(var, r[var][ri], L["c"], rep)
    for ci, coin in enumerate(L["coins"]):
        one("baseblind", r["bbc"][ci], L["c"], L["reps"][0], {"blinding_coins": coin})
        for i in range(ne):
            if r["bbc"][ci][i] != "S" and r["bbd"][ci][i] != len(coin):
                F.add("pow:baseblind:coins", "tmcg_mpz_spowm_baseblind(m=%d) consumed %d draws (+1000 per unread entry) for the coin sequence %s" % (
                    m, r["bbd"][ci][i], coin), {"modulus": m, "coins": coin, "base": b, "exponent": e0 + i})
    for wi, tb in enumerate(L["wrong"]):
        for var, key in (("fpowm", "w_fpowm"), ("fspowm", "w_fspowm"), ("fpowm_ui", "w_fpowm_ui")):
            one(var + "/table-of-other-base", r[key][wi], L["cw"][wi], L["reps"][0], {"table_base": tb})
    if b % m not in (0, 1):
        for i in range(ne):
            if abs(e0 + i) >= 2 and L["c"][i] == MUST:
                stats["keys"].append(("pow", m, b, e0 + i))

def cmp_powT(L, R, F, stats):
    m, b = L["m"], L["b"]
    res = {(t["s"], t["k"], t["r"]): t for t in R["r"]}
    for t in L["terms"]:
        o = res[(t["s"], t["k"], t["r"])]
        for var, cls in (("spowm", t["cf"]), ("baseblind", t["cf"]), ("kocher", t["cf"]), ("fpowm", t["ct"]), ("fspowm", t["ct"])):
            stats["n"] += 1
            k = outcome_kind(o[var], t["v"], cls)
            if k:
                if var == "spowm" and k == "unexpected-refusal" and t["s"] > 0 and math.gcd(2 ** t["k"] + t["r"], m) != 1:
                    k = "refuses-exponent-sharing-a-factor-with-the-modulus"
                ex = "%s(2^%d+%d)" % ("-" if t["s"] < 0 else "", t["k"], t["r"])
                case = {"routine": NAMES[var], "base": b, "exponent": ex, "exponent_bits": t["k"] + 1, "table_limit": L["T"], "modulus": m,
                        "expected": ("refusal" if cls == REFUSE else t["v"]), "observed": o[var]}
                F.add(("pow:%s:%s" if k.startswith("refuses-") else "powT:%s:%s") % (var, k), "%s(base=%d, exponent=%s [%d bits, table limit %d], modulus=%d): spec %s, code %s" % (
                    NAMES[var], b, ex, t["k"] + 1, L["T"], m, case["expected"], case["observed"]), case)
        if b not in (0, 1):
            stats["keys"].append(("powT", m, b, t["s"], t["k"], t["r"]))

def cmp_koch(L, R, F, stats):
    m, e = L["m"], L["e"]
    runs = [(c, R["r"][i], R["d"][i]) for i, c in enumerate(L["coins"])] + [(None, R["p"], None)]
    for coin, outs, draws in runs:
        for i, base in enumerate(L["bases"]):
            stats["n"] += 1
            if outs[i] != L["v"][i]:
                F.add("koch:wrong-value", "tmcg_mpz_spowm_init(x=%d, p=%d) coins %s; call #%d tmcg_mpz_spowm_calc(%d): spec %d, code %s" % (
                    e, m, coin, i + 1, base, L["v"][i], outs[i]),
                    {"exponent": e, "modulus": m, "blinding_coins": coin, "bases_in_order": L["bases"][:i + 1], "expected": L["v"][i], "observed": outs[i]})
        if coin is not None and draws != len(coin):
            F.add("koch:coins", "tmcg_mpz_spowm_init(x=%d, p=%d) consumed %d draws for the coin sequence %s" % (e, m, draws, coin),
                  {"exponent": e, "modulus": m, "coins": coin})
    if abs(e) >= 2:
        stats["keys"] += [("koch", m, e, b) for b in L["bases"] if b > 1]

def cmp_sqp(L, R, F, stats):
    p, sq = L["p"], L["sq"]
    res = {o["a"]: o for o in R["r"]}
    def isroot(r, a):
        return isinstance(r, int) and 1 <= r < p and sq[r - 1] == a
    for arg, a in L["ins"]:
        o = res[arg]
        checks = [("tmcg_mpz_sqrtmp", o["s"], None), ("tmcg_mpz_sqrtmp_r", o["sp"], "seeded")]
        checks += [("tmcg_mpz_sqrtmp_r", x, "non-residue coin %d" % L["coins"][j]) for j, x in enumerate(o["sr"])]
        checks += [("tmcg_mpz_sqrtmp_fast", x, "nqr=%d nqr^((p-1)/4)=%d" % tuple(L["nq"][j])) for j, x in enumerate(o["sf"])]
        for name, r, how in checks:
            stats["n"] += 1
            if not isroot(r, a):
                F.add("sqrt:%s:not-a-root:p=%dmod8" % (name, p % 8), "%s(a=%d, p=%d%s) returned %s, whose square is not a (mod p)" % (
                    name, arg, p, (", " + how) if how else "", r), {"routine": name, "a": arg, "p": p, "how": how, "returned": r})
        stats["keys"].append(("sqp", p, arg))

def cmp_sqn(L, R, F, stats):
    p, q, n, sq = L["p"], L["q"], L["n"], L["sq"]
    roots = {}
    for i, v in enumerate(sq):
        if v >= 0:
            roots.setdefault(v, set()).add(i + 1)
    qr = sorted(roots)
    stats["n"] += n
    if R["qr"] != qr:
        diff = sorted(set(R["qr"]) ^ set(qr))
        F.add("sqrt:qrmn_p", "tmcg_mpz_qrmn_p(a, p=%d, q=%d) differs from 'a is a quadratic residue mod %d' for a in %s" % (p, q, n, diff[:10]),
              {"p": p, "q": q, "a_with_wrong_answer": diff[:20]})
    for o in R["r"]:
        a = o["a"]
        want = roots[a]
        one = [("tmcg_mpz_sqrtmn", o["s"]), ("tmcg_mpz_sqrtmn_2", o["s2"]), ("tmcg_mpz_sqrtmn_r", o["sr"])]
        four = [("tmcg_mpz_sqrtmn_all", o["all"]), ("tmcg_mpz_sqrtmn_r_all", o["rall"])]
        if L["blum"]:
            one.append(("tmcg_mpz_sqrtmn_fast", o["fast"]))
            four.append(("tmcg_mpz_sqrtmn_fast_all", o["fall"]))
        for name, r in one:
            stats["n"] += 1
            if r not in want:
                F.add("sqrt:%s:not-a-root" % name, "%s(a=%d, p=%d, q=%d) returned %s; the roots of a mod %d are %s" % (name, a, p, q, r, n, sorted(want)),
                      {"routine": name, "a": a, "p": p, "q": q, "returned": r, "roots": sorted(want)})
        for name, r in four:
            stats["n"] += 1
            if not isinstance(r, list) or set(r) != want:
                F.add("sqrt:%s:not-all-roots" % name, "%s(a=%d, p=%d, q=%d) returned %s; the roots of a mod %d are %s" % (name, a, p, q, r, n, sorted(want)),
                      {"routine": name, "a": a, "p": p, "q": q, "returned": r, "roots": sorted(want)})
        stats["keys"].append(("sqn", p, q, a))

def cmp_ip(L, R, F, stats):
    q, a = L["q"], L["a"]
    if L["f"] == "ip":
        for (f, b), o in zip(L["fb"], R["r"]):
            stats["n"] += 1
            if o.get("ret") is not True or o.get("f") != f:
                F.add("interpolate:wrong-polynomial", "tmcg_interpolate_polynom(a=%s, b=%s, q=%d): spec: true with f=%s; code: %s f=%s" % (
                    a, b, q, f, o.get("ret"), o.get("f")), {"a": a, "b": b, "q": q, "expected_f": f, "observed": o})
            if len(a) >= 2 and any(f[1:]):
                stats["keys"].append(("ip", q, tuple(a), tuple(b)))
    else:
        for b, o in zip(L["bs"], R["r"]):
            stats["n"] += 1
            if o.get("ret") is not False:
                F.add("interpolate:colliding-abscissae-accepted", "tmcg_interpolate_polynom(a=%s, b=%s, q=%d) with colliding abscissae answered %s f=%s" % (
                    a, b, q, o.get("ret"), o.get("f")), {"a": a, "b": b, "q": q, "observed": o})
            stats["keys"].append(("ipc", q, tuple(a), tuple(b)))

REFUSED = -2000000000
def cmp_big(L, R, F, stats):
    evs = R["r"]
    nh = len(L["hist"])
    seq = [[h[0], h[1], h[2], h[3], h[4]] for h in L["hist"]]
    def bad(what, i, ev):
        F.add("bigint:%s" % ev["op"], "TMCG_Bigint registers %s, operations %s: %s" % (L["init"], seq[:i + 1] if i < nh else seq + [[ev["op"], ev["d"], ev["s"], ev["u"]]], what),
              {"init": L["init"], "operations": seq[:i + 1] if i < nh else seq, "last": {k: ev.get(k) for k in ("op", "d", "s", "u", "mx", "pv", "sv", "pc", "sc", "pr", "sr", "psz", "ssz", "pui", "sui", "ppr")}})
    for i, h in enumerate(L["hist"]):
        ev = evs[i]
        op, d, s_, u, mx, val, sref, rs = h
        stats["n"] += 1
        if ev["pv"] != val or ev["pr"] != rs:
            bad("plain back end: register %d is %s (registers %s), spec %s (%s)" % (d, ev["pv"], ev["pr"], val, rs), i, ev)
        elif not (ev["sv"] == val or (sref and ev["sv"] == REFUSED)) or ev["sr"] != rs:
            bad("secure back end: register %d is %s (registers %s), spec and plain back end %s (%s)" % (d, ev["sv"], ev["sr"], val, rs), i, ev)
    for j, o in enumerate(L["obs"]):
        ev = evs[nh + j]
        stats["n"] += 1
        if o[0] == "cmp":
            want = o[3]
            if ev["pc"] != want:
                bad("plain back end: comparisons [==,!=,>,<,>=,<=] of register %d with register %d give %s, spec %s" % (o[1], o[2], ev["pc"], want), nh, ev)
            elif ev["sc"] != want:
                bad("secure back end: comparisons [==,!=,>,<,>=,<=] of register %d with register %d give %s, spec and plain back end %s" % (o[1], o[2], ev["sc"], want), nh, ev)
        else:
            want, bits, x, prime = o[3], o[4], o[5], o[6]
            if ev["pc"] != want or ev["psz"] != bits or ev["pui"] != x or ev["ppr"] != prime:
                bad("plain back end: register %d observed as cmp-with-%d %s size %s get_ui %s prime %s; spec %s %s %s %s" % (
                    o[1], o[2], ev["pc"], ev["psz"], ev["pui"], ev["ppr"], want, bits, x, prime), nh, ev)
            elif ev["sc"][:4] != want[:4] or ev["sc"][4] not in (want[4], -1) or ev["ssz"] != bits or ev["sui"] != x:
                bad("secure back end: register %d observed as cmp-with-%d %s size %s get_ui %s; spec %s %s %s" % (
                    o[1], o[2], ev["sc"], ev["ssz"], ev["sui"], want, bits, x), nh, ev)
    if nh >= 2 or (nh == 1 and L["hist"][0][0] not in ("set_ui",)):
        stats["keys"].append(("big", tuple(L["init"]), json.dumps(seq)))

CMP = {"big": cmp_big, "pow": cmp_pow, "powT": cmp_powT, "koch": cmp_koch, "sqp": cmp_sqp, "sqn": cmp_sqn, "ip": cmp_ip, "ipc": cmp_ip}

def run_cases(exe, tag, lines):
    """hand the cases to the driver, look the raw results up in the lines printed by TLC"""
    d = os.path.join(OUT, PID)
    cp, rp = os.path.join(d, "cases-%s.ndjson" % tag), os.path.join(d, "results-%s.ndjson" % tag)
    vlib.write_ndjson(cp, [call_of(L) for L in lines])
    rc, so, se, wall = vlib.run_driver(exe, ["cases", cp, rp], timeout=3000)
    F, stats = Findings(), {"n": 0, "keys": []}
    res = vlib.read_ndjson(rp) if os.path.exists(rp) else []
    if rc != 0 or len(res) != len(lines):
        # the process died inside a library routine: that is a verdict about the case it was working on
        at = lines[len(res)] if len(res) < len(lines) else None
        if rc < 0 or rc >= 128 or rc == 3:
            F.add("crash:%s" % tag, "drv_arith died (exit %s) while running the %s case %s; stderr: %s" % (
                rc, tag, json.dumps(call_of(at))[:300] if at else "?", se[-300:]), {"case": call_of(at) if at else None})
            lines = lines[:len(res)]
        else:
            raise vlib.Infra("drv_arith cases %s failed: rc=%s %s %s" % (tag, rc, so[-300:], se[-300:]))
    for L, R in zip(lines, res):
        CMP[L["f"]](L, R, F, stats)
    return F, stats, wall

def group_A(exe, group, tier, info, only=None):
    """one TLC run enumerates the families of the group; every family's cases then go through the driver"""
    cfg = "GEN_Arith_%s_%s.cfg" % (group, "q" if tier == "quick" else "t")
    t0 = time.time()
    r = vlib.tlc("ArithGen", cfg, workers={"power": 5, "rest": 7}[group] if tier == "quick" else 8, timeout=1200 if tier == "quick" else 3000, xmx="6g", env=JENV)
    if r.error:
        raise vlib.Infra("TLC %s: %s" % (cfg, r.error))
    vlib.log("TLC %s: %d states, %.0fs" % (cfg, r.distinct, r.wall))
    out = []
    if r.violation:
        return group, r, out
    lines = [x for x in r.printed if isinstance(x, dict) and "f" in x]
    for fam in GROUPS[group]:
        if only and fam not in only:
            continue
        fl = [L for L in lines if L["f"] == fam or (fam == "ip" and L["f"] == "ipc")]
        if not fl:
            raise vlib.Infra("TLC %s printed no cases of family %s" % (cfg, fam))
        if fam == "powT" and fl[0]["T"] != info["T"]:
            raise vlib.Infra("table limit of the spec (%s) is not TMCG_MAX_FPOWM_T of the library (%s)" % (fl[0]["T"], info["T"]))
        fl.sort(key=lambda L: (L["f"], L.get("m", 0), L.get("b", 0), L.get("e", 0), L.get("p", 0), L.get("q", 0), L.get("a", []), L.get("init", []), json.dumps(L.get("hist", 0))))
        t1 = time.time()
        F, stats, wall = run_cases(exe, fam, fl)
        vlib.log("family %s: %d cases, driver %.0fs, lookup %.0fs" % (fam, len(fl), wall, time.time() - t1 - wall))
        out.append((fam, fl, F, stats, wall))
    return group, r, out

# ------------------------------------------------------------------------------------------------
# direction B
def classify_event(ev, kind):
    e = ev.get("e")
    if kind == "pre":
        return "harness:%s" % e
    if e == "pow":
        fn, x, m, out = ev["fn"], ev["x"], ev["m"], ev["out"]
        if fn == "spowm" and out == -1 and x > 0 and math.gcd(x, m) != 1:
            return "pow:spowm:refuses-exponent-sharing-a-factor-with-the-modulus"
        return "pow:%s:%s" % (fn, "unexpected-refusal" if out == -1 else "wrong-value-or-missing-refusal")
    if e == "gen":
        return "primes:%s" % ev["fn"]
    if e == "conv":
        return "conversion:not-lossless"
    if e in ("sqrtp", "sqrtn"):
        return "sqrt:tmcg_mpz_%s:not-a-root" % ev["fn"]
    if e == "ip":
        return "interpolate:recorded"
    if e == "big":
        return "bigint:%s" % ev["op"]
    return "trace:%s" % e

def validate_trace(tag, path):
    r = vlib.tlc("ArithTrace", "ArithTrace.cfg", workers=1, env=dict(JENV, TRACE=path), timeout=2400, xmx="4g")
    vlib.log("TLC ArithTrace %s: %d events, %.0fs" % (tag, r.distinct, r.wall))
    if r.error or r.violation:
        raise vlib.Infra("trace validation %s: %s %s" % (tag, r.error, r.violation))
    bad = [x for x in r.printed if isinstance(x, dict) and "bad" in x]
    return r, bad

def section_B(exe, sec, tier, seed):
    d = os.path.join(OUT, PID)
    tp = os.path.join(d, "trace-%s.ndjson" % sec.replace(",", "-"))
    rc, so, se, wall = vlib.run_driver(exe, ["record", seed, 0 if tier == "quick" else 1, tp], timeout=1500, env={"ARITH_SECTIONS": sec})
    F = Findings()
    if rc != 0:
        evs = vlib.read_ndjson(tp) if os.path.exists(tp) else []
        if rc < 0 or rc >= 128 or rc == 3:
            F.add("crash:record-%s" % sec, "drv_arith record died (exit %s) in section %s after event %s; stderr: %s" % (
                rc, sec, json.dumps(evs[-1])[:300] if evs else "-", se[-300:]), {"last_event": evs[-1] if evs else None, "seed": seed})
        else:
            raise vlib.Infra("drv_arith record %s failed: rc=%s %s" % (sec, rc, se[-300:]))
    evs = vlib.read_ndjson(tp)
    if not evs:
        raise vlib.Infra("empty trace for section " + sec)
    r, bad = validate_trace(sec, tp)
    if bad:
        # a rejection is reported only if a second TLC run repeats it (on the executions that contain a bad event)
        badlines = set(x["bad"] for x in bad)
        execs, cur = [], None
        for i, e in enumerate(evs, 1):
            if e["e"] == "Reset":
                cur = {"evs": [], "bad": False}; execs.append(cur)
            cur["evs"].append(e)
            if i in badlines: cur["bad"] = True
        tp2 = tp.replace(".ndjson", "-bad-executions.ndjson")
        vlib.write_ndjson(tp2, [e for x in execs if x["bad"] for e in x["evs"]])
        r2, bad2 = validate_trace(sec + " (executions with a bad event, again)", tp2)
        if sorted(json.dumps(x["ev"], sort_keys=True) for x in bad) != sorted(json.dumps(x["ev"], sort_keys=True) for x in bad2):
            raise vlib.Infra("trace verdicts of section %s did not repeat" % sec)
    for x in bad:
        key = classify_event(x["ev"], x["kind"])
        F.add(key, "recorded call judged bad by ArithTrace.tla (%s-condition), event #%d of %s: %s" % (x["kind"], x["bad"], os.path.basename(tp),
              json.dumps(x["ev"])[:400]), {"event": x["ev"], "trace": tp, "line": x["bad"]})
    nexec = sum(1 for e in evs if e["e"] == "Reset")
    badlines = set(x["bad"] for x in bad)
    # executions (Reset .. next Reset) without a bad event
    good, cur_ok, started = 0, True, False
    for i, e in enumerate(evs, 1):
        if e["e"] == "Reset":
            if started and cur_ok: good += 1
            started, cur_ok = True, True
        elif i in badlines:
            cur_ok = False
    if started and cur_ok: good += 1
    return sec, r, evs, F, nexec, good

# ------------------------------------------------------------------------------------------------
def report(ck, F):
    for key in sorted(F.by_key):
        e = F.by_key[key]
        ck.violation(key, "%s  [%d such case(s)]" % (e["what"], e["n"]), {"kind": "A" if "event" not in e["examples"][0] else "B",
                     "count": e["n"], "examples": e["examples"]})

def run(tier, seed):
    ck = vlib.Check(PID, tier, seed, "model_checking")
    exe = vlib.build_driver("drv_arith", extra_src=["seam_rng.cc"])
    rc, so, se, _ = vlib.run_driver(exe, ["info"])
    if rc != 0:
        raise vlib.Infra("drv_arith info failed: " + se[-300:])
    info = json.loads(so)
    ck.part("library", **info)
    allF = Findings()
    with cf.ThreadPoolExecutor(max_workers=6) as ex:
        futA = [ex.submit(group_A, exe, g, tier, info) for g in GROUPS]
        futB = [ex.submit(section_B, exe, sec, tier, seed) for sec in SECTIONS]
        for fu in futA:
            group, r, fams = fu.result()
            ck.add_tlc("ArithGen:" + group, r)
            if r.violation:
                ck.violation("model:" + group, "a theorem of Arith.tla fails in group %s: %s" % (group, r.violation),
                             replay_path=os.path.join(OUT, "tlc", "ArithGen-GEN_Arith_%s_%s.cfg.log" % (group, "q" if tier == "quick" else "t")))
                continue
            for fam, lines, F, stats, wall in fams:
                ck.add_cases("A:" + fam, stats["n"], stats["keys"])
                ck.part("A:" + fam, tlc_cases=len(lines), driver_wall_s=round(wall, 1))
                allF.merge(F)
                if fam in ("pow", "sqp", "ip", "big"):
                    L = next((x for x in lines if x["f"] == fam and x.get("b", 2) > 1 and x.get("p", 9) > 7 and x.get("m", 23) == 23), lines[0])
                    s = json.loads(json.dumps(L))
                    for k in list(s):          # keep the sample readable
                        if isinstance(s[k], list) and len(s[k]) > 12:
                            s[k] = s[k][:12] + ["... %d entries" % len(s[k])]
                        if k == "cw": s[k] = "..."
                    ck.sample({"tlc_case": s})
        for fu in futB:
            sec, r, evs, F, nexec, good = fu.result()
            ck.add_tlc("ArithTrace:" + sec, r)
            ck.add_traces(good)
            nontriv = [json.dumps(e, sort_keys=True) for e in evs if e["e"] != "Reset"]
            ck.add_cases("B:" + sec, len(nontriv), nontriv)
            ck.part("B:" + sec, executions=nexec, executions_without_bad_event=good)
            allF.merge(F)
            for want in ("gen", "big", "conv"):
                ev = next((e for e in evs if e["e"] == want and e.get("op", "") not in ("set_ui",)), None)
                if ev: ck.sample({"recorded_event": ev})
    report(ck, allF)
    ck.cov["rule"] = ("A: every case of the bounded domain enumerated by TLC (ArithGen.tla) is run through the real routines; an evaluation is one "
                      "routine call compared with the spec's value/class; a case is non-trivial when the base is not 0/1, |exponent| >= 2 and a value is "
                      "due (powers), for every residue/prime pair (roots), for polynomials of degree >= 1 (interpolation); distinct = distinct input "
                      "tuples.  B: every recorded event (distinct by content) judged by ArithTrace.tla; traces = recorded executions without a bad event.")
    ck.cov["exhaustive"] = False
    ck.assumptions += [
        "operands below 2^31 (TLC integers): moduli <= 101 (quick) / 257 (thorough) exhaustively, <= 46337 sampled; size-dependent code paths "
        "(limb boundaries) are only touched by the exponents around the 2048-bit table limit and by the hexadecimal conversion checks",
        "GMP's mpz_powm / mpz_invert / mpz_jacobi / mpz_probab_prime_p are trusted only in so far as their results are compared with the spec",
        "quadratic residues are units (0 and non-coprime squares are outside the quantifier); p = 2 is excluded (tmcg_mpz_sqrtmp loops forever on p = 2)",
        "blinded routines are not called with a negative exponent on a non-unit (GMP raises SIGFPE; outside the property)",
    ]
    return ck.finish()

def replay(path, seed):
    ck = vlib.Check(PID, "quick", seed, "model_checking")
    exe = vlib.build_driver("drv_arith", extra_src=["seam_rng.cc"])
    if path.endswith(".ndjson"):
        r, bad = validate_trace("replay", path)
        ck.add_tlc("ArithTrace:replay", r)
        F = Findings()
        for x in bad:
            F.add(classify_event(x["ev"], x["kind"]), "recorded call judged bad by ArithTrace.tla: %s" % json.dumps(x["ev"])[:400], {"event": x["ev"]})
        report(ck, F)
        return ck.finish()
    obj = json.load(open(path))
    case = obj.get("case") or {}
    if case.get("kind") == "B":
        tp = os.path.join(OUT, PID, "replay-trace.ndjson")
        vlib.write_ndjson(tp, [{"e": "Reset", "sec": "replay", "k": 0}] + [x["event"] for x in case["examples"]])
        return replay(tp, seed)
    # direction A: regenerate the family of the key with TLC and run it again
    fam = obj["key"].split(":")[0]
    fams = {"sqrt": ["sqp", "sqn"], "interpolate": ["ip"], "pow": ["pow", "powT"], "bigint": ["big"], "crash": FAMS}.get(fam, [fam] if fam in FAMS else FAMS)
    rc, so, se, _ = vlib.run_driver(exe, ["info"])
    info = json.loads(so)
    allF = Findings()
    for g in sorted(set(GROUP_OF[f] for f in fams)):
        group, r, out = group_A(exe, g, "quick", info, only=fams)
        ck.add_tlc("ArithGen:" + g, r)
        for f, lines, F, stats, wall in out:
            allF.merge(F); ck.add_cases("A:" + f, stats["n"], stats["keys"])
    report(ck, allF)
    ck.sample({"replayed": obj.get("key")})
    return ck.finish()
