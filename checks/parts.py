"""run the parts of a check side by side (each part reports into the same vlib.Check); the first infrastructure error wins"""
import concurrent.futures as cf
def parallel(jobs, workers=4):
    """jobs: list of (name, callable); returns {name: result}"""
    out = {}
    with cf.ThreadPoolExecutor(max_workers=workers) as ex:
        futs = [(name, ex.submit(fn)) for name, fn in jobs]
        err = None
        for name, fu in futs:
            try:
                out[name] = fu.result()
            except Exception as e:      # let the other parts finish, then report the first failure
                err = err or e
        if err:
            raise err
    return out
def replay_dispatch(ck, pid, path, default):
    """a replay file is re-judged by the trace spec that rejected it (told by its name)"""
    import os
    b = os.path.basename(path)
    if "groth" in b:
        import groth_common; groth_common.replay(ck, pid, path)
    elif "rot" in b:
        import rotation_common; rotation_common.replay(ck, pid, path)
    elif "qrp" in b:
        import qrproof_common; qrproof_common.replay(ck, pid, path)
    elif "gjkr" in b:
        import gjkr_common; gjkr_common.replay(ck, pid, path)
    else:
        default()
    ck.cov["states"] = max(ck.cov["states"], 1); ck.cov["transitions"] = max(ck.cov["transitions"], 1)
