import vlib, vtmf_common, qr_common, tracecheck
PID = "C02"
EVS = "SSec,Mix,Glue".split(",")
def run(tier, seed):
    ck = vlib.Check(PID, tier, seed, "model_checking")
    vtmf_common.run_mc(ck, ["MC_VTMF_stack"], tier)
    def interesting(e):
        if e["e"] in EVS:
            return "%s:%s:%s:%s" % (e["e"], e.get("mut"), e.get("res"), str(e.get("ss") or e.get("msg") or e.get("x"))[:80])
        return None
    vtmf_common.record_and_validate(ck, PID, "c02", 400 if tier == "quick" else 6000, seed, interesting)
    qr_common.run_mc(ck)
    qr_common.record_and_validate(ck, PID, 150 if tier == "quick" else 3000, seed, ["SSec","Mix"])
    ck.cov["rule"] = "MC_VTMF_stack exhaustive in p=23,q=11; recorded random executions validated by VTMFTrace; a case is a distinct (execution, operation, arguments) triple of the kinds " + ",".join(EVS)
    return ck.finish()
def replay(path, seed):
    ck = vlib.Check(PID, "quick", seed, "model_checking")
    tracecheck.validate(ck, PID, "replay", "VTMFTrace", "VTMFTrace.cfg", tracecheck.split_executions(path), classify=vtmf_common.classify, chunks=1)
    return ck.finish()
