"""shared machinery: record executions of a driver, validate the log with a *Trace.tla module,
localise a rejection to one execution, confirm it on that execution alone, report."""
import os, json, concurrent.futures as cf
import vlib
from vlib import OUT

def split_executions(path):
    execs = []
    for e in vlib.read_ndjson(path):
        if e["e"] == "Reset":
            execs.append([e])
        elif e["e"] == "TERMINATE":
            raise vlib.Infra("driver terminated: %s" % e)
        else:
            execs[-1].append(e)
    return execs

def _run_tlc(module, cfgpath, tracefile, timeout=1800):
    r = vlib.tlc(module, cfgpath, workers=1, env={"TRACE": tracefile}, timeout=timeout, xmx="6g")
    if r.error:
        raise vlib.Infra("trace validation %s on %s: %s" % (module, tracefile, r.error))
    return r

def _position(r):
    if r.depth:
        return r.depth
    import re
    ns = [int(m.group(1)) for m in re.finditer(r"^State (\d+):", r.out, re.M)]
    return max(ns) if ns else 1

def validate(ck, pid, tag, module, cfgpath, execs, classify=None, chunks=6, strip=None):
    """execs: list of executions (lists of events). Splits into `chunks` TLC runs in parallel.
    Returns number of accepted executions. Reports violations through ck."""
    d = os.path.join(OUT, pid, "tv"); os.makedirs(d, exist_ok=True)
    if not execs:
        return 0
    chunks = max(1, min(chunks, len(execs)))
    parts = [execs[k::chunks] for k in range(chunks)]
    def one(k):
        tf = os.path.join(d, "%s-%d.ndjson" % (tag, k))
        vlib.write_ndjson(tf, [e for x in parts[k] for e in x])
        return k, _run_tlc(module, cfgpath, tf)
    accepted, nviol = 0, 0
    with cf.ThreadPoolExecutor(max_workers=chunks) as ex:
        results = list(ex.map(one, range(chunks)))
    for k, r in results:
        ck.cov["states"] += r.distinct; ck.cov["transitions"] += max(r.generated, r.distinct)
        if r.ok():
            accepted += len(parts[k]); continue
        pos = _position(r)
        idx, acc = 0, 0
        for j, x in enumerate(parts[k]):
            if acc + len(x) >= pos:
                idx = j; break
            acc += len(x)
        accepted += idx
        bad = parts[k][idx]
        tf = os.path.join(d, "%s-replay-%d.ndjson" % (tag, nviol))
        vlib.write_ndjson(tf, bad)
        r2 = _run_tlc(module, cfgpath, tf)
        if r2.ok():
            raise vlib.Infra("trace rejection did not repeat on the single execution (%s %s)" % (pid, tag))
        p2 = _position(r2)
        ev = bad[p2 - 1] if 0 < p2 <= len(bad) else {}
        key = classify(ev, r2) if classify else "trace-rejected:" + str(ev.get("e"))
        rp = os.path.join(OUT, pid, "rejected-%s-%d.ndjson" % (tag, nviol))
        vlib.write_ndjson(rp, bad)
        show = {k2: v for k2, v in ev.items() if k2 != "h"}
        what = "%s: log of the real code is not a behaviour of %s; %s; first unmatched event #%d of the execution: %s" % (
            tag, module, (r2.violation or "").strip()[:200], p2, json.dumps(show)[:700])
        ck.violation(key, what, replay_path=rp)
        nviol += 1
    ck.add_traces(accepted)
    return accepted
