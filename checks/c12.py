"""C12 - untrusted input never corrupts memory or kills the process.
Malformed.tla enumerates the structure-aware mutation catalogue for every valid sample; the ASan/UBSan build of the
driver runs each case in a sandboxed child; outcome must be refused / exception / accepted."""
import os, json, concurrent.futures as cf
import vlib
from vlib import OUT
PID = "C12"

def run(tier, seed):
    ck = vlib.Check(PID, tier, seed, "fault_enumeration")
    exe = vlib.build_driver("drv_malformed", variant="asan", extra_src=["seam_rng.cc"])
    d = os.path.join(OUT, PID); os.makedirs(d, exist_ok=True)
    sp = os.path.join(d, "samples.ndjson")
    rc, so, se, _ = vlib.run_driver(exe, ["samples", sp], timeout=900)
    if rc != 0:
        raise vlib.Infra("drv_malformed samples failed: %s %s" % (so[-300:], se[-300:]))
    samples = vlib.read_ndjson(sp)
    r = vlib.tlc("Malformed", "Malformed.cfg", workers=1, timeout=1200, xmx="6g",
                 env={"SAMPLES": sp, "STRIDE": "16" if tier == "quick" else "1"})
    if r.error or r.violation:
        raise vlib.Infra("TLC Malformed: %s %s" % (r.error, r.violation))
    ck.add_tlc("Malformed", r)
    cases = [c for c in r.printed if isinstance(c, dict) and "op" in c]
    if not cases:
        raise vlib.Infra("no cases generated")
    # quick tier: a seed-dependent subset of the enumeration (every sample and every operator stays represented);
    # consumers that cost seconds under ASan (key checks, the cut-and-choose verifier with its TMCG_MAX_STACK_CHARS
    # buffers) get fewer cases
    if tier == "quick":
        heavy = {"ccproof": 24, "qccproof": 24, "pubkey": 40, "seckey": 40, "qstack": 60, "qssec": 60, "sig": 40, "enc": 40}
        bytype = {}
        binary = {x["type"] for x in samples if x.get("binary")}
        for c in cases:
            bytype.setdefault(c["type"], []).append(c)
        cases = []
        for t, cs in sorted(bytype.items()):
            cap = heavy.get(t, 140)
            if t in binary:
                cap = len(cs)          # parsing binary OpenPGP data costs milliseconds: the whole enumeration
            step = max(1, len(cs) // cap)
            cases += cs[(seed % step)::step]
            # the dimension / count / index fields are few and are where wrong-sized answers come from: all of them
            cases += [c for c in cs if c["op"] == "SetDim" and c not in cs[(seed % step)::step]]
    nchunks = 16
    parts = [cases[k::nchunks] for k in range(nchunks)]
    def one(k):
        cp = os.path.join(d, "cases-%d.ndjson" % k); rp = os.path.join(d, "res-%d.ndjson" % k)
        vlib.write_ndjson(cp, parts[k])
        rc, so, se, _ = vlib.run_driver(exe, ["run", cp, rp], timeout=3000)
        if rc != 0:
            raise vlib.Infra("drv_malformed run failed rc=%s: %s %s" % (rc, so[-300:], se[-300:]))
        res = vlib.read_ndjson(rp); os.unlink(cp); os.unlink(rp)
        return res
    with cf.ThreadPoolExecutor(max_workers=nchunks) as ex:
        results = [x for part in ex.map(one, range(nchunks)) for x in part]
    bad = [x for x in results if x["out"] in ("crash", "timeout")]
    counts = {}
    for x in results:
        counts[x["out"]] = counts.get(x["out"], 0) + 1
    ck.part("outcomes", **counts)
    seen = set()
    for x in bad:
        key = "%s:%s:%s" % (x["type"], x["op"], x["out"])
        if key in seen:
            continue
        seen.add(key)
        ck.violation(key, "%s on a mutated %s (%s at %s%s), signal %s" % (x["out"], x["type"], x["op"], x.get("k"),
                     " := " + json.dumps(x.get("v")) if "v" in x else "", x.get("signal")), replay_obj=x)
    ck.add_cases("mutations", len(results), [json.dumps([x["type"], x["op"], x.get("k"), x.get("v")]) for x in results if x["out"] != "n/a"])
    for x in results[:3]:
        ck.sample(x)
    ck.cov["rule"] = ("every (sample, mutation descriptor) pair enumerated by Malformed.tla for %d valid samples: field deletion / duplication / "
                      "swap / truncation, every field set to each catalogue value, truncation at every character offset (stride in quick for "
                      "long samples), octet overwrite with length-boundary values for binary OpenPGP data; each case in a forked child of the "
                      "ASan+UBSan build with CPU limit; distinct = distinct descriptors that applied" % len(samples))
    ck.cov["exhaustive"] = False
    ck.assumptions += ["structure-aware cases derived from the model, not all byte strings; memory errors are observed (sanitizers, signals), not modelled",
                       "memory leaks are not counted as violations (detect_leaks=0)"]
    return ck.finish()

def replay(path, seed):
    ck = vlib.Check(PID, "quick", seed, "fault_enumeration")
    exe = vlib.build_driver("drv_malformed", variant="asan", extra_src=["seam_rng.cc"])
    obj = json.load(open(path))
    case = obj.get("case", obj)
    d = os.path.join(OUT, PID); os.makedirs(d, exist_ok=True)
    cp = os.path.join(d, "replay-case.ndjson"); rp = os.path.join(d, "replay-res.ndjson")
    vlib.write_ndjson(cp, [case])
    vlib.run_driver(exe, ["run", cp, rp])
    for x in vlib.read_ndjson(rp):
        if x["out"] in ("crash", "timeout"):
            ck.violation("%s:%s:%s" % (x["type"], x["op"], x["out"]), "replayed", replay_obj=x)
    ck.add_cases("replay", 1, ["a", "b"])
    return ck.finish()
