"""C19 - OpenPGP encodings conform to the standard and round-trip.

  spec : spec/PGPFrame.tla - Radix-64, CRC-24, armor, packet tags, all body-length forms incl. partial lengths, MPI,
         S2K count and hash-input streams, fingerprint / key-id / signature-trailer / KDF framing, packet bodies,
         written from RFC 4880 / RFC 6637 / rfc4880bis (v5), not from the C++.
  A    : spec/MC_PGPFrame.tla enumerates the case families (one TLC state per case), checks the spec-level theorems
         (round trips, prefix-freeness, CRC remainder property, ...) in every state and prints each case with the
         octets / fields the RFC prescribes; harness/drv_pgp.cc runs the real encoder and decoder on the case and
         reports what they produced; the two must be equal.
  B    : drv_pgp calls the fingerprint, key-id, signature-hash, S2K and KDF functions with libgcrypt's digest
         functions interposed and logs the octets handed to each hash context; spec/PGPTrace.tla must accept
         every event (framing as prescribed, right hash function, result = prescribed part of the digest).
  Python only moves data between TLC and the driver and compares for equality.
"""
import os, json, sys, time, concurrent.futures as cf
import vlib
from vlib import SPEC, OUT

PID = "C19"
ODIR = os.path.join(OUT, PID)

# One TLC run serves a group of families (MC_PGPFrame.tla: GrpQ*/GrpT*/One_<family>); every family of the group is
# enumerated in W interleaved chains.  (group definition, W, workers, HiR64p, HiPkt, seed offset)
BIG = 10 ** 6
def groups(tier):
    if tier == "quick":
        # r64q: all strings of length <= 1 + a quarter of the two-octet ones; r64pq: lengths 0..50 and +-2 around the
        # next three line-wrap boundaries (the thorough tier has r64b = ALL strings of length <= 2 and r64p = every length)
        return [("GrpQ1", 6, 6, 0, 0, 0), ("GrpQ2", 2, 8, 0, 0, 0), ("GrpQ3", 1, 6, 0, 0, 0), ("GrpQ4", 3, 6, 0, 18 * 24 - 1, 0)]
    return [("GrpT1", 8, 8, 0, 0, 0), ("GrpT2", 8, 8, 700, 0, 0), ("GrpT2", 6, 6, 300, 0, 7919), ("GrpT3", 3, 9, 0, 0, 0),
            ("GrpQ3", 1, 6, 0, 0, 0), ("GrpT4", 2, 10, 0, 18 * 80 - 1, 0)]

def cfg_text(grp, lo, hi, w, seed, hir64p=0, hipkt=0):
    return ("SPECIFICATION Spec\nCONSTANTS\n Families <- %s\n Lo = %d\n Hi = %d\n W = %d\n HiR64p = %d\n HiPkt = %d\n Seed = %d\n"
            "INVARIANTS Theorems Emit\nCHECK_DEADLOCK FALSE\n" % (grp, lo, hi, w, hir64p, hipkt, seed))

def gen_group(grp, lo, hi, w, workers, seed, hir64p=0, hipkt=0, tag="", timeout=1500):
    d = os.path.join(ODIR, "cfg")
    os.makedirs(d, exist_ok=True)
    cfgp = os.path.join(d, "GEN_PGP_%s%s.cfg" % (grp, tag))
    with open(cfgp, "w") as f:
        f.write(cfg_text(grp, lo, hi, w, seed, hir64p, hipkt))
    r = vlib.tlc("MC_PGPFrame", cfgp, workers=workers, timeout=timeout, xmx="3g")
    if r.error:
        raise vlib.Infra("TLC %s: %s\n%s" % (grp, r.error, r.out[-1500:]))
    return r

def input_class(c):
    """a coarse, stable class of the input for the known-findings key"""
    i = c["in"]
    if "fault" in i:
        return i["fault"]
    for k in ("data", "uid", "b", "v"):
        if k in i and isinstance(i[k], list) and len(i[k]) == 0:
            return "len0"
    return ""

def nontrivial(c):
    def nz(x):
        if isinstance(x, list):
            return any(nz(y) for y in x)
        if isinstance(x, dict):
            return any(nz(y) for y in x.values())
        if isinstance(x, bool):
            return False
        if isinstance(x, (int, float)):
            return x != 0
        return bool(x)
    return nz(c["in"])

def show(v):
    """display only: octet lists of texts are shown as text"""
    if isinstance(v, list) and len(v) > 8 and all(isinstance(x, int) and (x in (9, 10, 13) or 32 <= x < 127) for x in v):
        return repr("".join(chr(x) for x in v))
    return json.dumps(v)

def compare(ck, cases, got, seed, tier, replay_path=None):
    """cases: list of dicts with fam, i, op, in, exp; got: {(fam,i): got}.  One VIOLATION per distinct key
    (first failing case = replay artefact), with the number of failing cases of that key."""
    bykey, order = {}, []
    for c in cases:
        g = got.get((c["fam"], c["i"]))
        if g == c["exp"]:
            continue
        fields = [k for k in c["exp"] if g is None or g.get(k) != c["exp"][k]]
        if g is not None:
            fields += [k for k in g if k not in c["exp"]]
        key = "%s:%s:%s" % (c["op"], input_class(c), ",".join(sorted(fields)))
        if key not in bykey:
            bykey[key] = []
            order.append(key)
        bykey[key].append((c, g, fields))
    for key in order:
        c, g, fields = bykey[key][0]
        what = "%s[%d] op=%s (%d failing cases of this kind): the library's result differs from what PGPFrame.tla prescribes in %s" % (
            c["fam"], c["i"], c["op"], len(bykey[key]), fields)
        for k in fields[:3]:
            what += "\n    %s expected %s\n    %s got      %s" % (k, show(c["exp"].get(k))[:400], k, show(None if g is None else g.get(k))[:400])
        what += "\n    input " + ", ".join("%s=%s" % (k, show(v)[:400]) for k, v in c["in"].items())
        if replay_path:                                   # replaying: the artefact stays the file that was given
            ck.violation(key, what, replay_path=replay_path)
            continue
        ck.violation(key, what, replay_obj={"kind": "A", "seed": seed, "tier": tier, "case": c, "got": g,
                                            "failing_cases_of_this_key": [[x[0]["fam"], x[0]["i"]] for x in bykey[key]][:200]})
    return len(order)

def run_cases(exe, cases, name):
    """write the cases, run the driver, return {(fam,i): got}"""
    cp = os.path.join(ODIR, "cases-%s.ndjson" % name)
    gp = os.path.join(ODIR, "got-%s.ndjson" % name)
    vlib.write_ndjson(cp, [{"fam": c["fam"], "i": c["i"], "op": c["op"], "in": c["in"]} for c in cases])
    rc, so, se, wall = vlib.run_driver(exe, ["cases", cp, gp], timeout=1500)
    if rc != 0:
        raise vlib.Infra("drv_pgp cases (%s) failed rc=%s: %s %s" % (name, rc, so[-800:], se[-800:]))
    got = {}
    for g in vlib.read_ndjson(gp):
        got[(g["fam"], g["i"])] = g["got"]
    if len(got) != len(cases):
        raise vlib.Infra("drv_pgp answered %d of %d cases (%s)" % (len(got), len(cases), name))
    return got

# ---------------------------------------------------------------------------------------------- direction B
def validate_trace(name, events):
    tf = os.path.join(ODIR, "trace-%s.ndjson" % name)
    vlib.write_ndjson(tf, events)
    r = vlib.tlc("PGPTrace", "PGPTrace.cfg", workers=1, env={"TRACE": tf}, timeout=1500, xmx="3g")
    if r.error:
        raise vlib.Infra("trace validation %s: %s\n%s" % (name, r.error, r.out[-1500:]))
    return r

def event_key(ev):
    k = "trace:%s" % ev.get("e")
    if ev.get("e") == "SigHash":
        k += ":%s:v%s" % (ev.get("kind"), ev.get("v"))
    elif ev.get("e") in ("Fpr", "KeyId"):
        k += ":v%s" % ev.get("v")
    elif ev.get("e") == "S2K":
        k += ":%s" % ("iterated" if ev.get("iter") else "salted")
    elif ev.get("e") == "SigPrep":
        k += ":%s" % ev.get("fn")
    return k

def check_trace(name, events):
    """validate a list of events; a rejection is reported only if it repeats on the single event.
    returns dict(states, transitions, traces, viol=[(key, what, replay_path)])"""
    res = {"states": 0, "transitions": 0, "traces": 0, "viol": []}
    while events:
        r = validate_trace(name, events)
        res["states"] += r.distinct
        res["transitions"] += r.generated
        if r.ok():
            res["traces"] += len(events)
            break
        pos = r.depth if r.depth else 1          # depth D: D-1 events consumed, event D rejected
        if pos > len(events):
            raise vlib.Infra("trace validation %s failed without a rejected event: %s" % (name, r.violation))
        res["traces"] += pos - 1
        bad = events[pos - 1]
        r2 = validate_trace(name + "-single", [bad])
        if r2.ok():
            raise vlib.Infra("trace rejection of event %d (%s) did not repeat on the single event" % (pos, name))
        rp = os.path.join(ODIR, "rejected-%s-%d.json" % (name, len(res["viol"])))
        with open(rp, "w") as f:
            json.dump({"property": PID, "key": event_key(bad), "case": {"kind": "B", "event": bad}}, f)
        def brief(v):
            if isinstance(v, list) and len(v) > 24:
                return "(%d octets) %s ... %s" % (len(v), json.dumps(v[:10]), json.dumps(v[-10:]))
            return json.dumps(v)
        short = ", ".join("%s=%s" % (k, brief(v)) for k, v in bad.items() if k != "md")
        mdin = "; ".join("algo %s, %s octets: %s" % (m.get("a"), m.get("n"), brief(m.get("in") if m.get("full") else m.get("head")))
                         for m in bad.get("md", []))
        what = ("%s: event #%d is not what PGPFrame.tla prescribes (hash input framing / hash function / use of the digest / "
                "subpacket layout): %s\n    octets handed to the hash: %s" % (name, pos, short[:1500], mdin[:900]))
        res["viol"].append((event_key(bad), what, rp))
        if len(res["viol"]) >= 4:
            break
        events = events[pos:]                    # continue behind the rejected event
    return res

def apply_trace_result(ck, res):
    ck.cov["states"] += res["states"]
    ck.cov["transitions"] += res["transitions"]
    ck.add_traces(res["traces"])
    seen = ck.__dict__.setdefault("_trace_keys", set())      # one VIOLATION per key and run
    for key, what, rp in res["viol"]:
        if key in seen:
            continue
        seen.add(key)
        ck.violation(key, what, replay_path=rp)

# ---------------------------------------------------------------------------------------------- run
def run(tier, seed):
    ck = vlib.Check(PID, tier, seed, "model_checking")
    os.makedirs(ODIR, exist_ok=True)
    for old in os.listdir(ODIR):                       # artefacts of earlier runs
        if old.startswith(("violation-", "rejected-", "trace-", "cases-", "got-")):
            os.unlink(os.path.join(ODIR, old))
    exe = vlib.build_driver("drv_pgp", extra_src=["seam_rng.cc"])
    vlib.log("build done at %.0fs" % (time.time() - ck.t0))
    grps = groups(tier)
    quick = tier == "quick"
    # ---- B first part: record (fast), validation runs in parallel with the generators
    tp = os.path.join(ODIR, "record.ndjson")
    rc, so, se, _ = vlib.run_driver(exe, ["record", seed, tier, tp], timeout=600)
    if rc != 0:
        raise vlib.Infra("drv_pgp record failed rc=%s: %s %s" % (rc, so[-800:], se[-800:]))
    events = vlib.read_ndjson(tp)
    for e in events:
        if e.get("e") == "TERMINATE":
            raise vlib.Infra("driver terminated: %s" % e)
    kinds = {}
    for e in events:
        kinds[e["e"]] = kinds.get(e["e"], 0) + 1
    for k in ("Fpr", "KeyId", "SigHash", "S2K", "KDF", "SigPrep", "SecEnc"):
        if not kinds.get(k):
            raise vlib.Infra("no %s event recorded (vacuous trace)" % k)
    nchunk = 2 if quick else 6
    chunks = [events[k::nchunk] for k in range(nchunk)]

    results = {}
    with cf.ThreadPoolExecutor(max_workers=8) as ex:
        futs = {}
        for gi, (grp, w, workers, hir, hip, soff) in enumerate(grps):
            futs[ex.submit(gen_group, grp, 0, BIG, w, workers, seed + soff, hir, hip, "-%d" % gi)] = ("gen", (grp, soff))
        for k, ch in enumerate(chunks):
            futs[ex.submit(check_trace, "rec%d" % k, ch)] = ("tv", k)
        for fu in cf.as_completed(futs):
            kind, what = futs[fu]
            if kind == "tv":
                apply_trace_result(ck, fu.result())
                continue
            grp, soff = what
            r = fu.result()
            ck.add_tlc("tlc-%s%s" % (grp, "-s2" if soff else ""), r)
            if r.violation:
                # a theorem of the specification itself failed: the oracle is wrong, not the code
                raise vlib.Infra("PGPFrame.tla theorem violated in group %s (%s); see %s" % (
                    grp, r.violation, os.path.join(OUT, "tlc")))
            recs = [x for x in r.printed if isinstance(x, dict) and "fam" in x and "c" in x]
            if len(recs) != r.distinct or not recs:
                raise vlib.Infra("group %s: %d cases printed for %d states" % (grp, len(recs), r.distinct))
            n = {}
            for x in recs:
                c = x["c"]
                c["fam"] = x["fam"] + ("-s2" if soff else "")
                results.setdefault(c["fam"], []).append(c)
                n[c["fam"]] = n.get(c["fam"], 0) + 1
            vlib.log("group %-6s %s (TLC %.0fs) at %.0fs" % (grp, " ".join("%s=%d" % kv for kv in sorted(n.items())), r.wall, time.time() - ck.t0))
    ck.part("trace-events", **kinds)
    vlib.log("generation + trace validation done at %.0fs" % (time.time() - ck.t0))
    # ---- A: the real code on every case (s2kcount hashes 1.6 GB and runs beside the rest)
    dgroups = {"s2k": [], "r64b": [], "rest": []}
    for f, cs in results.items():
        dgroups["s2k" if f == "s2kcount" else "r64b" if f in ("r64b", "r64q", "r64r", "lenx", "mpix") else "rest"] += cs
    with cf.ThreadPoolExecutor(max_workers=3) as ex:
        gots = dict(zip(dgroups, ex.map(lambda n: run_cases(exe, dgroups[n], n), dgroups)))
    vlib.log("driver done at %.0fs" % (time.time() - ck.t0))
    for n in dgroups:
        compare(ck, dgroups[n], gots[n], seed, tier)
    for f, cs in results.items():
        ck.add_cases(f, len(cs), [json.dumps(c["in"], sort_keys=True) for c in cs if nontrivial(c)])
    # samples
    for f in ("r64p", "r64pq", "armorbad", "len", "partial", "pkt"):
        cs = results.get(f) or []
        if cs:
            c = cs[min(len(cs) - 1, 7)]
            s = json.dumps({"family": f, "op": c["op"], "in": c["in"], "exp": c["exp"]})
            ck.sample(json.loads(s) if len(s) < 1500 else {"family": f, "op": c["op"], "case_json_prefix": s[:1500]})
    ev0 = next(e for e in events if e["e"] == "SigHash")
    ck.sample({"recorded_event": {k: v for k, v in ev0.items()}}, limit=7)
    ck.cov["rule"] = ("direction A: one TLC state per case of the families %s (r64b = ALL octet strings of length <= 2; len = every "
                      "length 0..8500 + boundaries up to 2^32-1; lendec/extract = every first octet; s2kcount = all 256 count octets; "
                      "r64p = one pattern string per length with full armor); each case = expected octets/fields computed by TLC "
                      "from PGPFrame.tla, compared for equality with what the real encoder/decoder returns. direction B: recorded "
                      "calls of fingerprint/key-id/signature-hash/S2K/KDF with the octets given to libgcrypt, validated by "
                      "PGPTrace.tla. A case is non-trivial when its input has a non-zero octet/number; distinct = distinct inputs "
                      "per family." % ", ".join(sorted(results)))
    ck.cov["exhaustive"] = False
    ck.cov["exhaustive_parts"] = [("r64q: all octet strings of length <= 1 and a quarter of those of length 2" if quick else
                                   "r64b: all octet strings of length <= 2"), "len 0..8500" + ("" if quick else " (lenx: ..70000)"),
                                  "lendec/extract: all 256 first octets", "tagenc: all 64 tags", "s2kcount: all 256 count octets",
                                  "mpi: all integers 0..1100" + ("" if quick else " (mpix: ..70000)")]
    ck.assumptions += ["hash functions are oracles: the logged digest is taken as the hash of the logged input",
                       "line length 64 and CR LF line ends are the implementation's choices within RFC 4880 6.3 (<= 76)",
                       "judgement by GnuPG is not part of this technique; S2K/KDF derivation values are not checked, only "
                       "the octet streams given to the hash and the use of the digests",
                       "a PKESK body below 16 octets and an indeterminate-length packet with empty body are outside the cases"]
    return ck.finish()

# ---------------------------------------------------------------------------------------------- replay
def _finish_replay(ck):
    """a replay decides one case; it does not replace the evidence file of the last full run"""
    vlib.log("%s replay: states=%d traces=%d evaluations=%d violations=%d" % (
        PID, ck.cov["states"], ck.cov["traces_validated_against_impl"], ck.cov["evaluations"], ck.violations))
    return 1 if ck.violations else 0

def replay(path, seed):
    ck = vlib.Check(PID, "quick", seed, "model_checking")
    os.makedirs(ODIR, exist_ok=True)
    exe = vlib.build_driver("drv_pgp", extra_src=["seam_rng.cc"])
    obj = json.load(open(path))
    case = obj.get("case", obj)
    if case.get("kind") == "B":
        apply_trace_result(ck, check_trace("replay", [case["event"]]))
        ck.sample({"replayed_event": {k: v for k, v in case["event"].items() if k != "md"}})
        # record the same call again on the current tree? the event is the observation; validation is what is replayed
        return _finish_replay(ck)
    c = case["case"]
    fam = c["fam"].split("-")[0]
    sd = case.get("seed", seed) + (7919 if c["fam"].endswith("-s2") else 0)
    r = gen_group("One_" + fam, c["i"], c["i"], 1, 1, sd, BIG, BIG, "-replay")       # the oracle is asked again
    ck.add_tlc("tlc-" + fam, r)
    cs = [x["c"] for x in r.printed if isinstance(x, dict) and "c" in x]
    if len(cs) != 1:
        raise vlib.Infra("replay: TLC printed %d cases" % len(cs))
    cs[0]["fam"] = c["fam"]
    got = run_cases(exe, cs, "replay")
    compare(ck, cs, got, sd, "quick", replay_path=path)
    ck.add_cases(fam, 1, [json.dumps(cs[0]["in"], sort_keys=True)])
    ck.sample({"replayed": {"family": fam, "i": c["i"], "op": cs[0]["op"]}})
    return _finish_replay(ck)
