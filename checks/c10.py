"""C10 - Rabin key operations are consistent and tamper-evident (TMCG_SecretKey / TMCG_PublicKey).
(see notes/C10.md for what is covered and for the findings)


  MC  : spec/RabinKey.tla part 1 (algebra of Blum integers: four roots in two negation pairs, -a no square, the
        answer of each proof stage unique up to same residue / same square, soundness fractions for bad moduli)
        checked by TLC for every Blum pair in a box (MC_RabinKey, AlgSpec); the theorems of the property (signatures
        verify, decryption returns the value, accepted => same key / same data / same square, check refuses
        what it must) evaluated in every final state of the symbolic behaviours (MC_RabinKey, Spec).
  A   : the same run enumerates every (operation, key, data/plaintext class, root, field, mutation, verifier key,
        data relation) with the verdict the specification expects; harness/drv_key.cc concretises each case on
        real keys generated in this run with seeded coins (the root sign() picks is dictated through seam_rng) and
        reports raw verdicts; compared below.  Besides the text fields the catalogue alters the encodings themselves
        (every byte of the PRab encoding / SAEP block and the bits above it, by a party that can extract roots) and
        lets the owner prove the key again with other round counts (harness-side prover).  Toy moduli: the square-root routines behind sign()/decrypt() against
        the root sets computed by TLC; key sizes: generate + round trips per size against PRabFits/SAEPFits.
  B   : every call of the driver is logged with projections of the presented text (field structure, key-id text,
        identity of each number mod m and of its square); spec/RabinKeyTrace.tla builds the oracle tables from the
        honest Sign/Encrypt events and re-computes every verdict with VerifyOK / DecryptOK / CheckOK.
"""
import os, json, time, concurrent.futures as cf
import vlib, tracecheck
from vlib import OUT, SPEC

PID = "C10"
KEYS = {"A": (672, True), "B": (424, False), "C": (672, False), "D": (1024, True), "E": (2048, True),
        "F": (680, False), "G": (1000, False)}

def d(*p):
    x = os.path.join(OUT, PID, *p)
    os.makedirs(os.path.dirname(x), exist_ok=True)
    return x

def write_cfg(name, spec, tier, ops, invs, maxprime):
    p = d("cfg", name + ".cfg")
    with open(p, "w") as f:
        f.write('SPECIFICATION %s\nCONSTANTS\n Tier = "%s"\n Ops = {%s}\n MaxPrime = %d\nINVARIANTS %s\nCHECK_DEADLOCK FALSE\n' % (
            spec, tier, ", ".join('"%s"' % o for o in ops), maxprime, " ".join(invs)))
    return p

# ----------------------------------------------------------------------------------------------- TLC side
def tlc_all(ck, tier):
    """algebra (MC), toy + sizes (generator), cases per operation (generator + theorems) - all in parallel"""
    T = "thorough" if tier == "thorough" else "quick"
    jobs = {
        "alg": (write_cfg("alg", "AlgSpec", T, ["verify"], ["AlgInv"], 47 if tier == "thorough" else 23), 8),
        "aux": (write_cfg("aux", "ToySpec", T, ["verify"], ["ToyEmit"], 47 if tier == "thorough" else 31), 2),
    }
    for op in ("verify", "decrypt", "check"):
        jobs["cases-" + op] = (write_cfg("gen-" + op, "Spec", T, [op], ["Theorems", "Emit"], 31), 8 if tier == "thorough" else 4)
    def run(name):
        cfg, w = jobs[name]
        return name, vlib.tlc("MC_RabinKey", cfg, workers=w, timeout=600 if tier == "quick" else 2400, xmx="6g")
    res = {}
    with cf.ThreadPoolExecutor(max_workers=5) as ex:
        for name, r in ex.map(run, list(jobs)):
            if r.error:
                raise vlib.Infra("TLC %s: %s" % (name, r.error))
            ck.add_tlc("MC_RabinKey:" + name, r)
            if r.violation:
                ck.violation("model:" + name, "MC_RabinKey (%s): a theorem of the specification fails: %s" % (name, r.violation),
                             replay_path=os.path.join(OUT, "tlc", "MC_RabinKey-%s.log" % os.path.basename(jobs[name][0])))
            res[name] = r
    return res

# ----------------------------------------------------------------------------------------------- driver side
def gen_keys(exe, names, seed):
    """every key in its own process; returns path of the key file"""
    def one(n):
        p = d("keys", "key-%s.ndjson" % n)
        size, nizk = KEYS[n]
        rc, so, se, _ = vlib.run_driver(exe, ["genkeys", seed, p, "%s:%d:%d" % (n, size, 1 if nizk else 0)], timeout=1500)
        if rc != 0:
            raise vlib.Infra("drv_key genkeys %s failed (rc=%d): %s %s" % (n, rc, so[-300:], se[-300:]))
        return open(p).read()
    with cf.ThreadPoolExecutor(max_workers=len(names)) as ex:
        texts = list(ex.map(one, sorted(names)))
    kp = d("keys.ndjson")
    with open(kp, "w") as f:
        f.write("".join(texts))
    return kp

def cost(c):
    size = c["size"]
    if c["op"] == "check":
        return (0.6 if c["nizk"] else 0.02) * (size / 672.0) ** 2.2
    return 0.002 * (size / 672.0) ** 2

def obj_of(c):
    """cases on the same signed object go to the same process (the driver signs once per object)"""
    if c["op"] == "verify":
        return (c["key"], c["d"], c["dlen"], c["salt"], c["root"])
    return ("single", c["id"])

def run_cases(exe, kp, cases, seed, nproc, tag):
    groups = {}
    for c in cases:
        groups.setdefault(obj_of(c), []).append(c)
    def gcost(g):
        c0 = g[0]
        once = 0.01 * (c0["size"] / 672.0) ** 2.5 * (300 if c0.get("salt") == "topzero" else 1) if c0["op"] == "verify" else 0
        return once + sum(cost(c) for c in g)
    bins = [[0.0, []] for _ in range(nproc)]
    for g in sorted(groups.values(), key=gcost, reverse=True):
        b = min(bins, key=lambda x: x[0]); b[0] += gcost(g); b[1] += g
    bins = [b for b in bins if b[1]]
    def one(k):
        cp, tp = d("run", "%s-cases-%d.ndjson" % (tag, k)), d("run", "%s-trace-%d.ndjson" % (tag, k))
        vlib.write_ndjson(cp, sorted(bins[k][1], key=lambda c: c["id"]))
        rc, so, se, _ = vlib.run_driver(exe, ["run", kp, cp, tp, seed], timeout=3000)
        if rc != 0:
            raise vlib.Infra("drv_key run failed (rc=%d): %s %s" % (rc, so[-400:], se[-400:]))
        return tp
    with cf.ThreadPoolExecutor(max_workers=len(bins)) as ex:
        tps = list(ex.map(one, range(len(bins))))
    events = []
    for tp in tps:
        events += vlib.read_ndjson(tp)
    merged = d("trace-%s.ndjson" % tag)
    vlib.write_ndjson(merged, events)
    return merged, events

def case_key(c, got):
    q = [c["op"], c["f"], c["mu"]]
    if c["f"] == "enc" and c["mu"] == "byte":
        q.append(enc_region(c))
    if c["op"] == "verify":
        q += ["key-" + c["kv"], "data-" + c["rel"]]
    elif c["op"] == "decrypt":
        q += ["key-" + c["kv"]]
    else:
        q += ["resigned" if c["resign"] else "as-is", "nizk" if c["nizk"] else "plain"]
    return ":".join(q) + ":" + got

def enc_region(c):
    """which part of the encoding a byte position belongs to (PRab: w | r* | gamma, SAEP: message | zeros | randomness)"""
    p = c["pos"]
    if c["op"] == "verify":
        return "w" if p < 32 else "salt" if p < 52 else "gamma"
    return "msg" if p < 20 else "zeros" if p < 40 else "rnd"

def describe(c):
    if c["op"] == "verify":
        return "key %s (%d bits%s), data class %s, salt %s, root %d, %s.%s%s, verified under the %s key with data '%s'" % (
            c["key"], c["size"], ", NIZK" if c["nizk"] else "", c["d"] if c["dlen"] < 0 else "%d bytes" % c["dlen"], c["salt"], c["root"], c["f"], c["mu"],
            "[%d]" % c["pos"] if c["pos"] >= 0 else "", c["kv"], c["rel"])
    if c["op"] == "decrypt":
        return "key %s (%d bits), plaintext class %s, randomness %s, %s.%s%s, decrypted under the %s key" % (
            c["key"], c["size"], c["pt"], c["r"], c["f"], c["mu"], "[%d]" % c["pos"] if c["pos"] >= 0 else "", c["kv"])
    return "key %s (%d bits%s), %s.%s%s" % (c["key"], c["size"], ", NIZK" if c["nizk"] else "", c["f"], c["mu"],
                                          ", signed again by the owner" if c["resign"] else "")

def compare(ck, cases, events):
    """direction A: the verdict of the symbolic specification against the raw verdict of the code"""
    byid = {c["id"]: c for c in cases}
    final, pts = {}, {}
    for e in events:
        if e["e"] in ("Verify", "Decrypt", "Check"):
            final[e["id"]] = e
        elif e["e"] == "Encrypt":
            pts[e["id"]] = e["pt"]
    if set(final) != set(byid):
        raise vlib.Infra("drv_key: %d results for %d cases" % (len(final), len(byid)))
    seen = {}
    def bad(key, what, c, e):
        if key in seen:
            seen[key][0] += 1
        else:
            seen[key] = [1, what, c, e]
    nontrivial, skipped = set(), []
    for i, c in byid.items():
        e = final[i]
        if not e.get("applied", True):
            if c["f"] == "enc" and c["mu"] == "top":      # encoding + 2^(8n) is not below this modulus: nothing was presented
                skipped.append(i); continue
            raise vlib.Infra("mutation %s.%s of case %d could not be applied" % (c["f"], c["mu"], i))
        got = "acc" if e["res"] else "ref"
        if "res2" in e and e["res2"] != e["res"]:
            bad("%s:public-and-secret-key-disagree" % c["op"], "TMCG_PublicKey says %s, TMCG_SecretKey says %s" % (e["res"], e["res2"]), c, e)
        if c["exp"] != "?" and got != c["exp"]:
            bad(case_key(c, "accepted" if e["res"] else "refused"),
                "the code %s what the specification %s" % ("accepts" if e["res"] else "refuses", "refuses" if e["res"] else "accepts"), c, e)
        if c["op"] == "decrypt" and e["res"] and e["out"] != pts.get(i):
            bad("decrypt:wrong-plaintext", "decrypt returned %s, encrypted was %s" % (e["out"], pts.get(i)), c, e)
        nontrivial.add(json.dumps([c["op"], c["key"], c.get("d", c.get("pt")), c.get("dlen"), c.get("root", c.get("r")), c["f"], c["mu"], c.get("pos"),
                                   c.get("kv"), c.get("rel"), c.get("resign")]))
    for key, (n, what, c, e) in sorted(seen.items()):
        ck.violation(key, "%s  [%d case(s); first: %s]" % (what, n, describe(c)),
                     replay_obj={"case": c, "result": {k: v for k, v in e.items() if k not in ("P",)},
                                 "why": WHY.get(key.rsplit(":", 1)[0].split(":key-")[0])})
    ck.part("tlc-cases", not_applicable=len(skipped))
    return nontrivial, set(seen)

WHY = {
    "verify:enc:top": "the presented value is a root of E + 2^(8n) (E the n-byte PRab encoding of the data, n = bits(m) div 8): a square that is "
                        "no encoding.  verify() exports s^2 mod m in n-byte words and parses only the low word; the bits above the encoding "
                        "(the leading zero bits of [BR96]) are never looked at",
    "decrypt:enc:top": "the presented ciphertext is (x + 2^(8n))^2 mod m (x the n-byte SAEP block, n = bits(m) div 8): no image of encrypt().  "
                         "decrypt() admits roots up to 8n+7 bits (sizeinbase div 8 <= n) and parses only the low n-byte word",
}

CASES = {}
def classify(ev, r):
    """the same key as direction A when the unmatched event is the verdict of a case"""
    if r.violation and "Invariant" in r.violation:
        return "trace:invariant:" + r.violation.split()[2]
    k = ev.get("e", "?")
    if k in ("Verify", "Decrypt", "Check") and ev.get("id") in CASES:
        return case_key(CASES[ev["id"]], "accepted" if ev.get("res") else "refused")
    return "trace:" + k

def strip(e):
    return {k: v for k, v in e.items() if k not in ("applied", "ms", "saltok", "dlen", "seed", "text", "data", "ownmatch", "ownwant")}

def check_toy(ck, exe, lines):
    cp, rp = d("toy-cases.ndjson"), d("toy-results.ndjson")
    vlib.write_ndjson(cp, lines)
    rc, so, se, _ = vlib.run_driver(exe, ["toy", cp, rp], timeout=900)
    if rc != 0:
        raise vlib.Infra("drv_key toy failed (rc=%d): %s %s" % (rc, so[-300:], se[-300:]))
    res = {(r["p"], r["q"]): r for r in vlib.read_ndjson(rp)}
    n, keys = 0, set()
    for c in lines:
        r = res[(c["p"], c["q"])]
        m = c["p"] * c["q"]
        if r["pre"] != c["pre"]:
            ck.violation("toy:precompute", "TMCG_SecretKey::precompute() returns %s for p=%d q=%d y=%d, gcd(m, phi(m)) = 1 is %s" % (
                r["pre"], c["p"], c["q"], c["y"], c["pre"]), replay_obj={"case": {k: c[k] for k in ("p", "q", "y", "pre")}})
            continue
        for a in range(1, m):
            n += 1
            if r["qr"][a - 1] != c["qr"][a - 1]:
                ck.violation("toy:residuosity", "tmcg_mpz_qrmn_p(%d; %d, %d) = %d, the definition says %d" % (a, c["p"], c["q"], r["qr"][a - 1], c["qr"][a - 1]),
                             replay_obj={"p": c["p"], "q": c["q"], "a": a}); break
            if c["pre"] and c["qr"][a - 1] and sorted(r["roots"][a - 1]) != sorted(c["roots"][a - 1]):
                ck.violation("toy:four-roots", "tmcg_mpz_sqrtmn_fast_all with the precomputed members of the key gives %s for a=%d mod %d*%d, the roots are %s" % (
                    r["roots"][a - 1], a, c["p"], c["q"], sorted(c["roots"][a - 1])), replay_obj={"p": c["p"], "q": c["q"], "a": a}); break
            if c["qr"][a - 1]:
                keys.add((m, a))
    ck.add_cases("toy-roots", n, keys)
    ck.sample({"toy": {"p": lines[0]["p"], "q": lines[0]["q"], "a": 4, "roots": sorted(lines[0]["roots"][3])}})

def check_sizes(ck, exe, lines, seed, nproc):
    sizes = sorted(l["size"] for l in lines)
    want = {l["size"]: l for l in lines}
    # interleave for balance (large sizes are slow)
    parts = [sizes[k::nproc] for k in range(nproc)]
    parts = [p for p in parts if p]
    def one(k):
        rp = d("run", "sizes-%d.ndjson" % k)
        rc, so, se, _ = vlib.run_driver(exe, ["sizes", seed, rp] + parts[k], timeout=3000)
        if rc != 0:
            raise vlib.Infra("drv_key sizes failed (rc=%d): %s %s" % (rc, so[-300:], se[-300:]))
        return vlib.read_ndjson(rp)
    with cf.ThreadPoolExecutor(max_workers=len(parts)) as ex:
        res = [r for rs in ex.map(one, range(len(parts))) for r in rs]
    if len(res) != len(sizes):
        raise vlib.Infra("drv_key sizes: %d results for %d sizes" % (len(res), len(sizes)))
    died, ok = [], 0
    for r in res:
        w = want[r["size"]]
        if r.get("died"):
            died.append(r["size"])
            if all(w["fit"]):       # the encoding fits both possible modulus lengths: generation must succeed
                ck.violation("sizes:generation-dies", "TMCG_SecretKey(name, email, %d, false) kills the process (signal %s) although the PRab encoding fits a modulus of %d or %d bits" % (
                    r["size"], r.get("signal"), r["size"] + 1, r["size"] + 2), replay_obj=r)
            continue
        b = r["bits"] - r["size"]
        what = None
        if b not in (1, 2): what = "modulus has %d bits" % r["bits"]
        elif not w["fit"][b - 1]: what = "a key was generated although the PRab encoding does not fit %d bits" % r["bits"]
        elif not r["check"]: what = "check() refuses the generated key"
        elif not r["verify"]: what = "a signature does not verify"
        elif r["verify_other"]: what = "a signature verifies for other data"
        elif r["fits"] != w["saep"][b - 1]: what = "SAEP fits %d bits: driver %s, specification %s" % (r["bits"], r["fits"], w["saep"][b - 1])
        elif r["fits"] and not (r["decrypt"] and r["same"]): what = "decrypt(encrypt(v)) fails or differs"
        if what:
            ck.violation("sizes:" + what.split(" ")[0] + "-" + what.split(" ")[1], "key size %d: %s" % (r["size"], what), replay_obj=r)
        else:
            ok += 1
    ck.add_cases("key-sizes", len(res), [r["size"] for r in res if not r.get("died")])
    ck.part("key-sizes", generated=ok, generation_aborts_at=died,
            note="sizes at which the modulus length is a multiple of 8 cannot hold the PRab encoding; generate() asserts there")
    return died

# ----------------------------------------------------------------------------------------------- the check
def run(tier, seed):
    ck = vlib.Check(PID, tier, seed, "model_checking")
    exe = vlib.build_driver("drv_key", extra_src=["seam_rng.cc"])
    nproc = 8 if tier == "quick" else 12
    names = ["A", "B", "C"] if tier == "quick" else sorted(KEYS)
    with cf.ThreadPoolExecutor(max_workers=2) as ex:
        fk = ex.submit(gen_keys, exe, names, seed)
        ft = ex.submit(tlc_all, ck, tier)
        kp, tl = fk.result(), ft.result()
    vlib.log("TLC + key generation done at %.0fs" % (time.time() - ck.t0))
    # ---- cases
    cases = []
    for op in ("verify", "decrypt", "check"):
        cs = [c for c in tl["cases-" + op].printed if isinstance(c, dict) and c.get("op") == op]
        if len(cs) < 50:
            raise vlib.Infra("MC_RabinKey printed only %d %s cases" % (len(cs), op))
        cases += cs
    cases.sort(key=lambda c: json.dumps(c, sort_keys=True))
    for i, c in enumerate(cases):
        c["id"] = i + 1
        if KEYS[c["key"]] != (c["size"], c["nizk"]) or KEYS[c["okey"]] != (c["osize"], c["onizk"]) or c["key"] not in names or c["okey"] not in names:
            raise vlib.Infra("key table of checks/c10.py and MC_RabinKey.tla differ for %s/%s" % (c["key"], c["okey"]))
        if not c["thm"]:
            raise vlib.Infra("case %d printed with a false theorem" % c["id"])
    for cl in ("acc", "ref"):
        for op in ("verify", "decrypt", "check"):
            if not any(c["exp"] == cl and c["op"] == op for c in cases):
                raise vlib.Infra("vacuous: no %s case expects %s" % (op, cl))
    aux = [l for l in tl["aux"].printed if isinstance(l, dict)]
    toy = sorted([l for l in aux if "toy" in l], key=lambda l: l["p"] * l["q"])
    szl = [l for l in aux if "sizes" in l]
    if len(toy) < 5 or len(szl) < 10:
        raise vlib.Infra("auxiliary generator printed %d toy moduli, %d sizes" % (len(toy), len(szl)))
    CASES.clear(); CASES.update({c["id"]: c for c in cases})
    # squares above the encoding: one execution per (operation, key), so that a rejection there hides nothing else
    top = [c for c in cases if c["f"] == "enc" and c["mu"] == "top"]
    groups = sorted({(c["op"], c["key"]) for c in top})
    def run_top(g):
        return run_cases(exe, kp, [c for c in top if (c["op"], c["key"]) == g], seed, 1, "top-%s-%s" % g)
    with cf.ThreadPoolExecutor(max_workers=3 + len(groups)) as ex:
        f1 = ex.submit(run_cases, exe, kp, [c for c in cases if c not in top], seed, nproc, "tlc")
        f2 = ex.submit(check_sizes, ck, exe, szl, seed, 4 if tier == "quick" else 8)
        ft = [ex.submit(run_top, g) for g in groups]
        check_toy(ck, exe, toy)
        merged, events = f1.result()
        tops = [f.result() for f in ft]
        f2.result()
    for _, ev in tops:
        events = events + ev
    vlib.log("driver done at %.0fs (%d cases, %d events)" % (time.time() - ck.t0, len(cases), len(events)))
    # ---- A: verdicts of the symbolic specification
    nontrivial, a_keys = compare(ck, cases, events)
    ck.add_cases("tlc-cases", len(cases), nontrivial)
    ck.part("tlc-cases", by_op={op: sum(1 for c in cases if c["op"] == op) for op in ("verify", "decrypt", "check")},
            expected_accept=sum(1 for c in cases if c["exp"] == "acc"), expected_refuse=sum(1 for c in cases if c["exp"] == "ref"),
            decided_by_trace_only=sum(1 for c in cases if c["exp"] == "?"),
            equivalent_representations_accepted=sorted(set("%s:%s.%s" % (c["op"], c["f"], c["mu"]) for c in cases if c["eqv"])))
    # ---- B: every logged verdict re-computed by TLC (a case already reported by A is not reported twice)
    reported, report = set(), ck.violation
    def once(key, what, replay_obj=None, replay_path=None):
        if key in a_keys or key in reported:
            vlib.log("trace validation rejects the same call: key=%s replay=%s" % (key, replay_path))
            return False
        reported.add(key)
        return report(key, what, replay_obj=replay_obj, replay_path=replay_path)
    execs = [[strip(e) for e in x] for x in tracecheck.split_executions(merged)]
    ck.violation = once
    texecs = [[strip(e) for e in x] for tp, _ in tops for x in tracecheck.split_executions(tp)]
    with cf.ThreadPoolExecutor(max_workers=2) as ex:
        fn = ex.submit(tracecheck.validate, ck, PID, "tlc", "RabinKeyTrace", "RabinKeyTrace.cfg", execs, classify, min(nproc, 6))
        if texecs:
            ex.submit(tracecheck.validate, ck, PID, "top", "RabinKeyTrace", "RabinKeyTrace.cfg", texecs, classify, len(texecs)).result()
        n = fn.result()
    if n == 0 and ck.violations == 0:
        raise vlib.Infra("no trace validated")
    ck.violation = report
    # the harness's own prover (cases "proof.*") is trusted only as far as it reproduces the proof of generate()
    for e in events:
        if e["e"] == "Check" and "ownmatch" in e and e["ownmatch"] != e["ownwant"] and ck.violations == 0:
            raise vlib.Infra("the prover of drv_key and generate() disagree: %d of %d answers are equivalent" % (e["ownmatch"], e["ownwant"]))
    byid = {c["id"]: c for c in cases}
    shown = set()
    for e in events:
        if e["e"] in ("Verify", "Decrypt", "Check") and e["id"] in byid:
            c = byid[e["id"]]
            k = (c["op"], c["exp"])
            if k not in shown and c["mu"] != "none":
                shown.add(k)
                ck.sample({"case": {x: c[x] for x in c if x not in ("thm", "okey", "osize", "onizk", "id")}, "code": {"res": e["res"]}})
    ck.cov["rule"] = ("distinct = (operation, key, data/plaintext class, root/randomness class, field, mutation, verifier key, data relation, "
                      "re-signed) of cases enumerated by TLC and executed on real keys; + quadratic residues of the toy moduli; + key sizes generated")
    ck.assumptions += [
        "hash functions h and g are random oracles: a square is a PRab/SAEP encoding iff an honest sign()/encrypt() produced it (collisions and 2^-160 redundancy coincidences are outside the model)",
        "numbers of real size are identified by digests of their residue and of their square modulo m, computed by the driver with GMP",
        "key ids of any length 0..|selfid| are equivalent representations of the key's id (what the library accepts; see notes/C10.md)",
        "moduli altered by a third party are not re-signed (the factorisation is needed); owner-side alterations of name, email, type, y and proof are re-signed",
    ]
    return ck.finish()

def replay(path, seed):
    ck = vlib.Check(PID, "quick", seed, "model_checking")
    exe = vlib.build_driver("drv_key", extra_src=["seam_rng.cc"])
    if path.endswith(".ndjson"):
        execs = [[strip(e) for e in x] for x in tracecheck.split_executions(path)]
        tracecheck.validate(ck, PID, "replay", "RabinKeyTrace", "RabinKeyTrace.cfg", execs, classify=classify, chunks=1)
        return ck.finish()
    obj = json.load(open(path))
    c = (obj.get("case") or {}).get("case")
    if not c or "op" not in c:
        print("nothing to replay in", path); return 2
    CASES.clear(); CASES[c["id"]] = c
    kp = gen_keys(exe, sorted({c["key"], c["okey"]}), seed)
    merged, events = run_cases(exe, kp, [c], seed, 1, "replay")
    nt, _ = compare(ck, [c], events)
    ck.add_cases("replayed-case", 1, nt)
    ck.sample({"case": {x: c[x] for x in c if x not in ("thm",)}})
    execs = [[strip(e) for e in x] for x in tracecheck.split_executions(merged)]
    tracecheck.validate(ck, PID, "replay", "RabinKeyTrace", "RabinKeyTrace.cfg", execs, classify=classify, chunks=1)
    return ck.finish()
