"""C16 - threshold signatures verify under the jointly generated key"""
import vlib, dkg_common, tracecheck
PID = "C16"
def run(tier, seed):
    ck = vlib.Check(PID, tier, seed, "model_checking")
    q = tier == "quick"
    dkg_common.run_trigger(ck, PID)
    # the library's verifiers on the boundary catalogue (all r, s in -1..q+1 for DSA; textbook Schnorr signatures and
    # their neighbours) in p=23, q=11
    import os
    exe = vlib.build_driver("drv_dkg", extra_src=["seam_rng.cc", "seam_clock.cc"])
    vp = os.path.join(vlib.OUT, PID, "trace-verify.ndjson"); os.makedirs(os.path.dirname(vp), exist_ok=True)
    rc, so, se, _ = vlib.run_driver(exe, ["verify", vp])
    if rc != 0:
        raise vlib.Infra("drv_dkg verify failed: %s %s" % (so[-300:], se[-300:]))
    vex = tracecheck.split_executions(vp)
    tracecheck.validate(ck, PID, "verify", "DKGTrace", "DKGTrace.cfg", vex, classify=lambda ev, r: "verifier-%s" % ev.get("e"), chunks=1)
    ck.add_cases("verifier-catalogue", len(vex[0]), [str((e.get("e"), e.get("y"), e.get("m"), e.get("r"), str(e.get("s"))[:20], e.get("mut"))) for e in vex[0] if e.get("e") in ("DssVer", "NtsVer")])
    D = dkg_common.directed
    # a signer that was honest in key generation and uses a damaged share afterwards, in every position (n >= 2t+2 and n = 2t+1),
    # alone and next to a party with the library's faulty switch
    dirs = [D("dss", 4, 1, [0, 5, 0, 0], 1), D("dss", 4, 1, [5, 0, 0, 0], 2), D("dss", 4, 1, [0, 0, 0, 5], 3),
            D("dss", 5, 1, [0, 0, 5, 0, 0], 4), D("dss", 5, 2, [0, 5, 0, 0, 0], 5), D("dss", 3, 1, [0, 0, 5], 6),
            D("nts", 4, 1, [0, 5, 0, 0], 7), D("nts", 4, 1, [0, 0, 0, 5], 8), D("nts", 5, 2, [5, 0, 0, 0, 0], 9),
            D("nts", 5, 1, [0, 0, 0, 5, 0], 10), D("nts", 3, 1, [0, 5, 0], 11)]
    # a signer that took part in the key generation honestly and is gone when the signing starts (its contribution has to be
    # reconstructed from the others' shares): odd and even thresholds
    dirs += [D("nts", 4, 1, [0, 0, 0, 7], 31), D("nts", 4, 1, [0, 7, 0, 0], 32), D("dss", 4, 1, [0, 0, 7, 0], 33),
             D("nts", 5, 1, [7, 0, 0, 0, 0], 34), D("nts", 7, 3, [0, 0, 7, 0, 0, 0, 0], 35), D("nts", 7, 2, [0, 0, 0, 0, 7, 0, 0], 36)]
    if not q:
        dirs += [D(p, n, t, [7 if k == w else 0 for k in range(n)], 60 + 7 * n + w) for p in ("dss", "nts") for n, t in ((5, 2), (6, 2), (7, 3)) for w in range(0, n, 2)]
    if not q:
        dirs += [D(p, n, t, [5 if k == w else 0 for k in range(n)], 20 + 7 * n + w) for p in ("dss", "nts") for n, t in ((6, 2), (7, 3), (7, 2)) for w in range(n)]
    dkg_common.run_directed(ck, PID, dirs)
    dkg_common.run_proto(ck, PID, "nts", 48 if q else 1200, seed, 5 if q else 7)
    dkg_common.run_proto(ck, PID, "dss", 24 if q else 600, seed, 4 if q else 6)
    ck.cov["rule"] = ("simulated key generation + signing runs (new-TSch and threshold DSS, before and after refresh) with faulty signers; "
                      "DKGTrace.tla evaluates the textbook equations (Schnorr c = H(m, g^s y^-c) with the logged oracle answer; DSA per "
                      "FIPS 186 with range conditions) under the joint key and requires equal signatures at all good parties")
    ck.assumptions += ["hash as oracle (hook H1 reports the tuple the verifier hashed)", "groups with p <= 46340"]
    return ck.finish()
def replay(path, seed):
    ck = vlib.Check(PID, "quick", seed, "model_checking")
    tracecheck.validate(ck, PID, "replay", "DKGTrace", dkg_common.trace_cfg(PID),
                        tracecheck.split_executions(path), chunks=1)
    return ck.finish()
