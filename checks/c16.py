"""C16 - threshold signatures verify under the jointly generated key"""
import vlib, dkg_common, tracecheck
PID = "C16"
def run(tier, seed):
    ck = vlib.Check(PID, tier, seed, "model_checking")
    q = tier == "quick"
    dkg_common.run_trigger(ck, PID)
    dkg_common.run_proto(ck, PID, "nts", 48 if q else 1200, seed, 5 if q else 7)
    dkg_common.run_proto(ck, PID, "dss", 24 if q else 600, seed, 4 if q else 6)
    ck.cov["rule"] = ("simulated key generation + signing runs (new-TSch and threshold DSS, before and after refresh) with faulty signers; "
                      "DKGTrace.tla evaluates the textbook equations (Schnorr c = H(m, g^s y^-c) with the logged oracle answer; DSA per "
                      "FIPS 186 with range conditions) under the joint key and requires equal signatures at all good parties")
    ck.assumptions += ["hash as oracle (hook H1 reports the tuple the verifier hashed)", "groups with p <= 46340"]
    return ck.finish()
def replay(path, seed):
    ck = vlib.Check(PID, "quick", seed, "model_checking")
    tracecheck.validate(ck, PID, "replay", "DKGTrace", "DKGTrace_known.cfg" if dkg_common.listed(PID) else "DKGTrace.cfg",
                        tracecheck.split_executions(path), chunks=1)
    return ck.finish()
