"""C13 - point-to-point channels deliver intact, in order, exactly once.

  MC   : Aio.tla (framing, sequence numbers, IV, reassembly, the three schedulers, array receive) checked
         exhaustively by TLC with scaled sizes (MACLEN 2, BLK 2, lines of 1..3 octets): every fragmentation of the
         octet stream, every single rewrite of the fault catalogue at every offset, tag / IV octets that look like
         the line delimiter; invariants InOrder, Complete, AuthSafe, NothingForged, ArraysWhole, StoppedStays
  A    : AioGen.tla enumerates with the library's real sizes every split point of a short exchange and every
         rewrite at every octet offset and computes the behaviours (Receive calls and results); drv_aio executes
         them on real aiounicast_select / aiounicast_nonblock objects behind the harness-owned byte relay
  B    : randomized exploration of the real objects (2..3 parties, all links, random chunking with delays, the
         three schedulers, arrays, 0 / maximal / refused values, one rewrite per authenticated execution)
  both : every log is validated by TLC against AioTrace.tla: the octets a sender wrote must be a well-formed
         frame (plain: exactly the base-62 digits; encrypted: fresh, of hidden length, digits not exposed), every
         Receive result, sender index, value and the projected reassembly state must be what Aio.tla computes, and
         the invariants are evaluated in every state; for A the finally delivered values are also compared with
         the values TLC computed beforehand.
"""
import os, json, sys, time, concurrent.futures as cf
import vlib
from vlib import SPEC, OUT

PID = "C13"
MACLEN, BLK, ENCLEN, ENCLENCHK = 32, 16, 59, 66
DELIM = "4242424242"

MC_QUICK = ["auth", "authenc2", "two", "arrchk", "plain"]
MC_THOROUGH = ["plain", "auth", "authenc", "chk", "two22", "arr", "arrchk", "authb", "enc", "arr2", "arrmix", "auth2f", "authenc2f", "smallbuf", "three", "auth2f3", "authenc3k"]

def B(x):
    return "TRUE" if x else "FALSE"

TRACE_CFG = """SPECIFICATION TSpec
CONSTANTS
 Delim = "%s"
 NoVal = "none"
 ENCLEN = %d
 ENCLENCHK = %d
INVARIANTS InOrderT CompleteT AuthSafeT ArraysWholeT
POSTCONDITION Accepted
CHECK_DEADLOCK FALSE
""" % (DELIM, ENCLEN, ENCLENCHK)

def gen_cfg(modes, vals, families, stride_p, stride_e, stride_c, phase, stride_c2=1, stride_bc=1, stride_a=1):
    return ("SPECIFICATION GSpec\nCONSTANTS\n Delim = 63\n NoVal <- NoValGen\n ENCLEN = %d\n ENCLENCHK = %d\n"
            " CN = 2\n CAuth = FALSE\n CEnc = FALSE\n CChunked = FALSE\n CVariant = \"select\"\n CMACLEN = 32\n CBLK = 16\n CBUFSZ = 4096\n"
            " Rcv = 1\n Prog <- GenProg\n MaxFault = 1\n Kinds <- GenKinds\n Scheds = {3}\n ArrSize = 0\n TagNL <- GenTagNL\n IvNL = {}\n"
            " GenVals <- %s\n GenModes <- %s\n Families = {%s}\n StrideP = %d\n StrideE = %d\n StrideC = %d\n Phase = %d\n StrideC2 = %d\n StrideBC = %d\n StrideA = %d\n"
            "INVARIANTS GenOK GenPrint\nCHECK_DEADLOCK FALSE\n" % (ENCLEN, ENCLENCHK, vals, modes, ",".join('"%s"' % f for f in families),
                                                                  stride_p, stride_e, stride_c, phase, stride_c2, stride_bc, stride_a))

def mode_name(variant, auth, enc, chunked):
    return "%s-%s%s%s" % (variant, "a" if auth else "-", "e" if enc else "-", "c" if chunked else "-")

# --------------------------------------------------------------------------------------------------
def split_executions(path):
    execs = []
    for e in vlib.read_ndjson(path):
        if e["e"] == "Reset":
            execs.append([e])
        elif e["e"] == "TERMINATE":
            raise vlib.Infra("driver terminated: %s" % e)
        else:
            execs[-1].append(e)
    return execs

def key_of(x):
    r = x[0]
    return (r["n"], r["variant"], r["auth"], r["enc"], r["chunked"], r["bufsz"])

def _position(r):
    if r.depth:
        return r.depth
    import re
    ns = [int(m.group(1)) for m in re.finditer(r"^State (\d+):", r.out, re.M)]
    return max(ns) if ns else 1

def _tlc_trace(name, execs):
    d = os.path.join(OUT, PID, "tv"); os.makedirs(d, exist_ok=True)
    tf = os.path.join(d, name + ".ndjson"); cfgp = os.path.join(d, "AioTrace.cfg")
    vlib.write_ndjson(tf, [e for x in execs for e in x])
    if not os.path.exists(cfgp):
        import threading
        tmp = cfgp + ".%d.%d" % (os.getpid(), threading.get_ident())
        with open(tmp, "w") as f:
            f.write(TRACE_CFG)
        os.replace(tmp, cfgp)
    r = vlib.tlc("AioTrace", cfgp, workers=1, env={"TRACE": tf}, timeout=2400, xmx="3g")
    if r.error:
        raise vlib.Infra("trace validation %s: %s" % (name, r.error))
    return r

def classify(ev, r, key):
    mode = mode_name(key[1], key[2], key[3], key[4])
    if r.violation and "Invariant" in r.violation:
        return "invariant:%s:%s" % (r.violation.split()[2], mode)
    k = ev.get("e", "?")
    if k in ("Recv", "RecvArr"):
        return "%s:%s:%s" % (k, "returned-true" if ev.get("ok") else "returned-false", mode)
    return "%s:%s" % (k, mode)

MAX_REPORTS = 3      # rejected executions examined and reported per validation phase; the rest of their TLC runs is skipped

def validate(ck, tag, execs, maxpar=8, runs=8, budget=None):
    """validate executions (lists of events) against AioTrace.tla in `runs` TLC runs; returns #accepted"""
    if not execs:
        return 0
    if budget is None:
        budget = [MAX_REPORTS]
    runs = max(1, min(runs, len(execs)))
    # balance by number of events
    parts = [[] for _ in range(runs)]; load = [0] * runs
    for x in sorted(execs, key=len, reverse=True):
        k = load.index(min(load)); parts[k].append(x); load[k] += len(x)
    def one(k):
        return k, _tlc_trace("%s-%d" % (tag, k), parts[k])
    accepted, nviol = 0, 0
    with cf.ThreadPoolExecutor(max_workers=maxpar) as ex:
        results = list(ex.map(one, range(runs)))
    for k, r in results:
        xs = parts[k]
        ck.cov["states"] += r.distinct; ck.cov["transitions"] += max(r.generated, r.distinct)
        if r.ok():
            accepted += len(xs); continue
        pos = _position(r)
        idx, acc = 0, 0
        for j, x in enumerate(xs):
            if acc + len(x) >= pos:
                idx = j; break
            acc += len(x)
        accepted += idx
        if budget[0] <= 0:
            continue
        budget[0] -= 1
        bad = xs[idx]
        key = key_of(bad)
        r2 = _tlc_trace("%s-confirm-%d-%d" % (tag, k, nviol), [bad])
        if r2.ok():
            raise vlib.Infra("trace rejection did not repeat on the single execution (%s %s-%d)" % (PID, tag, k))
        p2 = _position(r2)
        ev = bad[p2 - 1] if 0 < p2 <= len(bad) else {}
        rp = os.path.join(OUT, PID, "rejected-%s-%d-%d.ndjson" % (tag, k, nviol))
        vlib.write_ndjson(rp, bad)
        show = {k2: (v if k2 != "bytes" or len(v) < 60 else v[:60] + ["..."]) for k2, v in ev.items()}
        what = "%s: log of the real classes (%s, n=%d) is not a behaviour of Aio.tla; %s; first unmatched event #%d of the execution: %s; execution: %s" % (
            tag, mode_name(key[1], key[2], key[3], key[4]), key[0], (r2.violation or "").strip()[:200], p2,
            json.dumps(show)[:900], json.dumps({k2: v for k2, v in bad[0].items() if k2 in ("src", "k", "seed", "id", "shape")})[:400])
        ck.violation(classify(ev, r2, key), what, replay_path=rp)
        nviol += 1
        # executions behind the rejected one in the same TLC run were not looked at: validate them separately
        rest = xs[idx + 1:]
        if rest and budget[0] > 0:
            accepted += validate(ck, "%s-rest%d-%d" % (tag, k, nviol), rest, maxpar=maxpar, runs=1, budget=budget)
    return accepted

# --------------------------------------------------------------------------------------------------

def run_generators(ck, tier, seed):
    """one TLC run: every enumerated case of every mode is one initial state"""
    d = os.path.join(OUT, PID, "gen"); os.makedirs(d, exist_ok=True)
    cfgp = os.path.join(d, "GEN_Aio_%s.cfg" % tier)
    with open(cfgp, "w") as f:
        if tier == "quick":
            f.write(gen_cfg("QuickModes", "GenVals2", ["cut1", "byte", "msg", "arr"], 5, 11, 4, seed, stride_a=97))
        else:
            f.write(gen_cfg("AllModes", "GenVals3", ["cut1", "cut2", "byte", "bytecut", "msg", "arr"], 1, 1, 1, seed, stride_c2=9, stride_bc=3, stride_a=5))
    r = vlib.tlc("AioGen", cfgp, workers=6 if tier == "quick" else 12, timeout=900 if tier == "quick" else 3000, xmx="6g")
    name = "GEN_Aio_" + tier
    if r.error:
        raise vlib.Infra("TLC generator %s: %s" % (name, r.error))
    ck.add_tlc(name, r)
    if r.violation:
        ck.violation("model:gen", "AioGen (%s): a generated behaviour violates the property: %s" % (name, r.violation),
                     replay_path=os.path.join(OUT, "tlc", "AioGen-%s.log" % os.path.basename(cfgp)))
    sched = []
    for h in r.printed:
        if not isinstance(h, dict) or "events" not in h:
            continue
        c = h["cfg"]
        sched.append({"cfg": {"n": c["n"], "variant": c["variant"], "auth": c["auth"], "enc": c["enc"], "chunked": c["chunked"]},
                      "events": h["events"], "dl": h["dl"], "da": h.get("da", []), "arrsize": h.get("arrsize", 0),
                      "id": {"mode": mode_name(c["variant"], c["auth"], c["enc"], c["chunked"]), "case": h.get("id")}})
    sched.sort(key=lambda x: json.dumps(x["id"], sort_keys=True))
    ck.part(name, behaviours=len(sched))
    return sched

def compare_final(ck, sched, execs):
    """direction A proper: the values finally delivered on the real link = the values TLC computed beforehand"""
    nchk, nskip, nbad = 0, 0, 0
    for s, x in zip(sched, execs):
        q = x[-1]
        if q.get("e") != "Quiesce":
            raise vlib.Infra("execution without Quiesce")
        faulty = any(e["e"] == "Fault" for e in x)
        if faulty and q.get("lookalike"):
            nskip += 1      # a real tag / IV octet equals NL: the nominal behaviour may differ in between; AioTrace decides
            continue
        got = q["da"].get("1<-0", []) if s.get("arrsize") else q["dl"].get("1<-0", [])
        want = [[str(v) for v in a] for a in s["da"]] if s.get("arrsize") else [str(v) for v in s["dl"]]
        nchk += 1
        if got != want:
            nbad += 1
            if nbad > MAX_REPORTS:
                continue
            ck.violation("final-delivery:%s:%s" % (mode_name(s["cfg"]["variant"], s["cfg"]["auth"], s["cfg"]["enc"], s["cfg"]["chunked"]),
                                                   (s["id"]["case"] or {}).get("f", {}).get("kind", "?")),
                         "behaviour %s: real link delivered %s, Aio.tla computes %s" % (json.dumps(s["id"])[:300], got, want),
                         replay_obj={"schedule": s, "log": x})
    if nbad > MAX_REPORTS:
        vlib.log("%d further behaviours with a wrong final delivery not reported" % (nbad - MAX_REPORTS))
    ck.part("final-delivery-compare", compared=nchk, skipped_lookalike=nskip, mismatches=nbad)

def _complete(execs):
    """executions whose log ends with Quiesce (the last one is cut short when the library code killed the driver)"""
    return [x for x in execs if x and x[-1].get("e") == "Quiesce"]

def run_schedules(ck, exe, sched):
    """executes the behaviours; a crash of the library code inside the driver is a violation of the property for
    the behaviour being executed (reported, the remaining behaviours are executed in a fresh process)"""
    done, kept, start, ncrash = [], [], 0, 0
    while start < len(sched):
        sp = os.path.join(OUT, PID, "schedules.ndjson")
        tp = os.path.join(OUT, PID, "trace-tlc.ndjson")
        vlib.write_ndjson(sp, sched[start:])
        if os.path.exists(tp):
            os.unlink(tp)
        rc, so, se, _ = vlib.run_driver(exe, ["run", sp, tp])
        execs = split_executions(tp) if os.path.exists(tp) else []
        if rc == 0:
            if len(execs) != len(sched) - start:
                raise vlib.Infra("driver executed %d of %d behaviours" % (len(execs), len(sched) - start))
            done += execs; kept += sched[start:]
            break
        if rc > 0 and rc != 3:
            raise vlib.Infra("drv_aio run failed (%d): %s %s" % (rc, so[-500:], se[-800:]))
        good = _complete(execs)
        j = len(good)                       # the behaviour that was running
        if start + j >= len(sched):
            raise vlib.Infra("drv_aio run died outside a behaviour (%d): %s" % (rc, se[-500:]))
        s = sched[start + j]
        ck.violation("crash:%s" % s["id"]["mode"],
                     "the library code killed the process (driver exit %d: %s) while executing behaviour %s; events logged before: %s" % (
                         rc, (se.strip().splitlines() or so.strip().splitlines() or ["?"])[-1][:200], json.dumps(s["id"])[:300],
                         json.dumps([{k: v for k, v in e.items() if k != "bytes"} for e in (execs[j][-4:] if j < len(execs) else [])])[:700]),
                     replay_obj={"schedule": s})
        done += good; kept += sched[start:start + j]
        start += j + 1
        ncrash += 1
        if ncrash >= 5:
            vlib.log("5 crashes: remaining %d behaviours not executed" % (len(sched) - start))
            break
    return done, kept

def record_random(exe, seed, first, count, tag):
    """records `count` random executions starting at index `first`; returns (executions, crash reports)"""
    out, crashes, pos = [], [], first
    while pos < first + count:
        tpk = os.path.join(OUT, PID, "trace-rand-%s.ndjson" % tag)
        if os.path.exists(tpk):
            os.unlink(tpk)
        rc, so, se, _ = vlib.run_driver(exe, ["random", seed, first + count - pos, tpk, pos])
        execs = split_executions(tpk) if os.path.exists(tpk) else []
        if os.path.exists(tpk):
            os.unlink(tpk)
        if rc == 0:
            out += execs
            break
        if rc > 0 and rc != 3:
            raise vlib.Infra("drv_aio random failed (%d): %s %s" % (rc, so[-500:], se[-800:]))
        good = _complete(execs)
        out += good
        r0 = execs[len(good)][0] if len(good) < len(execs) else {"k": pos + len(good)}
        crashes.append(("crash:%s" % (mode_name(r0["variant"], r0["auth"], r0["enc"], r0["chunked"]) if "variant" in r0 else "?"),
                        "the library code killed the process (driver exit %d: %s) in random execution seed=%s index=%s; last events: %s" % (
                            rc, (se.strip().splitlines() or ["?"])[-1][:200], seed, r0.get("k"),
                            json.dumps([{k: v for k, v in e.items() if k != "bytes"} for e in (execs[len(good)][-4:] if len(good) < len(execs) else [])])[:700]),
                        {"random": {"seed": seed, "index": r0.get("k")}, "log": execs[len(good)] if len(good) < len(execs) else []}))
        pos += len(good) + 1
        if len(crashes) >= 3:
            break
    return out, crashes

def run(tier, seed):
    ck = vlib.Check(PID, tier, seed, "model_checking")
    exe = vlib.build_driver("drv_aio", extra_src=["seam_rng.cc"])
    quick = tier == "quick"
    # ---- 1. exhaustive model checking of the design (scaled sizes)
    mcs = MC_QUICK if quick else MC_THOROUGH
    def mc(c):
        return c, vlib.tlc("MC_Aio_inst", "MC_Aio_%s.cfg" % c, workers=2 if quick else 4, timeout=900 if quick else 3000, xmx="6g")
    with cf.ThreadPoolExecutor(max_workers=5 if quick else 4) as ex:
        futs_mc = [ex.submit(mc, c) for c in mcs]
        # ---- 2. direction A, generation (runs next to the model checking)
        sched = run_generators(ck, tier, seed)
        for fu in futs_mc:
            c, r = fu.result()
            if r.error:
                raise vlib.Infra("TLC MC_Aio_%s: %s" % (c, r.error))
            ck.add_tlc("MC_Aio_" + c, r)
            if r.violation:
                ck.violation("model:" + c, "Aio.tla (MC_Aio_%s) violates the property: %s" % (c, r.violation),
                             replay_path=os.path.join(OUT, "tlc", "MC_Aio_inst-MC_Aio_%s.cfg.log" % c))
    vlib.log("MC + generation done at %.0fs (%d behaviours)" % (time.time() - ck.t0, len(sched)))
    if not sched:
        raise vlib.Infra("no behaviours generated")
    execsA, sched = run_schedules(ck, exe, sched)
    compare_final(ck, sched, execsA)
    vlib.log("replay done at %.0fs" % (time.time() - ck.t0))
    # ---- 3. direction B: randomized exploration, recorded next to the validation of A
    nexec = 128 if quick else 2880
    chunks = 8 if quick else 16
    def rec(k):
        per = nexec // chunks
        return record_random(exe, seed, k * per, per, k)
    with cf.ThreadPoolExecutor(max_workers=8) as ex:
        recs = list(ex.map(rec, range(chunks)))
    execsB = []
    for xs, crashes in recs:
        execsB += xs
        for c in crashes:
            ck.violation(c[0], c[1], replay_obj=c[2])
    vlib.log("random recording done at %.0fs (%d executions)" % (time.time() - ck.t0, len(execsB)))
    nA = validate(ck, "tlc", execsA, maxpar=8 if quick else 12, runs=5 if quick else 24)
    vlib.log("validation A done at %.0fs" % (time.time() - ck.t0))
    nB = validate(ck, "rand", execsB, maxpar=8 if quick else 12, runs=5 if quick else 24)
    vlib.log("validation B done at %.0fs" % (time.time() - ck.t0))
    ck.add_traces(nA + nB)
    ck.add_cases("replayed-tlc-behaviours", len(execsA),
                 [json.dumps(s["id"], sort_keys=True) for s, x in zip(sched, execsA) if any(e["e"] in ("Recv", "RecvArr") and e["ok"] for e in x) or any(e["e"] == "Fault" for e in x)])
    keysB = []
    for x in execsB:
        ndl = sum(1 for e in x if e["e"] in ("Recv", "RecvArr") and e.get("ok"))
        if ndl > 0 or any(e["e"] == "Fault" for e in x):
            keysB.append(json.dumps([x[0].get("seed"), x[0].get("k")]))
    ck.add_cases("random-executions", len(execsB), keysB)
    def brief(ev):
        return {k: (v if k != "bytes" else v[:24] + (["..."] if len(v) > 24 else [])) for k, v in ev.items()}
    ck.sample({"tlc_behaviour": sched[len(sched) // 2]["id"], "log_prefix": [brief(e) for e in execsA[len(sched) // 2][:7]]})
    fa = [x for x in execsA if any(e["e"] == "Fault" for e in x)]
    if fa:
        ck.sample({"tlc_behaviour_with_rewrite": [brief(e) for e in fa[len(fa) // 3][:9]]})
    ck.sample({"random_execution_prefix": [brief(e) for e in execsB[0][:8]]})
    modes_seen = sorted(set(mode_name(x[0]["variant"], x[0]["auth"], x[0]["enc"], x[0]["chunked"]) for x in execsA + execsB))
    ck.part("modes", seen=modes_seen, faults_injected=sum(1 for x in execsA + execsB for e in x if e["e"] == "Fault"),
            receive_calls=sum(1 for x in execsA + execsB for e in x if e["e"] in ("Recv", "RecvArr")),
            deliveries=sum(1 for x in execsA + execsB for e in x if e["e"] in ("Recv", "RecvArr") and e.get("ok")))
    kinds_seen = set(e.get("kind") for x in execsA + execsB for e in x if e["e"] == "Fault")
    if ck.violations == 0:      # vacuity guards (with violations the run may legitimately have been cut short)
        if len(modes_seen) < 16:
            raise vlib.Infra("vacuous: only %d of 16 mode/variant combinations were exercised" % len(modes_seen))
        if not {"flip", "ins", "del", "delmsg", "replay", "swap", "forge"} <= kinds_seen:
            raise vlib.Infra("vacuous: fault kinds exercised: %s" % sorted(kinds_seen))
        if nA + nB == 0 or not any(e["e"] == "RecvArr" and e["ok"] for x in execsB for e in x):
            raise vlib.Infra("vacuous: no trace validated / no array delivered")
    ck.cov["rule"] = ("TLC BFS over bounded instances of Aio.tla (scaled sizes); behaviours enumerated by TLC with real sizes (every "
                      "split point / every rewrite at the enumerated offsets) and seeded random executions run on the real classes and "
                      "validated event by event; an execution is non-trivial when it delivers at least one value or contains a rewrite of "
                      "the wire; distinct = distinct TLC case / (seed, index)")
    ck.cov["exhaustive"] = False
    ck.assumptions += ["MAC and cipher are oracles: a tag verifies iff (line, sequence number) and tag are the sender's; HMAC-SHA256 / AES forgeries and "
                       "the chance (< 1e-9) that a garbled decryption is again a base-62 number >= 2^256 are outside the model",
                       "the fault catalogue is applied to authenticated links only (without a tag the property promises nothing under rewriting)",
                       "key derivation reduced to one PBKDF2 iteration in the driver (keys are arbitrary); select()/time()/sleep() virtual",
                       "Reset(), EOF on a link and send time-outs (socket buffers never fill in the harness) are not exercised"]
    return ck.finish()

def replay(path, seed):
    """re-runs a violation artefact: a rejected log (.ndjson) is validated again; a behaviour (violation-N.json with a
    schedule or a random seed/index) is executed again on the real classes, compared and validated"""
    ck = vlib.Check(PID, "quick", seed, "model_checking")
    if path.endswith(".json"):
        case = json.load(open(path)).get("case") or {}
        exe = vlib.build_driver("drv_aio", extra_src=["seam_rng.cc"])
        if "schedule" in case:
            execs, kept = run_schedules(ck, exe, [case["schedule"]])
            compare_final(ck, kept, execs)
        elif "random" in case:
            execs, crashes = record_random(exe, case["random"]["seed"], case["random"]["index"], 1, "replay")
            for c in crashes:
                ck.violation(c[0], c[1], replay_obj=c[2])
        else:
            raise vlib.Infra("nothing to replay in %s" % path)
    else:
        execs = split_executions(path)
    n = validate(ck, "replay", execs, runs=1)
    ck.add_traces(n)
    ck.sample({"replayed": path, "executions": len(execs)})
    ck.cov["states"] = max(ck.cov["states"], 1); ck.cov["transitions"] = max(ck.cov["transitions"], 1)
    return ck.finish()
