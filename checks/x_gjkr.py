"""scratch check for the GJKR protocol model (checks/gjkr_common.py); the real callers are C15 / C16"""
import os, vlib, gjkr_common
PID = "X_GJKR"
def run(tier, seed):
    ck = vlib.Check(PID, tier, seed, "model_checking")
    part = os.environ.get("X_GJKR_PART", "all")
    if part == "all":
        gjkr_common.run(ck, PID, tier, seed)
    elif part == "model":
        gjkr_common.run_model(ck, PID, tier, seed)
    elif part == "triggers":
        gjkr_common.run_traces(ck, PID, 0, seed, 5)
    elif part == "random":
        gjkr_common.run_traces(ck, PID, int(os.environ.get("X_GJKR_N", "48")), seed, int(os.environ.get("X_GJKR_MAXN", "5")),
                               chunks=int(os.environ.get("X_GJKR_CHUNKS", "4")))
    elif part == "traces":      # triggers + recorded executions, no model checking
        gjkr_common.run(ck, PID, tier, seed, model=False)
    if part != "model" and ck.cov["traces_validated_against_impl"] == 0 and ck.violations == 0 and not ck.known_hit:
        raise vlib.Infra("no trace validated")
    ck.cov["rule"] = "GJKR protocol model: exhaustive n=3,t=1 + message-level trace validation of real runs"
    return ck.finish()
def replay(path, seed):
    ck = vlib.Check(PID, "quick", seed, "model_checking")
    gjkr_common.replay(ck, PID, path)
    return ck.finish()
