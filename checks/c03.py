import vlib, vtmf_common, tracecheck, shuffle_common, parts, rotation_common, groth_common, qrproof_common
PID = "C03"
EVS = "VMask,VPriv,VSec,UpdKey,CC".split(",")
def run(tier, seed):
    ck = vlib.Check(PID, tier, seed, "model_checking")
    def vtmf_part():
        vtmf_common.run_mc(ck, ["MC_VTMF_sigma" if tier == "quick" else "MC_VTMF_sigma_full"], tier)
        def interesting(e):
            if e["e"] in EVS:
                return "%s:%s:%s:%s:%s:%s" % (e["e"], e.get("mut"), e.get("pub"), e.get("mode"), e.get("res"), str(e.get("msg") or e.get("bits"))[:60])
            return None
        vtmf_common.record_and_validate(ck, PID, "c03", 300 if tier == "quick" else 5000, seed, interesting)
        shuffle_common.run(ck, PID, tier, seed, lambda c: c["expect"] == "accept")
    # the algebra of the shuffle / rotation arguments and of the proofs of the quadratic-residue encoding, transcribed in
    # Groth.tla, Rotation.tla, QRProof.tla: exhaustive small-group theorems + every line of recorded runs recomputed
    parts.parallel([("vtmf", vtmf_part),
                    ("rotation", lambda: rotation_common.run(ck, PID, tier, seed, PID)),
                    ("groth", lambda: groth_common.run(ck, PID, tier, seed, PID)),
                    ("qrproof", lambda: qrproof_common.run(ck, PID, tier, seed, PID))])
    ck.cov["rule"] = "MC_VTMF_sigma exhaustive in p=23,q=11; recorded random executions validated by VTMFTrace; a case is a distinct (execution, operation, mutation, verdict, transcript) tuple of the kinds " + ",".join(EVS)
    return ck.finish()
def replay(path, seed):
    ck = vlib.Check(PID, "quick", seed, "model_checking")
    parts.replay_dispatch(ck, PID, path, lambda: tracecheck.validate(ck, PID, "replay", "VTMFTrace", "VTMFTrace.cfg", tracecheck.split_executions(path), classify=vtmf_common.classify, chunks=1))
    return ck.finish()
