"""C17 - distributed coin flips are common and bound by commitments (JareckiLysyanskayaEDCF).

  MC   : Coin.tla (two-party protocol, one action per move, adversarial peer with a message alphabet covering every
         residue and the first values outside every range, channel closed at any moment) and CoinN.tla (n-party
         protocol over joint verifiable secret sharing, synchronous rounds, deviating parties) are checked
         exhaustively by TLC in small groups: order (no share revealed before the commitment is stored), agreement,
         output = sum of the committed shares, rejection / reconstruction on a non-matching opening.  Negative
         controls: the protocol that opens early must violate the order invariant; "never done" / "never rejects"
         must be violated (vacuity).
  A    : every maximal schedule of two honest parties (printed by TLC, GEN_Coin_hh) is executed on two real
         Flip_twoparty calls (one thread per party, baton scheduling).
  B    : the real code against an adversarial harness peer: both roles x C05 catalogue on commitment and opening x
         three timings (lazy / everything in advance / right after the library's commitment) x coins; withheld
         messages; adaptive peers (mirror, steering the outcome after seeing the share).  n-party: real Flip() on
         real RBC objects over the in-memory transport, n = 2..7, deviating and crashing parties.
  both : every log is validated by TLC against CoinTrace.tla / CoinNTrace.tla; the log is ordered by the sequence
         numbers of the harness-owned streams, so a share written before the commitment was read is not a behaviour.
"""
import os, json, sys, time, concurrent.futures as cf
import vlib, tracecheck
from vlib import SPEC, OUT

PID = "C17"

MC2_QUICK = ["MC_Coin_q_adv", "MC_Coin_q_hh"]
MC2_THOROUGH = MC2_QUICK + ["MC_Coin_hh", "MC_Coin_adv0", "MC_Coin_adv1", "MC_Coin_adv11", "MC_Coin_adv11b", "MC_Coin_adv47"]
MC2_MUSTFAIL = {"MC_Coin_early": "C17_Order", "MC_Coin_vac1": "NeverDone", "MC_Coin_vac2": "NeverRejectsOpening"}
GEN_GRP = [23, 11, 2, 3]

def classify2(ev, r):
    if r.violation and "Invariant" in r.violation:
        return "2p-invariant:" + r.violation.split()[2]
    k = ev.get("e", "?")
    if k == "W":
        return "2p-write-not-enabled"
    if k == "R":
        return "2p-read-not-enabled"
    if k == "Ret":
        return "2p-return-" + ("exception" if "exc" in ev else ("accepted" if ev.get("res") else "rejected"))
    return "2p-" + k

def drive(exe, args, what):
    rc, so, se, _ = vlib.run_driver(exe, args, timeout=1500)
    if rc != 0:
        raise vlib.Infra("drv_coin %s failed: %s %s" % (what, so[-400:], se[-400:]))
    try:
        return json.loads(so.strip().splitlines()[-1])
    except Exception:
        raise vlib.Infra("drv_coin %s: no summary line: %s" % (what, so[-300:]))

def outcome(x):
    r = [e for e in x if e["e"] == "Ret"]
    return tuple(("exc" if "exc" in e else ("ok" if e["res"] else "rej")) for e in r)

def mc_jobs(tier):
    names = (MC2_QUICK if tier == "quick" else MC2_THOROUGH) + sorted(MC2_MUSTFAIL)
    return [("MC_Coin", c) for c in names]

def run_mc(job, tier):
    mod, c = job
    return job, vlib.tlc(mod, c + ".cfg", workers=3 if tier == "quick" else 6, timeout=900 if tier == "quick" else 3000, xmx="6g")

def account_mc(ck, job, r):
    mod, c = job
    if r.error:
        raise vlib.Infra("TLC %s: %s" % (c, r.error))
    ck.add_tlc(c, r)
    must = MC2_MUSTFAIL.get(c)
    if must:
        if not (r.violation and must in r.violation):
            raise vlib.Infra("negative control %s: TLC was expected to violate %s but reported %r" % (c, must, r.violation))
        ck.part(c, expected_violation=must)
    elif r.violation:
        ck.violation("model:" + c, "%s (%s): %s" % (mod, c, r.violation),
                     replay_path=os.path.join(OUT, "tlc", "%s-%s.cfg.log" % (mod, c)))

class Acc:
    """collects what tracecheck.validate reports, so that validations can run side by side (merged by the main thread)"""
    def __init__(self):
        self.cov = {"states": 0, "transitions": 0}; self.traces = 0; self.viol = []
    def add_traces(self, n):
        self.traces += n
    def violation(self, key, what, replay_obj=None, replay_path=None):
        self.viol.append((key, what, replay_obj, replay_path))
    def merge(self, ck):
        ck.cov["states"] += self.cov["states"]; ck.cov["transitions"] += self.cov["transitions"]
        ck.add_traces(self.traces)
        for key, what, ro, rp in self.viol:
            ck.violation(key, what, replay_obj=ro, replay_path=rp)

def validate_bg(ex, tag, module, cfg, execs, classify, chunks):
    acc = Acc()
    return acc, ex.submit(tracecheck.validate, acc, PID, tag, module, cfg, execs, classify, chunks)

def two_party(ck, ex, exe, tier, seed):
    """returns a function that waits for the validations and does the accounting"""
    d = os.path.join(OUT, PID); os.makedirs(d, exist_ok=True)
    gen = ex.submit(vlib.tlc, "MC_Coin", "GEN_Coin_hh.cfg", workers=2, timeout=600, xmx="2g")
    # ---- B1: two honest parties, random schedules and coins (thorough: every coin 4-tuple in the group of order 5)
    tB = os.path.join(d, "trace-hh-rand.ndjson")
    if tier == "quick":
        drive(exe, ["hhrand", seed, 150, tB], "hhrand")
    else:
        drive(exe, ["hhrand", seed, 625, tB, 11, 5, 4, 3], "hhrand")
        tB2 = os.path.join(d, "trace-hh-rand2.ndjson")
        drive(exe, ["hhrand", seed + 1, 3000, tB2], "hhrand")
        with open(tB, "a") as f:
            f.write(open(tB2).read())
        os.unlink(tB2)
    exB = tracecheck.split_executions(tB)
    accB, fB = validate_bg(ex, "hh-rand", "CoinTrace", "CoinTrace.cfg", exB, classify2, 1 if tier == "quick" else 6)
    # ---- B2: adversarial peer
    tC = os.path.join(d, "trace-adv.ndjson")
    if tier == "quick":
        drive(exe, ["adv", seed, 3, tC], "adv")
    else:
        drive(exe, ["adv", seed, 121, tC], "adv")                       # every coin pair of the library in G23
        tC2 = os.path.join(d, "trace-adv2.ndjson")
        drive(exe, ["adv", seed + 1, 25, tC2, 11, 5, 4, 3], "adv")      # every coin pair in the group of order 5
        with open(tC, "a") as f:
            f.write(open(tC2).read())
        os.unlink(tC2)
    exC = tracecheck.split_executions(tC)
    accC, fC = validate_bg(ex, "adv", "CoinTrace", "CoinTrace.cfg", exC, classify2, 2 if tier == "quick" else 10)
    # ---- A: all schedules of two honest parties, from TLC
    r = gen.result()
    if r.error or r.violation:
        raise vlib.Infra("TLC generator GEN_Coin_hh: %s" % (r.error or r.violation))
    ck.add_tlc("GEN_Coin_hh", r)
    scheds = sorted(set(tuple(h["sched"]) for h in r.printed if isinstance(h, dict) and "sched" in h))
    if len(scheds) < 10:
        raise vlib.Infra("generator printed only %d schedules" % len(scheds))
    reps = 1 if tier == "quick" else 12
    sp = os.path.join(d, "schedules.ndjson")
    vlib.write_ndjson(sp, [dict(grp=GEN_GRP, sched=list(s), coins=None, seed=seed * 100 + k) for k in range(reps) for s in scheds])
    tA = os.path.join(d, "trace-hh-tlc.ndjson")
    drive(exe, ["hh", sp, tA], "hh")
    exA = tracecheck.split_executions(tA)
    accA, fA = validate_bg(ex, "hh-tlc", "CoinTrace", "CoinTrace.cfg", exA, classify2, 1 if tier == "quick" else 6)

    def finish():
        nA, nB, nC = fA.result(), fB.result(), fC.result()
        for a in (accA, accB, accC):
            a.merge(ck)
        ck.add_cases("two-party-all-schedules", len(exA),
                     [json.dumps([e["i"] for e in x if e["e"] in ("W", "R")]) for x in exA if outcome(x) == ("ok", "ok")])
        ck.part("two-party-all-schedules", schedules=len(scheds), accepted_by_tlc=nA)
        ck.sample({"two_party_honest_execution": [{k: v for k, v in e.items() if k not in ("src",)} for e in exA[0]]})
        ck.add_cases("two-party-honest-random", len(exB),
                     [json.dumps([x[0]["grp"], [e["coins"] for e in x if e["e"] == "W" and e["coins"]]]) for x in exB if outcome(x) == ("ok", "ok")])
        ck.part("two-party-honest-random", accepted_by_tlc=nB)
        keys, byout = set(), {}
        for x in exC:
            o = outcome(x)
            keys.add((x[0]["honest"][0], x[0]["mut"], x[0]["pos"], x[0]["timing"], x[0]["grp"][0], o))
            byout[o[0] if o else "none"] = byout.get(o[0] if o else "none", 0) + 1
        ck.add_cases("two-party-adversarial-peer", len(exC), keys)
        ck.part("two-party-adversarial-peer", accepted_by_tlc=nC, outcomes=byout)
        for want in ("rej", "exc"):
            for x in exC:
                if outcome(x) == (want,) and x[0]["mut"] in ("plus1", "trunc") and x[0]["pos"] == 2:
                    ck.sample({"adversarial_peer_" + want: [{k: v for k, v in e.items() if k != "src"} for e in x]}); break
        if not (byout.get("ok") and byout.get("rej") and byout.get("exc")):
            raise vlib.Infra("adversarial executions do not cover accept/reject/abort: %s" % byout)
    return finish

def run(tier, seed):
    ck = vlib.Check(PID, tier, seed, "model_checking")
    exe = vlib.build_driver("drv_coin", extra_src=["seam_rng.cc"])
    jobs = mc_jobs(tier)
    with cf.ThreadPoolExecutor(max_workers=16) as ex, cf.ThreadPoolExecutor(max_workers=5 if tier == "quick" else 3) as mcex:
        futs = [mcex.submit(run_mc, j, tier) for j in jobs]
        fin2 = two_party(ck, ex, exe, tier, seed)
        fin2()
        vlib.log("two-party conformance done at %.0fs" % (time.time() - ck.t0))
        for fu in futs:
            job, r = fu.result()
            account_mc(ck, job, r)
    vlib.log("model checking done at %.0fs" % (time.time() - ck.t0))
    ck.cov["rule"] = ("TLC BFS over bounded instances of Coin.tla (all shares, adversary alphabet = every residue and the first "
                      "values outside each range, close at any moment); all TLC-generated schedules of two honest parties and seeded "
                      "adversarial executions (role x catalogue mutation x position x timing x coins) run on the real Flip_twoparty and "
                      "validated by TLC; an execution is non-trivial when the library returned; distinct = distinct I/O interleavings "
                      "(honest), distinct coin tuples (random), distinct (role, mutation, position, timing, group, outcome) (adversarial)")
    ck.cov["exhaustive"] = False
    ck.assumptions += ["the textual encoding of numbers on the stream (base 62, one per line) is decoded by the harness with GMP; the library's reader is C11/C12 territory",
                       "an exception leaving Flip_twoparty counts as refusal; the spec allows it only when a message is missing or not a number",
                       "tiny groups: the binding of the commitment is computational and not a property of the model (an unbounded peer that sees the share first can steer the coin - the 'steer' executions - which is exactly why the order is checked)"]
    return ck.finish()

def replay(path, seed):
    ck = vlib.Check(PID, "quick", seed, "model_checking")
    execs = tracecheck.split_executions(path)
    tracecheck.validate(ck, PID, "replay", "CoinTrace", "CoinTrace.cfg", execs, classify=classify2, chunks=1)
    ck.cov["rule"] = "replay of one recorded execution"
    return ck.finish()
