"""C17 - distributed coin flips are common and bound by commitments (JareckiLysyanskayaEDCF).

  MC   : Coin.tla (two-party protocol, one action per move, adversarial peer with a message alphabet covering every
         residue and the first values outside every range, channel closed at any moment) and CoinN.tla (n-party
         protocol over joint verifiable secret sharing in synchronous rounds, one party deviating in every way of a
         deviation alphabet or sitting behind faulty private links) are checked exhaustively by TLC in small groups:
         order (no share revealed before the commitment is stored), agreement, output = sum of the committed shares
         of the qualified parties, rejection / reconstruction on a non-matching opening.  Negative controls: the
         protocol that opens early must violate the order invariant, the n-party protocol without the rule "an
         unanswered complaint disqualifies" must violate agreement; "never done", "never rejects", "never
         reconstructs", "never disqualifies" must be violated (vacuity, thorough tier).
  A    : every maximal schedule of two honest parties (printed by TLC, GEN_Coin_hh) is executed on two real
         Flip_twoparty calls (one thread per party, baton scheduling).
  B    : the real code against an adversarial harness peer: both roles x C05 catalogue on commitment and opening x
         three timings (lazy / everything in advance / right after the library's commitment) x coins; withheld
         messages; adaptive peers (mirror, steering the outcome after seeing the share).  n-party: real Flip() of
         every party on real RBC objects over an in-memory transport (baton threads, virtual clock), n = 2..7,
         parties that deviate (the library's own faulty mode, crash at the start / before opening, faulty private
         links, a harness party that walks through the protocol and deviates at will).
  both : every log is validated by TLC against CoinTrace.tla / CoinNTrace.tla; the two-party log is ordered by the
         sequence numbers of the harness-owned streams, so a share written before the commitment was read is not a
         behaviour; the n-party log carries the commitments a party has stored when its share goes on the wire.
"""
import os, json, sys, time, concurrent.futures as cf
import vlib, tracecheck
from vlib import SPEC, OUT

PID = "C17"

MC_QUICK = [("MC_Coin", "MC_Coin_q_adv"), ("MC_Coin", "MC_Coin_q_hh"), ("MC_CoinN", "MC_CoinN_q3"), ("MC_CoinN", "MC_CoinN_q3t")]
MC_THOROUGH = MC_QUICK + [("MC_Coin", c) for c in ("MC_Coin_hh", "MC_Coin_adv0", "MC_Coin_adv1", "MC_Coin_adv11", "MC_Coin_adv11b", "MC_Coin_adv47")] + \
              [("MC_CoinN", c) for c in ("MC_CoinN_3", "MC_CoinN_4", "MC_CoinN_4t", "MC_CoinN_5t2")]
# negative controls and vacuity guards: TLC must find a counterexample to the named invariant
MUSTFAIL_QUICK = {"MC_Coin_early": ("MC_Coin", "C17_Order"), "MC_CoinN_norule": ("MC_CoinN", "Holds")}
MUSTFAIL_THOROUGH = dict(MUSTFAIL_QUICK, **{"MC_Coin_vac1": ("MC_Coin", "NeverDone"), "MC_Coin_vac2": ("MC_Coin", "NeverRejectsOpening"),
                                            "MC_CoinN_vac1": ("MC_CoinN", "NeverRecon"), "MC_CoinN_vac2": ("MC_CoinN", "NeverDisq")})
GEN_GRP = [23, 11, 2, 3]
# the stable key of the defect found in /repo (see notes/C17.md): JareckiLysyanskayaRVSS::Share keeps a dealer qualified
# that left a complaint unanswered, the complainer then reconstructs with its own bad share
KEY_UNANSWERED = "np-agreement:unanswered-complaint-keeps-dealer-qualified"

def classify2(ev, r):
    if r.violation and "Invariant" in r.violation:
        return "2p-invariant:" + r.violation.split()[2]
    k = ev.get("e", "?")
    if k == "W":
        return "2p-write-not-enabled"
    if k == "R":
        return "2p-read-not-enabled"
    if k == "Ret":
        return "2p-return-" + ("exception" if "exc" in ev else ("accepted" if ev.get("res") else "rejected"))
    return "2p-" + k

def classify_n(ev, r):
    if r.violation and "Invariant" in r.violation:
        return "np-invariant:" + r.violation.split()[2]
    k = ev.get("e", "?")
    if k == "Open":
        return "np-share-revealed-state"
    if k == "Out":
        return "np-output-" + ("exception" if "exc" in ev else ("coin" if ev.get("res") else "failure"))
    return "np-" + k

def drive(exe, args, what):
    rc, so, se, _ = vlib.run_driver(exe, args, timeout=2400)
    if rc != 0:
        raise vlib.Infra("drv_coin %s failed (rc %s): %s %s" % (what, rc, so[-400:], se[-400:]))
    try:
        return json.loads(so.strip().splitlines()[-1])
    except Exception:
        raise vlib.Infra("drv_coin %s: no summary line: %s" % (what, so[-300:]))

def outcome(x):
    r = [e for e in x if e["e"] == "Ret"]
    return tuple(("exc" if "exc" in e else ("ok" if e["res"] else "rej")) for e in r)

def run_mc(job, tier):
    mod, c = job
    return job, vlib.tlc(mod, c + ".cfg", workers=3 if tier == "quick" else 6, timeout=900 if tier == "quick" else 3000, xmx="6g")

def account_mc(ck, job, r, mustfail):
    mod, c = job
    if r.error:
        raise vlib.Infra("TLC %s: %s" % (c, r.error))
    ck.add_tlc(c, r)
    must = mustfail.get(c)
    if must:
        if not (r.violation and must[1] in r.violation):
            raise vlib.Infra("negative control %s: TLC was expected to violate %s but reported %r" % (c, must[1], r.violation))
        ck.part(c, expected_violation=must[1])
    elif r.violation:
        ck.violation("model:" + c, "%s (%s): %s" % (mod, c, r.violation),
                     replay_path=os.path.join(OUT, "tlc", "%s-%s.cfg.log" % (mod, c)))

class Acc:
    """collects what a validation reports, so that validations can run side by side (merged by the main thread)"""
    def __init__(self):
        self.cov = {"states": 0, "transitions": 0}; self.traces = 0; self.viol = []
    def add_traces(self, n):
        self.traces += n
    def violation(self, key, what, replay_obj=None, replay_path=None):
        self.viol.append((key, what, replay_obj, replay_path))
    def merge(self, ck):
        ck.cov["states"] += self.cov["states"]; ck.cov["transitions"] += self.cov["transitions"]
        ck.add_traces(self.traces)
        for key, what, ro, rp in self.viol:
            ck.violation(key, what, replay_obj=ro, replay_path=rp)

def validate_bg(ex, tag, module, cfg, execs, classify, chunks):
    acc = Acc()
    return acc, ex.submit(tracecheck.validate, acc, PID, tag, module, cfg, execs, classify, chunks)

# --------------------------------------------------------------------------------------------------
# two-party protocol
def gen_schedules():
    """all maximal schedules of two honest parties, printed by TLC; the list only depends on the spec files and is
    kept between runs (key: their content)"""
    files = ["Prims.tla", "Pedersen.tla", "Coin.tla", "MC_Coin.tla", "GEN_Coin_hh.cfg"]
    key = vlib.sha(*[vlib.rd(os.path.join(SPEC, f)) for f in files])
    cp = os.path.join(vlib.VERIF, "out", PID, "schedules-%s.json" % key)
    if os.path.exists(cp):
        try:
            return [tuple(x) for x in json.load(open(cp))], None
        except Exception:
            pass
    r = vlib.tlc("MC_Coin", "GEN_Coin_hh.cfg", workers=2, timeout=600, xmx="2g")
    if r.error or r.violation:
        raise vlib.Infra("TLC generator GEN_Coin_hh: %s" % (r.error or r.violation))
    scheds = sorted(set(tuple(h["sched"]) for h in r.printed if isinstance(h, dict) and "sched" in h))
    if len(scheds) < 10:
        raise vlib.Infra("generator printed only %d schedules" % len(scheds))
    os.makedirs(os.path.dirname(cp), exist_ok=True)
    with open(cp + ".tmp", "w") as f:
        json.dump([list(x) for x in scheds], f)
    os.rename(cp + ".tmp", cp)
    return scheds, r

def two_party(ck, ex, exe, tier, seed):
    """returns a function that waits for the validations and does the accounting"""
    d = os.path.join(OUT, PID); os.makedirs(d, exist_ok=True)
    gen = ex.submit(gen_schedules)
    # ---- B1: two honest parties, random schedules and coins (thorough: every coin 4-tuple in the group of order 5)
    tB = os.path.join(d, "trace-hh-rand.ndjson")
    if tier == "quick":
        drive(exe, ["hhrand", seed, 150, tB], "hhrand")
    else:
        drive(exe, ["hhrand", seed, 625, tB, 11, 5, 4, 3], "hhrand")
        tB2 = os.path.join(d, "trace-hh-rand2.ndjson")
        drive(exe, ["hhrand", seed + 1, 3000, tB2], "hhrand")
        with open(tB, "a") as f:
            f.write(open(tB2).read())
        os.unlink(tB2)
    exB = tracecheck.split_executions(tB)
    # ---- B2: adversarial peer
    tC = os.path.join(d, "trace-adv.ndjson")
    if tier == "quick":
        drive(exe, ["adv", seed, 3, tC], "adv")
    else:
        drive(exe, ["adv", seed, 121, tC], "adv")                       # every coin pair of the library in G23
        tC2 = os.path.join(d, "trace-adv2.ndjson")
        drive(exe, ["adv", seed + 1, 25, tC2, 11, 5, 4, 3], "adv")      # every coin pair in the group of order 5
        with open(tC, "a") as f:
            f.write(open(tC2).read())
        os.unlink(tC2)
    exC = tracecheck.split_executions(tC)
    accC, fC = validate_bg(ex, "adv", "CoinTrace", "CoinTrace.cfg", exC, classify2, 2 if tier == "quick" else 10)
    # ---- A: all schedules of two honest parties, from TLC
    scheds, r = gen.result()
    if r is not None:
        ck.add_tlc("GEN_Coin_hh", r)
    else:
        ck.part("GEN_Coin_hh", cached=True)
    reps = 1 if tier == "quick" else 12
    sp = os.path.join(d, "schedules.ndjson")
    vlib.write_ndjson(sp, [dict(grp=GEN_GRP, sched=list(s), coins=None, seed=seed * 100 + k) for k in range(reps) for s in scheds])
    tA = os.path.join(d, "trace-hh-tlc.ndjson")
    drive(exe, ["hh", sp, tA], "hh")
    exA = tracecheck.split_executions(tA)
    # the two kinds of honest executions are validated together (one JVM start less in the quick tier)
    accA, fA = validate_bg(ex, "hh", "CoinTrace", "CoinTrace.cfg", exA + exB, classify2, 1 if tier == "quick" else 10)

    def finish():
        nA, nC = fA.result(), fC.result()
        for a in (accA, accC):
            a.merge(ck)
        ck.add_cases("two-party-all-schedules", len(exA),
                     [json.dumps([e["i"] for e in x if e["e"] in ("W", "R")]) for x in exA if outcome(x) == ("ok", "ok")])
        ck.part("two-party-all-schedules", schedules=len(scheds), accepted_by_tlc_with_random=nA)
        ck.sample({"two_party_honest_execution": [{k: v for k, v in e.items() if k not in ("src",)} for e in exA[0]]})
        ck.add_cases("two-party-honest-random", len(exB),
                     [json.dumps([x[0]["grp"], [e["coins"] for e in x if e["e"] == "W" and e["coins"]]]) for x in exB if outcome(x) == ("ok", "ok")])
        keys, byout = set(), {}
        for x in exC:
            o = outcome(x)
            keys.add((x[0]["honest"][0], x[0]["mut"], x[0]["pos"], x[0]["timing"], x[0]["grp"][0], o))
            byout[o[0] if o else "none"] = byout.get(o[0] if o else "none", 0) + 1
        ck.add_cases("two-party-adversarial-peer", len(exC), keys)
        ck.part("two-party-adversarial-peer", accepted_by_tlc=nC, outcomes=byout)
        for want in ("rej", "exc"):
            for x in exC:
                if outcome(x) == (want,) and x[0]["mut"] in ("plus1", "trunc") and x[0]["pos"] == 2:
                    ck.sample({"adversarial_peer_" + want: [{k: v for k, v in e.items() if k != "src"} for e in x]}); break
        if not (byout.get("ok") and byout.get("rej") and byout.get("exc")):
            raise vlib.Infra("adversarial executions do not cover accept/reject/abort: %s" % byout)
    return finish

# --------------------------------------------------------------------------------------------------
# n-party protocol
def tv_n(tag, execs):
    d = os.path.join(OUT, PID, "tv"); os.makedirs(d, exist_ok=True)
    tf = os.path.join(d, tag + ".ndjson")
    vlib.write_ndjson(tf, [e for x in execs for e in x] + [{"e": "End"}])
    r = vlib.tlc("CoinNTrace", "CoinNTrace.cfg", workers=1, env={"TRACE": tf}, timeout=1800, xmx="4g")
    if r.error:
        raise vlib.Infra("trace validation CoinNTrace on %s: %s" % (tf, r.error))
    return r

def validate_n(tag, execs, depth=0):
    """CoinNTrace.tla computes the rounds both for the protocol as designed and without the rule 'an unanswered
    complaint disqualifies'; an execution must match one of them.  TLC prints which executions matched only the
    second and whether the logged outputs then violate the property.  Returns (accepted, results, states) with
    results = list of (execution, kind, event, tlcresult), kind in norule-no-effect / norule-disagreement / mismatch."""
    acc, res, states = 0, [], 0
    rest, rnd = list(execs), 0
    while rest:
        r = tv_n("%s-%d-%d" % (tag, depth, rnd), rest); rnd += 1
        states += r.distinct
        if r.ok():
            starts, n = {}, 1
            for k, x in enumerate(rest):
                starts[n] = k; n += len(x)
            notes = [nt for pr in r.printed if isinstance(pr, dict) for nt in pr.get("notes", [])]
            for nt in notes:
                if nt["at"] not in starts:
                    raise vlib.Infra("CoinNTrace reported an unknown execution start %r" % nt)
                res.append((rest[starts[nt["at"]]], "norule-disagreement" if nt["disagree"] else "norule-no-effect", {}, r))
            acc += len(rest)
            break
        if depth > 0:
            raise vlib.Infra("prefix of a rejected log was rejected as well (%s)" % tag)
        pos = tracecheck._position(r)
        seen, idx = 0, len(rest) - 1
        for k, x in enumerate(rest):
            if seen + len(x) >= pos:
                idx = k; break
            seen += len(x)
        bad = rest[idx]
        r1 = tv_n("%s-%d-one" % (tag, rnd), [bad])
        if r1.ok():
            raise vlib.Infra("trace rejection did not repeat on the single execution (%s)" % tag)
        p1 = tracecheck._position(r1)
        ev = bad[p1 - 1] if 0 < p1 <= len(bad) else {}
        res.append((bad, "mismatch", ev, r1))
        states += r1.distinct
        if idx > 0:       # the executions before it were accepted; run them again to learn which model they needed
            a2, r2, s2 = validate_n(tag + "-pre%d" % rnd, rest[:idx], depth + 1)
            acc += a2; res += r2; states += s2
        rest = rest[idx + 1:]
    return acc, res, states

def n_party(ck, ex, exe, tier, seed):
    d = os.path.join(OUT, PID); os.makedirs(d, exist_ok=True)
    nexec = 60 if tier == "quick" else 1200
    nchunks = 2 if tier == "quick" else 12
    def rec(k):
        tp = os.path.join(d, "trace-np-%d.ndjson" % k)
        drive(exe, ["np", seed * 100 + k, nexec // nchunks, tp], "np")
        execs = tracecheck.split_executions(tp)
        return execs, validate_n("np-%d" % k, execs)
    futs = [ex.submit(rec, k) for k in range(nchunks)]

    def finish():
        allx, nacc, keys, scen = [], 0, set(), {}
        buckets = {"norule-no-effect": [], "norule-disagreement": [], "mismatch": []}
        for fu in futs:
            execs, (acc, res, states) = fu.result()
            allx += execs; nacc += acc
            ck.cov["states"] += states; ck.cov["transitions"] += states
            for item in res:
                buckets[item[1]].append(item)
        for x in allx:
            r0 = x[0]
            outs = sorted((e["i"], e["res"], e["coin"]) for e in x if e["e"] == "Out")
            scen[r0["src"]["scen"]] = scen.get(r0["src"]["scen"], 0) + 1
            if any(o[1] for o in outs):
                keys.add(json.dumps([r0["n"], r0["t"], r0["poly"], [[dv["kind"], dv["sd"], dv["complain"], dv["answer"], dv["open"]] for dv in r0["dev"]]]))
        nacc -= len(buckets["norule-disagreement"])       # a behaviour of the model, but of one that breaks the property
        ck.add_traces(nacc)
        ck.add_cases("n-party-executions", len(allx), keys)
        ck.part("n-party-executions", accepted_by_tlc=nacc, scenarios=scen,
                unanswered_complaint_dealer_stays_qualified_without_effect_on_the_coin=len(buckets["norule-no-effect"]),
                unanswered_complaint_honest_parties_disagree=len(buckets["norule-disagreement"]))
        for x in allx:
            if x[0]["src"]["scen"] not in ("honest",) and x[0]["n"] <= 5:
                ck.sample({"n_party_execution": [{k: v for k, v in e.items() if k != "stored"} for e in x]}); break
        # the executions that are behaviours of neither model
        for n, (bad, kind, ev, r) in enumerate(buckets["mismatch"]):
            rp = os.path.join(d, "rejected-np-%d.ndjson" % n)
            vlib.write_ndjson(rp, bad)
            what = ("n-party: log of the real code is not a behaviour of CoinNTrace (n=%d t=%d scenario %s); %s; first unmatched event: %s" %
                    (bad[0]["n"], bad[0]["t"], bad[0]["src"]["scen"], (r.violation or "").strip()[:160], json.dumps({k: v for k, v in ev.items() if k != "stored"})[:400]))
            ck.violation(classify_n(ev, r), what, replay_path=rp)
        # the defect: reported once, with the first execution as the replay artefact
        if buckets["norule-disagreement"]:
            # the plainest example first: fewest distinct coins, one deviating party, fewest parties
            def plain(item):
                x = item[0]
                coins = set(e["coin"] for e in x if e["e"] == "Out" and e["res"])
                return (len(coins), sum(1 for v in x[0]["dev"] if v["kind"] != "honest"), x[0]["n"])
            bad = sorted(buckets["norule-disagreement"], key=plain)[0][0]
            rp = os.path.join(d, "rejected-np-unanswered-complaint.ndjson")
            vlib.write_ndjson(rp, bad)
            dv = [(i, v["kind"], v["sd"], v["answer"], v["open"]) for i, v in enumerate(bad[0]["dev"]) if v["kind"] != "honest"]
            outs = sorted((e["i"], e["coin"]) for e in bad if e["e"] == "Out" and e["res"])
            what = ("n-party Flip(): honest parties return TRUE with different coins in %d of %d executions (first: n=%d t=%d, deviating %s, "
                    "polynomials %s, outputs (party, coin) %s).  A dealer that sends a wrong/no share to one party and leaves its complaint "
                    "unanswered stays in Qual (JareckiLysyanskayaRVSS::Share step 1(c) never checks that every complaint was answered); when its "
                    "opening is then wrong or missing, the complainer interpolates with its own unverified share.  The execution is a behaviour "
                    "of CoinN.tla only without the rule 'an unanswered complaint disqualifies', and violates C17_Outputs there." %
                    (len(buckets["norule-disagreement"]), len(allx), bad[0]["n"], bad[0]["t"], dv, json.dumps([p["c"] for p in bad[0]["poly"]]), outs))
            ck.violation(KEY_UNANSWERED, what, replay_path=rp)
        if len(scen) < (4 if tier == "quick" else 8):
            raise vlib.Infra("n-party executions cover too few scenarios: %s" % scen)
    return finish

def run(tier, seed):
    ck = vlib.Check(PID, tier, seed, "model_checking")
    exe = vlib.build_driver("drv_coin", extra_src=["seam_rng.cc"])
    mustfail = MUSTFAIL_QUICK if tier == "quick" else MUSTFAIL_THOROUGH
    jobs = (MC_QUICK if tier == "quick" else MC_THOROUGH) + [(m, c) for c, (m, _) in sorted(mustfail.items())]
    with cf.ThreadPoolExecutor(max_workers=16) as ex, cf.ThreadPoolExecutor(max_workers=3) as mcex:
        finn = n_party(ck, ex, exe, tier, seed)
        futs = [mcex.submit(run_mc, j, tier) for j in jobs]
        fin2 = two_party(ck, ex, exe, tier, seed)
        fin2()
        vlib.log("two-party conformance done at %.0fs" % (time.time() - ck.t0))
        finn()
        vlib.log("n-party conformance done at %.0fs" % (time.time() - ck.t0))
        for fu in futs:
            job, r = fu.result()
            account_mc(ck, job, r, mustfail)
    vlib.log("model checking done at %.0fs" % (time.time() - ck.t0))
    ck.cov["rule"] = ("TLC BFS over bounded instances of Coin.tla (all shares, adversary alphabet = every residue and the first values outside "
                      "each range, close at any moment) and CoinN.tla (all share polynomials of one honest and of the deviating party x the "
                      "deviation alphabet); all TLC-generated schedules of two honest parties, seeded adversarial two-party executions (role x "
                      "catalogue mutation x position x timing x coins) and seeded n-party executions (n = 2..7, deviation scenarios) run on the "
                      "real code and validated by TLC; an execution is non-trivial when a party returned (two-party) / returned a coin "
                      "(n-party); distinct = distinct I/O interleavings (honest), coin tuples (random), (role, mutation, position, timing, "
                      "group, outcome) (adversarial), (n, t, polynomials, deviations) (n-party)")
    ck.cov["exhaustive"] = False
    ck.assumptions += ["the textual encoding of numbers on the stream (base 62, one per line) is decoded by the harness with GMP; the library's reader is C11/C12 territory",
                       "an exception leaving Flip_twoparty counts as refusal; the spec allows it only when a message is missing or not a number",
                       "tiny groups: the binding of the commitment is computational and not a property of the model (an unbounded peer that sees the share first can steer the coin - the 'steer' executions - which is exactly why the order is checked); deviating parties of the n-party model do not equivocate on shares",
                       "n-party: reliable broadcast (C14) and private links deliver within the time-outs, and the time-out of a private receive is shorter than that of a broadcast delivery (virtual clock: 2 s / 9 s)",
                       "n-party order: observed as the commitments a party has stored when its first broadcast on the channel of Flip() leaves (projection of rvss->C_ik), not as wire order of the broadcast layer"]
    return ck.finish()

def replay(path, seed):
    ck = vlib.Check(PID, "quick", seed, "model_checking")
    execs = tracecheck.split_executions(path)
    if execs and "n" in execs[0][0]:
        acc, res, states = validate_n("replay", execs)
        acc -= sum(1 for item in res if item[1] == "norule-disagreement")
        ck.add_traces(acc); ck.cov["states"] += states; ck.cov["transitions"] += states
        for bad, kind, ev, r in res:
            if kind == "norule-disagreement":
                ck.violation(KEY_UNANSWERED, "replayed n-party execution: honest parties return different coins (unanswered complaint, dealer stays qualified)", replay_path=path)
            elif kind == "mismatch":
                ck.violation(classify_n(ev, r), "replayed n-party execution is not a behaviour of CoinNTrace: %s" % json.dumps({k: v for k, v in ev.items() if k != "stored"})[:300], replay_path=path)
    else:
        tracecheck.validate(ck, PID, "replay", "CoinTrace", "CoinTrace.cfg", execs, classify=classify2, chunks=1)
    ck.cov["rule"] = "replay of recorded executions"
    ck.sample({"replayed": path})
    return ck.finish()
