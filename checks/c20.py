"""C20 - OpenPGP signatures and encryption are tamper-evident.

  spec : spec/PGPMsg.tla - validity rules of a signature (expiry, older than its key, far future, weak hash), symbolic
         model of signature packets (field classes hashed / unhashed / value, region grammar of 5.2.3 / 5.5.2),
         SEIPD = CFB(prefix || repeat || data || MDC), AEAD chunks (nonce = IV xor index, AD = header || index, final
         tag), session key material; written from RFC 4880 / RFC 6637 / rfc4880bis and the property, not from the C++.
  MC   : spec/MC_PGPMsgSym.tla - an attacker applies up to Depth alterations to a symbolic signed object / SEIPD / AEAD
         message; TLC checks exhaustively that whatever is accepted is the original.  The AEAD model with a repeating
         nonce schedule must VIOLATE the invariant (the model is sensitive to nonce reuse).
  A    : spec/MC_PGPMsg.tla enumerates the case families (one TLC state per case), checks the theorems of the family
         and prints the case with the verdict of every tamper class; harness/drv_msg.cc concretises the case with real
         keys (generated once per run from the seed), alters EVERY octet of every region the grammar denotes, runs the
         real verification / decryption and reports what happened.
  B    : drv_msg records the calls on the AEAD primitive (nonce, additional data, lengths) and the octets hashed while
         verifying; spec/PGPMsgTrace.tla must accept every event.
  Python only moves data between TLC and the driver and compares verdicts for equality.
"""
import os, json, sys, time, concurrent.futures as cf
import vlib
from vlib import SPEC, OUT

PID = "C20"
ODIR = os.path.join(OUT, PID)
BIG = 10 ** 6

SYM = [("MC_PGPMsgSym_all", True), ("MC_PGPMsgSym_cum", False)]         # (cfg, expected to hold)
SYM_THOROUGH = SYM + [("MC_PGPMsgSym_deep", True)]

def groups(tier):
    # (group, W chains, workers, Hi per family override)
    if tier == "quick":
        return [("GrpQ1", 6, 6, BIG), ("GrpQ2", 10, 10, BIG)]
    return [("GrpT1", 6, 6, BIG), ("GrpT2", 8, 8, BIG), ("GrpT3", 8, 8, BIG), ("GrpT4", 6, 6, BIG)]

def masks(tier):
    return "1,128" if tier == "quick" else "1,2,4,8,16,32,64,128,255"

def cfg_text(grp, lo, hi, w, seed):
    return ("SPECIFICATION Spec\nCONSTANTS\n Families <- %s\n Lo = %d\n Hi = %d\n W = %d\n Seed = %d\n"
            "INVARIANTS Theorems Emit\nCHECK_DEADLOCK FALSE\n" % (grp, lo, hi, w, seed))

def gen_group(grp, lo, hi, w, workers, seed, tag="", timeout=1700):
    d = os.path.join(ODIR, "cfg")
    os.makedirs(d, exist_ok=True)
    cfgp = os.path.join(d, "GEN_PGPMsg_%s%s.cfg" % (grp, tag))
    with open(cfgp, "w") as f:
        f.write(cfg_text(grp, lo, hi, w, seed))
    r = vlib.tlc("MC_PGPMsg", cfgp, workers=workers, timeout=timeout, xmx="4g")
    if r.error:
        raise vlib.Infra("TLC %s: %s\n%s" % (grp, r.error, r.out[-1500:]))
    return r

def run_cases(exe, cases, name, seed, tier, timeout=1700):
    cp = os.path.join(ODIR, "cases-%s.ndjson" % name)
    gp = os.path.join(ODIR, "got-%s.ndjson" % name)
    tp = os.path.join(ODIR, "trace-%s.ndjson" % name)
    vlib.write_ndjson(cp, [{"fam": c["fam"], "i": c["i"], "op": c["op"], "in": c["in"]} for c in cases])
    rc, so, se, wall = vlib.run_driver(exe, ["cases", seed, masks(tier), cp, gp, tp], timeout=timeout)
    if rc != 0 or "TERMINATE" in so:
        raise vlib.Infra("drv_msg cases (%s) failed rc=%s: %s %s" % (name, rc, so[-800:], se[-1500:]))
    got = {}
    for g in vlib.read_ndjson(gp):
        got[(g["fam"], g["i"])] = g["got"]
    if len(got) != len(cases):
        raise vlib.Infra("drv_msg answered %d of %d cases (%s)" % (len(got), len(cases), name))
    return got, vlib.read_ndjson(tp)

# ---------------------------------------------------------------------------------------------- comparison
class Findings:
    """collects mismatches by stable key; one VIOLATION per key with the first failing case as replay artefact"""
    def __init__(self):
        self.bykey, self.order = {}, []
    def add(self, key, case, got, what):
        if key not in self.bykey:
            self.bykey[key] = []
            self.order.append(key)
        self.bykey[key].append((case, got, what))

def cfgname(c):
    i = c["in"]
    if c["op"] == "sig":
        return "%s/v%d/type%d/pk%d/hash%d" % (i["kind"], i["v"], i["type"], i["pk"], i["hash"])
    if c["op"] == "aead":
        return "sk%d/aead%d/c%d/n%d" % (i["sk"], i["aead"], i["c"], i["n"])
    if c["op"] == "seipd":
        return "sk%d/%s/n%d" % (i["sk"], "lib" if i["lib"] else "foreign", i["n"])
    if c["op"] == "pkesk":
        return "algo%d/%s/kdf%d-%d/%s" % (i["algo"], i["curve"] or "-", i["kdfhash"], i["kdfsym"], "wildcard" if i["wildcard"] else "keyid")
    return ""

def cmp_table(F, c, g, tabname, exp_tab, got_tab, what_region, use="accepted"):
    """exp_tab: class -> refuse|accept|any ; got_tab: class -> {n, accepted, wrong, vaccepted, first}"""
    for cls, e in exp_tab.items():
        t = got_tab.get(cls)
        if t is None or t["n"] == 0:
            # a class the grammar denotes but that is empty in this packet (the unhashed area of an emitted signature)
            # has no octet to alter; every other claimed class must have been exercised
            if e != "any" and cls != "unhashed":
                F.add("%s:%s:%s:uncovered" % (c["op"], tabname, cls), c, g, "no octet of class %s was altered (layout?)" % cls)
            continue
        if t.get("crash") and tabname != "keyverify":
            F.add("%s:%s:%s:crash" % (c["op"], tabname, cls), c, g,
                  "%d of %d alterations of %s class '%s' CRASHED the library (memory fault while it judged the altered input); first [offset, xor mask, signal]: %s" % (
                      t["crash"], t["n"], what_region, cls, t["firstcrash"]))
        if t.get("abort") and tabname != "keyverify":
            F.add("%s:%s:%s:abort" % (c["op"], tabname, cls), c, g,
                  "%d of %d alterations of %s class '%s' ABORTED the process (assertion inside libgcrypt reached with the altered input); first [offset, xor mask, signal]: %s" % (
                      t["abort"], t["n"], what_region, cls, t["firstcrash"]))
        if e == "any":
            continue
        bad = t[use] + (t["wrong"] if use == "accepted" else 0)
        if e == "refuse" and bad > 0:
            F.add("%s:%s:%s:accepted" % (c["op"], tabname, cls), c, g,
                  "%d of %d alterations of %s class '%s' were ACCEPTED (%s); first [offset, xor mask]: %s" % (
                      bad, t["n"], what_region, cls, "wrong plaintext returned" if t["wrong"] else "verdict accept", t["first"]))

def compare(F, c, g):
    op, e = c["op"], c["exp"]
    if op == "valid":
        if e["valid"] != "any" and g.get("valid") != e["valid"]:
            F.add("valid:verdict:%s" % e["valid"], c, g, "CheckValidity says %s, PGPMsg.tla says %s for %s" % (g.get("valid"), e["valid"], c["in"]))
        if e["expired"] != "any" and g.get("expired") != e["expired"]:
            F.add("valid:expired-flag", c, g, "expired flag %s, prescribed %s for %s" % (g.get("expired"), e["expired"], c["in"]))
        return
    if op == "sig":
        if g.get("sign") != e["sign"]:
            F.add("sig:sign:%s" % e["sign"], c, g, "signing %s: library %s (%s), prescribed %s" % (cfgname(c), g.get("sign"), g.get("why"), e["sign"]))
            return
        if e["sign"] != "ok":
            return
        u = g["untouched"]
        if not g.get("siglayout") or not g.get("keylayout"):
            F.add("sig:layout", c, g, "the emitted signature / key packet does not have the layout of RFC 4880 5.2.3 / 5.5.2 (%s)" % cfgname(c))
        if u["verify"] != "accept" or u["match"] != "accept":
            F.add("sig:untouched:%s" % c["in"]["kind"], c, g, "the untouched signature %s does not verify: %s" % (cfgname(c), u))
        if e["untouched"]["valid"] != "any" and u["valid"] != e["untouched"]["valid"]:
            F.add("sig:untouched-validity", c, g, "validity of the untouched signature %s: %s, prescribed %s" % (cfgname(c), u["valid"], e["untouched"]["valid"]))
        acceptable = e["untouched"]["valid"] != "invalid"    # a weak-hash signature is refused as a whole; tampering is then judged on the verify component
        tab = e["table"]
        use = "accepted" if acceptable else "vaccepted"
        if c["in"].get("scope", "all") == "all":
            cmp_table(F, c, g, "sig", tab["sig"], g["sig"], "signature packet", use)
            cmp_table(F, c, g, "key", tab["key"] if acceptable else tab["keyverify"], g["key"], "key packet", use)
            cmp_table(F, c, g, "keyverify", tab["keyverify"], g["key"], "key packet (verification alone)", "vaccepted")
        objexp = dict(tab["obj"])
        if c["in"]["kind"] in ("binary", "text") and len(c["in"]["doc"]) == 0:
            objexp.pop("data", None)
        cmp_table(F, c, g, "obj", objexp, g["obj"], "signed object", use)
        return
    if op == "textcanon":
        if g.get("sign") != "ok":
            F.add("textcanon:sign", c, g, "signing the text failed"); return
        for k, (ea, ga) in enumerate(zip(e["accept"], g["accept"])):
            if ea != ga:
                F.add("textcanon:%s" % ("refused-same-text" if ea else "accepted-other-text"), c, g,
                      "text %s signed; variant %s: library %s, prescribed %s (canonical forms %s)" % (
                          c["in"]["orig"], c["in"]["variants"][k], "accepts" if ga else "refuses", "accept" if ea else "refuse",
                          "equal" if ea else "differ"))
        for k, (ea, ga) in enumerate(zip(e["accept"], g.get("accept_file", []))):
            if ea != ga:
                # the one recorded divergence: the file reader drops every carriage return at the end of a line and of the
                # document; a disagreement is attributed to it only if that rule, and nothing else, explains the verdict
                o, v = c["in"]["orig"], c["in"]["variants"][k]
                why = "trailing-cr-run" if ga == (file_canon(v) == mem_canon(o)) else ("refused-same-text" if ea else "accepted-other-text")
                F.add("textcanon-file:%s" % why, c, g,
                      "text %s signed; variant %s read from a file (Verify(key, filename)): library %s, prescribed %s (canonical forms %s)" % (
                          c["in"]["orig"], c["in"]["variants"][k], "accepts" if ga else "refuses", "accept" if ea else "refuse",
                          "equal" if ea else "differ"))
        return
    if op in ("seipd", "aead", "pkesk"):
        if g.get("encrypt") != "ok" or g.get("key") == "bad":
            F.add("%s:encrypt" % op, c, g, "encryption of %s failed: %s" % (cfgname(c), g.get("why"))); return
        if g["untouched"] != e["untouched"]:
            F.add("%s:untouched" % op, c, g, "the untouched message %s: library %s, prescribed %s" % (cfgname(c), g["untouched"], e["untouched"]))
        if not g.get("layout"):
            F.add("%s:layout" % op, c, g, "the emitted packet does not have the prescribed layout (%s)" % cfgname(c))
        if op == "aead" and g.get("ctlen") != e["ctlen"]:
            F.add("aead:ctlen", c, g, "ciphertext has %s octets, prescribed %s (%s)" % (g.get("ctlen"), e["ctlen"], cfgname(c)))
        cmp_table(F, c, g, "table", e["table"], g["table"], "packet")
        for k, es in enumerate(e.get("structs", [])):
            gs = g["structs"][k]
            if gs != es:
                st = c["in"]["structs"][k]
                F.add("%s:struct:%s:%s" % (op, st[0], gs), c, g, "structural tamper %s on %s: library %s, prescribed %s" % (st, cfgname(c), gs, es))
        return
    if op == "sesskey":
        if e["verdict"] != "any" and g.get("verdict") != e["verdict"]:
            F.add("sesskey:%s:%s" % (c["in"]["fault"], g.get("verdict")), c, g, "session key material with fault '%s': library %s, prescribed %s" % (c["in"]["fault"], g.get("verdict"), e["verdict"]))
        return
    F.add("unknown-op", c, g, "unknown op %s" % op)

def report(ck, F, seed, tier, replay_path=None):
    for key in F.order:
        c, g, what = F.bykey[key][0]
        msg = "%s[%d] (%d failing cases of this kind): %s" % (c["fam"], c["i"], len(F.bykey[key]), what)
        small = {k: v for k, v in (g or {}).items() if k not in ("sig", "key", "obj", "table")}
        if replay_path:
            ck.violation(key, msg, replay_path=replay_path)
        else:
            ck.violation(key, msg, replay_obj={"kind": "A", "seed": seed, "tier": tier, "fam": c["fam"], "i": c["i"], "op": c["op"],
                                               "config": cfgname(c), "got": small, "got_tables": {k: (g or {}).get(k) for k in ("sig", "key", "obj", "table")},
                                               "failing_cases_of_this_key": [[x[0]["fam"], x[0]["i"], cfgname(x[0])] for x in F.bykey[key]][:100]})

# ---------------------------------------------------------------------------------------------- direction B
def mem_canon(t):
    """what TextDocumentHash hashes for a text in memory: a carriage return in front of every bare line feed"""
    out = []
    for i, b in enumerate(t):
        if b == 10 and (i == 0 or t[i - 1] != 13):
            out.append(13)
        out.append(b)
    return out

def file_canon(t):
    """the rule of HashComputeFile in text mode as recorded in the finding: lines end at LF, all CRs at the end of a line
    (also of the last, unterminated one) are dropped, CR LF is written after every terminated line"""
    out, line = [], []
    for b in t:
        if b == 10:
            while line and line[-1] == 13:
                line.pop()
            out += line + [13, 10]; line = []
        else:
            line.append(b)
    while line and line[-1] == 13:
        line.pop()
    return out + line

def validate_trace(name, events):
    tf = os.path.join(ODIR, "tv-%s.ndjson" % name)
    vlib.write_ndjson(tf, events)
    r = vlib.tlc("PGPMsgTrace", "PGPMsgTrace.cfg", workers=1, env={"TRACE": tf}, timeout=1500, xmx="3g")
    if r.error or r.violation:
        raise vlib.Infra("trace validation %s: %s %s\n%s" % (name, r.error, r.violation, r.out[-1500:]))
    rep = [x for x in r.printed if isinstance(x, dict) and "rejected" in x]
    if not rep or rep[-1]["events"] != len(events):
        raise vlib.Infra("trace validation %s: the log was not consumed" % name)
    return r, rep[-1]["rejected"]

def event_key(ev, why):
    why = [w for w in why if not (w == "noncereuse" and "nonce" in why)]      # a repeated nonce is a wrong nonce; said in the text
    k = "trace:%s" % ev.get("e")
    if ev.get("e") == "VerifyHash":
        k += ":%s:v%s" % (ev.get("kind"), ev.get("v"))
    return k + ":" + ",".join(why)

def check_trace(ck, name, events):
    r, rej = validate_trace(name, events)
    ck.cov["states"] += r.distinct
    ck.cov["transitions"] += r.generated
    ck.add_traces(len(events) - len(rej))
    bykey = {}
    for x in rej:
        ev = events[x["l"] - 1]
        bykey.setdefault(event_key(ev, x["why"]), []).append((ev, x["why"]))
    if not bykey:
        return
    # a rejection is reported only if it repeats: the first rejected event of every key is validated again, alone
    keys = sorted(bykey)
    r2, rej2 = validate_trace(name + "-confirm", [bykey[k][0][0] for k in keys])
    again = {x["l"] for x in rej2}
    for n, key in enumerate(keys):
        if (n + 1) not in again:
            raise vlib.Infra("trace rejection (%s) did not repeat on the single event" % key)
        evs = [x[0] for x in bykey[key]]
        reuse = sum(1 for x in bykey[key] if "noncereuse" in x[1])
        rp = os.path.join(ODIR, "rejected-%s-%s.json" % (name, key.replace(":", "_").replace(",", "+")))
        with open(rp, "w") as f:
            json.dump({"property": PID, "key": key, "case": {"kind": "B", "event": evs[0]}}, f)
        ev = evs[0]
        if ev["e"].startswith("Aead"):
            ivs = [c["b"][-2:] for c in ev["calls"] if c["op"] == "iv"]
            what = ("%s: %d recorded %s calls are not what PGPMsg.tla prescribes (failing aspects: %s; in %d of them the SAME nonce is used for two chunks of one "
                    "message); first: cipher %d, AEAD mode %d, chunk size octet %d, %d plaintext octets, IV ..%s; last two nonce octets set per step: %s "
                    "(prescribed: IV xor step index)" % (name, len(evs), ev["e"], key.split(":")[-1], reuse, ev["sk"], ev["aead"], ev["c"], ev["n"], ev["iv"][-2:], ivs[:8]))
        else:
            what = "%s: %d recorded verifications hash something else than RFC 4880 5.2.4 prescribes (%s); first: kind %s v%s hash %s, %s octets hashed" % (
                name, len(evs), key.split(":")[-1], ev.get("kind"), ev.get("v"), ev.get("algo"), [m.get("n") for m in ev.get("md", [])])
        ck.violation(key, what, replay_path=rp)

# ---------------------------------------------------------------------------------------------- run
def sym_mc(ck, tier):
    todo = SYM if tier == "quick" else SYM_THOROUGH
    def one(x):
        cfg, holds = x
        return cfg, holds, vlib.tlc("MC_PGPMsgSym", cfg + ".cfg", workers=2 if tier == "quick" else 6, timeout=1500, xmx="4g")
    with cf.ThreadPoolExecutor(max_workers=2) as ex:
        for cfg, holds, r in ex.map(one, todo):
            if r.error:
                raise vlib.Infra("TLC %s: %s\n%s" % (cfg, r.error, r.out[-1500:]))
            ck.add_tlc(cfg, r)
            if holds and r.violation:
                raise vlib.Infra("PGPMsg.tla: the symbolic model violates TamperEvident in %s (%s) - the oracle is wrong" % (cfg, r.violation))
            if not holds and not r.violation:
                raise vlib.Infra("%s: the model with a repeating nonce schedule satisfies the invariant - it is blind to nonce reuse (vacuous)" % cfg)

def run(tier, seed):
    ck = vlib.Check(PID, tier, seed, "model_checking")
    os.makedirs(ODIR, exist_ok=True)
    for old in os.listdir(ODIR):
        if old.startswith(("violation-", "rejected-", "trace-", "cases-", "got-", "tv-")):
            os.unlink(os.path.join(ODIR, old))
    exe = vlib.build_driver("drv_msg", extra_src=["seam_rng.cc"])
    vlib.log("build done at %.0fs" % (time.time() - ck.t0))
    quick = tier == "quick"
    results = {}
    symex = cf.ThreadPoolExecutor(max_workers=1)
    symfut = symex.submit(sym_mc, ck, tier)               # the exhaustive symbolic model runs beside everything else
    with cf.ThreadPoolExecutor(max_workers=6) as ex:
        futs = {}
        for gi, (grp, w, workers, hi) in enumerate(groups(tier)):
            futs[ex.submit(gen_group, grp, 0, hi, w, workers, seed, "-%d" % gi)] = ("gen", grp)
        for fu in cf.as_completed(futs):
            kind, grp = futs[fu]
            r = fu.result()
            ck.add_tlc("tlc-" + grp, r)
            if r.violation:
                raise vlib.Infra("PGPMsg.tla theorem violated in group %s (%s); see %s" % (grp, r.violation, os.path.join(OUT, "tlc")))
            recs = [x for x in r.printed if isinstance(x, dict) and "fam" in x and "c" in x]
            if len(recs) != r.distinct or not recs:
                raise vlib.Infra("group %s: %d cases printed for %d states" % (grp, len(recs), r.distinct))
            n = {}
            for x in recs:
                c = x["c"]; c["fam"] = x["fam"]
                results.setdefault(c["fam"], []).append(c)
                n[c["fam"]] = n.get(c["fam"], 0) + 1
            vlib.log("group %-6s %s (TLC %.0fs) at %.0fs" % (grp, " ".join("%s=%d" % kv for kv in sorted(n.items())), r.wall, time.time() - ck.t0))
    vlib.log("generation done at %.0fs" % (time.time() - ck.t0))
    # ---- A: the real code on every case, in parallel driver processes (each generates the same keys from the seed)
    allc = [c for f in sorted(results) for c in sorted(results[f], key=lambda c: c["i"])]
    weight = {"sig": 6, "sigq": 6, "sigx": 6, "aead": 4, "aeadq": 4, "aeadx": 6, "textcanon5": 40, "doclen": 1, "doclenq": 1, "seipd": 1, "pkesk": 8, "valid": 0.01, "sesskey": 0.1, "textcanon3": 2, "textcanon4": 12}
    nproc = 10 if quick else 14
    bins = [[0.0, []] for _ in range(nproc)]
    for c in sorted(allc, key=lambda c: -weight.get(c["fam"], 1)):
        b = min(bins, key=lambda b: b[0]); b[0] += weight.get(c["fam"], 1); b[1].append(c)
    got, events = {}, []
    with cf.ThreadPoolExecutor(max_workers=nproc) as ex:
        for g, ev in ex.map(lambda kb: run_cases(exe, kb[1][1], "p%d" % kb[0], seed, tier), [kb for kb in enumerate(bins) if kb[1][1]]):
            got.update(g); events += ev
    vlib.log("driver done at %.0fs (%d cases, %d recorded events)" % (time.time() - ck.t0, len(got), len(events)))
    F = Findings()
    for c in allc:
        compare(F, c, got[(c["fam"], c["i"])])
    report(ck, F, seed, tier)
    nalt = 0
    for c in allc:
        g = got[(c["fam"], c["i"])]
        for tab in ("sig", "key", "obj", "table"):
            for cls, t in (g.get(tab) or {}).items():
                nalt += t["n"]
        nalt += len(g.get("structs", [])) + len(g.get("accept", []))
    def nontrivial(c):
        g = got[(c["fam"], c["i"])]
        if c["op"] == "valid":
            return c["exp"]["valid"] != "any"                  # a definite verdict was compared
        return g.get("sign") == "ok" or g.get("encrypt") == "ok"   # a real signature / ciphertext was made and attacked
    for f, cs in results.items():
        ck.add_cases(f, len(cs), [json.dumps([c["fam"], c["i"]]) for c in cs if nontrivial(c)])
    ck.cov["evaluations"] += nalt
    ck.part("alterations", verdicts_of_the_real_code_compared=nalt)
    # ---- B: recorded cipher calls and verification hash inputs
    kinds = {}
    for e in events:
        kinds[e["e"]] = kinds.get(e["e"], 0) + 1
    for k in ("AeadEnc", "AeadDec", "VerifyHash"):
        if not kinds.get(k):
            raise vlib.Infra("no %s event recorded (vacuous trace)" % k)
    check_trace(ck, "rec", events)
    ck.part("trace-events", **kinds)
    vlib.log("trace validation done at %.0fs" % (time.time() - ck.t0))
    symfut.result(); symex.shutdown()
    vlib.log("symbolic model checking done at %.0fs" % (time.time() - ck.t0))
    # samples
    for f in ("sigq", "sigx", "aeadq", "aeadx", "seipd", "pkesk", "valid"):
        cs = results.get(f) or []
        if cs:
            c = cs[min(len(cs) - 1, 5)]
            g = got[(c["fam"], c["i"])]
            ck.sample({"family": f, "i": c["i"], "config": cfgname(c) or c["in"], "expected": {k: v for k, v in c["exp"].items() if k != "structs"},
                       "library": {k: (v if not isinstance(v, str) or len(v) < 200 else v[:200] + "...") for k, v in g.items()}}, limit=7)
    ck.cov["rule"] = ("TLC: exhaustive attacker model (MC_PGPMsgSym, up to 3-4 alterations of a symbolic signed object / SEIPD / AEAD message) + one "
                      "state per case of the families %s with the verdict of every tamper class computed from PGPMsg.tla; the real code is run on every "
                      "octet x mask of every region of every case (evaluations = number of cases + number of verdicts of altered inputs compared). A case is "
                      "non-trivial when a real signature / ciphertext was produced by the library and attacked (for the family valid: when the prescribed "
                      "verdict is definite); distinct = distinct (family, index). B: recorded AEAD cipher calls and verification hash inputs "
                      "validated by PGPMsgTrace.tla." % ", ".join(sorted(results)))
    ck.cov["exhaustive"] = False
    ck.cov["exhaustive_parts"] = ["every octet of every signature packet, key packet, signed object, SEIPD / AEAD / PKESK packet of the enumerated "
                                  "configurations is altered with the masks %s" % masks(tier),
                                  "validity rules: every boundary +-1 second x 13 hash ids x 4 contents of the unhashed subpacket area (10400 cases)",
                                  "all texts over {a, CR, LF} up to length %d as original x as variant" % (3 if quick else 5),
                                  "symbolic attacker model: all alteration sequences up to the configured depth"]
    ck.assumptions += ["hash functions, public-key schemes, block ciphers and AEAD modes are ideal (symbolic) in the specification; the driver uses the real ones with small keys (RSA-1024, DSA-1024/160, ElGamal-1024, P-256, Ed25519, P-384)",
                       "DSA / ECDSA nonces, PKCS#1 encryption padding and ECDH ephemeral keys come from libgcrypt's internal random source, which cannot be interposed; verdicts do not depend on them, violation artefacts contain the concrete octets",
                       "no cross-check with GnuPG (not part of this technique)",
                       "the unhashed subpacket area, MPI bit counts and the instant 'creation + expiration' are not claimed (verdict 'any')"]
    return ck.finish()

# ---------------------------------------------------------------------------------------------- replay
def replay(path, seed):
    ck = vlib.Check(PID, "quick", seed, "model_checking")
    os.makedirs(ODIR, exist_ok=True)
    exe = vlib.build_driver("drv_msg", extra_src=["seam_rng.cc"])
    obj = json.load(open(path))
    case = obj.get("case", obj)
    if case.get("kind") == "B":
        check_trace(ck, "replay", [case["event"]])
    else:
        sd, tier = case.get("seed", seed), case.get("tier", "quick")
        r = gen_group("One_" + case["fam"], case["i"], case["i"], 1, 1, sd, "-replay")
        ck.add_tlc("tlc-" + case["fam"], r)
        cs = [dict(x["c"], fam=x["fam"]) for x in r.printed if isinstance(x, dict) and "c" in x]
        if len(cs) != 1:
            raise vlib.Infra("replay: TLC printed %d cases" % len(cs))
        got, events = run_cases(exe, cs, "replay", sd, tier)
        F = Findings()
        compare(F, cs[0], got[(cs[0]["fam"], cs[0]["i"])])
        report(ck, F, sd, tier, replay_path=path)
    vlib.log("%s replay: states=%d traces=%d violations=%d" % (PID, ck.cov["states"], ck.cov["traces_validated_against_impl"], ck.violations))
    return 1 if ck.violations else 0
