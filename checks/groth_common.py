"""Groth's shuffle arguments (GrothSKC, GrothVSSHE; spec/Groth.tla): the algebra part of C03 C04 C05.

  MC : spec/MC_Groth.tla - the prover operator against the verifier predicate of spec/Groth.tla in the groups
       p=23,q=11 and p=47,q=23, n = 2, 3, explored by TLC: completeness for all permutations and challenges (the
       refusals by design computed: f_i too short, Z = 0, e = 0), the exact accepting challenge set of every false
       statement of the catalogue and its measure against the bound of the paper, binding of every transmitted value
       (catalogue x position: accepted only when equivalent or on a computed coincidence set), equivalence of the
       implementation's optimised inner commitment with the paper's.
  B  : harness/drv_groth.cc runs the REAL prover against the REAL verifier in all six forms (SKC / VSSHE x interactive,
       public coin, non-interactive) in small groups, part "C03" honest, "C04" false statements with the prover
       running the honest algorithm on a non-fitting witness, "C05" one transmitted line or one public input changed;
       spec/GrothTrace.tla recomputes every transmitted value from the logged coins and the verdict from what the
       verifier was given (coincidental accepts of these groups included) and states the properties as invariants.
"""
import os, json, collections, concurrent.futures as cf
import vlib, tracecheck
from vlib import OUT

FORMS = ["skc_i", "skc_pc", "skc_ni", "vsshe_i", "vsshe_pc", "vsshe_ni"]
# exhaustive configurations per part and tier (spec/MC_Groth_<name>.cfg)
MC = {
    "C03": {"quick": ["c03_skc2q", "c03_v2q"], "thorough": ["c03_skc2q", "c03_v2q"]},
    "C04": {"quick": ["c04_skc2q", "c04_v2q"], "thorough": ["c04_skc2q", "c04_v2q"]},
    "C05": {"quick": ["c05_skc2q", "c05_v2q", "c05_gap"], "thorough": ["c05_skc2q", "c05_v2q", "c05_v2", "c05_gap"]},
}
# written but NOT yet run to completion (builder ran out of time; add them to the thorough lists after a first run):
#   c03_skc2 c03_skc3 c03_skc2_47 c03_v2 c03_v3 c03_v2_47 / c04_skc2 c04_skc3 c04_skc2_47 c04_v2 c04_v3 c04_v2_47 /
#   c05_skc3 c05_skc2_47 c05_v2_47 c05_v3 c05_gap_v   (n = 3, p = 47, l_e = 2 variants of the same theorems)
# negative controls: the same theorem for the verifier of the tree before the repair of TestMembership (mode RangeM):
# TLC has to find the accepted commitment outside the subgroup
MUST_FAIL = {"c05_gap", "c05_gap_v"}
NEXEC = {"quick": 180, "thorough": 6000}
NEXEC_C05 = {"quick": 252, "thorough": 6000}        # the first 132 executions of C05 are the directed guard catalogue

def classify(ev, r):
    v = r.violation or ""
    if "C05_Member" in v:
        return "groth:C05:commitment-outside-subgroup-accepted"
    if "C03_Complete" in v:
        return "groth:C03:honest-proof-refused-or-bad-coins-accepted"
    if "C03_NoExc" in v:
        return "groth:C03:honest-run-ends-in-exception"
    return "groth:trace-rejected:" + str(ev.get("e"))

def run_mc_one(tier, name):
    cfg = "MC_Groth_%s.cfg" % name
    if not os.path.exists(os.path.join(vlib.SPEC, cfg)):
        raise vlib.Infra("missing configuration %s" % cfg)
    r = vlib.tlc("MC_Groth", cfg, workers=4 if tier == "quick" else 6, timeout=900 if tier == "quick" else 3000, xmx="4g")
    if r.error:
        raise vlib.Infra("TLC MC_Groth %s: %s" % (name, r.error))
    return name, r

def start_mc(tier, part):
    ex = cf.ThreadPoolExecutor(max_workers=3)
    return ex, [ex.submit(run_mc_one, tier, name) for name in MC[part][tier]]

def finish_mc(ck, futs):
    for f in futs:
        name, r = f.result()
        ck.add_tlc("MC_Groth_" + name, r)
        if name in MUST_FAIL:
            if not r.violation:
                raise vlib.Infra("negative control MC_Groth %s: the range-only membership test was not found wanting" % name)
            continue
        if r.violation:
            # a theorem of the specification fails: the model itself is wrong - never to be ignored
            ck.violation("groth:model:%s" % name, "MC_Groth %s: %s" % (name, r.violation),
                         replay_path=os.path.join(OUT, "tlc", "MC_Groth-MC_Groth_%s.cfg.log" % name))
        if r.distinct < 2:
            raise vlib.Infra("MC_Groth %s explored nothing" % name)

def record(pid, part, seed, nexec):
    exe = vlib.build_driver("drv_groth", extra_src=["seam_rng.cc"])
    d = os.path.join(OUT, pid); os.makedirs(d, exist_ok=True)
    tf = os.path.join(d, "groth-%s.ndjson" % part)
    rc, so, se, wall = vlib.run_driver(exe, ["record", seed, nexec, part, tf], timeout=3000)
    if rc != 0:
        raise vlib.Infra("drv_groth failed rc=%s %s %s" % (rc, so[-300:], se[-300:]))
    return tracecheck.split_executions(tf)

def census(ck, part, execs):
    """coverage keys and vacuity guards (counts only; verdicts are the trace specification's)"""
    cnt = collections.Counter(); keys = []
    for x in execs:
        r, ve = x[0], x[2]
        what = r["what"].split(":")[0] if r["kind"] == "pub" else r["what"]
        cnt[(r["form"], r["kind"], ve["res"])] += 1
        cnt[(r["kind"], ve["res"])] += 1
        keys.append(json.dumps([r["form"], r["n"], r["le"], r["grp"][0], r["kind"], what, r.get("pos"), r["applied"], ve["res"]]))
    ck.add_cases("groth-" + part, len(execs), keys)
    ck.part("groth-" + part, verdicts={"%s/%s" % k: v for k, v in sorted(cnt.items()) if len(k) == 2})
    if part == "C03":
        for f in FORMS:
            if cnt[(f, "honest", "accept")] == 0:
                raise vlib.Infra("no accepted honest execution of form %s" % f)
    elif part == "C04":
        for f in FORMS:
            if cnt[(f, "false", "reject")] == 0:
                raise vlib.Infra("no refused false statement of form %s" % f)
    else:
        if cnt[("mut", "reject")] == 0 or cnt[("pub", "reject")] == 0:
            raise vlib.Infra("no refused mutation / public-input change")
    return cnt

def run(ck, pid, tier, seed, part, nexec=None, mc=True):
    assert part in ("C03", "C04", "C05")
    exe = vlib.build_driver("drv_groth", extra_src=["seam_rng.cc"])      # before TLC takes the cores
    pool, futs = start_mc(tier, part) if mc else (None, [])
    try:
        execs = record(pid, part, seed, nexec or (NEXEC_C05 if part == "C05" else NEXEC)[tier])
        census(ck, part, execs)
        for x in execs[:2]:
            ck.sample({"form": x[0]["form"], "kind": x[0]["kind"], "what": x[0]["what"], "n": x[0]["n"], "grp": x[0]["grp"], "sent": x[1]["sent"][:8], "res": x[2]["res"]})
        n = tracecheck.validate(ck, pid, "groth-" + part, "GrothTrace", "GrothTrace.cfg", execs, classify=classify,
                                chunks=6 if tier == "quick" else 12)
        finish_mc(ck, futs)
    finally:
        if pool:
            pool.shutdown(wait=True)
    if n == 0:
        raise vlib.Infra("no execution of the Groth arguments was validated")
    return n

def replay(ck, pid, path):
    return tracecheck.validate(ck, pid, "groth-replay", "GrothTrace", "GrothTrace.cfg", tracecheck.split_executions(path), classify=classify, chunks=1)
