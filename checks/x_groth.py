"""scratch check for the Groth algebra module (checks/groth_common.py) before it is wired into C03 C04 C05.
VERIF_GROTH_PARTS=C03,C05 restricts the parts; VERIF_GROTH_MC=0 skips the exhaustive part."""
import os
import vlib, groth_common
PID = "X_GROTH"
def run(tier, seed):
    ck = vlib.Check(PID, tier, seed, "model_checking")
    parts = os.environ.get("VERIF_GROTH_PARTS", "C03,C04,C05").split(",")
    mc = os.environ.get("VERIF_GROTH_MC", "1") != "0"
    for part in parts:
        groth_common.run(ck, PID, tier, seed, part, mc=mc)
    ck.cov["rule"] = "MC_Groth exhaustive in p=23/47; recorded executions of the real GrothSKC / GrothVSSHE classes validated by GrothTrace; a case is a distinct (form, n, l_e, group, kind, edit, position, verdict) tuple"
    return ck.finish()
def replay(path, seed):
    ck = vlib.Check(PID, "quick", seed, "model_checking")
    groth_common.replay(ck, PID, path)
    return ck.finish()
