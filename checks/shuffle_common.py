"""shuffle / rotation arguments (Groth, de Hoogh et al.): part of C03 C04 C05"""
import os, json, concurrent.futures as cf
import vlib
from vlib import OUT
def run(ck, pid, tier, seed, which):
    """which: predicate on a case selecting the part relevant for the property"""
    exe = vlib.build_driver("drv_shuffle", extra_src=["seam_rng.cc"])
    r = vlib.tlc("Shuffle", "Shuffle.cfg", workers=1, timeout=600, xmx="2g", env={"TIER": tier})
    if r.error or r.violation:
        raise vlib.Infra("TLC Shuffle: %s %s" % (r.error, r.violation))
    ck.add_tlc("Shuffle", r)
    cases = [dict(c, seed=seed) for c in r.printed if isinstance(c, dict) and "variant" in c and which(c)]
    if not cases:
        raise vlib.Infra("no shuffle cases")
    d = os.path.join(OUT, pid); os.makedirs(d, exist_ok=True)
    nchunks = 8
    parts = [cases[k::nchunks] for k in range(nchunks)]
    def one(k):
        cp = os.path.join(d, "shuf-cases-%d.ndjson" % k); rp = os.path.join(d, "shuf-res-%d.ndjson" % k)
        vlib.write_ndjson(cp, parts[k])
        rc, so, se, _ = vlib.run_driver(exe, ["run", cp, rp], timeout=3000)
        if rc != 0:
            raise vlib.Infra("drv_shuffle failed rc=%s %s %s" % (rc, so[-300:], se[-300:]))
        res = vlib.read_ndjson(rp); os.unlink(cp); os.unlink(rp)
        return res
    with cf.ThreadPoolExecutor(max_workers=nchunks) as ex:
        results = [x for part in ex.map(one, range(nchunks)) for x in part]
    keys = []
    for x in results:
        if x.get("note") == "n/a":
            continue
        ok = (x["verdict"] == "accept") if x["expect"] == "accept" else (x["verdict"] in ("reject", "exception"))
        ident = json.dumps([x["variant"], x["n"], x["stmt"], x.get("mut"), x.get("pos"), x.get("line"), x.get("pub")])
        keys.append(ident)
        if not ok:
            kind = "honest-rejected" if x["expect"] == "accept" else ("false-statement-accepted" if x["stmt"] != "true" else
                    ("public-input-change-accepted:" + x["pub"] if x.get("pub") else "mutated-transcript-accepted:" + str(x.get("mut"))))
            ck.violation("shuffle:%s:%s" % (x["variant"], kind), "shuffle argument: expected %s, the real verifier said %s for %s" % (x["expect"], x["verdict"], ident), replay_obj=x)
    ck.add_cases("shuffle-arguments", len(results), keys)
    ck.sample(results[0])
    return len(results)
