"""Protocol-level model of the GJKR distributed key generation (spec/GJKR.tla) and its binding to
GennaroJareckiKrawczykRabinDKG::Generate / Reconstruct:
  * MC_GJKR: exhaustive exploration (n = 3, t = 1, one deviating party with every catalogued deviation), simulation for n = 4;
  * GJKRTrace: message-level validation of recorded runs of n real objects (harness/drv_gjkr.cc).
Entry point for the property checks: run(ck, pid, tier, seed).  Python only moves data: every verdict is TLC's."""
import os, re, json, concurrent.futures as cf
import vlib, tracecheck
from vlib import OUT

# the four calls Generate() makes on the (non-virtual) reliable broadcast class are redirected to harness/gjkr_log.hh
WRAP = ["_ZN28CachinKursawePetzoldShoupRBC9BroadcastEPK12__mpz_structb",
        "_ZN28CachinKursawePetzoldShoupRBC11DeliverFromEP12__mpz_structmml",
        "_ZN28CachinKursawePetzoldShoupRBC5setIDERKNSt7__cxx1112basic_stringIcSt11char_traitsIcESaIcEEEb",
        "_ZN28CachinKursawePetzoldShoupRBC7unsetIDEb"]

def driver():
    return vlib.build_driver("drv_gjkr", extra_src=["seam_rng.cc", "seam_clock.cc"], extra_flags=["-Wl,--wrap=" + s for s in WRAP])

# ------------------------------------------------------------------------------------------------ findings
# Directed executions that every run repeats.  Each showed a defect of Generate() on the tree this part was built on (repaired
# since: /repo commits bef5e98 and c405eb8); they are judged by the strict specification like every other execution, nothing is
# tolerated.  A rejection is named by recognise() - one of the two keys below only if the log shows exactly that history.
KEY_UNANSWERED = "gjkr-unanswered-complaint-dealer-stays-qualified"
KEY_STALE = "gjkr-stale-share-image-after-adoption"
TRIGGERS = [
    (KEY_STALE, {"n": 3, "t": 1, "gi": 3, "role": [7, 0, 0], "seed": 5, "devs": [{"op": "share", "to": 1, "ds": 1, "dsp": 0}]},
     "dealer P0 hands P1 a wrong share and answers P1's complaint correctly; P1 adopts the published pair"),
    (KEY_UNANSWERED, {"n": 3, "t": 1, "gi": 3, "role": [7, 0, 0], "seed": 5,
                      "devs": [{"op": "share", "to": 1, "ds": 1, "dsp": 0}, {"op": "noans", "who": 1}]},
     "dealer P0 hands P1 a wrong share and publishes only the end marker in the answer round"),
    # the consequences at larger n: the same two deviations with t = 2 next to a party using the library's own switch
    (KEY_STALE, {"n": 5, "t": 2, "gi": 0, "role": [0, 7, 0, 0, 1], "seed": 77, "devs": [{"op": "share", "to": 2, "ds": 3, "dsp": 0}]},
     "n = 5, t = 2: wrong share to P2 answered correctly, P4 with the library's faulty switch"),
    (KEY_UNANSWERED, {"n": 4, "t": 1, "gi": 4, "role": [0, 0, 7, 0], "seed": 78,
                      "devs": [{"op": "share", "to": 3, "ds": 0, "dsp": 2}, {"op": "silent", "ph": "N"}]},
     "n = 4: wrong s' to P3, then silence from the answer round on (no end marker either: the dealer is disqualified for that)"),
    # t = 3: a polynomial reconstructed from four shares (reached by the random executions of the thorough tier only)
    ("gjkr-directed", {"n": 7, "t": 3, "gi": 0, "role": [0, 0, 7, 0, 0, 0, 0], "seed": 79, "devs": [{"op": "badA", "k": 2, "mode": "mul"}]},
     "n = 7, t = 3: P2 broadcasts a wrong A_22; its polynomial is reconstructed in public"),
]

def _complaints(x):
    """(complainer -> dealer) pairs and the answers each dealer published, read off the broadcasts of an execution"""
    n = x[0]["n"]; compl = set(); ans = {}; state = {}
    for e in x:
        if e.get("e") != "B" or e.get("ch") != [-1]:
            continue
        i, v, ph = e["i"], e["v"], e.get("ph")
        if ph == "K" and 0 <= v < n:
            compl.add((i, v))
        if ph == "N":
            f = state.get(i, 0)
            if f == 0:
                if 0 <= v < n:
                    ans.setdefault(i, set()).add(v); state[i] = 1
            else:
                state[i] = (f + 1) % 3
    return compl, ans

def recognise(x, err, ev):
    """label of a rejected execution (the verdict is TLC's; this only names it)"""
    role = x[0]["role"]; n, t = x[0]["n"], x[0]["t"]
    compl, ans = _complaints(x)
    cnt = {}
    for (c, d) in compl:
        cnt[d] = cnt.get(d, 0) + 1
    unanswered = [(c, d) for (c, d) in compl if role[c] == 0 and cnt.get(d, 0) <= t and c not in ans.get(d, set())]
    adopted = [(c, d) for (c, d) in compl if role[c] == 0 and cnt.get(d, 0) <= t and c in ans.get(d, set())]
    if err.startswith("msg:rdX") and ev.get("e") == "B" and any(c == ev.get("i") and d == ev.get("v") for (c, d) in adopted):
        return KEY_STALE
    if unanswered and (err.startswith("reads:rdA") or err.startswith("done:") or err.startswith("msg:rdA") or err.startswith("property:")):
        return KEY_UNANSWERED
    return "gjkr:" + err

# ------------------------------------------------------------------------------------------------ trace validation
CFG = "GJKRTrace.cfg"

def _tlc_trace(tracefile, timeout=1800):
    r = vlib.tlc("GJKRTrace", CFG, workers=1, env={"TRACE": tracefile}, timeout=timeout, xmx="4g")
    if r.error:
        raise vlib.Infra("trace validation GJKRTrace on %s: %s" % (tracefile, r.error))
    return r

def _where(r):
    """(event number, reason) of a rejection"""
    ls = re.findall(r"^/\\ l = (\d+)", r.out, re.M)
    errs = re.findall(r'^/\\ err = "([^"]*)"', r.out, re.M)
    if ls and errs and errs[-1]:
        return int(ls[-1]), errs[-1]
    return (r.depth or 1), "not-consumed"

def validate(ck, pid, tag, execs, chunks=6, fixed_keys=None):
    """execs: list of executions (lists of events, each starting with its Reset).  Every execution is judged; returns the number accepted."""
    d = os.path.join(OUT, pid, "gjkr"); os.makedirs(d, exist_ok=True)
    if not execs:
        return 0
    chunks = max(1, min(chunks, len(execs)))
    parts = [list(range(k, len(execs), chunks)) for k in range(chunks)]
    def one(k):
        todo = parts[k]; bad = []; states = 0; nrun = 0
        while todo:
            tf = os.path.join(d, "%s-%d.ndjson" % (tag, k))
            vlib.write_ndjson(tf, [e for ix in todo for e in execs[ix]])
            r = _tlc_trace(tf); states += r.distinct; nrun += 1
            if r.ok():
                break
            pos, err = _where(r)
            acc, idx = 0, len(todo) - 1
            for j, ix in enumerate(todo):
                if acc + len(execs[ix]) >= pos:
                    idx = j; break
                acc += len(execs[ix])
            bad.append(todo[idx]); todo = todo[idx + 1:]
        return bad, states
    accepted, nviol = len(execs), 0
    with cf.ThreadPoolExecutor(max_workers=chunks) as ex:
        results = list(ex.map(one, range(chunks)))
    for bad, states in results:
        ck.cov["states"] += states; ck.cov["transitions"] += states
        for ix in bad:
            x = execs[ix]
            tf = os.path.join(d, "%s-single-%d.ndjson" % (tag, ix))
            vlib.write_ndjson(tf, x)
            r2 = _tlc_trace(tf)
            if r2.ok():
                raise vlib.Infra("trace rejection did not repeat on the single execution (%s %s #%d)" % (pid, tag, ix))
            pos, err = _where(r2)
            ev = x[pos - 1] if 0 < pos <= len(x) else {}
            key = (fixed_keys or {}).get(ix) or recognise(x, err, ev)
            rp = os.path.join(OUT, pid, "rejected-gjkr-%s-%d.ndjson" % (tag, nviol))
            vlib.write_ndjson(rp, x)
            cfgs = {k2: x[0].get(k2) for k2 in ("n", "t", "gi", "g", "h", "role", "devs", "seed", "rnd", "trbc")}
            what = ("%s: the log of the real GennaroJareckiKrawczykRabinDKG::Generate is not a behaviour of GJKR.tla: %s at event #%d %s; "
                    "execution: drv_gjkr one '%s'" % (tag, err, pos, json.dumps({k2: v for k2, v in ev.items() if k2 != "log"})[:400], json.dumps(cfgs)))
            ck.violation(key, what, replay_path=rp)
            accepted -= 1; nviol += 1
    ck.add_traces(accepted)
    return accepted

def record(pid, tag, args, timeout=3000):
    exe = driver()
    d = os.path.join(OUT, pid, "gjkr"); os.makedirs(d, exist_ok=True)
    tp = os.path.join(d, "rec-%s.ndjson" % tag)
    rc, so, se, _ = vlib.run_driver(exe, list(args) + [tp], timeout=timeout)
    if rc != 0:
        raise vlib.Infra("drv_gjkr failed (%s): %s %s" % (rc, so[-300:], se[-300:]))
    x = tracecheck.split_executions(tp); os.unlink(tp)
    return x

def run_traces(ck, pid, nexec, seed, maxn, chunks=4, rec_jobs=8):
    """the directed (trigger) executions and nexec recorded random executions, validated together"""
    driver()
    per = max(1, nexec // rec_jobs) if nexec else 0
    def rec(k):
        if k < len(TRIGGERS):
            return record(pid, "trigger-%d" % k, ["one", json.dumps(TRIGGERS[k][1])])
        exe = driver()
        d = os.path.join(OUT, pid, "gjkr"); os.makedirs(d, exist_ok=True)
        tp = os.path.join(d, "rec-run-%d.ndjson" % k)
        rc, so, se, _ = vlib.run_driver(exe, ["run", seed * 100 + k, per, tp, maxn], timeout=3000)
        if rc != 0:
            raise vlib.Infra("drv_gjkr failed (%s): %s %s" % (rc, so[-300:], se[-300:]))
        x = tracecheck.split_executions(tp); os.unlink(tp)
        return x
    jobs = list(range(len(TRIGGERS))) + ([len(TRIGGERS) + k for k in range(rec_jobs)] if per else [])
    with cf.ThreadPoolExecutor(max_workers=8) as ex:
        parts = list(ex.map(rec, jobs))
    trig = [x for part in parts[:len(TRIGGERS)] for x in part]
    rnd = [x for part in parts[len(TRIGGERS):] for x in part]
    if len(trig) != len(TRIGGERS):
        raise vlib.Infra("trigger executions: %d recorded" % len(trig))
    execs = trig + rnd
    if not execs:
        raise vlib.Infra("no execution recorded")
    n = validate(ck, pid, "exec", execs, chunks=chunks)
    keys, nontrivial, kinds = [], [], {}
    for x in execs:
        r0 = x[0]
        k = json.dumps([r0["n"], r0["t"], r0["grp"], r0["role"], r0["devs"], r0["seed"]])
        keys.append(k)
        if any(e.get("e") == "Done" and e.get("ret") for e in x):
            nontrivial.append(k)
        label = "+".join(sorted(d["op"] for d in r0["devs"])) or ("lib-switch" if 1 in r0["role"] else "none")
        kinds[label] = kinds.get(label, 0) + 1
    ck.add_cases("gjkr-recorded", len(execs), nontrivial)
    ck.part("gjkr-recorded", directed=len(trig), random=len(rnd), deviations=kinds, events=sum(len(x) for x in execs), accepted=n)
    x = next((x for x in execs if x[0]["devs"]), execs[0])
    ck.sample({"gjkr_reset": {k: v for k, v in x[0].items() if k != "e"}, "events": len(x),
               "first_result": {k: v for k, v in next(e for e in x if e["e"] == "Done").items() if k not in ("C", "log")}})
    return n

# ------------------------------------------------------------------------------------------------ model checking
def _mc(ck, name, cfg, expect_violation=None, workers=4, timeout=900, simulate=None, depth=None, seed=None):
    r = vlib.tlc("MC_GJKR", cfg, workers=workers, timeout=timeout, xmx="4g", simulate=simulate, depth=depth, seed=seed)
    if r.error:
        raise vlib.Infra("TLC %s: %s" % (cfg, r.error))
    ck.add_tlc(name, r)
    if expect_violation is None:
        if r.violation:
            ck.violation("model:" + name, "GJKR.tla (definition) violates the property in %s: %s" % (cfg, r.violation),
                         replay_path=os.path.join(vlib.OUT, "tlc", "MC_GJKR-%s.log" % cfg))
    else:
        # a configuration that MUST fail: the pinned behaviour of Generate() (the model sees the defect), or a reachability guard
        if not r.violation or expect_violation not in r.violation:
            raise vlib.Infra("vacuity: %s was expected to violate %s, TLC says: %s" % (cfg, expect_violation, r.violation))
    return r

def model_jobs(tier, seed):
    q = tier == "quick"
    jobs = []
    if q:
        jobs.append(dict(name="MC_GJKR_q5s", cfg="MC_GJKR_q5s.cfg", workers=4))
    else:
        jobs += [dict(name="MC_GJKR_q5", cfg="MC_GJKR_q5.cfg", workers=6, timeout=2400),
                 dict(name="MC_GJKR_q11", cfg="MC_GJKR_q11.cfg", workers=6, timeout=2400),
                 dict(name="MC_GJKR_q5_free", cfg="MC_GJKR_q5_free.cfg", workers=2, timeout=2400),
                 dict(name="SIM_GJKR_n4", cfg="SIM_GJKR_n4.cfg", workers=4, simulate=3000, depth=60, seed=seed, timeout=2400)]
        for g in ("Reach_Disqualified", "Reach_Reconstruction", "Reach_Adoption"):
            jobs.append(dict(name="MC_GJKR_" + g, cfg="MC_GJKR_%s.cfg" % g, expect_violation=g, workers=2))
    # the model is able to see what it is meant to see: with the two departures from the definition that the pinned
    # Generate() had (findings KEY_UNANSWERED, KEY_STALE) the invariants must fail
    jobs.append(dict(name="MC_GJKR_pinned_noanswer", cfg="MC_GJKR_pinned_noanswer.cfg", expect_violation="Inv_", workers=2))
    jobs.append(dict(name="MC_GJKR_pinned_stale", cfg="MC_GJKR_pinned_stale.cfg", expect_violation="Inv_HonestNotReconstructed", workers=2))
    return jobs

def run_model(ck, pid, tier, seed, pool=None):
    jobs = model_jobs(tier, seed)
    own = pool is None
    pool = pool or cf.ThreadPoolExecutor(max_workers=len(jobs))
    futs = [pool.submit(lambda j=j: _mc(ck, **j)) for j in jobs]
    if own:
        for f in futs:
            f.result()
        pool.shutdown()
    return futs

def run(ck, pid, tier, seed, model=True):
    """the lead calls this from the property checks (C15; C16 uses the key of the same protocol)"""
    q = tier == "quick"
    with cf.ThreadPoolExecutor(max_workers=12) as pool:
        futs = run_model(ck, pid, tier, seed, pool) if model else []
        run_traces(ck, pid, 32 if q else 1200, seed, 5 if q else 7, chunks=6 if q else 8)
        for f in futs:
            f.result()
    ck.assumptions += ["GJKR protocol model: reliable broadcast abstracted to per-sender FIFO streams that all parties read identically (property C14); "
                       "synchrony: a party reads a phase after every live party has sent it; the adversary rewrites the messages of one party "
                       "(catalogue of MC_GJKR.tla), never opens a commitment in two ways",
                       "GJKR traces: groups p <= 46337, n <= 5 (quick) / 7 (thorough); deviating parties rewrite WHAT they broadcast, not how the broadcast works"]

def replay(ck, pid, path):
    return validate(ck, pid, "replay", tracecheck.split_executions(path), chunks=1)
