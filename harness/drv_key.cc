// drv_key: drives TMCG_SecretKey / TMCG_PublicKey (Rabin keys: PRab signatures, SAEP encryption, NIZK validity proof)
// for property C10.  The driver only executes the library and reports raw results plus *projections* of the presented
// texts (field structure, key-id text, identity of every number modulo m and of its square - computed here with GMP,
// never with the functions under test); expectations come from spec/RabinKey.tla (MC_RabinKey enumerates the cases,
// RabinKeyTrace re-computes every verdict from the logged projections).
//   drv_key genkeys <seed> <out.ndjson> <name:size:nizk>...     generate keys with seeded coins
//   drv_key run <keys.ndjson> <cases.ndjson> <trace.ndjson> <seed>
//   drv_key toy <cases.ndjson> <results.ndjson>                 square roots / residuosity in small Blum integers
//   drv_key sizes <seed> <out.ndjson> <size>...                 generate+sign+verify+encrypt+decrypt per key size (forked)
#include "common.hh"
#include <algorithm>
#include <functional>
#include <chrono>
#include <sys/wait.h>
#include <fcntl.h>
#define private public
#define protected public
#include "libTMCG.hh"
#undef private
#undef protected

// ---------------------------------------------------------------- identities and texts
static std::string sha1hex(const std::string &s, size_t n = 12) {
	unsigned char d[20]; gcry_md_hash_buffer(GCRY_MD_SHA1, d, s.data(), s.size());
	static const char *hx = "0123456789abcdef"; std::string o;
	for (size_t i = 0; i < 20 && o.size() < n; i++) { o.push_back(hx[d[i] >> 4]); o.push_back(hx[d[i] & 15]); }
	return o.substr(0, n);
}
static std::string nid(mpz_srcptr x) { return "n" + sha1hex(mpz2s(x, 16)); }        // identity of an integer
static std::string did(const std::string &s) { return "d" + sha1hex(s); }            // identity of a byte string
static std::string b62(mpz_srcptr x) { return mpz2s(x, TMCG_MPZ_IO_BASE); }
static json codes(const std::string &s) { json a = json::array(); for (unsigned char c : s) a.push_back((int)c); return a; }
static std::string hexs(const unsigned char *p, size_t n) {
	static const char *hx = "0123456789abcdef"; std::string o;
	for (size_t i = 0; i < n; i++) { o.push_back(hx[p[i] >> 4]); o.push_back(hx[p[i] & 15]); }
	return o;
}
// delimiter-terminated fields of a text; rest = what follows the last taken delimiter
static std::vector<std::string> fields(const std::string &t, char d, size_t max = (size_t)-1, std::string *rest = NULL) {
	std::vector<std::string> f; size_t pos = 0, e;
	while (f.size() < max && (e = t.find(d, pos)) != t.npos) { f.push_back(t.substr(pos, e - pos)); pos = e + 1; }
	if (rest) *rest = t.substr(pos);
	return f;
}
static bool parse62(Mpz &v, const std::string &s) { return mpz_set_str(v, s.c_str(), TMCG_MPZ_IO_BASE) == 0; }

// ---------------------------------------------------------------- keys
// an honest proof of a statement (m, y): the answers by residue and by square -> (index of the challenge, stage)
struct ProofRef {
	Mpz m, y;
	std::map<std::string, std::pair<int, int> > byres, bysq;
};
struct KeyCtx {
	std::string name; unsigned long size; bool nizk;
	TMCG_SecretKey sec; TMCG_PublicKey pub;
	std::string sectext, pubtext, sid;
	ProofRef ref;                                 // the proof made by generate()
	size_t mnsize() const { return mpz_sizeinbase(sec.m, 2) / 8; }
};
static std::map<std::string, KeyCtx *> KEYS;

// index an honest proof text (layout nzk c1 a.. c2 a.. c3 a..) of the statement (m, y)
static void index_proof(ProofRef &R, const std::string &nizk, mpz_srcptr m, mpz_srcptr y) {
	R.m = Mpz(mpz2s(m)); R.y = Mpz(mpz2s(y)); R.byres.clear(); R.bysq.clear();
	std::vector<std::string> nz = fields(nizk, '^');
	int g = 0;
	size_t pos = 1;
	for (int s = 1; s <= 3 && pos < nz.size(); s++) {
		unsigned long c = strtoul(nz[pos].c_str(), NULL, 10); pos++;
		if (pos + c > nz.size()) break;           // counts without answers (key without proof)
		for (unsigned long j = 0; j < c; j++, pos++) {
			Mpz v, r, q; if (!parse62(v, nz[pos])) continue;
			g++;
			mpz_mod(r, v, m); mpz_mul(q, r, r); mpz_mod(q, q, m);
			R.byres[mpz2s(r)] = std::make_pair(g, s); R.bysq[mpz2s(q)] = std::make_pair(g, s);
		}
	}
}
static KeyCtx *load_key(const json &j) {
	KeyCtx *K = new KeyCtx();
	K->name = j["name"]; K->size = j["size"]; K->nizk = j["nizk"]; K->sectext = j["sec"];
	if (!K->sec.import(K->sectext)) { fprintf(stderr, "cannot import key %s\n", K->name.c_str()); exit(2); }
	K->pub = TMCG_PublicKey(K->sec);
	std::ostringstream os; os << K->pub; K->pubtext = os.str();
	K->sid = K->pub.selfid();
	index_proof(K->ref, K->nizk ? K->pub.nizk : std::string("nzk^"), K->sec.m, K->sec.y);
	return K;
}

// ---------------------------------------------------------------- projections
static json val_proj(const std::string &text, mpz_srcptr m) {
	json v; Mpz x, r, q;
	bool num = parse62(x, text);
	v["num"] = num;
	if (num && mpz_sgn(m) != 0) { mpz_mod(r, x, m); mpz_mul(q, r, r); mpz_mod(q, q, m); v["rs"] = nid(r); v["sq"] = nid(q); }
	else { v["rs"] = "n-none"; v["sq"] = "n-none"; }
	return v;
}
static json wire_proj(const std::string &text, mpz_srcptr m) {
	std::vector<std::string> f = fields(text, '|');
	json W; W["nf"] = f.size(); W["magic"] = f.size() > 0 ? f[0] : std::string("");
	W["kid"] = codes(f.size() > 1 ? f[1] : std::string(""));
	W["val"] = val_proj(f.size() > 2 ? f[2] : std::string(""), m);
	return W;
}
struct KeyText { std::string magic, name, email, type, m, y, nizk, sig; size_t nf; bool cut; };
static std::string join_key(const KeyText &k) {
	return k.magic + "|" + k.name + "|" + k.email + "|" + k.type + "|" + k.m + "|" + k.y + "|" + k.nizk + "|" + k.sig;
}
static KeyText split_key(const std::string &t) {
	KeyText k; std::string rest; std::vector<std::string> f = fields(t, '|', 7, &rest);
	k.nf = f.size(); f.resize(7);
	k.magic = f[0]; k.name = f[1]; k.email = f[2]; k.type = f[3]; k.m = f[4]; k.y = f[5]; k.nizk = f[6]; k.sig = rest; k.cut = false;
	return k;
}
// projection of a presented public key text; ref: the honest proof the answers are compared with
static json key_proj(const std::string &text, const ProofRef &ref) {
	KeyText k = split_key(text);
	json P; Mpz m, y;
	size_t total = std::count(text.begin(), text.end(), '|');
	P["nf"] = total; P["magic"] = k.magic;
	bool mnum = k.nf >= 5 && parse62(m, k.m), ynum = k.nf >= 6 && parse62(y, k.y);
	P["mnum"] = mnum; P["ynum"] = ynum;
	if (!mnum) mpz_set_ui(m, 0);
	if (!ynum) mpz_set_ui(y, 0);
	P["jac"] = (mnum && ynum) ? mpz_jacobi(y, m) : 0;
	P["odd"] = mpz_odd_p(m.v) != 0;
	Mpz am; mpz_abs(am, m);
	P["prime"] = mpz_probab_prime_p(am, 30) != 0;
	P["tnizk"] = k.type.find("NIZK") != k.type.npos;
	P["mid"] = nid(m); P["bits"] = mpz_sizeinbase(m, 2);
	P["did"] = did(k.name + "|" + k.email + "|" + k.type + "|" + b62(m) + "|" + b62(y) + "|" + k.nizk + "|");
	bool same = mnum && ynum && mpz_cmp(m, ref.m) == 0 && mpz_cmp(y, ref.y) == 0;
	std::vector<std::string> t = fields(k.nizk, '^');
	P["nzmagic"] = t.size() > 0 ? t[0] : std::string("");
	json nz = json::array();
	for (size_t j = 1; j < t.size(); j++) {
		json tok; long n = -1;
		if (!t[j].empty() && t[j].find_first_not_of("0123456789") == t[j].npos)
			n = t[j].size() <= 9 ? atol(t[j].c_str()) : 1073741824L;
		tok["n"] = n; tok["i"] = 0; tok["st"] = 0; tok["c"] = "no";
		Mpz v, r, q;
		if (same && parse62(v, t[j])) {
			mpz_mod(r, v, m); mpz_mul(q, r, r); mpz_mod(q, q, m);
			std::map<std::string, std::pair<int, int> >::const_iterator it = ref.byres.find(mpz2s(r));
			if (it != ref.byres.end()) { tok["i"] = it->second.first; tok["st"] = it->second.second; tok["c"] = "eq"; }
			else if ((it = ref.bysq.find(mpz2s(q))) != ref.bysq.end()) { tok["i"] = it->second.first; tok["st"] = it->second.second; tok["c"] = "sq"; }
		}
		nz.push_back(tok);
	}
	P["nz"] = nz;
	P["sig"] = wire_proj(k.sig, m);
	std::vector<std::string> sf = fields(k.sig, '|');
	bool sidok = sf.size() >= 3 && sf[0] == "sig";
	P["sidok"] = sidok; P["sid"] = codes(sidok ? sf[2] : std::string(""));
	return P;
}

// ---------------------------------------------------------------- inputs
static std::string data_of(const std::string &cls) {
	if (cls == "empty") return "";
	if (cls == "one") return "x";
	if (cls == "short") return "To be signed ...";
	if (cls == "pipe") return "sig|ID8^abcdefgh|12345|\nenc|a^b|";
	if (cls == "nul") return std::string("ab\0cd\0\0", 7);
	if (cls == "long") { std::string s; uint64_t x = 88172645463325252ULL; while (s.size() < 70001) { x ^= x << 13; x ^= x >> 7; x ^= x << 17; s.push_back((char)(x & 0xff)); } return s; }
	return cls;
}
static std::string rel_of(const std::string &d, const std::string &rel) {
	if (rel == "same") return d;
	if (rel == "flip") { std::string s = d; s[s.size() - 1] ^= 1; return s; }
	if (rel == "append") return d + "x";
	if (rel == "chop") return d.substr(0, d.size() - 1);
	return "";       // "empty"
}
static void pt_of(unsigned char *pt, const std::string &cls, uint64_t seed) {
	if (cls == "zero") memset(pt, 0, TMCG_SAEP_S0);
	else if (cls == "ff") memset(pt, 0xff, TMCG_SAEP_S0);
	else if (cls == "text") memcpy(pt, "ABCDEFGHIJKLMNOPQRSTUVWXYZ", TMCG_SAEP_S0);
	else { uint64_t x = seed * 2654435761ULL + 12345; for (size_t i = 0; i < TMCG_SAEP_S0; i++) { x ^= x << 13; x ^= x >> 7; x ^= x << 17; pt[i] = x & 0xff; } }
}

// a root of v^2 other than v and m - v (input construction for the "otherroot" mutation; the routine itself is
// compared with the definition in the toy domain and by property C09)
static void other_root(Mpz &out, mpz_srcptr v, const KeyCtx &K) {
	Mpz a, r1, r2, r3, r4, nv;
	mpz_mul(a, v, v); mpz_mod(a, a, K.sec.m);
	tmcg_mpz_sqrtmn_fast_all(r1, r2, r3, r4, a, K.sec.p, K.sec.q, K.sec.m, K.sec.gcdext_up, K.sec.gcdext_vq, K.sec.pa1d4, K.sec.qa1d4);
	Mpz vm; mpz_mod(vm, v, K.sec.m); mpz_sub(nv, K.sec.m, vm);
	mpz_srcptr c[4] = {r1, r2, r3, r4};
	for (int i = 0; i < 4; i++) if (mpz_cmp(c[i], vm) != 0 && mpz_cmp(c[i], nv) != 0) { mpz_set(out, c[i]); return; }
	mpz_set(out, v);
}

static bool is_square(mpz_srcptr a, const KeyCtx &K) { return mpz_jacobi(a, K.sec.p) == 1 && mpz_jacobi(a, K.sec.q) == 1; }
static void a_root(Mpz &out, mpz_srcptr a, const KeyCtx &K) {
	Mpz r2, r3, r4;
	tmcg_mpz_sqrtmn_fast_all(out, r2, r3, r4, a, K.sec.p, K.sec.q, K.sec.m, K.sec.gcdext_up, K.sec.gcdext_vq, K.sec.pa1d4, K.sec.qa1d4);
}
// the n-byte string (most significant byte first) of an encoding with one byte altered; bit: which bit of the byte
static void flip_byte(Mpz &out, mpz_srcptr y, size_t n, size_t pos, unsigned bit) {
	Mpz d; mpz_set_ui(d, 1); mpz_mul_2exp(d, d, 8 * (n - 1 - pos) + bit);
	if (mpz_tstbit(y, 8 * (n - 1 - pos) + bit)) mpz_sub(out, y, d); else mpz_add(out, y, d);
}
// the numeric part of the mutation catalogue; returns false when not applicable
struct NumCtx { const KeyCtx *K; std::string foreign; };
static bool mutate_num(std::string &text, const std::string &mu, const NumCtx &cx) {
	const KeyCtx &K = *cx.K; Mpz v, w;
	bool num = parse62(v, text);
	if (mu == "none") return true;
	if (mu == "lead0") { text = "0" + text; return true; }
	if (mu == "space") { text = text.size() < 2 ? " " + text : text.substr(0, 1) + " " + text.substr(1); return true; }
	if (mu == "empty") { text = ""; return true; }
	if (mu == "nonnum") { text = text.substr(0, text.size() / 2) + "!" + text.substr(text.size() / 2); return true; }
	if (mu == "half") { if (text.size() < 2) return false; text = text.substr(0, text.size() - 1); return true; }
	if (mu == "zero") { text = "0"; return true; }
	if (mu == "one") { text = "1"; return true; }
	if (mu == "four") { text = "4"; return true; }
	if (mu == "mm1") { mpz_sub_ui(w, K.sec.m, 1); text = b62(w); return true; }
	if (mu == "m") { text = b62(K.sec.m); return true; }
	if (mu == "pub") { text = b62(K.sec.y); return true; }
	if (mu == "foreign") { text = cx.foreign; return true; }
	if (mu == "oversized") { mpz_set_ui(w, 1); mpz_mul_2exp(w, w, mpz_sizeinbase(K.sec.m, 2) + 300); mpz_add_ui(w, w, 5); text = b62(w); return true; }
	if (mu == "jm1") { mpz_set_ui(w, 2); while (mpz_jacobi(w, K.sec.m) != -1) mpz_add_ui(w, w, 1); text = b62(w); return true; }
	if (!num) return false;
	if (mu == "plusm") mpz_add(w, v, K.sec.m);
	else if (mu == "minusm") mpz_sub(w, v, K.sec.m);
	else if (mu == "comp") mpz_sub(w, K.sec.m, v);
	else if (mu == "neg") mpz_neg(w, v);
	else if (mu == "plus1") mpz_add_ui(w, v, 1);
	else if (mu == "otherres") mpz_add_ui(w, v, 2);
	else if (mu == "double") { mpz_mul_2exp(w, v, 1); mpz_mod(w, w, K.sec.m); }
	else if (mu == "times4") { mpz_mul_2exp(w, v, 2); mpz_mod(w, w, K.sec.m); }
	else if (mu == "otherroot") other_root(w, v, K);
	else return false;
	text = b62(w);
	return true;
}

// the key-id and structure part of the catalogue for "magic|kid|value|"
static bool mutate_wire(std::string &text, const std::string &f, const std::string &mu, const KeyCtx &K, const KeyCtx &O, const std::string &foreign) {
	std::vector<std::string> w = fields(text, '|');
	if (w.size() != 3) return false;
	std::string &magic = w[0], &kid = w[1], &val = w[2];
	const std::string &sid = K.sid; size_t n = sid.size(), L = TMCG_KEYID_SIZE;
	auto idtext = [&](const std::string &s, size_t k) { std::ostringstream o; o << "ID" << k << "^" << s.substr(s.size() - std::min(k, s.size())); return o.str(); };
	std::string tail = sid.substr(n - L);
	std::ostringstream o;
	if (f == "magic") {
		if (mu == "alt") magic[magic.size() - 1]++;
		else if (mu == "swapkind") magic = (magic == "sig") ? "enc" : "sig";
		else if (mu == "empty") magic = "";
		else if (mu == "case") std::transform(magic.begin(), magic.end(), magic.begin(), ::toupper);
		else return false;
	} else if (f == "kid") {
		if (mu == "chr1") { o << "ID" << L << "^!" << tail.substr(1); kid = o.str(); }
		else if (mu == "chrL") kid[kid.size() - 1] = '!';
		else if (mu == "short4") kid = idtext(sid, 4);
		else if (mu == "id1") kid = idtext(sid, 1);
		else if (mu == "id0") kid = idtext(sid, 0);
		else if (mu == "long9") kid = idtext(sid, 9);
		else if (mu == "full") kid = idtext(sid, n);
		else if (mu == "toolong") { o << "ID" << (n + 1) << "^0" << sid; kid = o.str(); }
		else if (mu == "sizemis") { o << "ID" << (L - 1) << "^" << tail; kid = o.str(); }
		else if (mu == "nocaret") { o << "ID" << L << tail; kid = o.str(); }
		else if (mu == "lower") { o << "id" << L << "^" << tail; kid = o.str(); }
		else if (mu == "otherkey") kid = idtext(O.sid, L);
		else if (mu == "empty") kid = "";
		else if (mu == "lead0") { o << "ID0" << L << "^" << tail; kid = o.str(); }
		else return false;
	} else if (f == "val") {
		NumCtx cx; cx.K = &K; cx.foreign = foreign;
		if (!mutate_num(val, mu, cx)) return false;
	} else if (f == "struct") {
		if (mu == "trunc0") { text = ""; return true; }
		if (mu == "trunc1") { text = magic + "|"; return true; }
		if (mu == "trunc2") { text = magic + "|" + kid + "|"; return true; }
		if (mu == "nodelim") { text = magic + "|" + kid + "|" + val; return true; }
		if (mu == "swap") { text = magic + "|" + val + "|" + kid + "|"; return true; }
		if (mu == "extra") { text = magic + "|" + kid + "|" + val + "|x|"; return true; }
		if (mu == "dupdelim") { text = magic + "||" + kid + "|" + val + "|"; return true; }
		return false;
	} else return false;
	text = magic + "|" + kid + "|" + val + "|";
	return true;
}

// ---------------------------------------------------------------- library calls with dictated coins
static std::string do_sign(const KeyCtx &K, const std::string &data, uint64_t seed, unsigned idx) {
	seam::seed(seed); seam::clear_script(); seam::push_native_ul(idx);
	std::string s = K.sec.sign(data);
	seam::clear_script();
	return s;
}
static json sign_event(const KeyCtx &K, const std::string &data, const std::string &sig, unsigned idx, bool self) {
	json e; e["e"] = "Sign"; e["key"] = K.name; e["did"] = did(data); e["dlen"] = data.size(); e["idx"] = idx; e["self"] = self;
	e["W"] = wire_proj(sig, K.sec.m);
	std::vector<std::string> f = fields(sig, '|'); Mpz v, nv;
	if (f.size() >= 3 && parse62(v, f[2])) { mpz_sub(nv, K.sec.m, v); e["vid"] = nid(v); e["nvid"] = nid(nv); e["inrange"] = mpz_sgn(v.v) > 0 && mpz_cmp(v, K.sec.m) < 0; }
	else { e["vid"] = "n-none"; e["nvid"] = "n-none"; e["inrange"] = false; }
	e["sid"] = codes(f.size() >= 3 ? f[2] : std::string(""));
	return e;
}
static std::string sig_value(const std::string &sig) { std::vector<std::string> f = fields(sig, '|'); return f.size() >= 3 ? f[2] : std::string(""); }

static uint64_t RUNSEED = 1;
struct Out { std::ofstream f; void emit(const json &e) { f << e.dump() << "\n"; } };

// sign with salt class; "topzero": the encoded value (the square) has a zero top byte
static std::string sign_class(const KeyCtx &K, const std::string &data, const std::string &salt, uint64_t &seed, unsigned idx, bool &found) {
	found = true;
	if (salt != "topzero") return do_sign(K, data, seed, idx);
	size_t lim = 8 * (K.mnsize() - 1);
	for (int a = 0; a < 6000; a++) {
		std::string s = do_sign(K, data, seed + a, idx);
		Mpz v, q; parse62(v, sig_value(s)); mpz_mul(q, v, v); mpz_mod(q, q, K.sec.m);
		if (mpz_sizeinbase(q, 2) <= lim) { seed += a; return s; }
	}
	found = false;
	return do_sign(K, data, seed, idx);
}

static void gen_event(Out &out, KeyCtx &K) {
	json e; e["e"] = "Gen"; e["key"] = K.name; e["size"] = K.size; e["nizk"] = K.nizk;
	e["bits"] = mpz_sizeinbase(K.sec.m, 2); e["mid"] = nid(K.sec.m);
	e["p8"] = mpz_fdiv_ui(K.sec.p, 8); e["q8"] = mpz_fdiv_ui(K.sec.q, 8);
	Mpz pq; mpz_mul(pq, K.sec.p, K.sec.q); e["pq"] = mpz_cmp(pq, K.sec.m) == 0;
	e["pprime"] = mpz_probab_prime_p(K.sec.p, 30) != 0; e["qprime"] = mpz_probab_prime_p(K.sec.q, 30) != 0;
	e["yp"] = mpz_jacobi(K.sec.y, K.sec.p); e["yq"] = mpz_jacobi(K.sec.y, K.sec.q);
	// smaller candidates for y: is any of them admissible too?
	bool smallest = true; Mpz t(2);
	while (mpz_cmp(t, K.sec.y) < 0) { if (mpz_jacobi(t, K.sec.p) == -1 && mpz_jacobi(t, K.sec.q) == -1) smallest = false; mpz_add_ui(t, t, 1); }
	e["ysmallest"] = smallest;
	e["P"] = key_proj(K.pubtext, K.ref);
	e["sid"] = codes(K.sid);
	e["typeok"] = K.pub.type == (std::string("TMCG/RABIN_") + std::to_string(K.size) + (K.nizk ? "_NIZK" : ""));
	TMCG_PublicKey imp;
	bool ok = imp.import(K.pubtext);
	e["imp"] = ok;
	e["res"] = ok && imp.check();
	e["res2"] = K.sec.check();
	out.emit(e);
	// all four roots of one encoding: same salt (same coins), root index 0..3
	std::string data = "four roots";
	json sq;
	for (unsigned idx = 0; idx < 4; idx++) {
		std::string s = do_sign(K, data, 424242, idx);
		json se = sign_event(K, data, s, idx, false); sq = se["W"]["val"]["sq"];
		out.emit(se);
	}
	json r; r["e"] = "Roots"; r["key"] = K.name; r["sq"] = sq; out.emit(r);
}

// ---------------------------------------------------------------- cases
static void run_verify(Out &out, const json &c, uint64_t seed) {
	KeyCtx &K = *KEYS.at(c["key"]), &O = *KEYS.at(c["okey"]);
	std::string d = data_of(c["d"]), mu = c["mu"], f = c["f"];
	if (c["d"] == "len") { d.clear(); for (long i = 0; i < c["dlen"].get<long>(); i++) d.push_back((char)((i * 7 + 3) & 0xff)); }
	unsigned idx = c["root"];
	// one signature per object (key, data class, salt class, root) and process; its coins derive from the object
	static std::map<std::string, std::pair<std::string, uint64_t> > made;
	std::string okey = K.name + "/" + c["d"].get<std::string>() + std::to_string(c["dlen"].get<long>()) + "/" + c["salt"].get<std::string>() + "/" + std::to_string(idx);
	uint64_t sd = RUNSEED * 1000003ULL; for (char ch : okey) sd = sd * 131 + (unsigned char)ch;
	std::string sig;
	if (made.count(okey)) { sig = made[okey].first; sd = made[okey].second; }
	else {
		bool found;
		sig = sign_class(K, d, c["salt"], sd, idx, found);
		made[okey] = std::make_pair(sig, sd);
		json se = sign_event(K, d, sig, idx, false); se["id"] = c["id"]; se["saltok"] = found; out.emit(se);
	}
	std::string text = sig, foreign;
	if (mu == "foreign") { std::string fs = do_sign(O, d, sd + 7, idx); json fe = sign_event(O, d, fs, idx, false); out.emit(fe); foreign = sig_value(fs); }
	bool applied = false;
	if (f == "enc") {
		// the owner of the key presents a root of a square that differs from the encoding in one byte / above it
		size_t n = K.mnsize(), pos = c["pos"];
		for (int a = 0; a < 400 && !applied; a++) {
			Mpz s, y, y2;
			std::vector<std::string> w = fields(sig, '|');
			parse62(s, w[2]); mpz_mul(y, s, s); mpz_mod(y, y, K.sec.m);
			if (mu == "top") {
				mpz_set_ui(y2, 1); mpz_mul_2exp(y2, y2, 8 * n); mpz_add(y2, y2, y);
				if (mpz_cmp(y2, K.sec.m) < 0 && is_square(y2, K)) applied = true;
			} else for (unsigned b = 0; b < 8 && !applied; b++) {
				flip_byte(y2, y, n, pos, b);
				if (mpz_cmp(y2, K.sec.m) < 0 && is_square(y2, K)) applied = true;
			}
			if (applied) { Mpz r; a_root(r, y2, K); text = w[0] + "|" + w[1] + "|" + b62(r) + "|"; }
			else {      // another salt, another encoding
				sig = do_sign(K, d, sd + 1000 + a, idx);
				json se2 = sign_event(K, d, sig, idx, false); out.emit(se2);
			}
		}
	} else applied = mutate_wire(text, f, mu, K, O, foreign) || mu == "none";
	KeyCtx &V = (c["kv"] == "same") ? K : O;
	std::string d2 = rel_of(d, c["rel"]);
	json e; e["e"] = "Verify"; e["id"] = c["id"]; e["key"] = V.name; e["did"] = did(d2); e["applied"] = applied;
	e["W"] = wire_proj(text, V.sec.m);
	e["text"] = text; if (d2.size() <= 64) e["data"] = hexs((const unsigned char *)d2.data(), d2.size());
	e["res"] = V.pub.verify(d2, text);
	e["res2"] = V.sec.verify(d2, text);
	out.emit(e);
}
static void run_decrypt(Out &out, const json &c, uint64_t seed) {
	KeyCtx &K = *KEYS.at(c["key"]), &O = *KEYS.at(c["okey"]);
	std::string mu = c["mu"], f = c["f"], rc = c["r"];
	unsigned char pt[TMCG_SAEP_S0], dec[TMCG_SAEP_S0 + 8];
	pt_of(pt, c["pt"], seed);
	std::string text; bool encdone = false;
	size_t bits = mpz_sizeinbase(K.sec.m, 2);
	bool fits = (2 * TMCG_SAEP_S0 < bits / 16) && (2 * TMCG_SAEP_S0 < bits / 8 - 2 * TMCG_SAEP_S0) && (TMCG_SAEP_S0 < bits / 32);
	if (c["fab"].get<bool>() || !fits) {
		// no honest ciphertext exists under this key (encrypt() requires a larger modulus): present a square
		Mpz x; uint64_t z = seed; mpz_set_ui(x, 3);
		for (int i = 0; i < 5; i++) { mpz_mul_2exp(x, x, 60); mpz_add_ui(x, x, (z = z * 6364136223846793005ULL + 1442695040888963407ULL) >> 8); }
		mpz_mul(x, x, x); mpz_mod(x, x, K.sec.m);
		text = "enc|" + K.pub.keyid() + "|" + b62(x) + "|";
	} else {
		size_t s2 = 2 * TMCG_SAEP_S0, s1 = bits / 8 - s2;
		seam::seed(seed); seam::clear_script();
		std::vector<unsigned char> r(s1, 0);
		if (rc == "rnd") { for (size_t i = 0; i < s1; i++) r[i] = seam::next64() & 0xff; seam::push_bytes(r); }
		else if (rc == "zero") seam::push_bytes(r);
		else if (rc == "ff") { std::fill(r.begin(), r.end(), 0xff); seam::push_bytes(r); }
		else if (rc == "topzero") {        // the SAEP block gets a zero top byte: message byte = first mask byte
			std::vector<unsigned char> g(s2);
			for (int a = 0; a < 100000; a++) {
				for (size_t i = 0; i < s1; i++) r[i] = seam::next64() & 0xff;
				tmcg_g(g.data(), s2, r.data(), s1);
				if (g[0] == pt[0]) break;
			}
			seam::push_bytes(r);
		}
		bool viasec = (seed & 1) != 0;
		text = viasec ? K.sec.encrypt(pt) : K.pub.encrypt(pt);
		seam::clear_script();
		json ee; ee["e"] = "Encrypt"; ee["id"] = c["id"]; ee["key"] = K.name; ee["pt"] = hexs(pt, TMCG_SAEP_S0); ee["via"] = viasec ? "sec" : "pub";
		ee["W"] = wire_proj(text, K.sec.m);
		Mpz v; std::string vs = sig_value(text);
		ee["inrange"] = parse62(v, vs) && mpz_sgn(v.v) >= 0 && mpz_cmp(v, K.sec.m) < 0;
		out.emit(ee);
		if (f == "enc") {
			// the encryptor knows the SAEP block: the root of the ciphertext whose low-order bytes are the randomness
			size_t n = s1 + s2, pos = c["pos"];
			Mpz r1, r2, r3, r4, low, rr, x, x2;
			tmcg_mpz_sqrtmn_fast_all(r1, r2, r3, r4, v, K.sec.p, K.sec.q, K.sec.m, K.sec.gcdext_up, K.sec.gcdext_vq, K.sec.pa1d4, K.sec.qa1d4);
			mpz_import(rr, s1, 1, 1, 1, 0, r.data());
			mpz_srcptr cand[4] = {r1, r2, r3, r4}; bool have = false;
			for (int i = 0; i < 4; i++) { mpz_fdiv_r_2exp(low, cand[i], 8 * s1); if (mpz_cmp(low, rr) == 0 && mpz_sizeinbase(cand[i], 2) <= 8 * n) { mpz_set(x, cand[i]); have = true; } }
			if (have) {
				if (mu == "top") { mpz_set_ui(x2, 1); mpz_mul_2exp(x2, x2, 8 * n); mpz_add(x2, x2, x); }
				else flip_byte(x2, x, n, pos, 0);
				if (mpz_cmp(x2, K.sec.m) < 0) {
					mpz_mul(x2, x2, x2); mpz_mod(x2, x2, K.sec.m);
					std::vector<std::string> w = fields(text, '|');
					text = w[0] + "|" + w[1] + "|" + b62(x2) + "|";
					encdone = true;
				}
			}
		}
	}
	std::string foreign;
	if (mu == "foreign") {
		size_t ob = mpz_sizeinbase(O.sec.m, 2);
		if (ob >= 672) foreign = sig_value(O.pub.encrypt(pt)); else foreign = sig_value(do_sign(O, "x", seed, 0));
	}
	bool applied = (f == "enc") ? encdone : (mutate_wire(text, f, mu, K, O, foreign) || mu == "none");
	KeyCtx &V = (c["kv"] == "same") ? K : O;
	json e; e["e"] = "Decrypt"; e["id"] = c["id"]; e["key"] = V.name; e["applied"] = applied;
	e["W"] = wire_proj(text, V.sec.m);
	e["text"] = text;
	memset(dec, 0xAA, sizeof(dec));
	bool res = V.sec.decrypt(dec, text);
	e["res"] = res; e["out"] = res ? hexs(dec, TMCG_SAEP_S0) : std::string("");
	e["guard"] = hexs(dec + TMCG_SAEP_S0, 8);
	out.emit(e);
}

// the owner's prover [GMR98, Sc98] for the statement (m, y) with c1, c2, c3 rounds: the challenges are the hash
// chain of the library (g over "m^y" and everything derived so far), the answers come from the factorisation
static std::string own_proof(const KeyCtx &K, mpz_srcptr y, size_t c1, size_t c2, size_t c3) {
	const TMCG_SecretKey &S = K.sec;
	std::string input = b62(S.m) + "^" + b62(y);
	size_t mnsize = mpz_sizeinbase(S.m, 2) / 8;
	std::vector<unsigned char> mn(mnsize);
	Mpz foo, bar, t;
	auto next = [&]() {
		tmcg_g(mn.data(), mnsize, (unsigned char *)input.c_str(), input.length());
		mpz_import(foo, 1, -1, mnsize, 1, 0, mn.data()); mpz_mod(foo, foo, S.m); input += b62(foo);
	};
	std::ostringstream nz; nz << "nzk^" << c1 << "^";
	for (size_t i = 0; i < c1; i++) {
		do { next(); mpz_gcd(t, foo, S.m); } while (mpz_cmp_ui(t.v, 1) != 0);
		mpz_powm(bar, foo, S.m1pq, S.m);
		nz << b62(bar) << "^";
	}
	nz << c2 << "^";
	for (size_t i = 0; i < c2; i++) {
		do { next(); mpz_gcd(t, foo, S.m); } while (mpz_cmp_ui(t.v, 1) != 0);
		Mpz c[4]; mpz_set(c[0], foo); mpz_sub(c[1], S.m, foo); mpz_mul_2exp(c[2], foo, 1); mpz_mod(c[2], c[2], S.m); mpz_sub(c[3], S.m, c[2]);
		mpz_set_ui(bar, 0);
		for (int j = 0; j < 4; j++) if (is_square(c[j], K)) { a_root(bar, c[j], K); break; }
		nz << b62(bar) << "^";
	}
	nz << c3 << "^";
	for (size_t i = 0; i < c3; i++) {
		do { next(); } while (mpz_jacobi(foo, S.m) != 1);
		if (!is_square(foo, K)) { mpz_mul(foo, foo, y); mpz_mod(foo, foo, S.m); }
		mpz_set_ui(bar, 0);
		if (is_square(foo, K)) a_root(bar, foo, K);
		nz << b62(bar) << "^";
	}
	return nz.str();
}

static const size_t R1 = TMCG_KEY_NIZK_STAGE1, R2 = TMCG_KEY_NIZK_STAGE2, R3 = TMCG_KEY_NIZK_STAGE3;
static bool mutate_key(KeyText &k, const std::string &f, const std::string &mu, const KeyCtx &K, const KeyCtx &O) {
	NumCtx cx; cx.K = &K;
	if (f == "magic") { if (mu == "alt") k.magic[2]++; else k.magic = ""; return true; }
	if (f == "name") { k.name += "2"; return true; }
	if (f == "email") { k.email[0]++; return true; }
	if (f == "type") {
		if (mu == "alt") { size_t p = k.type.find("RABIN_"); if (p == k.type.npos) return false; k.type[p + 6] = (k.type[p + 6] == '9') ? '8' : k.type[p + 6] + 1; return true; }
		if (mu == "dropnizk") { size_t p = k.type.find("_NIZK"); if (p == k.type.npos) return false; k.type.erase(p, 5); return true; }
		if (mu == "addnizk") { k.type += "_NIZK"; return true; }
		return false;
	}
	if (f == "proof") {
		if (!K.nizk) return false;
		size_t c1 = R1, c2 = R2, c3 = R3;
		if (mu == "short1") c1--; else if (mu == "short2") c2--; else if (mu == "short3") c3--; else if (mu == "one1") c1 = 1;
		else if (mu == "long1") c1++; else if (mu == "long2") c2++; else if (mu == "long3") c3++;
		else if (mu != "same" && mu != "newy") return false;
		Mpz y; if (!parse62(y, k.y)) return false;
		if (mu == "newy") { mpz_mul_2exp(y, y, 2); mpz_mod(y, y, K.sec.m); k.y = b62(y); }
		k.nizk = own_proof(K, y, c1, c2, c3);
		return true;
	}
	if (f == "m") { cx.foreign = b62(O.sec.m); return mutate_num(k.m, mu, cx); }
	if (f == "y") return mutate_num(k.y, mu, cx);
	std::vector<std::string> t = fields(k.nizk, '^');
	auto join = [&]() { k.nizk = ""; for (size_t j = 0; j < t.size(); j++) k.nizk += t[j] + "^"; };
	if (f == "nzmagic") { if (t.empty()) return false; t[0][2]++; join(); return true; }
	int s = (f.size() == 4 && f.substr(0, 3) == "cnt") ? f[3] - '0' : (f.size() == 5 && f.substr(0, 3) == "ent") ? f[3] - '0' : 0;
	if (s >= 1 && s <= 3) {
		size_t cp = !K.nizk ? (size_t)s : (s == 1 ? 1 : s == 2 ? 2 + R1 : 3 + R1 + R2);
		size_t rounds = s == 1 ? R1 : s == 2 ? R2 : R3;
		if (cp >= t.size()) return false;
		if (f[0] == 'c') {
			unsigned long c = strtoul(t[cp].c_str(), NULL, 10);
			if (mu == "dec") { if (!K.nizk) return false; t[cp] = std::to_string(c - 1); t.erase(t.begin() + cp + c); }
			else if (mu == "deconly") t[cp] = std::to_string(c - 1);
			else if (mu == "inconly") t[cp] = std::to_string(c + 1);
			else if (mu == "zero") t[cp] = "0";
			else if (mu == "nonnum") t[cp] = t[cp].substr(0, t[cp].size() / 2) + "!" + t[cp].substr(t[cp].size() / 2);
			else if (mu == "lead0") t[cp] = "0" + t[cp];
			else if (mu == "minus1") t[cp] = "-1";
			else return false;
			join(); return true;
		}
		if (!K.nizk) return false;
		bool last = f[4] == 'l';
		size_t p = cp + (last ? rounds : 1), nb = last ? p - 1 : p + 1;
		if (p >= t.size() || nb >= t.size()) return false;
		if (mu == "swapnext") std::swap(t[p], t[nb]);
		else if (mu == "drop") t.erase(t.begin() + p);
		else if (!mutate_num(t[p], mu, cx)) return false;
		join(); return true;
	}
	if (f == "sig.magic" || f == "sig.kid" || f == "sig.val" || f == "sig") {
		std::vector<std::string> w = fields(k.sig, '|');
		if (w.size() != 3) return false;
		auto idtext = [&](const std::string &sv, size_t n) { std::ostringstream o; o << "ID" << n << "^" << sv.substr(sv.size() - std::min(n, sv.size())); return o.str(); };
		if (f == "sig.magic") w[0][2]++;
		else if (f == "sig.kid") {
			if (mu == "chrL") w[1][w[1].size() - 1] = '!';
			else if (mu == "short4") w[1] = idtext(w[2], 4);
			else if (mu == "id0") w[1] = idtext(w[2], 0);
			else return false;
		} else if (f == "sig.val") { if (!mutate_num(w[2], mu, cx)) return false; }
		else {
			if (mu == "negfix") { if (!mutate_num(w[2], "comp", cx)) return false; w[1] = idtext(w[2], TMCG_KEYID_SIZE); }
			else if (mu == "otherrootfix") { if (!mutate_num(w[2], "otherroot", cx)) return false; w[1] = idtext(w[2], TMCG_KEYID_SIZE); }
			else if (mu == "drop") { k.sig = ""; k.cut = true; return true; }
			else if (mu == "foreign") { k.sig = O.pub.sig; return true; }
			else return false;
		}
		k.sig = w[0] + "|" + w[1] + "|" + w[2] + "|";
		return true;
	}
	return false;
}
static void run_check(Out &out, const json &c, uint64_t seed) {
	KeyCtx &K = *KEYS.at(c["key"]), &O = *KEYS.at(c["okey"]);
	std::string mu = c["mu"], f = c["f"];
	bool resign = c["resign"];
	KeyText k = split_key(K.pubtext);
	bool applied = mu == "none" || f == "struct" || mutate_key(k, f, mu, K, O);
	bool reproved = applied && f == "proof";
	ProofRef own; long ownmatch = -1;
	if (reproved) {
		Mpz y; parse62(y, k.y);
		index_proof(own, k.nizk, K.sec.m, y);
		// the prover of the harness is only trusted as far as it reproduces the library's own proof
		if (mu == "same") {
			json P = key_proj(join_key(k), K.ref); size_t okc = 0;
			for (const json &tk : P["nz"]) if (tk["c"] != "no") okc++;
			ownmatch = (long)okc;
		}
	}
	if (resign) {
		// the owner signs the altered key again (as generation does: sign with an empty sig member, then put the new id in)
		TMCG_SecretKey sk(K.sec);
		Mpz y;
		sk.name = k.name; sk.email = k.email; sk.type = k.type; sk.nizk = k.nizk; sk.sig = "";
		std::string ytext = k.y;
		if (parse62(y, k.y)) { mpz_set(sk.y, y); ytext = b62(y); }
		std::string data = sk.name + "|" + sk.email + "|" + sk.type + "|" + b62(sk.m) + "|" + ytext + "|" + sk.nizk + "|";
		seam::seed(seed); seam::clear_script(); seam::push_native_ul(seed % 4);
		std::string s = sk.sign(data);
		seam::clear_script();
		sk.sig = s;
		std::string repl = std::string("ID") + std::to_string(TMCG_KEYID_SIZE) + "^";
		size_t at = s.find(repl);
		if (at != s.npos) s.replace(at, repl.size() + TMCG_KEYID_SIZE, sk.keyid());
		k.sig = s;
		json se = sign_event(K, data, s, seed % 4, true); se["id"] = c["id"]; out.emit(se);
	}
	std::string text = join_key(k);
	if (f == "struct" && mu == "trunc6") text = k.magic + "|" + k.name + "|" + k.email + "|" + k.type + "|" + k.m + "|" + k.y + "|";
	if (f == "struct" && mu == "nodelim") text = text.substr(0, text.size() - 1);
	json e; e["e"] = "Check"; e["id"] = c["id"]; e["key"] = K.name; e["applied"] = applied; e["resign"] = resign;
	e["P"] = key_proj(text, reproved ? own : K.ref);
	if (ownmatch >= 0) { e["ownmatch"] = ownmatch; e["ownwant"] = R1 + R2 + R3; }
	TMCG_PublicKey imp;
	bool ok = imp.import(text);
	e["imp"] = ok;
	auto t0 = std::chrono::steady_clock::now();
	bool res = ok && imp.check();
	e["res"] = res;
	e["ms"] = (long)std::chrono::duration<double, std::milli>(std::chrono::steady_clock::now() - t0).count();
	bool res2 = false;
	if (ok) {        // the same key as the owner sees it
		TMCG_SecretKey sk(K.sec);
		sk.name = imp.name; sk.email = imp.email; sk.type = imp.type; sk.nizk = imp.nizk; sk.sig = imp.sig;
		mpz_set(sk.m, imp.m); mpz_set(sk.y, imp.y);
		res2 = sk.check();
	}
	e["res2"] = res2;
	out.emit(e);
}

static int do_run(const char *keysf, const char *casesf, const char *tracef, uint64_t seed) {
	std::vector<json> keys = read_ndjson(keysf), cases = read_ndjson(casesf);
	std::set<std::string> need;
	for (const json &c : cases) { need.insert(c["key"].get<std::string>()); need.insert(c["okey"].get<std::string>()); }
	Out out; out.f.open(tracef);
	json r; r["e"] = "Reset"; r["seed"] = seed; out.emit(r);
	for (const json &k : keys) if (need.count(k["name"].get<std::string>())) KEYS[k["name"]] = load_key(k);
	for (const std::string &n : need) if (!KEYS.count(n)) { fprintf(stderr, "key %s missing\n", n.c_str()); return 2; }
	seam::seed_harness(seed); RUNSEED = seed;
	for (auto &kv : KEYS) gen_event(out, *kv.second);
	for (const json &c : cases) {
		uint64_t cs = seed * 1000003ULL + c["id"].get<uint64_t>() * 7919ULL;
		std::string op = c["op"];
		if (op == "verify") run_verify(out, c, cs);
		else if (op == "decrypt") run_decrypt(out, c, cs);
		else if (op == "check") run_check(out, c, cs);
		else { fprintf(stderr, "unknown op %s\n", op.c_str()); return 2; }
	}
	out.f.close();
	return 0;
}

static int do_genkeys(uint64_t seed, const char *outf, int n, char **specs) {
	std::ofstream f(outf);
	for (int i = 0; i < n; i++) {
		std::string s = specs[i]; std::vector<std::string> p = fields(s + ":", ':');
		if (p.size() != 3) { fprintf(stderr, "bad key spec %s\n", s.c_str()); return 2; }
		unsigned long size = strtoul(p[1].c_str(), NULL, 10); bool nizk = p[2] == "1";
		uint64_t h = seed * 1000003ULL; for (char ch : p[0]) h = h * 131 + (unsigned char)ch;
		seam::seed(h); seam::reset_counters();
		auto t0 = std::chrono::steady_clock::now();
		TMCG_SecretKey sec(std::string("Key ") + p[0], p[0] + "@example.org", size, nizk);
		json j; j["name"] = p[0]; j["size"] = size; j["nizk"] = nizk;
		std::ostringstream os; os << sec; j["sec"] = os.str();
		j["gen_s"] = std::chrono::duration<double>(std::chrono::steady_clock::now() - t0).count();
		j["draws"] = seam::ndraws();
		f << j.dump() << "\n"; f.flush();
	}
	return 0;
}

// square roots and residuosity in small Blum integers, through a TMCG_SecretKey whose members are set by hand
static int do_toy(const char *casesf, const char *resf) {
	std::vector<json> cases = read_ndjson(casesf);
	std::ofstream out(resf);
	for (const json &c : cases) {
		long p = c["p"], q = c["q"], y = c["y"], m = p * q;
		TMCG_SecretKey sk;
		mpz_set_si(sk.p, p); mpz_set_si(sk.q, q); mpz_set_si(sk.m, m); mpz_set_si(sk.y, y);
		json r; r["p"] = p; r["q"] = q;
		bool pre = sk.precompute();
		r["pre"] = pre;
		json qr = json::array(), roots = json::array();
		for (long a = 1; a < m; a++) {
			Mpz A(a), r1, r2, r3, r4;
			int isqr = tmcg_mpz_qrmn_p(A, sk.p, sk.q);
			qr.push_back(isqr ? 1 : 0);
			json rs = json::array();
			if (isqr && pre) {
				tmcg_mpz_sqrtmn_fast_all(r1, r2, r3, r4, A, sk.p, sk.q, sk.m, sk.gcdext_up, sk.gcdext_vq, sk.pa1d4, sk.qa1d4);
				rs = {mpz2l(r1), mpz2l(r2), mpz2l(r3), mpz2l(r4)};
			}
			roots.push_back(rs);
		}
		r["qr"] = qr; r["roots"] = roots;
		out << r.dump() << "\n";
	}
	return 0;
}

// one generation + round trips per key size, each in a child process (an assertion of the library must not kill the run)
static int do_sizes(uint64_t seed, const char *outf, int nsz, char **szs) {
	std::ofstream out(outf);
	for (int si = 0; si < nsz; si++) {
		unsigned long size = strtoul(szs[si], NULL, 10);
		int fd[2]; if (pipe(fd) != 0) return 2;
		pid_t pid = fork();
		if (pid == 0) {
			close(fd[0]);
			// stderr of assert() is not wanted
			int dn = open("/dev/null", 1); dup2(dn, 2);
			seam::seed(seed * 7777 + size);
			json j; j["size"] = size;
			TMCG_SecretKey sec("S", "s@example.org", size, false);
			TMCG_PublicKey pub(sec);
			size_t bits = mpz_sizeinbase(sec.m, 2); j["bits"] = bits;
			j["check"] = pub.check();
			std::string s = sec.sign("size sweep");
			j["verify"] = pub.verify("size sweep", s); j["verify_other"] = pub.verify("size sweeq", s);
			bool fits = (2 * TMCG_SAEP_S0 < bits / 16) && (2 * TMCG_SAEP_S0 < bits / 8 - 2 * TMCG_SAEP_S0) && (TMCG_SAEP_S0 < bits / 32);
			j["fits"] = fits;
			if (fits) {
				unsigned char pt[TMCG_SAEP_S0], dec[TMCG_SAEP_S0]; pt_of(pt, "rnd", size);
				std::string e = pub.encrypt(pt);
				bool ok = sec.decrypt(dec, e);
				j["decrypt"] = ok; j["same"] = ok && memcmp(pt, dec, TMCG_SAEP_S0) == 0;
			}
			std::string t = j.dump() + "\n";
			if (write(fd[1], t.data(), t.size()) < 0) _exit(4);
			_exit(0);
		}
		close(fd[1]);
		std::string got; char buf[4096]; ssize_t n;
		while ((n = read(fd[0], buf, sizeof buf)) > 0) got.append(buf, n);
		close(fd[0]);
		int st = 0; waitpid(pid, &st, 0);
		if (WIFEXITED(st) && WEXITSTATUS(st) == 0 && !got.empty()) out << got;
		else { json j; j["size"] = size; j["died"] = true; j["signal"] = WIFSIGNALED(st) ? WTERMSIG(st) : 0; j["status"] = WIFEXITED(st) ? WEXITSTATUS(st) : -1; out << j.dump() << "\n"; }
		out.flush();
	}
	return 0;
}

int main(int argc, char **argv) {
	if (!init_libTMCG()) { fprintf(stderr, "init_libTMCG failed\n"); return 2; }
	quiet_cerr(); install_terminate("drv_key");
	std::string mode = argc > 1 ? argv[1] : "";
	if (mode == "genkeys" && argc >= 5) return do_genkeys(strtoull(argv[2], NULL, 10), argv[3], argc - 4, argv + 4);
	if (mode == "run" && argc == 6) return do_run(argv[2], argv[3], argv[4], strtoull(argv[5], NULL, 10));
	if (mode == "toy" && argc == 4) return do_toy(argv[2], argv[3]);
	if (mode == "sizes" && argc >= 5) return do_sizes(strtoull(argv[2], NULL, 10), argv[3], argc - 4, argv + 4);
	fprintf(stderr, "usage: drv_key genkeys <seed> <out> <name:size:nizk>... | run <keys> <cases> <trace> <seed> | toy <cases> <results> | sizes <seed> <out> <size>...\n");
	return 2;
}
