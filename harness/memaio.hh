// in-memory aiounicast: per-link FIFO queues owned by the harness; the harness decides which link the
// next Receive() looks at, so one Deliver(timeout 0) of the reliable broadcast is one schedulable step.
#ifndef VERIF_MEMAIO_HH
#define VERIF_MEMAIO_HH
#include <deque>
#include <vector>
#include <string>
#include <gmp.h>
#include "aiounicast.hh"

struct MemNet {
	size_t n;
	typedef std::vector<std::string> Wire;               // one message = its integers in decimal
	std::vector<std::vector<std::deque<Wire> > > q;      // q[from][to]
	std::vector<std::vector<std::pair<size_t, Wire> > > sent;  // sent[from] = messages sent since last clear (to, msg)
	std::vector<bool> keep;                              // keep[to] = false: messages to that party are dropped
	MemNet(size_t n_in): n(n_in), q(n_in, std::vector<std::deque<Wire> >(n_in)), sent(n_in), keep(n_in, true) {}
};

class MemAio : public aiounicast {
	public:
		MemNet *net;
		size_t next_link;        // set by the harness before each Receive
		bool got;                // last Receive consumed a message
		MemNet::Wire last;       // ... this one
		MemAio(MemNet *net_in, size_t j_in):
			aiounicast(net_in->n, j_in, aio_scheduler_roundrobin, aio_timeout_very_long, false, false, false),
			net(net_in), next_link(0), got(false) {}
		virtual bool Send(mpz_srcptr m, const size_t i_in, const time_t timeout = aio_timeout_default) {
			std::vector<mpz_srcptr> v; v.push_back(m); return Send(v, i_in, timeout);
		}
		virtual bool Send(const std::vector<mpz_srcptr> &m, const size_t i_in, const time_t timeout = aio_timeout_default) {
			if (i_in >= n) return false;
			MemNet::Wire w;
			for (size_t k = 0; k < m.size(); k++) { char *c = mpz_get_str(NULL, 10, m[k]); w.push_back(c); free(c); }
			net->sent[j].push_back(std::make_pair(i_in, w));
			if (net->keep[i_in]) net->q[j][i_in].push_back(w);
			numWrite++;
			return true;
		}
		virtual bool Receive(mpz_ptr m, size_t &i_out, const size_t scheduler = aio_scheduler_default, const time_t timeout = aio_timeout_default) {
			std::vector<mpz_ptr> v; v.push_back(m); return Receive(v, i_out, scheduler, timeout);
		}
		virtual bool Receive(std::vector<mpz_ptr> &m, size_t &i_out, const size_t scheduler = aio_scheduler_default, const time_t timeout = aio_timeout_default) {
			got = false;
			i_out = n;
			if (next_link >= n) return false;
			std::deque<MemNet::Wire> &dq = net->q[next_link][j];
			if (dq.empty()) return false;
			MemNet::Wire w = dq.front();
			if (w.size() != m.size()) { dq.pop_front(); return false; }
			dq.pop_front();
			for (size_t k = 0; k < m.size(); k++) mpz_set_str(m[k], w[k].c_str(), 10);
			i_out = next_link; got = true; last = w; numRead++;
			return true;
		}
		virtual void Reset(const size_t i_in, const bool input) { (void)i_in; (void)input; }
		virtual ~MemAio() {}
};
#endif
