// drv_rotation: the rotation argument of de Hoogh, Schoenmakers, Skoric, Villegas at class level
// (HooghSchoenmakersSkoricVillegasPUBROTZK and HooghSchoenmakersSkoricVillegasVRHE) in small Schnorr groups
// (p <= 46337), prover against verifier in every form: honest-verifier interactive ("i"), public coin with the
// two-party coin flip of JareckiLysyanskayaEDCF ("pc"), non-interactive ("ni").  Prover and verifier are two
// threads of which exactly one runs at a time (a baton that is handed over only when the running party has to
// wait for input), connected by in-memory pipes the harness owns; the pipes count the lines and can replace one
// line in transit.  Logged per execution (ndjson, validated by spec/RotationTrace.tla): group, statement as
// the prover and as the verifier see it, witness, every draw of either party (seam_rng record mode, attributed
// to the baton holder), every line sent and delivered in both directions, every hash-oracle call (hook H1), the
// verdict.
//   drv_rotation record <seed> <executions> <part C03|C04|C05> <out.ndjson> [<index of the first execution> [<largest n of C05 executions>]]
#include "common.hh"
#include <deque>
#include <algorithm>
#include <thread>
#include <mutex>
#include <condition_variable>
#include <functional>
#include <atomic>
#define private public
#define protected public
#include "libTMCG.hh"
#undef private
#undef protected
#include "mpz_helper.hh"
#include "mpz_shash.hh"

extern void (*tmcg_verif_shash_hook)(const std::string &input, mpz_srcptr output);

static const long BIG = 1073741824L;          // 2^30: the spec's stand-in for "far above p"

struct Grp { Mpz p, q, g, h; size_t LQ; };
static Grp GR;

static json jnum(mpz_srcptr v) {
	if (mpz_sgn(v) < 0) return json(-1);
	if (mpz_sizeinbase(v, 2) <= 30) return json(mpz_get_si(v));
	return json(BIG);
}
static json jnums(const std::vector<Mpz> &v) { json a = json::array(); for (size_t k = 0; k < v.size(); k++) a.push_back(jnum(v[k])); return a; }
static unsigned long rnd(unsigned long m) { return m ? (unsigned long)(seam::next64() % m) : 0; }
static std::string line_of(mpz_srcptr v) { std::ostringstream o; o << v; return o.str(); }

// ------------------------------------------------------------------ parties, baton, attribution of draws and oracle calls
struct Party {
	json coins, hcalls; long nw, nx; bool exc; std::string what;
	void reset() { coins = json::array(); hcalls = json::array(); nw = nx = 0; exc = false; what.clear(); }
};
static Party PT[2];
static int cur = -1;                          // the party that is running library code
static bool stuck = false;

static void drain_coins(int id) {
	std::vector<seam::Draw> &lg = seam::log();
	for (size_t k = 0; k < lg.size(); k++) {
		if (lg[k].len == GR.LQ) { Mpz v(lg[k].hex, 16); mpz_mod(v, v, GR.q); PT[id].coins.push_back(v.l()); }
		else if (lg[k].len == 8) PT[id].nw++;
		else PT[id].nx++;
	}
	seam::clear_log();
}
static void hook(const std::string &input, mpz_srcptr output) {
	json c; json in = json::array();
	size_t pos = 0; bool ok = !input.empty() && input[input.size() - 1] == '|';
	while (ok && pos < input.size()) {
		size_t e = input.find('|', pos);
		Mpz v; if (mpz_set_str(v, input.substr(pos, e - pos).c_str(), 16) != 0) { ok = false; break; }
		in.push_back(jnum(v)); pos = e + 1;
	}
	if (!ok) { in = json::array(); in.push_back(-2); }
	c["in"] = in;
	Mpz r; mpz_mod(r, output, GR.q); c["out"] = r.l();
	if (cur >= 0) PT[cur].hcalls.push_back(c);
}

struct Baton {
	std::mutex mu; std::condition_variable cv; int holder;
	Baton(): holder(-1) {}
	void acquire(int id) { std::unique_lock<std::mutex> lk(mu); cv.wait(lk, [&] { return holder == -1; }); holder = id; cur = id; }
	void release(int id) { drain_coins(id); std::unique_lock<std::mutex> lk(mu); cur = -1; holder = -1; cv.notify_all(); }
};
static Baton baton;

// a mutation of one number
static bool mutate_val(Mpz &v, const std::string &m) {
	Mpz o(v);
	if (m == "plus1") mpz_add_ui(v, v, 1);
	else if (m == "plusq") mpz_add(v, v, GR.q);
	else if (m == "zero") mpz_set_ui(v, 0);
	else if (m == "one") mpz_set_ui(v, 1);
	else if (m == "pm1") mpz_sub_ui(v, GR.p, 1);
	else if (m == "p") mpz_set(v, GR.p);
	else if (m == "nonmember") { mpz_mod(v, v, GR.p); mpz_sub(v, GR.p, v); mpz_mod(v, v, GR.p); }
	else if (m == "oversized") { Mpz t(GR.p); mpz_mul_2exp(t, t, 70); mpz_add(v, v, t); }
	else if (m == "plusmp") { Mpz t(GR.p); mpz_mul_ui(t, t, 1000); mpz_add(v, v, t); }      // another representative of the residue mod p, below 2^30
	else if (m == "plusmq") { Mpz t(GR.q); mpz_mul_ui(t, t, 1000); mpz_add(v, v, t); }      // another representative of the residue mod q
	else if (m == "timesg") { mpz_mul(v, v, GR.g); mpz_mod(v, v, GR.p); }                   // another element of the group
	else return false;
	return mpz_cmp(o, v) != 0;
}

// a byte pipe that knows lines: counts them, keeps what was sent and what was delivered, replaces line `target`
struct Pipe {
	std::mutex mu; std::condition_variable cv; std::deque<char> q; bool closed;
	std::string curline; long count, target; std::string mut; bool applied, holding; std::string held;
	std::vector<Mpz> sent, delivered;
	Pipe(): closed(false), count(0), target(-1), applied(false), holding(false) {}
	void deliver(const std::string &ln) {
		Mpz v; mpz_set_str(v, ln.c_str(), TMCG_MPZ_IO_BASE); delivered.push_back(v);
		std::lock_guard<std::mutex> lk(mu); q.insert(q.end(), ln.begin(), ln.end()); q.push_back('\n'); cv.notify_all();
	}
	void line(const std::string &ln) {
		Mpz v; mpz_set_str(v, ln.c_str(), TMCG_MPZ_IO_BASE); sent.push_back(v);
		long idx = count++;
		if (holding) { holding = false; if (held != ln) applied = true; deliver(ln); deliver(held); return; }
		if (idx == target && mut == "swap") { holding = true; held = ln; return; }
		if (idx == target && !mut.empty()) { Mpz w(v); if (mutate_val(w, mut)) { applied = true; deliver(line_of(w)); return; } }
		deliver(ln);
	}
	void flush_held() { if (holding) { holding = false; deliver(held); } }      // the writer has to wait: a swap with the next line is not possible
	void put(const char *s, size_t n) { for (size_t i = 0; i < n; i++) { if (s[i] == '\n') { line(curline); curline.clear(); } else curline.push_back(s[i]); } }
	void close() { flush_held(); std::lock_guard<std::mutex> lk(mu); closed = true; cv.notify_all(); }
	int get(int reader, Pipe *outgoing) {
		std::unique_lock<std::mutex> lk(mu);
		if (q.empty() && !closed) {
			lk.unlock();
			if (outgoing) outgoing->flush_held();
			baton.release(reader);
			lk.lock();
			if (!cv.wait_for(lk, std::chrono::seconds(30), [&] { return !q.empty() || closed; })) { stuck = true; closed = true; }
			lk.unlock();
			baton.acquire(reader);
			lk.lock();
		}
		if (q.empty()) return EOF;
		char c = q.front(); q.pop_front(); return (unsigned char)c;
	}
};
class PipeBuf : public std::streambuf {
	public:
		Pipe *rd, *wr; int id; char ch;
		PipeBuf(Pipe *r, Pipe *w, int i): rd(r), wr(w), id(i) {}
		virtual int underflow() { int c = rd->get(id, wr); if (c == EOF) return EOF; ch = (char)c; setg(&ch, &ch, &ch + 1); return c; }
		virtual int overflow(int c) { if (c != EOF) { char x = (char)c; wr->put(&x, 1); } return c; }
		virtual std::streamsize xsputn(const char *s, std::streamsize n) { wr->put(s, (size_t)n); return n; }
};

// ------------------------------------------------------------------ groups
static std::vector<std::pair<long, long> > PQ_TINY, PQ_ALL;
static bool is_prime(long n) { if (n < 2) return false; for (long d = 2; d * d <= n; d++) if (n % d == 0) return false; return true; }
static void make_group_table() {
	for (long q = 5; q <= 23168; q++) {
		if (!is_prime(q)) continue;
		for (long k = 2; k * q + 1 <= 46337; k += 2) {
			long p = k * q + 1;
			if (!is_prime(p) || k % q == 0) continue;
			if (q >= 11 && q <= 100 && p <= 2000) PQ_TINY.push_back(std::make_pair(p, q));
			if (q >= 100) PQ_ALL.push_back(std::make_pair(p, q));
		}
	}
}
static void element(Mpz &x) {                 // a random element of order q (not 1)
	Mpz k; mpz_sub_ui(k, GR.p, 1); mpz_divexact(k, k, GR.q);
	do { mpz_set_ui(x, 2 + rnd(mpz_get_ui(GR.p) - 3)); mpz_powm(x, x, k, GR.p); } while (mpz_cmp_ui(x.v, 1) == 0);
}
static void set_group(long p, long q, long g, long h) {
	mpz_set_si(GR.p, p); mpz_set_si(GR.q, q);
	if (g) { mpz_set_si(GR.g, g); mpz_set_si(GR.h, h); }
	else { element(GR.g); do element(GR.h); while (mpz_cmp(GR.g, GR.h) == 0); }
	GR.LQ = (mpz_sizeinbase(GR.q, 2) + 64 + 7) / 8;
}
static void pow_g(Mpz &r, const Mpz &e) { mpz_powm(r, GR.g, e, GR.p); }
static void pow_h(Mpz &r, const Mpz &e) { mpz_powm(r, GR.h, e, GR.p); }
static void mulp(Mpz &r, const Mpz &a, const Mpz &b) { mpz_mul(r, a, b); mpz_mod(r, r, GR.p); }

// ------------------------------------------------------------------ one execution
struct Exec {
	std::string form, mode, kind;             // rot|pub ; i|pc|ni ; honest | false:<k> | line | vline | pubin
	size_t n, r;
	std::vector<Mpz> s;
	std::vector<Mpz> X, Y, VX, VY;            // rot: flat pairs (a_0, b_0, a_1, ...); prover's and verifier's view
	std::vector<Mpz> al, c, Val, Vc;          // pub
	long target; std::string mut;             // line mutations
	bool vstream;                             // the verifier's instance is built from the prover's PublishGroup stream with smaller size arguments
	json note;
};
static std::vector<mpz_ptr> ptrs(std::vector<Mpz> &v) { std::vector<mpz_ptr> o; for (size_t i = 0; i < v.size(); i++) o.push_back(v[i].v); return o; }
static std::vector<std::pair<mpz_ptr, mpz_ptr> > pairs(std::vector<Mpz> &v) {
	std::vector<std::pair<mpz_ptr, mpz_ptr> > o; for (size_t i = 0; i + 1 < v.size(); i += 2) o.push_back(std::make_pair((mpz_ptr)v[i].v, (mpz_ptr)v[i + 1].v)); return o;
}
static json jpairs(const std::vector<Mpz> &v) { json a = json::array(); for (size_t i = 0; i + 1 < v.size(); i += 2) { json p = json::array(); p.push_back(jnum(v[i])); p.push_back(jnum(v[i + 1])); a.push_back(p); } return a; }

static void prover_body(Exec &E, HooghSchoenmakersSkoricVillegasVRHE *vrhe, HooghSchoenmakersSkoricVillegasPUBROTZK *pub, std::istream &in, std::ostream &out) {
	std::vector<mpz_ptr> s = ptrs(E.s);
	if (E.form == "rot") {
		std::vector<std::pair<mpz_ptr, mpz_ptr> > X = pairs(E.X), Y = pairs(E.Y);
		if (E.mode == "i") vrhe->Prove_interactive(E.r, s, X, Y, in, out);
		else if (E.mode == "pc") { JareckiLysyanskayaEDCF cf(2, 0, GR.p, GR.q, GR.g, GR.h); vrhe->Prove_interactive_publiccoin(E.r, s, X, Y, &cf, in, out); }
		else vrhe->Prove_noninteractive(E.r, s, X, Y, out);
	} else {
		std::vector<mpz_ptr> al = ptrs(E.al), c = ptrs(E.c);
		if (E.mode == "i") pub->Prove_interactive(E.r, s, al, c, in, out);
		else if (E.mode == "pc") { JareckiLysyanskayaEDCF cf(2, 0, GR.p, GR.q, GR.g, GR.h); pub->Prove_interactive_publiccoin(E.r, s, al, c, &cf, in, out); }
		else pub->Prove_noninteractive(E.r, s, al, c, out);
	}
}
static bool verifier_body(Exec &E, HooghSchoenmakersSkoricVillegasVRHE *vrhe, HooghSchoenmakersSkoricVillegasPUBROTZK *pub, std::istream &in, std::ostream &out) {
	if (E.form == "rot") {
		std::vector<std::pair<mpz_ptr, mpz_ptr> > X = pairs(E.VX), Y = pairs(E.VY);
		if (E.mode == "i") return vrhe->Verify_interactive(X, Y, in, out);
		else if (E.mode == "pc") { JareckiLysyanskayaEDCF cf(2, 0, GR.p, GR.q, GR.g, GR.h); return vrhe->Verify_interactive_publiccoin(X, Y, &cf, in, out); }
		return vrhe->Verify_noninteractive(X, Y, in);
	}
	std::vector<mpz_ptr> al = ptrs(E.Val), c = ptrs(E.Vc);
	if (E.mode == "i") return pub->Verify_interactive(al, c, in, out);
	else if (E.mode == "pc") { JareckiLysyanskayaEDCF cf(2, 0, GR.p, GR.q, GR.g, GR.h); return pub->Verify_interactive_publiccoin(al, c, &cf, in, out); }
	return pub->Verify_noninteractive(al, c, in);
}

static void run_exec(Exec &E, json src, std::ofstream &out) {
	HooghSchoenmakersSkoricVillegasVRHE vrhe(GR.p, GR.q, GR.g, GR.h, mpz_sizeinbase(GR.p, 2), mpz_sizeinbase(GR.q, 2));
	HooghSchoenmakersSkoricVillegasPUBROTZK pub(GR.p, GR.q, GR.g, GR.h);
	// the verifier's own instance: like a non-leader, from the published stream, announcing sizes below the real ones
	// (the size arguments are lower bounds)
	HooghSchoenmakersSkoricVillegasVRHE *vrhe_v = &vrhe;
	if (E.vstream) {
		std::stringstream pg; vrhe.PublishGroup(pg);
		size_t fb = mpz_sizeinbase(GR.p, 2), qb = mpz_sizeinbase(GR.q, 2);
		vrhe_v = new HooghSchoenmakersSkoricVillegasVRHE(pg, fb > 3 ? fb - 3 : 1, qb > 3 ? qb - 3 : 1);
	}
	PT[0].reset(); PT[1].reset(); stuck = false;
	seam::clear_log(); seam::record(true);
	Pipe p2v, v2p;
	if (E.kind == "line") { p2v.target = E.target; p2v.mut = E.mut; }
	if (E.kind == "vline") { v2p.target = E.target; v2p.mut = E.mut; }
	bool ret = false;
	if (E.mode == "ni") {
		std::ostringstream po; std::istringstream none;
		cur = 0;
		try { prover_body(E, &vrhe, &pub, none, po); } catch (const std::exception &e) { PT[0].exc = true; PT[0].what = e.what(); } catch (...) { PT[0].exc = true; }
		drain_coins(0);
		std::string txt = po.str(); p2v.put(txt.data(), txt.size()); p2v.close();
		std::string dl; for (size_t k = 0; k < p2v.delivered.size(); k++) { dl += line_of(p2v.delivered[k]); dl += "\n"; }
		std::istringstream vi(dl); std::ostringstream vo;
		cur = 1;
		try { ret = verifier_body(E, vrhe_v, &pub, vi, vo); } catch (const std::exception &e) { PT[1].exc = true; PT[1].what = e.what(); } catch (...) { PT[1].exc = true; }
		drain_coins(1); cur = -1;
	} else {
		PipeBuf pb(&v2p, &p2v, 0), vb(&p2v, &v2p, 1);
		std::iostream pio(&pb), vio(&vb);
		std::atomic<bool> pstarted(false);
		std::thread prover([&]() {
			baton.acquire(0); pstarted = true;
			try { prover_body(E, &vrhe, &pub, pio, pio); } catch (const std::exception &e) { PT[0].exc = true; PT[0].what = e.what(); } catch (...) { PT[0].exc = true; }
			p2v.close(); baton.release(0);
		});
		while (!pstarted) std::this_thread::yield();
		std::thread verifier([&]() {
			baton.acquire(1);
			try { ret = verifier_body(E, vrhe_v, &pub, vio, vio); } catch (const std::exception &e) { PT[1].exc = true; PT[1].what = e.what(); } catch (...) { PT[1].exc = true; }
			v2p.close(); baton.release(1);
		});
		prover.join(); verifier.join();
	}
	seam::record(false); seam::clear_log();
	if (vrhe_v != &vrhe) delete vrhe_v;
	json ev;
	ev["e"] = "Reset"; ev["src"] = src; ev["form"] = E.form; ev["mode"] = E.mode; ev["kind"] = E.kind; ev["n"] = E.n;
	ev["grp"] = json::array({GR.p.l(), GR.q.l(), GR.g.l(), GR.h.l()});
	ev["r"] = E.r; ev["s"] = jnums(E.s); ev["vstream"] = E.vstream;
	if (E.form == "rot") { ev["X"] = jpairs(E.X); ev["Y"] = jpairs(E.Y); ev["VX"] = jpairs(E.VX); ev["VY"] = jpairs(E.VY); }
	else { ev["al"] = jnums(E.al); ev["c"] = jnums(E.c); ev["Val"] = jnums(E.Val); ev["Vc"] = jnums(E.Vc); }
	ev["target"] = E.target; ev["mut"] = E.mut.empty() ? "none" : E.mut; ev["note"] = E.note;
	out << ev.dump() << "\n";
	json pe; pe["e"] = "Prove"; pe["coins"] = PT[0].coins; pe["nw"] = PT[0].nw; pe["nx"] = PT[0].nx; pe["h"] = PT[0].hcalls;
	pe["in"] = jnums(v2p.delivered); pe["vsent"] = jnums(v2p.sent); pe["out"] = jnums(p2v.sent); pe["exc"] = PT[0].exc ? 1 : 0; pe["vapplied"] = v2p.applied;
	if (PT[0].exc) pe["what"] = PT[0].what;
	out << pe.dump() << "\n";
	json ve; ve["e"] = "Verify"; ve["coins"] = PT[1].coins; ve["nw"] = PT[1].nw; ve["nx"] = PT[1].nx; ve["h"] = PT[1].hcalls;
	ve["in"] = jnums(p2v.delivered); ve["out"] = jnums(v2p.sent); ve["ret"] = ret; ve["exc"] = PT[1].exc ? 1 : 0; ve["applied"] = p2v.applied;
	if (PT[1].exc) ve["what"] = PT[1].what;
	out << ve.dump() << "\n";
	json ee; ee["e"] = "End"; ee["stuck"] = stuck;
	out << ee.dump() << "\n";
	out.flush();
}

// ------------------------------------------------------------------ statements
static void rand_q(Mpz &x) { mpz_set_ui(x, rnd(mpz_get_ui(GR.q))); }
static void make_true_rot(Exec &E) {
	E.X.clear(); E.Y.clear(); E.s.clear();
	for (size_t k = 0; k < E.n; k++) {        // X_k: encryption of g^m_k
		Mpz m, x, a, b, t; rand_q(m); rand_q(x); pow_g(a, x); pow_h(b, x); pow_g(t, m); mulp(b, b, t);
		E.X.push_back(a); E.X.push_back(b);
	}
	for (size_t k = 0; k < E.n; k++) { Mpz sk; rand_q(sk); E.s.push_back(sk); }
	for (size_t k = 0; k < E.n; k++) {
		size_t kr = (k + E.n - E.r) % E.n; Mpz d, e, t;
		pow_g(t, E.s[k]); mulp(d, E.X[2 * kr], t); pow_h(t, E.s[k]); mulp(e, E.X[2 * kr + 1], t);
		E.Y.push_back(d); E.Y.push_back(e);
	}
}
static void make_true_pub(Exec &E) {
	E.al.clear(); E.c.clear(); E.s.clear();
	for (size_t k = 0; k < E.n; k++) { Mpz a; rand_q(a); E.al.push_back(a); }
	for (size_t k = 0; k < E.n; k++) { Mpz sk; rand_q(sk); E.s.push_back(sk); }
	for (size_t k = 0; k < E.n; k++) { size_t kr = (k + E.n - E.r) % E.n; Mpz a, b; pow_g(a, E.al[kr]); pow_h(b, E.s[k]); mulp(a, a, b); E.c.push_back(a); }
}
// does the claimed witness fit the statement?
static bool fits(const Exec &E) {
	for (size_t k = 0; k < E.n; k++) {
		size_t kr = (k + E.n - (E.r % E.n)) % E.n; Mpz a, b, t;
		if (E.form == "rot") {
			pow_g(t, E.s[k]); mulp(a, E.X[2 * kr], t); pow_h(t, E.s[k]); mulp(b, E.X[2 * kr + 1], t);
			if (mpz_cmp(a, E.Y[2 * k]) || mpz_cmp(b, E.Y[2 * k + 1])) return false;
		} else {
			pow_g(a, E.al[kr]); pow_h(b, E.s[k]); mulp(a, a, b);
			if (mpz_cmp(a, E.c[k])) return false;
		}
	}
	return true;
}
static const char *FALSE_ROT[] = {"noncyclic", "subst", "dup", "retype", "c1only", "c2only"};
static void falsify_rot(Exec &E, const std::string &kd) {
	size_t n = E.n, k = rnd(n), k2 = (k + 1) % n; Mpz e, t; mpz_set_ui(e, 1 + rnd(mpz_get_ui(GR.q) - 1));
	if (kd == "noncyclic") { std::swap(E.Y[2 * k], E.Y[2 * k2]); std::swap(E.Y[2 * k + 1], E.Y[2 * k2 + 1]); }
	else if (kd == "subst") { Mpz x, m; rand_q(x); rand_q(m); pow_g(E.Y[2 * k], x); pow_h(E.Y[2 * k + 1], x); pow_g(t, m); mulp(E.Y[2 * k + 1], E.Y[2 * k + 1], t); }
	else if (kd == "dup") { E.Y[2 * k] = E.Y[2 * k2]; E.Y[2 * k + 1] = E.Y[2 * k2 + 1]; }
	else if (kd == "retype") { pow_g(t, e); mulp(E.Y[2 * k + 1], E.Y[2 * k + 1], t); }
	else if (kd == "c1only") { pow_g(t, e); mulp(E.Y[2 * k], E.Y[2 * k], t); }
	else if (kd == "c2only") { pow_h(t, e); mulp(E.Y[2 * k + 1], E.Y[2 * k + 1], t); }
	E.note["k"] = k;
	// the witness the prover claims: its own, another rotation, or other randomisers
	unsigned long w = rnd(4);
	if (w == 1) E.r = rnd(n);
	if (w == 2) rand_q(E.s[rnd(n)]);
}
static const char *FALSE_PUB[] = {"othervalue", "swapalpha", "otherrand", "dupc"};
static void falsify_pub(Exec &E, const std::string &kd) {
	size_t n = E.n, k = rnd(n), k2 = (k + 1) % n; Mpz e, t; mpz_set_ui(e, 1 + rnd(mpz_get_ui(GR.q) - 1));
	if (kd == "othervalue") { pow_g(t, e); mulp(E.c[k], E.c[k], t); }                 // c_k commits to another value
	else if (kd == "swapalpha") { Mpz a(E.c[k]); E.c[k] = E.c[k2]; E.c[k2] = a; }       // commitments in non-cyclic order
	else if (kd == "otherrand") { pow_h(t, e); mulp(E.c[k], E.c[k], t); }              // true statement, the witness does not fit
	else if (kd == "dupc") { E.c[k] = E.c[k2]; }
	E.note["k"] = k;
	if (rnd(4) == 1) E.r = rnd(n);
}
// ---- C05: a systematic sweep over (form, challenge source, class of the replaced value, mutation)
// position (0-based, in the sequence of proper protocol lines) of element k of a class
static long proper_pos(const std::string &form, const std::string &cls, long n, long k) {
	if (form == "rot") {
		if (cls == "h") return k; if (cls == "A1") return n + 2 * k; if (cls == "A2") return n + 2 * k + 1; if (cls == "v") return 3 * n;
		if (cls == "f") return 3 * n + 1 + k; if (cls == "F1") return 4 * n + 1 + 2 * k; if (cls == "F2") return 4 * n + 2 + 2 * k;
		if (cls == "tau") return 6 * n + 1 + k; if (cls == "rho") return 7 * n + 1 + k; if (cls == "mu") return 8 * n + 1 + k;
		if (cls == "pf") return 9 * n + 1 + k; if (cls == "plam") return 10 * n + 1 + k; if (cls == "pt") return 11 * n + 1 + k;
	} else {
		if (cls == "pf") return k; if (cls == "plam") return n + k; if (cls == "pt") return 2 * n + k;
	}
	return 0;
}
// with public coin the flips' lines (3 per challenge) lie in between
static long stream_pos(const std::string &form, const std::string &mode, long n, long pp) {
	if (mode != "pc") return pp;
	if (form == "rot") return pp + (pp <= 6 * n ? 3 * n : pp <= 9 * n ? 3 * n + 3 : pp <= 10 * n ? 6 * n + 3 : 6 * n + 6);
	return pp + (pp < n ? 3 * n : 3 * n + 3);
}
// first line of flip number f (0-based) in the prover's stream
static long flip_base(const std::string &form, long n, long f) {
	if (form == "rot") return f < n ? 3 * f : f == n ? 9 * n + 1 : f <= 2 * n ? 12 * n + 4 + 3 * (f - n - 1) : 16 * n + 4;
	return f < n ? 3 * f : 4 * n;
}
static const char *LINE_MUTS[] = {"plus1", "plusq", "zero", "one", "pm1", "p", "nonmember", "oversized", "swap"};
static const char *PUB_MUTS[] = {"plus1", "plusq", "zero", "one", "pm1", "p", "nonmember", "plusmp", "plusmq", "timesg", "swap"};
static const char *V_MUTS[] = {"plus1", "plusq", "zero", "one", "plusmq", "swap"};
static const char *ROT_CLS[] = {"h", "A1", "A2", "v", "f", "F1", "F2", "tau", "rho", "mu", "pf", "plam", "pt"};
static const char *PUB_CLS[] = {"pf", "plam", "pt"};
static const char *MODES[] = {"i", "pc", "ni"};
struct Case05 { std::string form, mode, kind, cls, mut; };
static std::vector<Case05> SWEEP;
static unsigned long NMAX = 6;            // largest size in C05 executions
static void make_sweep() {
	for (int m = 0; m < 3; m++) for (int c = 0; c < 13; c++) for (int u = 0; u < 9; u++) SWEEP.push_back({"rot", MODES[m], "line", ROT_CLS[c], LINE_MUTS[u]});
	for (int m = 0; m < 3; m++) for (int c = 0; c < 3; c++) for (int u = 0; u < 9; u++) SWEEP.push_back({"pub", MODES[m], "line", PUB_CLS[c], LINE_MUTS[u]});
	for (int f = 0; f < 2; f++) for (int c = 0; c < 3; c++) for (int u = 0; u < 9; u++) SWEEP.push_back({f ? "pub" : "rot", "pc", "flip", c == 0 ? "C" : c == 1 ? "a" : "ah", LINE_MUTS[u]});
	for (int m = 0; m < 3; m++) for (int c = 0; c < 4; c++) for (int u = 0; u < 11; u++) SWEEP.push_back({"rot", MODES[m], "pubin", c == 0 ? "X1" : c == 1 ? "X2" : c == 2 ? "Y1" : "Y2", PUB_MUTS[u]});
	for (int m = 0; m < 3; m++) for (int c = 0; c < 2; c++) for (int u = 0; u < 11; u++) SWEEP.push_back({"pub", MODES[m], "pubin", c == 0 ? "al" : "c", PUB_MUTS[u]});
	for (int c = 0; c < 4; c++) for (int u = 0; u < 6; u++) SWEEP.push_back({"rot", "i", "vline", c == 0 ? "alpha" : c == 1 ? "lambda" : c == 2 ? "beta" : "lambda2", V_MUTS[u]});
	for (int c = 0; c < 2; c++) for (int u = 0; u < 6; u++) SWEEP.push_back({"pub", "i", "vline", c == 0 ? "beta" : "lambda2", V_MUTS[u]});
}

static void plan(Exec &E, const std::string &part, unsigned long idx) {
	E.note = json::object(); E.target = -1; E.mut.clear();
	// group: tiny ones (coincidences happen and must be predicted) and the whole range
	bool tiny = (part == "C04") ? (rnd(10) < 6) : (rnd(10) < 4);
	if (idx % 16 == 0) set_group(23, 11, 2, 3);
	else if (idx % 16 == 1) set_group(47, 23, 2, 3);
	else { std::pair<long, long> pq = tiny ? PQ_TINY[rnd(PQ_TINY.size())] : PQ_ALL[rnd(PQ_ALL.size())]; set_group(pq.first, pq.second, 0, 0); }
	E.mode = MODES[idx % 3];
	E.form = ((idx / 3) % 3 == 2) ? "pub" : "rot";
	E.n = 2 + (idx / 9) % 5;                  // 2 .. 6
	const Case05 *cs = NULL;
	if (part == "C05") { cs = &SWEEP[idx % SWEEP.size()]; E.mode = cs->mode; E.form = cs->form; E.n = 2 + rnd(NMAX - 1); if (rnd(3) == 0) E.n = 2; }
	E.r = rnd(E.n);
	if (E.form == "rot") make_true_rot(E); else make_true_pub(E);
	E.kind = "honest";
	if (part == "C04") {
		// (an edit can leave the relation intact, e.g. two equal commitments swapped: drawn again.  This only plans the
		// execution; what the statement is worth is decided by the specification)
		std::string kd;
		for (int tries = 0; ; tries++) {
			if (E.form == "rot") { do kd = FALSE_ROT[rnd(6)]; while (kd == "noncyclic" && E.n < 3); if (tries > 20) kd = "retype"; falsify_rot(E, kd); }
			else { do kd = FALSE_PUB[rnd(4)]; while (kd == "swapalpha" && E.n < 3); if (tries > 20) kd = "othervalue"; falsify_pub(E, kd); }
			if (!fits(E)) break;
			E.r = rnd(E.n); if (E.form == "rot") make_true_rot(E); else make_true_pub(E);
		}
		E.kind = "false:" + kd;
	}
	E.VX = E.X; E.VY = E.Y; E.Val = E.al; E.Vc = E.c;
	E.vstream = (E.form == "rot") && ((idx / 2) % 2 == 1);
	if (cs) {
		long n = (long)E.n, k = (long)rnd(E.n);
		E.mut = cs->mut; E.note["cls"] = cs->cls; E.note["k"] = k;
		if (cs->kind == "line") { E.kind = "line"; E.target = stream_pos(E.form, E.mode, n, proper_pos(E.form, cs->cls, n, cs->cls == "v" ? 0 : k)); }
		else if (cs->kind == "flip") { long nch = (E.form == "rot") ? 2 * n + 2 : n + 1, f = (long)rnd(nch); E.kind = "line"; E.note["flip"] = f;
			E.target = flip_base(E.form, n, f) + (cs->cls == "C" ? 0 : cs->cls == "a" ? 1 : 2); }
		else if (cs->kind == "vline") { E.kind = "vline";
			if (E.form == "rot") E.target = cs->cls == "alpha" ? k : cs->cls == "lambda" ? n : cs->cls == "beta" ? n + 1 + k : 2 * n + 1;
			else E.target = cs->cls == "beta" ? k : n; }
		else {
			E.kind = "pubin";
			std::vector<Mpz> *v; size_t j;
			if (cs->cls == "X1") { v = &E.VX; j = 2 * k; } else if (cs->cls == "X2") { v = &E.VX; j = 2 * k + 1; }
			else if (cs->cls == "Y1") { v = &E.VY; j = 2 * k; } else if (cs->cls == "Y2") { v = &E.VY; j = 2 * k + 1; }
			else if (cs->cls == "al") { v = &E.Val; j = k; } else { v = &E.Vc; j = k; }
			bool ch;
			if (E.mut == "swap") { size_t j2 = (j + 1) % v->size(); ch = mpz_cmp((*v)[j], (*v)[j2]) != 0; Mpz t((*v)[j]); (*v)[j] = (*v)[j2]; (*v)[j2] = t; }
			else ch = mutate_val((*v)[j], E.mut);
			E.note["j"] = j; E.note["changed"] = ch;
		}
	}
}

int main(int argc, char **argv) {
	install_terminate("drv_rotation");
	quiet_cerr();
	if (!init_libTMCG()) return 2;
	tmcg_verif_shash_hook = hook;
	make_group_table(); make_sweep();
	if (argc >= 6 && !strcmp(argv[1], "record")) {
		unsigned long seed = strtoul(argv[2], NULL, 10), nexec = strtoul(argv[3], NULL, 10); std::string part = argv[4];
		unsigned long first = argc >= 7 ? strtoul(argv[6], NULL, 10) : 0;       // index of the first execution (C05: position in the sweep)
		if (argc >= 8) NMAX = strtoul(argv[7], NULL, 10);
		std::ofstream out(argv[5]);
		for (unsigned long k = first; k < first + nexec; k++) {
			seam::seed_harness(seed * 1000003UL + k * 7919UL + (part == "C03" ? 1 : part == "C04" ? 2 : 3)); seam::seed(seed * 104729UL + k);
			Exec E; plan(E, part, k);
			json src; src["seed"] = seed; src["idx"] = k; src["part"] = part;
			run_exec(E, src, out);
		}
		return 0;
	}
	if (argc >= 2 && !strcmp(argv[1], "sweepsize")) { printf("%zu\n", SWEEP.size()); return 0; }
	return 2;
}
