// drv_sampler: runs the real samplers of libTMCG (src/mpz_srandom.cc, random_permutation_fast / random_rotation and
// TMCG_CreateStackSecret of src/SchindelhauerTMCG.cc) on dictated or recorded coins and reports the raw results.
// No expected value is computed here: spec/Sampler.tla (through SamplerGen / SamplerTrace) is the oracle.
//   drv_sampler cases <cases.ndjson> <results.ndjson> [skip]   cases printed by TLC (direction A); one result line per case;
//        a call that does not return within 8 s ends the process with exit 4 after a {"hang":true} line (resume with skip)
//   drv_sampler record <seed> <count> <trace.ndjson> [maxn]   seeded random calls, every coin drawn is logged (direction B)
// Numbers travel as little-endian byte arrays (the digit strings of spec/Digits.tla with Base = 256); a raw 64-bit
// word is always 8 digits; a byte string drawn by the residue sampler is given in the order it fills the buffer.
#include "common.hh"
#include <functional>
#include <csignal>
#include <sys/types.h>
#include <sys/wait.h>
#include <gcrypt.h>
#define private public
#define protected public
#include "libTMCG.hh"
#undef private
#undef protected
#include "mpz_srandom.hh"

// not declared in any header of the library, but external symbols of SchindelhauerTMCG.cc
void random_permutation_fast(const size_t n, std::vector<size_t> &pi);
size_t random_rotation(const size_t n, std::vector<size_t> &pi);

// ---------------------------------------------------------------- number <-> digits
static json digits_of_mpz(mpz_srcptr x) {           // trimmed, little endian
	json d = json::array();
	size_t cnt = (mpz_sizeinbase(x, 2) + 7) / 8;
	if (mpz_sgn(x) == 0) return d;
	std::vector<unsigned char> b(cnt, 0);
	size_t c2 = 0;
	mpz_export(b.data(), &c2, -1, 1, 1, 0, x);
	for (size_t i = 0; i < c2; i++) d.push_back((int)b[i]);
	return d;
}
static void mpz_of_digits(mpz_ptr x, const json &d) {
	std::vector<unsigned char> b;
	for (size_t i = 0; i < d.size(); i++) b.push_back((unsigned char)d[i].get<int>());
	if (b.empty()) mpz_set_ui(x, 0); else mpz_import(x, b.size(), -1, 1, 1, 0, b.data());
}
static json digits_of_word(unsigned long w) {       // always 8 digits
	json d = json::array();
	for (int i = 0; i < 8; i++) d.push_back((int)((w >> (8 * i)) & 0xff));
	return d;
}
static unsigned long word_of_digits(const json &d) {
	unsigned long w = 0;
	for (size_t i = 0; i < d.size() && i < 8; i++) w |= ((unsigned long)(d[i].get<int>() & 0xff)) << (8 * i);
	return w;
}
static std::vector<unsigned char> unhex(const std::string &h) {
	std::vector<unsigned char> b;
	for (size_t i = 0; i + 1 < h.size(); i += 2) b.push_back((unsigned char)strtoul(h.substr(i, 2).c_str(), NULL, 16));
	return b;
}

// ---------------------------------------------------------------- what the library drew during one call
struct Drawn { json words, wlv, draws, lens, lv; size_t other; };
static void begin_call() { seam::clear_log(); seam::record(true); seam::reset_counters(); }
// word_only: calls in which the 8-byte draws are the sampler's words and everything else (card secrets) is noise
static Drawn end_call() {
	Drawn d; d.words = json::array(); d.wlv = json::array(); d.draws = json::array(); d.lens = json::array();
	d.lv = json::array(); d.other = 0;
	std::vector<seam::Draw> &lg = seam::log();
	for (size_t i = 0; i < lg.size(); i++) {
		std::vector<unsigned char> b = unhex(lg[i].hex);
		json bytes = json::array();
		for (size_t k = 0; k < b.size(); k++) bytes.push_back((int)b[k]);
		d.draws.push_back(bytes); d.lens.push_back(lg[i].len); d.lv.push_back(lg[i].level);
		if (lg[i].len == sizeof(unsigned long)) {
			unsigned long w = 0; memcpy(&w, b.data(), sizeof(w));        // tmcg_mpz_grandom_ui reads the buffer natively
			d.words.push_back(digits_of_word(w)); d.wlv.push_back(lg[i].level);
		} else d.other++;
	}
	seam::record(false); seam::clear_log();
	return d;
}

// ---------------------------------------------------------------- watchdog: a call that does not return is a result too
#include <fcntl.h>
static int g_outfd = -1;
static char g_marker[512];
static void on_alarm(int) {
	if (g_outfd >= 0) { ssize_t k = write(g_outfd, g_marker, strlen(g_marker)); (void)k; }
	_exit(4);
}
static void out_line(const std::string &s) {
	std::string t = s + "\n"; size_t off = 0;
	while (off < t.size()) { ssize_t k = write(g_outfd, t.data() + off, t.size() - off); if (k <= 0) break; off += k; }
}
static const unsigned WATCHDOG_S = 8;

// ---------------------------------------------------------------- a call in a child process (crash = result)
static json isolated(const std::function<json()> &f) {
	int fd[2];
	if (pipe(fd) != 0) { json r; r["exc"] = "pipe failed"; return r; }
	fflush(stdout);
	pid_t pid = fork();
	if (pid == 0) {
		close(fd[0]);
		signal(SIGALRM, SIG_DFL);
		alarm(WATCHDOG_S);
		json r = f();
		std::string s = r.dump();
		size_t off = 0;
		while (off < s.size()) { ssize_t k = write(fd[1], s.data() + off, s.size() - off); if (k <= 0) break; off += k; }
		close(fd[1]);
		_exit(0);
	}
	close(fd[1]);
	std::string s; char buf[4096]; ssize_t k;
	while ((k = read(fd[0], buf, sizeof(buf))) > 0) s.append(buf, k);
	close(fd[0]);
	int st = 0; waitpid(pid, &st, 0);
	if (WIFSIGNALED(st)) { json r; r["crash"] = WTERMSIG(st); return r; }
	if (s.empty()) { json r; r["crash"] = -1; r["status"] = st; return r; }
	return json::parse(s);
}

// ---------------------------------------------------------------- the library objects (tiny parameters)
static SchindelhauerTMCG *tmcg = NULL;
static BarnettSmartVTMF_dlog *vtmf = NULL;
static TMCG_PublicKeyRing *ring = NULL;
static void setup_objects() {
	tmcg = new SchindelhauerTMCG(16, 2, 2);          // 2 players, 2 type bits
	std::stringstream g;                                 // Schnorr group p=23 q=11 g=2 k=2 (DESIGN 2.6)
	Mpz p(23), q(11), gg(2), k(2);
	g << p.s(TMCG_MPZ_IO_BASE) << std::endl << q.s(TMCG_MPZ_IO_BASE) << std::endl << gg.s(TMCG_MPZ_IO_BASE) << std::endl
	  << k.s(TMCG_MPZ_IO_BASE) << std::endl;
	vtmf = new BarnettSmartVTMF_dlog(g, 5, 4);
	ring = new TMCG_PublicKeyRing(2);                    // only the moduli are used by TMCG_CreateCardSecret
	mpz_set_ui(ring->keys[0].m, 77); mpz_set_ui(ring->keys[0].y, 10);
	mpz_set_ui(ring->keys[1].m, 209); mpz_set_ui(ring->keys[1].y, 2);
}

// one shuffle / rotation through the entry point `via`; result: arrangement, returned offset
static json call_stack(const std::string &via, bool cyclic, size_t n) {
	json r; std::vector<size_t> pi; size_t ret = 0;
	try {
		if (via == "fn") {
			if (cyclic) ret = random_rotation(n, pi); else random_permutation_fast(n, pi);
		} else if (via == "vtmf") {
			TMCG_StackSecret<VTMF_CardSecret> ss;
			ret = tmcg->TMCG_CreateStackSecret(ss, cyclic, n, vtmf);
			for (size_t i = 0; i < ss.size(); i++) pi.push_back(ss[i].first);
		} else {
			TMCG_StackSecret<TMCG_CardSecret> ss;
			ret = tmcg->TMCG_CreateStackSecret(ss, cyclic, *ring, 0, n);
			for (size_t i = 0; i < ss.size(); i++) pi.push_back(ss[i].first);
		}
		r["pi"] = json::array();
		for (size_t i = 0; i < pi.size(); i++) r["pi"].push_back(pi[i]);
		r["ret"] = ret;
	} catch (const std::exception &e) { r["exc"] = e.what(); }
	catch (...) { r["exc"] = "unknown"; }
	return r;
}
static unsigned long call_mod(const std::string &lvl, unsigned long m) {
	if (lvl == "ss") return tmcg_mpz_ssrandom_mod(m);
	if (lvl == "s") return tmcg_mpz_srandom_mod(m);
	return tmcg_mpz_wrandom_mod(m);
}
static void call_randomm(const std::string &lvl, mpz_ptr r, mpz_srcptr m) {
	if (lvl == "ss") tmcg_mpz_ssrandomm(r, m);
	else if (lvl == "s") tmcg_mpz_srandomm(r, m);
	else tmcg_mpz_wrandomm(r, m);
}

// ---------------------------------------------------------------- direction A
static json run_stack_case(const json &c, const std::string &via, uint64_t sd) {
	bool cyclic = c["kind"] == "rot";
	size_t n = c["n"].get<size_t>();
	std::function<json()> f = [&]() {
		seam::seed(sd); seam::clear_script();
		for (size_t i = 0; i < c["words"].size(); i++) seam::push_native_ul(word_of_digits(c["words"][i]));
		begin_call();
		json r = call_stack(via, cyclic, n);
		Drawn d = end_call();
		r["used"] = d.words.size(); r["pending"] = seam::pending(); r["lv"] = d.wlv; r["ws"] = d.words;
		seam::clear_script();
		return r;
	};
	json r = (n <= 1) ? isolated(f) : f();               // the degenerate sizes may take the process down
	r["via"] = via;
	return r;
}
static json run_mod_case(const json &c, const std::string &lvl, uint64_t sd) {
	Mpz m; mpz_of_digits(m.v, c["m"]);
	json r; r["lvl"] = lvl;
	if (mpz_sizeinbase(m.v, 2) > 64) { r["exc"] = "modulus does not fit unsigned long"; return r; }
	seam::seed(sd); seam::clear_script();
	for (size_t i = 0; i < c["words"].size(); i++) seam::push_native_ul(word_of_digits(c["words"][i]));
	begin_call();
	try {
		unsigned long v = call_mod(lvl, mpz_get_ui(m.v));
		Mpz x; mpz_set_ui(x.v, v); r["val"] = digits_of_mpz(x.v);
	} catch (const std::exception &e) { r["exc"] = e.what(); }
	Drawn d = end_call();
	r["used"] = d.words.size(); r["pending"] = seam::pending(); r["lv"] = d.wlv; r["ws"] = d.words; r["other"] = d.other;
	seam::clear_script();
	return r;
}
static json run_resid_case(const json &c, const std::string &lvl, uint64_t sd) {
	Mpz m, x; mpz_of_digits(m.v, c["m"]);
	json r; r["lvl"] = lvl;
	seam::seed(sd); seam::clear_script();
	std::vector<unsigned char> b;
	for (size_t i = 0; i < c["draw"].size(); i++) b.push_back((unsigned char)c["draw"][i].get<int>());
	seam::push_bytes(b);
	begin_call();
	try { call_randomm(lvl, x.v, m.v); r["val"] = digits_of_mpz(x.v); r["neg"] = (mpz_sgn(x.v) < 0); }
	catch (const std::exception &e) { r["exc"] = e.what(); }
	Drawn d = end_call();
	r["lens"] = d.lens; r["lv"] = d.lv; r["pending"] = seam::pending();
	seam::clear_script();
	return r;
}
static int do_cases(const std::string &in, const std::string &out, size_t start) {
	std::ifstream f(in); std::string line; size_t k = 0;
	g_outfd = open(out.c_str(), O_WRONLY | O_CREAT | (start ? O_APPEND : O_TRUNC), 0644);
	if (g_outfd < 0) return 2;
	signal(SIGALRM, on_alarm);
	while (std::getline(f, line)) {
		if (line.empty()) continue;
		k++;
		if (k <= start) continue;                          // resumed after a call that did not return
		json c = json::parse(line), res; res["id"] = c["id"]; res["runs"] = json::array();
		snprintf(g_marker, sizeof(g_marker), "{\"id\":%ld,\"hang\":true,\"line\":%zu}\n", c["id"].get<long>(), k);
		alarm(WATCHDOG_S);
		std::string kind = c["kind"];
		if (kind == "perm" || kind == "rot") {
			const char *vias[3] = {"fn", "vtmf", "ring"};
			for (int v = 0; v < 3; v++) res["runs"].push_back(run_stack_case(c, vias[v], 1000 * k + v));
		} else if (kind == "mod") {
			for (size_t v = 0; v < c["lvls"].size(); v++) res["runs"].push_back(run_mod_case(c, c["lvls"][v], 1000 * k + v));
		} else if (kind == "resid") {
			for (size_t v = 0; v < c["lvls"].size(); v++) res["runs"].push_back(run_resid_case(c, c["lvls"][v], 1000 * k + v));
		}
		alarm(0);
		out_line(res.dump());
	}
	close(g_outfd);
	printf("{\"cases\":%zu}\n", k);
	return 0;
}

// ---------------------------------------------------------------- direction B
static uint64_t H() { return seam::next64(); }
// a word that is interesting for the bounded sampler with modulus m: anywhere, next to the top of the word
// space (where the rejected words are), or in the first blocks
static unsigned long tricky_word(unsigned long m) {
	unsigned __int128 W = ((unsigned __int128)1) << 64;
	switch (H() % 6) {
		case 0: return (unsigned long)(W - 1 - (H() % (2 * (unsigned __int128)(m < 300 ? m : 300))));
		case 1: { unsigned long ab = (unsigned long)((W / m) * m - 1); return ab + (unsigned long)(H() % 5) - 2; }   // around the last accepted word (wraps harmlessly)
		case 2: return (unsigned long)(H() % (3 * (unsigned __int128)m < W ? 3 * (unsigned __int128)m : W));
		default: return (unsigned long)H();
	}
}
static const char *LV[3] = {"ss", "s", "w"};
static unsigned long pick_modulus() {
	unsigned k = 1 + H() % 63;
	switch (H() % 8) {
		case 0: return 2 + H() % 3;
		case 1: { unsigned long m = (1UL << k) + (unsigned long)(H() % 3) - 1; return m < 2 ? 2 : m; }
		case 2: return (1UL << 63) + (H() % 1000);
		case 3: return ULONG_MAX - (H() % 4);
		case 4: return 2 + H() % 64;
		case 5: return 2 + H() % 100000;
		default: { unsigned long m = H() >> (H() % 64); return m < 2 ? 2 : m; }
	}
}
static int do_record(uint64_t seed, size_t count, const std::string &out, size_t maxn) {
	g_outfd = open(out.c_str(), O_WRONLY | O_CREAT | O_TRUNC, 0644);
	if (g_outfd < 0) return 2;
	signal(SIGALRM, on_alarm);
	seam::seed(seed); seam::seed_harness(seed);
	const char *vias[3] = {"fn", "vtmf", "ring"};
	for (size_t it = 0; it < count; it++) {
		json ev;
		unsigned what = H() % 10;
		snprintf(g_marker, sizeof(g_marker), "{\"e\":\"Hang\",\"it\":%zu,\"what\":%u}\n", it, what);
		alarm(WATCHDOG_S);
		if (what < 6) {                                   // shuffle or rotation
			bool cyclic = (what >= 4);
			size_t n;
			switch (H() % 5) { case 0: n = 2 + H() % 5; break; case 1: n = 52; break; case 2: n = maxn; break; default: n = 1 + H() % maxn; }
			if (cyclic && n < 2) n = 2;                   // degenerate sizes: see the cases of direction A
			std::string via = vias[H() % 3];
			seam::clear_script();
			bool dictate = (H() % 3) != 0;                // otherwise all coins come from the seeded generator
			if (dictate) {
				size_t steps = cyclic ? 1 : n - 1;
				for (size_t j = 0; j < steps + 6; j++) {
					unsigned long m = cyclic ? n : (n - (j < steps ? j : steps - 1));
					seam::push_native_ul(tricky_word(m < 1 ? 1 : m));
				}
			}
			begin_call();
			json r = call_stack(via, cyclic, n);
			Drawn d = end_call();
			seam::clear_script();
			ev["e"] = cyclic ? "Rot" : "Perm"; ev["via"] = via; ev["n"] = n; ev["ws"] = d.words; ev["lv"] = d.wlv;
			ev["other"] = d.other;
			if (r.count("exc")) ev["exc"] = r["exc"]; else { ev["pi"] = r["pi"]; ev["ret"] = r["ret"]; }
		} else if (what < 8) {                            // bounded sampler
			unsigned long m = pick_modulus();
			std::string lvl = LV[H() % 3];
			seam::clear_script();
			for (int j = 0; j < 6; j++) seam::push_native_ul(tricky_word(m));
			begin_call();
			Mpz x, mm; mpz_set_ui(mm.v, m);
			try { unsigned long v = call_mod(lvl, m); mpz_set_ui(x.v, v); ev["val"] = digits_of_mpz(x.v); }
			catch (const std::exception &e) { ev["exc"] = e.what(); }
			Drawn d = end_call();
			seam::clear_script();
			ev["e"] = "Mod"; ev["lvl"] = lvl; ev["m"] = digits_of_mpz(mm.v); ev["ws"] = d.words; ev["lv"] = d.wlv; ev["other"] = d.other;
		} else {                                          // residue sampler
			Mpz m, x;
			size_t bits = (H() % 12 == 0) ? 1024 : (H() % 3 == 0 ? 1 + H() % 24 : 1 + H() % 200);
			do {
				mpz_set_ui(m.v, 0);
				for (size_t j = 0; j < (bits + 63) / 64; j++) { mpz_mul_2exp(m.v, m.v, 64); mpz_add_ui(m.v, m.v, H()); }
				mpz_tdiv_r_2exp(m.v, m.v, bits);
				if (H() % 4 == 0) mpz_setbit(m.v, bits - 1);
			} while (mpz_cmp_ui(m.v, 1) < 0);
			std::string lvl = LV[H() % 3];
			seam::clear_script();
			size_t nb = (mpz_sizeinbase(m.v, 2) + 64 + 7) / 8;
			unsigned sel = H() % 5;
			if (sel == 0) seam::push_bytes(std::vector<unsigned char>(nb, 0xff));
			else if (sel == 1) seam::push_bytes(std::vector<unsigned char>(nb, 0x00));
			begin_call();
			try { call_randomm(lvl, x.v, m.v); ev["val"] = digits_of_mpz(x.v); if (mpz_sgn(x.v) < 0) ev["exc"] = "negative result"; }
			catch (const std::exception &e) { ev["exc"] = e.what(); }
			Drawn d = end_call();
			seam::clear_script();
			ev["e"] = "Res"; ev["lvl"] = lvl; ev["m"] = digits_of_mpz(m.v); ev["draws"] = d.draws; ev["lv"] = d.lv;
			// hint for the validator (not trusted, checked there by multiplication): quotient of the drawn value by m
			Mpz dv, qh;
			if (d.draws.size() > 0) {
				std::vector<unsigned char> b;
				for (size_t j = 0; j < d.draws[0].size(); j++) b.push_back((unsigned char)d.draws[0][j].get<int>());
				if (!b.empty()) mpz_import(dv.v, b.size(), 1, 1, 1, 0, b.data());
				mpz_fdiv_q(qh.v, dv.v, m.v);
			}
			ev["qh"] = digits_of_mpz(qh.v);
		}
		alarm(0);
		out_line(ev.dump());
	}
	close(g_outfd);
	printf("{\"events\":%zu}\n", count);
	return 0;
}

int main(int argc, char **argv) {
	if (!init_libTMCG()) { fprintf(stderr, "init_libTMCG failed\n"); return 2; }
	quiet_cerr();
	install_terminate("drv_sampler");
	setup_objects();
	std::string mode = argc > 1 ? argv[1] : "";
	if (mode == "cases" && argc >= 4) return do_cases(argv[2], argv[3], argc > 4 ? strtoul(argv[4], NULL, 10) : 0);
	if (mode == "record" && argc >= 5)
		return do_record(strtoull(argv[2], NULL, 10), strtoul(argv[3], NULL, 10), argv[4], argc > 5 ? strtoul(argv[5], NULL, 10) : 64);
	fprintf(stderr, "usage: drv_sampler cases <in> <out> | record <seed> <count> <out> [maxn]\n");
	return 2;
}
