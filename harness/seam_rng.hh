// seam_rng: the harness executable defines gcry_randomize / gcry_create_nonce / gcry_random_bytes*, so that
// every coin the library draws is (a) deterministic (seeded PRNG), (b) recordable, (c) dictatable.
// No change to /repo is needed: the library objects are linked statically into the driver and the
// executable's definitions take precedence over libgcrypt's.
#ifndef VERIF_SEAM_RNG_HH
#define VERIF_SEAM_RNG_HH
#include <cstddef>
#include <cstdint>
#include <string>
#include <vector>
#include <deque>
#include <gmp.h>

namespace seam {
struct Draw { size_t len; std::string hex; int level; };   // one call of gcry_randomize / gcry_create_nonce
struct Scripted { size_t len; std::vector<unsigned char> bytes; };

void seed(uint64_t s);                          // PRNG for all unscripted draws
void record(bool on);                           // keep a log of all draws
std::vector<Draw> &log();
void clear_log();
// script: the next draw of exactly `len` bytes returns the big-endian encoding of v (zero padded);
// draws of another length are served by the PRNG and do not consume the entry
void push_be(size_t len, mpz_srcptr v);
void push_be_ui(size_t len, unsigned long v);
// for tmcg_mpz_*random_ui(): 8 bytes read in native byte order
void push_native_ul(unsigned long v);
void push_bytes(const std::vector<unsigned char> &b);
size_t pending();                                // scripted entries not yet consumed
void clear_script();
unsigned long ndraws();                          // number of draws since last reset_counters()
unsigned long nbytes();
void reset_counters();
void strict(bool on);                            // strict: a draw whose length differs from the head entry sets mismatch()
bool mismatch();
uint64_t next64();                               // harness-side use of the same PRNG family (separate stream)
void seed_harness(uint64_t s);
}
#endif
