// virtual clock: the driver executable defines time(); while a simulation runs (sim::current != NULL) it returns
// the scheduler's virtual seconds, otherwise the real time
#include "libTMCG.hh"
#include "sim.hh"
#include <time.h>
namespace sim { Sched *current = NULL; thread_local long self = -1; }
extern "C" time_t time(time_t *t) {
	time_t v;
	if (sim::current) v = (time_t)sim::current->vclock;
	else { struct timespec ts; clock_gettime(CLOCK_REALTIME, &ts); v = ts.tv_sec; }
	if (t) *t = v;
	return v;
}
