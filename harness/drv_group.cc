// drv_group: executes CheckGroup() / CheckElement() of every libTMCG class that carries group parameters (C06)
// on cases computed by TLC from spec/Group.tla, and records what the library's own generators produce.
//   drv_group hash  <in.ndjson> <out.ndjson>          oracle: {"u":string,"m":modulus} -> {"u","m","r": H(u) mod m}
//   drv_group prefetch <maxp> <maxq> <out.ndjson>     oracle answers for the strings a derivation over the box can ask for (cache)
//   drv_group cases <in.ndjson> <out.ndjson>          one parameter set per line, via stream/mpz constructor
//   drv_group nbr   <in.ndjson> <out.ndjson> [shard nshards]  neighbourhoods / catalogues of well-formed sets (compares itself)
//   drv_group box   <in.json>   <out.json>            whole box against the accepting set (compares itself)
//   drv_group gen   <seed> <count> <out.ndjson>       the library's generating constructors at small sizes (trace)
//   drv_group selftest                                adaptor wiring (nested stream offsets etc.)
// Every constructor / check runs in a forked child; a crash (signal) or hang is observed by the parent, reported
// for the case it happened in, and the run continues with the next case.
#include "common.hh"
#include <sys/wait.h>
#include <sys/mman.h>
#include <signal.h>
#include <malloc.h>
#include <memory>
#include <functional>
#include <algorithm>
#include <stdexcept>
#define private public
#define protected public
#include "libTMCG.hh"
#undef private
#undef protected
#include "mpz_shash.hh"
#include "mpz_helper.hh"

// ------------------------------------------------------------------------------------------------ helpers
struct Sizes { unsigned long F = 5, G = 4, E = 4, le = 1; bool canon = false; size_t n = 2; };
typedef std::map<std::string, Mpz> FMap;

static std::string b62(mpz_srcptr x) { std::ostringstream o; o << x; return o.str(); }   // the library's own encoding
static Mpz jz(const json &j) {
	if (j.is_string()) return Mpz(j.get<std::string>(), 10);
	return Mpz((long)j.get<long>());
}
static json zj(mpz_srcptr x) {
	if (mpz_fits_slong_p(x) && mpz_sizeinbase(x, 2) <= 31) return json((long)mpz_get_si(x));
	return json(mpz2s(x));
}
static bool has(const FMap &f, const std::string &k) { return f.find(k) != f.end(); }
// value of field `k`; nested names "d.p" / "r.p" / "e.p" fall back to the outer field
static const Mpz &fv(const FMap &f, const std::string &k) {
	FMap::const_iterator it = f.find(k);
	if (it != f.end()) return it->second;
	size_t dot = k.find('.');
	if (dot != std::string::npos) return fv(f, k.substr(dot + 1));
	throw std::runtime_error("drv_group: field missing: " + k);
}
static std::string ln(const FMap &f, const std::string &k) { return b62(fv(f, k).v) + "\n"; }
static std::string gname(size_t i) { return "g" + std::to_string(i + 1); }

// ------------------------------------------------------------------------------------------------ adaptors
struct Ad {
	Sizes sz;
	virtual ~Ad() {}
	virtual bool stream(const FMap &f) { (void)f; return false; }     // public stream constructor (false: there is none)
	virtual bool viampz(const FMap &f) { (void)f; return false; }     // public mpz constructor
	virtual std::vector<mpz_ptr> tg(const std::string &name) = 0;     // public data members behind a field name
	virtual bool has_cg() { return true; }
	virtual bool cg() = 0;
	virtual int ce(mpz_srcptr a) { (void)a; return -1; }              // -1: the class has no CheckElement
	virtual void done() = 0;
};
static const FMap &benign() {
	static FMap b;
	if (b.empty()) { b["p"] = Mpz(23); b["q"] = Mpz(11); b["k"] = Mpz(2); b["g"] = Mpz(2); b["h"] = Mpz(3);
		for (size_t i = 0; i < 8; i++) b[gname(i)] = Mpz((long)(i == 0 ? 2 : (i == 1 ? 4 : (i == 2 ? 8 : 16)))); }
	return b;
}
// replace lines of a PublishState template
static std::string patch(const std::string &tmpl, const std::map<size_t, std::string> &repl) {
	std::istringstream in(tmpl); std::ostringstream out; std::string l; size_t i = 0;
	while (std::getline(in, l)) {
		std::map<size_t, std::string>::const_iterator it = repl.find(i);
		out << (it != repl.end() ? it->second : l) << "\n"; i++;
	}
	return out.str();
}
static void put4(std::map<size_t, std::string> &r, size_t off, const FMap &f, const std::string &pre) {
	r[off] = b62(fv(f, pre + "p").v); r[off + 1] = b62(fv(f, pre + "q").v);
	r[off + 2] = b62(fv(f, pre + "g").v); r[off + 3] = b62(fv(f, pre + "h").v);
}
#define B(x) ((mpz_srcptr)benign().at(x).v)

struct AdDlog : Ad {
	BarnettSmartVTMF_dlog *o = 0;
	bool stream(const FMap &f) {
		std::stringstream in; in << ln(f, "p") << ln(f, "q") << ln(f, "g") << ln(f, "k");
		o = new BarnettSmartVTMF_dlog(in, sz.F, sz.G, sz.canon, true); return true;
	}
	std::vector<mpz_ptr> tg(const std::string &n) {
		if (n == "p") return {o->p}; if (n == "q") return {o->q}; if (n == "g") return {o->g}; if (n == "k") return {o->k};
		return {};
	}
	bool cg() { return o->CheckGroup(); }
	int ce(mpz_srcptr a) { return o->CheckElement(a) ? 1 : 0; }
	void done() { delete o; o = 0; }
};
struct AdQR : Ad {
	BarnettSmartVTMF_dlog_GroupQR *o = 0;
	bool stream(const FMap &f) {
		std::stringstream in; in << ln(f, "p") << ln(f, "q");
		in << (has(f, "g") ? ln(f, "g") : std::string("2\n")) << (has(f, "k") ? ln(f, "k") : std::string("2\n"));
		o = new BarnettSmartVTMF_dlog_GroupQR(in, sz.F, sz.E);
		if (has(f, "gset")) mpz_set(o->g, fv(f, "gset").v);      // the constructor derives g itself; gset overrides the member
		return true;
	}
	std::vector<mpz_ptr> tg(const std::string &n) {
		if (n == "p") return {o->p}; if (n == "q") return {o->q}; if (n == "g" || n == "gset") return {o->g}; if (n == "k") return {o->k};
		return {};
	}
	bool cg() { return o->CheckGroup(); }
	int ce(mpz_srcptr a) { return o->CheckElement(a) ? 1 : 0; }
	void done() { delete o; o = 0; }
};
static std::string comlines(const FMap &f, size_t n, const std::string &pre) {
	std::string s = ln(f, pre + "p") + ln(f, pre + "q") + ln(f, pre + "k") + ln(f, pre + "h");
	for (size_t i = 0; i < n; i++) s += ln(f, pre + gname(i));
	return s;
}
static std::vector<mpz_ptr> comtg(PedersenCommitmentScheme *c, const std::string &n) {
	if (n == "p") return {c->p}; if (n == "q") return {c->q}; if (n == "k") return {c->k}; if (n == "h") return {c->h};
	if (n.size() >= 2 && n[0] == 'g') { size_t i = std::stoul(n.substr(1)) - 1; if (i < c->g.size()) return {c->g[i]}; }
	return {};
}
struct AdCom : Ad {
	PedersenCommitmentScheme *o = 0;
	bool stream(const FMap &f) { std::stringstream in; in << comlines(f, sz.n, ""); o = new PedersenCommitmentScheme(sz.n, in, sz.F, sz.G); return true; }
	std::vector<mpz_ptr> tg(const std::string &n) { return comtg(o, n); }
	bool cg() { return o->CheckGroup(); }
	void done() { delete o; o = 0; }
};
struct AdSkc : Ad {
	GrothSKC *o = 0;
	bool stream(const FMap &f) { std::stringstream in; in << comlines(f, sz.n, ""); o = new GrothSKC(sz.n, in, sz.le, sz.F, sz.G); return true; }
	std::vector<mpz_ptr> tg(const std::string &n) { return comtg(o->com, n); }
	bool cg() { return o->CheckGroup(); }
	void done() { delete o; o = 0; }
};
struct AdVsshe : Ad {     // "e.p","e.q","e.g","e.h": the encryption group (fall back to p, q, g1, h); the rest: commitment scheme
	GrothVSSHE *o = 0;
	bool stream(const FMap &f) {
		std::stringstream in;
		in << ln(f, "e.p") << ln(f, "e.q") << (has(f, "e.g") ? ln(f, "e.g") : ln(f, "g1")) << ln(f, "e.h") << comlines(f, sz.n, "");
		o = new GrothVSSHE(sz.n, in, sz.le, sz.F, sz.G); return true;
	}
	std::vector<mpz_ptr> tg(const std::string &n) {
		std::vector<mpz_ptr> a = comtg(o->com, n), b = comtg(o->skc->com, n);
		a.insert(a.end(), b.begin(), b.end());
		if (n == "p") a.push_back(o->p); if (n == "q") a.push_back(o->q); if (n == "h") a.push_back(o->h);
		if (n == "e.p") return {o->p}; if (n == "e.q") return {o->q}; if (n == "e.g") return {o->g}; if (n == "e.h") return {o->h};
		return a;
	}
	bool cg() { return o->CheckGroup(); }
	void done() { delete o; o = 0; }
};
struct AdPtc : Ad {       // family "com" with n = 1: g1 is the scheme's g
	PedersenTrapdoorCommitmentScheme *o = 0;
	bool stream(const FMap &f) {
		std::stringstream in; in << ln(f, "p") << ln(f, "q") << ln(f, "k") << ln(f, "g1") << ln(f, "h");
		o = new PedersenTrapdoorCommitmentScheme(in, sz.F, sz.G); return true;
	}
	std::vector<mpz_ptr> tg(const std::string &n) {
		if (n == "p") return {o->p}; if (n == "q") return {o->q}; if (n == "k") return {o->k}; if (n == "h") return {o->h}; if (n == "g1") return {o->g};
		return {};
	}
	bool cg() { return o->CheckGroup(); }
	void done() { delete o; o = 0; }
};
struct AdEotp : Ad {
	NaorPinkasEOTP *o = 0;
	bool stream(const FMap &f) { std::stringstream in; in << ln(f, "p") << ln(f, "q") << ln(f, "g"); o = new NaorPinkasEOTP(in, sz.F, sz.G); return true; }
	bool viampz(const FMap &f) { o = new NaorPinkasEOTP(fv(f, "p").v, fv(f, "q").v, fv(f, "g").v, sz.F, sz.G); return true; }
	std::vector<mpz_ptr> tg(const std::string &n) { if (n == "p") return {o->p}; if (n == "q") return {o->q}; if (n == "g") return {o->g}; return {}; }
	bool cg() { return o->CheckGroup(); }
	int ce(mpz_srcptr a) { return o->CheckElement(a) ? 1 : 0; }
	void done() { delete o; o = 0; }
};
#define PQGH_TG(obj) \
	if (n == "p") return {(obj)->p}; if (n == "q") return {(obj)->q}; if (n == "g") return {(obj)->g}; if (n == "h") return {(obj)->h};
struct AdVrhe : Ad {
	HooghSchoenmakersSkoricVillegasVRHE *o = 0;
	bool stream(const FMap &f) { std::stringstream in; in << ln(f, "p") << ln(f, "q") << ln(f, "g") << ln(f, "h"); o = new HooghSchoenmakersSkoricVillegasVRHE(in, sz.F, sz.G); return true; }
	bool viampz(const FMap &f) { o = new HooghSchoenmakersSkoricVillegasVRHE(fv(f, "p").v, fv(f, "q").v, fv(f, "g").v, fv(f, "h").v, sz.F, sz.G); return true; }
	std::vector<mpz_ptr> tg(const std::string &n) { PQGH_TG(o) return {}; }
	bool cg() { return o->CheckGroup(); }
	int ce(mpz_srcptr a) { return o->CheckElement(a) ? 1 : 0; }
	void done() { delete o; o = 0; }
};
struct AdPubrot : Ad {    // only CheckElement
	HooghSchoenmakersSkoricVillegasPUBROTZK *o = 0;
	bool viampz(const FMap &f) { o = new HooghSchoenmakersSkoricVillegasPUBROTZK(fv(f, "p").v, fv(f, "q").v, fv(f, "g").v, fv(f, "h").v); return true; }
	std::vector<mpz_ptr> tg(const std::string &n) { PQGH_TG(o) return {}; }
	bool has_cg() { return false; }
	bool cg() { return false; }
	int ce(mpz_srcptr a) { return o->CheckElement(a) ? 1 : 0; }
	void done() { delete o; o = 0; }
};
// classes whose stream form is PublishState(): a template is taken from a benign object, then lines are replaced
struct AdPvss : Ad {
	PedersenVSS *o = 0;
	bool stream(const FMap &f) {
		static std::string tmpl;
		if (tmpl.empty()) { PedersenVSS t(2, 1, 0, B("p"), B("q"), B("g"), B("h"), 5, 4); std::ostringstream s; t.PublishState(s); tmpl = s.str(); }
		std::map<size_t, std::string> r; put4(r, 0, f, "");
		std::stringstream in(patch(tmpl, r)); o = new PedersenVSS(in, sz.F, sz.G); return true;
	}
	bool viampz(const FMap &f) { o = new PedersenVSS(2, 1, 0, fv(f, "p").v, fv(f, "q").v, fv(f, "g").v, fv(f, "h").v, sz.F, sz.G); return true; }
	std::vector<mpz_ptr> tg(const std::string &n) { PQGH_TG(o) return {}; }
	bool cg() { return o->CheckGroup(); }
	int ce(mpz_srcptr a) { return o->CheckElement(a) ? 1 : 0; }
	void done() { delete o; o = 0; }
};
struct AdGjkrDkg : Ad {
	GennaroJareckiKrawczykRabinDKG *o = 0;
	bool stream(const FMap &f) {
		static std::string tmpl;
		if (tmpl.empty()) { GennaroJareckiKrawczykRabinDKG t(2, 1, 0, B("p"), B("q"), B("g"), B("h"), 5, 4); std::ostringstream s; t.PublishState(s); tmpl = s.str(); }
		std::map<size_t, std::string> r; put4(r, 0, f, "");
		std::stringstream in(patch(tmpl, r)); o = new GennaroJareckiKrawczykRabinDKG(in, sz.F, sz.G, sz.canon); return true;
	}
	bool viampz(const FMap &f) { o = new GennaroJareckiKrawczykRabinDKG(2, 1, 0, fv(f, "p").v, fv(f, "q").v, fv(f, "g").v, fv(f, "h").v, sz.F, sz.G, sz.canon); return true; }
	std::vector<mpz_ptr> tg(const std::string &n) { PQGH_TG(o) return {}; }
	bool cg() { return o->CheckGroup(); }
	int ce(mpz_srcptr a) { return o->CheckElement(a) ? 1 : 0; }
	void done() { delete o; o = 0; }
};
struct AdNts : Ad {       // mpz constructor only; nested dkg ("d.") gets the same values
	GennaroJareckiKrawczykRabinNTS *o = 0;
	bool viampz(const FMap &f) { o = new GennaroJareckiKrawczykRabinNTS(2, 1, 0, fv(f, "p").v, fv(f, "q").v, fv(f, "g").v, fv(f, "h").v, sz.F, sz.G, sz.canon); return true; }
	std::vector<mpz_ptr> tg(const std::string &n) {
		if (n == "p") return {o->p, o->dkg->p}; if (n == "q") return {o->q, o->dkg->q}; if (n == "g") return {o->g, o->dkg->g}; if (n == "h") return {o->h, o->dkg->h};
		if (n == "o.p") return {o->p}; if (n == "o.q") return {o->q}; if (n == "o.g") return {o->g}; if (n == "o.h") return {o->h};
		if (n == "d.p") return {o->dkg->p}; if (n == "d.q") return {o->dkg->q}; if (n == "d.g") return {o->dkg->g}; if (n == "d.h") return {o->dkg->h};
		return {};
	}
	bool cg() { return o->CheckGroup(); }
	void done() { delete o; o = 0; }
};
struct AdCgRvss : Ad {
	CanettiGennaroJareckiKrawczykRabinRVSS *o = 0;
	static std::string &tmpl() {
		static std::string t;
		if (t.empty()) { CanettiGennaroJareckiKrawczykRabinRVSS x(2, 1, 0, 1, B("p"), B("q"), B("g"), B("h"), 5, 4); std::ostringstream s; x.PublishState(s); t = s.str(); }
		return t;
	}
	bool stream(const FMap &f) {
		std::map<size_t, std::string> r; put4(r, 0, f, "");
		std::stringstream in(patch(tmpl(), r)); o = new CanettiGennaroJareckiKrawczykRabinRVSS(in, sz.F, sz.G, sz.canon); return true;
	}
	bool viampz(const FMap &f) { o = new CanettiGennaroJareckiKrawczykRabinRVSS(2, 1, 0, 1, fv(f, "p").v, fv(f, "q").v, fv(f, "g").v, fv(f, "h").v, sz.F, sz.G, sz.canon); return true; }
	std::vector<mpz_ptr> tg(const std::string &n) { PQGH_TG(o) return {}; }
	bool cg() { return o->CheckGroup(); }
	int ce(mpz_srcptr a) { return o->CheckElement(a) ? 1 : 0; }
	void done() { delete o; o = 0; }
};
struct AdCgZvss : Ad {
	CanettiGennaroJareckiKrawczykRabinZVSS *o = 0;
	bool stream(const FMap &f) {
		static std::string tmpl;
		if (tmpl.empty()) { CanettiGennaroJareckiKrawczykRabinZVSS t(2, 1, 0, 1, B("p"), B("q"), B("g"), B("h"), 5, 4); std::ostringstream s; t.PublishState(s); tmpl = s.str(); }
		std::map<size_t, std::string> r; put4(r, 0, f, "");
		std::stringstream in(patch(tmpl, r)); o = new CanettiGennaroJareckiKrawczykRabinZVSS(in, sz.F, sz.G, sz.canon); return true;
	}
	bool viampz(const FMap &f) { o = new CanettiGennaroJareckiKrawczykRabinZVSS(2, 1, 0, 1, fv(f, "p").v, fv(f, "q").v, fv(f, "g").v, fv(f, "h").v, sz.F, sz.G, sz.canon); return true; }
	std::vector<mpz_ptr> tg(const std::string &n) { PQGH_TG(o) return {}; }
	bool cg() { return o->CheckGroup(); }
	int ce(mpz_srcptr a) { return o->CheckElement(a) ? 1 : 0; }
	void done() { delete o; o = 0; }
};
struct AdCgDkg : Ad {     // stream: own p,q,g,h at lines 0..3, nested Joint-RVSS ("r.") at lines 11..14
	CanettiGennaroJareckiKrawczykRabinDKG *o = 0;
	static std::string &tmpl() {
		static std::string t;
		if (t.empty()) { CanettiGennaroJareckiKrawczykRabinDKG x(2, 1, 0, B("p"), B("q"), B("g"), B("h"), 5, 4); std::ostringstream s; x.PublishState(s); t = s.str(); }
		return t;
	}
	bool stream(const FMap &f) {
		std::map<size_t, std::string> r; put4(r, 0, f, "o."); put4(r, 11, f, "r.");
		std::stringstream in(patch(tmpl(), r)); o = new CanettiGennaroJareckiKrawczykRabinDKG(in, sz.F, sz.G, sz.canon); return true;
	}
	bool viampz(const FMap &f) { o = new CanettiGennaroJareckiKrawczykRabinDKG(2, 1, 0, fv(f, "p").v, fv(f, "q").v, fv(f, "g").v, fv(f, "h").v, sz.F, sz.G, sz.canon); return true; }
	std::vector<mpz_ptr> tg(const std::string &n) {
		if (n == "p") return {o->p, o->x_rvss->p}; if (n == "q") return {o->q, o->x_rvss->q}; if (n == "g") return {o->g, o->x_rvss->g}; if (n == "h") return {o->h, o->x_rvss->h};
		if (n == "o.p") return {o->p}; if (n == "o.q") return {o->q}; if (n == "o.g") return {o->g}; if (n == "o.h") return {o->h};
		if (n == "r.p") return {o->x_rvss->p}; if (n == "r.q") return {o->x_rvss->q}; if (n == "r.g") return {o->x_rvss->g}; if (n == "r.h") return {o->x_rvss->h};
		return {};
	}
	bool cg() { return o->CheckGroup(); }
	int ce(mpz_srcptr a) { return o->CheckElement(a) ? 1 : 0; }
	void done() { delete o; o = 0; }
};
struct AdCgDss : Ad {     // stream: own at 0..3, nested DKG ("d.") at 11..14, its Joint-RVSS ("r.") at 22..25
	CanettiGennaroJareckiKrawczykRabinDSS *o = 0;
	bool stream(const FMap &f) {
		static std::string tmpl;
		if (tmpl.empty()) { CanettiGennaroJareckiKrawczykRabinDSS t(2, 1, 0, B("p"), B("q"), B("g"), B("h"), 5, 4); std::ostringstream s; t.PublishState(s); tmpl = s.str(); }
		std::map<size_t, std::string> r; put4(r, 0, f, "o."); put4(r, 11, f, "d."); put4(r, 22, f, "r.");
		std::stringstream in(patch(tmpl, r)); o = new CanettiGennaroJareckiKrawczykRabinDSS(in, sz.F, sz.G, sz.canon); return true;
	}
	bool viampz(const FMap &f) { o = new CanettiGennaroJareckiKrawczykRabinDSS(2, 1, 0, fv(f, "p").v, fv(f, "q").v, fv(f, "g").v, fv(f, "h").v, sz.F, sz.G, sz.canon); return true; }
	std::vector<mpz_ptr> tg(const std::string &n) {
		CanettiGennaroJareckiKrawczykRabinDKG *d = o->dkg; CanettiGennaroJareckiKrawczykRabinRVSS *r = d->x_rvss;
		if (n == "p") return {o->p, d->p, r->p}; if (n == "q") return {o->q, d->q, r->q}; if (n == "g") return {o->g, d->g, r->g}; if (n == "h") return {o->h, d->h, r->h};
		if (n == "o.p") return {o->p}; if (n == "o.q") return {o->q}; if (n == "o.g") return {o->g}; if (n == "o.h") return {o->h};
		if (n == "d.p") return {d->p}; if (n == "d.q") return {d->q}; if (n == "d.g") return {d->g}; if (n == "d.h") return {d->h};
		if (n == "r.p") return {r->p}; if (n == "r.q") return {r->q}; if (n == "r.g") return {r->g}; if (n == "r.h") return {r->h};
		return {};
	}
	bool cg() { return o->CheckGroup(); }
	int ce(mpz_srcptr a) { return o->CheckElement(a) ? 1 : 0; }
	void done() { delete o; o = 0; }
};
struct AdJlRvss : Ad {
	JareckiLysyanskayaRVSS *o = 0;
	bool viampz(const FMap &f) { o = new JareckiLysyanskayaRVSS(2, 1, fv(f, "p").v, fv(f, "q").v, fv(f, "g").v, fv(f, "h").v, sz.F, sz.G); return true; }
	std::vector<mpz_ptr> tg(const std::string &n) { PQGH_TG(o) return {}; }
	bool cg() { return o->CheckGroup(); }
	int ce(mpz_srcptr a) { return o->CheckElement(a) ? 1 : 0; }
	void done() { delete o; o = 0; }
};
struct AdEdcf : Ad {      // CheckGroup() looks at the nested RVSS only; the constructor gives both the same values
	JareckiLysyanskayaEDCF *o = 0;
	bool viampz(const FMap &f) { o = new JareckiLysyanskayaEDCF(2, 1, fv(f, "p").v, fv(f, "q").v, fv(f, "g").v, fv(f, "h").v, sz.F, sz.G); return true; }
	std::vector<mpz_ptr> tg(const std::string &n) {
		if (n == "p") return {o->p, o->rvss->p}; if (n == "q") return {o->q, o->rvss->q}; if (n == "g") return {o->g, o->rvss->g}; if (n == "h") return {o->h, o->rvss->h};
		return {};
	}
	bool cg() { return o->CheckGroup(); }
	void done() { delete o; o = 0; }
};

static Ad *make(const std::string &c) {
	if (c == "dlog") return new AdDlog; if (c == "qr") return new AdQR; if (c == "com") return new AdCom; if (c == "skc") return new AdSkc;
	if (c == "vsshe") return new AdVsshe; if (c == "ptc") return new AdPtc; if (c == "eotp") return new AdEotp; if (c == "vrhe") return new AdVrhe;
	if (c == "pubrotzk") return new AdPubrot; if (c == "pvss") return new AdPvss; if (c == "gjkr_dkg") return new AdGjkrDkg; if (c == "nts") return new AdNts;
	if (c == "cg_rvss") return new AdCgRvss; if (c == "cg_zvss") return new AdCgZvss; if (c == "cg_dkg") return new AdCgDkg; if (c == "cg_dss") return new AdCgDss;
	if (c == "jl_rvss") return new AdJlRvss; if (c == "edcf") return new AdEdcf;
	throw std::runtime_error("drv_group: unknown class " + c);
}
// field names of a family in tuple order
static std::vector<std::string> famfields(const std::string &fam, size_t n) {
	if (fam == "dlog") return {"p", "q", "k", "g"};
	if (fam == "qr") return {"p", "q", "gset"};
	if (fam == "pqgh") return {"p", "q", "g", "h"};
	if (fam == "pqg") return {"p", "q", "g"};
	if (fam == "com") { std::vector<std::string> v = {"p", "q", "k", "h"}; for (size_t i = 0; i < n; i++) v.push_back(gname(i)); return v; }
	throw std::runtime_error("drv_group: unknown family " + fam);
}
static Sizes sizes_of(const json &v) {
	Sizes s;
	if (v.contains("F")) s.F = v["F"].get<unsigned long>();
	if (v.contains("G")) s.G = v["G"].get<unsigned long>();
	if (v.contains("E")) s.E = v["E"].get<unsigned long>();
	if (v.contains("le")) s.le = v["le"].get<unsigned long>();
	if (v.contains("canon")) s.canon = v["canon"].get<bool>();
	if (v.contains("n")) s.n = v["n"].get<size_t>();
	if (s.n == 0) s.n = 1;
	return s;
}
static Sizes class_sizes(const std::string &cls, Sizes s) {
	if (cls != "vsshe" && cls != "skc") s.le = (s.le == 0 ? 1 : s.le);
	if (s.le == 0) s.le = 1;
	return s;
}

// ------------------------------------------------------------------------------------------------ forked execution
struct Shared { volatile long idx; volatile long sub; };
static Shared *shm = 0;
static void on_alarm(int) { _exit(99); }
// runs body(i, emit) for i in [0,n) in forked children; on a crash of case i calls crashed(i, sig, sub) in the parent
static void forked(long n, const std::function<void(long, std::string &)> &body,
                   const std::function<void(long, int, long, std::string &)> &crashed, FILE *out, int alarm_s = 240) {
	if (!shm) shm = (Shared *)mmap(0, sizeof(Shared), PROT_READ | PROT_WRITE, MAP_SHARED | MAP_ANONYMOUS, -1, 0);
	long start = 0;
	while (start < n) {
		int fd[2]; if (pipe(fd) != 0) { perror("pipe"); exit(2); }
		fflush(out); fflush(stdout);
		shm->idx = start; shm->sub = 0;
		pid_t pid = fork();
		if (pid < 0) { perror("fork"); exit(2); }
		if (pid == 0) {
			close(fd[0]);
			signal(SIGALRM, on_alarm);
			FILE *w = fdopen(fd[1], "w");
			for (long i = start; i < n; i++) {
				shm->idx = i; shm->sub = 0; alarm(alarm_s);
				std::string s; body(i, s);
				if (!s.empty()) { fputs(s.c_str(), w); fflush(w); }
			}
			fflush(w); _exit(0);
		}
		close(fd[1]);
		char buf[65536]; ssize_t k;
		while ((k = read(fd[0], buf, sizeof buf)) > 0) fwrite(buf, 1, (size_t)k, out);
		close(fd[0]);
		int st = 0; waitpid(pid, &st, 0);
		if (WIFEXITED(st) && WEXITSTATUS(st) == 0) break;
		long bad = shm->idx; int sig = WIFSIGNALED(st) ? WTERMSIG(st) : -WEXITSTATUS(st);
		// the child may have died in the middle of a line it was writing for an earlier case: lines are only written
		// after a case completed (fputs of a whole line + stdio buffer), so a partial line can only be a flushed prefix;
		// terminate it so that the reader sees it as garbage rather than merging it with the next line
		fputs("\n", out);
		std::string s; crashed(bad, sig, shm->sub, s);
		if (!s.empty()) fputs(s.c_str(), out);
		start = bad + 1;
	}
	fflush(out);
}
static const char *signame(int sig) {
	if (sig == SIGSEGV) return "SIGSEGV"; if (sig == SIGFPE) return "SIGFPE"; if (sig == SIGABRT) return "SIGABRT";
	if (sig == SIGBUS) return "SIGBUS"; if (sig == -99) return "HANG"; if (sig == SIGILL) return "SIGILL";
	return "SIGNAL";
}

// build an object of class cls from fields f; returns "ok", "throw:<what>" or "unsupported"
static std::string build(Ad *a, const std::string &via, const FMap &f) {
	try {
		bool ok = (via == "mpz") ? a->viampz(f) : a->stream(f);
		return ok ? "ok" : "unsupported";
	} catch (const std::exception &e) { return std::string("throw:") + e.what(); }
	catch (...) { return "throw:?"; }
}

// ------------------------------------------------------------------------------------------------ mode: hash
static int mode_hash(const std::string &in, const std::string &outp) {
	std::vector<json> q = read_ndjson(in);
	FILE *out = fopen(outp.c_str(), "w");
	for (size_t i = 0; i < q.size(); i++) {
		Mpz r, m = jz(q[i]["m"]);
		tmcg_mpz_shash(r, q[i]["u"].get<std::string>());
		if (mpz_sgn(m.v) > 0) mpz_mod(r, r, m);
		json o; o["u"] = q[i]["u"]; o["m"] = q[i]["m"]; o["r"] = zj(r);
		fprintf(out, "%s\n", o.dump().c_str());
	}
	fclose(out);
	return 0;
}

// mode prefetch: warms the oracle table with the strings a verifiable-generator derivation over the box can ask for
// ("LibTMCG|p|q|ggen|" followed by up to three passed-over candidates 0, 1, p-1).  Only a cache: the spec decides which
// strings it uses and names every string it misses (mode hash answers those).
static void prefetch_rec(FILE *out, const std::string &u, mpz_srcptr p, int depth) {
	Mpz r; tmcg_mpz_shash(r, u); mpz_mod(r, r, p);
	json o; o["u"] = u; o["m"] = zj(p); o["r"] = zj(r); fprintf(out, "%s\n", o.dump().c_str());
	if (depth == 0) return;
	Mpz c[3]; mpz_set_ui(c[0], 0); mpz_set_ui(c[1], 1); mpz_sub_ui(c[2], p, 1);
	for (int k = 0; k < 3; k++) prefetch_rec(out, u + b62(c[k]) + "|", p, depth - 1);
}
static int mode_prefetch(long maxp, long maxq, const std::string &outp) {
	FILE *out = fopen(outp.c_str(), "w");
	for (long p = 3; p <= maxp; p++) for (long q = 2; q <= maxq; q++) {
		if ((p - 1) % q) continue;
		Mpz P(p), Q(q);
		// a candidate is 1 with probability 1/q: longer chains for the smallest orders
		prefetch_rec(out, "LibTMCG|" + b62(P) + "|" + b62(Q) + "|ggen|", P, q <= 3 ? 7 : (q <= 7 ? 5 : 3));
	}
	fclose(out);
	return 0;
}

// ------------------------------------------------------------------------------------------------ mode: cases
// {"id":..,"cls":..,"v":{F,G,E,le,canon,n},"via":"stream"|"mpz","f":{name:value,...},"cg":true,"el":[a,...],"obs":[names]}
static FMap fields_of(const json &jf) {
	FMap f;
	for (json::const_iterator it = jf.begin(); it != jf.end(); ++it) f[it.key()] = jz(it.value());
	return f;
}
static std::string run_case(const json &c) {
	json o; o["id"] = c["id"];
	std::string cls = c["cls"].get<std::string>();
	std::unique_ptr<Ad> a(make(cls));
	a->sz = class_sizes(cls, sizes_of(c["v"]));
	FMap f = fields_of(c["f"]);
	std::string st = build(a.get(), c.value("via", std::string("stream")), f);
	o["st"] = st;
	if (st == "ok") {
		if (c.contains("set")) {    // direct assignment of public members after construction
			FMap s = fields_of(c["set"]);
			for (FMap::iterator it = s.begin(); it != s.end(); ++it) {
				std::vector<mpz_ptr> t = a->tg(it->first);
				if (t.empty()) { o["st"] = "unsupported"; }
				for (size_t k = 0; k < t.size(); k++) mpz_set(t[k], it->second.v);
			}
		}
		if (c.value("cg", true) && a->has_cg()) o["cg"] = a->cg();
		if (c.contains("el")) {
			json r = json::array();
			for (size_t k = 0; k < c["el"].size(); k++) { Mpz x = jz(c["el"][k]); r.push_back(a->ce(x)); }
			o["ce"] = r;
		}
		if (c.contains("obs")) {
			json ob = json::object();
			for (size_t k = 0; k < c["obs"].size(); k++) {
				std::string n = c["obs"][k].get<std::string>(); std::vector<mpz_ptr> t = a->tg(n);
				json arr = json::array(); for (size_t u = 0; u < t.size(); u++) arr.push_back(zj(t[u]));
				ob[n] = arr;
			}
			o["obs"] = ob;
		}
		a->done();
	}
	return o.dump() + "\n";
}
static int mode_cases(const std::string &in, const std::string &outp) {
	std::vector<json> cs = read_ndjson(in);
	FILE *out = fopen(outp.c_str(), "w");
	forked((long)cs.size(),
		[&](long i, std::string &s) { s = run_case(cs[(size_t)i]); },
		[&](long i, int sig, long, std::string &s) { json o; o["id"] = cs[(size_t)i]["id"]; o["st"] = std::string("crash:") + signame(sig); s = o.dump() + "\n"; },
		out);
	fclose(out);
	return 0;
}

// ------------------------------------------------------------------------------------------------ mode: nbr
// line: {"kind":"nbr"|"cat","v":{fam,F,G,E,le,canon,n},"classes":[..],"base":[..],"vals":[[..]..],"acc":[[..]..]}
// for every class, every way of construction, every nesting level, every field f and value x of vals[f]:
//   construct the class from base with field f := x and require CheckGroup() == (x in acc[f]).
// Output: one line per mismatch, one per observed crash, and totals per (class, way).
struct Way { std::string via, level; };
static std::vector<Way> ways_of(const std::string &cls) {
	// level "" = all nested parameter sets carry the corrupted value (what the mpz constructors do);
	// "o." / "d." / "r." = only the outer / nested DKG / nested RVSS set is corrupted (stream constructors)
	if (cls == "nts" || cls == "jl_rvss" || cls == "edcf") return {{"mpz", ""}};
	if (cls == "cg_dkg") return {{"stream", ""}, {"mpz", ""}, {"stream", "o."}, {"stream", "r."}};
	if (cls == "cg_dss") return {{"stream", ""}, {"mpz", ""}, {"stream", "o."}, {"stream", "d."}, {"stream", "r."}};
	if (cls == "vrhe" || cls == "pvss" || cls == "gjkr_dkg" || cls == "cg_rvss" || cls == "cg_zvss" || cls == "eotp") return {{"stream", ""}, {"mpz", ""}};
	return {{"stream", ""}};
}
struct NbrLine { std::string fam; Sizes sz; std::vector<std::string> names; std::vector<long> base;
	std::vector<std::vector<long> > vals; std::vector<std::set<long> > acc; size_t nvals; json v; };
struct NbrJob { size_t line; std::string cls; Way way; size_t cw; long first; };
struct CwCount { volatile long n, nacc, nthrow, nskip, crash_p0, crash_short, crash_other; };
static CwCount *cwc = 0;
static int mode_nbr(const std::string &in, const std::string &outp, long shard, long nshards, long maxlines) {
	std::vector<json> raw = read_ndjson(in);
	std::vector<NbrLine> ls; std::vector<json> classes;
	for (size_t i = 0; i < raw.size(); i++) {
		if (maxlines > 0 && (long)ls.size() >= maxlines) break;
		NbrLine l; l.v = raw[i]["v"]; l.fam = l.v["fam"].get<std::string>(); l.sz = sizes_of(l.v);
		l.names = famfields(l.fam, l.sz.n); l.base = raw[i]["base"].get<std::vector<long> >(); l.nvals = 0;
		for (size_t f = 0; f < l.names.size(); f++) {
			l.vals.push_back(raw[i]["vals"][f].get<std::vector<long> >());
			std::vector<long> a = raw[i]["acc"][f].get<std::vector<long> >(); l.acc.push_back(std::set<long>(a.begin(), a.end()));
			l.nvals += l.vals.back().size();
		}
		ls.push_back(l); classes.push_back(raw[i]["classes"]);
	}
	std::vector<NbrJob> jobs; std::map<std::string, size_t> cwidx; std::vector<std::string> cwname; long total = 0, jn = 0;
	for (size_t i = 0; i < ls.size(); i++) for (size_t c = 0; c < classes[i].size(); c++) {
		std::string cls = classes[i][c].get<std::string>();
		std::vector<Way> ws = ways_of(cls);
		for (size_t w = 0; w < ws.size(); w++, jn++) {
			if (jn % nshards != shard) continue;
			std::string key = cls + "/" + ws[w].via + "/" + ws[w].level;
			if (!cwidx.count(key)) { cwidx[key] = cwname.size(); cwname.push_back(key); }
			jobs.push_back({i, cls, ws[w], cwidx[key], total}); total += (long)ls[i].nvals;
		}
	}
	cwc = (CwCount *)mmap(0, sizeof(CwCount) * (cwname.size() + 1), PROT_READ | PROT_WRITE, MAP_SHARED | MAP_ANONYMOUS, -1, 0);
	memset((void *)cwc, 0, sizeof(CwCount) * (cwname.size() + 1));
	FILE *out = fopen(outp.c_str(), "w");
	// item i -> (job, field, value)
	auto locate = [&](long i, size_t &j, size_t &fi, size_t &k) {
		static size_t last = 0;
		if (!(last < jobs.size() && jobs[last].first <= i && (last + 1 == jobs.size() || jobs[last + 1].first > i))) {
			size_t lo = 0, hi = jobs.size() - 1;
			while (lo < hi) { size_t mid = (lo + hi + 1) / 2; if (jobs[mid].first <= i) lo = mid; else hi = mid - 1; }
			last = lo;
		}
		j = last; long off = i - jobs[j].first; const NbrLine &l = ls[jobs[j].line];
		for (fi = 0; fi < l.vals.size(); fi++) { if (off < (long)l.vals[fi].size()) break; off -= (long)l.vals[fi].size(); }
		k = (size_t)off;
	};
	auto bitlen = [](long x) { long b = 0; if (x < 0) x = -x; while (x) { b++; x >>= 1; } return b; };
	auto body = [&](long i, std::string &s) {
		size_t j, fi, k; locate(i, j, fi, k);
		const NbrJob &jb = jobs[j]; const NbrLine &l = ls[jb.line]; CwCount &cc = cwc[jb.cw];
		long x = l.vals[fi][k]; std::string fname = l.names[fi];
		if (!jb.way.level.empty() && fname == "gset") return;
		// inputs of a crash class that was already observed twice for this class and way are not constructed again
		if (fi == 0 && l.fam == "qr" && bitlen(x) < (long)l.sz.E) { if (cc.crash_short >= 2) { cc.nskip++; return; } }
		else if (fi == 0 && x == 0 && cc.crash_p0 >= 2) { cc.nskip++; return; }
		FMap f; for (size_t u = 0; u < l.names.size(); u++) f[l.names[u]] = Mpz(l.base[u]);
		if (!jb.way.level.empty()) {
			// one nesting level is corrupted: every level keeps the base, the named one gets x
			f["o." + fname] = Mpz(l.base[fi]); f["d." + fname] = Mpz(l.base[fi]); f["r." + fname] = Mpz(l.base[fi]);
			f[jb.way.level + fname] = Mpz(x);
		} else f[fname] = Mpz(x);
		bool exp = l.acc[fi].count(x) > 0;
		std::unique_ptr<Ad> a(make(jb.cls)); a->sz = class_sizes(jb.cls, l.sz);
		std::string st = build(a.get(), jb.way.via, f);
		if (st == "unsupported") return;
		bool got = false;
		if (st == "ok") { got = a->cg(); a->done(); } else cc.nthrow++;      // a refusing constructor refuses the set
		cc.n++; if (got) cc.nacc++;
		if (got != exp) {
			json b; b["kind"] = "mismatch"; b["cls"] = jb.cls; b["via"] = jb.way.via; b["level"] = jb.way.level; b["v"] = l.v; b["base"] = l.base;
			b["field"] = fname; b["x"] = x; b["exp"] = exp; b["got"] = got; b["st"] = st; s = b.dump() + "\n";
		}
	};
	auto crashed = [&](long i, int sig, long, std::string &s) {
		size_t j, fi, k; locate(i, j, fi, k);
		const NbrJob &jb = jobs[j]; const NbrLine &l = ls[jb.line]; CwCount &cc = cwc[jb.cw];
		long x = l.vals[fi][k];
		std::string klass = "other";
		if (fi == 0 && l.fam == "qr" && bitlen(x) < (long)l.sz.E) { cc.crash_short++; klass = "qr-short-p"; }
		else if (fi == 0 && x == 0) { cc.crash_p0++; klass = "p0"; }
		else cc.crash_other++;
		json b; b["kind"] = "crash"; b["class"] = klass; b["sig"] = signame(sig); b["cls"] = jb.cls; b["via"] = jb.way.via; b["level"] = jb.way.level;
		b["v"] = l.v; b["base"] = l.base; b["field"] = l.names[fi]; b["x"] = x; s = b.dump() + "\n";
	};
	forked(total, body, crashed, out);
	for (size_t c = 0; c < cwname.size(); c++) {
		json o; o["kind"] = "total"; o["cw"] = cwname[c]; o["n"] = (long)cwc[c].n; o["nacc"] = (long)cwc[c].nacc; o["nthrow"] = (long)cwc[c].nthrow;
		o["nskip"] = (long)cwc[c].nskip; o["crash_p0"] = (long)cwc[c].crash_p0; o["crash_short"] = (long)cwc[c].crash_short; o["crash_other"] = (long)cwc[c].crash_other;
		fprintf(out, "%s\n", o.dump().c_str());
	}
	json o; o["kind"] = "done"; o["items"] = total; o["jobs"] = (long)jobs.size(); o["lines"] = (long)ls.size(); fprintf(out, "%s\n", o.dump().c_str());
	fclose(out);
	return 0;
}

// ------------------------------------------------------------------------------------------------ mode: box
// {"cls":..,"v":{..},"maxp":..,"maxq":..,"maxk":..,"margin":..,"acc":[[tuple]..], "pmin":.., "via":"set"}
// enumerates the whole box (all p in pmin..maxp; q in 0..maxq; k in 0..maxk; every generator in -margin..p+margin),
// assigns the public members of one object and requires CheckGroup() == (tuple in acc)
static int mode_box(const std::string &in, const std::string &outp) {
	std::vector<json> specs = read_ndjson(in);
	FILE *out = fopen(outp.c_str(), "w");
	auto body = [&](long si, std::string &s) {
		const json &sp = specs[(size_t)si];
		std::string cls = sp["cls"].get<std::string>(), fam = sp["v"]["fam"].get<std::string>();
		Sizes sz = class_sizes(cls, sizes_of(sp["v"]));
		std::vector<std::string> names = famfields(fam, sz.n);
		long maxp = sp["maxp"].get<long>(), maxq = sp["maxq"].get<long>(), maxk = sp["maxk"].get<long>(), margin = sp["margin"].get<long>();
		long pmin = sp.value("pmin", 0L);
		std::set<std::vector<long> > acc;
		for (size_t k = 0; k < sp["acc"].size(); k++) acc.insert(sp["acc"][k].get<std::vector<long> >());
		std::unique_ptr<Ad> a(make(cls)); a->sz = sz;
		FMap b = benign();
		if (fam == "qr") { b["p"] = Mpz(2147483647L); b["q"] = Mpz(1073741823L); }   // long enough for any E (short p: known crash)
		std::string via = (cls == "nts" || cls == "jl_rvss" || cls == "edcf") ? "mpz" : "stream";
		std::string st = build(a.get(), via, b);
		if (st != "ok") { json o; o["spec"] = si; o["error"] = "benign construction failed: " + st; s = o.dump() + "\n"; return; }
		std::vector<std::vector<mpz_ptr> > tgs;
		for (size_t k = 0; k < names.size(); k++) tgs.push_back(a->tg(names[k]));
		size_t nf = names.size();
		std::vector<long> t(nf, 0);
		long n = 0, nacc = 0; json bad = json::array();
		// which positions are generators (range depends on p)
		std::vector<int> kind(nf, 3);       // 0 p, 1 q, 2 k, 3 generator
		kind[0] = 0; kind[1] = 1; if (fam == "dlog" || fam == "com") kind[2] = 2;
		for (long p = pmin; p <= maxp; p++) {
			t[0] = p;
			std::vector<long> lo(nf), hi(nf);
			for (size_t k = 1; k < nf; k++) { lo[k] = (kind[k] == 3) ? -margin : 0; hi[k] = kind[k] == 1 ? maxq : (kind[k] == 2 ? maxk : p + margin); t[k] = lo[k]; }
			for (size_t k = 0; k < tgs[0].size(); k++) mpz_set_si(tgs[0][k], p);
			for (size_t f = 1; f < nf; f++) for (size_t k = 0; k < tgs[f].size(); k++) mpz_set_si(tgs[f][k], t[f]);
			while (true) {
				bool got = a->cg(); n++;
				bool exp = acc.count(t) > 0;
				if (got) nacc++;
				if (got != exp && bad.size() < 20) { json bb; bb["t"] = t; bb["exp"] = exp; bb["got"] = got; bad.push_back(bb); }
				// next tuple (last field fastest)
				size_t f = nf - 1;
				while (f >= 1) {
					if (t[f] < hi[f]) { t[f]++; for (size_t k = 0; k < tgs[f].size(); k++) mpz_set_si(tgs[f][k], t[f]); break; }
					t[f] = lo[f]; for (size_t k = 0; k < tgs[f].size(); k++) mpz_set_si(tgs[f][k], t[f]);
					f--;
				}
				if (f == 0) break;
			}
		}
		// every accepted tuple must lie inside the box that was enumerated (otherwise the comparison is vacuous for it)
		json o; o["spec"] = si; o["cls"] = cls; o["v"] = sp["v"]; o["n"] = n; o["nacc"] = nacc; o["nexp"] = (long)acc.size(); o["bad"] = bad;
		s = o.dump() + "\n";
	};
	auto crashed = [&](long si, int sig, long, std::string &s) { json o; o["spec"] = si; o["cls"] = specs[(size_t)si]["cls"]; o["crash"] = signame(sig); s = o.dump() + "\n"; };
	forked((long)specs.size(), body, crashed, out, 600);
	fclose(out);
	return 0;
}

// ------------------------------------------------------------------------------------------------ mode: gen
// the library's own generators at small sizes; one event per generated parameter set
static json tuple_of(Ad *a, const std::string &fam, size_t n) {
	std::vector<std::string> names = famfields(fam, n); json t = json::array();
	for (size_t k = 0; k < names.size(); k++) { std::vector<mpz_ptr> x = a->tg(names[k]); t.push_back(zj(x[0])); }
	return t;
}
static json vjson(const std::string &fam, const Sizes &s) {
	json v; v["fam"] = fam; v["F"] = s.F; v["G"] = s.G; v["E"] = s.E; v["le"] = s.le; v["canon"] = s.canon; v["n"] = s.n; return v;
}
static void elems(json &ev, Ad *a, mpz_srcptr p, const std::function<void(mpz_ptr)> &rnd) {
	json el = json::array();
	for (int k = 0; k < 6; k++) {
		Mpz x;
		if (k < 2 && rnd) rnd(x); else { mpz_set_ui(x, (unsigned long)(seam::next64() % (mpz_get_ui(p) + 3))); if (k == 5) mpz_sub_ui(x, x, 2); }
		int r = a->ce(x); if (r < 0) return;
		json pr = json::array(); pr.push_back(zj(x)); pr.push_back(r == 1); el.push_back(pr);
	}
	ev["el"] = el;
}
// hook H1 (src/mpz_shash.cc, guarded by LIBTMCG_VERIF): every string the library hashes with tmcg_mpz_shash
extern void (*tmcg_verif_shash_hook)(const std::string &input, mpz_srcptr output);
static std::vector<std::pair<std::string, std::string> > oracle_seen;
static void oracle_hook(const std::string &input, mpz_srcptr output) {
	if (input.compare(0, 8, "LibTMCG|") == 0) oracle_seen.push_back(std::make_pair(input, mpz2s(output)));
}
static int mode_gen(unsigned long seed, long count, const std::string &outp) {
	FILE *out = fopen(outp.c_str(), "w");
	tmcg_verif_shash_hook = oracle_hook;
	auto body = [&](long i, std::string &s) {
		seam::seed(seed * 1000003UL + (unsigned long)i); seam::seed_harness(seed * 7919UL + (unsigned long)i);
		// field 10..14 bits (p < 2^15 whatever k is rounded to), cofactor at least 6 bits: with fewer candidates for k the
		// library's tmcg_mpz_lprime can loop forever at these sizes (q is drawn once, then k is retried)
		unsigned long F = 10 + (unsigned long)(seam::next64() % 5);
		unsigned long G = 4 + (unsigned long)(seam::next64() % (F - 9));   // 4..F-6
		std::ostringstream acc;
		auto emit = [&](json ev) { ev["run"] = i; acc << ev.dump() << "\n"; };
		int what = (int)(i % 8);
		Sizes sz; sz.F = F; sz.G = G; sz.le = 1 + (unsigned long)(seam::next64() % (G / 2));   // 2 l_e <= |q| (a configuration the class accepts) sz.n = 1 + (size_t)(seam::next64() % 3); sz.canon = false;
		if (what == 0 || what == 1) {
			// VTMF group (what=1: verifiable generator), key generation, then every class that is built from (p,q,g,h)
			sz.canon = (what == 1);
			AdDlog a; a.sz = sz; a.o = new BarnettSmartVTMF_dlog(F, G, sz.canon, true);
			json ev; ev["e"] = "Gen"; ev["cls"] = "dlog"; ev["v"] = vjson("dlog", sz); ev["t"] = tuple_of(&a, "dlog", 0); ev["cg"] = a.cg();
			BarnettSmartVTMF_dlog *vt = a.o;
			elems(ev, &a, vt->p, [&](mpz_ptr x) { vt->RandomElement(x); }); emit(ev);
			// republish / re-read through the stream constructor (what another player does)
			{ std::stringstream ss; vt->PublishGroup(ss); AdDlog b; b.sz = sz; b.o = new BarnettSmartVTMF_dlog(ss, F, G, sz.canon, true);
			  json e2; e2["e"] = "Gen"; e2["cls"] = "dlog"; e2["via"] = "republished"; e2["v"] = vjson("dlog", sz); e2["t"] = tuple_of(&b, "dlog", 0); e2["cg"] = b.cg(); emit(e2); b.done(); }
			vt->KeyGenerationProtocol_GenerateKey(); vt->KeyGenerationProtocol_Finalize();
			FMap f; f["p"] = Mpz(); mpz_set(f["p"].v, vt->p); f["q"] = Mpz(); mpz_set(f["q"].v, vt->q); f["g"] = Mpz(); mpz_set(f["g"].v, vt->g);
			f["h"] = Mpz(); mpz_set(f["h"].v, vt->h); f["k"] = Mpz(); mpz_set(f["k"].v, vt->k);
			const char *cl[] = {"vrhe", "pvss", "gjkr_dkg", "nts", "cg_rvss", "cg_zvss", "cg_dkg", "cg_dss", "jl_rvss", "edcf", "eotp", "pubrotzk"};
			for (size_t c = 0; c < sizeof cl / sizeof cl[0]; c++) {
				std::string cls = cl[c]; std::unique_ptr<Ad> b(make(cls)); b->sz = sz;
				std::string st = build(b.get(), "mpz", f);
				std::string fam = cls == "eotp" ? "pqg" : "pqgh";
				json e2; e2["e"] = "Gen"; e2["cls"] = cls; e2["via"] = "from-vtmf"; e2["v"] = vjson(fam, sz); e2["st"] = st;
				if (st == "ok") { e2["t"] = tuple_of(b.get(), fam, 0); if (b->has_cg()) e2["cg"] = b->cg(); elems(e2, b.get(), vt->p, nullptr); b->done(); }
				emit(e2);
			}
			// shuffle argument on top of the VTMF group: commitment generators are the constructor's own choice
			{ AdVsshe b; b.sz = sz; b.o = new GrothVSSHE(sz.n, vt->p, vt->q, vt->k, vt->g, vt->h, sz.le, F, G);
			  json e2; e2["e"] = "Gen"; e2["cls"] = "vsshe"; e2["via"] = "from-vtmf"; e2["v"] = vjson("com", sz); e2["t"] = tuple_of(&b, "com", sz.n); e2["cg"] = b.cg();
			  e2["eq"] = zj(b.o->q); emit(e2);
			  Mpz coin; mpz_set_ui(coin, (unsigned long)(seam::next64() % 100000)); b.o->SetupGenerators_publiccoin(coin);
			  json e3; e3["e"] = "Setup"; e3["cls"] = "vsshe"; e3["v"] = vjson("com", sz); e3["a"] = zj(coin); e3["noh"] = true; e3["t"] = tuple_of(&b, "com", sz.n); e3["cg"] = b.cg(); e3["eq"] = zj(b.o->q); emit(e3);
			  b.done(); }
			a.done();
		} else if (what == 2) {
			Sizes q = sz; q.E = 1 + (unsigned long)(seam::next64() % F); q.canon = true;
			AdQR a; a.sz = q; a.o = new BarnettSmartVTMF_dlog_GroupQR(F, q.E);
			json ev; ev["e"] = "Gen"; ev["cls"] = "qr"; ev["v"] = vjson("qr", q); ev["t"] = tuple_of(&a, "qr", 0); ev["cg"] = a.cg();
			BarnettSmartVTMF_dlog_GroupQR *vt = a.o; elems(ev, &a, vt->p, [&](mpz_ptr x) { vt->RandomElement(x); }); emit(ev);
			{ std::stringstream ss; vt->PublishGroup(ss); AdQR b; b.sz = q; b.o = new BarnettSmartVTMF_dlog_GroupQR(ss, F, q.E);
			  json e2; e2["e"] = "Gen"; e2["cls"] = "qr"; e2["via"] = "republished"; e2["v"] = vjson("qr", q); e2["t"] = tuple_of(&b, "qr", 0); e2["cg"] = b.cg(); emit(e2); b.done(); }
			a.done();
		} else if (what == 3 || what == 4) {
			AdCom a; a.sz = sz; a.o = new PedersenCommitmentScheme(sz.n, F, G);
			json ev; ev["e"] = "Gen"; ev["cls"] = "com"; ev["v"] = vjson("com", sz); ev["t"] = tuple_of(&a, "com", sz.n); ev["cg"] = a.cg(); emit(ev);
			Mpz coin; mpz_set_ui(coin, (unsigned long)(seam::next64() % 100000)); a.o->SetupGenerators_publiccoin(coin, what == 4);
			json e3; e3["e"] = "Setup"; e3["cls"] = "com"; e3["v"] = vjson("com", sz); e3["a"] = zj(coin); e3["noh"] = (what == 4); e3["t"] = tuple_of(&a, "com", sz.n); e3["cg"] = a.cg(); emit(e3);
			{ std::stringstream ss; a.o->PublishGroup(ss); AdSkc b; b.sz = sz; b.o = new GrothSKC(sz.n, ss, sz.le, F, G);
			  json e2; e2["e"] = "Gen"; e2["cls"] = "skc"; e2["via"] = "republished"; e2["v"] = vjson("com", sz); e2["t"] = tuple_of(&b, "com", sz.n); e2["cg"] = b.cg(); emit(e2); b.done(); }
			a.done();
		} else if (what == 5) {
			AdSkc a; a.sz = sz; a.o = new GrothSKC(sz.n, sz.le, F, G);
			json ev; ev["e"] = "Gen"; ev["cls"] = "skc"; ev["v"] = vjson("com", sz); ev["t"] = tuple_of(&a, "com", sz.n); ev["cg"] = a.cg(); emit(ev); a.done();
			AdVrhe b; b.sz = sz; b.o = new HooghSchoenmakersSkoricVillegasVRHE(F, G);
			json e2; e2["e"] = "Gen"; e2["cls"] = "vrhe"; e2["v"] = vjson("pqgh", sz); e2["t"] = tuple_of(&b, "pqgh", 0); e2["cg"] = b.cg(); elems(e2, &b, b.o->p, nullptr); emit(e2); b.done();
		} else if (what == 6) {
			AdEotp a; a.sz = sz; a.o = new NaorPinkasEOTP(F, G);
			json ev; ev["e"] = "Gen"; ev["cls"] = "eotp"; ev["v"] = vjson("pqg", sz); ev["t"] = tuple_of(&a, "pqg", 0); ev["cg"] = a.cg(); elems(ev, &a, a.o->p, nullptr); emit(ev); a.done();
		} else {
			Sizes s1 = sz; s1.n = 1;
			AdPtc a; a.sz = s1; a.o = new PedersenTrapdoorCommitmentScheme(F, G);
			json ev; ev["e"] = "Gen"; ev["cls"] = "ptc"; ev["v"] = vjson("com", s1); ev["t"] = tuple_of(&a, "com", 1); ev["cg"] = a.cg(); emit(ev);
			{ std::stringstream ss; a.o->PublishGroup(ss); AdPtc b; b.sz = s1; b.o = new PedersenTrapdoorCommitmentScheme(ss, F, G);
			  json e2; e2["e"] = "Gen"; e2["cls"] = "ptc"; e2["via"] = "republished"; e2["v"] = vjson("com", s1); e2["t"] = tuple_of(&b, "com", 1); e2["cg"] = b.cg(); emit(e2); b.done(); }
			a.done();
		}
		// oracle answers observed, reduced modulo the prime named in the queried string ("LibTMCG|<p>|<q>|...")
		for (size_t k = 0; k < oracle_seen.size(); k++) {
			const std::string &u = oracle_seen[k].first; size_t b = u.find('|', 8);
			Mpz m(u.substr(8, b - 8), TMCG_MPZ_IO_BASE), r(oracle_seen[k].second, 10);
			if (mpz_sgn(m.v) <= 0) continue;
			mpz_mod(r, r, m);
			json o; o["e"] = "Oracle"; o["run"] = i; o["u"] = u; o["m"] = zj(m); o["r"] = zj(r); acc << o.dump() << "\n";
		}
		oracle_seen.clear();
		s = acc.str();
	};
	auto crashed = [&](long i, int sig, long, std::string &s) { json o; o["e"] = "Crash"; o["run"] = i; o["sig"] = signame(sig); s = o.dump() + "\n"; };
	forked(count, body, crashed, out, 3);
	fclose(out);
	return 0;
}

// ------------------------------------------------------------------------------------------------ selftest
// schemes with more generators than the fixed-base tables hold (TMCG_MAX_FPOWM_N = 256): a well-formed set built by hand
// (p = 1229, q = 307, k = 4; h = b, g_i = b^(i+1) for a generator b of the subgroup), read through the stream constructors,
// untouched and with one generator replaced by an element outside the subgroup at indices below, at and above the limit
static int mode_many(const std::string &outp) {
	FILE *out = fopen(outp.c_str(), "w");
	const unsigned long P = 1229, Q = 307, K = 4;
	Mpz p(P), q(Q), b(2), one(1); mpz_powm_ui(b, b, K, p);           // 2^k generates the subgroup unless it is 1
	if (mpz_cmp_ui(b.v, 1) == 0) { mpz_set_ui(b, 3); mpz_powm_ui(b, b, K, p); }
	Mpz bad(2); { Mpz t; for (unsigned long x = 2; x < P - 1; x++) { mpz_set_ui(bad, x); mpz_powm_ui(t, bad, Q, p); if (mpz_cmp_ui(t.v, 1) != 0) break; } }
	const size_t ns[] = {256, 257, 300};
	long run = 0;
	for (size_t ni = 0; ni < 3; ni++) {
		size_t n = ns[ni];
		std::vector<unsigned long> elems;       // h, g_1 .. g_n
		{ Mpz x(1); for (size_t i = 0; i <= n; i++) { mpz_mul(x, x, b); mpz_mod(x, x, p); elems.push_back(mpz_get_ui(x)); } }
		long idx[] = {-1, 0, 1, 128, 254, 255, 256, 257, (long)n - 2, (long)n - 1};
		for (size_t ci = 0; ci < sizeof(idx) / sizeof(idx[0]); ci++) {
			long j = idx[ci]; if (j >= (long)n) continue;
			std::vector<unsigned long> t(elems); if (j >= 0) t[(size_t)j + 1] = mpz_get_ui(bad);
			std::ostringstream com; com << b62(Mpz(P).v) << "\n" << b62(Mpz(Q).v) << "\n" << b62(Mpz(K).v) << "\n";
			for (size_t i = 0; i < t.size(); i++) com << b62(Mpz(t[i]).v) << "\n";
			const char *cls[] = {"com", "skc", "vsshe"};
			for (int c = 0; c < 3; c++) {
				Sizes sz; sz.F = 11; sz.G = 9; sz.E = 0; sz.le = (c == 2) ? 4 : 0; sz.canon = false; sz.n = n;
				bool cg = false;
				if (c == 0) { std::stringstream in(com.str()); PedersenCommitmentScheme o(n, in, sz.F, sz.G); cg = o.CheckGroup(); }
				else if (c == 1) { std::stringstream in(com.str()); GrothSKC o(n, in, 4, sz.F, sz.G); cg = o.CheckGroup(); }
				else { std::stringstream in; in << b62(Mpz(P).v) << "\n" << b62(Mpz(Q).v) << "\n" << b62(Mpz(elems[1]).v) << "\n" << b62(Mpz(elems[0]).v) << "\n" << com.str();
				       GrothVSSHE o(n, in, sz.le, sz.F, sz.G); cg = o.CheckGroup(); }
				json ev; ev["e"] = "Gen"; ev["cls"] = cls[c]; ev["via"] = "many"; ev["v"] = vjson("com", sz); ev["run"] = run++;
				json tt = json::array(); tt.push_back(P); tt.push_back(Q); tt.push_back(K); for (size_t i = 0; i < t.size(); i++) tt.push_back(t[i]);
				ev["t"] = tt; ev["cg"] = cg; ev["eq"] = Q; ev["corrupted"] = j;
				fprintf(out, "%s\n", ev.dump().c_str());
			}
		}
	}
	fclose(out); return 0;
}

static int mode_selftest() {
	// nested stream offsets: distinct values per level must arrive in the intended members
	int bad = 0;
	{ AdCgDss a; a.sz.F = 5; a.sz.G = 4; FMap f = benign(); f["o.p"] = Mpz(101); f["d.p"] = Mpz(103); f["r.p"] = Mpz(107); f["d.h"] = Mpz(5); f["r.g"] = Mpz(6);
	  a.stream(f);
	  if (mpz_cmp_ui(a.o->p, 101) || mpz_cmp_ui(a.o->dkg->p, 103) || mpz_cmp_ui(a.o->dkg->x_rvss->p, 107) || mpz_cmp_ui(a.o->dkg->h, 5) || mpz_cmp_ui(a.o->dkg->x_rvss->g, 6) ||
	      mpz_cmp_ui(a.o->q, 11) || mpz_cmp_ui(a.o->dkg->q, 11) || mpz_cmp_ui(a.o->dkg->x_rvss->q, 11) || a.o->n != 2 || a.o->dkg->n != 2 || a.o->dkg->x_rvss->n != 2) bad |= 1;
	  a.done(); }
	{ AdCgDkg a; a.sz.F = 5; a.sz.G = 4; FMap f = benign(); f["o.p"] = Mpz(101); f["r.p"] = Mpz(107); f["r.h"] = Mpz(9);
	  a.stream(f);
	  if (mpz_cmp_ui(a.o->p, 101) || mpz_cmp_ui(a.o->x_rvss->p, 107) || mpz_cmp_ui(a.o->x_rvss->h, 9) || mpz_cmp_ui(a.o->h, 3) || a.o->x_rvss->n != 2) bad |= 2;
	  a.done(); }
	{ AdVsshe a; a.sz.F = 5; a.sz.G = 4; a.sz.n = 2; a.sz.le = 1; FMap f = benign(); f["e.p"] = Mpz(101); f["e.q"] = Mpz(7);
	  a.stream(f);
	  if (mpz_cmp_ui(a.o->p, 101) || mpz_cmp_ui(a.o->q, 7) || mpz_cmp_ui(a.o->com->p, 23) || mpz_cmp_ui(a.o->skc->com->q, 11) || mpz_cmp_ui(a.o->skc->com->g[1], 4) || mpz_cmp_ui(a.o->skc->com->h, 3)) bad |= 4;
	  a.done(); }
	{ AdPvss a; a.sz.F = 5; a.sz.G = 4; FMap f = benign(); a.stream(f); if (mpz_cmp_ui(a.o->p, 23) || mpz_cmp_ui(a.o->h, 3) || a.o->n != 2 || a.o->t != 1) bad |= 8; a.done(); }
	{ AdPtc a; a.sz.F = 5; a.sz.G = 4; FMap f = benign(); a.stream(f); if (mpz_cmp_ui(a.o->g, 2) || mpz_cmp_ui(a.o->h, 3) || mpz_cmp_ui(a.o->k, 2)) bad |= 16; a.done(); }
	printf("{\"selftest\":%d}\n", bad);
	return bad ? 2 : 0;
}

int main(int argc, char **argv) {
	// every construction allocates and frees a few 32 KB exponentiation tables: without this glibc gives the top of the
	// heap back to the kernel and asks for it again on every case (brk + page zeroing dominate the run time)
	mallopt(M_TRIM_THRESHOLD, 1 << 30); mallopt(M_TOP_PAD, 256 << 20); mallopt(M_MMAP_THRESHOLD, 64 << 20);
	if (!init_libTMCG()) { fprintf(stderr, "init_libTMCG failed\n"); return 2; }
	quiet_cerr(); install_terminate("drv_group");
	seam::seed(1);
	std::string m = argc > 1 ? argv[1] : "";
	try {
		if (m == "hash" && argc == 4) return mode_hash(argv[2], argv[3]);
		if (m == "cases" && argc == 4) return mode_cases(argv[2], argv[3]);
		if (m == "prefetch" && argc == 5) return mode_prefetch(atol(argv[2]), atol(argv[3]), argv[4]);
		if (m == "nbr" && argc >= 4) return mode_nbr(argv[2], argv[3], argc > 4 ? atol(argv[4]) : 0, argc > 5 ? atol(argv[5]) : 1, argc > 6 ? atol(argv[6]) : 0);
		if (m == "box" && argc == 4) return mode_box(argv[2], argv[3]);
		if (m == "gen" && argc == 5) return mode_gen(strtoul(argv[2], 0, 10), atol(argv[3]), argv[4]);
		if (m == "many" && argc == 3) return mode_many(argv[2]);
		if (m == "selftest") return mode_selftest();
	} catch (const std::exception &e) { fprintf(stderr, "drv_group: %s\n", e.what()); return 2; }
	fprintf(stderr, "usage: drv_group hash|cases|nbr|box|gen|selftest ...\n");
	return 2;
}
