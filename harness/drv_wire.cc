// drv_wire: export / import of every exportable type of libTMCG (property C11).  Reports raw results only.
//   drv_wire info                                   limits compiled into the library
//   drv_wire cases <cases.ndjson> <results.ndjson>  direction A: the lines printed by TLC (spec/WireGen.tla)
//        case line {c:"case", ty, big, arg, o:{object description}, txt:<text of the specification>, used:[[k,w],..]}
//          -> the object is built from o (public members), exported; txt is imported through every import path
//             of the type into fresh (and, where the type resets on import, used) objects; each imported object is
//             compared member by member (and with operator== where the type has one) and exported again
//        lim line  {c:"lim", ty, big, arg, txt} -> txt is imported through every path; verdict and re-export
//   drv_wire record <seed> <tier> <trace.ndjson>    direction B: objects made by the library itself (generated keys,
//             stacks and stack secrets made by the toolbox); logged with their members rendered by GMP, their
//             export text and the round trip results (validated by spec/WireTrace.tla)
// Result line per case: {id, ty, ex:<export text>, pre:<false if the object could not be set up>,
//   paths:{<path>:{ok, eq, eqop, diff, re}}, used:[{d, path, ok, eq, diff, re}]}; re is "=" when it equals ex.
#include "common.hh"
#ifdef HAVE_CONFIG_H
#include "libTMCG_config.h"
#endif
#include <algorithm>
#include <stdexcept>
#include <memory>
#define private public
#define protected public
#include "libTMCG.hh"
#undef private
#undef protected
#include <mutex>
#include "sim.hh"

static const unsigned long FS = 16, GS = 8;     // size arguments of the constructors (not part of any format)

// ------------------------------------------------------------------------------------------------- leaves
static void setleaf(mpz_ptr x, const json &v) {
	if (v.is_string()) {
		if (mpz_set_str(x, v.get<std::string>().c_str(), 62) < 0) throw std::runtime_error("bad numeral in case: " + v.get<std::string>());
	} else mpz_set_si(x, (long)v.get<long long>());
}
static std::string num62(mpz_srcptr x) { return mpz2s(x, 62); }     // GMP's own rendering (used for logging only)
template <class T> static std::string expo(const T &o) { std::ostringstream os; os << o; return os.str(); }
static void garbage(mpz_ptr x, unsigned long salt) { mpz_set_ui(x, 0xDEADBEEFUL); mpz_mul_ui(x, x, 1000003UL + salt); mpz_neg(x, x); }

struct PathRes { bool ok = false; std::string diff; int eqop = -1; std::string re; bool has_re = false; };
static json path_json(const PathRes &r, const std::string &ex) {
	json j; j["ok"] = r.ok;
	if (r.ok) { j["eq"] = r.diff.empty(); if (!r.diff.empty()) j["diff"] = r.diff; if (r.eqop >= 0) j["eqop"] = (r.eqop == 1);
	            if (r.has_re) j["re"] = (r.re == ex ? std::string("=") : r.re); }
	return j;
}

// ------------------------------------------------------------------------------------------------- cards
static void build(TMCG_Card &c, const json &o) {
	size_t k = o["k"], w = o["w"]; c.resize(k, w);
	for (size_t i = 0; i < k; i++) for (size_t j = 0; j < w; j++) setleaf(&c.z[i][j], o["z"][i][j]);
}
static void build(TMCG_CardSecret &c, const json &o) {
	size_t k = o["k"], w = o["w"]; c.resize(k, w);
	for (size_t i = 0; i < k; i++) for (size_t j = 0; j < w; j++) { setleaf(&c.r[i][j], o["r"][i][j]); setleaf(&c.b[i][j], o["b"][i][j]); }
}
static void build(VTMF_Card &c, const json &o) { setleaf(c.c_1, o["c1"]); setleaf(c.c_2, o["c2"]); }
static void build(VTMF_CardSecret &c, const json &o) { setleaf(c.r, o["r"]); }
template <class C> static void build(TMCG_Stack<C> &s, const json &o) {
	for (const auto &e : o["s"]) { C c; build(c, e); s.stack.push_back(c); }     // (push() refuses beyond TMCG_MAX_CARDS)
}
template <class C> static void build(TMCG_StackSecret<C> &s, const json &o) {
	for (size_t i = 0; i < o["s"].size(); i++) { C c; build(c, o["s"][i]); s.stack.push_back(std::pair<size_t, C>((size_t)o["pi"][i], c)); }
}
static void used(TMCG_Card &c, size_t k, size_t w) { c.resize(k, w); for (size_t i = 0; i < k; i++) for (size_t j = 0; j < w; j++) garbage(&c.z[i][j], i * 16 + j); }
static void used(TMCG_CardSecret &c, size_t k, size_t w) {
	c.resize(k, w); for (size_t i = 0; i < k; i++) for (size_t j = 0; j < w; j++) { garbage(&c.r[i][j], i * 16 + j); garbage(&c.b[i][j], 7 + i * 16 + j); }
}
static void used(VTMF_Card &c, size_t, size_t) { garbage(c.c_1, 1); garbage(c.c_2, 2); }
static void used(VTMF_CardSecret &c, size_t, size_t) { garbage(c.r, 3); }

static std::string differ(const TMCG_Card &a, const TMCG_Card &b) {
	if (a.z.size() != b.z.size()) return "k";
	for (size_t i = 0; i < a.z.size(); i++) {
		if (a.z[i].size() != b.z[i].size()) return "w";
		for (size_t j = 0; j < a.z[i].size(); j++) if (mpz_cmp(&a.z[i][j], &b.z[i][j])) return "z[" + std::to_string(i) + "][" + std::to_string(j) + "]";
	}
	return "";
}
static std::string differ(const TMCG_CardSecret &a, const TMCG_CardSecret &b) {
	if (a.r.size() != b.r.size() || a.b.size() != b.b.size()) return "k";
	for (size_t i = 0; i < a.r.size(); i++) {
		if (a.r[i].size() != b.r[i].size() || a.b[i].size() != b.b[i].size()) return "w";
		for (size_t j = 0; j < a.r[i].size(); j++) {
			if (mpz_cmp(&a.r[i][j], &b.r[i][j])) return "r[" + std::to_string(i) + "][" + std::to_string(j) + "]";
			if (mpz_cmp(&a.b[i][j], &b.b[i][j])) return "b[" + std::to_string(i) + "][" + std::to_string(j) + "]";
		}
	}
	return "";
}
static std::string differ(const VTMF_Card &a, const VTMF_Card &b) { return mpz_cmp(a.c_1, b.c_1) ? "c_1" : mpz_cmp(a.c_2, b.c_2) ? "c_2" : ""; }
static std::string differ(const VTMF_CardSecret &a, const VTMF_CardSecret &b) { return mpz_cmp(a.r, b.r) ? "r" : ""; }
template <class C> static std::string differ(const TMCG_Stack<C> &a, const TMCG_Stack<C> &b) {
	if (a.stack.size() != b.stack.size()) return "size";
	for (size_t i = 0; i < a.stack.size(); i++) { std::string d = differ(a.stack[i], b.stack[i]); if (!d.empty()) return "[" + std::to_string(i) + "]." + d; }
	return "";
}
template <class C> static std::string differ(const TMCG_StackSecret<C> &a, const TMCG_StackSecret<C> &b) {
	if (a.stack.size() != b.stack.size()) return "size";
	for (size_t i = 0; i < a.stack.size(); i++) {
		if (a.stack[i].first != b.stack[i].first) return "[" + std::to_string(i) + "].index";
		std::string d = differ(a.stack[i].second, b.stack[i].second); if (!d.empty()) return "[" + std::to_string(i) + "]." + d;
	}
	return "";
}
static int eqop(const TMCG_Card &a, const TMCG_Card &b) { return ((a == b) && !(a != b)) ? 1 : 0; }
static int eqop(const VTMF_Card &a, const VTMF_Card &b) { return ((a == b) && !(a != b)) ? 1 : 0; }
static int eqop(const TMCG_CardSecret &, const TMCG_CardSecret &) { return -1; }
static int eqop(const VTMF_CardSecret &, const VTMF_CardSecret &) { return -1; }
template <class C> static int eqop(const TMCG_Stack<C> &a, const TMCG_Stack<C> &b) {
	TMCG_Stack<C> &x = const_cast<TMCG_Stack<C>&>(a); return ((x == b) && !(x != b)) ? 1 : 0;
}
template <class C> static int eqop(const TMCG_StackSecret<C> &, const TMCG_StackSecret<C> &) { return -1; }

// import paths of the one-line types: the member function import() and operator>> (text closed by a newline)
template <class T> static PathRes imp_member(T &tgt, const std::string &txt, const T *orig) {
	PathRes r; r.ok = tgt.import(txt);
	if (r.ok) { r.re = expo(tgt); r.has_re = true; if (orig) { r.diff = differ(*orig, tgt); r.eqop = eqop(*orig, tgt); } }
	return r;
}
template <class T> static PathRes imp_stream(T &tgt, const std::string &txt, const T *orig) {
	PathRes r; std::istringstream is(txt + "\n"); is >> tgt; r.ok = !is.fail();
	if (r.ok) { r.re = expo(tgt); r.has_re = true; if (orig) { r.diff = differ(*orig, tgt); r.eqop = eqop(*orig, tgt); } }
	return r;
}
template <class T, bool with_used> static void run_oneline(const json &c, json &res) {
	bool is_case = c["c"] == "case"; std::string txt = c["txt"];
	std::unique_ptr<T> orig; std::string ex;
	if (is_case) { orig.reset(new T()); build(*orig, c["o"]); ex = expo(*orig); res["ex"] = ex; }
	{ T a; res["paths"]["import"] = path_json(imp_member(a, txt, orig.get()), ex); }
	{ T b; res["paths"]["stream"] = path_json(imp_stream(b, txt, orig.get()), ex); }
	if constexpr (with_used) if (is_case) {
		json ul = json::array();
		if (c["used"].empty()) {       // types without dimensions: one used object
			{ T u; used(u, 0, 0); json j = path_json(imp_member(u, txt, orig.get()), ex); j["path"] = "import"; ul.push_back(j); }
			{ T u; used(u, 0, 0); json j = path_json(imp_stream(u, txt, orig.get()), ex); j["path"] = "stream"; ul.push_back(j); }
		}
		for (const auto &d : c["used"]) {
			{ T u; used(u, (size_t)d[0], (size_t)d[1]); json j = path_json(imp_member(u, txt, orig.get()), ex); j["d"] = d; j["path"] = "import"; ul.push_back(j); }
			{ T u; used(u, (size_t)d[0], (size_t)d[1]); json j = path_json(imp_stream(u, txt, orig.get()), ex); j["d"] = d; j["path"] = "stream"; ul.push_back(j); }
		}
		res["used"] = ul;
	}
}

// ------------------------------------------------------------------------------------------------- keys
static void build(TMCG_PublicKey &k, const json &o) {
	k.name = o["name"]; k.email = o["email"]; k.type = o["kty"]; k.nizk = o["nizk"]; k.sig = o["sig"]; setleaf(k.m, o["m"]); setleaf(k.y, o["y"]);
}
static bool build(TMCG_SecretKey &k, const json &o) {
	k.name = o["name"]; k.email = o["email"]; k.type = o["kty"]; k.nizk = o["nizk"]; k.sig = o["sig"];
	setleaf(k.m, o["m"]); setleaf(k.y, o["y"]); setleaf(k.p, o["p"]); setleaf(k.q, o["q"]);
	return k.precompute();
}
static std::string differ(const TMCG_PublicKey &a, const TMCG_PublicKey &b) {
	return a.name != b.name ? "name" : a.email != b.email ? "email" : a.type != b.type ? "type" : a.nizk != b.nizk ? "nizk" : a.sig != b.sig ? "sig"
	     : mpz_cmp(a.m, b.m) ? "m" : mpz_cmp(a.y, b.y) ? "y" : "";
}
static std::string differ(const TMCG_SecretKey &a, const TMCG_SecretKey &b) {
	return a.name != b.name ? "name" : a.email != b.email ? "email" : a.type != b.type ? "type" : a.nizk != b.nizk ? "nizk" : a.sig != b.sig ? "sig"
	     : mpz_cmp(a.m, b.m) ? "m" : mpz_cmp(a.y, b.y) ? "y" : mpz_cmp(a.p, b.p) ? "p" : mpz_cmp(a.q, b.q) ? "q"
	     : mpz_cmp(a.y1, b.y1) ? "y1" : mpz_cmp(a.m1pq, b.m1pq) ? "m1pq" : mpz_cmp(a.gcdext_up, b.gcdext_up) ? "gcdext_up"
	     : mpz_cmp(a.gcdext_vq, b.gcdext_vq) ? "gcdext_vq" : mpz_cmp(a.pa1d4, b.pa1d4) ? "pa1d4" : mpz_cmp(a.qa1d4, b.qa1d4) ? "qa1d4" : "";
}
static int eqop(const TMCG_PublicKey &, const TMCG_PublicKey &) { return -1; }
static int eqop(const TMCG_SecretKey &, const TMCG_SecretKey &) { return -1; }
static const char *USED_PUB = "pub|Used|u@u|T|1F|6|n^1^|sig|u|";
static const char *USED_SEC = "sec|Used|u@u|T|1F|6|7|B|n^1^|sig|u|";
template <class K> static void run_key(const json &c, json &res, const char *usedtxt) {
	bool is_case = c["c"] == "case"; std::string txt = c["txt"];
	std::unique_ptr<K> orig; std::string ex;
	if (is_case) {
		orig.reset(new K());
		if constexpr (std::is_same<K, TMCG_SecretKey>::value) { if (!build(*orig, c["o"])) res["pre"] = false; } else build(*orig, c["o"]);
		ex = expo(*orig); res["ex"] = ex;
	}
	{ K a; res["paths"]["import"] = path_json(imp_member(a, txt, orig.get()), ex); }
	{ K b; res["paths"]["stream"] = path_json(imp_stream(b, txt, orig.get()), ex); }
	if (is_case) {
		{ K k(txt); PathRes r; r.ok = true; r.re = expo(k); r.has_re = true; r.diff = differ(*orig, k); res["paths"]["ctor"] = path_json(r, ex); }
		json ul = json::array();
		{ K u; bool pre = u.import(usedtxt); json j = path_json(imp_member(u, txt, orig.get()), ex); j["path"] = "import"; j["prepared"] = pre; ul.push_back(j); }
		{ K u; bool pre = u.import(usedtxt); json j = path_json(imp_stream(u, txt, orig.get()), ex); j["path"] = "stream"; j["prepared"] = pre; ul.push_back(j); }
		res["used"] = ul;
	}
}

// ------------------------------------------------------------------------------------------------- integers
static void run_int(const json &c, json &res) {
	bool is_case = c["c"] == "case"; std::string txt = c["txt"]; bool many = c["ty"] == "ints";
	size_t n = many ? (size_t)c["arg"] : 1;
	std::vector<Mpz> orig(n);
	std::string ex;
	if (is_case) {
		for (size_t i = 0; i < n; i++) setleaf(orig[i], many ? c["o"]["v"][i] : c["o"]["v"]);
		std::ostringstream os; for (size_t i = 0; i < n; i++) os << (mpz_srcptr)orig[i].v << std::endl; ex = os.str(); res["ex"] = ex;
	}
	auto rd = [&](bool usedobj, bool bigint) {
		PathRes r; std::istringstream is(txt); std::ostringstream os; r.ok = true;
		try {
			for (size_t i = 0; i < n; i++) {
				if (bigint) {
					TMCG_Bigint b; if (usedobj) garbage(b.bigint, i);
					is >> b;
					if (is_case && mpz_cmp(b.bigint, orig[i].v) && r.diff.empty()) r.diff = "v[" + std::to_string(i) + "]";
					os << b << std::endl;
				} else {
					Mpz x; if (usedobj) garbage(x, i);
					is >> (mpz_ptr)x.v;
					if (is_case && mpz_cmp(x.v, orig[i].v) && r.diff.empty()) r.diff = "v[" + std::to_string(i) + "]";
					os << (mpz_srcptr)x.v << std::endl;
				}
			}
		} catch (const std::exception &) { r.ok = false; }
		r.re = os.str(); r.has_re = true; return r;
	};
	res["paths"]["mpz"] = path_json(rd(false, false), ex);
	res["paths"]["bigint"] = path_json(rd(false, true), ex);
	if (is_case) {
		json ul = json::array();
		{ json j = path_json(rd(true, false), ex); j["path"] = "mpz"; ul.push_back(j); }
		{ json j = path_json(rd(true, true), ex); j["path"] = "bigint"; ul.push_back(j); }
		res["used"] = ul;
		// the other two writers of the same text: TMCG_Bigint and (non-negative values) gcry_mpi_t
		std::ostringstream ob, og; bool gok = true;
		for (size_t i = 0; i < n; i++) {
			TMCG_Bigint b; mpz_set(b.bigint, orig[i].v); ob << b << std::endl;
			if (many) continue;
			if (mpz_sgn(orig[i].v) >= 0) {
				gcry_mpi_t g = gcry_mpi_new(8);
				if (!tmcg_mpz_get_gcry_mpi(g, orig[i].v)) gok = false; else { try { og << g << std::endl; } catch (...) { gok = false; } }
				gcry_mpi_release(g);
			} else og << (mpz_srcptr)orig[i].v << std::endl;       // not applicable: keep the line so that the texts stay comparable
		}
		res["ex_bigint"] = (ob.str() == ex ? std::string("=") : ob.str());
		if (!many) res["ex_gcry"] = !gok ? std::string("conversion failed") : (og.str() == ex ? std::string("=") : og.str());
	}
}

// ------------------------------------------------------------------------------------------------- line formats
struct Tiny { Mpz p{23}, q{11}, g{2}, h{3}, k{2}; };
static Tiny TG;
static void setvec(std::vector<mpz_ptr> &v, const json &a, const char *what) {
	if (v.size() != a.size()) throw std::runtime_error(std::string("dimension of ") + what);
	for (size_t i = 0; i < v.size(); i++) setleaf(v[i], a[i]);
}
static void setmat(std::vector<std::vector<mpz_ptr> > &m, const json &a, const char *what) {
	if (m.size() != a.size()) throw std::runtime_error(std::string("dimension of ") + what);
	for (size_t i = 0; i < m.size(); i++) setvec(m[i], a[i], what);
}
static std::string dvec(const std::vector<mpz_ptr> &a, const std::vector<mpz_ptr> &b, const std::string &what) {
	if (a.size() != b.size()) return what + ".size";
	for (size_t i = 0; i < a.size(); i++) if (mpz_cmp(a[i], b[i])) return what + "[" + std::to_string(i) + "]";
	return "";
}
static std::string dmat(const std::vector<std::vector<mpz_ptr> > &a, const std::vector<std::vector<mpz_ptr> > &b, const std::string &what) {
	if (a.size() != b.size()) return what + ".size";
	for (size_t i = 0; i < a.size(); i++) { std::string d = dvec(a[i], b[i], what + "[" + std::to_string(i) + "]"); if (!d.empty()) return d; }
	return "";
}
#define DM(f) if (mpz_cmp(a.f, b.f)) return #f;
#define DS(f) if (a.f != b.f) return #f;
#define DV(f) { std::string d_ = dvec(a.f, b.f, #f); if (!d_.empty()) return d_; }
#define DX(f) { std::string d_ = dmat(a.f, b.f, #f); if (!d_.empty()) return d_; }

typedef BarnettSmartVTMF_dlog VTMF;
typedef PedersenCommitmentScheme COM;
typedef HooghSchoenmakersSkoricVillegasVRHE VRHE;
typedef PedersenTrapdoorCommitmentScheme PTC;
typedef GennaroJareckiKrawczykRabinDKG GJKR;
typedef CanettiGennaroJareckiKrawczykRabinRVSS RVSS;
typedef CanettiGennaroJareckiKrawczykRabinZVSS ZVSS;
typedef CanettiGennaroJareckiKrawczykRabinDKG CDKG;
typedef CanettiGennaroJareckiKrawczykRabinDSS DSS;

static std::string differ(const VTMF &a, const VTMF &b) { DM(p) DM(q) DM(g) DM(k) return ""; }
static std::string differ(const COM &a, const COM &b) { DM(p) DM(q) DM(k) DM(h) DV(g) return ""; }
static std::string differ(const GrothSKC &a, const GrothSKC &b) { return differ(*a.com, *b.com); }
static std::string differ(const GrothVSSHE &a, const GrothVSSHE &b) { DM(p) DM(q) DM(g) DM(h) std::string d = differ(*a.com, *b.com); return d.empty() ? d : "com." + d; }
static std::string differ(const VRHE &a, const VRHE &b) { DM(p) DM(q) DM(g) DM(h) return ""; }
static std::string differ(const PTC &a, const PTC &b) { DM(p) DM(q) DM(k) DM(g) DM(h) return ""; }
static std::string differ(const NaorPinkasEOTP &a, const NaorPinkasEOTP &b) { DM(p) DM(q) DM(g) return ""; }
static std::string differ(const PedersenVSS &a, const PedersenVSS &b) { DM(p) DM(q) DM(g) DM(h) DS(n) DS(t) DS(i) DM(sigma_i) DM(tau_i) DV(a_j) DV(b_j) DV(A_j) return ""; }
static std::string differ(const GJKR &a, const GJKR &b) {
	DM(p) DM(q) DM(g) DM(h) DS(n) DS(t) DS(i) DM(x_i) DM(xprime_i) DM(y) DS(QUAL) DV(y_i) DV(z_i) DV(v_i) DX(s_ij) DX(sprime_ij) DX(C_ik) return "";
}
static std::string differ(const RVSS &a, const RVSS &b) {
	DM(p) DM(q) DM(g) DM(h) DS(n) DS(t) DS(i) DS(tprime) DM(x_i) DM(xprime_i) DM(z_i) DM(zprime_i) DS(QUAL) DX(s_ji) DX(sprime_ji) DX(C_ik) return "";
}
static std::string differ(const ZVSS &a, const ZVSS &b) {
	DM(p) DM(q) DM(g) DM(h) DS(n) DS(t) DS(i) DS(tprime) DM(x_i) DM(xprime_i) DS(QUAL) DX(s_ji) DX(sprime_ji) DX(C_ik) return "";
}
static std::string differ(const CDKG &a, const CDKG &b) {
	DM(p) DM(q) DM(g) DM(h) DS(n) DS(t) DS(i) DM(x_i) DM(xprime_i) DM(y) DS(QUAL) std::string d = differ(*a.x_rvss, *b.x_rvss); return d.empty() ? d : "x_rvss." + d;
}
static std::string differ(const DSS &a, const DSS &b) {
	DM(p) DM(q) DM(g) DM(h) DS(n) DS(t) DS(i) DM(x_i) DM(xprime_i) DM(y) DS(QUAL) std::string d = differ(*a.dkg, *b.dkg); return d.empty() ? d : "dkg." + d;
}

static void setqual(std::vector<size_t> &Q, const json &a) { Q.clear(); for (const auto &x : a) Q.push_back((size_t)x); }
static void fill_crs(mpz_ptr p, mpz_ptr q, mpz_ptr g, mpz_ptr h, const json &o) { setleaf(p, o["p"]); setleaf(q, o["q"]); setleaf(g, o["g"]); setleaf(h, o["h"]); }
static void fill(RVSS &r, const json &o) {
	fill_crs(r.p, r.q, r.g, r.h, o); setleaf(r.x_i, o["x"]); setleaf(r.xprime_i, o["xp"]); setleaf(r.z_i, o["z"]); setleaf(r.zprime_i, o["zp"]);
	setqual(r.QUAL, o["qual"]); setmat(r.s_ji, o["s"], "s"); setmat(r.sprime_ji, o["sp"], "sp"); setmat(r.C_ik, o["C"], "C");
}
static void fill(CDKG &d, const json &o) {
	fill_crs(d.p, d.q, d.g, d.h, o); setleaf(d.x_i, o["x"]); setleaf(d.xprime_i, o["xp"]); setleaf(d.y, o["y"]); setqual(d.QUAL, o["qual"]);
	fill(*d.x_rvss, o["rvss"]);
}

// builders: the object is made by the parameter constructor (in the tiny group) and then given the members of the case
static VTMF *mk_vtmf(const json &o) { VTMF *v = new VTMF(FS, GS, false, false); setleaf(v->p, o["p"]); setleaf(v->q, o["q"]); setleaf(v->g, o["g"]); setleaf(v->k, o["k"]); return v; }
static void fill(COM &c, const json &o) { setleaf(c.p, o["p"]); setleaf(c.q, o["q"]); setleaf(c.k, o["k"]); setleaf(c.h, o["h"]); setvec(c.g, o["g"], "g"); }
static COM *mk_com(const json &o) { COM *c = new COM(o["g"].size(), TG.p, TG.q, TG.k, TG.h, FS, GS); fill(*c, o); return c; }
static GrothSKC *mk_skc(const json &o) {
	std::stringstream s; { COM t(o["g"].size(), TG.p, TG.q, TG.k, TG.h, FS, GS); t.PublishGroup(s); }
	// (the class has no constructor from parameters: the object is made from the export of a commitment scheme the library
	//  just made - if that text is refused, the library exported something it cannot import)
	GrothSKC *k = NULL;
	try { k = new GrothSKC(o["g"].size(), s, 1, FS, GS); }
	catch (const std::exception &e) { throw std::runtime_error(std::string("EXPORT_NOT_IMPORTABLE: PedersenCommitmentScheme::PublishGroup of a fresh scheme with ") + std::to_string(o["g"].size()) + " generators is refused by the stream constructor of GrothSKC: " + e.what()); }
	fill(*k->com, o); return k;
}
static GrothVSSHE *mk_vsshe(const json &o) {
	GrothVSSHE *v = new GrothVSSHE(o["com"]["g"].size(), TG.p, TG.q, TG.k, TG.g, TG.h, 1, FS, GS);
	fill_crs(v->p, v->q, v->g, v->h, o); fill(*v->com, o["com"]); return v;
}
static VRHE *mk_vrhe(const json &o) { VRHE *v = new VRHE(TG.p, TG.q, TG.g, TG.h, FS, GS); fill_crs(v->p, v->q, v->g, v->h, o); return v; }
static PTC *mk_ptc(const json &o) { PTC *v = new PTC(TG.p, TG.q, TG.k, TG.g, FS, GS); fill_crs(v->p, v->q, v->g, v->h, o); setleaf(v->k, o["k"]); return v; }
static NaorPinkasEOTP *mk_eotp(const json &o) { NaorPinkasEOTP *v = new NaorPinkasEOTP(TG.p, TG.q, TG.g, FS, GS); setleaf(v->p, o["p"]); setleaf(v->q, o["q"]); setleaf(v->g, o["g"]); return v; }
static PedersenVSS *mk_pvss(const json &o) {
	PedersenVSS *v = new PedersenVSS(o["n"], o["t"], o["i"], TG.p, TG.q, TG.g, TG.h, FS, GS, false, "l");
	fill_crs(v->p, v->q, v->g, v->h, o); setleaf(v->sigma_i, o["sigma"]); setleaf(v->tau_i, o["tau"]);
	setvec(v->a_j, o["a"], "a"); setvec(v->b_j, o["b"], "b"); setvec(v->A_j, o["A"], "A"); return v;
}
static GJKR *mk_gjkr(const json &o) {
	GJKR *d = new GJKR(o["n"], o["t"], o["i"], TG.p, TG.q, TG.g, TG.h, FS, GS, false, false, "l");
	fill_crs(d->p, d->q, d->g, d->h, o); setleaf(d->x_i, o["x"]); setleaf(d->xprime_i, o["xp"]); setleaf(d->y, o["y"]); setqual(d->QUAL, o["qual"]);
	setvec(d->y_i, o["yi"], "yi"); setvec(d->z_i, o["zi"], "zi"); setvec(d->v_i, o["vi"], "vi");
	setmat(d->s_ij, o["s"], "s"); setmat(d->sprime_ij, o["sp"], "sp"); setmat(d->C_ik, o["C"], "C"); return d;
}
static RVSS *mk_rvss(const json &o) { RVSS *r = new RVSS(o["n"], o["t"], o["i"], o["tp"], TG.p, TG.q, TG.g, TG.h, FS, GS, false, false, "l"); fill(*r, o); return r; }
static ZVSS *mk_zvss(const json &o) {
	ZVSS *r = new ZVSS(o["n"], o["t"], o["i"], o["tp"], TG.p, TG.q, TG.g, TG.h, FS, GS, false, false, "l");
	fill_crs(r->p, r->q, r->g, r->h, o); setleaf(r->x_i, o["x"]); setleaf(r->xprime_i, o["xp"]); setqual(r->QUAL, o["qual"]);
	setmat(r->s_ji, o["s"], "s"); setmat(r->sprime_ji, o["sp"], "sp"); setmat(r->C_ik, o["C"], "C"); return r;
}
static CDKG *mk_cdkg(const json &o) { CDKG *d = new CDKG(o["n"], o["t"], o["i"], TG.p, TG.q, TG.g, TG.h, FS, GS, false, false, "l"); fill(*d, o); return d; }
static DSS *mk_dss(const json &o) {
	DSS *d = new DSS(o["n"], o["t"], o["i"], TG.p, TG.q, TG.g, TG.h, FS, GS, false, false);
	fill_crs(d->p, d->q, d->g, d->h, o); setleaf(d->x_i, o["x"]); setleaf(d->xprime_i, o["xp"]); setleaf(d->y, o["y"]); setqual(d->QUAL, o["qual"]);
	fill(*d->dkg, o["dkg"]); return d;
}

// T: class; MK: builder; PUB: writer; RD: reader (stream constructor); the text is read from a stream
template <class T, class MK, class PUB, class RD> static void run_lines(const json &c, json &res, const char *pathname, MK mk, PUB pub, RD rd) {
	bool is_case = c["c"] == "case"; std::string txt = c["txt"];
	std::unique_ptr<T> orig; std::string ex;
	if (is_case) { orig.reset(mk(c["o"])); std::ostringstream os; pub(*orig, os); ex = os.str(); if (!res.contains("ex")) res["ex"] = ex; else if (res["ex"] != ex) res["ex_" + std::string(pathname)] = ex; }
	PathRes r; std::unique_ptr<T> got;
	try { std::istringstream is(txt); got.reset(rd(is)); r.ok = true; }
	catch (const std::exception &e) { r.ok = false; }
	if (r.ok) { std::ostringstream os; pub(*got, os); r.re = os.str(); r.has_re = true; if (orig) r.diff = differ(*orig, *got); }
	res["paths"][pathname] = path_json(r, is_case ? std::string(res["ex"]) : ex);
}

// ------------------------------------------------------------------------------------------------- dispatch
static void run_one(const json &c, json &res) {
	std::string ty = c["ty"]; size_t arg = c.value("arg", 0);
	if (ty == "int" || ty == "ints") run_int(c, res);
	else if (ty == "tcard") run_oneline<TMCG_Card, true>(c, res);
	else if (ty == "tsec") run_oneline<TMCG_CardSecret, true>(c, res);
	else if (ty == "vcard") run_oneline<VTMF_Card, true>(c, res);
	else if (ty == "vsec") run_oneline<VTMF_CardSecret, true>(c, res);
	else if (ty == "tstack") run_oneline<TMCG_Stack<TMCG_Card>, false>(c, res);
	else if (ty == "vstack") run_oneline<TMCG_Stack<VTMF_Card>, false>(c, res);
	else if (ty == "tss") run_oneline<TMCG_StackSecret<TMCG_CardSecret>, false>(c, res);
	else if (ty == "vss") run_oneline<TMCG_StackSecret<VTMF_CardSecret>, false>(c, res);
	else if (ty == "pub") run_key<TMCG_PublicKey>(c, res, USED_PUB);
	else if (ty == "sec") run_key<TMCG_SecretKey>(c, res, USED_SEC);
	else if (ty == "vtmf") {
		run_lines<VTMF>(c, res, "vtmf", mk_vtmf, [](const VTMF &v, std::ostream &o) { v.PublishGroup(o); }, [](std::istream &i) { return new VTMF(i, FS, GS, false, true); });
		run_lines<VTMF>(c, res, "vtmf_noprecompute", mk_vtmf, [](const VTMF &v, std::ostream &o) { v.PublishGroup(o); }, [](std::istream &i) { return new VTMF(i, FS, GS, false, false); });
	}
	else if (ty == "com") {
		run_lines<COM>(c, res, "com", mk_com, [](const COM &v, std::ostream &o) { v.PublishGroup(o); }, [arg](std::istream &i) { return new COM(arg, i, FS, GS); });
		run_lines<GrothSKC>(c, res, "skc", mk_skc, [](const GrothSKC &v, std::ostream &o) { v.PublishGroup(o); }, [arg](std::istream &i) { return new GrothSKC(arg, i, 1, FS, GS); });
	}
	else if (ty == "vsshe") run_lines<GrothVSSHE>(c, res, "vsshe", mk_vsshe, [](const GrothVSSHE &v, std::ostream &o) { v.PublishGroup(o); }, [arg](std::istream &i) { return new GrothVSSHE(arg, i, 1, FS, GS); });
	else if (ty == "vrhe") run_lines<VRHE>(c, res, "vrhe", mk_vrhe, [](const VRHE &v, std::ostream &o) { v.PublishGroup(o); }, [](std::istream &i) { return new VRHE(i, FS, GS); });
	else if (ty == "ptc") run_lines<PTC>(c, res, "ptc", mk_ptc, [](const PTC &v, std::ostream &o) { v.PublishGroup(o); }, [](std::istream &i) { return new PTC(i, FS, GS); });
	else if (ty == "eotp") run_lines<NaorPinkasEOTP>(c, res, "eotp", mk_eotp, [](const NaorPinkasEOTP &v, std::ostream &o) { v.PublishGroup(o); }, [](std::istream &i) { return new NaorPinkasEOTP(i, FS, GS); });
	else if (ty == "pvss") run_lines<PedersenVSS>(c, res, "pvss", mk_pvss, [](const PedersenVSS &v, std::ostream &o) { v.PublishState(o); }, [](std::istream &i) { return new PedersenVSS(i, FS, GS, false, "l"); });
	else if (ty == "gjkr") run_lines<GJKR>(c, res, "gjkr", mk_gjkr, [](const GJKR &v, std::ostream &o) { v.PublishState(o); }, [](std::istream &i) { return new GJKR(i, FS, GS, false, false, "l"); });
	else if (ty == "rvss") run_lines<RVSS>(c, res, "rvss", mk_rvss, [](const RVSS &v, std::ostream &o) { v.PublishState(o); }, [](std::istream &i) { return new RVSS(i, FS, GS, false, false, "l"); });
	else if (ty == "zvss") run_lines<ZVSS>(c, res, "zvss", mk_zvss, [](const ZVSS &v, std::ostream &o) { v.PublishState(o); }, [](std::istream &i) { return new ZVSS(i, FS, GS, false, false, "l"); });
	else if (ty == "cdkg") run_lines<CDKG>(c, res, "cdkg", mk_cdkg, [](const CDKG &v, std::ostream &o) { v.PublishState(o); }, [](std::istream &i) { return new CDKG(i, FS, GS, false, false, "l"); });
	else if (ty == "dss") run_lines<DSS>(c, res, "dss", mk_dss, [](const DSS &v, std::ostream &o) { v.PublishState(o); }, [](std::istream &i) { return new DSS(i, FS, GS, false, false); });
	else throw std::runtime_error("unknown type " + ty);
}

static int run_cases(const char *in, const char *out) {
	std::ifstream f(in); std::ofstream o(out); std::string line; long id = 0;
	if (!f || !o) { fprintf(stderr, "cannot open files\n"); return 2; }
	while (std::getline(f, line)) {
		if (line.empty()) continue;
		json c = json::parse(line); json res; res["id"] = c.contains("id") ? c["id"] : json(id); res["ty"] = c["ty"]; id++;
		// announce the case first: a crash inside the library then leaves the offending id as the last line
		o << "{\"begin\":" << res["id"].dump() << "}" << std::endl;
		try { run_one(c, res); }
		catch (const std::exception &e) { res["harness_error"] = e.what(); }
		o << res.dump() << std::endl;
	}
	return 0;
}

// ------------------------------------------------------------------------------------------------- direction B
// objects made by the library itself.  Members are rendered by GMP (mpz_get_str), never by the code under test.
static json jcard(const TMCG_Card &c) {
	json z = json::array(); for (auto &row : c.z) { json r = json::array(); for (auto &x : row) r.push_back(num62(&x)); z.push_back(r); }
	return {{"ty", "tcard"}, {"big", true}, {"k", c.z.size()}, {"w", c.z[0].size()}, {"z", z}};
}
static json jsec(const TMCG_CardSecret &c) {
	json r = json::array(), b = json::array();
	for (size_t i = 0; i < c.r.size(); i++) { json rr = json::array(), bb = json::array(); for (size_t j = 0; j < c.r[i].size(); j++) { rr.push_back(num62(&c.r[i][j])); bb.push_back(num62(&c.b[i][j])); } r.push_back(rr); b.push_back(bb); }
	return {{"ty", "tsec"}, {"big", true}, {"k", c.r.size()}, {"w", c.r[0].size()}, {"r", r}, {"b", b}};
}
static json jcard(const VTMF_Card &c) { return {{"ty", "vcard"}, {"big", true}, {"c1", num62(c.c_1)}, {"c2", num62(c.c_2)}}; }
static json jsec(const VTMF_CardSecret &c) { return {{"ty", "vsec"}, {"big", true}, {"r", num62(c.r)}}; }
template <class C> static json jstack(const TMCG_Stack<C> &s, const char *ty) { json a = json::array(); for (auto &c : s.stack) a.push_back(jcard(c)); return {{"ty", ty}, {"big", true}, {"s", a}}; }
template <class C> static json jss(const TMCG_StackSecret<C> &s, const char *ty) {
	json a = json::array(), pi = json::array(); for (auto &c : s.stack) { pi.push_back(c.first); a.push_back(jsec(c.second)); }
	return {{"ty", ty}, {"big", true}, {"pi", pi}, {"s", a}};
}
static json jkey(const TMCG_PublicKey &k) {
	return {{"ty", "pub"}, {"big", true}, {"name", k.name}, {"email", k.email}, {"kty", k.type}, {"m", num62(k.m)}, {"y", num62(k.y)}, {"nizk", k.nizk}, {"sig", k.sig}};
}
static json jkey(const TMCG_SecretKey &k) {
	return {{"ty", "sec"}, {"big", true}, {"name", k.name}, {"email", k.email}, {"kty", k.type}, {"m", num62(k.m)}, {"y", num62(k.y)},
	        {"p", num62(k.p)}, {"q", num62(k.q)}, {"nizk", k.nizk}, {"sig", k.sig}};
}
template <class T> static void log_obj(std::ofstream &tr, const char *what, const json &desc, const T &obj) {
	json e; e["e"] = "Obj"; e["what"] = what; e["o"] = desc; std::string ex = expo(obj); e["txt"] = ex;
	T a; PathRes r1 = imp_member(a, ex, &obj); T b; PathRes r2 = imp_stream(b, ex, &obj);
	e["imp"] = path_json(r1, ex); e["str"] = path_json(r2, ex);
	tr << e.dump() << std::endl;
}

// protocol states as the protocols leave them: leaves are integers when every value fits (small groups), else numerals
struct LeafJ { bool big; json operator()(mpz_srcptr x) const { if (big) return json(num62(x)); return json((long long)mpz_get_si(x)); } };
static bool fits31(mpz_srcptr x) { return mpz_cmpabs_ui(x, 2147483647UL) <= 0; }
static json jv(const std::vector<mpz_ptr> &v, LeafJ L) { json a = json::array(); for (auto x : v) a.push_back(L(x)); return a; }
static json jm(const std::vector<std::vector<mpz_ptr> > &m, LeafJ L) { json a = json::array(); for (auto &r : m) a.push_back(jv(r, L)); return a; }
static json jq(const std::vector<size_t> &q) { json a = json::array(); for (auto x : q) a.push_back(x); return a; }
static bool allfit(const std::vector<mpz_ptr> &v) { for (auto x : v) if (!fits31(x)) return false; return true; }
static bool allfit(const std::vector<std::vector<mpz_ptr> > &m) { for (auto &r : m) if (!allfit(r)) return false; return true; }
static json jstate(const PedersenVSS &v) {
	bool big = !(fits31(v.p) && fits31(v.sigma_i) && fits31(v.tau_i) && allfit(v.a_j) && allfit(v.b_j) && allfit(v.A_j)); LeafJ L{big};
	return {{"ty", "pvss"}, {"big", big}, {"p", L(v.p)}, {"q", L(v.q)}, {"g", L(v.g)}, {"h", L(v.h)}, {"n", v.n}, {"t", v.t}, {"i", v.i},
	        {"sigma", L(v.sigma_i)}, {"tau", L(v.tau_i)}, {"a", jv(v.a_j, L)}, {"b", jv(v.b_j, L)}, {"A", jv(v.A_j, L)}};
}
static json jstate(const GJKR &d) {
	bool big = !(fits31(d.p) && fits31(d.x_i) && fits31(d.xprime_i) && fits31(d.y) && allfit(d.y_i) && allfit(d.z_i) && allfit(d.v_i) && allfit(d.s_ij) && allfit(d.sprime_ij) && allfit(d.C_ik));
	LeafJ L{big};
	return {{"ty", "gjkr"}, {"big", big}, {"p", L(d.p)}, {"q", L(d.q)}, {"g", L(d.g)}, {"h", L(d.h)}, {"n", d.n}, {"t", d.t}, {"i", d.i},
	        {"x", L(d.x_i)}, {"xp", L(d.xprime_i)}, {"y", L(d.y)}, {"qual", jq(d.QUAL)}, {"yi", jv(d.y_i, L)}, {"zi", jv(d.z_i, L)}, {"vi", jv(d.v_i, L)},
	        {"s", jm(d.s_ij, L)}, {"sp", jm(d.sprime_ij, L)}, {"C", jm(d.C_ik, L)}};
}
static json jstate(const RVSS &r, bool big) {
	LeafJ L{big};
	return {{"ty", "rvss"}, {"big", big}, {"p", L(r.p)}, {"q", L(r.q)}, {"g", L(r.g)}, {"h", L(r.h)}, {"n", r.n}, {"t", r.t}, {"i", r.i}, {"tp", r.tprime},
	        {"x", L(r.x_i)}, {"xp", L(r.xprime_i)}, {"z", L(r.z_i)}, {"zp", L(r.zprime_i)}, {"qual", jq(r.QUAL)},
	        {"s", jm(r.s_ji, L)}, {"sp", jm(r.sprime_ji, L)}, {"C", jm(r.C_ik, L)}};
}
static bool fit(const RVSS &r) { return fits31(r.p) && fits31(r.x_i) && fits31(r.xprime_i) && fits31(r.z_i) && fits31(r.zprime_i) && allfit(r.s_ji) && allfit(r.sprime_ji) && allfit(r.C_ik); }
static json jstate(const CDKG &d, bool big) {
	LeafJ L{big};
	return {{"ty", "cdkg"}, {"big", big}, {"p", L(d.p)}, {"q", L(d.q)}, {"g", L(d.g)}, {"h", L(d.h)}, {"n", d.n}, {"t", d.t}, {"i", d.i},
	        {"x", L(d.x_i)}, {"xp", L(d.xprime_i)}, {"y", L(d.y)}, {"qual", jq(d.QUAL)}, {"rvss", jstate(*d.x_rvss, big)}};
}
static json jstate(const DSS &d) {
	bool big = !(fit(*d.dkg->x_rvss) && fits31(d.x_i) && fits31(d.xprime_i) && fits31(d.y) && fits31(d.dkg->x_i) && fits31(d.dkg->xprime_i) && fits31(d.dkg->y));
	LeafJ L{big};
	return {{"ty", "dss"}, {"big", big}, {"p", L(d.p)}, {"q", L(d.q)}, {"g", L(d.g)}, {"h", L(d.h)}, {"n", d.n}, {"t", d.t}, {"i", d.i},
	        {"x", L(d.x_i)}, {"xp", L(d.xprime_i)}, {"y", L(d.y)}, {"qual", jq(d.QUAL)}, {"dkg", jstate(*d.dkg, big)}};
}
template <class T, class RD> static json state_event(const char *what, const json &desc, const T &obj, RD rd) {
	json e; e["e"] = "Obj"; e["what"] = what; e["o"] = desc;
	std::ostringstream os; obj.PublishState(os); std::string ex = os.str(); e["txt"] = ex;
	PathRes r;
	try { std::istringstream is(ex); std::unique_ptr<T> got(rd(is)); r.ok = true; std::ostringstream o2; got->PublishState(o2); r.re = o2.str(); r.has_re = true; r.diff = differ(obj, *got); }
	catch (const std::exception &) { r.ok = false; }
	e["imp"] = path_json(r, ex); e["str"] = e["imp"];
	return e;
}
static const long PGROUPS[][3] = { {2063, 1031, 2}, {46199, 23099, 2}, {23, 11, 2} };
// one honest execution of a protocol by n parties under the deterministic simulator; every party's final state is logged
static void run_protocol(std::ofstream &tr, const std::string &proto, size_t n, size_t t, long gi, unsigned long seed) {
	long p = PGROUPS[gi][0], q = PGROUPS[gi][1], k = PGROUPS[gi][2];
	Mpz GP(p), GQ(q), GG, GH;
	{ Mpz b(2 + (long)(seam::next64() % 20)); mpz_powm_ui(GG, b, (unsigned long)k, GP); while (mpz_cmp_ui(GG.v, 1) == 0) { mpz_add_ui(b, b, 1); mpz_powm_ui(GG, b, (unsigned long)k, GP); } }
	{ Mpz e(2 + (long)(seam::next64() % (q - 3))); mpz_powm(GH, GG, e, GP); }
	size_t fbits = mpz_sizeinbase(GP, 2), sbits = mpz_sizeinbase(GQ, 2);
	sim::Sched sc(n, seed, true);
	sim::Net netu(n), netb(n);
	std::vector<bool> active(n, true);
	std::vector<json> evs(n);
	time_t TO = aiounicast::aio_timeout_middle;
	size_t trbc = std::min(t, (n - 1) / 3);
	sim::run(sc, active, [&](size_t i) {
		sim::Aio *aiou = new sim::Aio(&netu, &sc, i, TO), *aiou2 = new sim::Aio(&netb, &sc, i, TO);
		CachinKursawePetzoldShoupRBC *rbc = new CachinKursawePetzoldShoupRBC(n, trbc, i, aiou2, aiounicast::aio_scheduler_roundrobin, TO);
		rbc->setID("drv_wire");
		std::ostringstream err; json e;
		try {
			if (proto == "vss") {
				PedersenVSS vss(n, t, i, GP, GQ, GG, GH, fbits, sbits, false);
				Mpz sigma((long)(seed % (unsigned long)q));
				bool ret = (i == 0) ? vss.Share(sigma, aiou, rbc, err, false) : vss.Share((size_t)0, aiou, rbc, err, false);
				e = state_event("Pedersen VSS state after sharing", jstate(vss), vss, [&](std::istream &is) { return new PedersenVSS(is, fbits, sbits, false); });
				e["ret"] = ret;
			} else if (proto == "dkg") {
				GJKR dkg(n, t, i, GP, GQ, GG, GH, fbits, sbits, false, false);
				bool ret = dkg.Generate(aiou, rbc, err, false);
				e = state_event("GJKR DKG state after key generation", jstate(dkg), dkg, [&](std::istream &is) { return new GJKR(is, fbits, sbits, false, false); });
				e["ret"] = ret;
			} else {
				DSS dss(n, t, i, GP, GQ, GG, GH, fbits, sbits, false, false);
				bool ret = dss.Generate(aiou, rbc, err, false);
				if (ret && proto == "dss-refresh") {
					sc.barrier(i, [&]() { Mpz tmp; size_t l = 0; rbc->Deliver(tmp, l, aiounicast::aio_scheduler_roundrobin, 0); });
					ret = dss.Refresh(n, i, aiou, rbc, err, false);
				}
				e = state_event("threshold DSS state", jstate(dss), dss, [&](std::istream &is) { return new DSS(is, fbits, sbits, false, false); });
				e["ret"] = ret;
			}
		} catch (const std::exception &ex) { e["e"] = "Exc"; e["what"] = ex.what(); }
		sc.barrier(i, [&]() { Mpz tmp; size_t l = 0; rbc->Deliver(tmp, l, aiounicast::aio_scheduler_roundrobin, 0); });
		e["proto"] = proto; e["party"] = i; e["seed"] = seed;
		evs[i] = e;
		delete rbc; delete aiou; delete aiou2;
	});
	for (size_t i = 0; i < n; i++) tr << evs[i].dump() << std::endl;
}
static int run_record(unsigned long seed, int tier, const char *out) {
	std::ofstream tr(out); if (!tr) return 2;
	seam::seed(seed);
	// 1. keys generated by the library (with and without the proofs), their public parts
	std::vector<unsigned long> sizes = tier ? std::vector<unsigned long>{512, 768, 1024, 1024} : std::vector<unsigned long>{512, 640};
	std::vector<TMCG_SecretKey*> keys;
	for (size_t i = 0; i < sizes.size(); i++) {
		TMCG_SecretKey *sk = new TMCG_SecretKey(i % 2 ? "Bob B." : "Alice", i % 2 ? "bob@example.org" : "alice@gaos.org", sizes[i], i % 2 == 0);
		keys.push_back(sk);
		log_obj(tr, "generated secret key", jkey(*sk), *sk);
		TMCG_PublicKey pk(*sk);
		log_obj(tr, "public part of a generated key", jkey(pk), pk);
	}
	// a key for a user whose name contains the character that separates the fields of a key (the generator takes any name)
	{
		TMCG_SecretKey sk("Alice|Bob", "alice@gaos.org", 512, false);
		log_obj(tr, "generated secret key, name 'Alice|Bob'", jkey(sk), sk);
	}
	// 2. quadratic-residue coding: cards, stacks and stack secrets made by the toolbox for 2 and 3 players
	for (size_t players = 2; players <= (tier ? 4u : 3u); players++) {
		SchindelhauerTMCG tmcg(16, players, 3);
		TMCG_PublicKeyRing ring(players);
		for (size_t i = 0; i < players; i++) ring.keys[i] = TMCG_PublicKey(*keys[i % keys.size()]);
		TMCG_Stack<TMCG_Card> st;
		for (size_t ty = 0; ty < 5; ty++) { TMCG_Card c(players, 3); tmcg.TMCG_CreateOpenCard(c, ring, ty); st.push(c); }
		TMCG_CardSecret cs(players, 3); TMCG_Card pc(players, 3); tmcg.TMCG_CreatePrivateCard(pc, cs, ring, 0, 5);
		log_obj(tr, "private card", jcard(pc), pc); log_obj(tr, "card secret", jsec(cs), cs);
		st.push(pc);
		TMCG_StackSecret<TMCG_CardSecret> ss; tmcg.TMCG_CreateStackSecret(ss, false, ring, 0, st.size());
		TMCG_Stack<TMCG_Card> mixed; tmcg.TMCG_MixStack(st, mixed, ss, ring);
		log_obj(tr, "open stack", jstack(st, "tstack"), st); log_obj(tr, "stack secret", jss(ss, "tss"), ss); log_obj(tr, "mixed stack", jstack(mixed, "tstack"), mixed);
	}
	// 3. discrete-log coding in the group 2063 / 1031 and (thorough) in a group generated by the library
	{
		std::stringstream grp; grp << "XH" << std::endl << "Gd" << std::endl << "4" << std::endl << "2" << std::endl;    // 2063, 1031, 4, 2
		std::vector<BarnettSmartVTMF_dlog*> vt; vt.push_back(new BarnettSmartVTMF_dlog(grp, 11, 10, false, true));
		if (tier) vt.push_back(new BarnettSmartVTMF_dlog(512, 160, false, true));
		for (auto *v : vt) {
			v->KeyGenerationProtocol_GenerateKey(); v->KeyGenerationProtocol_Finalize();
			SchindelhauerTMCG tmcg(16, 2, 4);
			TMCG_Stack<VTMF_Card> st;
			for (size_t ty = 0; ty < 7; ty++) { VTMF_Card c; tmcg.TMCG_CreateOpenCard(c, v, ty); st.push(c); }
			VTMF_CardSecret cs; VTMF_Card pc; tmcg.TMCG_CreatePrivateCard(pc, cs, v, 3);
			log_obj(tr, "private card", jcard(pc), pc); log_obj(tr, "card secret", jsec(cs), cs);
			st.push(pc);
			TMCG_StackSecret<VTMF_CardSecret> ss; tmcg.TMCG_CreateStackSecret(ss, false, st.size(), v);
			TMCG_Stack<VTMF_Card> mixed; tmcg.TMCG_MixStack(st, mixed, ss, v);
			log_obj(tr, "open stack", jstack(st, "vstack"), st); log_obj(tr, "stack secret", jss(ss, "vss"), ss); log_obj(tr, "mixed stack", jstack(mixed, "vstack"), mixed);
			json g; g["e"] = "Obj"; g["what"] = "group of the masking scheme";
			g["o"] = {{"ty", "vtmf"}, {"big", true}, {"p", num62(v->p)}, {"q", num62(v->q)}, {"g", num62(v->g)}, {"k", num62(v->k)}};
			std::ostringstream os; v->PublishGroup(os); g["txt"] = os.str();
			PathRes r; try { std::istringstream is(os.str()); BarnettSmartVTMF_dlog w(is, 11, 10, false, true); r.ok = true; std::ostringstream o2; w.PublishGroup(o2); r.re = o2.str(); r.has_re = true; r.diff = differ(*v, w); } catch (...) { r.ok = false; }
			g["imp"] = path_json(r, os.str()); g["str"] = g["imp"];
			tr << g.dump() << std::endl;
		}
	}
	// 4. persisted states of protocol runs (all parties honest)
	{
		const char *protos[] = {"vss", "dkg", "dss", "dss-refresh"};
		size_t x = 0;
		for (size_t n = 2; n <= (tier ? 5u : 4u); n++)
			for (size_t pi = 0; pi < 4; pi++) {
				if (!tier && n == 4 && pi == 3) continue;
				size_t t = (n - 1) / 2;
				seam::seed(seed * 7919UL + 100 + x); seam::seed_harness(seed * 1000003UL + x);
				run_protocol(tr, protos[pi], n, t, (long)((x + (tier ? 1 : 0)) % (tier ? 3 : 1)), seed * 131 + x);
				x++;
			}
	}
	return 0;
}

int main(int argc, char **argv) {
	if (!init_libTMCG()) { fprintf(stderr, "init_libTMCG failed\n"); return 2; }
	quiet_cerr();
	install_terminate("drv_wire");
	seam::seed(1);
	if (argc >= 2 && !strcmp(argv[1], "info")) {
		json o; o["MaxPlayers"] = (long)TMCG_MAX_PLAYERS; o["MaxTypeBits"] = (long)TMCG_MAX_TYPEBITS; o["MaxCards"] = (long)TMCG_MAX_CARDS;
		o["MaxDkgPlayers"] = (long)TMCG_MAX_DKG_PLAYERS; o["io_base"] = (long)TMCG_MPZ_IO_BASE; o["max_value_chars"] = (long)TMCG_MAX_VALUE_CHARS;
		o["max_card_chars"] = (long)TMCG_MAX_CARD_CHARS; o["max_key_chars"] = (long)TMCG_MAX_KEY_CHARS; o["max_keybits"] = (long)TMCG_MAX_KEYBITS;
		printf("%s\n", o.dump().c_str());
		return 0;
	}
	if (argc >= 4 && !strcmp(argv[1], "cases")) return run_cases(argv[2], argv[3]);
	if (argc >= 5 && !strcmp(argv[1], "record")) return run_record(strtoul(argv[2], NULL, 10), atoi(argv[3]), argv[4]);
	fprintf(stderr, "usage: drv_wire info | cases <in> <out> | record <seed> <tier> <out>\n");
	return 2;
}
