// sim.hh: deterministic single-process simulation of n parties that run the library's blocking multi-party
// protocols (DKG, VSS, threshold signatures, coin flip).  One thread per party, exactly one runnable at any time
// (baton); the in-memory transport never blocks: an empty poll hands the baton to another party.  time() is
// interposed by the driver executable and returns the virtual clock, which advances by one second whenever every
// live party has polled in vain since the last activity - so time-outs cost nothing and message timing is
// decided by the (seeded) scheduler alone.
#ifndef VERIF_SIM_HH
#define VERIF_SIM_HH
#include <thread>
#include <mutex>
#include <condition_variable>
#include <functional>
#include <deque>
#include <vector>
#include <string>
#include <gmp.h>
#include <time.h>
#include "aiounicast.hh"

namespace sim {
struct Sched {
	size_t n;
	std::mutex mu;
	std::condition_variable cv;
	long turn;                       // party that may run (-1: nobody yet)
	std::vector<bool> alive;
	long vclock;                     // virtual seconds
	std::vector<bool> polled;        // polled[i]: party i has polled in vain since the last activity
	unsigned long long rng;
	bool random_order;
	unsigned long switches;
	Sched(size_t n_in, unsigned long long seed, bool rnd): n(n_in), turn(-1), alive(n_in, false), vclock(1000000), polled(n_in, false), rng(seed * 2654435761ULL + 17), random_order(rnd), switches(0) {}
	unsigned long long next() { rng ^= rng << 13; rng ^= rng >> 7; rng ^= rng << 17; return rng; }
	size_t nalive() { size_t c = 0; for (size_t i = 0; i < n; i++) if (alive[i]) c++; return c; }
	long pick(size_t me) {           // who runs next
		size_t c = nalive(); if (c == 0) return -1;
		if (random_order) { size_t k = next() % c; for (size_t i = 0; i < n; i++) if (alive[i]) { if (k == 0) return (long)i; k--; } }
		for (size_t d = 1; d <= n; d++) { size_t i = (me + d) % n; if (alive[i]) return (long)i; }
		return -1;
	}
	void activity() { for (size_t i = 0; i < n; i++) polled[i] = false; }
	bool all_polled() { for (size_t i = 0; i < n; i++) if (alive[i] && !polled[i]) return false; return true; }
	// called by a party that has nothing to do right now
	void yield(size_t me) {
		std::unique_lock<std::mutex> lk(mu);
		polled[me] = true;
		if (all_polled()) { vclock++; activity(); }   // everybody waits: one virtual second passes
		turn = pick(me); switches++;
		cv.notify_all();
		cv.wait(lk, [&] { return turn == (long)me; });
	}
	// all live parties meet here and go on at the same virtual time (the synchrony assumption of the protocols:
	// every phase is started together)
	size_t arrived = 0; unsigned long generation = 0;
	// while waiting, a party keeps serving the reliable broadcast (service() must poll the transport once, which
	// yields): in the library's own tests this is what rbc->Sync() does between the phases
	void barrier(size_t me, std::function<void()> service) {
		unsigned long gen = generation;
		arrived++;
		for (;;) {
			if (generation != gen) return;
			if (arrived >= nalive()) { arrived = 0; generation++; activity(); return; }
			if (service) service(); else yield(me);
		}
	}
	void enter(size_t me) { std::unique_lock<std::mutex> lk(mu); cv.wait(lk, [&] { return turn == (long)me; }); }
	void leave(size_t me) {
		std::unique_lock<std::mutex> lk(mu);
		alive[me] = false;
		if (nalive() > 0 && all_polled()) { vclock++; activity(); }
		turn = pick(me);
		cv.notify_all();
	}
};
extern Sched *current;               // the scheduler time() consults (NULL: real time)
extern thread_local long self;       // party index of the calling thread (-1: not a party)

struct Net {                         // flat per-link queues of integers (decimal strings)
	size_t n;
	std::vector<std::vector<std::deque<std::string> > > q;
	// optional tampering: the k-th integer sent on link a->b is replaced
	struct Tamper { size_t from, to; long index; std::string add; bool drop; };
	std::vector<Tamper> tampers;
	std::vector<std::vector<long> > count;
	std::vector<bool> cut;           // cut[i]: party i is silent (everything it sends is dropped)
	std::vector<long> *sent_total = NULL, *cut_after = NULL;   // shared over both nets: party i crashes after cut_after[i] sends
	// scripted deviations: a hook may rewrite what party `from` sends to party `to` (a single integer, or a whole vector as the
	// reliable broadcast sends it)
	std::function<void(size_t from, size_t to, std::vector<std::string> &)> rewrite;
	Net(size_t n_in): n(n_in), q(n_in, std::vector<std::deque<std::string> >(n_in)), count(n_in, std::vector<long>(n_in, 0)), cut(n_in, false) {}
};

class Aio : public aiounicast {
	public:
		Net *net; Sched *sc; size_t rr;
		Aio(Net *net_in, Sched *sc_in, size_t j_in, time_t deftimeout):
			aiounicast(net_in->n, j_in, aio_scheduler_roundrobin, deftimeout, false, false, false), net(net_in), sc(sc_in), rr(0) {}
		virtual bool Send(mpz_srcptr m, const size_t i_in, const time_t timeout = aio_timeout_default) {
			if (i_in >= n) return false;
			(void)timeout;
			long idx = net->count[j][i_in]++;
			if (net->cut[j]) return true;
			if (net->cut_after && (*net->cut_after)[j] >= 0) { if ((*net->sent_total)[j] >= (*net->cut_after)[j]) return true; (*net->sent_total)[j]++; }
			char *c = mpz_get_str(NULL, 10, m); std::string v(c); free(c);
			if (net->rewrite && !in_vector) { std::vector<std::string> one(1, v); net->rewrite(j, i_in, one); v = one[0]; }
			for (size_t k = 0; k < net->tampers.size(); k++) {
				Net::Tamper &t = net->tampers[k];
				if (t.from == j && t.to == i_in && t.index == idx) {
					if (t.drop) return true;
					mpz_t x, a; mpz_init_set_str(x, v.c_str(), 10); mpz_init_set_str(a, t.add.c_str(), 10);
					mpz_add(x, x, a); char *c2 = mpz_get_str(NULL, 10, x); v = c2; free(c2); mpz_clear(x); mpz_clear(a);
				}
			}
			net->q[j][i_in].push_back(v);
			numWrite++; sc->activity();
			return true;
		}
		bool in_vector = false;
		virtual bool Send(const std::vector<mpz_srcptr> &m, const size_t i_in, const time_t timeout = aio_timeout_default) {
			if (net->rewrite) {
				std::vector<std::string> vs; for (size_t k = 0; k < m.size(); k++) { char *c = mpz_get_str(NULL, 10, m[k]); vs.push_back(c); free(c); }
				net->rewrite(j, i_in, vs);
				in_vector = true; bool ok = true;
				for (size_t k = 0; k < vs.size() && ok; k++) { mpz_t x; mpz_init_set_str(x, vs[k].c_str(), 10); ok = Send(x, i_in, timeout); mpz_clear(x); }
				in_vector = false; return ok;
			}
			for (size_t k = 0; k < m.size(); k++) if (!Send(m[k], i_in, timeout)) return false;
			return true;
		}
		bool try_from(std::vector<mpz_ptr> &m, size_t from) {
			std::deque<std::string> &dq = net->q[from][j];
			if (dq.size() < m.size()) return false;
			for (size_t k = 0; k < m.size(); k++) { mpz_set_str(m[k], dq.front().c_str(), 10); dq.pop_front(); }
			numRead++; sc->activity();
			return true;
		}
		virtual bool Receive(mpz_ptr m, size_t &i_out, const size_t scheduler = aio_scheduler_default, const time_t timeout = aio_timeout_default) {
			std::vector<mpz_ptr> v; v.push_back(m); return Receive(v, i_out, scheduler, timeout);
		}
		virtual bool Receive(std::vector<mpz_ptr> &m, size_t &i_out, const size_t scheduler_in = aio_scheduler_default, const time_t timeout_in = aio_timeout_default) {
			size_t scheduler = (scheduler_in == aio_scheduler_default) ? aio_default_scheduler : scheduler_in;
			time_t timeout = (timeout_in == aio_timeout_default) ? aio_default_timeout : timeout_in;
			long entry = sc->vclock;
			for (;;) {
				if (scheduler == aio_scheduler_direct) {
					if (i_out >= n) return false;
					if (try_from(m, i_out)) return true;
				} else if (scheduler == aio_scheduler_roundrobin || scheduler == aio_scheduler_random) {
					for (size_t d = 0; d < n; d++) {
						size_t from = (scheduler == aio_scheduler_random) ? (size_t)(sc->next() % n) : (rr + d) % n;
						if (try_from(m, from)) { i_out = from; rr = (from + 1) % n; return true; }
					}
				} else { i_out = n; return false; }
				sc->yield(j);                         // nothing there: let the others run
				if (sc->vclock >= entry + (long)timeout) { if (scheduler != aio_scheduler_direct) i_out = n; return false; }
			}
		}
		virtual void Reset(const size_t i_in, const bool input) { (void)i_in; (void)input; }
		virtual ~Aio() {}
};

// run n party bodies to completion under the scheduler; body(i) is executed by thread i
inline void run(Sched &sc, const std::vector<bool> &active, std::function<void(size_t)> body) {
	std::vector<std::thread> th;
	current = &sc;
	for (size_t i = 0; i < sc.n; i++) sc.alive[i] = active[i];
	for (size_t i = 0; i < sc.n; i++) if (active[i])
		th.push_back(std::thread([&sc, body, i]() {
			self = (long)i;
			sc.enter(i);
			try { body(i); } catch (...) {}
			sc.leave(i);
		}));
	{ std::unique_lock<std::mutex> lk(sc.mu); sc.turn = sc.pick(sc.n - 1); sc.cv.notify_all(); }
	for (size_t k = 0; k < th.size(); k++) th[k].join();
	current = NULL;
}
}
#endif
