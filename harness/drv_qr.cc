// drv_qr: the quadratic-residuosity card encoding of SchindelhauerTMCG (TMCG_Card / TMCG_CardSecret /
// TMCG_PublicKeyRing) with tiny Blum moduli: open cards, card secrets, masking, own-row decoding, type recovery,
// stack secrets and mixing.  Logs one event per call for spec/QRTrace.tla.
//   drv_qr random <seed> <executions> <trace-out.ndjson>
#include "common.hh"
#include <list>
#include <deque>
#include <algorithm>
#define private public
#define protected public
#include "libTMCG.hh"
#undef private
#undef protected
#include "mpz_helper.hh"

static unsigned long rnd(unsigned long m) { return m ? (unsigned long)(seam::next64() % m) : 0; }
static const long PRIMES[] = {7, 11, 19, 23, 31, 43, 47, 59, 67, 71, 79, 83, 103, 107, 127, 131, 139, 151, 163, 167, 179, 191, 199, 211};
static const int NPRIMES = 24;

static long jacobi_ok_nqr(long p, long q) {   // smallest y that is a non-residue modulo p and modulo q (Jacobi symbol +1)
	for (long y = 2; y < p * q; y++) {
		Mpz Y(y), P(p), Q(q);
		if (mpz_legendre(Y, P) == -1 && mpz_legendre(Y, Q) == -1) return y;
	}
	return 0;
}
struct KeyPair { TMCG_SecretKey *sk; TMCG_PublicKey *pk; long m, y, p, q; };
static KeyPair make_key(long p, long q) {
	KeyPair k; k.p = p; k.q = q; k.m = p * q; k.y = jacobi_ok_nqr(p, q);
	std::ostringstream os; Mpz M(k.m), Y(k.y), P(p), Q(q);
	os << "sec|A|a@b|TMCGv1:77[CRT]|" << (mpz_srcptr)M.v << "|" << (mpz_srcptr)Y.v << "|" << (mpz_srcptr)P.v << "|" << (mpz_srcptr)Q.v << "|nzk^0^0^^0^^0^^|sig";
	k.sk = new TMCG_SecretKey();
	if (!k.sk->import(os.str())) { fprintf(stderr, "key import failed for %ld %ld\n", p, q); exit(2); }
	k.pk = new TMCG_PublicKey(*k.sk);
	return k;
}
static json card_j(const TMCG_Card &c) {
	json a = json::array();
	for (size_t k = 0; k < c.z.size(); k++) { json r = json::array(); for (size_t w = 0; w < c.z[k].size(); w++) r.push_back(mpz_get_si(&c.z[k][w])); a.push_back(r); }
	return a;
}
static json sec_j(const TMCG_CardSecret &c) {
	json a; json rr = json::array(), bb = json::array();
	for (size_t k = 0; k < c.r.size(); k++) { json r = json::array(), b = json::array(); for (size_t w = 0; w < c.r[k].size(); w++) { r.push_back(mpz_get_si(&c.r[k][w])); b.push_back(mpz_get_si(&c.b[k][w])); } rr.push_back(r); bb.push_back(b); }
	a["r"] = rr; a["b"] = bb; return a;
}
static std::vector<size_t> drawlens;     // byte lengths of srandomm draws per key
static json coins(const std::vector<KeyPair> &keys) {
	json cs = json::array();
	std::vector<seam::Draw> &lg = seam::log();
	for (size_t k = 0; k < lg.size(); k++) {
		json c;
		if (lg[k].len == 1) { c["k"] = "b"; c["v"] = strtoul(lg[k].hex.c_str(), NULL, 16) & 1; }
		else if (lg[k].len == 8) {
			unsigned long w = 0; unsigned char b[8];
			for (int i = 0; i < 8; i++) b[i] = (unsigned char)strtoul(lg[k].hex.substr(2 * i, 2).c_str(), NULL, 16);
			memcpy(&w, b, 8); c["k"] = "w"; c["v"] = (w < (1UL << 31)) ? (long)w : -1;
		} else { c["k"] = "m"; c["len"] = lg[k].len; c["hex"] = lg[k].hex; }   // residue is computed below per key
		cs.push_back(c);
	}
	seam::clear_log();
	(void)keys;
	return cs;
}
// the residue draws of CreateCardSecret: reduce each big draw modulo the modulus it was made for (driver knows the order)
static void reduce_draws(json &cs, const std::vector<long> &mods_in_order) {
	size_t mi = 0;
	for (size_t k = 0; k < cs.size(); k++) if (cs[k]["k"] == "m") {
		long m = mods_in_order[std::min(mi, mods_in_order.size() - 1)];
		Mpz v(cs[k]["hex"].get<std::string>(), 16), M(m); mpz_mod(v, v, M);
		cs[k]["v"] = v.l(); cs[k]["mod"] = m; cs[k].erase("hex");
		// a draw is repeated while gcd(r, m) != 1: the modulus index advances only after a good draw
		Mpz g; mpz_gcd(g, v, M);
		if (mpz_cmp_ui(g.v, 1) == 0) mi++;
	}
}

static void run_one(std::ofstream &out, unsigned long seed, long x) {
	seam::seed_harness(seed * 1000003UL + x); seam::seed(seed * 7919UL + x);
	size_t np = 1 + rnd(4), w = 1 + rnd(3);
	std::vector<KeyPair> keys;
	json kj = json::array();
	for (size_t k = 0; k < np; k++) {
		long p = PRIMES[rnd(NPRIMES)], q = PRIMES[rnd(NPRIMES)];
		// a usable key needs gcd(m, phi(m)) = 1 (the library precomputes m^-1 mod phi(m))
		while (q == p || (p - 1) % q == 0 || (q - 1) % p == 0) { p = PRIMES[rnd(NPRIMES)]; q = PRIMES[rnd(NPRIMES)]; }
		keys.push_back(make_key(p, q));
		kj.push_back({{"m", keys[k].m}, {"y", keys[k].y}, {"p", p}, {"q", q}});
	}
	TMCG_PublicKeyRing ring(np);
	for (size_t k = 0; k < np; k++) ring.keys[k] = *keys[k].pk;
	SchindelhauerTMCG tm(4, np, w);
	json ev; ev["e"] = "Reset"; ev["keys"] = kj; ev["np"] = np; ev["w"] = w; ev["src"] = {{"seed", seed}, {"k", x}};
	out << ev.dump() << "\n";
	size_t T = (size_t)1 << w;
	seam::record(true);
	auto mods_for_secret = [&]() { std::vector<long> m; for (size_t k = 0; k < np; k++) for (size_t ww = 0; ww < w; ww++) m.push_back(keys[k].m); return m; };
	size_t ncards = 1 + rnd(3);
	for (size_t c = 0; c < ncards; c++) {
		size_t t = rnd(T);
		TMCG_Card cur(np, w);
		seam::clear_log();
		tm.TMCG_CreateOpenCard(cur, ring, t);
		{ json e; e["e"] = "Open"; e["t"] = t; e["card"] = card_j(cur); out << e.dump() << "\n"; }
		size_t chain = rnd(4);
		for (size_t s = 0; s < chain; s++) {
			size_t who = rnd(np);
			TMCG_CardSecret cs(np, w); TMCG_Card nxt(np, w);
			seam::clear_log();
			tm.TMCG_CreateCardSecret(cs, ring, who);
			json cc = coins(keys); reduce_draws(cc, mods_for_secret());
			{ json e; e["e"] = "CSec"; e["i"] = who; e["coins"] = cc; e["sec"] = sec_j(cs); out << e.dump() << "\n"; }
			bool tap = rnd(2);
			tm.TMCG_MaskCard(cur, nxt, cs, ring, tap);
			{ json e; e["e"] = "Mask"; e["in"] = card_j(cur); e["sec"] = sec_j(cs); e["card"] = card_j(nxt); e["tap"] = tap; out << e.dump() << "\n"; }
			cur = nxt;
		}
		// opening: every player decodes its own row, then the type is the XOR over the rows
		TMCG_CardSecret acc(np, w);
		for (size_t k = 0; k < np; k++) {
			tm.TMCG_SelfCardSecret(cur, acc, *keys[k].sk, k);
			json e; e["e"] = "Self"; e["i"] = k; e["card"] = card_j(cur); e["row"] = sec_j(acc)["b"][k]; out << e.dump() << "\n";
		}
		size_t ty = tm.TMCG_TypeOfCard(acc);
		{ json e; e["e"] = "Type"; e["card"] = card_j(cur); e["bits"] = sec_j(acc)["b"]; e["res"] = ty; e["t"] = t; out << e.dump() << "\n"; }
	}
	// stacks
	if (rnd(4) != 0) {
		size_t n = 1 + rnd(5);
		TMCG_Stack<TMCG_Card> st; json types = json::array();
		for (size_t c = 0; c < n; c++) { TMCG_Card cd(np, w); size_t t = rnd(T); tm.TMCG_CreateOpenCard(cd, ring, t); st.push(cd); types.push_back(t); }
		size_t rounds = 1 + rnd(3);
		// a player that shuffles more than once may generate into the secret object it used before
		bool reuse = rnd(2) == 0;
		TMCG_StackSecret<TMCG_CardSecret> kept;
		for (size_t r = 0; r < rounds; r++) {
			size_t who = rnd(np); bool cyc = (n >= 2) && rnd(3) == 0;
			TMCG_StackSecret<TMCG_CardSecret> fresh; TMCG_Stack<TMCG_Card> s2;
			TMCG_StackSecret<TMCG_CardSecret> &ss = reuse ? kept : fresh;
			seam::clear_log(); seam::clear_script();
			for (size_t k = 0; k + 1 < (cyc ? 2 : n); k++) seam::push_native_ul(rnd(1UL << 31));
			size_t ret = tm.TMCG_CreateStackSecret(ss, cyc, ring, who, n);
			json cc = coins(keys); { std::vector<long> m; for (size_t c = 0; c < n; c++) { std::vector<long> one = mods_for_secret(); m.insert(m.end(), one.begin(), one.end()); } reduce_draws(cc, m); }
			json ssj = json::array(); for (size_t k = 0; k < ss.size(); k++) { json e = sec_j(ss[k].second); e["pi"] = ss[k].first; ssj.push_back(e); }
			{ json e; e["e"] = "SSec"; e["i"] = who; e["n"] = n; e["cyclic"] = cyc; e["ret"] = ret; e["coins"] = cc; e["ss"] = ssj; out << e.dump() << "\n"; }
			if (ss.size() != st.size()) break;      // (the SSec event above is not a behaviour of the specification; mixing would abort)
			tm.TMCG_MixStack(st, s2, ss, ring, rnd(2));
			json a = json::array(), b = json::array(); for (size_t k = 0; k < n; k++) { a.push_back(card_j(st[k])); b.push_back(card_j(s2[k])); }
			{ json e; e["e"] = "Mix"; e["in"] = a; e["ss"] = ssj; e["out"] = b; out << e.dump() << "\n"; }
			st = s2;
		}
	}
	for (size_t k = 0; k < np; k++) { delete keys[k].sk; delete keys[k].pk; }
}

int main(int argc, char **argv) {
	install_terminate("drv_qr");
	quiet_cerr();
	if (!init_libTMCG()) return 2;
	if (argc >= 5 && !strcmp(argv[1], "random")) {
		unsigned long seed = strtoul(argv[2], NULL, 10); long execs = atol(argv[3]);
		std::ofstream out(argv[4]);
		for (long x = 0; x < execs; x++) run_one(out, seed, x);
		return 0;
	}
	return 2;
}
