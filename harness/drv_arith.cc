// drv_arith: runs the arithmetic primitives of libTMCG (property C09) and reports raw results.
//   drv_arith info                                   constants of the library build
//   drv_arith cases <cases.ndjson> <results.ndjson>  direction A: the cases printed by TLC (spec/ArithGen.tla)
//   drv_arith record <seed> <tier> <trace.ndjson>    direction B: seeded exploration, one event per call
//                                                    (validated by spec/ArithTrace.tla)
// The driver never judges a result; refusals (exceptions) are reported as "T".
#include "common.hh"
#ifdef HAVE_CONFIG_H
#include "libTMCG_config.h"
#endif
#include <algorithm>
#include <stdexcept>
#define private public
#define protected public
#include "libTMCG.hh"
#undef private
#undef protected

// ---------------------------------------------------------------------------------------------
static json outv(mpz_srcptr x) {
	if (mpz_fits_slong_p(x)) return json((long long)mpz_get_si(x));
	return json(mpz2s(x));
}
template <class F> static json guard(F f) {
	Mpz res;
	try { f((mpz_ptr)res.v); }
	catch (const std::exception &) { return json("T"); }
	catch (bool) { return json("T"); }
	return outv(res.v);
}
static bool coprime(mpz_srcptr a, mpz_srcptr m) { Mpz g; mpz_gcd(g, a, m); return mpz_cmp_ui(g.v, 1UL) == 0; }
static size_t mdraw_len(mpz_srcptr m) { return (mpz_sizeinbase(m, 2UL) + 64 + 7) / 8; }   // bytes of one tmcg_mpz_*randomm draw

static mpz_t *tab_full, *tab_min, *tab_wrong;
static void tabs_init() {
	tab_full = new mpz_t[TMCG_MAX_FPOWM_T]; tab_min = new mpz_t[TMCG_MAX_FPOWM_T]; tab_wrong = new mpz_t[TMCG_MAX_FPOWM_T];
	tmcg_mpz_fpowm_init(tab_full); tmcg_mpz_fpowm_init(tab_min); tmcg_mpz_fpowm_init(tab_wrong);
}
static size_t ebits(mpz_srcptr e) { Mpz a; mpz_abs(a, e); return mpz_sizeinbase(a.v, 2UL); }

// one call of each routine -------------------------------------------------------------------
static json call_spowm(mpz_srcptr b, mpz_srcptr e, mpz_srcptr m) {
	return guard([&](mpz_ptr r) { tmcg_mpz_spowm(r, b, e, m); });
}
static json call_fpowm(mpz_t *tab, mpz_srcptr b, mpz_srcptr e, mpz_srcptr m) {
	return guard([&](mpz_ptr r) { tmcg_mpz_fpowm(tab, r, b, e, m); });
}
static json call_fspowm(mpz_t *tab, mpz_srcptr b, mpz_srcptr e, mpz_srcptr m) {
	return guard([&](mpz_ptr r) { tmcg_mpz_fspowm(tab, r, b, e, m); });
}
// result and exponent in one variable, as several verifiers of the library call the table-based routines
static json call_fpowm_alias(mpz_t *tab, mpz_srcptr b, mpz_srcptr e, mpz_srcptr m) {
	return guard([&](mpz_ptr r) { mpz_set(r, e); tmcg_mpz_fpowm(tab, r, b, r, m); });
}
static json call_fspowm_alias(mpz_t *tab, mpz_srcptr b, mpz_srcptr e, mpz_srcptr m) {
	return guard([&](mpz_ptr r) { mpz_set(r, e); tmcg_mpz_fspowm(tab, r, b, r, m); });
}
static json call_fpowm_ui(mpz_t *tab, mpz_srcptr b, unsigned long e, mpz_srcptr m) {
	return guard([&](mpz_ptr r) { tmcg_mpz_fpowm_ui(tab, r, b, e, m); });
}
// GMP raises SIGFPE for a negative power of a non-unit inside the blinded routines; such calls are outside the
// property (base not coprime, power does not exist) and are not made: reported as "S"
static json call_baseblind(mpz_srcptr b, mpz_srcptr e, mpz_srcptr m) {
	if (mpz_sgn(e) < 0 && !coprime(b, m)) return json("S");
	return guard([&](mpz_ptr r) { tmcg_mpz_spowm_baseblind(r, b, e, m); });
}
static void script_coins(const json &seq, mpz_srcptr m) {
	seam::clear_script();
	for (size_t i = 0; i < seq.size(); i++) { Mpz c(seq[i].get<long>()); seam::push_be(mdraw_len(m), c.v); }
	seam::reset_counters();
}

// ---------------------------------------------------------------------------------------------
// direction A
static json do_pow(const json &c) {
	Mpz m(c["m"].get<long>());
	long e0 = c["e0"].get<long>(), ne = c["ne"].get<long>();
	json r;
	const json &reps = c["reps"];
	seam::seed(1000003UL * c["m"].get<long>() + c["b"].get<long>());
	for (size_t i = 0; i < reps.size(); i++) {
		Mpz b(reps[i].get<long>());
		tmcg_mpz_fpowm_precompute(tab_full, b, m, TMCG_MAX_FPOWM_T);
		json sp = json::array(), fp = json::array(), fpm = json::array(), fu = json::array(), fs = json::array(), fsm = json::array(), bb = json::array();
		for (long k = 0; k < ne; k++) {
			Mpz e(e0 + k);
			sp.push_back(call_spowm(b, e, m));
			fp.push_back(call_fpowm(tab_full, b, e, m));
			fs.push_back(call_fspowm(tab_full, b, e, m));
			tmcg_mpz_fpowm_precompute(tab_min, b, m, ebits(e));     // the smallest table a caller may use for this exponent
			// (every second exponent with result and exponent in the same variable)
			fpm.push_back((k & 1) ? call_fpowm_alias(tab_min, b, e, m) : call_fpowm(tab_min, b, e, m));
			fsm.push_back((k & 1) ? call_fspowm(tab_min, b, e, m) : call_fspowm_alias(tab_min, b, e, m));
			if (e0 + k >= 0) fu.push_back(call_fpowm_ui(tab_min, b, (unsigned long)(e0 + k), m)); else fu.push_back(nullptr);
			seam::clear_script();
			bb.push_back(call_baseblind(b, e, m));
		}
		r["spowm"].push_back(sp); r["fpowm"].push_back(fp); r["fspowm"].push_back(fs);
		r["fpowm_min"].push_back(fpm); r["fspowm_min"].push_back(fsm); r["fpowm_ui"].push_back(fu); r["baseblind"].push_back(bb);
	}
	// dictated blinding coins (reduced representative only)
	Mpz b0(reps[0].get<long>());
	const json &coins = c["coins"];
	r["bbc"] = json::array(); r["bbd"] = json::array();
	for (size_t j = 0; j < coins.size(); j++) {
		json outs = json::array(), draws = json::array();
		for (long k = 0; k < ne; k++) {
			Mpz e(e0 + k);
			script_coins(coins[j], m);
			outs.push_back(call_baseblind(b0, e, m));
			draws.push_back((long)seam::ndraws() + 1000 * (long)seam::pending());
		}
		r["bbc"].push_back(outs); r["bbd"].push_back(draws);
	}
	seam::clear_script();
	// the table belongs to another base
	const json &wrong = c["wrong"];
	r["w_fpowm"] = json::array(); r["w_fspowm"] = json::array(); r["w_fpowm_ui"] = json::array();
	for (size_t w = 0; w < wrong.size(); w++) {
		Mpz tb(wrong[w].get<long>());
		tmcg_mpz_fpowm_precompute(tab_wrong, tb, m, TMCG_MAX_FPOWM_T);
		json a = json::array(), s = json::array(), u = json::array();
		for (long k = 0; k < ne; k++) {
			Mpz e(e0 + k);
			a.push_back(call_fpowm(tab_wrong, b0, e, m));
			s.push_back(call_fspowm(tab_wrong, b0, e, m));
			if (e0 + k >= 0) u.push_back(call_fpowm_ui(tab_wrong, b0, (unsigned long)(e0 + k), m)); else u.push_back(nullptr);
		}
		r["w_fpowm"].push_back(a); r["w_fspowm"].push_back(s); r["w_fpowm_ui"].push_back(u);
	}
	json o; o["f"] = "pow"; o["m"] = c["m"]; o["b"] = c["b"]; o["r"] = r;
	return o;
}

static json kocher_run(mpz_srcptr e, mpz_srcptr m, const std::vector<long> &bases) {
	json outs = json::array();
	tmcg_mpz_spowm_init(e, m);
	for (size_t i = 0; i < bases.size(); i++) {
		Mpz b(bases[i]);
		if (mpz_sgn(e) < 0 && !coprime(b, m)) { outs.push_back("S"); continue; }
		outs.push_back(guard([&](mpz_ptr r) { tmcg_mpz_spowm_calc(r, b); }));
	}
	tmcg_mpz_spowm_clear();
	return outs;
}

static json do_powT(const json &c) {
	Mpz m(c["m"].get<long>()), b(c["b"].get<long>());
	seam::seed(7000003UL * c["m"].get<long>() + c["b"].get<long>());
	tmcg_mpz_fpowm_precompute(tab_full, b, m, TMCG_MAX_FPOWM_T);
	json rr = json::array();
	for (size_t i = 0; i < c["terms"].size(); i++) {
		const json &t = c["terms"][i];
		Mpz e; mpz_set_ui(e, 1UL); mpz_mul_2exp(e, e, t["k"].get<unsigned long>()); mpz_add_ui(e, e, t["r"].get<unsigned long>());
		if (t["s"].get<long>() < 0) mpz_neg(e, e);
		json o; o["s"] = t["s"]; o["k"] = t["k"]; o["r"] = t["r"];
		o["spowm"] = call_spowm(b, e, m);
		o["fpowm"] = call_fpowm(tab_full, b, e, m);
		o["fspowm"] = call_fspowm(tab_full, b, e, m);
		seam::clear_script();
		o["baseblind"] = call_baseblind(b, e, m);
		std::vector<long> one(1, c["b"].get<long>());
		o["kocher"] = kocher_run(e, m, one)[0];
		rr.push_back(o);
	}
	json o; o["f"] = "powT"; o["m"] = c["m"]; o["b"] = c["b"]; o["r"] = rr;
	return o;
}

static json do_koch(const json &c) {
	Mpz m(c["m"].get<long>()), e(c["e"].get<long>());
	std::vector<long> bases = c["bases"].get<std::vector<long> >();
	json rr = json::array(), dd = json::array();
	for (size_t j = 0; j < c["coins"].size(); j++) {
		script_coins(c["coins"][j], m);
		rr.push_back(kocher_run(e, m, bases));
		dd.push_back((long)seam::ndraws() + 1000 * (long)seam::pending());
	}
	seam::clear_script();
	seam::seed(99UL + c["m"].get<long>());
	json pr = kocher_run(e, m, bases);       // undictated coins
	json o; o["f"] = "koch"; o["m"] = c["m"]; o["e"] = c["e"]; o["r"] = rr; o["d"] = dd; o["p"] = pr;
	return o;
}

static json do_sqp(const json &c) {
	Mpz p(c["p"].get<long>()), h1(c["h1"].get<long>()), h2(c["h2"].get<long>()), h3(c["h3"].get<long>());
	json rr = json::array();
	seam::seed(31UL * c["p"].get<long>());
	for (size_t i = 0; i < c["ins"].size(); i++) {
		Mpz a(c["ins"][i].get<long>());
		json o; o["a"] = c["ins"][i];
		o["s"] = guard([&](mpz_ptr r) { tmcg_mpz_sqrtmp(r, a, p); });
		seam::clear_script();
		o["sp"] = guard([&](mpz_ptr r) { tmcg_mpz_sqrtmp_r(r, a, p); });
		o["sr"] = json::array();
		for (size_t j = 0; j < c["coins"].size(); j++) {          // dictated non-residue
			seam::clear_script();
			Mpz nb(c["coins"][j].get<long>()); seam::push_be(mdraw_len(p), nb.v);
			o["sr"].push_back(guard([&](mpz_ptr r) { tmcg_mpz_sqrtmp_r(r, a, p); }));
		}
		seam::clear_script();
		o["sf"] = json::array();
		for (size_t j = 0; j < c["nq"].size(); j++) {
			Mpz nqr(c["nq"][j][0].get<long>()), nqw(c["nq"][j][1].get<long>());
			o["sf"].push_back(guard([&](mpz_ptr r) { tmcg_mpz_sqrtmp_fast(r, a, p, nqr, h1, h2, h3, nqw); }));
		}
		rr.push_back(o);
	}
	json o; o["f"] = "sqp"; o["p"] = c["p"]; o["r"] = rr;
	return o;
}

template <class F> static json guard4(F f) {
	Mpz r1, r2, r3, r4;
	try { f((mpz_ptr)r1.v, (mpz_ptr)r2.v, (mpz_ptr)r3.v, (mpz_ptr)r4.v); }
	catch (const std::exception &) { return json("T"); }
	json a = json::array(); a.push_back(outv(r1.v)); a.push_back(outv(r2.v)); a.push_back(outv(r3.v)); a.push_back(outv(r4.v));
	return a;
}
static json do_sqn(const json &c) {
	Mpz p(c["p"].get<long>()), q(c["q"].get<long>()), n(c["n"].get<long>()), up(c["up"].get<long>()), vq(c["vq"].get<long>()),
		h1p(c["h1p"].get<long>()), h1q(c["h1q"].get<long>());
	bool blum = c["blum"].get<bool>();
	seam::seed(77UL * c["n"].get<long>());
	seam::clear_script();
	json rr = json::array();
	for (size_t i = 0; i < c["as"].size(); i++) {
		Mpz a(c["as"][i].get<long>());
		json o; o["a"] = c["as"][i];
		Mpz root;
		bool have = true;
		try { tmcg_mpz_sqrtmn(root, a, p, q, n); o["s"] = outv(root.v); } catch (const std::exception &) { o["s"] = "T"; have = false; }
		if (have) o["s2"] = guard([&](mpz_ptr r) { tmcg_mpz_sqrtmn_2(r, root, n); }); else o["s2"] = nullptr;
		o["sr"] = guard([&](mpz_ptr r) { tmcg_mpz_sqrtmn_r(r, a, p, q, n); });
		o["all"] = guard4([&](mpz_ptr r1, mpz_ptr r2, mpz_ptr r3, mpz_ptr r4) { tmcg_mpz_sqrtmn_all(r1, r2, r3, r4, a, p, q, n); });
		o["rall"] = guard4([&](mpz_ptr r1, mpz_ptr r2, mpz_ptr r3, mpz_ptr r4) { tmcg_mpz_sqrtmn_r_all(r1, r2, r3, r4, a, p, q, n); });
		if (blum) {
			o["fast"] = guard([&](mpz_ptr r) { tmcg_mpz_sqrtmn_fast(r, a, p, q, n, up, vq, h1p, h1q); });
			o["fall"] = guard4([&](mpz_ptr r1, mpz_ptr r2, mpz_ptr r3, mpz_ptr r4) { tmcg_mpz_sqrtmn_fast_all(r1, r2, r3, r4, a, p, q, n, up, vq, h1p, h1q); });
		}
		rr.push_back(o);
	}
	json qr = json::array();       // the residuosity test over the whole ring
	long nn = c["n"].get<long>();
	for (long a = 0; a < nn; a++) { Mpz x(a); if (tmcg_mpz_qrmn_p(x, p, q)) qr.push_back(a); }
	json o; o["f"] = "sqn"; o["p"] = c["p"]; o["q"] = c["q"]; o["r"] = rr; o["qr"] = qr;
	return o;
}

struct MpzVec {
	std::vector<mpz_ptr> v;
	explicit MpzVec(size_t n) { for (size_t i = 0; i < n; i++) { mpz_ptr x = new mpz_t(); mpz_init(x); v.push_back(x); } }
	~MpzVec() { for (size_t i = 0; i < v.size(); i++) { mpz_clear(v[i]); delete[] v[i]; } }
};
static json interp_call(const std::vector<long> &a, const std::vector<long> &b, long q) {
	size_t n = a.size();
	MpzVec va(n), vb(n), vf(n);
	for (size_t i = 0; i < n; i++) { mpz_set_si(va.v[i], a[i]); mpz_set_si(vb.v[i], b[i]); mpz_set_si(vf.v[i], -7L); }
	Mpz mq(q);
	json o;
	try {
		bool ret = tmcg_interpolate_polynom(va.v, vb.v, mq, vf.v);
		o["ret"] = ret;
		json f = json::array();
		for (size_t i = 0; i < n; i++) f.push_back(outv(vf.v[i]));
		o["f"] = f;
	} catch (const std::exception &) { o["ret"] = "T"; }
	return o;
}
static json do_ip(const json &c) {
	std::vector<long> a = c["a"].get<std::vector<long> >();
	json rr = json::array();
	for (size_t i = 0; i < c["bs"].size(); i++)
		rr.push_back(interp_call(a, c["bs"][i].get<std::vector<long> >(), c["q"].get<long>()));
	json o; o["f"] = "ip"; o["q"] = c["q"]; o["a"] = c["a"]; o["r"] = rr;
	return o;
}

static json do_big(const json &c);
static int run_cases(const char *in, const char *outp) {
	std::ifstream f(in);
	std::ofstream out(outp);
	std::string line;
	long n = 0;
	tabs_init();
	while (std::getline(f, line)) {
		if (line.empty()) continue;
		json c = json::parse(line);
		std::string fam = c["f"].get<std::string>();
		json o;
		if (fam == "pow") o = do_pow(c);
		else if (fam == "powT") o = do_powT(c);
		else if (fam == "koch") o = do_koch(c);
		else if (fam == "sqp") o = do_sqp(c);
		else if (fam == "sqn") o = do_sqn(c);
		else if (fam == "ip") o = do_ip(c);
		else if (fam == "big") o = do_big(c);
		else { o["f"] = "?"; }
		o["i"] = n++;
		out << o.dump() << "\n";
		out.flush();
	}
	printf("{\"cases\":%ld}\n", n);
	return 0;
}

// ---------------------------------------------------------------------------------------------
// direction B: seeded exploration, every call logged
static std::ofstream *tout;
static long nev = 0;
static void emit(const json &e) { (*tout) << e.dump() << std::endl; nev++; }
static unsigned long rnd(unsigned long n) { return n ? (unsigned long)(seam::next64() % n) : 0; }
static long rrange(long lo, long hi) { return lo + (long)rnd((unsigned long)(hi - lo + 1)); }
static void reset_ev(const char *sec, long k) { json e; e["e"] = "Reset"; e["sec"] = sec; e["k"] = k; emit(e); }
static json out_code(const json &o) {          // value, or -1 for a refusal, or -2 for a skipped call
	if (o.is_string()) { std::string s = o.get<std::string>(); if (s == "T") return json(-1); if (s == "S") return json(-2); return json(-3); }
	return o;
}

static void rec_gen(int tier) {
	const unsigned long MR = TMCG_MR_ITERATIONS;
	struct G2 { const char *name; void (*fn)(mpz_ptr, mpz_ptr, unsigned long, unsigned long); unsigned long lo, hi; };
	G2 g2[] = { {"sprime", tmcg_mpz_sprime, 8, 20}, {"smprime", tmcg_mpz_smprime, 17, 20}, {"sprime_naive", tmcg_mpz_sprime_naive, 8, 20},
	            {"smprime_naive", tmcg_mpz_smprime_naive, 17, 20}, {"sprime_noninc", tmcg_mpz_sprime_noninc, 14, 20},
	            {"sprime2g", tmcg_mpz_sprime2g, 8, 20} };
	int draws = tier ? 24 : 3;
	long ex = 0;
	for (size_t g = 0; g < sizeof(g2) / sizeof(g2[0]); g++)
		for (unsigned long sz = g2[g].lo; sz <= g2[g].hi; sz++) {
			reset_ev("gen", ex++);
			for (int d = 0; d < draws; d++) {
				Mpz p, q;
				seam::clear_script();
				json e; e["e"] = "gen"; e["fn"] = g2[g].name; e["size"] = sz;
				if (d == 0) { Mpz st; mpz_set_ui(st, 1UL); mpz_mul_2exp(st, st, sz - 1); seam::push_be((sz + 7) / 8, st.v); e["start"] = outv(st.v); }          // smallest candidate of that size
				else if (d == 1) { Mpz st; mpz_set_ui(st, 1UL); mpz_mul_2exp(st, st, sz); mpz_sub_ui(st, st, 1UL); seam::push_be((sz + 7) / 8, st.v); e["start"] = outv(st.v); }  // largest
				g2[g].fn(p, q, sz, MR);
				e["p"] = outv(p.v); e["q"] = outv(q.v);
				emit(e);
			}
		}
	struct G1 { const char *name; void (*fn)(mpz_ptr, unsigned long, unsigned long); unsigned long lo, hi; };
	G1 g1[] = { {"sprime3mod4", tmcg_mpz_sprime3mod4, 9, 21}, {"oprime", tmcg_mpz_oprime, 3, 24}, {"oprime_noninc", tmcg_mpz_oprime_noninc, 3, 24} };
	for (size_t g = 0; g < sizeof(g1) / sizeof(g1[0]); g++)
		for (unsigned long sz = g1[g].lo; sz <= g1[g].hi; sz++) {
			reset_ev("gen", ex++);
			for (int d = 0; d < draws; d++) {
				Mpz p;
				seam::clear_script();
				g1[g].fn(p, sz, MR);
				json e; e["e"] = "gen"; e["fn"] = g1[g].name; e["size"] = sz; e["p"] = outv(p.v);
				emit(e);
			}
		}
	// Schnorr-type primes p = qk + 1.  The sizes keep the candidate sets large: with a handful of candidates the
	// generators can loop forever in tiny domains (e.g. lprime_prefix with a 6 bit q and a fixed k), see notes/C09.md
	for (unsigned long qs = 6; qs <= 12; qs += 2)
		for (unsigned long ps = qs + 12; ps <= qs + 16; ps += 2) {
			reset_ev("gen", ex++);
			for (int d = 0; d < draws; d++) {
				Mpz p, q, k;
				tmcg_mpz_lprime(p, q, k, ps, qs, MR);
				json e; e["e"] = "gen"; e["fn"] = "lprime"; e["psize"] = ps; e["qsize"] = qs; e["p"] = outv(p.v); e["q"] = outv(q.v); e["k"] = outv(k.v);
				emit(e);
			}
		}
	for (unsigned long qs = 12; qs <= 14; qs++)
		for (unsigned long ps = qs + 6; ps <= qs + 10; ps += 4) {      // k grows by factors of 62: p stays below 2^31
			reset_ev("gen", ex++);
			for (int d = 0; d < draws; d++) {
				Mpz p2, q2, k2((long)rrange(1, 200));
				json e2; e2["e"] = "gen"; e2["fn"] = "lprime_prefix"; e2["psize"] = ps; e2["qsize"] = qs; e2["k0"] = outv(k2.v);
				tmcg_mpz_lprime_prefix(p2, q2, k2, ps, qs, MR);
				e2["p"] = outv(p2.v); e2["q"] = outv(q2.v); e2["k"] = outv(k2.v);
				if (mpz_sizeinbase(p2.v, 2UL) <= 31) emit(e2);       // TLC integers
			}
		}
}

static std::string hexof(mpz_srcptr x) { return mpz2s(x, 16); }
static void rec_conv(int tier) {
	std::vector<unsigned long> sizes;
	for (unsigned long b = 1; b <= 70; b++) sizes.push_back(b);
	unsigned long more[] = {127, 128, 129, 255, 256, 257, 511, 512, 1023, 1024, 1025, 2047, 2048, 2049, 3072, 4095, 4096, 4097, 8191, 8192, 12000, 16000};
	for (size_t i = 0; i < sizeof(more) / sizeof(more[0]); i++) sizes.push_back(more[i]);
	int per = tier ? 12 : 2;
	long ex = 0;
	reset_ev("conv", ex++);
	for (size_t i = 0; i <= sizes.size(); i++) {
		for (int d = 0; d < per + 3; d++) {
			Mpz x;
			if (i == sizes.size()) { if (d > 0) break; mpz_set_ui(x, 0UL); }
			else {
				unsigned long b = sizes[i];
				if (d == 0) { mpz_set_ui(x, 1UL); mpz_mul_2exp(x, x, b - 1); }                               // 2^(b-1)
				else if (d == 1) { mpz_set_ui(x, 1UL); mpz_mul_2exp(x, x, b); mpz_sub_ui(x, x, 1UL); }       // 2^b - 1
				else if (d == 2) { mpz_set_ui(x, 1UL); mpz_mul_2exp(x, x, b - 1); mpz_add_ui(x, x, b > 1 ? 1UL : 0UL); }
				else { tmcg_mpz_wrandomb(x, b); mpz_setbit(x, b - 1); }
			}
			gcry_mpi_t g = gcry_mpi_new(8);
			bool ok1 = tmcg_mpz_get_gcry_mpi(g, x);
			Mpz back; mpz_set_si(back, -99L);
			bool ok2 = ok1 ? tmcg_mpz_set_gcry_mpi(g, back) : false;
			json e; e["e"] = "conv"; e["x"] = hexof(x.v); e["back"] = hexof(back.v); e["ok1"] = ok1; e["ok2"] = ok2;
			e["bits"] = (long)mpz_sizeinbase(x.v, 2UL); e["nbits"] = ok1 ? (long)gcry_mpi_get_nbits(g) : -1L;
			if (ok1 && mpz_sizeinbase(x.v, 2UL) <= 30) { e["small"] = outv(x.v); e["ui"] = (long)tmcg_get_gcry_mpi_ui(g); }
			else e["small"] = -1;
			emit(e);
			gcry_mpi_release(g);
		}
	}
}

// value of a secure register, read without the routines under test
static void read_secure(gcry_mpi_t g, mpz_ptr out) {
	unsigned char *buf = NULL; size_t n = 0;
	gcry_mpi_aprint(GCRYMPI_FMT_USG, &buf, &n, g);
	mpz_import(out, n, 1, 1, 1, 0, buf);
	gcry_free(buf);
	if (gcry_mpi_is_neg(g)) mpz_neg(out, out);
}
static const int NREG = 3;
struct Regs {
	TMCG_Bigint *p[NREG], *s[NREG];
	Regs() { for (int i = 0; i < NREG; i++) { p[i] = new TMCG_Bigint(false); s[i] = new TMCG_Bigint(true, true); } }
	~Regs() { for (int i = 0; i < NREG; i++) { delete p[i]; delete s[i]; } }
	long pv(int i) { return mpz_get_si(p[i]->bigint); }
	json pj(int i) { return outv(p[i]->bigint); }
	json sj(int i) { Mpz t; read_secure(s[i]->secret_bigint, t); return outv(t.v); }
};
static const long REFUSED = -2000000000L;       // wrapper events: the call threw (pv / sv); -1 in comparison vectors
template <class F> static json bguard(F f, long code = -1) { try { return f(); } catch (const std::exception &) { return json(code); } }
static const long BIG = 1L << 30;
struct OpSpec { std::string op; int d, s, t; long u; bool mixed; };
// harness-side guard of the seeded exploration: keeps values below 2^30 (TLC integers) and divisors positive
static bool admissible(Regs &R, const OpSpec &o) {
	long vd = R.pv(o.d), vs = R.pv(o.s), vt = R.pv(o.t), u = o.u;
	const std::string &op = o.op;
	if (op == "add" || op == "sub") return labs(vd) + labs(vs) < BIG;
	if (op == "add_ui" || op == "sub_ui") return labs(vd) + u < BIG;
	if (op == "mul") return labs(vd) < 32768 && labs(vs) < 32768;
	if (op == "mul_ui") return labs(vd) < 32768 && u < 32768;
	if (op == "div" || op == "mod") return vd >= 0 && vs > 0;
	if (op == "div_ui" || op == "mod_ui") return vd >= 0 && u > 0;
	if (op == "mul2exp") return vd >= 0 && u <= 12 && vd < (BIG >> u);
	if (op == "div2exp") return vd >= 0 && u <= 30;
	if (op == "powm") return vs >= 0 && vt >= 0 && vd >= 2 && vd <= 46337;
	if (op == "powm_ui") return vs >= 0 && vd >= 2 && vd <= 46337;
	return true;
}
static json cmpvec(TMCG_Bigint &a, TMCG_Bigint &b) {
	json c = json::array();
	c.push_back(bguard([&]() { return json((a == b) ? 1 : 0); })); c.push_back(bguard([&]() { return json((a != b) ? 1 : 0); }));
	c.push_back(bguard([&]() { return json((a > b) ? 1 : 0); }));  c.push_back(bguard([&]() { return json((a < b) ? 1 : 0); }));
	c.push_back(bguard([&]() { return json((a >= b) ? 1 : 0); })); c.push_back(bguard([&]() { return json((a <= b) ? 1 : 0); }));
	return c;
}
static json cmpvec_ui(TMCG_Bigint &a, unsigned long uu) {
	json c = json::array();
	c.push_back(bguard([&]() { return json((a > uu) ? 1 : 0); }));  c.push_back(bguard([&]() { return json((a < uu) ? 1 : 0); }));
	c.push_back(bguard([&]() { return json((a >= uu) ? 1 : 0); })); c.push_back(bguard([&]() { return json((a <= uu) ? 1 : 0); }));
	c.push_back(bguard([&]() { return json((a == uu) ? 1 : 0); }));
	return c;
}
// one wrapper operation on the plain and on the secure register file; everything observable is reported
static json exec_op(Regs &R, const OpSpec &o) {
	int d = o.d, s = o.s, t = o.t;
	unsigned long uu = (unsigned long)o.u;
	bool mixed = o.mixed;            // secure destination, plain operand
	const std::string &op = o.op;
	json e; e["e"] = "big"; e["op"] = op; e["d"] = d; e["s"] = s; e["t"] = t; e["u"] = o.u; e["mx"] = mixed ? 1 : 0;
	TMCG_Bigint P_s(*R.p[s]);          // the plain operand as it is before the call (d may be s)
	#define BOTH(PEXPR, SEXPR) { e["pv"] = bguard([&]() { PEXPR; return R.pj(d); }, REFUSED); e["sv"] = bguard([&]() { SEXPR; return R.sj(d); }, REFUSED); \
		if (e["sv"] == json(REFUSED) && e["pv"] != json(REFUSED)) { try { *R.s[d] = *R.p[d]; } catch (const std::exception &) {} } }   /* keep the files in step after a documented refusal */
	if (op == "set_ui") BOTH(*R.p[d] = uu, *R.s[d] = uu)
	else if (op == "set") BOTH(*R.p[d] = *R.p[s], if (mixed) *R.s[d] = P_s; else *R.s[d] = *R.s[s])
	else if (op == "add") BOTH(*R.p[d] += *R.p[s], if (mixed) *R.s[d] += P_s; else *R.s[d] += *R.s[s])
	else if (op == "add_ui") BOTH(*R.p[d] += uu, *R.s[d] += uu)
	else if (op == "sub") BOTH(*R.p[d] -= *R.p[s], if (mixed) *R.s[d] -= P_s; else *R.s[d] -= *R.s[s])
	else if (op == "sub_ui") BOTH(*R.p[d] -= uu, *R.s[d] -= uu)
	else if (op == "mul") BOTH(*R.p[d] *= *R.p[s], if (mixed) *R.s[d] *= P_s; else *R.s[d] *= *R.s[s])
	else if (op == "mul_ui") BOTH(*R.p[d] *= uu, *R.s[d] *= uu)
	else if (op == "div") BOTH(*R.p[d] /= *R.p[s], if (mixed) *R.s[d] /= P_s; else *R.s[d] /= *R.s[s])
	else if (op == "div_ui") BOTH(*R.p[d] /= uu, *R.s[d] /= uu)
	else if (op == "mod") BOTH(*R.p[d] %= *R.p[s], if (mixed) *R.s[d] %= P_s; else *R.s[d] %= *R.s[s])
	else if (op == "mod_ui") BOTH(*R.p[d] %= uu, *R.s[d] %= uu)
	else if (op == "neg") BOTH(-(*R.p[d]), -(*R.s[d]))
	else if (op == "abs") BOTH(R.p[d]->abs(), R.s[d]->abs())
	else if (op == "mul2exp") BOTH(R.p[d]->mul2exp((size_t)uu), R.s[d]->mul2exp((size_t)uu))
	else if (op == "div2exp") BOTH(R.p[d]->div2exp((size_t)uu), R.s[d]->div2exp((size_t)uu))
	else if (op == "powm") { TMCG_Bigint pm(*R.p[d]); TMCG_Bigint sm(*R.s[d]);          // d = s^t mod d
		BOTH(R.p[d]->powm(*R.p[s], *R.p[t], pm), R.s[d]->powm(*R.s[s], *R.s[t], sm)) }
	else if (op == "powm_ui") { TMCG_Bigint pm(*R.p[d]); TMCG_Bigint sm(*R.s[d]);
		BOTH(R.p[d]->powm_ui(*R.p[s], uu, pm), R.s[d]->powm_ui(*R.s[s], uu, sm)) }
	else if (op == "cmp") { e["pc"] = cmpvec(*R.p[d], *R.p[s]); e["sc"] = cmpvec(*R.s[d], *R.s[s]); e["pv"] = R.pj(d); e["sv"] = R.sj(d); }
	else {           // "obs": comparisons with a word, size, get_ui, primality
		long vd = R.pv(d);
		e["pc"] = cmpvec_ui(*R.p[d], uu); e["sc"] = cmpvec_ui(*R.s[d], uu);
		e["psz"] = (long)R.p[d]->size(2); e["ssz"] = (long)R.s[d]->size(2);
		if (vd >= 0) { e["pui"] = (long)R.p[d]->get_ui(); e["sui"] = (long)R.s[d]->get_ui(); e["ppr"] = R.p[d]->probab_prime(TMCG_MR_ITERATIONS) ? 1 : 0; }
		else { e["pui"] = -1; e["sui"] = -1; e["ppr"] = -1; }
		e["pv"] = R.pj(d); e["sv"] = R.sj(d);
	}
	#undef BOTH
	json pr = json::array(), sr = json::array();          // the registers as they are now (projection of the whole state)
	for (int i = 0; i < NREG; i++) { pr.push_back(R.pj(i)); sr.push_back(R.sj(i)); }
	e["pr"] = pr; e["sr"] = sr;
	return e;
}
static const char *OPS[] = {"set_ui", "set_ui", "set", "add", "add", "add_ui", "sub", "sub", "sub_ui", "mul", "mul", "mul_ui", "div", "div", "div_ui",
	"mod", "mod", "mod_ui", "neg", "abs", "mul2exp", "div2exp", "powm", "powm_ui", "cmp", "obs"};
static void rec_big(int tier) {
	int nexec = tier ? 600 : 40, len = tier ? 60 : 40;
	for (int x = 0; x < nexec; x++) {
		reset_ev("big", x);
		Regs R;
		for (int st = 0; st < len; st++) {
			OpSpec o; o.d = (int)rnd(NREG); o.s = (int)rnd(NREG); o.t = (int)rnd(NREG); o.mixed = rnd(4) == 0; o.u = 0;
			o.op = OPS[rnd(st < 4 ? 2 : 26)];
			// the property speaks about non-negative operands: a negative register is mostly brought back first
			for (int i = 0; i < NREG; i++) if (R.pv(i) < 0 && rnd(10) < 6) { o.op = "abs"; o.d = i; }
			long vd = R.pv(o.d);
			if (o.op == "set_ui") { o.u = (rnd(3) == 0) ? rrange(0, 12) : rrange(0, 32767); if (rnd(9) == 0) o.u = rrange(0, BIG - 1); }
			else if (o.op == "add_ui" || o.op == "sub_ui" || o.op == "mod_ui") o.u = rrange(rnd(5) == 0 ? 0 : 1, 40000);
			else if (o.op == "mul_ui") o.u = rrange(0, 32767);
			else if (o.op == "div_ui") o.u = rrange(1, 300);
			else if (o.op == "mul2exp" || o.op == "div2exp") o.u = rrange(0, 12);
			else if (o.op == "powm_ui") o.u = rrange(0, 100000);
			else if (o.op == "obs") o.u = (rnd(2) == 0) ? labs(vd) : rrange(0, 40000);
			if (o.op == "mod_ui" && o.u == 0) o.u = 1;
			if (!(o.op == "set" || o.op == "add" || o.op == "sub" || o.op == "mul" || o.op == "div" || o.op == "mod")) o.mixed = false;
			if (!admissible(R, o)) continue;
			emit(exec_op(R, o));
		}
	}
}
// direction A: an operation sequence generated by TLC on fresh registers
static json do_big(const json &c) {
	Regs R;
	json rr = json::array();
	for (size_t i = 0; i < c["init"].size() && i < (size_t)NREG; i++) { *R.p[i] = c["init"][i].get<unsigned long>(); *R.s[i] = c["init"][i].get<unsigned long>(); }
	for (size_t k = 0; k < c["ops"].size(); k++) {
		const json &q = c["ops"][k];
		OpSpec o; o.op = q["op"].get<std::string>(); o.d = q["d"].get<int>(); o.s = q["s"].get<int>(); o.t = 0; o.u = q["u"].get<long>(); o.mixed = q["mx"].get<int>() != 0;
		rr.push_back(exec_op(R, o));
	}
	json o; o["f"] = "big"; o["r"] = rr;
	return o;
}

static long rand_prime(long lo, long hi) {
	Mpz x(rrange(lo, hi));
	mpz_nextprime(x, x);
	if (x.l() > 46337) return 46337;
	return x.l();
}
static void rec_rpow(int tier) {
	int n = tier ? 4000 : 300;
	tabs_init();
	for (int x = 0; x < n; x++) {
		if (x % 50 == 0) reset_ev("rpow", x / 50);
		long m = (rnd(6) == 0) ? rrange(2, 46337) : (rrange(1, 23168) * 2 + 1);
		if (rnd(3) == 0) m = rand_prime(3, 46000);
		long b = rrange(0, m - 1);
		if (rnd(5) == 0) b = rrange(-BIG, BIG);
		if (rnd(7) == 0) { long f = 3 + 2 * rrange(0, 5); if (m % f == 0) b = f * rrange(0, m / f); }     // a non-unit now and then
		long e = (rnd(2) == 0) ? rrange(-200, 200) : rrange(-(BIG - 1), BIG - 1);
		if (rnd(10) == 0) e = m * rrange(1, 3);
		Mpz mb(b), me(e), mm(m);
		tmcg_mpz_fpowm_precompute(tab_full, mb, mm, 64);
		json outs;
		outs["spowm"] = call_spowm(mb, me, mm);
		outs["fpowm"] = call_fpowm(tab_full, mb, me, mm);
		outs["fspowm"] = call_fspowm(tab_full, mb, me, mm);
		if (e >= 0) outs["fpowm_ui"] = call_fpowm_ui(tab_full, mb, (unsigned long)e, mm);
		seam::clear_script();
		outs["baseblind"] = call_baseblind(mb, me, mm);
		std::vector<long> one(1, b);
		outs["kocher"] = kocher_run(me, mm, one)[0];
		for (json::iterator it = outs.begin(); it != outs.end(); ++it) {
			json ev; ev["e"] = "pow"; ev["fn"] = it.key(); ev["b"] = b; ev["x"] = e; ev["m"] = m; ev["out"] = out_code(it.value());
			emit(ev);
		}
	}
}
static void rec_rsq(int tier) {
	int n = tier ? 1500 : 150;
	for (int x = 0; x < n; x++) {
		if (x % 50 == 0) reset_ev("rsq", x / 50);
		long p = rand_prime(2, 46000), q = rand_prime(2, 46000);
		if (rnd(3) == 0) { p = rand_prime(2, 300); }
		Mpz mp(p), mq(q), mn; mpz_mul(mn, mp, mq);
		long s = rrange(1, p - 1);
		Mpz a; mpz_set_si(a, s); mpz_mul(a, a, a); mpz_mod(a, a, mp);
		json fns;
		fns["sqrtmp"] = guard([&](mpz_ptr r) { tmcg_mpz_sqrtmp(r, a, mp); });
		seam::clear_script();
		fns["sqrtmp_r"] = guard([&](mpz_ptr r) { tmcg_mpz_sqrtmp_r(r, a, mp); });
		for (json::iterator it = fns.begin(); it != fns.end(); ++it) {
			json ev; ev["e"] = "sqrtp"; ev["fn"] = it.key(); ev["p"] = p; ev["s"] = s; ev["a"] = outv(a.v); ev["out"] = out_code(it.value());
			emit(ev);
		}
		if (p == q) continue;
		// modulo n = p q: a square of a unit
		Mpz sn, an, g;
		do { mpz_set_si(sn, rrange(1, 2147483647L)); mpz_mod(sn, sn, mn); mpz_gcd(g, sn, mn); } while (mpz_cmp_ui(g.v, 1UL) != 0);
		mpz_mul(an, sn, sn); mpz_mod(an, an, mn);
		json f1, f4;
		f1["sqrtmn"] = guard([&](mpz_ptr r) { tmcg_mpz_sqrtmn(r, an, mp, mq, mn); });
		f1["sqrtmn_r"] = guard([&](mpz_ptr r) { tmcg_mpz_sqrtmn_r(r, an, mp, mq, mn); });
		f4["sqrtmn_all"] = guard4([&](mpz_ptr r1, mpz_ptr r2, mpz_ptr r3, mpz_ptr r4) { tmcg_mpz_sqrtmn_all(r1, r2, r3, r4, an, mp, mq, mn); });
		f4["sqrtmn_r_all"] = guard4([&](mpz_ptr r1, mpz_ptr r2, mpz_ptr r3, mpz_ptr r4) { tmcg_mpz_sqrtmn_r_all(r1, r2, r3, r4, an, mp, mq, mn); });
		if (p % 4 == 3 && q % 4 == 3) {
			Mpz gg, u, v, up, vq, h1p, h1q;          // precomputation as a caller does it (TMCG_SecretKey)
			mpz_gcdext(gg, u, v, mp, mq); mpz_mul(up, u, mp); mpz_mul(vq, v, mq);
			mpz_add_ui(h1p, mp, 1UL); mpz_fdiv_q_2exp(h1p, h1p, 2UL); mpz_add_ui(h1q, mq, 1UL); mpz_fdiv_q_2exp(h1q, h1q, 2UL);
			f1["sqrtmn_fast"] = guard([&](mpz_ptr r) { tmcg_mpz_sqrtmn_fast(r, an, mp, mq, mn, up, vq, h1p, h1q); });
			f4["sqrtmn_fast_all"] = guard4([&](mpz_ptr r1, mpz_ptr r2, mpz_ptr r3, mpz_ptr r4) { tmcg_mpz_sqrtmn_fast_all(r1, r2, r3, r4, an, mp, mq, mn, up, vq, h1p, h1q); });
		}
		for (json::iterator it = f1.begin(); it != f1.end(); ++it) {
			json o = json::array(); o.push_back(out_code(it.value()));
			json ev; ev["e"] = "sqrtn"; ev["fn"] = it.key(); ev["p"] = p; ev["q"] = q; ev["s"] = outv(sn.v); ev["a"] = outv(an.v); ev["outs"] = o;
			emit(ev);
		}
		for (json::iterator it = f4.begin(); it != f4.end(); ++it) {
			json o = it.value().is_array() ? it.value() : json::array({-1});
			json ev; ev["e"] = "sqrtn"; ev["fn"] = it.key(); ev["p"] = p; ev["q"] = q; ev["s"] = outv(sn.v); ev["a"] = outv(an.v); ev["outs"] = o;
			emit(ev);
		}
	}
}
static void rec_rip(int tier) {
	int n = tier ? 3000 : 400;
	for (int x = 0; x < n; x++) {
		if (x % 50 == 0) reset_ev("rip", x / 50);
		long q = (rnd(2) == 0) ? rand_prime(2, 40) : rand_prime(2, 46000);
		if (rnd(8) == 0) q = 2;
		size_t m = (size_t)rrange(1, 8);
		std::vector<long> a(m), b(m);
		for (size_t i = 0; i < m; i++) {
			a[i] = rrange(0, q - 1); b[i] = rrange(0, q - 1);
			if (rnd(4) == 0) a[i] += q * rrange(-3, 3);        // unreduced / negative arguments
			if (rnd(4) == 0) b[i] += q * rrange(-3, 3);
		}
		if (m > 1 && rnd(5) == 0) a[rnd(m)] = a[rnd(m)] + q * rrange(0, 1);      // colliding abscissae
		json o = interp_call(a, b, q);
		json ev; ev["e"] = "ip"; ev["q"] = q; ev["a"] = a; ev["b"] = b;
		if (o["ret"].is_string()) { ev["ret"] = -1; ev["f"] = json::array(); }
		else { ev["ret"] = o["ret"].get<bool>() ? 1 : 0; ev["f"] = o["f"]; }
		emit(ev);
	}
}

static int run_record(unsigned long seed, int tier, const char *outp) {
	std::ofstream out(outp);
	tout = &out;
	seam::seed(seed * 2654435761UL + 17);
	seam::seed_harness(seed);
	std::string sec = getenv("ARITH_SECTIONS") ? getenv("ARITH_SECTIONS") : "gen,conv,big,rpow,rsq,rip";
	if (sec.find("gen") != std::string::npos) rec_gen(tier);
	if (sec.find("conv") != std::string::npos) rec_conv(tier);
	if (sec.find("big") != std::string::npos) rec_big(tier);
	if (sec.find("rpow") != std::string::npos) rec_rpow(tier);
	if (sec.find("rsq") != std::string::npos) rec_rsq(tier);
	if (sec.find("rip") != std::string::npos) rec_rip(tier);
	out.flush();
	printf("{\"events\":%ld}\n", nev);
	return 0;
}

int main(int argc, char **argv) {
	if (!init_libTMCG()) { fprintf(stderr, "init_libTMCG failed\n"); return 2; }
	quiet_cerr();
	install_terminate("drv_arith");
	if (argc >= 2 && !strcmp(argv[1], "info")) {
		json o; o["T"] = (long)TMCG_MAX_FPOWM_T; o["io_base"] = (long)TMCG_MPZ_IO_BASE; o["max_value_chars"] = (long)TMCG_MAX_VALUE_CHARS;
		o["mr"] = (long)TMCG_MR_ITERATIONS;
#ifdef HAVE_POWMSEC
		o["powm_sec"] = true;
#else
		o["powm_sec"] = false;
#endif
		printf("%s\n", o.dump().c_str());
		return 0;
	}
	if (argc >= 4 && !strcmp(argv[1], "cases")) return run_cases(argv[2], argv[3]);
	if (argc >= 5 && !strcmp(argv[1], "record")) return run_record(strtoul(argv[2], NULL, 10), atoi(argv[3]), argv[4]);
	fprintf(stderr, "usage: drv_arith info | cases <in> <out> | record <seed> <tier> <out>\n");
	return 2;
}
