// drv_dkg: runs the library's multi-party protocols (GJKR New-DKG, new-TSch threshold Schnorr, Pedersen-VSS,
// CGJKR DKG / threshold DSS with refresh) for n real party objects inside one process under the deterministic
// simulator (sim.hh), with faulty parties (library switch, silence, tampered private shares), and records what
// every honest party ends up with.  spec/DKGTrace.tla checks the C15/C16 invariants on those results.
//   drv_dkg run <seed> <executions> <trace-out.ndjson> [proto] [maxn]
#include "common.hh"
#include <list>
#include <deque>
#include <algorithm>
#define private public
#define protected public
#include "libTMCG.hh"
#undef private
#undef protected
#include "mpz_shash.hh"
#include "mpz_helper.hh"
#include "sim.hh"

extern void (*tmcg_verif_shash_hook)(const std::string &input, mpz_srcptr output);
static Mpz GP, GQ, GG, GH, GP1;
static std::mutex outmu;
static thread_local json *my_hcalls = NULL;

static json num(mpz_srcptr v) {
	json n; Mpz a; mpz_abs(a, v);
	n["id"] = mpz2s(v, 16); n["sg"] = mpz_sgn(v);
	n["bits"] = (mpz_sgn(v) == 0) ? 0 : (long)mpz_sizeinbase(a, 2);
	Mpz r;
	mpz_mod(r, a, GQ); n["mq"] = r.l();
	mpz_mod(r, a, GP1); n["mo"] = r.l();
	mpz_mod(r, a, GP); n["mp"] = r.l();
	n["sm"] = (mpz_sizeinbase(a, 2) <= 30) ? a.l() : -1;
	return n;
}
static void hook(const std::string &input, mpz_srcptr output) {
	if (!my_hcalls) return;
	std::string s = input;
	bool hexlist = !s.empty() && s[s.size() - 1] == '|';
	if (hexlist) for (size_t k = 0; k < s.size(); k++) { char ch = s[k]; if (!(isxdigit(ch) || ch == '|' || ch == '-')) hexlist = false; }
	if (!hexlist) return;
	json c; json in = json::array(); size_t pos = 0;
	while (pos < s.size()) { size_t e = s.find('|', pos); Mpz v(s.substr(pos, e - pos), 16); in.push_back(num(v)); pos = e + 1; }
	if (in.size() > 4) return;             // only the short tuples (signature challenges) are of interest here
	c["in"] = in; c["out"] = num(output);
	my_hcalls->push_back(c);
}
// err log with the virtual time in front of every line (debugging aid, VERIF_VERBOSE)
class StampBuf : public std::stringbuf {
	public:
		sim::Sched *sc; std::string acc; bool bol;
		StampBuf(sim::Sched *s): sc(s), bol(true) {}
		virtual int overflow(int ch) {
			if (ch == EOF) return ch;
			if (bol) { acc += "[" + std::to_string(sc->vclock - 1000000) + "] "; bol = false; }
			acc.push_back((char)ch);
			if (ch == '\n') bol = true;
			return ch;
		}
		virtual std::streamsize xsputn(const char *s, std::streamsize n) { for (std::streamsize k = 0; k < n; k++) overflow(s[k]); return n; }
};
static unsigned long rnd(unsigned long m) { return m ? (unsigned long)(seam::next64() % m) : 0; }
static json vec_j(const std::vector<mpz_ptr> &v) { json a = json::array(); for (size_t k = 0; k < v.size(); k++) a.push_back(mpz2l(v[k])); return a; }
static json qual_j(const std::vector<size_t> &q) { json a = json::array(); for (size_t k = 0; k < q.size(); k++) a.push_back(q[k]); return a; }

struct Cfg { std::string proto; size_t n, t, trbc; std::vector<int> role; /* 0 honest, 1 lib-faulty, 2 silent, 3 tampered dealer, 4 crashes after some sends, 5 honest key generation but a damaged share when signing, 6 honest until the refresh, where its zero sharing has a non-zero constant term, 7 honest key generation, then gone (nothing it sends arrives any more, it takes no part in signing) */ long tamper_from, tamper_to; unsigned long seed; bool rndorder; std::vector<long> cut_after; };

static const long GROUPS[][3] = { {2063, 1031, 2}, {46199, 23099, 2}, {46327, 1103, 42}, {23, 11, 2}, {47, 23, 2} };

static void run_exec(std::ofstream &out, const Cfg &c, long gi) {
	// everything inside an execution derives from its seed, so that "one" repeats it exactly
	seam::seed_harness(c.seed * 31UL + 7); seam::seed(c.seed * 17UL + 3);
	long p = GROUPS[gi][0], q = GROUPS[gi][1], k = GROUPS[gi][2];
	GP = Mpz(p); GQ = Mpz(q); mpz_sub_ui(GP1, GP, 1);
	{ Mpz b(2 + rnd(20)); mpz_powm_ui(GG, b, (unsigned long)k, GP); while (mpz_cmp_ui(GG.v, 1) == 0) { mpz_add_ui(b, b, 1); mpz_powm_ui(GG, b, (unsigned long)k, GP); } }
	{ Mpz e(2 + rnd(q - 3)); mpz_powm(GH, GG, e, GP); }
	size_t n = c.n, t = c.t;
	json ev; ev["e"] = "Reset"; ev["proto"] = c.proto; ev["grp"] = {p, q, GG.l(), GH.l()}; ev["n"] = n; ev["t"] = t; ev["trbc"] = c.trbc;
	json roles = json::array(); for (size_t i = 0; i < n; i++) roles.push_back(c.role[i]); ev["role"] = roles;
	ev["tamper"] = {c.tamper_from, c.tamper_to}; ev["cut_after"] = c.cut_after; ev["seed"] = c.seed; ev["gi"] = gi; ev["rnd"] = c.rndorder;
	out << ev.dump() << "\n";
	sim::Sched sc(n, c.seed, c.rndorder);
	sim::Net netu(n), netb(n);
	std::vector<long> sent_total(n, 0), cut_after = c.cut_after; cut_after.resize(n, -1);
	netu.sent_total = netb.sent_total = &sent_total; netu.cut_after = netb.cut_after = &cut_after;
	for (size_t i = 0; i < n; i++) if (c.role[i] == 2) { netu.cut[i] = true; netb.cut[i] = true; }
	// role 6 (refresh): a dealer whose "zero" sharing has the constant term delta: its first broadcast of the sharing (C_i0 = 1)
	// becomes g^delta, every share it deals grows by delta - consistent with its commitments, not a sharing of zero
	std::vector<int> zv_active(n, 0); std::vector<std::vector<int> > zv_sent(n, std::vector<int>(n, 0));
	const unsigned long zv_delta = 1 + (unsigned long)(c.seed % 5);
	netb.rewrite = [&](size_t from, size_t to, std::vector<std::string> &v) {
		(void)to;
		if (zv_active[from] && v.size() == 5 && v[3] == "1" && v[2] == "1" && v[4] == "1") { Mpz gd; mpz_powm_ui(gd, GG, zv_delta, GP); char *x = mpz_get_str(NULL, 10, gd); v[4] = x; free(x); }
	};
	netu.rewrite = [&](size_t from, size_t to, std::vector<std::string> &v) {
		if (zv_active[from] && v.size() == 1 && zv_sent[from][to]++ == 0) { Mpz x(v[0], 10); mpz_add_ui(x, x, zv_delta); mpz_mod(x, x, GQ); char *y = mpz_get_str(NULL, 10, x); v[0] = y; free(y); }
	};
	if (c.tamper_from >= 0) { sim::Net::Tamper tp; tp.from = (size_t)c.tamper_from; tp.to = (size_t)c.tamper_to; tp.index = (long)(c.seed % 2); tp.add = "1"; tp.drop = false; netu.tampers.push_back(tp); }
	std::vector<bool> active(n, true);
	for (size_t i = 0; i < n; i++) if (c.role[i] == 2) active[i] = false;
	size_t fbits = mpz_sizeinbase(GP, 2), sbits = mpz_sizeinbase(GQ, 2);
	time_t TO = aiounicast::aio_timeout_middle;
	unsigned long msgval = rnd(5) == 0 ? 0 : (rnd(4) == 0 ? (unsigned long)q : (rnd(3) == 0 ? (unsigned long)(q - 1) : 1 + rnd(1000)));
	size_t dealer = rnd(n); while (c.role[dealer] == 2) dealer = (dealer + 1) % n;
	if (c.proto == "vss" && c.tamper_from >= 0) dealer = (size_t)c.tamper_from;      // only the dealer sends private shares
	unsigned long sigma_val = rnd(3) == 0 ? 0 : rnd((unsigned long)q);
	sim::run(sc, active, [&](size_t i) {
		json hc = json::array(); my_hcalls = &hc;
		bool faulty = (c.role[i] == 1);
		sim::Aio *aiou = new sim::Aio(&netu, &sc, i, TO), *aiou2 = new sim::Aio(&netb, &sc, i, TO);
		CachinKursawePetzoldShoupRBC *rbc = new CachinKursawePetzoldShoupRBC(n, c.trbc, i, aiou2, aiounicast::aio_scheduler_roundrobin, TO);
		rbc->setID("drv_dkg");
		StampBuf sb(&sc); std::ostream err(&sb);
		json o; o["e"] = "Out"; o["i"] = i; o["role"] = c.role[i];
		try {
			if (c.proto == "dkg" || c.proto == "nts") {
				if (c.proto == "dkg") {
					GennaroJareckiKrawczykRabinDKG dkg(n, t, i, GP, GQ, GG, GH, fbits, sbits, false, false);
					o["okgrp"] = dkg.CheckGroup();
					bool ret = dkg.Generate(aiou, rbc, err, faulty);
					o["ret"] = ret; o["qual"] = qual_j(dkg.QUAL); o["x"] = mpz2l(dkg.x_i); o["xp"] = mpz2l(dkg.xprime_i); o["y"] = mpz2l(dkg.y);
					o["v"] = vec_j(dkg.v_i); o["yi"] = vec_j(dkg.y_i);
					json C = json::array(); for (size_t a = 0; a < n; a++) C.push_back(vec_j(dkg.C_ik[a])); o["C"] = C;
					o["ck"] = ret ? dkg.CheckKey() : false;
					std::stringstream st; dkg.PublishState(st); GennaroJareckiKrawczykRabinDKG copy(st, fbits, sbits, false, false);
					std::stringstream st2; copy.PublishState(st2); o["state_roundtrip"] = (st.str() == st2.str());
				} else {
					GennaroJareckiKrawczykRabinNTS nts(n, t, i, GP, GQ, GG, GH, fbits, sbits, false, false);
					bool ret = nts.Generate(aiou, rbc, err, faulty);
					o["ret"] = ret; o["qual"] = qual_j(nts.QUAL); o["x"] = mpz2l(nts.z_i); o["y"] = mpz2l(nts.y); o["yi"] = vec_j(nts.y_i);
					if (ret) {
						sc.barrier(i, [&]() { Mpz tmp; size_t l = 0; rbc->Deliver(tmp, l, aiounicast::aio_scheduler_roundrobin, 0); });
						if (c.role[i] == 5) mpz_add_ui(nts.z_i, nts.z_i, 1UL);       // signs with a wrong share
						if (c.role[i] == 7) { netu.cut[i] = true; netb.cut[i] = true; o["absent"] = true; }
						else {
						Mpz m(msgval), cc, ss;
						hc = json::array();
						bool sret = nts.Sign(m, cc, ss, aiou, rbc, err, faulty);
						o["m"] = msgval; o["sret"] = sret; o["c"] = num(cc); o["s"] = num(ss);
						hc = json::array();
						o["ver"] = sret ? nts.Verify(m, cc, ss) : false;
						o["hv"] = hc;
						}
					}
				}
			} else if (c.proto == "vss") {
				PedersenVSS vss(n, t, i, GP, GQ, GG, GH, fbits, sbits, false);
				Mpz sigma(sigma_val);
				bool ret = (i == dealer) ? vss.Share(sigma, aiou, rbc, err, faulty) : vss.Share(dealer, aiou, rbc, err, faulty);
				o["dealer"] = dealer; o["sigma"] = sigma_val; o["ret"] = ret;
				o["si"] = mpz2l(vss.sigma_i); o["ti"] = mpz2l(vss.tau_i); o["A"] = vec_j(vss.A_j);
				if (ret) {
					sc.barrier(i, [&]() { Mpz tmp; size_t l = 0; rbc->Deliver(tmp, l, aiounicast::aio_scheduler_roundrobin, 0); });
					Mpz rec; bool rret = vss.Reconstruct(dealer, rec, rbc, err);
					o["rret"] = rret; o["rec"] = mpz2l(rec);
				}
			} else if (c.proto == "dss") {
				CanettiGennaroJareckiKrawczykRabinDSS dss(n, t, i, GP, GQ, GG, GH, fbits, sbits, false, false);
				bool ret = dss.Generate(aiou, rbc, err, faulty);
				o["ret"] = ret; o["qual"] = qual_j(dss.QUAL); o["x"] = mpz2l(dss.x_i); o["xp"] = mpz2l(dss.xprime_i); o["y"] = mpz2l(dss.y);
				o["xq"] = qual_j(dss.dkg->x_rvss->QUAL);     // who was qualified in the sharing of x (before the extraction of y)
				if (ret) {
					sc.barrier(i, [&]() { Mpz tmp; size_t l = 0; rbc->Deliver(tmp, l, aiounicast::aio_scheduler_roundrobin, 0); });
					if (c.role[i] == 5) mpz_add_ui(dss.x_i, dss.x_i, 1UL);           // signs with a wrong share
					if (c.role[i] == 7) { netu.cut[i] = true; netb.cut[i] = true; o["absent"] = true; }
					else {
					Mpz m(msgval), rr, ss;
					bool sret = dss.Sign(n, i, m, rr, ss, aiou, rbc, err, faulty);
					o["m"] = msgval; o["sret"] = sret; o["r"] = num(rr); o["s"] = num(ss);
					o["ver"] = sret ? dss.Verify(m, rr, ss) : false;
					sc.barrier(i, [&]() { Mpz tmp; size_t l = 0; rbc->Deliver(tmp, l, aiounicast::aio_scheduler_roundrobin, 0); });
					if (c.role[i] == 6) zv_active[i] = 1;
					bool fret = dss.Refresh(n, i, aiou, rbc, err, faulty);
					zv_active[i] = 0;
					o["fret"] = fret; o["x2"] = mpz2l(dss.x_i); o["xp2"] = mpz2l(dss.xprime_i); o["y2"] = mpz2l(dss.y); o["qual2"] = qual_j(dss.QUAL);
					if (fret) {
						sc.barrier(i, [&]() { Mpz tmp; size_t l = 0; rbc->Deliver(tmp, l, aiounicast::aio_scheduler_roundrobin, 0); });
						// another message: the channel ID of a signing run is derived from the message, and a channel ID
						// cannot be used twice on one broadcast object
						Mpz r2, s2, m2(msgval + 1);
						bool sret2 = dss.Sign(n, i, m2, r2, s2, aiou, rbc, err, faulty);
						o["m2"] = msgval + 1; o["sret2"] = sret2; o["r2"] = num(r2); o["s2"] = num(s2); o["ver2"] = sret2 ? dss.Verify(m2, r2, s2) : false;
					}
					}
				}
			}
		} catch (std::exception &ex) { o["exc"] = ex.what(); }
		my_hcalls = NULL;
		sc.barrier(i, [&]() { Mpz tmp; size_t l = 0; rbc->Deliver(tmp, l, aiounicast::aio_scheduler_roundrobin, 0); });
		if (getenv("VERIF_VERBOSE")) { std::string lg = sb.acc; o["log"] = lg.size() > 30000 ? lg.substr(lg.size() - 30000) : lg; }
		o["vclock"] = sc.vclock;
		{ std::lock_guard<std::mutex> lk(outmu); out << o.dump() << "\n"; }
		delete rbc; delete aiou; delete aiou2;
	});
	json e2; e2["e"] = "End"; e2["switches"] = sc.switches; e2["vclock"] = sc.vclock;
	out << e2.dump() << "\n";
}

int main(int argc, char **argv) {
	install_terminate("drv_dkg");
	quiet_cerr();
	if (!init_libTMCG()) { fprintf(stderr, "init_libTMCG failed\n"); return 2; }
	tmcg_verif_shash_hook = hook;
	if (argc >= 5 && !strcmp(argv[1], "run")) {
		unsigned long seed = strtoul(argv[2], NULL, 10); long execs = atol(argv[3]);
		std::ofstream out(argv[4]);
		std::string proto = argc > 5 ? argv[5] : "dkg";
		size_t maxn = argc > 6 ? (size_t)atol(argv[6]) : 5;
		for (long x = 0; x < execs; x++) {
			seam::seed_harness(seed * 1000003UL + x); seam::seed(seed * 7919UL + x);
			Cfg c; c.proto = proto; c.seed = seed * 131 + x; c.rndorder = rnd(2);
			c.n = 2 + rnd(maxn - 1);
			size_t tmax = (c.n - 1) / 2;                       // synchronous t-resilience of the sharing protocols
			c.t = tmax ? (rnd(3) == 0 ? rnd(tmax + 1) : tmax) : 0;
			c.trbc = std::min(c.t, (c.n - 1) / 3);
			c.role.assign(c.n, 0); c.tamper_from = c.tamper_to = -1; c.cut_after.assign(c.n, -1);
			size_t nf = std::min(c.t, (c.n - 1) / 3);          // faults within both bounds
			size_t kind = rnd(8);                              // 0 none, 1 lib, 2 silent, 3 tamper, 4 mixed, 5 crash mid-way, 6 wrong share then crash, 7 damaged share when signing
			c.cut_after.assign(c.n, -1);
			if (nf > 0 && kind > 0) {
				size_t cnt = 1 + rnd(nf);
				for (size_t f = 0; f < cnt; f++) {
					size_t who = rnd(c.n); if (c.role[who]) continue;
					if (kind == 1) c.role[who] = 1;
					else if (kind == 2) c.role[who] = 2;
					else if (kind == 3) { c.tamper_from = (long)who; c.tamper_to = (long)((who + 1 + rnd(c.n - 1)) % c.n); c.role[who] = 3; break; }
					else if (kind == 7) c.role[who] = (proto == "nts" || proto == "dss") ? 5 : 1;
					else if (kind == 5) { c.role[who] = 4; c.cut_after[who] = (long)(1 + rnd(40 * c.n)); }
					else if (kind == 6) { c.role[who] = 4; c.tamper_from = (long)who; c.tamper_to = (long)((who + 1 + rnd(c.n - 1)) % c.n); c.cut_after[who] = (long)(c.n + rnd(12 * c.n)); break; }
					else c.role[who] = 1 + (int)rnd(2);
				}
			}
			long gi = (long)rnd(3);
			if (getenv("VERIF_ONLY") && atol(getenv("VERIF_ONLY")) != x) continue;
			run_exec(out, c, gi);
		}
		return 0;
	}
	if (argc >= 4 && !strcmp(argv[1], "one")) {      // one explicitly described execution (the triggers of recorded findings)
		json j = json::parse(argv[2]);
		std::ofstream out(argv[3]);
		Cfg c; c.proto = j["proto"]; c.n = j["n"]; c.t = j["t"]; c.trbc = j["trbc"]; c.role = j["role"].get<std::vector<int> >();
		c.tamper_from = j["tamper"][0]; c.tamper_to = j["tamper"][1]; c.seed = j["seed"]; c.rndorder = j["rnd"];
		c.cut_after = j.contains("cut_after") ? j["cut_after"].get<std::vector<long> >() : std::vector<long>(c.n, -1);
		run_exec(out, c, j["gi"].get<long>());
		return 0;
	}
	if (argc >= 3 && !strcmp(argv[1], "verify")) {
		// the library's verifiers on the range-boundary catalogue in the group p=23, q=11, g=2 (h=3)
		std::ofstream out(argv[2]);
		GP = Mpz(23); GQ = Mpz(11); GG = Mpz(2); GH = Mpz(3); mpz_sub_ui(GP1, GP, 1);
		json ev; ev["e"] = "Reset"; ev["proto"] = "verify"; ev["grp"] = {23, 11, 2, 3}; ev["n"] = 3; ev["t"] = 1; ev["role"] = {0, 0, 0}; ev["tamper"] = {-1, -1}; ev["seed"] = 0;
		out << ev.dump() << "\n";
		CanettiGennaroJareckiKrawczykRabinDSS dss(3, 1, 0, GP, GQ, GG, GH, 5, 4, false, false);
		GennaroJareckiKrawczykRabinNTS nts(3, 1, 0, GP, GQ, GG, GH, 5, 4, false, false);
		long ms[] = {0, 1, 5, 10, 11, 12};
		for (long x = 1; x < 11; x += 3) {
			Mpz y; { Mpz X(x); mpz_powm(y, GG, X, GP); }
			mpz_set(dss.y, y); mpz_set(nts.y, y);
			for (int mi = 0; mi < 6; mi++) for (long r = -1; r <= 12; r++) for (long sv = -1; sv <= 12; sv++) {
				Mpz M(ms[mi]), R(r), S(sv);
				json o; o["e"] = "DssVer"; o["y"] = y.l(); o["m"] = ms[mi]; o["r"] = r; o["s"] = sv;
				try { o["res"] = dss.Verify(M, R, S); } catch (std::exception &ex) { o["exc"] = ex.what(); o["res"] = false; }
				out << o.dump() << "\n";
			}
			// Schnorr: a textbook signature (k, c = H(m, g^k), s = k + c x) and its neighbours
			for (int mi = 0; mi < 6; mi++) for (long k = 1; k < 11; k += 4) {
				Mpz M(ms[mi]), K(k), rr, cc, ss, X(x);
				mpz_powm(rr, GG, K, GP);
				tmcg_mpz_shash(cc, 2, (mpz_srcptr)M.v, (mpz_srcptr)rr.v);
				mpz_mul(ss, cc, X); mpz_add(ss, ss, K); mpz_mod(ss, ss, GQ);
				const char *muts[] = {"none", "s+1", "s-1", "s+q", "c+1", "s=0"};
				for (int mu = 0; mu < 6; mu++) {
					Mpz c2 = cc, s2 = ss;
					if (mu == 1) mpz_add_ui(s2, s2, 1); if (mu == 2) mpz_sub_ui(s2, s2, 1); if (mu == 3) mpz_add(s2, s2, GQ);
					if (mu == 4) mpz_add_ui(c2, c2, 1); if (mu == 5) mpz_set_ui(s2, 0);
					json hc = json::array(); my_hcalls = &hc;
					json o; o["e"] = "NtsVer"; o["y"] = y.l(); o["m"] = ms[mi]; o["c"] = num(c2); o["s"] = num(s2); o["mut"] = muts[mu];
					try { o["res"] = nts.Verify(M, c2, s2); } catch (std::exception &ex) { o["exc"] = ex.what(); o["res"] = false; }
					my_hcalls = NULL; o["hv"] = hc;
					out << o.dump() << "\n";
				}
			}
		}
		json e2; e2["e"] = "End"; out << e2.dump() << "\n";
		return 0;
	}
	fprintf(stderr, "usage: drv_dkg run <seed> <execs> <trace> [dkg|nts|vss|dss] [maxn]\n");
	return 2;
}
