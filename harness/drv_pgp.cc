// drv_pgp: binds spec/PGPFrame.tla (property C19, OpenPGP encodings) to the real code in
// src/CallasDonnerhackeFinneyShawThayerRFC4880.cc.  The driver only executes library functions and reports
// raw results; expected values come from TLC (direction A) or the log is validated by TLC (direction B).
//   drv_pgp cases <cases.ndjson> <out.ndjson>          direction A: one line {"i":..,"op":..,"got":{..}} per case
//   drv_pgp record <seed> <tier> <out.ndjson>          direction B: hash framing, S2K, KDF events with the octets
//                                                       that were handed to libgcrypt's hash functions
// The executable defines gcry_md_open/write/ctl/read/close/hash_buffer and time(): the library objects are linked
// statically, so their calls land here (same technique as seam_rng.cc); the real functions are reached with
// dlsym(RTLD_NEXT).  Nothing in /repo is changed.
#ifndef _GNU_SOURCE
#define _GNU_SOURCE
#endif
#include "common.hh"
#include <dlfcn.h>
#include <ctime>
#include <algorithm>
#include <gcrypt.h>
#define private public
#define protected public
#include "libTMCG.hh"
#undef private
#undef protected

typedef CallasDonnerhackeFinneyShawThayerRFC4880 PGP;
typedef tmcg_openpgp_octets_t octets;

// ------------------------------------------------------------------------------------------------------------
// seam: message digests
// ------------------------------------------------------------------------------------------------------------
namespace seam_md {
static const size_t FULLMAX = 8192;       // streams up to this length are reported completely
static const size_t HEAD = 96, TAIL = 32;
struct Ctx {
	int algo; uint64_t n; std::vector<unsigned char> full, head, ring; size_t ringpos;
	size_t Z, P; bool periodic; std::vector<unsigned char> win; // last P octets, for the period check
	std::vector<unsigned char> digest; bool read;
	Ctx() : algo(0), n(0), ringpos(0), Z(0), P(0), periodic(true), read(false) {}
};
static std::map<gcry_md_hd_t, Ctx> open_ctx;
static std::vector<Ctx> done;              // contexts whose digest has been read, in that order
static bool active = false;
static size_t cfgZ = 0, cfgP = 0;          // period check for long streams: octet i (i >= Z+P) must equal octet i-P
static bool autoZ = false;                 // S2K: the k-th context opened is checked with Z = k (its preload zeros)
static int cfgAlgo = 0;                    // ... counting only contexts of this algorithm (0 = all)
static void begin(size_t Z = 0, size_t P = 0, bool az = false, int algo = 0) { done.clear(); open_ctx.clear(); active = true; cfgZ = Z; cfgP = P; autoZ = az; cfgAlgo = algo; }
static void end() { active = false; }
static void feed(Ctx &c, const unsigned char *p, size_t len) {
	for (size_t k = 0; k < len; k++) {
		unsigned char b = p[k];
		if (c.full.size() < FULLMAX + 1) c.full.push_back(b);
		if (c.head.size() < HEAD) c.head.push_back(b);
		if (c.ring.size() < TAIL) c.ring.push_back(b); else { c.ring[c.ringpos] = b; c.ringpos = (c.ringpos + 1) % TAIL; }
		if (c.P > 0) {
			uint64_t idx = c.n;                                 // 0-based index of this octet
			if (idx >= c.Z) {
				uint64_t j = idx - c.Z;
				if (j >= c.P && c.win[j % c.P] != b) c.periodic = false;
				c.win[j % c.P] = b;
			}
		}
		c.n++;
	}
}
static json to_json(const Ctx &c) {
	json j; j["a"] = c.algo; j["n"] = (uint64_t)c.n; j["out"] = json::array();
	for (size_t i = 0; i < c.digest.size(); i++) j["out"].push_back((int)c.digest[i]);
	j["in"] = json::array(); j["head"] = json::array(); j["tail"] = json::array();
	if (c.n <= FULLMAX) { for (size_t i = 0; i < c.full.size(); i++) j["in"].push_back((int)c.full[i]); j["full"] = true; }
	else {
		j["full"] = false;
		for (size_t i = 0; i < c.head.size(); i++) j["head"].push_back((int)c.head[i]);
		for (size_t i = 0; i < c.ring.size(); i++) j["tail"].push_back((int)c.ring[(c.ringpos + i) % c.ring.size()]);
	}
	j["per"] = c.periodic; j["P"] = c.P; j["Z"] = c.Z;
	return j;
}
static json done_json() { json a = json::array(); for (size_t i = 0; i < done.size(); i++) a.push_back(to_json(done[i])); return a; }
template <typename F> static F real(const char *name) {
	void *p = dlsym(RTLD_NEXT, name);
	if (!p) { printf("{\"e\":\"TERMINATE\",\"driver\":\"drv_pgp\",\"what\":\"dlsym %s\"}\n", name); fflush(stdout); _exit(3); }
	return (F)p;
}
}

extern "C" {
gcry_error_t gcry_md_open(gcry_md_hd_t *h, int algo, unsigned int flags) {
	static gcry_error_t (*f)(gcry_md_hd_t *, int, unsigned int) = seam_md::real<gcry_error_t (*)(gcry_md_hd_t *, int, unsigned int)>("gcry_md_open");
	gcry_error_t r = f(h, algo, flags);
	if (!r && seam_md::active && h && *h) {
		seam_md::Ctx c; c.algo = algo;
		bool counted = (seam_md::cfgAlgo == 0 || seam_md::cfgAlgo == algo);
		if (counted) { c.Z = seam_md::cfgZ; c.P = seam_md::cfgP; c.win.assign(c.P, 0); }
		seam_md::open_ctx[*h] = c;
		if (seam_md::autoZ && counted) seam_md::cfgZ++;
	}
	return r;
}
static void md_pending(gcry_md_hd_t hd) {      // octets gcry_md_putc has put into the handle's buffer
	if (!seam_md::active) return;
	std::map<gcry_md_hd_t, seam_md::Ctx>::iterator it = seam_md::open_ctx.find(hd);
	if (it == seam_md::open_ctx.end()) return;
	if (hd->bufpos > 0) seam_md::feed(it->second, hd->buf, (size_t)hd->bufpos);
}
void gcry_md_write(gcry_md_hd_t hd, const void *buffer, size_t length) {
	static void (*f)(gcry_md_hd_t, const void *, size_t) = seam_md::real<void (*)(gcry_md_hd_t, const void *, size_t)>("gcry_md_write");
	md_pending(hd);
	if (seam_md::active && buffer && length) {
		std::map<gcry_md_hd_t, seam_md::Ctx>::iterator it = seam_md::open_ctx.find(hd);
		if (it != seam_md::open_ctx.end()) seam_md::feed(it->second, (const unsigned char *)buffer, length);
	}
	f(hd, buffer, length);                       // consumes the pending buffer and `buffer`
}
gcry_error_t gcry_md_ctl(gcry_md_hd_t hd, int cmd, void *buffer, size_t buflen) {
	static gcry_error_t (*f)(gcry_md_hd_t, int, void *, size_t) = seam_md::real<gcry_error_t (*)(gcry_md_hd_t, int, void *, size_t)>("gcry_md_ctl");
	if (cmd == GCRYCTL_FINALIZE) md_pending(hd);
	return f(hd, cmd, buffer, buflen);
}
unsigned char *gcry_md_read(gcry_md_hd_t hd, int algo) {
	static unsigned char *(*f)(gcry_md_hd_t, int) = seam_md::real<unsigned char *(*)(gcry_md_hd_t, int)>("gcry_md_read");
	md_pending(hd);                              // bufpos is 0 after a preceding finalize
	unsigned char *r = f(hd, algo);
	if (seam_md::active) {
		std::map<gcry_md_hd_t, seam_md::Ctx>::iterator it = seam_md::open_ctx.find(hd);
		if (it != seam_md::open_ctx.end() && !it->second.read) {
			seam_md::Ctx &c = it->second;
			size_t dl = gcry_md_get_algo_dlen(algo ? algo : c.algo);
			if (r) c.digest.assign(r, r + dl);
			c.read = true;
			seam_md::done.push_back(c);
		}
	}
	return r;
}
void gcry_md_close(gcry_md_hd_t hd) {
	static void (*f)(gcry_md_hd_t) = seam_md::real<void (*)(gcry_md_hd_t)>("gcry_md_close");
	if (seam_md::active) seam_md::open_ctx.erase(hd);
	f(hd);
}
void gcry_md_hash_buffer(int algo, void *digest, const void *buffer, size_t length) {
	static void (*f)(int, void *, const void *, size_t) = seam_md::real<void (*)(int, void *, const void *, size_t)>("gcry_md_hash_buffer");
	f(algo, digest, buffer, length);
	if (seam_md::active) {
		seam_md::Ctx c; c.algo = algo;
		seam_md::feed(c, (const unsigned char *)buffer, length);
		size_t dl = gcry_md_get_algo_dlen(algo);
		c.digest.assign((unsigned char *)digest, (unsigned char *)digest + dl);
		c.read = true;
		seam_md::done.push_back(c);
	}
}
// the literal packet encoder stamps the current time: a fixed clock makes its output a function of the case
static time_t fixed_clock = 0x5DC01234;
time_t time(time_t *t) { if (t) *t = fixed_clock; return fixed_clock; }
}

// ------------------------------------------------------------------------------------------------------------
// helpers
// ------------------------------------------------------------------------------------------------------------
static octets O(const json &a) { octets o; for (size_t i = 0; i < a.size(); i++) o.push_back((tmcg_openpgp_byte_t)a[i].get<int>()); return o; }
static std::string S(const json &a) { std::string s; for (size_t i = 0; i < a.size(); i++) s.push_back((char)a[i].get<int>()); return s; }
static json J(const octets &o) { json a = json::array(); for (size_t i = 0; i < o.size(); i++) a.push_back((int)o[i]); return a; }
static json J(const tmcg_openpgp_secure_octets_t &o) { json a = json::array(); for (size_t i = 0; i < o.size(); i++) a.push_back((int)o[i]); return a; }
static json J(const std::string &s) { json a = json::array(); for (size_t i = 0; i < s.size(); i++) a.push_back((int)(unsigned char)s[i]); return a; }
static json J(const unsigned char *p, size_t n) { json a = json::array(); for (size_t i = 0; i < n; i++) a.push_back((int)p[i]); return a; }
static json Pair32(uint32_t v) { json a = json::array(); a.push_back((int)(v >> 16)); a.push_back((int)(v & 0xFFFF)); return a; }
static uint64_t FromPair(const json &p) { return ((uint64_t)p[0].get<int>() << 16) | (uint64_t)p[1].get<int>(); }
static gcry_mpi_t M(const json &a) {       // big-endian octet string (leading zeros allowed) -> mpi
	octets o = O(a); gcry_mpi_t m = NULL;
	if (o.empty()) { m = gcry_mpi_new(8); gcry_mpi_set_ui(m, 0); return m; }
	if (gcry_mpi_scan(&m, GCRYMPI_FMT_USG, o.data(), o.size(), NULL)) { m = gcry_mpi_new(8); gcry_mpi_set_ui(m, 0); }
	return m;
}
static json JM(gcry_mpi_t m) {             // mpi -> minimal big-endian octets (what GCRYMPI_FMT_USG prints)
	if (m == NULL) return json();          // null: the decoder did not produce a value
	size_t n = (gcry_mpi_get_nbits(m) + 7) / 8 + 1; std::vector<unsigned char> b(n + 1, 0); size_t w = 0;
	if (gcry_mpi_print(GCRYMPI_FMT_USG, b.data(), b.size(), &w, m)) return json();
	if (w == 1 && b[0] == 0 && gcry_mpi_cmp_ui(m, 0) == 0) w = 0;    // libgcrypt prints zero as one 0x00 octet
	return J(b.data(), w);
}

struct Decoded { tmcg_openpgp_byte_t ret; tmcg_openpgp_packet_ctx_t ctx; octets rest, cur; };
static void decode_packet(const octets &os, Decoded &d) {
	tmcg_openpgp_notations_t nots; tmcg_openpgp_multiple_octets_t es, rf;
	d.rest = os; d.cur.clear();
	d.ret = PGP::PacketDecode(d.rest, 0, d.ctx, d.cur, nots, es, rf);
}
static void release(Decoded &d) { PGP::PacketContextRelease(d.ctx); }

// ------------------------------------------------------------------------------------------------------------
// direction A
// ------------------------------------------------------------------------------------------------------------
static json pub_dec(Decoded &d, const json &in) {
	json g; g["ret"] = (int)d.ret;
	tmcg_openpgp_packet_ctx_t &c = d.ctx;
	g["v"] = (int)c.version; g["time"] = Pair32(c.keycreationtime); g["algo"] = (int)c.pkalgo;
	json ms = json::array();
	int algo = in["algo"].get<int>();
	if (algo == 1 || algo == 2 || algo == 3) { ms.push_back(JM(c.n)); ms.push_back(JM(c.e)); }
	else if (algo == 16) { ms.push_back(JM(c.p)); ms.push_back(JM(c.g)); ms.push_back(JM(c.y)); }
	else if (algo == 17) { ms.push_back(JM(c.p)); ms.push_back(JM(c.q)); ms.push_back(JM(c.g)); ms.push_back(JM(c.y)); }
	else ms.push_back(JM(c.ecpk));
	g["mpis"] = ms;
	g["oid"] = J(c.curveoid, c.curveoidlen);
	json k = json::array(); k.push_back((int)c.kdf_hashalgo); k.push_back((int)c.kdf_skalgo); g["kdf"] = k;
	return g;
}

static json run_case(const json &c) {
	const std::string op = c["op"].get<std::string>();
	const json &in = c["in"];
	json g = json::object();
	if (op == "r64" || op == "armor") {
		octets b = O(in["b"]);
		std::string enc; PGP::Radix64Encode(b, enc, true); g["enc"] = J(enc);
		octets dec; PGP::Radix64Decode(S(in["s"]), dec); g["dec"] = J(dec);
		octets crc; PGP::CRC24Compute(b, crc); g["crc"] = J(crc);
		std::string cl; PGP::CRC24Encode(b, cl); g["crcline"] = J(cl);
		if (op == "armor") {
			std::string a; PGP::ArmorEncode((tmcg_openpgp_armor_t)in["t"].get<int>(), S(in["comment"]), b, a, false);
			g["armor"] = J(a);
			octets dd; tmcg_openpgp_armor_t dt = PGP::ArmorDecode(S(in["a"]), dd);
			g["dt"] = (int)dt; g["dd"] = J(dd);
		}
	} else if (op == "armordec") {
		octets dd; tmcg_openpgp_armor_t dt = PGP::ArmorDecode(S(in["a"]), dd);
		g["dt"] = (int)dt; g["dd"] = (dt == TMCG_OPENPGP_ARMOR_UNKNOWN) ? json::array() : J(dd);
	} else if (op == "len") {
		octets e; PGP::PacketLengthEncode((size_t)FromPair(in["n"]), e); g["enc"] = J(e);
		uint32_t len = 0; bool part = false;
		size_t hl = PGP::PacketLengthDecode(O(in["os"]), true, 0, len, part);
		json d; d["hl"] = hl; d["len"] = Pair32(len); d["part"] = part; g["dec"] = d;
	} else if (op == "lendec") {
		uint32_t len = 0; bool part = false;
		size_t hl = PGP::PacketLengthDecode(O(in["os"]), in["new"].get<bool>(), (tmcg_openpgp_byte_t)in["lt"].get<int>(), len, part);
		json d; d["hl"] = hl; d["len"] = Pair32(hl ? len : 0); d["part"] = part; g["dec"] = d;
	} else if (op == "tagenc") {
		octets e; PGP::PacketTagEncode((tmcg_openpgp_byte_t)in["t"].get<int>(), e); g["enc"] = J(e);
	} else if (op == "extract") {
		octets body; tmcg_openpgp_byte_t r = PGP::PacketBodyExtract(O(in["os"]), 0, body);
		g["ret"] = (int)r; g["body"] = r ? J(body) : json::array();
	} else if (op == "mpi" || op == "mpidec") {
		if (op == "mpi") {
			gcry_mpi_t m = M(in["v"]); octets e; size_t sum = 0;
			PGP::PacketMPIEncode(m, e, sum); g["enc"] = J(e); g["sum"] = sum; gcry_mpi_release(m);
		}
		gcry_mpi_t o = NULL; size_t used = PGP::PacketMPIDecode(O(in["os"]), o);
		g["used"] = used; g["val"] = used ? JM(o) : json::array();
		gcry_mpi_release(o);
	} else if (op == "s2kcount") {
		// the coded count is only observable through the number of octets S2KCompute hashes
		octets salt; for (int k = 0; k < 8; k++) salt.push_back(0xA0 + k);
		tmcg_openpgp_secure_string_t pw = "pw"; tmcg_openpgp_secure_octets_t key;
		seam_md::begin(0, 10);
		PGP::S2KCompute(TMCG_OPENPGP_HASHALGO_SHA1, 16, pw, salt, true, (tmcg_openpgp_byte_t)in["c"].get<int>(), key);
		seam_md::end();
		g["count"] = seam_md::done.empty() ? (uint64_t)0 : (uint64_t)seam_md::done[0].n;
	} else if (op == "uid") {
		octets e; PGP::PacketUidEncode(S(in["uid"]), e); g["enc"] = J(e);
		Decoded d; decode_packet(O(in["os"]), d);
		json dj; dj["ret"] = (int)d.ret; dj["uid"] = J(d.ctx.uiddata, d.ctx.uiddatalen); g["dec"] = dj; release(d);
	} else if (op == "lit") {
		fixed_clock = (time_t)FromPair(in["time"]);
		octets e; PGP::PacketLitEncode(O(in["data"]), e); g["enc"] = J(e);
		Decoded d; decode_packet(O(in["os"]), d);
		json dj; dj["ret"] = (int)d.ret; dj["fmt"] = (int)d.ctx.dataformat; dj["fnlen"] = d.ctx.datafilenamelen;
		dj["time"] = Pair32(d.ctx.datatime); dj["data"] = J(d.ctx.data, d.ctx.datalen); g["dec"] = dj; release(d);
	} else if (op == "sed") {
		octets e; PGP::PacketSedEncode(O(in["data"]), e); g["enc"] = J(e);
	} else if (op == "seipd") {
		octets e; PGP::PacketSeipdEncode(O(in["data"]), e); g["enc"] = J(e);
	} else if (op == "mdc") {
		octets e; PGP::PacketMdcEncode(O(in["hash"]), e); g["enc"] = J(e);
		Decoded d; decode_packet(O(in["os"]), d);
		json dj; dj["ret"] = (int)d.ret; dj["hash"] = J(d.ctx.mdc_hash, 20); g["dec"] = dj; release(d);
	} else if (op == "aead") {
		octets e; PGP::PacketAeadEncode((tmcg_openpgp_skalgo_t)in["sk"].get<int>(), (tmcg_openpgp_aeadalgo_t)in["aead"].get<int>(),
			(tmcg_openpgp_byte_t)in["chunk"].get<int>(), O(in["iv"]), O(in["data"]), e); g["enc"] = J(e);
	} else if (op == "pkeskrsa" || op == "pkeskelg" || op == "pkeskecdh") {
		octets e, keyid = O(in["keyid"]);
		if (op == "pkeskrsa") { gcry_mpi_t me = M(in["me"]); PGP::PacketPkeskEncode(keyid, me, e); gcry_mpi_release(me); }
		else if (op == "pkeskelg") { gcry_mpi_t gk = M(in["gk"]), myk = M(in["myk"]); PGP::PacketPkeskEncode(keyid, gk, myk, e); gcry_mpi_release(gk); gcry_mpi_release(myk); }
		else { gcry_mpi_t epk = M(in["epk"]); octets r = O(in["rkw"]); tmcg_openpgp_byte_t rkw[256]; memset(rkw, 0, sizeof(rkw));
			for (size_t k = 0; k < r.size() && k < 256; k++) rkw[k] = r[k];
			PGP::PacketPkeskEncode(keyid, epk, r.size(), rkw, e); gcry_mpi_release(epk); }
		g["enc"] = J(e);
		Decoded d; decode_packet(O(in["os"]), d);
		json dj; dj["ret"] = (int)d.ret; dj["v"] = (int)d.ctx.version; dj["keyid"] = J(d.ctx.keyid, 8); dj["algo"] = (int)d.ctx.pkalgo;
		json ms = json::array();
		if (op == "pkeskrsa") ms.push_back(JM(d.ctx.me));
		else if (op == "pkeskelg") { ms.push_back(JM(d.ctx.gk)); ms.push_back(JM(d.ctx.myk)); }
		else { ms.push_back(JM(d.ctx.ecepk)); dj["rkw"] = J(d.ctx.rkw, d.ctx.rkwlen); }
		dj["mpis"] = ms; g["dec"] = dj; release(d);
	} else if (op == "sig2") {
		gcry_mpi_t r = M(in["r"]), s = M(in["s"]); octets e;
		PGP::PacketSigEncode(O(in["hashed"]), O(in["left"]), r, s, e); g["enc"] = J(e); gcry_mpi_release(r); gcry_mpi_release(s);
	} else if (op == "sig1") {
		gcry_mpi_t s = M(in["s"]); octets e;
		PGP::PacketSigEncode(O(in["hashed"]), O(in["left"]), s, e); g["enc"] = J(e); gcry_mpi_release(s);
	} else if (op == "sec") {
		bool sub = in["sub"].get<bool>(); int algo = in["algo"].get<int>(); time_t kt = (time_t)FromPair(in["time"]); octets e;
		std::vector<gcry_mpi_t> ms; for (size_t k = 0; k < in["mpis"].size(); k++) ms.push_back(M(in["mpis"][k]));
		gcry_mpi_t z = gcry_mpi_new(8); gcry_mpi_set_ui(z, 0); gcry_mpi_t x = M(in["x"]);
		gcry_mpi_t p = ms[0], q = z, gg = z, y = z;
		if (algo == 16) { gg = ms[1]; y = ms[2]; } else { q = ms[1]; gg = ms[2]; y = ms[3]; }
		tmcg_openpgp_secure_string_t nopass = "";
		if (sub) PGP::PacketSsbEncode(kt, (tmcg_openpgp_pkalgo_t)algo, p, q, gg, y, x, nopass, e);
		else PGP::PacketSecEncode(kt, (tmcg_openpgp_pkalgo_t)algo, p, q, gg, y, x, nopass, e);
		g["enc"] = J(e);
		for (size_t k = 0; k < ms.size(); k++) gcry_mpi_release(ms[k]);
		gcry_mpi_release(z); gcry_mpi_release(x);
		Decoded d; decode_packet(O(in["os"]), d);
		tmcg_openpgp_packet_ctx_t &c = d.ctx; json dj;
		dj["ret"] = (int)d.ret; dj["v"] = (int)c.version; dj["time"] = Pair32(c.keycreationtime); dj["algo"] = (int)c.pkalgo; dj["s2kconv"] = (int)c.s2kconv;
		json mj = json::array();
		if (algo == 16) { mj.push_back(JM(c.p)); mj.push_back(JM(c.g)); mj.push_back(JM(c.y)); }
		else { mj.push_back(JM(c.p)); mj.push_back(JM(c.q)); mj.push_back(JM(c.g)); mj.push_back(JM(c.y)); }
		dj["mpis"] = mj; dj["x"] = JM(c.x); g["dec"] = dj; release(d);
	} else if (op == "sigdec") {
		Decoded d; decode_packet(O(in["os"]), d);
		tmcg_openpgp_packet_ctx_t &c = d.ctx;
		g["ret"] = (int)d.ret; g["v"] = (int)c.version; g["type"] = (int)c.type; g["pk"] = (int)c.pkalgo; g["hash"] = (int)c.hashalgo;
		g["time"] = Pair32(c.sigcreationtime); g["issuer"] = J(c.issuer, 8); g["flags"] = J(c.keyflags, c.keyflagslen < 32 ? c.keyflagslen : 32);
		g["hlen"] = c.hspdlen; g["left"] = J(c.left, 2);
		json ms = json::array();
		if (in["pk"].get<int>() == 17) { ms.push_back(JM(c.r)); ms.push_back(JM(c.s)); } else ms.push_back(JM(c.md));
		g["mpis"] = ms; release(d);
	} else if (op == "subpkt") {
		octets e; PGP::SubpacketEncode((tmcg_openpgp_byte_t)in["type"].get<int>(), in["critical"].get<bool>(), O(in["data"]), e); g["enc"] = J(e);
	} else if (op == "pub") {
		bool sub = in["sub"].get<bool>(); int v = in["v"].get<int>(); int algo = in["algo"].get<int>();
		time_t kt = (time_t)FromPair(in["time"]); octets e;
		std::vector<gcry_mpi_t> ms; for (size_t k = 0; k < in["mpis"].size(); k++) ms.push_back(M(in["mpis"][k]));
		gcry_mpi_t z = gcry_mpi_new(8); gcry_mpi_set_ui(z, 0);
		tmcg_openpgp_pkalgo_t pa = (tmcg_openpgp_pkalgo_t)algo;
		if (algo == 1 || algo == 2 || algo == 3 || algo == 16 || algo == 17) {
			gcry_mpi_t p = ms[0], q = z, gg = z, y = z;
			if (algo <= 3) q = ms[1];
			else if (algo == 16) { gg = ms[1]; y = ms[2]; }
			else { q = ms[1]; gg = ms[2]; y = ms[3]; }
			if (!sub && v == 4) PGP::PacketPubEncode(kt, pa, p, q, gg, y, e);
			else if (!sub) PGP::PacketPubEncodeV5(kt, pa, p, q, gg, y, e);
			else if (v == 4) PGP::PacketSubEncode(kt, pa, p, q, gg, y, e);
			else PGP::PacketSubEncodeV5(kt, pa, p, q, gg, y, e);
		} else {
			octets oid = O(in["oid"]);
			tmcg_openpgp_hashalgo_t kh = (tmcg_openpgp_hashalgo_t)in["kdf"][0].get<int>();
			tmcg_openpgp_skalgo_t ks = (tmcg_openpgp_skalgo_t)in["kdf"][1].get<int>();
			if (!sub && v == 4) PGP::PacketPubEncode(kt, pa, oid.size(), oid.data(), ms[0], kh, ks, e);
			else if (!sub) PGP::PacketPubEncodeV5(kt, pa, oid.size(), oid.data(), ms[0], kh, ks, e);
			else if (v == 4) PGP::PacketSubEncode(kt, pa, oid.size(), oid.data(), ms[0], kh, ks, e);
			else PGP::PacketSubEncodeV5(kt, pa, oid.size(), oid.data(), ms[0], kh, ks, e);
		}
		g["enc"] = J(e);
		for (size_t k = 0; k < ms.size(); k++) gcry_mpi_release(ms[k]);
		gcry_mpi_release(z);
		Decoded d; decode_packet(O(in["os"]), d);
		g["dec"] = pub_dec(d, in); release(d);
	} else {
		g["unknown_op"] = op;
	}
	return g;
}

static int do_cases(const char *inpath, const char *outpath) {
	std::ifstream f(inpath); std::ofstream out(outpath); std::string line; size_t n = 0;
	while (std::getline(f, line)) {
		if (line.empty()) continue;
		json c = json::parse(line);
		json r; r["i"] = c["i"]; r["op"] = c["op"]; r["fam"] = c.value("fam", "");
		r["got"] = run_case(c);
		out << r.dump() << "\n"; n++;
	}
	out.close();
	printf("{\"e\":\"done\",\"cases\":%zu}\n", n);
	return 0;
}

// ------------------------------------------------------------------------------------------------------------
// direction B: recorded events
// ------------------------------------------------------------------------------------------------------------
static octets rnd(size_t n) { octets o; for (size_t i = 0; i < n; i++) o.push_back((tmcg_openpgp_byte_t)(seam::next64() & 0xFF)); return o; }
static size_t rndn(size_t lo, size_t hi) { return lo + (size_t)(seam::next64() % (hi - lo + 1)); }
static octets rndtext(size_t n) {          // text with all kinds of line ends
	static const char *al = "abc XYZ-09\r\n\n\r\t";
	octets o; for (size_t i = 0; i < n; i++) o.push_back((tmcg_openpgp_byte_t)al[seam::next64() % 16]); return o;
}
static std::ofstream *rec_out = NULL;
static void emit(json &ev) { ev["md"] = seam_md::done_json(); (*rec_out) << ev.dump() << "\n"; }

static void rec_fpr(const octets &key) {
	for (int v = 4; v <= 5; v++) {
		{ json ev; ev["e"] = "Fpr"; ev["v"] = v; ev["key"] = J(key); octets out;
		  seam_md::begin(); if (v == 4) PGP::FingerprintCompute(key, out); else PGP::FingerprintComputeV5(key, out); seam_md::end();
		  ev["out"] = J(out); emit(ev); }
		{ json ev; ev["e"] = "KeyId"; ev["v"] = v; ev["key"] = J(key); octets out;
		  seam_md::begin(); if (v == 4) PGP::KeyidCompute(key, out); else PGP::KeyidComputeV5(key, out); seam_md::end();
		  ev["out"] = J(out); emit(ev); }
	}
}
static const int HASHES[] = {2, 8, 10, 9, 11, 3, 1, 12, 14};
static void rec_sighash(const std::string &kind, int v, const octets &a, const octets &b, const octets &hashed, int algo) {
	json ev; ev["e"] = "SigHash"; ev["kind"] = kind; ev["v"] = v; ev["a"] = J(a); ev["b"] = J(b); ev["hashed"] = J(hashed); ev["algo"] = algo;
	octets hash, left; tmcg_openpgp_hashalgo_t h = (tmcg_openpgp_hashalgo_t)algo; bool ok = true;
	std::string bs(b.begin(), b.end()); octets none;
	seam_md::begin();
	if (kind == "binary") { ok = (v == 3) ? PGP::BinaryDocumentHashV3(a, hashed, h, hash, left) : (v == 4) ? PGP::BinaryDocumentHash(a, hashed, h, hash, left) : PGP::BinaryDocumentHashV5(a, hashed, h, hash, left); }
	else if (kind == "text") { ok = (v == 3) ? PGP::TextDocumentHashV3(a, hashed, h, hash, left) : (v == 4) ? PGP::TextDocumentHash(a, hashed, h, hash, left) : PGP::TextDocumentHashV5(a, hashed, h, hash, left); }
	else if (kind == "alone") { ok = (v == 3) ? PGP::StandaloneHashV3(hashed, h, hash, left) : (v == 4) ? PGP::StandaloneHash(hashed, h, hash, left) : PGP::StandaloneHashV5(hashed, h, hash, left); }
	else if (kind == "key") { if (v == 3) PGP::KeyHashV3(a, hashed, h, hash, left); else if (v == 4) PGP::KeyHash(a, hashed, h, hash, left); else PGP::KeyHashV5(a, hashed, h, hash, left); }
	else if (kind == "subkey") { if (v == 3) PGP::KeyHashV3(a, b, hashed, h, hash, left); else if (v == 4) PGP::KeyHash(a, b, hashed, h, hash, left); else PGP::KeyHashV5(a, b, hashed, h, hash, left); }
	else if (kind == "certuid") { if (v == 3) PGP::CertificationHashV3(a, bs, hashed, h, hash, left); else if (v == 4) PGP::CertificationHash(a, bs, none, hashed, h, hash, left); else PGP::CertificationHashV5(a, bs, none, hashed, h, hash, left); }
	else if (kind == "certuat") { if (v == 4) PGP::CertificationHash(a, "", b, hashed, h, hash, left); else PGP::CertificationHashV5(a, "", b, hashed, h, hash, left); }
	seam_md::end();
	ev["ok"] = ok; ev["hash"] = J(hash); ev["left"] = J(left); emit(ev);
}
static void rec_s2k(int algo, size_t sklen, const std::string &pass, const octets &salt, bool iter, int c) {
	json ev; ev["e"] = "S2K"; ev["algo"] = algo; ev["hlen"] = PGP::AlgorithmHashLength((tmcg_openpgp_hashalgo_t)algo); ev["sklen"] = sklen;
	ev["pass"] = J(pass); ev["salt"] = J(salt); ev["iter"] = iter; ev["c"] = c;
	tmcg_openpgp_secure_string_t pw(pass.begin(), pass.end()); tmcg_openpgp_secure_octets_t key;
	seam_md::begin(0, salt.size() + pass.size(), true);
	PGP::S2KCompute((tmcg_openpgp_hashalgo_t)algo, sklen, pw, salt, iter, (tmcg_openpgp_byte_t)c, key);
	seam_md::end();
	ev["out"] = J(key); emit(ev);
}
static void rec_kdf(int hashalgo, int skalgo, const octets &zb, const std::string &curve, const octets &oid, const octets &fpr) {
	json ev; ev["e"] = "KDF"; ev["hash"] = hashalgo; ev["sym"] = skalgo; ev["zb"] = J(zb); ev["oid"] = J(oid); ev["fpr"] = J(fpr);
	tmcg_openpgp_secure_octets_t z(zb.begin(), zb.end()), mb;
	seam_md::begin();
	gcry_error_t r = PGP::KDFCompute((tmcg_openpgp_hashalgo_t)hashalgo, (tmcg_openpgp_skalgo_t)skalgo, z, curve, fpr, mb);
	seam_md::end();
	ev["ret"] = (int)(r ? 1 : 0); ev["out"] = J(mb); emit(ev);
}

static void rec_sigprep(const std::string &fn, int type, int pk, int hash, uint32_t t, uint32_t exp, const octets &issuer,
		const std::string &policy, const octets &flags, const octets &revoker, int pk2, int revcode, const std::string &reason, bool bis) {
	json ev; ev["e"] = "SigPrep"; ev["fn"] = fn; ev["v"] = (fn == "detachedv5") ? 5 : 4; ev["type"] = type; ev["pk"] = pk; ev["hash"] = hash;
	ev["time"] = Pair32(t); ev["exp"] = Pair32(exp); ev["issuer"] = J(issuer); ev["policy"] = J(policy); ev["flags"] = J(flags);
	ev["revoker"] = J(revoker); ev["pk2"] = pk2; ev["revcode"] = revcode; ev["reason"] = J(reason); ev["bis"] = bis;
	octets out; tmcg_openpgp_signature_t ty = (tmcg_openpgp_signature_t)type; tmcg_openpgp_pkalgo_t pa = (tmcg_openpgp_pkalgo_t)pk;
	tmcg_openpgp_hashalgo_t ha = (tmcg_openpgp_hashalgo_t)hash;
	seam_md::begin();
	if (fn == "self") PGP::PacketSigPrepareSelfSignature(ty, pa, ha, (time_t)t, (time_t)exp, flags, issuer, bis, out);
	else if (fn == "revoker") { ev["type"] = 0x1F; PGP::PacketSigPrepareDesignatedRevoker(pa, ha, (time_t)t, flags, issuer, (tmcg_openpgp_pkalgo_t)pk2, revoker, bis, out); }
	else if (fn == "detached") PGP::PacketSigPrepareDetachedSignature(ty, pa, ha, (time_t)t, (time_t)exp, policy, issuer, out);
	else if (fn == "detachedv5") PGP::PacketSigPrepareDetachedSignatureV5(ty, pa, ha, (time_t)t, (time_t)exp, policy, issuer, out);
	else if (fn == "revocation") PGP::PacketSigPrepareRevocationSignature(ty, pa, ha, (time_t)t, (tmcg_openpgp_revcode_t)revcode, reason, issuer, out);
	else if (fn == "certification") PGP::PacketSigPrepareCertificationSignature(ty, pa, ha, (time_t)t, (time_t)exp, policy, issuer, out);
	seam_md::end();
	ev["out"] = J(out); emit(ev);
}

static void rec_secenc(bool sub, int algo, size_t plen, size_t xlen, const std::string &pass) {
	json ev; ev["e"] = "SecEnc"; ev["sub"] = sub; ev["algo"] = algo; uint32_t t = (uint32_t)seam::next64(); ev["time"] = Pair32(t);
	std::vector<octets> mo; size_t nm = (algo == 16) ? 3 : 4;
	for (size_t k = 0; k < nm; k++) { octets o = rnd(k == 1 && algo == 17 ? xlen : plen); o[0] |= 1; mo.push_back(o); }
	octets xo = rnd(xlen); xo[0] |= 1;
	json mj = json::array(); for (size_t k = 0; k < nm; k++) mj.push_back(J(mo[k])); ev["mpis"] = mj; ev["x"] = J(xo); ev["pass"] = J(pass);
	std::vector<gcry_mpi_t> ms; for (size_t k = 0; k < nm; k++) ms.push_back(M(mj[k]));
	gcry_mpi_t z = gcry_mpi_new(8); gcry_mpi_set_ui(z, 0); gcry_mpi_t x = M(ev["x"]);
	gcry_mpi_t p = ms[0], q = z, gg = z, y = z;
	if (algo == 16) { gg = ms[1]; y = ms[2]; } else { q = ms[1]; gg = ms[2]; y = ms[3]; }
	tmcg_openpgp_secure_string_t pw(pass.begin(), pass.end()); octets out;
	seam::clear_log(); seam::record(true);
	seam_md::begin(0, 8 + pass.size(), true, GCRY_MD_SHA256);
	if (sub) PGP::PacketSsbEncode((time_t)t, (tmcg_openpgp_pkalgo_t)algo, p, q, gg, y, x, pw, out);
	else PGP::PacketSecEncode((time_t)t, (tmcg_openpgp_pkalgo_t)algo, p, q, gg, y, x, pw, out);
	seam_md::end(); seam::record(false);
	json rj = json::array();
	for (size_t k = 0; k < seam::log().size(); k++) {
		json b = json::array(); const std::string &hx = seam::log()[k].hex;
		for (size_t c = 0; c + 1 < hx.size(); c += 2) b.push_back((int)strtol(hx.substr(c, 2).c_str(), NULL, 16));
		rj.push_back(b);
	}
	ev["rng"] = rj; ev["out"] = J(out); emit(ev);
	for (size_t k = 0; k < ms.size(); k++) gcry_mpi_release(ms[k]);
	gcry_mpi_release(z); gcry_mpi_release(x);
}

static int do_record(uint64_t seed, const std::string &tier, const char *outpath) {
	seam::seed_harness(seed);
	std::ofstream out(outpath); rec_out = &out;
	bool thorough = (tier == "thorough");
	// fingerprints and key ids: framing lengths around the one/two-octet boundaries and random ones
	static const size_t KL[] = {0, 1, 2, 6, 255, 256, 257, 300, 1000};
	for (size_t k = 0; k < sizeof(KL) / sizeof(KL[0]); k++) rec_fpr(rnd(KL[k]));
	for (int k = 0; k < (thorough ? 60 : 8); k++) rec_fpr(rnd(rndn(6, 700)));
	// signature hashing
	static const char *KINDS[] = {"binary", "text", "alone", "key", "subkey", "certuid", "certuat"};
	int rounds = thorough ? 12 : 2;
	for (int r = 0; r < rounds; r++)
		for (int ki = 0; ki < 7; ki++)
			for (int v = 3; v <= 5; v++) {
				std::string kind = KINDS[ki];
				if (kind == "certuat" && v == 3) continue;          // no v3 entry point for user attributes
				int algo = HASHES[(r * 21 + ki * 3 + v) % 9];
				octets a, b, hashed = rnd(v == 3 ? 5 : rndn(6, 70));
				if (kind == "binary") a = rnd(rndn(0, 120));
				else if (kind == "text") a = rndtext(rndn(0, 120));
				else if (kind != "alone") a = rnd(rndn(6, 300));
				if (kind == "subkey") b = rnd(rndn(6, 300));
				if (kind == "certuid") b = rnd(rndn(r == 0 ? 0 : 1, 60));
				if (kind == "certuat") b = rnd(rndn(1, 80));
				rec_sighash(kind, v, a, b, hashed, algo);
			}
	// S2K: all hash algorithms x key lengths x salted / iterated; the 256 coded counts are in direction A
	static const size_t SK[] = {16, 24, 32};
	static const int CS[] = {0, 1, 15, 16, 31, 96};
	for (int hi = 0; hi < 9; hi++)
		for (int si = 0; si < 3; si++)
			for (int mode = 0; mode < (thorough ? 7 : 3); mode++) {
				std::string pass; size_t pl = rndn(1, 12); for (size_t k = 0; k < pl; k++) pass.push_back((char)('a' + seam::next64() % 26));
				bool iter = mode > 0; int c = iter ? CS[(mode - 1 + hi + si) % 6] : 0;
				rec_s2k(HASHES[hi], SK[si], pass, rnd(8), iter, c);
			}
	{ std::string longpass(1500, 'x'); rec_s2k(2, 16, longpass, rnd(8), true, 0); }   // count smaller than salt+passphrase
	// KDF of RFC 6637
	for (size_t idx = 0; tmcg_openpgp_oidtable[idx].name != NULL; idx++) {
		const tmcg_openpgp_byte_t *o = tmcg_openpgp_oidtable[idx].oid; octets oid(o, o + 1 + o[0]);
		static const int KH[] = {8, 9, 10}; static const int KS[] = {7, 8, 9};
		rec_kdf(KH[idx % 3], KS[(idx / 3 + idx) % 3], rnd(idx % 2 ? 32 : 66), tmcg_openpgp_oidtable[idx].name, oid, rnd(idx % 2 ? 20 : 32));
	}
	// hashed parts of signatures as prepared by the library (parsed back by the spec)
	static const char *FN[] = {"self", "revoker", "detached", "detachedv5", "revocation", "certification"};
	static const int TY[] = {0x13, 0x1F, 0x00, 0x01, 0x20, 0x10}; static const int TY2[] = {0x18, 0x1F, 0x02, 0x00, 0x28, 0x12};
	static const int PK[] = {17, 1, 19, 22};
	for (int r = 0; r < (thorough ? 24 : 4); r++)
		for (int f = 0; f < 6; f++) {
			std::string fn = FN[f];
			size_t il = (r % 3 == 0) ? 20 : (r % 3 == 1) ? 8 : ((fn == "detached" || fn == "detachedv5") ? 32 : 20);
			if (fn == "detachedv5" && il == 8) il = 20;
			uint32_t t = (uint32_t)seam::next64(); if (r == 1) t |= 0x80000000u;
			uint32_t ex = (r % 2) ? (uint32_t)(seam::next64() % 100000000u) + 1 : 0;
			std::string policy; if (r % 2 == 0) { size_t pl = rndn(1, r == 2 ? 250 : 40); for (size_t k = 0; k < pl; k++) policy.push_back((char)('a' + seam::next64() % 26)); }
			std::string reason; size_t rl = rndn(0, 30); for (size_t k = 0; k < rl; k++) reason.push_back((char)('A' + seam::next64() % 26));
			octets flags = rnd(1 + (r % 2)); octets revoker = (r % 3 == 2) ? octets() : rnd(20);
			static const int RC[] = {0, 1, 2, 3, 32};
			rec_sigprep(fn, (r % 2) ? TY2[f] : TY[f], PK[(r + f) % 4], HASHES[(r + f) % 7], t, ex, rnd(il), policy, flags, revoker, PK[(r + 1) % 4], RC[(r + f) % 5], reason, r % 2 == 0);
		}
	// passphrase-protected secret key and secret subkey packets
	for (int r = 0; r < (thorough ? 8 : 2); r++) {
		std::string pass; size_t pl = rndn(1, 14); for (size_t k = 0; k < pl; k++) pass.push_back((char)('a' + seam::next64() % 26));
		rec_secenc(r % 2 == 1, (r / 2) % 2 ? 16 : 17, r % 2 ? 128 : 96, r % 2 ? 32 : 20, pass);
	}
	out.close();
	printf("{\"e\":\"done\"}\n");
	return 0;
}

int main(int argc, char **argv) {
	if (!init_libTMCG()) { fprintf(stderr, "init_libTMCG failed\n"); return 2; }
	quiet_cerr();
	install_terminate("drv_pgp");
	seam::seed(1);
	if (argc >= 4 && std::string(argv[1]) == "cases") return do_cases(argv[2], argv[3]);
	if (argc >= 5 && std::string(argv[1]) == "record") return do_record(strtoull(argv[2], NULL, 10), argv[3], argv[4]);
	fprintf(stderr, "usage: drv_pgp cases <in> <out> | record <seed> <tier> <out>\n");
	return 2;
}
