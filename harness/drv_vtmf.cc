// drv_vtmf: drives the discrete-log card encoding (BarnettSmartVTMF_dlog + SchindelhauerTMCG with VTMF cards)
// in small Schnorr groups and records one ndjson event per public call: arguments, the coins the library drew
// (seam_rng), the hash-oracle calls it made (hook H1), everything it sent and returned.  spec/VTMFTrace.tla
// recomputes every logged value and verdict.
//   drv_vtmf run <schedules.ndjson> <trace-out.ndjson>
//   drv_vtmf random <seed> <executions> <trace-out.ndjson>
#include "common.hh"
#include <list>
#include <deque>
#include <algorithm>
#include <sys/wait.h>
#include <fcntl.h>
#define private public
#define protected public
#include "libTMCG.hh"
#undef private
#undef protected
#include "mpz_shash.hh"
#include "mpz_helper.hh"

extern void (*tmcg_verif_shash_hook)(const std::string &input, mpz_srcptr output);

static Mpz GP, GQ, GG, GK, GP1;     // current group, p-1
static size_t LQ = 0;                // byte length of a srandomm(q) draw
static size_t LE = 0, EBITS = 0;     // byte length / bits of a shortened-exponent draw (quadratic-residue class), 0 = none
static json hcalls;                 // oracle calls of the current op

static json num(mpz_srcptr v) {     // a transmitted value as the spec sees it
	json n; Mpz a; mpz_abs(a, v);
	n["id"] = mpz2s(v, 16);
	n["sg"] = mpz_sgn(v);
	n["bits"] = (mpz_sgn(v) == 0) ? 0 : (long)mpz_sizeinbase(a, 2);
	Mpz r;
	mpz_mod(r, a, GQ); n["mq"] = r.l();
	mpz_mod(r, a, GP1); n["mo"] = r.l();
	mpz_mod(r, a, GP); n["mp"] = r.l();
	n["sm"] = (mpz_sizeinbase(a, 2) <= 30) ? a.l() : -1;
	return n;
}
static void hook(const std::string &input, mpz_srcptr output) {
	json c; json in = json::array();
	bool plain = false;
	size_t pos = 0;
	// the variadic variants hash hex numbers joined by '|'; anything else is logged as a string
	std::string s = input;
	bool hexlist = !s.empty() && s[s.size() - 1] == '|';
	if (hexlist) for (size_t k = 0; k < s.size(); k++) { char ch = s[k]; if (!(isxdigit(ch) || ch == '|' || ch == '-')) hexlist = false; }
	if (hexlist) {
		while (pos < s.size()) {
			size_t e = s.find('|', pos);
			Mpz v(s.substr(pos, e - pos), 16);
			in.push_back(num(v));
			pos = e + 1;
		}
		c["in"] = in;
	} else {
		c["str"] = s.size() > 60 ? s.substr(0, 60) : s; c["len"] = s.size(); plain = true;
		// a hashed stack (cut-and-choose commitment): log its cards
		std::string t = s; while (!t.empty() && (t[t.size() - 1] == '\n')) t.erase(t.size() - 1);
		TMCG_Stack<VTMF_Card> st;
		if (t.compare(0, 4, "stk^") == 0 && st.import(t)) {
			json a = json::array();
			for (size_t i = 0; i < st.size(); i++) { json cc = json::array(); cc.push_back(mpz2l(st[i].c_1)); cc.push_back(mpz2l(st[i].c_2)); a.push_back(cc); }
			c["stack"] = a;
		}
	}
	(void)plain;
	c["out"] = num(output);
	hcalls.push_back(c);
}
static json coins() {               // the draws of the last call, classified by length
	json cs = json::array();
	std::vector<seam::Draw> &lg = seam::log();
	for (size_t k = 0; k < lg.size(); k++) {
		json c;
		if (lg[k].len == LQ) { Mpz v(lg[k].hex, 16); mpz_mod(v, v, GQ); c["k"] = "q"; c["v"] = v.l(); }
		else if (LE && lg[k].len == LE) { Mpz v(lg[k].hex, 16); mpz_tdiv_r_2exp(v, v, EBITS); c["k"] = "q"; c["v"] = v.l(); c["short"] = true; }
		else if (lg[k].len == 8) {
			unsigned long w = 0; unsigned char b[8];
			for (int i = 0; i < 8; i++) b[i] = (unsigned char)strtoul(lg[k].hex.substr(2 * i, 2).c_str(), NULL, 16);
			memcpy(&w, b, 8);
			c["k"] = "w"; c["v"] = (w < (1UL << 31)) ? (long)w : -1;
		}
		else if (lg[k].len == 1) { c["k"] = "b"; c["v"] = strtoul(lg[k].hex.c_str(), NULL, 16) & 1; }
		else { c["k"] = "x"; c["v"] = (long)lg[k].len; }
		cs.push_back(c);
	}
	seam::clear_log();
	return cs;
}
static void begin_op() { hcalls = json::array(); seam::clear_log(); }

static unsigned long rnd(unsigned long m);
struct Player {
	BarnettSmartVTMF_dlog *vt;
	SchindelhauerTMCG *tm;
	std::vector<Mpz> pub;           // published key message (h_i, c, r)
};
struct World {
	size_t np, w;
	std::vector<Player> pl;
	std::map<long, VTMF_Card> cards;
	std::map<long, VTMF_CardSecret> csec;         // secret of the last mask that produced card id
	std::map<long, std::vector<Mpz> > proofs;     // proof text (numbers) attached to a card id
	std::map<long, size_t> prover;               // who made it
	std::vector<std::set<size_t> > have;          // have[i]: senders whose key share player i has accepted
	std::map<long, TMCG_Stack<VTMF_Card> > stacks;
	std::map<long, TMCG_StackSecret<VTMF_CardSecret> > ssecs;
	std::ofstream *out;
	long nev;
	World(std::ofstream *o): out(o), nev(0) {}
	void emit(json &ev) { ev["h"] = hcalls; (*out) << ev.dump() << "\n"; nev++; }
};

static json card_j(const VTMF_Card &c) { json a = json::array(); a.push_back(mpz2l(c.c_1)); a.push_back(mpz2l(c.c_2)); return a; }
static json cardn_j(const VTMF_Card &c) { json a = json::array(); a.push_back(num(c.c_1)); a.push_back(num(c.c_2)); return a; }
static json stack_j(const TMCG_Stack<VTMF_Card> &s) { json a = json::array(); for (size_t i = 0; i < s.size(); i++) a.push_back(card_j(s[i])); return a; }
static json ssec_j(const TMCG_StackSecret<VTMF_CardSecret> &ss) {
	json a = json::array();
	for (size_t i = 0; i < ss.size(); i++) { json e; e["pi"] = ss[i].first; e["r"] = mpz2l(ss[i].second.r); a.push_back(e); }
	return a;
}
static std::vector<Mpz> parse_nums(const std::string &text) {
	std::vector<Mpz> v; std::istringstream is(text); std::string tok;
	while (is >> tok) { Mpz x; if (mpz_set_str(x, tok.c_str(), TMCG_MPZ_IO_BASE) == 0) v.push_back(x); }
	return v;
}
static std::string print_nums(const std::vector<Mpz> &v) {
	std::ostringstream os;
	for (size_t k = 0; k < v.size(); k++) os << (mpz_srcptr)v[k].v << std::endl;
	return os.str();
}
static json nums_j(const std::vector<Mpz> &v) { json a = json::array(); for (size_t k = 0; k < v.size(); k++) a.push_back(num(v[k])); return a; }

// the mutation catalogue of C05, applied to position `pos` of a list of transmitted numbers
static const char *MUTS[] = {"none", "plus1", "otherres", "zero", "one", "pm1", "p", "q", "plusq", "minusq", "nonmember", "neg", "oversized", "swap", "trunc"};
static const int NMUTS = 15;
static bool mutate(std::vector<Mpz> &v, size_t pos, const std::string &m) {
	if (m == "none") return true;
	if (pos >= v.size()) return false;
	if (m == "plus1") mpz_add_ui(v[pos], v[pos], 1);
	else if (m == "otherres") mpz_add_ui(v[pos], v[pos], 3);
	else if (m == "zero") mpz_set_ui(v[pos], 0);
	else if (m == "one") mpz_set_ui(v[pos], 1);
	else if (m == "pm1") mpz_sub_ui(v[pos], GP, 1);
	else if (m == "p") mpz_set(v[pos], GP);
	else if (m == "q") mpz_set(v[pos], GQ);
	else if (m == "plusq") mpz_add(v[pos], v[pos], GQ);
	else if (m == "minusq") mpz_sub(v[pos], v[pos], GQ);
	else if (m == "nonmember") {   // an element outside the order-q subgroup: the smallest a > 1 with a^q != 1
		Mpz a(2), t;
		for (;;) { mpz_powm(t, a, GQ, GP); if (mpz_cmp_ui(t.v, 1) != 0) break; mpz_add_ui(a, a, 1); }
		mpz_set(v[pos], a);
	}
	else if (m == "neg") mpz_neg(v[pos], v[pos]);
	else if (m == "oversized") { mpz_set_ui(v[pos], 1); mpz_mul_2exp(v[pos], v[pos], 300); mpz_add_ui(v[pos], v[pos], 5); }
	else if (m == "swap") { if (pos + 1 >= v.size()) return false; Mpz t = v[pos]; v[pos] = v[pos + 1]; v[pos + 1] = t; }
	else if (m == "trunc") v.resize(pos);
	else return false;
	return true;
}

static World *start(std::ofstream &out, const json &s) {
	World *w = new World(&out);
	GP = Mpz(s["grp"][0].get<long>()); GQ = Mpz(s["grp"][1].get<long>()); GG = Mpz(s["grp"][2].get<long>()); GK = Mpz(s["grp"][3].get<long>());
	mpz_sub_ui(GP1, GP, 1);
	LQ = (mpz_sizeinbase(GQ, 2) + 64 + 7) / 8;
	w->np = s["np"]; w->w = s["w"];
	// kind of group object: "plain" Schnorr group with a given generator, "canon" the same class with the verifiably
	// derived generator (canonical_g), "qr" the quadratic-residue class with exponents shortened to E bits
	std::string kind = s.contains("kind") ? s["kind"].get<std::string>() : "plain";
	size_t E = s.contains("E") ? s["E"].get<size_t>() : 0;
	LE = (kind == "qr" && E < mpz_sizeinbase(GP, 2)) ? (E + 7) / 8 : 0; EBITS = E;
	std::ostringstream grp; grp << (mpz_srcptr)GP.v << std::endl << (mpz_srcptr)GQ.v << std::endl << (mpz_srcptr)GG.v << std::endl << (mpz_srcptr)GK.v << std::endl;
	for (size_t i = 0; i < w->np; i++) {
		Player p;
		std::istringstream is(grp.str());
		if (kind == "qr") p.vt = new BarnettSmartVTMF_dlog_GroupQR(is, mpz_sizeinbase(GP, 2), E);
		else p.vt = new BarnettSmartVTMF_dlog(is, mpz_sizeinbase(GP, 2), mpz_sizeinbase(GQ, 2), kind == "canon", true);
		p.tm = new SchindelhauerTMCG(4, w->np, w->w);
		w->pl.push_back(p); w->have.push_back(std::set<size_t>());
	}
	if (kind == "qr") GG = Mpz(mpz2l(w->pl[0].vt->g));      // the class shifts the generator itself
	json ev; ev["e"] = "Reset"; ev["np"] = w->np; ev["w"] = w->w;
	ev["grp"] = {GP.l(), GQ.l(), GG.l(), GK.l()}; ev["kind"] = kind; ev["E"] = E;
	begin_op();
	ev["okgrp"] = w->pl[0].vt->CheckGroup(); ev["hbits"] = tmcg_mpz_shash_len() * 8;
	if (s.contains("src")) ev["src"] = s["src"];
	w->emit(ev);
	begin_op();
	return w;
}
static void finish(World *w) {
	for (size_t i = 0; i < w->pl.size(); i++) { delete w->pl[i].tm; delete w->pl[i].vt; }
	delete w;
}
static void script_coins(const json &op) {   // optional dictated coins: "cq":[residues], "cw":[words], "cb":[bits]
	seam::clear_script();
	if (op.contains("coins")) for (size_t k = 0; k < op["coins"].size(); k++) {
		const json &c = op["coins"][k];
		std::string kind = c["k"];
		if (kind == "q") seam::push_be_ui(LQ, c["v"].get<unsigned long>());
		else if (kind == "w") seam::push_native_ul(c["v"].get<unsigned long>());
		else if (kind == "b") seam::push_be_ui(1, c["v"].get<unsigned long>());
	}
}

static void exec_op(World *w, const json &op) {
	std::string o = op["op"];
	size_t i = op.contains("i") ? op["i"].get<size_t>() : 0;
	Player &P = w->pl[i];
	json ev; ev["e"] = o; ev["i"] = i;
	begin_op();
	script_coins(op);
	try {
		if (o == "GenKey") {
			P.vt->KeyGenerationProtocol_GenerateKey();
			ev["coins"] = coins();
			ev["x"] = mpz2l(P.vt->x_i); ev["hi"] = mpz2l(P.vt->h_i); ev["hc"] = mpz2l(P.vt->h);
		} else if (o == "PubKey") {
			std::ostringstream os; P.vt->KeyGenerationProtocol_PublishKey(os);
			ev["coins"] = coins();
			P.pub = parse_nums(os.str());
			ev["msg"] = nums_j(P.pub);
		} else if (o == "UpdKey" || o == "RemKey") {
			size_t from = op["from"];
			// a contribution is added at most once between removals (a second UpdateKey of the same key would multiply
			// the common key twice - outside the protocol, see DESIGN.md C08)
			if (o == "UpdKey" && w->have[i].count(from)) return;
			std::vector<Mpz> m = w->pl[from].pub;
			bool applied;
			if (op.value("mut", std::string("none")) == "forged") {
				// a key outside the group with an arithmetically valid proof: -g^x with an even challenge
				BarnettSmartVTMF_dlog *A = w->pl[from].vt;
				Mpz key, v, t, c, r;
				mpz_sub(key, GP, A->h_i);
				for (int tries = 0; tries < 64; tries++) {
					mpz_set_ui(v, 1 + rnd(mpz_get_ui(GQ) - 1));
					mpz_powm(t, GG, v, GP);
					tmcg_mpz_shash(c, 5, (mpz_srcptr)GP.v, (mpz_srcptr)GQ.v, (mpz_srcptr)GG.v, (mpz_srcptr)key.v, (mpz_srcptr)t.v);
					if (mpz_even_p(c.v)) break;
				}
				mpz_mul(r, c, A->x_i); mpz_sub(r, v, r); mpz_mod(r, r, GQ);
				m.clear(); m.push_back(key); m.push_back(c); m.push_back(r);
				applied = true; hcalls = json::array();
			} else applied = mutate(m, op.value("pos", 0), op.value("mut", std::string("none")));
			ev["from"] = from; ev["mut"] = op.value("mut", std::string("none")); ev["pos"] = op.value("pos", 0); ev["applied"] = applied;
			std::istringstream is(print_nums(m));
			ev["msg"] = nums_j(m);
			bool r = (o == "UpdKey") ? P.vt->KeyGenerationProtocol_UpdateKey(is) : P.vt->KeyGenerationProtocol_RemoveKey(is);
			ev["coins"] = coins();
			if (r && o == "UpdKey") w->have[i].insert(from);
			if (r && o == "RemKey") w->have[i].erase(from);
			ev["res"] = r; ev["hc"] = mpz2l(P.vt->h); ev["nk"] = P.vt->KeyGenerationProtocol_NumberOfKeys();
		} else if (o == "IKey") {
			// interactive (private-coin) proof of knowledge of a key share: prover `from`, verifier i.  The three moves are run
			// one after the other: the challenge is fixed first (it is the verifier's only coin and is dictated to it), the
			// prover runs on a stream that holds it, a man in the middle may change one of the two prover messages or the key
			size_t from = op["from"];
			BarnettSmartVTMF_dlog *A = w->pl[from].vt;
			Mpz c((long)rnd(mpz_get_ui(GQ)));
			if (op.contains("c")) c = Mpz(op["c"].get<long>());
			std::stringstream pin, pout; pin << (mpz_srcptr)c.v << std::endl;
			seam::clear_script();
			bool pr = A->KeyGenerationProtocol_ProveKey_interactive(pin, pout);
			ev["pcoins"] = coins();
			std::vector<Mpz> m = parse_nums(pout.str());
			ev["honest"] = nums_j(m); ev["pres"] = pr; ev["x"] = mpz2l(A->x_i);
			std::string mut = op.value("mut", std::string("none")); int pub = op.value("pub", 0);
			Mpz key = Mpz(mpz2s(A->h_i));
			bool applied = true;
			if (pub == 0) applied = mutate(m, op.value("pos", 0), mut);
			else { std::vector<Mpz> one(1); one[0] = key; applied = mutate(one, 0, mut) && one.size() == 1; if (applied) key = one[0]; }
			ev["from"] = from; ev["mut"] = mut; ev["pos"] = op.value("pos", 0); ev["pub"] = pub; ev["applied"] = applied;
			ev["c"] = c.l(); ev["msg"] = nums_j(m); ev["key"] = num(key);
			std::stringstream vin(print_nums(m)), vout;
			seam::clear_script(); seam::push_be_ui(LQ, mpz_get_ui(c));
			bool r = P.vt->KeyGenerationProtocol_VerifyKey_interactive(key.v, vin, vout);
			ev["coins"] = coins();
			ev["vsent"] = nums_j(parse_nums(vout.str()));
			ev["res"] = r; ev["hc"] = mpz2l(P.vt->h); ev["nk"] = P.vt->KeyGenerationProtocol_NumberOfKeys();
		} else if (o == "Fin") {
			P.vt->KeyGenerationProtocol_Finalize();
			ev["hc"] = mpz2l(P.vt->h);
		} else if (o == "Open") {
			VTMF_Card c; P.tm->TMCG_CreateOpenCard(c, P.vt, op["t"].get<size_t>());
			w->cards[op["dst"]] = c; ev["t"] = op["t"]; ev["dst"] = op["dst"]; ev["card"] = card_j(c); ev["coins"] = coins();
		} else if (o == "Priv") {
			VTMF_Card c; VTMF_CardSecret cs;
			P.tm->TMCG_CreatePrivateCard(c, cs, P.vt, op["t"].get<size_t>());
			ev["coins"] = coins();
			w->cards[op["dst"]] = c; w->csec[op["dst"]] = cs;
			ev["t"] = op["t"]; ev["dst"] = op["dst"]; ev["card"] = card_j(c); ev["r"] = mpz2l(cs.r);
		} else if (o == "Mask") {
			VTMF_Card c; VTMF_CardSecret cs;
			bool tap = op.value("tap", true);
			P.tm->TMCG_CreateCardSecret(cs, P.vt);
			P.tm->TMCG_MaskCard(w->cards[op["src"]], c, cs, P.vt, tap);
			ev["coins"] = coins();
			ev["src"] = op["src"]; ev["dst"] = op["dst"]; ev["in"] = card_j(w->cards[op["src"]]);
			w->cards[op["dst"]] = c; w->csec[op["dst"]] = cs;
			ev["card"] = card_j(c); ev["r"] = mpz2l(cs.r); ev["tap"] = tap;
		} else if (o == "PMask" || o == "PPriv") {   // prove re-masking src -> dst / masking of type t into dst
			std::stringstream in, os; in << "0" << std::endl;
			long dst = op["dst"];
			if (o == "PMask") P.tm->TMCG_ProveMaskCard(w->cards[op["src"]], w->cards[dst], w->csec[dst], P.vt, in, os);
			else { Mpz m; P.vt->IndexElement(m, op["t"].get<size_t>()); P.vt->VerifiableMaskingProtocol_Prove(m, w->cards[dst].c_1, w->cards[dst].c_2, w->csec[dst].r, os); }
			ev["coins"] = coins();
			w->proofs[dst] = parse_nums(os.str()); w->prover[dst] = i;
			ev["dst"] = dst; ev["msg"] = nums_j(w->proofs[dst]); ev["card"] = card_j(w->cards[dst]); ev["r"] = mpz2l(w->csec[dst].r);
			if (o == "PMask") { ev["src"] = op["src"]; ev["in"] = card_j(w->cards[op["src"]]); } else ev["t"] = op["t"];
		} else if (o == "VMask" || o == "VPriv") {
			long dst = op["dst"];
			std::vector<Mpz> m = w->proofs[dst];
			// public inputs may be mutated too: "pub": which input (0 none, 1..4 = src.c1, src.c2, dst.c1, dst.c2 / for VPriv: 1 = type)
			VTMF_Card a = (o == "VMask") ? w->cards[op["src"]] : VTMF_Card(), b = w->cards[dst];
			size_t t = (o == "VPriv") ? op["t"].get<size_t>() : 0;
			std::string mut = op.value("mut", std::string("none"));
			int pub = op.value("pub", 0);
			bool applied = true;
			if (pub == 0) applied = mutate(m, op.value("pos", 0), mut);
			else {
				std::vector<Mpz> one(1);
				mpz_ptr target = (pub == 1) ? a.c_1 : (pub == 2) ? a.c_2 : (pub == 3) ? b.c_1 : b.c_2;
				if (o == "VPriv" && pub == 1) { t = (t + 1) % ((size_t)1 << w->w); }
				else { one[0] = Mpz(mpz2s(target)); applied = mutate(one, 0, mut) && one.size() == 1; if (applied) mpz_set(target, one[0]); }
			}
			std::stringstream in(print_nums(m)), os;
			ev["dst"] = dst; ev["msg"] = nums_j(m); ev["mut"] = mut; ev["pub"] = pub; ev["pos"] = op.value("pos", 0); ev["applied"] = applied;
			ev["card"] = cardn_j(b); ev["by"] = w->prover[dst];
			if (o == "VMask") ev["in"] = cardn_j(a); else ev["t"] = t;
			bool r;
			if (o == "VMask") r = P.tm->TMCG_VerifyMaskCard(a, b, P.vt, in, os);
			else { Mpz mm; P.vt->IndexElement(mm, t); r = P.vt->VerifiableMaskingProtocol_Verify(mm, b.c_1, b.c_2, in); }
			ev["coins"] = coins();
			ev["res"] = r;
		} else if (o == "Self") {
			P.tm->TMCG_SelfCardSecret(w->cards[op["card"]], P.vt);
			ev["coins"] = coins(); ev["card"] = card_j(w->cards[op["card"]]); ev["d"] = mpz2l(P.vt->d);
		} else if (o == "PSec") {
			std::stringstream in, os; in << "0" << std::endl;
			long cid = op["card"];
			P.tm->TMCG_ProveCardSecret(w->cards[cid], P.vt, in, os);
			ev["coins"] = coins();
			w->proofs[1000000 + 1000 * (long)i + cid] = parse_nums(os.str());
			ev["cid"] = cid; ev["card"] = card_j(w->cards[cid]); ev["msg"] = nums_j(w->proofs[1000000 + 1000 * (long)i + cid]);
		} else if (o == "VSec") {
			long cid = op["card"]; size_t from = op["from"];
			std::vector<Mpz> m = w->proofs[1000000 + 1000 * (long)from + cid];
			std::string mut = op.value("mut", std::string("none"));
			int pub = op.value("pub", 0);
			VTMF_Card c = w->cards[cid];
			bool applied = true;
			if (mut == "forged") {
				// a share outside the group with an arithmetically valid proof: -(c_1^x) with an even challenge
				BarnettSmartVTMF_dlog *A = w->pl[from].vt;
				Mpz d, om, a, b, cc, rr;
				mpz_powm(d, c.c_1, A->x_i, GP); mpz_sub(d, GP, d);
				for (int tries = 0; tries < 64; tries++) {
					mpz_set_ui(om, 1 + rnd(mpz_get_ui(GQ) - 1));
					mpz_powm(a, c.c_1, om, GP); mpz_powm(b, GG, om, GP);
					tmcg_mpz_shash(cc, 10, (mpz_srcptr)GP.v, (mpz_srcptr)GQ.v, (mpz_srcptr)GG.v, (mpz_srcptr)A->h, (mpz_srcptr)a.v, (mpz_srcptr)b.v,
						(mpz_srcptr)d.v, (mpz_srcptr)A->h_i, (mpz_srcptr)c.c_1, (mpz_srcptr)GG.v);
					if (mpz_even_p(cc.v)) break;
				}
				mpz_mul(rr, cc, A->x_i); mpz_sub(rr, om, rr); mpz_mod(rr, rr, GQ);
				m.clear(); m.push_back(d); m.push_back(Mpz(mpz2s(A->h_i_fp))); m.push_back(cc); m.push_back(rr);
				hcalls = json::array();
			}
			else if (pub == 0) applied = mutate(m, op.value("pos", 0), mut);
			else { std::vector<Mpz> one(1); one[0] = Mpz(mpz2s(c.c_1)); applied = mutate(one, 0, mut) && one.size() == 1; if (applied) mpz_set(c.c_1, one[0]); }
			std::stringstream in(print_nums(m)), os;
			ev["from"] = from; ev["cid"] = cid; ev["card"] = cardn_j(c); ev["msg"] = nums_j(m);
			ev["mut"] = mut; ev["pub"] = pub; ev["pos"] = op.value("pos", 0); ev["applied"] = applied;
			bool r = P.tm->TMCG_VerifyCardSecret(c, P.vt, in, os);
			ev["coins"] = coins();
			ev["res"] = r; ev["d"] = mpz2l(P.vt->d);
		} else if (o == "Type") {
			size_t t = P.tm->TMCG_TypeOfCard(w->cards[op["card"]], P.vt);
			ev["coins"] = coins(); ev["card"] = card_j(w->cards[op["card"]]); ev["res"] = t; ev["d"] = mpz2l(P.vt->d);
		} else if (o == "Stack") {       // build a stack from cards
			TMCG_Stack<VTMF_Card> s;
			for (size_t k = 0; k < op["cards"].size(); k++) s.push(w->cards[op["cards"][k]]);
			w->stacks[op["dst"]] = s; ev["dst"] = op["dst"]; ev["stack"] = stack_j(s);
		} else if (o == "SSec") {
			TMCG_StackSecret<VTMF_CardSecret> ss;
			size_t n = op["n"]; bool cyc = op["cyclic"];
			size_t r = P.tm->TMCG_CreateStackSecret(ss, cyc, n, P.vt);
			ev["coins"] = coins();
			w->ssecs[op["dst"]] = ss; ev["dst"] = op["dst"]; ev["n"] = n; ev["cyclic"] = cyc; ev["ret"] = r; ev["ss"] = ssec_j(ss);
		} else if (o == "Mix") {
			TMCG_Stack<VTMF_Card> s2; bool tap = op.value("tap", true);
			P.tm->TMCG_MixStack(w->stacks[op["src"]], s2, w->ssecs[op["ss"]], P.vt, tap);
			ev["coins"] = coins();
			w->stacks[op["dst"]] = s2;
			ev["src"] = op["src"]; ev["dst"] = op["dst"]; ev["in"] = stack_j(w->stacks[op["src"]]); ev["ss"] = ssec_j(w->ssecs[op["ss"]]); ev["out"] = stack_j(s2); ev["tap"] = tap;
		} else if (o == "Glue") {       // compose: pi := glue(sigma, pi) as the cut-and-choose prover does
			TMCG_StackSecret<VTMF_CardSecret> pi = w->ssecs[op["pi"]];
			ev["sigma"] = ssec_j(w->ssecs[op["sigma"]]); ev["pi"] = ssec_j(pi);
			P.tm->TMCG_GlueStackSecret(w->ssecs[op["sigma"]], pi, P.vt);
			w->ssecs[op["dst"]] = pi; ev["dst"] = op["dst"]; ev["out"] = ssec_j(pi); ev["coins"] = coins();
		} else if (o == "TypeAll") {    // open every card of a stack with all secret keys (ghost oracle for C02: which type sits where)
			ev["stack"] = stack_j(w->stacks[op["src"]]);
		} else if (o == "Subst") {      // replace one card of a stack (to obtain a false statement)
			TMCG_Stack<VTMF_Card> s2;
			const TMCG_Stack<VTMF_Card> &src = w->stacks[op["src"]];
			for (size_t k = 0; k < src.size(); k++) { if (k == op["pos"].get<size_t>()) s2.push(w->cards[op["card"]]); else s2.push(src[k]); }
			w->stacks[op["dst"]] = s2; ev["dst"] = op["dst"]; ev["stack"] = stack_j(s2);
		} else if (o == "ImportSS") {   // import a stack secret with a given index vector
			std::ostringstream os; os << "sts^" << op["pi"].size() << "^";
			for (size_t k = 0; k < op["pi"].size(); k++) { VTMF_CardSecret cs; mpz_set_ui(cs.r, 2 + k); os << op["pi"][k].get<long>() << "^" << cs << "^"; }
			TMCG_StackSecret<VTMF_CardSecret> ss;
			bool r = ss.import(os.str());
			ev["pi"] = op["pi"]; ev["res"] = r; ev["coins"] = coins();
		} else if (o == "CC") {         // cut-and-choose shuffle proof: prover i, verifier j
			size_t j = op["j"]; unsigned long kappa = op["kappa"]; bool cyc = op["cyclic"];
			std::string mode = op.value("mode", std::string("honest"));
			const TMCG_Stack<VTMF_Card> &s = w->stacks[op["s"]], &s2 = w->stacks[op["s2"]];
			json bits = op["bits"];
			size_t n = s.size();
			std::string ptext;
			if (mode == "guess") {        // a prover without a fitting secret prepares round r for the guessed challenge
				std::ostringstream os;
				for (unsigned long r = 0; r < kappa; r++) {
					TMCG_StackSecret<VTMF_CardSecret> ssr; TMCG_Stack<VTMF_Card> s3;
					for (size_t k = 0; k + 1 < (cyc ? 2 : n); k++) seam::push_native_ul(rnd(1UL << 31));
					P.tm->TMCG_CreateStackSecret(ssr, cyc, n, P.vt);
					P.tm->TMCG_MixStack((op["guess"][r].get<int>() & 1) ? s2 : s, s3, ssr, P.vt);
					std::ostringstream ost; ost << s3 << std::endl;
					Mpz com; tmcg_mpz_shash(com, ost.str());
					os << (mpz_srcptr)com.v << std::endl << ssr << std::endl;
				}
				ptext = os.str();
			} else {
				std::ostringstream pin; pin << kappa << std::endl;
				for (unsigned long r = 0; r < kappa; r++) pin << bits[r].get<int>() << std::endl;
				for (unsigned long r = 0; r < kappa; r++) for (size_t k = 0; k + 1 < (cyc ? 2 : n); k++) seam::push_native_ul(rnd(1UL << 31));
				std::istringstream in(pin.str()); std::ostringstream os;
				P.tm->TMCG_ProveStackEquality(s, s2, w->ssecs[op["ss"]], cyc, P.vt, in, os);
				ptext = os.str();
			}
			seam::clear_script();
			ev["hp"] = hcalls; hcalls = json::array();
			json pc = coins(); (void)pc;
			// the transcript: per round a commitment line and a stack secret line
			std::vector<std::string> lines; { std::istringstream ls(ptext); std::string ln; while (std::getline(ls, ln)) lines.push_back(ln); }
			if (mode == "badsize" && lines.size() >= 2) {   // answer round 1 with a stack secret of another size
				TMCG_StackSecret<VTMF_CardSecret> ss0, ss1; ss0.import(lines[1]);
				size_t drop = op.value("grow", false) ? n + 1 : n - 1;
				for (size_t k = 0; k < ss0.size(); k++) if (ss0[k].first < drop) ss1.push(ss0[k].first, ss0[k].second);
				if (drop > n) { VTMF_CardSecret cs; mpz_set_ui(cs.r, 2); ss1.push(n, cs); }
				std::ostringstream o1; o1 << ss1; lines[1] = o1.str();
			}
			json rounds = json::array();
			for (size_t r = 0; 2 * r + 1 < lines.size(); r++) {
				json rd; Mpz com; mpz_set_str(com, lines[2 * r].c_str(), TMCG_MPZ_IO_BASE);
				rd["com"] = num(com);
				TMCG_StackSecret<VTMF_CardSecret> ssr;
				if (ssr.import(lines[2 * r + 1])) rd["rev"] = ssec_j(ssr); else rd["rev"] = json::array();
				rounds.push_back(rd);
			}
			std::string vin; for (size_t k = 0; k < lines.size(); k++) vin += lines[k] + "\n";
			ev["j"] = j; ev["kappa"] = kappa; ev["cyclic"] = cyc; ev["mode"] = mode; ev["bits"] = bits;
			if (op.contains("guess")) ev["guess"] = op["guess"];
			ev["s"] = stack_j(s); ev["s2"] = stack_j(s2); ev["rounds"] = rounds;
			if (op.contains("ss") && w->ssecs.count(op["ss"])) ev["ss"] = ssec_j(w->ssecs[op["ss"]]);
			// the verifier runs in a child process: a crash must be observed, not suffered
			int pfd[2]; if (pipe(pfd) != 0) throw std::runtime_error("pipe");
			fflush(stdout); w->out->flush();
			pid_t pid = fork();
			if (pid == 0) {
				close(pfd[0]);
				{ int dn = open("/dev/null", O_WRONLY); if (dn >= 0) { dup2(dn, 2); close(dn); } }   // assert() messages
				json res;
				try {
					for (unsigned long r = 0; r < kappa; r++) seam::push_be_ui(1, (unsigned long)(bits[r].get<int>() & 1));
					SchindelhauerTMCG tv(kappa, w->np, w->w);
					std::istringstream in(vin); std::ostringstream vo;
					hcalls = json::array();
					bool ok = tv.TMCG_VerifyStackEquality(s, s2, cyc, w->pl[j].vt, in, vo);
					res["res"] = ok; res["h"] = hcalls;
					json vout = json::array(); { std::istringstream vs(vo.str()); std::string ln; bool first = true; while (std::getline(vs, ln)) { if (first) { vout.push_back(strtol(ln.c_str(), NULL, 10)); first = false; continue; }   /* the security parameter is written as a decimal number */ Mpz x; mpz_set_str(x, ln.c_str(), TMCG_MPZ_IO_BASE); vout.push_back(x.l()); } }
					res["vout"] = vout;
				} catch (std::exception &ex) { res["exc"] = ex.what(); }
				std::string d = res.dump();
				ssize_t wr = write(pfd[1], d.data(), d.size()); (void)wr;
				close(pfd[1]); _exit(0);
			}
			close(pfd[1]);
			std::string got; char buf[65536]; ssize_t k;
			while ((k = read(pfd[0], buf, sizeof(buf))) > 0) got.append(buf, (size_t)k);
			close(pfd[0]);
			int status = 0; waitpid(pid, &status, 0);
			hcalls = json::array();
			if (WIFSIGNALED(status)) ev["crash"] = std::string("signal ") + std::to_string(WTERMSIG(status));
			else if (got.empty()) ev["crash"] = "no result";
			else {
				json res = json::parse(got);
				if (res.contains("exc")) ev["exc"] = res["exc"];
				else { ev["res"] = res["res"]; ev["vout"] = res["vout"]; hcalls = res["h"]; }
			}
		} else {
			ev["unknown"] = true;
		}
	} catch (std::exception &ex) { ev["exc"] = ex.what(); ev["coins"] = coins(); ev["hc"] = mpz2l(P.vt->h); ev["nk"] = P.vt->KeyGenerationProtocol_NumberOfKeys(); ev["d"] = mpz2l(P.vt->d); }
	seam::clear_script();
	w->emit(ev);
}

// ---------------------------------------------------------------------------------------------------
static unsigned long rnd(unsigned long m) { return m ? (unsigned long)(seam::next64() % m) : 0; }
static const long GROUPS[][4] = { {23, 11, 2, 2}, {47, 23, 2, 2}, {67, 11, 3, 6}, {89, 11, 2, 8}, {2063, 1031, 2, 2}, {46199, 23099, 2, 2}, {46327, 1103, 2, 42} };

static long small_gen(long p, long q, long k) {   // a generator of the order-q subgroup
	for (long b = 2; b < p; b++) {
		Mpz g, B(b), P(p); mpz_powm_ui(g, B, (unsigned long)k, P);
		if (mpz_cmp_ui(g.v, 1) != 0 && mpz_cmp_ui(g.v, (unsigned long)(p - 1)) != 0) return g.l();
	}
	return 0;
}

struct Focus { size_t maxnp, keymut, keychurn, maxcards, maxchain, proofs, muts, stacks, maxn, maxrounds; };
static Focus focus_of(const std::string &f) {
	//                 np keymut churn cards chain proofs muts stacks maxn rounds      (percentages / maxima)
	if (f == "c01") return {4, 10, 10, 4, 8, 20, 1, 20, 4, 2};
	if (f == "c02") return {3, 0, 0, 1, 1, 0, 0, 100, 10, 4};
	if (f == "c03") return {4, 0, 10, 3, 4, 100, 0, 50, 5, 2};
	if (f == "c05") return {3, 80, 10, 3, 3, 100, 4, 10, 3, 1};
	if (f == "c08") return {5, 70, 60, 1, 1, 10, 1, 0, 2, 1};
	return {4, 50, 20, 3, 4, 50, 1, 60, 6, 3};
}
static std::string FOCUS = "all";

static json random_schedule(unsigned long seed, long x) {
	seam::seed_harness(seed * 1000003UL + x);
	Focus F = focus_of(FOCUS);
	json s;
	size_t gi = rnd(7);
	long p = GROUPS[gi][0], q = GROUPS[gi][1], k = GROUPS[gi][3];
	long g = small_gen(p, q, k);
	if (gi == 0) g = 2;
	// one execution in four runs in another admissible kind of group (C01: "Schnorr group with random or canonical
	// generator, quadratic-residue group with shortened exponents")
	size_t kindsel = rnd(8);
	if (kindsel == 0) {
		// quadratic-residue class: p = 2q + 1, p = 7 mod 8, exponents of E bits (E < |p|: shortened; E = |p|: full size)
		static const long QRP[] = {719, 863, 1439, 2039, 2063, 4079, 8447, 16487, 32843, 44687, 46199};
		for (;;) { p = QRP[rnd(11)]; Mpz P(p); if (mpz_probab_prime_p(P, 20) && p % 8 == 7) { Mpz Q((p - 1) / 2); if (mpz_probab_prime_p(Q, 20)) break; } }
		q = (p - 1) / 2; k = 2; g = 2;
		size_t pb = 0; for (long t = p; t; t >>= 1) pb++;
		size_t E = 9 + rnd(pb - 8);              // 9..|p| (at least 9 bits: a shortened draw is two octets long)
		s["kind"] = "qr"; s["E"] = E;
	} else if (kindsel == 1) {
		// the verifiably derived generator (canonical_g): candidates H(U)^k with U = "LibTMCG|p|q|ggen|" extended by every
		// candidate tried, as the generating constructor does (that constructor itself is not used here: its prime search
		// need not terminate for sizes this small); the specification re-derives g from the oracle calls CheckGroup makes
		{
			Mpz P(p), Q(q), K(k), P1(p - 1), bar, G, t;
			std::stringstream U; U << "LibTMCG|" << (mpz_srcptr)P.v << "|" << (mpz_srcptr)Q.v << "|ggen|";
			void (*saved)(const std::string &, mpz_srcptr) = tmcg_verif_shash_hook; tmcg_verif_shash_hook = 0;
			do {
				tmcg_mpz_shash(bar, U.str());
				mpz_powm(G, bar, K, P);
				U << (mpz_srcptr)G.v << "|";
				mpz_powm(t, G, Q, P);
			} while (!mpz_cmp_ui(G.v, 0L) || !mpz_cmp_ui(G.v, 1L) || !mpz_cmp(G, P1) || mpz_cmp_ui(t.v, 1L));
			tmcg_verif_shash_hook = saved;
			g = G.l();
		}
		s["kind"] = "canon";
	}
	s["grp"] = {p, q, g, k};
	size_t np = 1 + rnd(F.maxnp);
	size_t wmax = 1; while (((size_t)1 << (wmax + 1)) <= (size_t)q && wmax < 4) wmax++;
	size_t w = 1 + rnd(wmax);
	// now and then the full type width (TMCG_MAX_TYPEBITS = 10) in a group that has room for 2^10 types
	bool wide = (FOCUS == "c01") && (q >= 2048) && (rnd(12) == 0);
	if (wide) w = 10;
	s["np"] = np; s["w"] = w;
	json ops = json::array();
	auto add = [&](json o) { ops.push_back(o); };
	for (size_t i = 0; i < np; i++) { add({{"op", "GenKey"}, {"i", i}}); add({{"op", "PubKey"}, {"i", i}}); }
	// key exchange: every order, malformed contributions, remove / re-add
	for (size_t i = 0; i < np; i++) {
		std::vector<size_t> others; for (size_t j = 0; j < np; j++) if (j != i) others.push_back(j);
		for (size_t a = 0; a + 1 < others.size(); a++) { size_t b = a + rnd(others.size() - a); std::swap(others[a], others[b]); }
		for (size_t a = 0; a < others.size(); a++) {
			size_t j = others[a];
			if (rnd(100) < F.keymut / 2) add({{"op", "UpdKey"}, {"i", i}, {"from", j}, {"mut", "forged"}});
			for (size_t rep = 0; rep < 3; rep++) if (rnd(100) < F.keymut) add({{"op", "UpdKey"}, {"i", i}, {"from", j}, {"mut", MUTS[1 + rnd(NMUTS - 1)]}, {"pos", rnd(3)}});
			if (rnd(100) < F.keychurn / 2) add({{"op", "RemKey"}, {"i", i}, {"from", j}});
			add({{"op", "UpdKey"}, {"i", i}, {"from", j}});
			if (rnd(100) < F.keychurn) { add({{"op", "RemKey"}, {"i", i}, {"from", j}}); if (rnd(3) == 0) add({{"op", "RemKey"}, {"i", i}, {"from", j}}); add({{"op", "UpdKey"}, {"i", i}, {"from", j}}); }
		}
		add({{"op", "Fin"}, {"i", i}});
	}
	// interactive proofs of knowledge of the key shares: honest, one prover message changed by a man in the middle, another key
	if (np >= 2 && (FOCUS == "c03" || FOCUS == "c05" || FOCUS == "c08" || FOCUS == "all" || rnd(4) == 0)) {
		size_t reps = 1 + rnd(3);
		for (size_t rp = 0; rp < reps; rp++) {
			size_t i = rnd(np), j = (i + 1 + rnd(np - 1)) % np;
			add({{"op", "IKey"}, {"i", i}, {"from", j}});
			if (rnd(8) == 0) add({{"op", "IKey"}, {"i", i}, {"from", j}, {"c", (long)rnd(2)}});
			for (size_t m = 0; m < F.muts + (F.keymut > 0 ? 1 : 0); m++) {
				add({{"op", "IKey"}, {"i", i}, {"from", j}, {"mut", MUTS[1 + rnd(NMUTS - 1)]}, {"pos", rnd(2)}});
				if (rnd(2)) add({{"op", "IKey"}, {"i", i}, {"from", j}, {"mut", "plusq"}, {"pos", 1}});
				if (rnd(2)) add({{"op", "IKey"}, {"i", i}, {"from", j}, {"mut", MUTS[1 + rnd(NMUTS - 2)]}, {"pub", 1}});
			}
		}
	}
	// cards: create, mask chains, proofs, open
	long cid = 0;
	size_t ncards = wide ? 1 : 1 + rnd(F.maxcards);
	size_t T = (size_t)1 << w;
	std::vector<long> tops;
	for (size_t c = 0; c < ncards; c++) {
		size_t t = wide ? (rnd(2) ? 512 + rnd(512) : rnd(T)) : rnd(T); size_t creator = rnd(np);
		long cur = cid++;
		if (rnd(2)) add({{"op", "Open"}, {"i", creator}, {"t", t}, {"dst", cur}});
		else {
			add({{"op", "Priv"}, {"i", creator}, {"t", t}, {"dst", cur}});
			add({{"op", "PPriv"}, {"i", creator}, {"t", t}, {"dst", cur}});
			size_t v = rnd(np);
			add({{"op", "VPriv"}, {"i", v}, {"t", t}, {"dst", cur}});
			for (size_t m = 0; m < F.muts; m++) {
				add({{"op", "VPriv"}, {"i", v}, {"t", t}, {"dst", cur}, {"mut", MUTS[1 + rnd(NMUTS - 1)]}, {"pos", rnd(2)}});
				add({{"op", "VPriv"}, {"i", v}, {"t", t}, {"dst", cur}, {"mut", MUTS[1 + rnd(NMUTS - 2)]}, {"pub", 1 + rnd(4)}});
			}
		}
		size_t chain = wide ? rnd(2) : rnd(F.maxchain + 1);
		for (size_t m = 0; m < chain; m++) {
			size_t who = rnd(np); long nxt = cid++;
			add({{"op", "Mask"}, {"i", who}, {"src", cur}, {"dst", nxt}, {"tap", rnd(2) == 0}});
			if (rnd(100) < F.proofs) {
				add({{"op", "PMask"}, {"i", who}, {"src", cur}, {"dst", nxt}});
				size_t v = rnd(np);
				add({{"op", "VMask"}, {"i", v}, {"src", cur}, {"dst", nxt}});
				for (size_t m = 0; m < F.muts; m++) {
					add({{"op", "VMask"}, {"i", v}, {"src", cur}, {"dst", nxt}, {"mut", MUTS[1 + rnd(NMUTS - 1)]}, {"pos", rnd(2)}});
					add({{"op", "VMask"}, {"i", v}, {"src", cur}, {"dst", nxt}, {"mut", MUTS[1 + rnd(NMUTS - 2)]}, {"pub", 1 + rnd(4)}});
				}
			}
			cur = nxt;
		}
		tops.push_back(cur);
		// opening by one observer: own share, then the others' (verified) shares in random order; sometimes one is missing
		size_t obs = rnd(np);
		add({{"op", "Self"}, {"i", obs}, {"card", cur}});
		bool drop = rnd(4) == 0;
		for (size_t j = 0; j < np; j++) if (j != obs) {
			add({{"op", "PSec"}, {"i", j}, {"card", cur}});
			if (F.muts > 0 && rnd(3) == 0) add({{"op", "VSec"}, {"i", obs}, {"from", j}, {"card", cur}, {"mut", "forged"}});
			for (size_t m = 0; m < F.muts; m++) {
				if (rnd(2) == 0) add({{"op", "VSec"}, {"i", obs}, {"from", j}, {"card", cur}, {"mut", MUTS[1 + rnd(NMUTS - 1)]}, {"pos", rnd(4)}});
				if (rnd(4) == 0) add({{"op", "VSec"}, {"i", obs}, {"from", j}, {"card", cur}, {"mut", MUTS[1 + rnd(NMUTS - 2)]}, {"pub", 1}});
			}
			if (drop && j == (obs + 1) % np) continue;
			add({{"op", "VSec"}, {"i", obs}, {"from", j}, {"card", cur}});
		}
		add({{"op", "Type"}, {"i", obs}, {"card", cur}});
	}
	// stacks: shuffle chains
	if (rnd(100) < F.stacks) {
		size_t n = 1 + rnd(F.maxn);
		json cs = json::array();
		for (size_t c = 0; c < n; c++) { long cur = cid++; add({{"op", "Open"}, {"i", rnd(np)}, {"t", rnd(T)}, {"dst", cur}}); cs.push_back(cur); }
		add({{"op", "Stack"}, {"dst", 0}, {"cards", cs}});
		long sid = 0;
		size_t rounds = 1 + rnd(F.maxrounds);
		for (size_t r = 0; r < rounds; r++) {
			size_t who = rnd(np); bool cyc = (n >= 2) && rnd(3) == 0;
			json coins = json::array();
			if (cyc) coins.push_back({{"k", "w"}, {"v", rnd(1UL << 31)}});
			else for (size_t k = 0; k + 1 < n; k++) coins.push_back({{"k", "w"}, {"v", rnd(1UL << 31)}});
			add({{"op", "SSec"}, {"i", who}, {"n", n}, {"cyclic", cyc}, {"dst", sid + 1}, {"coins", coins}});
			add({{"op", "Mix"}, {"i", who}, {"src", sid}, {"ss", sid + 1}, {"dst", sid + 1}, {"tap", rnd(2) == 0}});
			if (r > 0 && rnd(2)) add({{"op", "Glue"}, {"i", who}, {"sigma", sid}, {"pi", sid + 1}, {"dst", 100 + sid}});
			if (rnd(100) < F.proofs) {
				// cut-and-choose proof of the shuffle just made: honest, with a wrong-sized answer, and a guessing prover
				// (now and then a security parameter beyond a machine word: every one of the kappa challenge bits counts)
				unsigned long kappa = (F.muts > 0 && n <= 3 && rnd(8) == 0) ? 60 + rnd(21) : rnd(5);
				json bits = json::array(); for (unsigned long b = 0; b < kappa; b++) bits.push_back(rnd(2));
				size_t v = rnd(np);
				add({{"op", "CC"}, {"i", who}, {"j", v}, {"s", sid}, {"s2", sid + 1}, {"ss", sid + 1}, {"cyclic", cyc}, {"kappa", kappa}, {"bits", bits}});
				if (kappa > 0 && n >= 2 && F.muts > 0) add({{"op", "CC"}, {"i", who}, {"j", v}, {"s", sid}, {"s2", sid + 1}, {"ss", sid + 1}, {"cyclic", cyc}, {"kappa", kappa}, {"bits", bits}, {"mode", "badsize"}, {"grow", rnd(2) == 0}});
				// a permutation that was not made as a rotation presented to the rotation variant of the proof (the prover runs the
				// protocol with it): the verifier has to find a non-rotation in every round, whatever the challenge
				if (kappa > 0 && !cyc && n >= 3 && F.muts > 0) add({{"op", "CC"}, {"i", who}, {"j", v}, {"s", sid}, {"s2", sid + 1}, {"ss", sid + 1}, {"cyclic", true}, {"kappa", kappa}, {"bits", bits}, {"mode", "claimcyclic"}});
				if (kappa > 0 && F.muts > 0) {
					// false statement: one card of the output replaced by a fresh card of another type
					long fc = cid++;
					add({{"op", "Priv"}, {"i", who}, {"t", rnd(T)}, {"dst", fc}});
					add({{"op", "Subst"}, {"src", sid + 1}, {"dst", 200 + sid}, {"pos", rnd(n)}, {"card", fc}});
					json guess = json::array(); for (unsigned long b = 0; b < kappa; b++) guess.push_back(rnd(2));
					add({{"op", "CC"}, {"i", who}, {"j", v}, {"s", sid}, {"s2", 200 + sid}, {"cyclic", cyc}, {"kappa", kappa}, {"bits", guess}, {"guess", guess}, {"mode", "guess"}});
					add({{"op", "CC"}, {"i", who}, {"j", v}, {"s", sid}, {"s2", 200 + sid}, {"cyclic", cyc}, {"kappa", kappa}, {"bits", bits}, {"guess", guess}, {"mode", "guess"}});
					// the verifier's coins differ from the guessed string in exactly one position (any of the kappa)
					json near = guess; { size_t fp = rnd(kappa); near[fp] = 1 - near[fp].get<int>(); }
					add({{"op", "CC"}, {"i", who}, {"j", v}, {"s", sid}, {"s2", 200 + sid}, {"cyclic", cyc}, {"kappa", kappa}, {"bits", near}, {"guess", guess}, {"mode", "guess"}});
				}
			}
			sid++;
		}
	}
	if (FOCUS == "c02" && x == 0) {        // every index vector of length n over 0..n-1 for n <= 4
		for (size_t n = 1; n <= 4; n++) {
			size_t total = 1; for (size_t k = 0; k < n; k++) total *= n;
			for (size_t code = 0; code < total; code++) {
				json pi = json::array(); size_t c = code;
				for (size_t k = 0; k < n; k++) { pi.push_back(c % n); c /= n; }
				add({{"op", "ImportSS"}, {"pi", pi}});
			}
		}
	}
	if (FOCUS == "c02" || FOCUS == "all") {
		for (int rep = 0; rep < 6; rep++) {
			size_t n = 1 + rnd(5); json pi = json::array();
			if (rnd(2)) { std::vector<size_t> v; for (size_t k = 0; k < n; k++) v.push_back(k); for (size_t a = 0; a + 1 < n; a++) std::swap(v[a], v[a + rnd(n - a)]); for (size_t k = 0; k < n; k++) pi.push_back(v[k]); if (rnd(3) == 0 && n > 1) pi[rnd(n)] = pi[rnd(n)]; }
			else for (size_t k = 0; k < n; k++) pi.push_back(rnd(n + (rnd(8) == 0 ? 1 : 0)));
			add({{"op", "ImportSS"}, {"pi", pi}});
		}
	}
	s["ops"] = ops;
	return s;
}

static long run_one(std::ofstream &out, const json &s) {
	World *w = start(out, s);
	for (size_t k = 0; k < s["ops"].size(); k++) exec_op(w, s["ops"][k]);
	long n = w->nev;
	finish(w);
	return n;
}

int main(int argc, char **argv) {
	install_terminate("drv_vtmf");
	quiet_cerr();
	if (!init_libTMCG()) { fprintf(stderr, "init_libTMCG failed\n"); return 2; }
	tmcg_verif_shash_hook = hook;
	seam::record(true);
	seam::seed(1);
	if (argc >= 4 && !strcmp(argv[1], "run")) {
		std::vector<json> sch = read_ndjson(argv[2]);
		std::ofstream out(argv[3]); long total = 0;
		for (size_t k = 0; k < sch.size(); k++) { seam::seed(1000 + k); total += run_one(out, sch[k]); }
		printf("{\"executions\":%zu,\"events\":%ld}\n", sch.size(), total);
		return 0;
	}
	if (argc >= 5 && !strcmp(argv[1], "random")) {
		unsigned long seed = strtoul(argv[2], NULL, 10); long execs = atol(argv[3]);
		if (argc > 5) FOCUS = argv[5];
		std::ofstream out(argv[4]); long total = 0;
		for (long x = 0; x < execs; x++) {
			json s = random_schedule(seed, x);
			s["src"] = {{"seed", seed}, {"k", x}};
			seam::seed(seed * 7919UL + x);
			total += run_one(out, s);
		}
		printf("{\"executions\":%ld,\"events\":%ld}\n", execs, total);
		return 0;
	}
	fprintf(stderr, "usage: drv_vtmf run <schedules> <trace> | random <seed> <execs> <trace>\n");
	return 2;
}
