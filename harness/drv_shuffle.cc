// drv_shuffle: Groth's shuffle argument (GrothVSSHE) and the rotation argument of de Hoogh et al.
// (HooghSchoenmakersSkoricVillegasVRHE) through the card-level entry points of SchindelhauerTMCG, interactive
// (public-coin, prover and verifier in two threads connected by in-memory pipes, optionally through a relaying
// man in the middle) and non-interactive.  Executes the cases enumerated by spec/Shuffle.tla and reports verdicts.
//   drv_shuffle run <cases.ndjson> <out.ndjson>
#include "common.hh"
#include <list>
#include <deque>
#include <algorithm>
#include <thread>
#include <mutex>
#include <condition_variable>
#define private public
#define protected public
#include "libTMCG.hh"
#undef private
#undef protected
#include "mpz_helper.hh"

// ---- a blocking in-memory byte pipe with iostream interface
struct Pipe {
	std::mutex mu; std::condition_variable cv; std::deque<char> q; bool closed = false;
	void put(const char *s, size_t n) { std::lock_guard<std::mutex> lk(mu); q.insert(q.end(), s, s + n); cv.notify_all(); }
	void close() { std::lock_guard<std::mutex> lk(mu); closed = true; cv.notify_all(); }
	int get() {   // one char or EOF
		std::unique_lock<std::mutex> lk(mu);
		if (!cv.wait_for(lk, std::chrono::seconds(60), [&] { return !q.empty() || closed; })) return EOF;   // a stuck peer ends as EOF
		if (q.empty()) return EOF;
		char c = q.front(); q.pop_front(); return (unsigned char)c;
	}
};
class PipeBuf : public std::streambuf {
	public:
		Pipe *rd, *wr; char ch;
		PipeBuf(Pipe *r, Pipe *w): rd(r), wr(w) {}
		virtual int underflow() { int c = rd->get(); if (c == EOF) return EOF; ch = (char)c; setg(&ch, &ch, &ch + 1); return c; }
		virtual int overflow(int c) { if (c != EOF) { char x = (char)c; wr->put(&x, 1); } return c; }
		virtual std::streamsize xsputn(const char *s, std::streamsize n) { wr->put(s, (size_t)n); return n; }
};

static unsigned long rnd(unsigned long m) { return m ? (unsigned long)(seam::next64() % m) : 0; }
static BarnettSmartVTMF_dlog *vtmf = NULL;
static Mpz GP, GQ;

static bool mutate_line(std::string &line, const std::string &m) {
	Mpz v; if (mpz_set_str(v, line.c_str(), TMCG_MPZ_IO_BASE) != 0) return false;
	if (m == "plus1") mpz_add_ui(v, v, 1);
	else if (m == "zero") mpz_set_ui(v, 0);
	else if (m == "one") mpz_set_ui(v, 1);
	else if (m == "plusq") mpz_add(v, v, GQ);
	else if (m == "p") mpz_set(v, GP);
	else if (m == "pm1") mpz_sub_ui(v, GP, 1);
	else if (m == "oversized") { mpz_set_ui(v, 1); mpz_mul_2exp(v, v, 3000); mpz_add_ui(v, v, 5); }
	else if (m == "otherres") mpz_add_ui(v, v, 3);
	else return false;
	std::ostringstream o; o << (mpz_srcptr)v.v;
	if (o.str() == line) return false;      // the mutation does not change this value: not applicable
	line = o.str();
	return true;
}

static std::string mpz2s62(mpz_srcptr v) { std::ostringstream o; o << v; return o.str(); }
struct Inst {
	size_t n; bool cyclic;
	TMCG_Stack<VTMF_Card> s, s2;
	TMCG_StackSecret<VTMF_CardSecret> ss;
};

// returns verdict 1 accept / 0 reject / 2 exception; nlines: number of lines the prover sent (for position classes)
static int run_case(const json &c, long &nlines, std::string &note) {
	std::string variant = c["variant"];          // groth_ni, groth_i, hoogh_ni, hoogh_i
	bool hv = variant.size() > 3 && variant.compare(variant.size() - 3, 3, "_hv") == 0;      // honest-verifier interactive form, class level
	bool hoogh = variant.compare(0, 5, "hoogh") == 0, inter = hv || (variant[variant.size() - 1] == 'i' && variant[variant.size() - 2] == '_');
	size_t n = c["n"];
	std::string stmt = c["stmt"];                // true | subst | dup | retype | noncyclic
	std::string mut = c.value("mut", std::string("none"));
	std::string pub = c.value("pub", std::string("none"));     // none | s_c1 | s_c2 | s2_c1 | s2_c2 | h
	long pos = c.value("pos", 0L);               // line index for transcript mutations: 0 first, 1 middle, 2 last (class)
	SchindelhauerTMCG tm(16, 2, 4);
	Inst I; I.n = n; I.cyclic = hoogh && stmt != "noncyclic";
	for (size_t i = 0; i < n; i++) { VTMF_Card cd; tm.TMCG_CreateOpenCard(cd, vtmf, i % 16); VTMF_Card m; VTMF_CardSecret cs; tm.TMCG_CreateCardSecret(cs, vtmf); tm.TMCG_MaskCard(cd, m, cs, vtmf); I.s.push(m); }
	tm.TMCG_CreateStackSecret(I.ss, I.cyclic, n, vtmf);
	if (hoogh && stmt == "noncyclic") {        // a permutation that is not a rotation, presented to the rotation argument
		bool rot = true; size_t cy = I.ss[0].first; for (size_t j = 1; j < n; j++) if (((++cy) % n) != I.ss[j].first) rot = false;
		if (rot) { size_t a = I.ss[0].first; I.ss[0].first = I.ss[1].first; I.ss[1].first = a; }
	}
	tm.TMCG_MixStack(I.s, I.s2, I.ss, vtmf);
	// false statements: edit the output stack after the fact (the prover keeps its witness)
	if (stmt == "subst" || stmt == "retype") { VTMF_Card cd, m; VTMF_CardSecret cs; tm.TMCG_CreateOpenCard(cd, vtmf, 15 - (rnd(n) % 8)); tm.TMCG_CreateCardSecret(cs, vtmf); tm.TMCG_MaskCard(cd, m, cs, vtmf);
		TMCG_Stack<VTMF_Card> t; size_t k = rnd(n); for (size_t i = 0; i < n; i++) t.push(i == k ? m : I.s2[i]); I.s2 = t; }
	if (stmt == "c1only" || stmt == "c2only") { size_t k = rnd(n); mpz_ptr x = (stmt == "c1only") ? I.s2[k].c_1 : I.s2[k].c_2; mpz_mul(x, x, vtmf->g); mpz_mod(x, x, vtmf->p); }
	if (stmt == "dup") { TMCG_Stack<VTMF_Card> t; size_t k = rnd(n), k2 = (k + 1) % n; for (size_t i = 0; i < n; i++) t.push(i == k ? I.s2[k2] : I.s2[i]); I.s2 = t; }
	GrothVSSHE *vsshe = NULL, *vsshe_v = NULL; HooghSchoenmakersSkoricVillegasVRHE *vrhe = NULL, *vrhe_v = NULL;
	unsigned long le = c.value("le", (unsigned long)TMCG_GROTH_L_E);      // challenge length of the Groth argument
	// "hprover": a second card scheme over the same group with another key; prover and argument instance use it consistently
	BarnettSmartVTMF_dlog *vt_p = vtmf;
	if (pub == "hprover") {
		std::stringstream gs; vtmf->PublishGroup(gs);
		vt_p = new BarnettSmartVTMF_dlog(gs, 1024, 256);
		vt_p->KeyGenerationProtocol_GenerateKey(); vt_p->KeyGenerationProtocol_Finalize();
		tm.TMCG_MixStack(I.s, I.s2, I.ss, vt_p);          // the output stack is a shuffle of the input under the other key
	}
	if (!hoogh) {
		if (pub == "hprover") {
			// the published description of a genuine instance with only the ElGamal key replaced (the commitment key stays)
			GrothVSSHE g0(n, vtmf->p, vtmf->q, vtmf->k, vtmf->g, vtmf->h, le, 1024, 256);
			std::stringstream p0; g0.PublishGroup(p0);
			std::vector<std::string> ls; { std::string ln; while (std::getline(p0, ln)) ls.push_back(ln); }
			if (ls.size() > 3) ls[3] = mpz2s62(vt_p->h);
			std::stringstream p1, p2; for (size_t k = 0; k < ls.size(); k++) { p1 << ls[k] << std::endl; p2 << ls[k] << std::endl; }
			vsshe = new GrothVSSHE(n, p1, le, 1024, 256); vsshe_v = new GrothVSSHE(n, p2, le, 1024, 256);
		} else {
		vsshe = new GrothVSSHE(n, vt_p->p, vt_p->q, vt_p->k, vt_p->g, vt_p->h, le, 1024, 256);
		std::stringstream pg; vsshe->PublishGroup(pg); vsshe_v = new GrothVSSHE(n, pg, le, 1024, 256);
		}
		if (!vsshe_v->CheckGroup()) note = "vsshe group check failed";
	} else {
		vrhe = new HooghSchoenmakersSkoricVillegasVRHE(vt_p->p, vt_p->q, vt_p->g, vt_p->h);
		std::stringstream pg; vrhe->PublishGroup(pg); vrhe_v = new HooghSchoenmakersSkoricVillegasVRHE(pg, 1024, 256);
		if (!vrhe_v->CheckGroup()) note = "vrhe group check failed";
	}
	// the verifier's view of the public inputs
	TMCG_Stack<VTMF_Card> vs = I.s, vs2 = I.s2;
	BarnettSmartVTMF_dlog *vt_v = vtmf;
	if (pub == "s_c1") mpz_add_ui(vs[rnd(n)].c_1, vs[0].c_1, 1);
	if (pub == "s_c2") { size_t k = rnd(n); mpz_mul(vs[k].c_2, vs[k].c_2, vtmf->g); mpz_mod(vs[k].c_2, vs[k].c_2, vtmf->p); }
	if (pub == "s2_c1") { size_t k = rnd(n); mpz_mul(vs2[k].c_1, vs2[k].c_1, vtmf->g); mpz_mod(vs2[k].c_1, vs2[k].c_1, vtmf->p); }
	if (pub == "s2_c2") { size_t k = rnd(n); mpz_mul(vs2[k].c_2, vs2[k].c_2, vtmf->g); mpz_mod(vs2[k].c_2, vs2[k].c_2, vtmf->p); }
	GrothVSSHE *vsshe_h = NULL; HooghSchoenmakersSkoricVillegasVRHE *vrhe_h = NULL;
	if (pub == "h") {    // the argument instance speaks about another ElGamal key than the cards
		Mpz h2; mpz_mul(h2, vtmf->h, vtmf->g); mpz_mod(h2, h2, vtmf->p);
		if (!hoogh) { vsshe_h = new GrothVSSHE(n, vtmf->p, vtmf->q, vtmf->k, vtmf->g, h2); }
		else vrhe_h = new HooghSchoenmakersSkoricVillegasVRHE(vtmf->p, vtmf->q, vtmf->g, h2);
	}
	int verdict = 0;
	try {
		if (!inter) {
			std::stringstream proof;
			if (!hoogh && pub == "hprover") {
				std::vector<mpz_ptr> R; std::vector<std::pair<mpz_ptr, mpz_ptr> > e, E; std::vector<size_t> pi;
				tm.TMCG_InitializeStackEquality_Groth(pi, R, e, E, I.s, I.s2, I.ss);
				vsshe->Prove_noninteractive(pi, R, e, E, proof);
				tm.TMCG_ReleaseStackEquality_Groth(pi, R, e, E);
			}
			else if (!hoogh) tm.TMCG_ProveStackEquality_Groth_noninteractive(I.s, I.s2, I.ss, vt_p, vsshe, proof);
			else tm.TMCG_ProveStackEquality_Hoogh_noninteractive(I.s, I.s2, I.ss, vt_p, vrhe, proof);
			std::vector<std::string> lines; { std::string ln; while (std::getline(proof, ln)) lines.push_back(ln); }
			nlines = (long)lines.size();
			if (mut != "none" && !lines.empty()) {
				size_t k = pos == 0 ? 0 : (pos == 2 ? lines.size() - 1 : (pos == 1 ? lines.size() / 2 : std::min((size_t)(pos - 3), lines.size() - 1)));
				if (mut == "trunc") lines.resize(k);
				else if (mut == "swap") { if (k + 1 < lines.size()) std::swap(lines[k], lines[k + 1]); else note = "n/a"; if (k + 1 < lines.size() && lines[k] == lines[k + 1]) note = "n/a"; }
				else if (!mutate_line(lines[k], mut)) note = "n/a";
			}
			std::stringstream vin; for (size_t k = 0; k < lines.size(); k++) vin << lines[k] << std::endl;
			bool r;
			if (!hoogh) r = tm.TMCG_VerifyStackEquality_Groth_noninteractive(vs, vs2, vt_v, vsshe_h ? vsshe_h : vsshe_v, vin);
			else r = tm.TMCG_VerifyStackEquality_Hoogh_noninteractive(vs, vs2, vt_v, vrhe_h ? vrhe_h : vrhe_v, vin);
			verdict = r ? 1 : 0;
		} else {
			// prover <-> (relay) <-> verifier
			Pipe p2r, r2v, v2r, r2p;
			PipeBuf pb(&r2p, &p2r), vb(&r2v, &v2r);
			std::iostream pio(&pb), vio(&vb);
			long sent = 0; long target = c.value("line", -1L); bool cut = false;
			if (c.contains("line") && target < 0) {          // counted from the end: an honest session tells how many values there are
				json dry(c); dry.erase("line"); dry.erase("mut"); long nl = 0; std::string nt; run_case(dry, nl, nt);
				target = nl + target; if (target < 0) note = "n/a";
			}
			bool prover_exc = false;
			std::thread prover([&]() { try {
				if (!hoogh && (hv || pub == "hprover")) {
					std::vector<mpz_ptr> R; std::vector<std::pair<mpz_ptr, mpz_ptr> > e, E; std::vector<size_t> pi;
					tm.TMCG_InitializeStackEquality_Groth(pi, R, e, E, I.s, I.s2, I.ss);
					if (hv) vsshe->Prove_interactive(pi, R, e, E, pio, pio);
					else { JareckiLysyanskayaEDCF cf(2, 0, vt_p->p, vt_p->q, vt_p->g, vt_p->h); vsshe->Prove_interactive_publiccoin(pi, R, e, E, &cf, pio, pio); }
					tm.TMCG_ReleaseStackEquality_Groth(pi, R, e, E);
				} else if (hoogh && hv) {
					std::vector<mpz_ptr> R; std::vector<std::pair<mpz_ptr, mpz_ptr> > e, E;
					tm.TMCG_InitializeStackEquality_Hoogh(R, e, E, I.s, I.s2, I.ss);
					size_t r = (I.ss.size() - I.ss[0].first) % I.ss.size();
					vrhe->Prove_interactive(r, R, e, E, pio, pio);
					tm.TMCG_ReleaseStackEquality_Hoogh(R, e, E);
				}
				else if (!hoogh) tm.TMCG_ProveStackEquality_Groth(I.s, I.s2, I.ss, vt_p, vsshe, pio, pio);
				else tm.TMCG_ProveStackEquality_Hoogh(I.s, I.s2, I.ss, vt_p, vrhe, pio, pio);
			} catch (...) { prover_exc = true; } p2r.close(); });
			std::thread relay_pv([&]() {      // prover -> verifier, line by line, mutating line `target`
				std::string ln; int ch;
				while ((ch = p2r.get()) != EOF) {
					if (ch != '\n') { ln.push_back((char)ch); continue; }
					if (sent == target && mut != "none") { if (mut == "trunc") { cut = true; break; } if (!mutate_line(ln, mut)) note = "n/a"; }
					ln.push_back('\n'); r2v.put(ln.data(), ln.size()); ln.clear(); sent++;
				}
				r2v.close();
			});
			std::thread relay_vp([&]() { int ch; while ((ch = v2r.get()) != EOF) { char x = (char)ch; r2p.put(&x, 1); } r2p.close(); });
			bool r = false; bool vexc = false;
			SchindelhauerTMCG tmv(16, 2, 4);
			try {
				if (hv) {
					// the honest-verifier forms have no card-level entry point: ciphertext vectors of the two stacks
					std::vector<std::pair<mpz_ptr, mpz_ptr> > e, E;
					tmv.TMCG_InitializeStackEquality_Groth(e, E, vs, vs2);
					if (!hoogh) r = (vsshe_h ? vsshe_h : vsshe_v)->Verify_interactive(e, E, vio, vio);
					else r = (vrhe_h ? vrhe_h : vrhe_v)->Verify_interactive(e, E, vio, vio);
					tmv.TMCG_ReleaseStackEquality_Groth(e, E);
				}
				else if (!hoogh) r = tmv.TMCG_VerifyStackEquality_Groth(vs, vs2, vt_v, vsshe_h ? vsshe_h : vsshe_v, vio, vio);
				else r = tmv.TMCG_VerifyStackEquality_Hoogh(vs, vs2, vt_v, vrhe_h ? vrhe_h : vrhe_v, vio, vio);
			} catch (...) { vexc = true; }
			v2r.close(); r2v.close(); r2p.close(); p2r.close();
			prover.join(); relay_pv.join(); relay_vp.join();
			nlines = sent;
			if (mut != "none" && target >= sent && mut != "trunc") note = "n/a";      // the verifier stopped before that line
			if (mut == "trunc" && !cut) note = "n/a";      // nothing was cut off: the prover sent no line with that number
			verdict = vexc ? 2 : (r ? 1 : 0);
			(void)prover_exc;
		}
	} catch (std::exception &ex) { verdict = 2; note = ex.what(); }
	delete vsshe; delete vsshe_v; delete vrhe; delete vrhe_v; delete vsshe_h; delete vrhe_h;
	if (vt_p != vtmf) delete vt_p;
	return verdict;
}

int main(int argc, char **argv) {
	install_terminate("drv_shuffle");
	quiet_cerr();
	if (!init_libTMCG()) return 2;
	if (argc >= 4 && !strcmp(argv[1], "run")) {
		seam::seed(4711);
		vtmf = new BarnettSmartVTMF_dlog(1024, 256);        // seeded: the same group in every run
		vtmf->KeyGenerationProtocol_GenerateKey(); vtmf->KeyGenerationProtocol_Finalize();
		GP = Mpz(mpz2s(vtmf->p)); GQ = Mpz(mpz2s(vtmf->q));
		std::vector<json> cases = read_ndjson(argv[2]);
		std::ofstream out(argv[3]);
		for (size_t k = 0; k < cases.size(); k++) {
			json c = cases[k];
			seam::seed_harness(c.value("seed", 1UL) * 7919UL + k); seam::seed(c.value("seed", 1UL) * 104729UL + k);
			long nlines = 0; std::string note;
			int v = run_case(c, nlines, note);
			c["verdict"] = v == 1 ? "accept" : (v == 0 ? "reject" : "exception"); c["nlines"] = nlines; if (!note.empty()) c["note"] = note;
			out << c.dump() << "\n"; out.flush();
		}
		return 0;
	}
	return 2;
}
