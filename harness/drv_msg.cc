// drv_msg: binds spec/PGPMsg.tla (property C20, OpenPGP signatures and encryption are tamper-evident) to the real
// code in src/CallasDonnerhackeFinneyShawThayerRFC4880.cc.  The driver only executes library functions on the cases
// TLC generated and reports raw results; every expectation comes from TLC.
//   drv_msg cases <seed> <masks> <cases.ndjson> <out.ndjson> <trace.ndjson>
//     one line {"fam","i","op","got":{..}} per case; <masks> = comma separated xor masks applied to EVERY octet of
//     every region the case's grammar denotes (e.g. 1,128); recorded AEAD cipher calls and verification hash inputs
//     are written to <trace.ndjson> (validated by spec/PGPMsgTrace.tla)
// Keys are generated once per run from the seed (GMP / libgcrypt point multiplication on seeded scalars): RSA-1024,
// DSA-1024/160, ElGamal-1024, ECDSA NIST P-256, EdDSA Ed25519, ECDH NIST P-256 / P-384.
// The executable defines gcry_md_*, gcry_cipher_* entry points and time() (interposers of drv_pgp.cc, extended to
// the cipher calls): the library objects are linked statically, so their calls land here; the real functions are
// reached with dlsym(RTLD_NEXT).  Nothing in /repo is changed.
#ifndef _GNU_SOURCE
#define _GNU_SOURCE
#endif
#include "common.hh"
#include <unistd.h>
#include <dlfcn.h>
#include <ctime>
#include <algorithm>
#include <csetjmp>
#include <csignal>
#include <gcrypt.h>
#define private public
#define protected public
#include "libTMCG.hh"
#undef private
#undef protected

typedef CallasDonnerhackeFinneyShawThayerRFC4880 PGP;
typedef tmcg_openpgp_octets_t octets;
typedef tmcg_openpgp_secure_octets_t soctets;

template <typename F> static F real_fn(const char *name) {
	void *p = dlsym(RTLD_NEXT, name);
	if (!p) { printf("{\"e\":\"TERMINATE\",\"driver\":\"drv_msg\",\"what\":\"dlsym %s\"}\n", name); fflush(stdout); _exit(3); }
	return (F)p;
}

// ------------------------------------------------------------------------------------------------------------
// seam: message digests (as in drv_pgp.cc) - the octets handed to each hash context
// ------------------------------------------------------------------------------------------------------------
namespace seam_md {
static const size_t FULLMAX = 8192;
struct Ctx { int algo; uint64_t n; std::vector<unsigned char> full; std::vector<unsigned char> digest; bool read; Ctx() : algo(0), n(0), read(false) {} };
static std::map<gcry_md_hd_t, Ctx> open_ctx;
static std::vector<Ctx> done;
static bool active = false;
static void begin() { done.clear(); open_ctx.clear(); active = true; }
static void end() { active = false; }
static void feed(Ctx &c, const unsigned char *p, size_t len) {
	for (size_t k = 0; k < len; k++) { if (c.full.size() < FULLMAX + 1) c.full.push_back(p[k]); c.n++; }
}
static json done_json() {
	json a = json::array();
	for (size_t i = 0; i < done.size(); i++) {
		const Ctx &c = done[i]; json j; j["a"] = c.algo; j["n"] = (uint64_t)c.n; j["full"] = c.n <= FULLMAX;
		j["in"] = json::array(); if (c.n <= FULLMAX) for (size_t k = 0; k < c.full.size(); k++) j["in"].push_back((int)c.full[k]);
		j["out"] = json::array(); for (size_t k = 0; k < c.digest.size(); k++) j["out"].push_back((int)c.digest[k]);
		a.push_back(j);
	}
	return a;
}
}
// ------------------------------------------------------------------------------------------------------------
// seam: cipher calls - nonce, additional data, octets en/deciphered, tag taken / checked, in call order
// ------------------------------------------------------------------------------------------------------------
namespace seam_ci {
static bool active = false;
static json calls = json::array();
static void begin() { calls = json::array(); active = true; }
static void end() { active = false; }
static void add(const char *op, const void *b, size_t len, size_t n) {
	json c; c["op"] = op; c["n"] = n; c["b"] = json::array();
	const unsigned char *p = (const unsigned char *)b; for (size_t i = 0; b && i < len; i++) c["b"].push_back((int)p[i]);
	calls.push_back(c);
}
}
static time_t fixed_clock = 1500000000;

extern "C" {
gcry_error_t gcry_md_open(gcry_md_hd_t *h, int algo, unsigned int flags) {
	static gcry_error_t (*f)(gcry_md_hd_t *, int, unsigned int) = real_fn<gcry_error_t (*)(gcry_md_hd_t *, int, unsigned int)>("gcry_md_open");
	gcry_error_t r = f(h, algo, flags);
	if (!r && seam_md::active && h && *h) { seam_md::Ctx c; c.algo = algo; seam_md::open_ctx[*h] = c; }
	return r;
}
static void md_pending(gcry_md_hd_t hd) {      // octets gcry_md_putc has put into the handle's buffer
	if (!seam_md::active) return;
	std::map<gcry_md_hd_t, seam_md::Ctx>::iterator it = seam_md::open_ctx.find(hd);
	if (it == seam_md::open_ctx.end()) return;
	if (hd->bufpos > 0) seam_md::feed(it->second, hd->buf, (size_t)hd->bufpos);
}
void gcry_md_write(gcry_md_hd_t hd, const void *buffer, size_t length) {
	static void (*f)(gcry_md_hd_t, const void *, size_t) = real_fn<void (*)(gcry_md_hd_t, const void *, size_t)>("gcry_md_write");
	md_pending(hd);
	if (seam_md::active && buffer && length) {
		std::map<gcry_md_hd_t, seam_md::Ctx>::iterator it = seam_md::open_ctx.find(hd);
		if (it != seam_md::open_ctx.end()) seam_md::feed(it->second, (const unsigned char *)buffer, length);
	}
	f(hd, buffer, length);
}
gcry_error_t gcry_md_ctl(gcry_md_hd_t hd, int cmd, void *buffer, size_t buflen) {
	static gcry_error_t (*f)(gcry_md_hd_t, int, void *, size_t) = real_fn<gcry_error_t (*)(gcry_md_hd_t, int, void *, size_t)>("gcry_md_ctl");
	if (cmd == GCRYCTL_FINALIZE) md_pending(hd);
	return f(hd, cmd, buffer, buflen);
}
unsigned char *gcry_md_read(gcry_md_hd_t hd, int algo) {
	static unsigned char *(*f)(gcry_md_hd_t, int) = real_fn<unsigned char *(*)(gcry_md_hd_t, int)>("gcry_md_read");
	md_pending(hd);
	unsigned char *r = f(hd, algo);
	if (seam_md::active) {
		std::map<gcry_md_hd_t, seam_md::Ctx>::iterator it = seam_md::open_ctx.find(hd);
		if (it != seam_md::open_ctx.end() && !it->second.read) {
			seam_md::Ctx &c = it->second; size_t dl = gcry_md_get_algo_dlen(algo ? algo : c.algo);
			if (r) c.digest.assign(r, r + dl);
			c.read = true; seam_md::done.push_back(c);
		}
	}
	return r;
}
void gcry_md_close(gcry_md_hd_t hd) {
	static void (*f)(gcry_md_hd_t) = real_fn<void (*)(gcry_md_hd_t)>("gcry_md_close");
	if (seam_md::active) seam_md::open_ctx.erase(hd);
	f(hd);
}
void gcry_md_hash_buffer(int algo, void *digest, const void *buffer, size_t length) {
	static void (*f)(int, void *, const void *, size_t) = real_fn<void (*)(int, void *, const void *, size_t)>("gcry_md_hash_buffer");
	f(algo, digest, buffer, length);
	if (seam_md::active) {
		seam_md::Ctx c; c.algo = algo; seam_md::feed(c, (const unsigned char *)buffer, length);
		c.digest.assign((unsigned char *)digest, (unsigned char *)digest + gcry_md_get_algo_dlen(algo));
		c.read = true; seam_md::done.push_back(c);
	}
}
gcry_error_t gcry_cipher_setiv(gcry_cipher_hd_t h, const void *iv, size_t ivlen) {
	static gcry_error_t (*f)(gcry_cipher_hd_t, const void *, size_t) = real_fn<gcry_error_t (*)(gcry_cipher_hd_t, const void *, size_t)>("gcry_cipher_setiv");
	if (seam_ci::active) seam_ci::add("iv", iv, ivlen, ivlen);
	return f(h, iv, ivlen);
}
gcry_error_t gcry_cipher_authenticate(gcry_cipher_hd_t h, const void *ad, size_t adlen) {
	static gcry_error_t (*f)(gcry_cipher_hd_t, const void *, size_t) = real_fn<gcry_error_t (*)(gcry_cipher_hd_t, const void *, size_t)>("gcry_cipher_authenticate");
	if (seam_ci::active) seam_ci::add("ad", ad, adlen, adlen);
	return f(h, ad, adlen);
}
gcry_error_t gcry_cipher_encrypt(gcry_cipher_hd_t h, void *out, size_t outsize, const void *in, size_t inlen) {
	static gcry_error_t (*f)(gcry_cipher_hd_t, void *, size_t, const void *, size_t) = real_fn<gcry_error_t (*)(gcry_cipher_hd_t, void *, size_t, const void *, size_t)>("gcry_cipher_encrypt");
	if (seam_ci::active) seam_ci::add("crypt", NULL, 0, in ? inlen : outsize);
	return f(h, out, outsize, in, inlen);
}
gcry_error_t gcry_cipher_decrypt(gcry_cipher_hd_t h, void *out, size_t outsize, const void *in, size_t inlen) {
	static gcry_error_t (*f)(gcry_cipher_hd_t, void *, size_t, const void *, size_t) = real_fn<gcry_error_t (*)(gcry_cipher_hd_t, void *, size_t, const void *, size_t)>("gcry_cipher_decrypt");
	if (seam_ci::active) seam_ci::add("crypt", NULL, 0, in ? inlen : outsize);
	return f(h, out, outsize, in, inlen);
}
gcry_error_t gcry_cipher_gettag(gcry_cipher_hd_t h, void *tag, size_t taglen) {
	static gcry_error_t (*f)(gcry_cipher_hd_t, void *, size_t) = real_fn<gcry_error_t (*)(gcry_cipher_hd_t, void *, size_t)>("gcry_cipher_gettag");
	if (seam_ci::active) seam_ci::add("tag", NULL, 0, taglen);
	return f(h, tag, taglen);
}
gcry_error_t gcry_cipher_checktag(gcry_cipher_hd_t h, const void *tag, size_t taglen) {
	static gcry_error_t (*f)(gcry_cipher_hd_t, const void *, size_t) = real_fn<gcry_error_t (*)(gcry_cipher_hd_t, const void *, size_t)>("gcry_cipher_checktag");
	if (seam_ci::active) seam_ci::add("tag", NULL, 0, taglen);
	return f(h, tag, taglen);
}
// virtual clock: signature validity is a function of the case
time_t time(time_t *t) { if (t) *t = fixed_clock; return fixed_clock; }
}

// ------------------------------------------------------------------------------------------------------------
// helpers
// ------------------------------------------------------------------------------------------------------------
static octets O(const json &a) { octets o; for (size_t i = 0; i < a.size(); i++) o.push_back((tmcg_openpgp_byte_t)a[i].get<int>()); return o; }
static json J(const octets &o) { json a = json::array(); for (size_t i = 0; i < o.size(); i++) a.push_back((int)o[i]); return a; }
static std::string HEX(const octets &o) { static const char *hx = "0123456789abcdef"; std::string s; for (size_t i = 0; i < o.size(); i++) { s.push_back(hx[o[i] >> 4]); s.push_back(hx[o[i] & 15]); } return s; }
static const time_t T0 = 1500000000;       // the cases give times as small offsets; only differences matter (theorem of the spec)
static std::vector<int> MASKS;
static std::ofstream *trace_out = NULL;
static void trace(const json &ev) { if (trace_out) (*trace_out) << ev.dump() << "\n"; }

static gcry_mpi_t mpz2mpi(mpz_srcptr z) { gcry_mpi_t m = NULL; std::string s = mpz2s(z, 16); if (s.size() % 2) s = "0" + s; gcry_mpi_scan(&m, GCRYMPI_FMT_HEX, s.c_str(), 0, NULL); return m; }
static void rnd_mpz(mpz_ptr r, size_t bits) {         // seeded harness stream
	mpz_set_ui(r, 0);
	for (size_t i = 0; i < (bits + 63) / 64; i++) { mpz_mul_2exp(r, r, 64); uint64_t w = seam::next64(); mpz_t t; mpz_init(t); mpz_import(t, 1, 1, 8, 0, 0, &w); mpz_add(r, r, t); mpz_clear(t); }
	mpz_fdiv_r_2exp(r, r, bits);
}
static void gen_prime(mpz_ptr p, size_t bits) {
	do { rnd_mpz(p, bits); mpz_setbit(p, bits - 1); mpz_setbit(p, bits - 2); mpz_setbit(p, 0); mpz_nextprime(p, p); } while (mpz_sizeinbase(p, 2) != bits);
}
static octets rnd_octets(size_t n) { octets o; for (size_t i = 0; i < n; i++) o.push_back((tmcg_openpgp_byte_t)(seam::next64() & 0xFF)); return o; }

// ------------------------------------------------------------------------------------------------------------
// keys (generated once per run from the seed)
// ------------------------------------------------------------------------------------------------------------
struct KeySet {
	// RSA
	gcry_mpi_t rsa_n, rsa_e, rsa_d, rsa_p, rsa_q, rsa_u; gcry_sexp_t rsa_sec;
	// DSA
	gcry_mpi_t dsa_p, dsa_q, dsa_g, dsa_y, dsa_x; gcry_sexp_t dsa_sec;
	// ElGamal
	gcry_mpi_t elg_p, elg_g, elg_y, elg_x;
	// ECDSA P-256, EdDSA Ed25519, ECDH P-256 / P-384
	gcry_mpi_t ecdsa_q, ecdsa_d; gcry_sexp_t ecdsa_sec;
	gcry_mpi_t eddsa_q, eddsa_d; gcry_sexp_t eddsa_sec;
	gcry_mpi_t ecdh_q[2], ecdh_d[2];
};
static KeySet K;
static const char *ECDH_CURVES[2] = {"NIST P-256", "NIST P-384"};
static octets curve_oid(const std::string &name) {
	for (size_t idx = 0; tmcg_openpgp_oidtable[idx].name != NULL; idx++)
		if (name == tmcg_openpgp_oidtable[idx].name) { const tmcg_openpgp_byte_t *o = tmcg_openpgp_oidtable[idx].oid; return octets(o + 1, o + 1 + o[0]); }
	return octets();
}
static void die(const char *what) { printf("{\"e\":\"TERMINATE\",\"driver\":\"drv_msg\",\"what\":\"%s\"}\n", what); fflush(stdout); _exit(3); }
static gcry_mpi_t ec_public(const char *curve, gcry_mpi_t d) {        // Q = dG as an uncompressed point 04 || x || y
	gcry_ctx_t ctx; if (gcry_mpi_ec_new(&ctx, NULL, curve)) die("gcry_mpi_ec_new");
	if (gcry_mpi_ec_set_mpi("d", d, ctx)) die("ec_set_mpi d");
	gcry_mpi_t q = gcry_mpi_ec_get_mpi("q", ctx, 1); if (!q) die("ec_get_mpi q");
	gcry_ctx_release(ctx); return q;
}
static void gen_keys() {
	size_t erroff = 0;
	{ // RSA-1024
		Mpz p, q, n, e(65537), d, u, phi, p1, q1, g;
		for (;;) {
			gen_prime(p, 512); gen_prime(q, 512); if (mpz_cmp(p.v, q.v) == 0) continue;
			if (mpz_cmp(p.v, q.v) > 0) mpz_swap(p.v, q.v);
			mpz_sub_ui(p1, p, 1); mpz_sub_ui(q1, q, 1); mpz_mul(phi, p1, q1);
			mpz_gcd(g, e, phi); if (mpz_cmp_ui(g.v, 1) != 0) continue;
			break;
		}
		mpz_mul(n, p, q); mpz_invert(d, e, phi); mpz_invert(u, p, q);
		K.rsa_n = mpz2mpi(n); K.rsa_e = mpz2mpi(e); K.rsa_d = mpz2mpi(d); K.rsa_p = mpz2mpi(p); K.rsa_q = mpz2mpi(q); K.rsa_u = mpz2mpi(u);
		if (gcry_sexp_build(&K.rsa_sec, &erroff, "(private-key (rsa (n %M) (e %M) (d %M) (p %M) (q %M) (u %M)))", K.rsa_n, K.rsa_e, K.rsa_d, K.rsa_p, K.rsa_q, K.rsa_u)) die("rsa sexp");
	}
	for (int which = 0; which < 2; which++) { // DSA-1024/160 and an ElGamal group of the same shape (q of 256 bits)
		size_t qbits = which == 0 ? 160 : 256;
		Mpz p, q, k, g, h, x, y, e;
		gen_prime(q, qbits);
		for (;;) { rnd_mpz(k, 1024 - qbits); mpz_setbit(k, 1024 - qbits - 1); mpz_clrbit(k, 0); mpz_mul(p, q, k); mpz_add_ui(p, p, 1);
			if (mpz_sizeinbase(p.v, 2) == 1024 && mpz_probab_prime_p(p, 30)) break; }
		mpz_set(e, k);                                             // (p-1)/q
		for (unsigned long hh = 2;; hh++) { mpz_set_ui(h, hh); mpz_powm(g, h, e, p); if (mpz_cmp_ui(g.v, 1) != 0) break; }
		do { rnd_mpz(x, qbits - 1); } while (mpz_sgn(x.v) == 0 || mpz_sizeinbase(x.v, 2) < qbits - 8);
		mpz_powm(y, g, x, p);
		if (which == 0) {
			K.dsa_p = mpz2mpi(p); K.dsa_q = mpz2mpi(q); K.dsa_g = mpz2mpi(g); K.dsa_y = mpz2mpi(y); K.dsa_x = mpz2mpi(x);
			if (gcry_sexp_build(&K.dsa_sec, &erroff, "(private-key (dsa (p %M) (q %M) (g %M) (y %M) (x %M)))", K.dsa_p, K.dsa_q, K.dsa_g, K.dsa_y, K.dsa_x)) die("dsa sexp");
		} else { K.elg_p = mpz2mpi(p); K.elg_g = mpz2mpi(g); K.elg_y = mpz2mpi(y); K.elg_x = mpz2mpi(x); }
	}
	{ // ECDSA P-256
		Mpz d; rnd_mpz(d, 255); mpz_setbit(d, 250); K.ecdsa_d = mpz2mpi(d); K.ecdsa_q = ec_public("NIST P-256", K.ecdsa_d);
		if (gcry_sexp_build(&K.ecdsa_sec, &erroff, "(private-key (ecc (curve \"NIST P-256\") (q %m) (d %m)))", K.ecdsa_q, K.ecdsa_d)) die("ecdsa sexp");
	}
	{ // EdDSA Ed25519: d is a 32-octet seed, q the compressed point with the OpenPGP prefix 0x40
		octets seed = rnd_octets(32); seed[0] |= 0x80;
		gcry_mpi_t dop = gcry_mpi_set_opaque_copy(NULL, seed.data(), 256); gcry_sexp_t kp; gcry_ctx_t ctx;
		if (gcry_sexp_build(&kp, &erroff, "(private-key (ecc (curve Ed25519) (flags eddsa) (d %m)))", dop)) die("eddsa kp");
		if (gcry_mpi_ec_new(&ctx, kp, NULL)) die("eddsa ec_new");
		gcry_mpi_t qe = gcry_mpi_ec_get_mpi("q@eddsa", ctx, 1); if (!qe) die("eddsa q");
		unsigned int nb = 0; const unsigned char *qp = (const unsigned char *)gcry_mpi_get_opaque(qe, &nb);
		octets qq; qq.push_back(0x40); for (unsigned i = 0; i < (nb + 7) / 8; i++) qq.push_back(qp[i]);
		gcry_mpi_scan(&K.eddsa_q, GCRYMPI_FMT_USG, qq.data(), qq.size(), NULL);
		gcry_mpi_scan(&K.eddsa_d, GCRYMPI_FMT_USG, seed.data(), seed.size(), NULL);
		if (gcry_sexp_build(&K.eddsa_sec, &erroff, "(private-key (ecc (curve Ed25519) (flags eddsa) (q %m) (d %m)))", K.eddsa_q, K.eddsa_d)) die("eddsa sexp");
		gcry_ctx_release(ctx); gcry_sexp_release(kp); gcry_mpi_release(dop); gcry_mpi_release(qe);
	}
	for (int c = 0; c < 2; c++) { Mpz d; rnd_mpz(d, c == 0 ? 255 : 383); mpz_setbit(d, c == 0 ? 252 : 380); K.ecdh_d[c] = mpz2mpi(d); K.ecdh_q[c] = ec_public(ECDH_CURVES[c], K.ecdh_d[c]); }
}

// the public key packet of signing algorithm pk with creation time t
static void pub_packet(int pk, time_t t, octets &out) {
	gcry_mpi_t z = gcry_mpi_new(8); gcry_mpi_set_ui(z, 0);
	if (pk == 1) PGP::PacketPubEncode(t, TMCG_OPENPGP_PKALGO_RSA, K.rsa_n, K.rsa_e, z, z, out);
	else if (pk == 17) PGP::PacketPubEncode(t, TMCG_OPENPGP_PKALGO_DSA, K.dsa_p, K.dsa_q, K.dsa_g, K.dsa_y, out);
	else if (pk == 19) { octets oid = curve_oid("NIST P-256"); PGP::PacketPubEncode(t, TMCG_OPENPGP_PKALGO_ECDSA, oid.size(), oid.data(), K.ecdsa_q, TMCG_OPENPGP_HASHALGO_UNKNOWN, TMCG_OPENPGP_SKALGO_PLAINTEXT, out); }
	else if (pk == 22) { octets oid = curve_oid("Ed25519"); PGP::PacketPubEncode(t, TMCG_OPENPGP_PKALGO_EDDSA, oid.size(), oid.data(), K.eddsa_q, TMCG_OPENPGP_HASHALGO_UNKNOWN, TMCG_OPENPGP_SKALGO_PLAINTEXT, out); }
	gcry_mpi_release(z);
}
// a public key object from a (possibly altered) key packet, built the way the library's key block parser does
static TMCG_OpenPGP_Pubkey *pub_from_packet(const octets &pkt) {
	octets in(pkt), cur; tmcg_openpgp_packet_ctx_t ctx; tmcg_openpgp_notations_t nots; tmcg_openpgp_multiple_octets_t es, rf;
	tmcg_openpgp_byte_t tag = PGP::PacketDecode(in, 0, ctx, cur, nots, es, rf);
	TMCG_OpenPGP_Pubkey *pub = NULL;
	if (tag == 6 && in.size() == 0) {
		if (ctx.pkalgo == TMCG_OPENPGP_PKALGO_RSA || ctx.pkalgo == TMCG_OPENPGP_PKALGO_RSA_SIGN_ONLY)
			pub = new TMCG_OpenPGP_Pubkey(ctx.pkalgo, ctx.keycreationtime, 0, ctx.n, ctx.e, cur);
		else if (ctx.pkalgo == TMCG_OPENPGP_PKALGO_DSA)
			pub = new TMCG_OpenPGP_Pubkey(ctx.pkalgo, ctx.keycreationtime, 0, ctx.p, ctx.q, ctx.g, ctx.y, cur);
		else if (ctx.pkalgo == TMCG_OPENPGP_PKALGO_ECDSA || ctx.pkalgo == TMCG_OPENPGP_PKALGO_EDDSA)
			pub = new TMCG_OpenPGP_Pubkey(ctx.pkalgo, ctx.keycreationtime, 0, ctx.curveoidlen, ctx.curveoid, ctx.ecpk, cur);
	}
	PGP::PacketContextRelease(ctx);
	if (pub && !pub->Good()) { delete pub; pub = NULL; }
	return pub;
}

// ------------------------------------------------------------------------------------------------------------
// region grammar of the specification -> octet ranges of a concrete packet
// ------------------------------------------------------------------------------------------------------------
struct Region { std::string cls; size_t off, len; };
static bool layout(const json &grammar, const octets &pkt, std::vector<Region> &out) {
	std::map<std::string, size_t> var; size_t pos = 0;
	for (size_t gi = 0; gi < grammar.size(); gi++) {
		const json &it = grammar[gi]; std::string k = it["k"].get<std::string>(), c = it["c"].get<std::string>(), v = it["v"].get<std::string>();
		size_t n = it["n"].get<size_t>();
		Region r; r.cls = c; r.off = pos;
		if (k == "hdr") {
			if (pkt.size() < 2) return false;
			bool nf = (pkt[0] & 0x40) != 0; tmcg_openpgp_byte_t lt = pkt[0] & 0x03;
			octets rest(pkt.begin() + 1, pkt.end()); uint32_t len = 0; bool part = false;
			size_t hl = PGP::PacketLengthDecode(rest, nf, lt, len, part);
			if (hl == 0 || part) return false;
			r.len = 1 + hl; var["#body"] = len;
		} else if (k == "fix") r.len = n;
		else if (k == "len2") { if (pos + 2 > pkt.size()) return false; var[v] = ((size_t)pkt[pos] << 8) + pkt[pos + 1]; r.len = 2; }
		else if (k == "len1") { if (pos + 1 > pkt.size()) return false; var[v] = pkt[pos]; r.len = 1; }
		else if (k == "var") r.len = var[v];
		else if (k == "mpi") {
			if (pos + 2 > pkt.size()) return false;
			size_t bits = ((size_t)pkt[pos] << 8) + pkt[pos + 1]; r.len = 2;
			if (pos + 2 + (bits + 7) / 8 > pkt.size()) return false;
			out.push_back(r); pos += 2;
			r.cls = v; r.off = pos; r.len = (bits + 7) / 8;
		} else return false;
		if (pos + r.len > pkt.size()) return false;
		if (r.len > 0) out.push_back(r);
		pos += r.len;
	}
	return pos == pkt.size();                // the grammar must cover the packet exactly
}
struct Tally { size_t n, acc, wrong, vacc, crash, aborted; json first, firstcrash; Tally() : n(0), acc(0), wrong(0), vacc(0), crash(0), aborted(0), first(json::array()), firstcrash(json::array()) {} };
static json tally_json(const std::map<std::string, Tally> &t) {
	json o = json::object();
	for (std::map<std::string, Tally>::const_iterator it = t.begin(); it != t.end(); ++it) {
		json e; e["n"] = it->second.n; e["accepted"] = it->second.acc; e["wrong"] = it->second.wrong; e["vaccepted"] = it->second.vacc; e["first"] = it->second.first; e["crash"] = it->second.crash; e["abort"] = it->second.aborted; e["firstcrash"] = it->second.firstcrash; o[it->first] = e;
	}
	return o;
}
// a memory fault inside the library while it judges an altered input is an observation ("crash"), not the end of the run
static sigjmp_buf guard_jb; static volatile sig_atomic_t guarded = 0, fault_sig = 0;
static void on_fault(int sig) { fault_sig = sig; if (guarded) siglongjmp(guard_jb, 1); printf("{\"e\":\"TERMINATE\",\"driver\":\"drv_msg\",\"what\":\"signal %d\"}\n", sig); fflush(stdout); _exit(3); }
static void install_guard() { struct sigaction sa; memset(&sa, 0, sizeof(sa)); sa.sa_handler = on_fault; sa.sa_flags = SA_NODEFER; sigaction(SIGSEGV, &sa, NULL); sigaction(SIGBUS, &sa, NULL); sigaction(SIGFPE, &sa, NULL); sigaction(SIGABRT, &sa, NULL); }
static void note(Tally &t, bool accepted, bool wrong, bool vaccepted, size_t off, int mask, bool crashed = false) {
	if (crashed) { t.n++; if (fault_sig == SIGABRT) t.aborted++; else t.crash++; if (t.firstcrash.size() < 4) { json f = json::array(); f.push_back(off); f.push_back(mask); f.push_back((int)fault_sig); t.firstcrash.push_back(f); } return; }
	t.n++; if (accepted) t.acc++; if (wrong) t.wrong++; if (vaccepted) t.vacc++;
	if ((accepted || wrong) && t.first.size() < 4) { json f = json::array(); f.push_back(off); f.push_back(mask); t.first.push_back(f); }
}

// ------------------------------------------------------------------------------------------------------------
// signatures
// ------------------------------------------------------------------------------------------------------------
struct SigObj { std::string kind; octets data, uat, subbody; std::string uid; bool viafile; SigObj() : viafile(false) {} };
struct Judged { bool parsed, haskey, match, valid, verify, expired, crashed; Judged() : parsed(false), haskey(false), match(false), valid(false), verify(false), expired(false), crashed(false) {} bool accept() const { return parsed && haskey && match && valid && verify; } };

static bool verify_kind(TMCG_OpenPGP_Signature *sig, TMCG_OpenPGP_Pubkey *pub, const SigObj &o) {
	if ((o.kind == "binary" || o.kind == "text") && o.viafile) {
		// the entry point that reads the document from a file
		char name[] = "/tmp/verif-c20-doc-XXXXXX"; int fd = mkstemp(name); if (fd < 0) return false;
		size_t done = 0; while (done < o.data.size()) { ssize_t w = write(fd, &o.data[done], o.data.size() - done); if (w <= 0) break; done += (size_t)w; }
		close(fd);
		bool r = sig->Verify(pub->key, std::string(name), 0);
		unlink(name); return r;
	}
	if (o.kind == "binary" || o.kind == "text") return sig->VerifyData(pub->key, o.data, 0);
	if (o.kind == "alone") return sig->Verify(pub->key, 0);
	if (o.kind == "key") return sig->Verify(pub->key, pub->pub_hashing, 0);
	if (o.kind == "subkey") return sig->Verify(pub->key, pub->pub_hashing, o.subbody, 0);
	if (o.kind == "certuid") return sig->Verify(pub->key, pub->pub_hashing, o.uid, 0);
	if (o.kind == "certuat") return sig->Verify(pub->key, pub->pub_hashing, o.uat, 0, 0);
	return false;
}
// the verification procedure: parse the signature packet, take the key from the key packet, the issuer named in the
// signature must be this key, the signature must be valid at the (virtual) current time and verify over the object
static Judged judge0(const octets &sigpkt, const octets &keypkt, const SigObj &o);
static Judged judge(const octets &sigpkt, const octets &keypkt, const SigObj &o) {
	Judged j; guarded = 1;
	if (sigsetjmp(guard_jb, 1) == 0) j = judge0(sigpkt, keypkt, o); else { j = Judged(); j.crashed = true; }
	guarded = 0; return j;
}
static Judged judge0(const octets &sigpkt, const octets &keypkt, const SigObj &o) {
	Judged j; TMCG_OpenPGP_Signature *sig = NULL;
	j.parsed = PGP::SignatureParse(sigpkt, 0, sig) && sig != NULL;
	if (!j.parsed) return j;
	TMCG_OpenPGP_Pubkey *pub = pub_from_packet(keypkt);
	j.haskey = pub != NULL;
	if (pub) {
		// the issuer fingerprint names the key; the 8-octet issuer, when present (it is absent in v5 signatures), must agree
		if (sig->issuerfpr.size() > 0) j.match = PGP::OctetsCompare(sig->issuerfpr, pub->fingerprint) && (PGP::OctetsCompareZero(sig->issuer) || PGP::OctetsCompare(sig->issuer, pub->id));
		else j.match = PGP::OctetsCompare(sig->issuer, pub->id);
		j.valid = sig->CheckValidity(pub->creationtime, 0); j.expired = sig->expired;
		j.verify = verify_kind(sig, pub, o);
		delete pub;
	}
	delete sig;
	return j;
}
static bool hash_kind(const std::string &kind, int v, const octets &pubbody, const SigObj &o, const octets &hashed, tmcg_openpgp_hashalgo_t h, octets &hash, octets &left) {
	octets t(hashed), none;
	if (v == 5 && (kind == "binary" || kind == "text")) for (int i = 0; i < 6; i++) t.push_back(0);     // detached: no literal metadata
	if (kind == "binary") return v == 4 ? PGP::BinaryDocumentHash(o.data, t, h, hash, left) : PGP::BinaryDocumentHashV5(o.data, t, h, hash, left);
	if (kind == "text") return v == 4 ? PGP::TextDocumentHash(o.data, t, h, hash, left) : PGP::TextDocumentHashV5(o.data, t, h, hash, left);
	if (kind == "alone") return v == 4 ? PGP::StandaloneHash(t, h, hash, left) : PGP::StandaloneHashV5(t, h, hash, left);
	if (kind == "key") { if (v == 4) PGP::KeyHash(pubbody, t, h, hash, left); else PGP::KeyHashV5(pubbody, t, h, hash, left); return true; }
	if (kind == "subkey") { if (v == 4) PGP::KeyHash(pubbody, o.subbody, t, h, hash, left); else PGP::KeyHashV5(pubbody, o.subbody, t, h, hash, left); return true; }
	if (kind == "certuid") { if (v == 4) PGP::CertificationHash(pubbody, o.uid, none, t, h, hash, left); else PGP::CertificationHashV5(pubbody, o.uid, none, t, h, hash, left); return true; }
	if (kind == "certuat") { if (v == 4) PGP::CertificationHash(pubbody, "", o.uat, t, h, hash, left); else PGP::CertificationHashV5(pubbody, "", o.uat, t, h, hash, left); return true; }
	return false;
}
// the hashed part (version .. hashed subpackets) as the library prepares it for this kind / type
static void prepare_hashed(const std::string &kind, int v, int type, int pk, int hash, time_t created, time_t expires, const octets &issuer, const std::string &policy, octets &out) {
	tmcg_openpgp_signature_t ty = (tmcg_openpgp_signature_t)type; tmcg_openpgp_pkalgo_t pa = (tmcg_openpgp_pkalgo_t)pk; tmcg_openpgp_hashalgo_t ha = (tmcg_openpgp_hashalgo_t)hash;
	octets flags; flags.push_back(0x03);
	if (kind == "binary" || kind == "text" || kind == "alone") {
		if (v == 5) PGP::PacketSigPrepareDetachedSignatureV5(ty, pa, ha, created, expires, policy, issuer, out);
		else PGP::PacketSigPrepareDetachedSignature(ty, pa, ha, created, expires, policy, issuer, out);
		return;
	}
	if (type == 0x1F) { octets revoker(20, 0xAB); PGP::PacketSigPrepareDesignatedRevoker(pa, ha, created, flags, issuer, TMCG_OPENPGP_PKALGO_RSA, revoker, true, out); }
	else if (type == 0x20 || type == 0x28 || type == 0x30) PGP::PacketSigPrepareRevocationSignature(ty, pa, ha, created, TMCG_OPENPGP_REVCODE_KEY_RETIRED, "retired", issuer, out);
	else if (type == 0x18 || type == 0x13) PGP::PacketSigPrepareSelfSignature(ty, pa, ha, created, 0, flags, issuer, true, out);
	else PGP::PacketSigPrepareCertificationSignature(ty, pa, ha, created, expires, policy, issuer, out);
	if (v == 5 && out.size() > 0) out[0] = 5;       // the library has no v5 preparation for these kinds; it verifies them
}
static gcry_error_t sign_hash(int pk, int hashalgo, const octets &hash, const octets &hashed, const octets &left, octets &sigpkt) {
	gcry_error_t ret; gcry_mpi_t r = gcry_mpi_new(2048), s = gcry_mpi_new(2048);
	if (pk == 1) ret = PGP::AsymmetricSignRSA(hash, K.rsa_sec, (tmcg_openpgp_hashalgo_t)hashalgo, s);
	else if (pk == 17) ret = PGP::AsymmetricSignDSA(hash, K.dsa_sec, r, s);
	else if (pk == 19) ret = PGP::AsymmetricSignECDSA(hash, K.ecdsa_sec, r, s);
	else if (pk == 22) ret = PGP::AsymmetricSignEdDSA(hash, K.eddsa_sec, r, s);
	else ret = gcry_error(GPG_ERR_PUBKEY_ALGO);
	if (!ret) { if (pk == 1) PGP::PacketSigEncode(hashed, left, s, sigpkt); else PGP::PacketSigEncode(hashed, left, r, s, sigpkt); }
	gcry_mpi_release(r); gcry_mpi_release(s);
	return ret;
}
static std::string V(bool b) { return b ? "accept" : "refuse"; }

static json op_sig(const json &in) {
	json g = json::object();
	std::string kind = in["kind"].get<std::string>(); int v = in["v"].get<int>(), type = in["type"].get<int>(), pk = in["pk"].get<int>(), hash = in["hash"].get<int>();
	time_t created = T0 + in["created"].get<long>(), expires = in["expires"].get<long>(), keycreated = T0 + in["keycreated"].get<long>();
	fixed_clock = T0 + in["now"].get<long>();
	std::string scope = in.value("scope", std::string("all"));
	octets keypkt, pubbody, fpr; pub_packet(pk, keycreated, keypkt);
	PGP::PacketBodyExtract(keypkt, 0, pubbody); PGP::FingerprintCompute(pubbody, fpr);
	SigObj o; o.kind = kind; o.data = O(in["doc"]); o.uat = O(in["uat"]); { octets u = O(in["uid"]); o.uid.assign(u.begin(), u.end()); }
	if (kind == "subkey") { octets subpkt; PGP::PacketSubEncode(keycreated, TMCG_OPENPGP_PKALGO_ELGAMAL, K.elg_p, K.elg_g, K.elg_g, K.elg_y, subpkt); PGP::PacketBodyExtract(subpkt, 0, o.subbody); }
	octets hashed, hashv, left, sigpkt;
	std::string policy; { octets po = in.contains("policy") ? O(in["policy"]) : octets(); policy.assign(po.begin(), po.end()); }
	prepare_hashed(kind, v, type, pk, hash, created, expires, fpr, policy, hashed);
	if (!hash_kind(kind, v, pubbody, o, hashed, (tmcg_openpgp_hashalgo_t)hash, hashv, left)) { g["sign"] = "fail"; g["why"] = "hash"; return g; }
	gcry_error_t sr = sign_hash(pk, hash, hashv, hashed, left, sigpkt);
	if (sr) { g["sign"] = "fail"; g["why"] = gcry_strerror(sr); return g; }
	g["sign"] = "ok"; g["sigpkt"] = HEX(sigpkt); g["keypkt"] = HEX(keypkt);
	// untouched, with the digest interposer recording what the verification hashes
	seam_md::begin(); Judged u = judge(sigpkt, keypkt, o); seam_md::end();
	json uj; uj["verify"] = V(u.parsed && u.haskey && u.verify); uj["match"] = V(u.match); uj["valid"] = u.valid ? "valid" : "invalid"; g["untouched"] = uj;
	if (!(v == 5 && (kind == "binary" || kind == "text"))) {       // (v5 document metadata: the drafts differ; not validated)
		json ev; ev["e"] = "VerifyHash"; ev["kind"] = kind; ev["v"] = v; ev["algo"] = hash; ev["hashed"] = J(hashed); ev["verdict"] = u.verify;
		bool keyed = (kind != "binary" && kind != "text" && kind != "alone");
		ev["a"] = keyed ? J(pubbody) : J(o.data);
		ev["b"] = kind == "subkey" ? J(o.subbody) : kind == "certuid" ? J(octets(o.uid.begin(), o.uid.end())) : kind == "certuat" ? J(o.uat) : json::array();
		json md = json::array(), all = seam_md::done_json();       // the last context is the signature hash (before it: key id and fingerprint)
		if (all.size() > 0) md.push_back(all[all.size() - 1]);
		ev["md"] = md; trace(ev);
	}
	std::map<std::string, Tally> ts, tk, to; std::vector<Region> rs, rk;
	g["siglayout"] = layout(in["siggrammar"], sigpkt, rs); g["keylayout"] = layout(in["keygrammar"], keypkt, rk);
	if (scope == "all") {
		for (size_t ri = 0; ri < rs.size(); ri++) for (size_t b = 0; b < rs[ri].len; b++) for (size_t m = 0; m < MASKS.size(); m++) {
			octets t(sigpkt); t[rs[ri].off + b] ^= MASKS[m]; Judged j = judge(t, keypkt, o);
			note(ts[rs[ri].cls], j.accept(), false, j.parsed && j.haskey && j.verify, rs[ri].off + b, MASKS[m], j.crashed);
		}
		for (size_t ri = 0; ri < rk.size(); ri++) for (size_t b = 0; b < rk[ri].len; b++) for (size_t m = 0; m < MASKS.size(); m++) {
			octets t(keypkt); t[rk[ri].off + b] ^= MASKS[m]; Judged j = judge(sigpkt, t, o);
			note(tk[rk[ri].cls], j.accept(), false, j.parsed && j.haskey && j.verify, rk[ri].off + b, MASKS[m], j.crashed);
		}
	}
	// every octet of every part of the signed object
	for (int part = 0; part < 4; part++) {
		size_t n = part == 0 ? o.data.size() : part == 1 ? o.uid.size() : part == 2 ? o.uat.size() : o.subbody.size();
		const char *name = part == 0 ? "data" : part == 1 ? "uid" : part == 2 ? "uat" : "subbody";
		for (size_t b = 0; b < n; b++) for (size_t m = 0; m < MASKS.size(); m++) {
			SigObj t(o);
			if (part == 0) t.data[b] ^= MASKS[m]; else if (part == 1) t.uid[b] = (char)(t.uid[b] ^ MASKS[m]); else if (part == 2) t.uat[b] ^= MASKS[m]; else t.subbody[b] ^= MASKS[m];
			Judged j = judge(sigpkt, keypkt, t);
			note(to[name], j.accept(), false, j.verify, b, MASKS[m], j.crashed);
		}
	}
	g["sig"] = tally_json(ts); g["key"] = tally_json(tk); g["obj"] = tally_json(to);
	return g;
}

static json op_valid(const json &in) {
	json g = json::object();
	time_t c = T0 + in["c"].get<long>(), e = in["e"].get<long>(), k = T0 + in["k"].get<long>(); int h = in["h"].get<int>();
	octets issuer(8, 0x11), hashed, left(2, 0), pkt; gcry_mpi_t s = gcry_mpi_new(64); gcry_mpi_set_ui(s, 0x123457);
	PGP::PacketSigPrepareDetachedSignature(TMCG_OPENPGP_SIGNATURE_BINARY_DOCUMENT, TMCG_OPENPGP_PKALGO_RSA, (tmcg_openpgp_hashalgo_t)h, c, e, "", issuer, hashed);
	PGP::PacketSigEncode(hashed, left, s, pkt);
	int u = in.value("u", 0);
	if (u) {
		// the same signature with subpackets in the unhashed area (the library's encoder always leaves it empty)
		octets usub, body(hashed);
		time_t nowt = T0 + in["now"].get<long>();
		if (u & 1) { usub.push_back(5); usub.push_back(2); for (int b = 3; b >= 0; b--) usub.push_back((tmcg_openpgp_byte_t)((nowt >> (8 * b)) & 0xFF)); }
		if (u & 2) { usub.push_back(5); usub.push_back(3); for (int b = 3; b >= 0; b--) usub.push_back(0); }
		body.push_back((tmcg_openpgp_byte_t)(usub.size() >> 8)); body.push_back((tmcg_openpgp_byte_t)(usub.size() & 0xFF));
		body.insert(body.end(), usub.begin(), usub.end()); body.insert(body.end(), left.begin(), left.end());
		PGP::PacketMPIEncode(s, body);
		pkt.clear(); PGP::PacketTagEncode(2, pkt); PGP::PacketLengthEncode(body.size(), pkt); pkt.insert(pkt.end(), body.begin(), body.end());
	}
	gcry_mpi_release(s);
	TMCG_OpenPGP_Signature *sig = NULL;
	if (!PGP::SignatureParse(pkt, 0, sig) || !sig) { g["valid"] = "unparsed"; return g; }
	fixed_clock = T0 + in["now"].get<long>();
	bool v = sig->CheckValidity(k, 0);
	g["valid"] = v ? "valid" : "invalid"; g["expired"] = sig->expired ? "yes" : "no";
	delete sig; return g;
}

static json op_textcanon(const json &in) {
	json g = json::object(); int pk = in["pk"].get<int>(), v = in["v"].get<int>();
	fixed_clock = T0 + 1000; time_t created = T0 + 900, keycreated = T0;
	octets keypkt, pubbody, fpr; pub_packet(pk, keycreated, keypkt); PGP::PacketBodyExtract(keypkt, 0, pubbody); PGP::FingerprintCompute(pubbody, fpr);
	SigObj o; o.kind = "text"; o.data = O(in["orig"]);
	octets hashed, hashv, left, sigpkt; prepare_hashed("text", v, 1, pk, 8, created, 0, fpr, "", hashed);
	if (!hash_kind("text", v, pubbody, o, hashed, TMCG_OPENPGP_HASHALGO_SHA256, hashv, left) || sign_hash(pk, 8, hashv, hashed, left, sigpkt)) { g["sign"] = "fail"; return g; }
	g["sign"] = "ok"; json acc = json::array();
	json accf = json::array();
	for (size_t k = 0; k < in["variants"].size(); k++) {
		SigObj t(o); t.data = O(in["variants"][k]); acc.push_back(judge(sigpkt, keypkt, t).accept());
		t.viafile = true; accf.push_back(judge(sigpkt, keypkt, t).accept());
	}
	g["accept"] = acc; g["accept_file"] = accf; return g;
}

// ------------------------------------------------------------------------------------------------------------
// encryption
// ------------------------------------------------------------------------------------------------------------
static soctets SO(const octets &o) { soctets s; for (size_t i = 0; i < o.size(); i++) s.push_back(o[i]); return s; }
// outcome of handing a message (packet sequence) and session key material to the library's message decryption
static std::string decrypt_verdict0(const octets &message, const soctets &key, const octets &plain, size_t strip, TMCG_OpenPGP_PrivateSubkey *prv);
static std::string decrypt_verdict(const octets &message, const soctets &key, const octets &plain, size_t strip, TMCG_OpenPGP_PrivateSubkey *prv = NULL) {
	std::string r; guarded = 1;
	if (sigsetjmp(guard_jb, 1) == 0) r = decrypt_verdict0(message, key, plain, strip, prv); else r = "crash";
	guarded = 0; return r;
}
static std::string decrypt_verdict0(const octets &message, const soctets &key, const octets &plain, size_t strip, TMCG_OpenPGP_PrivateSubkey *prv) {
	TMCG_OpenPGP_Message *msg = NULL; std::string res = "refuse";
	if (PGP::MessageParse(message, 0, msg) && msg) {
		soctets sk(key); bool have = true;
		if (prv) { have = false; sk.clear(); for (size_t i = 0; i < msg->PKESKs.size() && !have; i++) { const TMCG_OpenPGP_PKESK *esk = msg->PKESKs[i]; soctets t; if (prv->Decrypt(esk, 0, t)) { sk = t; have = true; } } }
		octets out;
		if (have && msg->Decrypt(sk, 0, out)) {
			bool same = out.size() == plain.size() + strip; for (size_t i = 0; same && i < plain.size(); i++) same = out[i] == plain[i];
			res = same ? "accept" : "accept-wrong";
		}
	}
	if (msg) delete msg;
	return res;
}
static void tamper_packet(const json &grammar, const octets &pkt, const octets &before, const octets &after, const soctets &key, const octets &plain, size_t strip,
		TMCG_OpenPGP_PrivateSubkey *prv, std::map<std::string, Tally> &t, json &g) {
	std::vector<Region> rs; bool ok = layout(grammar, pkt, rs); g["layout"] = ok;
	for (size_t ri = 0; ri < rs.size(); ri++) for (size_t b = 0; b < rs[ri].len; b++) for (size_t m = 0; m < MASKS.size(); m++) {
		octets msg(before); size_t at = msg.size() + rs[ri].off + b; msg.insert(msg.end(), pkt.begin(), pkt.end()); msg.insert(msg.end(), after.begin(), after.end());
		msg[at] ^= MASKS[m];
		std::string r = decrypt_verdict(msg, key, plain, strip, prv);
		note(t[rs[ri].cls], r == "accept", r == "accept-wrong", false, rs[ri].off + b, MASKS[m], r == "crash");
	}
}
static void sha1(const octets &in, octets &out) { PGP::HashCompute(TMCG_OPENPGP_HASHALGO_SHA1, in, out); }
// SEIPD ciphertext of data: with the library's own encryptor (AES-256), or with the bare cipher in CFB mode as any
// other implementation would produce it (mdc = false: the stream without the MDC packet)
static bool seipd_encrypt(int sk, bool lib, const octets &data, const octets &key, bool mdc, octets &enc, soctets &seskey) {
	if (lib) {
		octets prefix, tmp, mdc_in, hash, mdcpkt, litmdc; seskey = SO(key);
		if (PGP::SymmetricEncryptAES256(data, seskey, prefix, true, tmp)) return false;       // yields the prefix (and the key forms)
		mdc_in = prefix; mdc_in.insert(mdc_in.end(), data.begin(), data.end()); mdc_in.push_back(0xD3); mdc_in.push_back(0x14);
		sha1(mdc_in, hash); PGP::PacketMdcEncode(hash, mdcpkt);
		litmdc = data; if (mdc) litmdc.insert(litmdc.end(), mdcpkt.begin(), mdcpkt.end());
		return PGP::SymmetricEncryptAES256(litmdc, seskey, prefix, false, enc) == 0;
	}
	size_t bs = PGP::AlgorithmIVLength((tmcg_openpgp_skalgo_t)sk), ks = PGP::AlgorithmKeyLength((tmcg_openpgp_skalgo_t)sk);
	if (!bs || ks != key.size()) return false;
	octets stream = rnd_octets(bs); stream.push_back(stream[bs - 2]); stream.push_back(stream[bs - 1]);
	stream.insert(stream.end(), data.begin(), data.end());
	if (mdc) { stream.push_back(0xD3); stream.push_back(0x14); octets h; sha1(stream, h); stream.insert(stream.end(), h.begin(), h.end()); }
	gcry_cipher_hd_t hd; if (gcry_cipher_open(&hd, PGP::AlgorithmSymGCRY((tmcg_openpgp_skalgo_t)sk), GCRY_CIPHER_MODE_CFB, 0)) return false;
	bool ok = !gcry_cipher_setkey(hd, key.data(), ks) && !gcry_cipher_setiv(hd, NULL, 0);
	enc.assign(stream.size(), 0);
	ok = ok && !gcry_cipher_encrypt(hd, enc.data(), enc.size(), stream.data(), stream.size());
	gcry_cipher_close(hd);
	seskey.clear(); seskey.push_back((tmcg_openpgp_byte_t)sk); size_t sum = 0; for (size_t i = 0; i < ks; i++) { seskey.push_back(key[i]); sum += key[i]; }
	seskey.push_back((sum >> 8) & 0xFF); seskey.push_back(sum & 0xFF);
	return ok;
}
static json op_seipd(const json &in) {
	json g = json::object(); int sk = in["sk"].get<int>(); bool lib = in["lib"].get<bool>(); octets data = O(in["data"]), key = O(in["key"]);
	octets enc, pkt, none; soctets seskey;
	if (!seipd_encrypt(sk, lib, data, key, true, enc, seskey)) { g["encrypt"] = "fail"; return g; }
	g["encrypt"] = "ok"; PGP::PacketSeipdEncode(enc, pkt); g["pkt"] = HEX(pkt);
	g["untouched"] = decrypt_verdict(pkt, seskey, data, 22);
	std::map<std::string, Tally> t; tamper_packet(in["grammar"], pkt, none, none, seskey, data, 22, NULL, t, g); g["table"] = tally_json(t);
	json sr = json::array();
	for (size_t k = 0; k < in["structs"].size(); k++) {
		std::string op = in["structs"][k][0].get<std::string>(); octets p2, e2(enc); soctets sk2(seskey); size_t strip = 22;
		if (op == "sed") { PGP::PacketSedEncode(enc, p2); }                               // the same ciphertext relabelled as tag 9
		else if (op == "sedhonest") {                                                     // data encrypted without any integrity protection
			strip = 0; octets prefix;
			if (lib) { sk2 = SO(key); e2.clear(); if (PGP::SymmetricEncryptAES256(data, sk2, prefix, true, e2)) { sr.push_back("error"); continue; } }
			else if (!seipd_encrypt(sk, false, data, key, false, e2, sk2)) { sr.push_back("error"); continue; }
			PGP::PacketSedEncode(e2, p2);
		}
		else if (op == "trunc") { size_t n = in["structs"][k][1].get<size_t>(); if (n >= e2.size()) { sr.push_back("refuse"); continue; } e2.resize(e2.size() - n); PGP::PacketSeipdEncode(e2, p2); strip = 22 > n ? 22 - n : 0; }
		else if (op == "append") { size_t n = in["structs"][k][1].get<size_t>(); for (size_t x = 0; x < n; x++) e2.push_back(0x5A); PGP::PacketSeipdEncode(e2, p2); strip = 22 + n; }
		else if (op == "nomdc") { strip = 0; e2.clear(); if (!seipd_encrypt(sk, lib, data, key, false, e2, sk2)) { sr.push_back("error"); continue; } PGP::PacketSeipdEncode(e2, p2); }
		std::string r = decrypt_verdict(p2, sk2, data, strip);
		if (r == "accept-wrong" && (op == "trunc" || op == "append")) r = "accept";       // any acceptance of a cut / extended stream counts
		sr.push_back(r);
	}
	g["structs"] = sr; return g;
}
static json op_sesskey(const json &in) {
	json g = json::object(); octets data = O(in["data"]), key = O(in["key"]), enc, pkt; soctets seskey;
	if (!seipd_encrypt(9, true, data, key, true, enc, seskey)) { g["encrypt"] = "fail"; return g; }
	PGP::PacketSeipdEncode(enc, pkt);
	g["encrypt"] = "ok"; g["verdict"] = decrypt_verdict(pkt, SO(O(in["given"])), data, 22); return g;
}

static json op_aead(const json &in) {
	json g = json::object(); int sk = in["sk"].get<int>(), aead = in["aead"].get<int>(), c = in["c"].get<int>();
	octets data = O(in["data"]), key = O(in["key"]), ad, iv, enc, pkt, none; soctets seskey = SO(key);
	ad.push_back(0xD4); ad.push_back(0x01); ad.push_back(sk); ad.push_back(aead); ad.push_back(c); for (int i = 0; i < 8; i++) ad.push_back(0);
	seam_ci::begin();
	gcry_error_t er = PGP::SymmetricEncryptAEAD(data, seskey, (tmcg_openpgp_skalgo_t)sk, (tmcg_openpgp_aeadalgo_t)aead, (tmcg_openpgp_byte_t)c, ad, 0, iv, enc);
	seam_ci::end();
	{ json ev; ev["e"] = "AeadEnc"; ev["sk"] = sk; ev["aead"] = aead; ev["c"] = c; ev["n"] = data.size(); ev["iv"] = J(iv); ev["ret"] = er ? 1 : 0; ev["outlen"] = enc.size(); ev["calls"] = seam_ci::calls; trace(ev); }
	if (er) { g["encrypt"] = "fail"; g["why"] = gcry_strerror(er); return g; }
	g["encrypt"] = "ok"; g["ctlen"] = enc.size();
	PGP::PacketAeadEncode((tmcg_openpgp_skalgo_t)sk, (tmcg_openpgp_aeadalgo_t)aead, (tmcg_openpgp_byte_t)c, iv, enc, pkt);
	if (pkt.size() < 4096) g["pkt"] = HEX(pkt);
	{ // untouched decryption, recorded
		TMCG_OpenPGP_Message *msg = NULL; octets out; bool ok = PGP::MessageParse(pkt, 0, msg) && msg;
		seam_ci::begin(); bool dec = ok && msg->Decrypt(SO(key), 0, out); seam_ci::end();
		json ev; ev["e"] = "AeadDec"; ev["sk"] = sk; ev["aead"] = aead; ev["c"] = c; ev["n"] = data.size(); ev["iv"] = J(iv); ev["ret"] = dec ? 0 : 1; ev["outlen"] = out.size(); ev["calls"] = seam_ci::calls; trace(ev);
		g["untouched"] = !dec ? "refuse" : (out == data ? "accept" : "accept-wrong");
		if (msg) delete msg;
	}
	std::map<std::string, Tally> t; tamper_packet(in["grammar"], pkt, none, none, SO(key), data, 0, NULL, t, g); g["table"] = tally_json(t);
	// structural tampering on the chunk sequence
	std::vector<Region> rs; layout(in["grammar"], pkt, rs);
	size_t hdr = 0; std::vector<octets> units; octets fin; std::vector<size_t> clen;
	for (size_t ri = 0; ri < rs.size(); ri++) {
		octets part(pkt.begin() + rs[ri].off, pkt.begin() + rs[ri].off + rs[ri].len);
		if (rs[ri].cls == "chunk") { units.push_back(part); clen.push_back(part.size()); }
		else if (rs[ri].cls == "tag") units.back().insert(units.back().end(), part.begin(), part.end());
		else if (rs[ri].cls == "finaltag") fin = part;
		else hdr = rs[ri].off + rs[ri].len;
	}
	json sr = json::array();
	for (size_t k = 0; k < in["structs"].size(); k++) {
		std::string op = in["structs"][k][0].get<std::string>(); size_t a = in["structs"][k][1].get<size_t>(), b = in["structs"][k][2].get<size_t>();
		std::vector<octets> u(units); octets f(fin); octets e2; bool bad = false;
		if (op == "swap") { if (a < u.size() && b < u.size()) std::swap(u[a], u[b]); else bad = true; }
		else if (op == "drop") { if (a < u.size()) u.erase(u.begin() + a); else bad = true; }
		else if (op == "dup") { if (a < u.size()) u.insert(u.begin() + a, u[a]); else bad = true; }
		else if (op == "splice") { if (a < u.size() && b < u.size() && clen[a] >= 32 && clen[b] >= 32) for (size_t x = 0; x < 32; x++) u[a][x] = u[b][x]; else bad = true; }
		else if (op == "dropfinal") f.clear();
		for (size_t x = 0; x < u.size(); x++) e2.insert(e2.end(), u[x].begin(), u[x].end());
		e2.insert(e2.end(), f.begin(), f.end());
		if (op == "trunc") { if (a < e2.size()) e2.resize(e2.size() - a); else bad = true; }
		else if (op == "append") for (size_t x = 0; x < a; x++) e2.push_back(0xA5);
		if (bad) { sr.push_back("error"); continue; }
		octets p2; PGP::PacketAeadEncode((tmcg_openpgp_skalgo_t)sk, (tmcg_openpgp_aeadalgo_t)aead, (tmcg_openpgp_byte_t)c, iv, e2, p2);
		std::string r = decrypt_verdict(p2, SO(key), data, 0);
		if (r == "accept-wrong") r = "accept";                       // an altered message was accepted (the plaintext differs: that is the point)
		sr.push_back(r);
	}
	g["structs"] = sr; (void)hdr; return g;
}

static json op_pkesk(const json &in) {
	json g = json::object(); int algo = in["algo"].get<int>(); std::string curve = in["curve"].get<std::string>(); bool wild = in["wildcard"].get<bool>();
	int kh = in["kdfhash"].get<int>(), ks = in["kdfsym"].get<int>(); octets data = O(in["data"]);
	time_t kt = T0 + 1234; octets subpkt, none; TMCG_OpenPGP_PrivateSubkey *prv = NULL;
	if (algo == 1) { PGP::PacketSubEncode(kt, TMCG_OPENPGP_PKALGO_RSA, K.rsa_n, K.rsa_e, K.rsa_e, K.rsa_e, subpkt);
		prv = new TMCG_OpenPGP_PrivateSubkey(TMCG_OPENPGP_PKALGO_RSA, kt, 0, K.rsa_n, K.rsa_e, K.rsa_p, K.rsa_q, K.rsa_u, K.rsa_d, subpkt); }
	else if (algo == 16) { PGP::PacketSubEncode(kt, TMCG_OPENPGP_PKALGO_ELGAMAL, K.elg_p, K.elg_g, K.elg_g, K.elg_y, subpkt);
		prv = new TMCG_OpenPGP_PrivateSubkey(TMCG_OPENPGP_PKALGO_ELGAMAL, kt, 0, K.elg_p, K.elg_g, K.elg_y, K.elg_x, subpkt); }
	else { int ci = curve == ECDH_CURVES[0] ? 0 : 1; octets oid = curve_oid(curve);
		PGP::PacketSubEncode(kt, TMCG_OPENPGP_PKALGO_ECDH, oid.size(), oid.data(), K.ecdh_q[ci], (tmcg_openpgp_hashalgo_t)kh, (tmcg_openpgp_skalgo_t)ks, subpkt);
		prv = new TMCG_OpenPGP_PrivateSubkey(TMCG_OPENPGP_PKALGO_ECDH, kt, 0, oid.size(), oid.data(), K.ecdh_q[ci], K.ecdh_d[ci], (tmcg_openpgp_hashalgo_t)kh, (tmcg_openpgp_skalgo_t)ks, subpkt); }
	if (!prv->Good()) { g["key"] = "bad"; delete prv; return g; }
	octets enc, seipd, esk, keyid(8, 0); soctets seskey; octets rndkey = rnd_octets(32);
	if (!seipd_encrypt(9, true, data, rndkey, true, enc, seskey)) { g["encrypt"] = "fail"; delete prv; return g; }
	PGP::PacketSeipdEncode(enc, seipd);
	if (!wild) keyid = prv->pub->id;
	gcry_error_t er = 0;
	if (algo == 1) { gcry_mpi_t me = gcry_mpi_new(2048); er = PGP::AsymmetricEncryptRSA(seskey, prv->pub->key, me); if (!er) PGP::PacketPkeskEncode(keyid, me, esk); gcry_mpi_release(me); }
	else if (algo == 16) { gcry_mpi_t gk = gcry_mpi_new(2048), myk = gcry_mpi_new(2048); er = PGP::AsymmetricEncryptElgamal(seskey, prv->pub->key, gk, myk); if (!er) PGP::PacketPkeskEncode(keyid, gk, myk, esk); gcry_mpi_release(gk); gcry_mpi_release(myk); }
	else { gcry_mpi_t epk = gcry_mpi_new(1024); size_t rkwlen = 0; tmcg_openpgp_byte_t rkw[256]; memset(rkw, 0, sizeof(rkw));
		er = PGP::AsymmetricEncryptECDH(seskey, prv->pub->key, (tmcg_openpgp_hashalgo_t)kh, (tmcg_openpgp_skalgo_t)ks, curve, prv->pub->fingerprint, epk, rkwlen, rkw);
		if (!er) PGP::PacketPkeskEncode(keyid, epk, rkwlen, rkw, esk); gcry_mpi_release(epk); }
	if (er) { g["encrypt"] = "fail"; g["why"] = gcry_strerror(er); delete prv; return g; }
	g["encrypt"] = "ok"; g["pkt"] = HEX(esk);
	octets all(esk); all.insert(all.end(), seipd.begin(), seipd.end());
	soctets nokey;
	g["untouched"] = decrypt_verdict(all, nokey, data, 22, prv);
	std::map<std::string, Tally> t; tamper_packet(in["grammar"], esk, none, seipd, nokey, data, 22, prv, t, g); g["table"] = tally_json(t);
	delete prv; return g;
}

static json run_case(const json &c) {
	const std::string op = c["op"].get<std::string>(); const json &in = c["in"];
	if (op == "valid") return op_valid(in);
	if (op == "sig") return op_sig(in);
	if (op == "textcanon") return op_textcanon(in);
	if (op == "seipd") return op_seipd(in);
	if (op == "sesskey") return op_sesskey(in);
	if (op == "aead") return op_aead(in);
	if (op == "pkesk") return op_pkesk(in);
	json g; g["unknown_op"] = op; return g;
}

int main(int argc, char **argv) {
	if (!init_libTMCG()) { fprintf(stderr, "init_libTMCG failed\n"); return 2; }
	quiet_cerr();
	install_terminate("drv_msg");
	install_guard();
	if (argc < 7 || std::string(argv[1]) != "cases") { fprintf(stderr, "usage: drv_msg cases <seed> <masks> <cases.ndjson> <out.ndjson> <trace.ndjson>\n"); return 2; }
	uint64_t seed = strtoull(argv[2], NULL, 10);
	{ std::stringstream ss(argv[3]); std::string tok; while (std::getline(ss, tok, ',')) if (!tok.empty()) MASKS.push_back(atoi(tok.c_str()) & 0xFF); }
	if (MASKS.empty()) MASKS.push_back(1);
	seam::seed(seed); seam::seed_harness(seed);
	gen_keys();
	std::ifstream f(argv[4]); std::ofstream out(argv[5]); std::ofstream tr(argv[6]); trace_out = &tr;
	std::string line; size_t n = 0;
	while (std::getline(f, line)) {
		if (line.empty()) continue;
		json c = json::parse(line);
		json r; r["i"] = c["i"]; r["op"] = c["op"]; r["fam"] = c.value("fam", "");
		r["got"] = run_case(c);
		out << r.dump() << "\n"; out.flush(); n++;
	}
	out.close(); tr.close();
	printf("{\"e\":\"done\",\"cases\":%zu}\n", n);
	return 0;
}
