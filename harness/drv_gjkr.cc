// drv_gjkr: message-level recording of the GJKR distributed key generation (GennaroJareckiKrawczykRabinDKG::
// Generate incl. Reconstruct) for spec/GJKRTrace.tla.  n real party objects run under the deterministic simulator
// (sim.hh) on real CachinKursawePetzoldShoupRBC objects; every message a party broadcasts, sends privately or
// receives is logged at the interface between the protocol and its two channels (gjkr_log.hh), followed by what the
// party ends up with.  Deviating parties: the library's simulate_faulty_behaviour switch (role 1) or a real object
// whose outgoing messages are rewritten by a script (role 7).
//   drv_gjkr run <seed> <executions> <trace-out.ndjson> [maxn]
//   drv_gjkr one <json> <trace-out.ndjson>
// Needs the link flags of checks/gjkr_common.py (-Wl,--wrap=... for the four broadcast calls).
#include "common.hh"
#include <list>
#include <deque>
#include <algorithm>
#include <mutex>
#define private public
#define protected public
#include "libTMCG.hh"
#undef private
#undef protected
#include "mpz_helper.hh"
#include "sim.hh"
#include "gjkr_log.hh"

static Mpz GP, GQ, GG, GH;
static std::mutex outmu;
static unsigned long rnd(unsigned long m) { return m ? (unsigned long)(seam::next64() % m) : 0; }
static json vec_j(const std::vector<mpz_ptr> &v) { json a = json::array(); for (size_t k = 0; k < v.size(); k++) a.push_back(gj::val(v[k])); return a; }
static json qual_j(const std::vector<size_t> &q) { json a = json::array(); for (size_t k = 0; k < q.size(); k++) a.push_back(q[k]); return a; }

class StampBuf : public std::stringbuf {
	public:
		sim::Sched *sc; std::string acc; bool bol;
		StampBuf(sim::Sched *s): sc(s), bol(true) {}
		virtual int overflow(int ch) {
			if (ch == EOF) return ch;
			if (bol) { acc += "[" + std::to_string(sc->vclock - 1000000) + "] "; bol = false; }
			acc.push_back((char)ch);
			if (ch == '\n') bol = true;
			return ch;
		}
		virtual std::streamsize xsputn(const char *s, std::streamsize n) { for (std::streamsize k = 0; k < n; k++) overflow(s[k]); return n; }
};

// (p, q, k): Schnorr groups p = kq + 1, p <= 46337
static const long GROUPS[][3] = { {2063, 1031, 2}, {46199, 23099, 2}, {46327, 1103, 42}, {23, 11, 2}, {47, 23, 2}, {11, 5, 2} };
static const int NGROUPS = 6;

struct Cfg { size_t n, t, trbc; long gi; std::vector<int> role; json devs; unsigned long seed; bool rndorder; long g, h; };

static json cfg_json(const Cfg &c) {
	json j; j["n"] = c.n; j["t"] = c.t; j["trbc"] = c.trbc; j["gi"] = c.gi; j["role"] = c.role; j["devs"] = c.devs; j["seed"] = c.seed; j["rnd"] = c.rndorder;
	j["g"] = c.g; j["h"] = c.h;
	return j;
}

static void run_exec(std::ofstream &out, const Cfg &c) {
	seam::seed_harness(c.seed * 31UL + 7); seam::seed(c.seed * 17UL + 3);
	long p = GROUPS[c.gi][0], q = GROUPS[c.gi][1], k = GROUPS[c.gi][2];
	GP = Mpz(p); GQ = Mpz(q);
	if (c.g > 0) { GG = Mpz(c.g); GH = Mpz(c.h); }
	else {
		{ Mpz b(2 + rnd(20)); mpz_powm_ui(GG, b, (unsigned long)k, GP); while (mpz_cmp_ui(GG.v, 1) <= 0) { mpz_add_ui(b, b, 1); mpz_powm_ui(GG, b, (unsigned long)k, GP); } }
		{ Mpz e(2 + rnd(q - 3)); mpz_powm(GH, GG, e, GP); }
	}
	size_t n = c.n, t = c.t;
	json ev = cfg_json(c); ev["e"] = "Reset"; ev["grp"] = {p, q, GG.l(), GH.l()}; ev["g"] = GG.l(); ev["h"] = GH.l();
	out << ev.dump() << "\n";
	sim::Sched sc(n, c.seed, c.rndorder);
	sim::Net netu(n), netb(n);
	std::vector<bool> active(n, true);
	size_t fbits = mpz_sizeinbase(GP, 2), sbits = mpz_sizeinbase(GQ, 2);
	time_t TO = aiounicast::aio_timeout_middle;
	seam::clear_log(); seam::record(true);
	gj::ctx.assign(n, gj::Ctx());
	for (size_t i = 0; i < n; i++) {
		gj::Ctx &x = gj::ctx[i];
		x.i = i; x.n = n; x.t = t; x.role = c.role[i]; x.out = &out; x.mu = &outmu; x.p = GP; x.q = GQ; x.g = GG;
		x.sends_to.assign(n, 0);
		if (c.role[i] == 7) {
			x.devs = c.devs;
			for (auto &d : x.devs) if (d["op"] == "silent") x.silent_from = std::min(x.silent_from, gj::ph_of(d["ph"].get<std::string>()));
		}
	}
	sim::run(sc, active, [&](size_t i) {
		gj::Ctx &x = gj::ctx[i];
		bool faulty = (c.role[i] == 1);
		gj::LogAio *aiou = new gj::LogAio(&netu, &sc, i, TO);
		sim::Aio *aiou2 = new sim::Aio(&netb, &sc, i, TO);
		CachinKursawePetzoldShoupRBC *rbc = new CachinKursawePetzoldShoupRBC(n, c.trbc, i, aiou2, aiounicast::aio_scheduler_roundrobin, TO);
		StampBuf sb(&sc); std::ostream err(&sb);
		json o; o["e"] = "Done"; o["i"] = i; o["role"] = c.role[i];
		try {
			GennaroJareckiKrawczykRabinDKG dkg(n, t, i, GP, GQ, GG, GH, fbits, sbits, false, false);
			x.dkg = &dkg; x.coin_mark = seam::log().size(); x.active = true;
			rbc->setID("drv_gjkr");
			o["okgrp"] = dkg.CheckGroup();
			bool ret = dkg.Generate(aiou, rbc, err, faulty);
			x.active = false;
			o["ret"] = ret; o["qual"] = qual_j(dkg.QUAL); o["x"] = gj::val(dkg.x_i); o["xp"] = gj::val(dkg.xprime_i); o["y"] = gj::val(dkg.y);
			o["v"] = vec_j(dkg.v_i); o["yi"] = vec_j(dkg.y_i); o["z"] = vec_j(dkg.z_i);
			json C = json::array(); for (size_t a = 0; a < n; a++) C.push_back(vec_j(dkg.C_ik[a])); o["C"] = C;
			json S = json::array(), SP = json::array();
			for (size_t a = 0; a < n; a++) { S.push_back(gj::val(dkg.s_ij[a][i])); SP.push_back(gj::val(dkg.sprime_ij[a][i])); }
			o["s"] = S; o["sp"] = SP;                 // the share pair this party holds from every dealer
			o["ck"] = ret ? dkg.CheckKey() : false;
			x.dkg = NULL;
		} catch (std::exception &ex) { o["exc"] = ex.what(); x.active = false; x.dkg = NULL; }
		sc.barrier(i, [&]() { Mpz tmp; size_t l = 0; rbc->Deliver(tmp, l, aiounicast::aio_scheduler_roundrobin, 0); });
		if (getenv("VERIF_VERBOSE")) { std::string lg = sb.acc; o["log"] = lg.size() > 30000 ? lg.substr(lg.size() - 30000) : lg; }
		o["vclock"] = sc.vclock - 1000000;
		{ std::lock_guard<std::mutex> lk(outmu); out << o.dump() << "\n"; }
		delete rbc; delete aiou; delete aiou2;
	});
	seam::record(false); seam::clear_log();
	json e2; e2["e"] = "End"; e2["switches"] = sc.switches; e2["vclock"] = sc.vclock - 1000000;
	out << e2.dump() << "\n";
}

// the deviation catalogue of the scripted party f (victim v: another party)
static json pick_devs(size_t n, size_t t, size_t f, long q, unsigned long kind) {
	json d = json::array();
	size_t v = (f + 1 + rnd(n - 1)) % n, v2 = (f + 1 + rnd(n - 1)) % n;
	long ds = 1 + (long)rnd(std::min<long>(q - 1, 5));
	auto D = [&](std::initializer_list<std::pair<const char *, json> > kv) { json o; for (auto &x : kv) o[x.first] = x.second; d.push_back(o); };
	static const char *PHS[] = {"C", "S", "K", "N", "A", "X", "R"};
	switch (kind) {
	case 0: D({{"op", "share"}, {"to", v}, {"ds", ds}, {"dsp", 0}}); break;                                  // wrong share to one recipient, answered honestly
	case 1: D({{"op", "share"}, {"to", v}, {"ds", 0}, {"dsp", ds}}); break;
	case 2: D({{"op", "share"}, {"to", v}, {"ds", ds}, {"dsp", 0}}); D({{"op", "noans"}, {"who", v}}); break;   // ... and the complaint left unanswered
	case 3: D({{"op", "share"}, {"to", v}, {"ds", ds}, {"dsp", 0}}); D({{"op", "badans"}, {"who", v}, {"ds", ds}}); break;   // ... answered with the wrong share
	case 4: D({{"op", "fcompl"}, {"who", v}}); break;                                                     // false complaint
	case 5: D({{"op", "silent"}, {"ph", PHS[rnd(7)]}}); break;                                             // silence from a phase on
	case 6: D({{"op", "badA"}, {"k", rnd(t + 1)}, {"mode", rnd(2) ? "mul" : "add"}}); break;               // wrong A_ik
	case 7: D({{"op", "xcompl"}, {"who", v}, {"mode", rnd(2) ? "real" : "bogus"}}); break;                 // complaint without cause in the extraction
	case 8: D({{"op", "badA"}, {"k", rnd(t + 1)}, {"mode", "mul"}}); D({{"op", "badrec"}}); break;           // wrong share published in the reconstruction (of itself: ignored)
	case 9: D({{"op", "badC"}, {"k", rnd(t + 1)}}); break;                                                 // commitments that fit nobody's share
	case 10: D({{"op", "fcompl"}, {"who", v}}); D({{"op", "xcompl"}, {"who", v2}, {"mode", "real"}}); break;
	case 11: D({{"op", "share"}, {"to", v}, {"ds", ds}, {"dsp", 0}}); D({{"op", "silent"}, {"ph", "N"}}); break;          // wrong share, then silence when the answer is due
	case 12: D({{"op", "extraans"}, {"who", v}, {"ds", 0}}); break;                                        // publishes a share nobody complained about
	case 13: D({{"op", "extraans"}, {"who", v}, {"ds", ds}}); break;                                       // ... a wrong one
	case 14: D({{"op", "share"}, {"to", v}, {"ds", ds}, {"dsp", 0}}); D({{"op", "badA"}, {"k", rnd(t + 1)}, {"mode", "mul"}}); break;
	default: D({{"op", "share"}, {"to", v}, {"ds", ds}, {"dsp", 0}}); D({{"op", "share"}, {"to", v2}, {"ds", 0}, {"dsp", ds}}); break; // wrong shares to two recipients (> t complaints when t = 1 and v != v2)
	}
	return d;
}
static const unsigned long NKINDS = 16;

int main(int argc, char **argv) {
	install_terminate("drv_gjkr");
	quiet_cerr();
	if (!init_libTMCG()) { fprintf(stderr, "init_libTMCG failed\n"); return 2; }
	if (argc >= 5 && !strcmp(argv[1], "run")) {
		unsigned long seed = strtoul(argv[2], NULL, 10); long execs = atol(argv[3]);
		std::ofstream out(argv[4]);
		size_t maxn = argc > 5 ? (size_t)atol(argv[5]) : 5;
		std::string only = argc > 6 ? argv[6] : "";          // restrict the deviation kinds: comma separated list
		std::vector<unsigned long> kinds;
		{ std::stringstream ss(only); std::string tok; while (std::getline(ss, tok, ',')) if (!tok.empty()) kinds.push_back(strtoul(tok.c_str(), NULL, 10)); }
		for (long x = 0; x < execs; x++) {
			seam::seed_harness(seed * 1000003UL + x);
			Cfg c; c.seed = seed * 131 + x; c.rndorder = rnd(2); c.g = c.h = 0;
			c.n = 3 + rnd(maxn - 2);
			size_t tmax = (c.n - 1) / 2;
			c.t = (rnd(4) == 0) ? 1 + rnd(tmax) : tmax;
			c.trbc = std::min(c.t, (c.n - 1) / 3);
			c.role.assign(c.n, 0); c.devs = json::array();
			c.gi = (long)rnd(NGROUPS); if (GROUPS[c.gi][1] <= (long)c.n + 1) c.gi = 3;
			unsigned long what = rnd(10);        // 0: nobody deviates, 1-2: library switch, 3..: script
			size_t f = rnd(c.n);
			if (what >= 1 && what <= 2) { c.role[f] = 1; if (c.t >= 2 && rnd(2)) c.role[(f + 1 + rnd(c.n - 1)) % c.n] = 1; }
			else if (what >= 3) {
				c.role[f] = 7;
				unsigned long kind = kinds.empty() ? rnd(NKINDS) : kinds[rnd(kinds.size())];
				c.devs = pick_devs(c.n, c.t, f, GROUPS[c.gi][1], kind);
				if (c.t >= 2 && rnd(3) == 0) c.role[(f + 1 + rnd(c.n - 1)) % c.n] = 1;      // a second deviating party
			}
			if (getenv("VERIF_ONLY") && atol(getenv("VERIF_ONLY")) != x) continue;
			run_exec(out, c);
		}
		return 0;
	}
	if (argc >= 4 && !strcmp(argv[1], "one")) {
		json j = json::parse(argv[2]);
		std::ofstream out(argv[3]);
		Cfg c; c.n = j["n"]; c.t = j["t"]; c.trbc = j.value("trbc", std::min<size_t>(c.t, (c.n - 1) / 3)); c.gi = j["gi"];
		c.role = j["role"].get<std::vector<int> >(); c.devs = j.value("devs", json::array()); c.seed = j["seed"]; c.rndorder = j.value("rnd", false);
		c.g = j.value("g", 0L); c.h = j.value("h", 0L);
		run_exec(out, c);
		return 0;
	}
	fprintf(stderr, "usage: drv_gjkr run <seed> <execs> <trace> [maxn] [kinds] | one <json> <trace>\n");
	return 2;
}
