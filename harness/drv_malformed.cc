// drv_malformed (built with ASan/UBSan): feeds structure-aware mutations of valid exports / parameter streams /
// OpenPGP data to the library's importers, stream constructors and parsers, each case in a forked child with a
// CPU and address-space limit.  Outcome per case: refused | accepted | exception | crash(signal / sanitizer) | timeout.
//   drv_malformed samples <out.ndjson>           valid samples: type, number of fields, number of characters
//   drv_malformed run <cases.ndjson> <out.ndjson> cases: {type, op, k, v} (descriptors enumerated by spec/Malformed.tla)
#include "common.hh"
#include <list>
#include <deque>
#include <algorithm>
#include <sys/wait.h>
#include <sys/resource.h>
#include <fcntl.h>
#include <signal.h>
#define private public
#define protected public
#include "libTMCG.hh"
#undef private
#undef protected
#include "mpz_helper.hh"
typedef CallasDonnerhackeFinneyShawThayerRFC4880 PGP;

static const char *DELIMS = "|^\n";
struct Sample { std::string type, text; bool binary; };
static std::vector<Sample> samples;

// ---- tokenisation: fields are the maximal runs between delimiter characters
static std::vector<std::pair<size_t, size_t> > fields(const std::string &s) {      // (start, len)
	std::vector<std::pair<size_t, size_t> > f; size_t st = 0;
	for (size_t i = 0; i <= s.size(); i++)
		if (i == s.size() || strchr(DELIMS, s[i])) { f.push_back(std::make_pair(st, i - st)); st = i + 1; }
	return f;
}
// one OpenPGP packet of the given kind (for the packet-sequence cases)
static std::string pgp_packet(const std::string &kind) {
	typedef CallasDonnerhackeFinneyShawThayerRFC4880 R;
	tmcg_openpgp_octets_t o;
	gcry_mpi_t n = gcry_mpi_new(1024), e = gcry_mpi_set_ui(NULL, 65537), s = gcry_mpi_new(1024);
	gcry_mpi_set_bit(n, 1023); gcry_mpi_set_bit(n, 0); gcry_mpi_set_bit(s, 1000); gcry_mpi_set_bit(s, 3);
	auto rawkey = [&](tmcg_openpgp_byte_t tag, tmcg_openpgp_byte_t algo) {      // V4 key packet with an algorithm the library does not know
		tmcg_openpgp_octets_t body; body.push_back(4); body.push_back(0x59); body.push_back(0x68); body.push_back(0x2F); body.push_back(0x00); body.push_back(algo);
		R::PacketMPIEncode(n, body); R::PacketMPIEncode(e, body);
		R::PacketTagEncode(tag, o); R::PacketLengthEncode(body.size(), o); o.insert(o.end(), body.begin(), body.end());
	};
	if (kind == "pub") R::PacketPubEncode(1500000000, TMCG_OPENPGP_PKALGO_RSA, n, e, e, e, o);
	else if (kind == "sub") R::PacketSubEncode(1500000000, TMCG_OPENPGP_PKALGO_RSA, n, e, e, e, o);
	else if (kind == "uid") R::PacketUidEncode("Alice <alice@example.org>", o);
	else if (kind == "sig" || kind == "subsig") {
		tmcg_openpgp_octets_t hashed, left, flags, issuer; flags.push_back(0x03); for (int i = 0; i < 8; i++) issuer.push_back((tmcg_openpgp_byte_t)(0x10 + i));
		if (kind == "sig") R::PacketSigPrepareSelfSignature(TMCG_OPENPGP_SIGNATURE_POSITIVE_CERTIFICATION, TMCG_OPENPGP_PKALGO_RSA, TMCG_OPENPGP_HASHALGO_SHA256, 1500000000, 1000, flags, issuer, false, hashed);
		else R::PacketSigPrepareSelfSignature(TMCG_OPENPGP_SIGNATURE_SUBKEY_BINDING, TMCG_OPENPGP_PKALGO_RSA, TMCG_OPENPGP_HASHALGO_SHA256, 1500000000, 1000, flags, issuer, false, hashed);
		left.push_back(0xAB); left.push_back(0xCD); R::PacketSigEncode(hashed, left, s, o);
	}
	else if (kind == "subx") rawkey(14, 100);
	else if (kind == "pubx") rawkey(6, 100);
	else { tmcg_openpgp_octets_t body; body.push_back('P'); body.push_back('G'); body.push_back('P'); R::PacketTagEncode(10, o); R::PacketLengthEncode(body.size(), o); o.insert(o.end(), body.begin(), body.end()); }   // marker
	gcry_mpi_release(n); gcry_mpi_release(e); gcry_mpi_release(s);
	return std::string(o.begin(), o.end());
}
static std::string apply(const Sample &sm, const json &c, bool &ok) {
	std::string s = sm.text; ok = true;
	std::string op = c["op"]; size_t k = c.value("k", 0);
	if (op == "PktSeq") { s.clear(); for (size_t x = 0; x < c["v"].size(); x++) s += pgp_packet(c["v"][x].get<std::string>()); return s; }
	if (op == "TruncChar") { if (k > s.size()) ok = false; else s = s.substr(0, k); return s; }
	if (op == "FlipByte") { if (k >= s.size()) ok = false; else s[k] = (char)(s[k] ^ (int)c.value("v", 1)); return s; }
	if (op == "SetBytes" || op == "InsBytes") {
		if (k >= s.size()) { ok = false; return s; }
		std::string v; for (size_t x = 0; x < c["v"].size(); x++) v.push_back((char)(int)c["v"][x]);
		if (op == "InsBytes") s.insert(k, v); else s.replace(k, std::min(v.size(), s.size() - k), v);
		return s;
	}
	if (op == "SetByte") { if (k >= s.size()) ok = false; else s[k] = (char)(int)c.value("v", 0); return s; }
	std::vector<std::pair<size_t, size_t> > f = fields(s);
	if (k >= f.size()) { ok = false; return s; }
	size_t st = f[k].first, ln = f[k].second;
	if (op == "DelField") { size_t end = std::min(s.size(), st + ln + 1); s.erase(st, end - st); }
	else if (op == "DupField") { std::string piece = s.substr(st, std::min(s.size() - st, ln + 1)); s.insert(st, piece); }
	else if (op == "SetField" || op == "SetDim") s.replace(st, ln, c["v"].get<std::string>());
	else if (op == "TruncField") s = s.substr(0, st);
	else if (op == "SwapFields") {
		if (k + 1 >= f.size()) { ok = false; return s; }
		std::string a = s.substr(st, ln), b = s.substr(f[k + 1].first, f[k + 1].second);
		s.replace(f[k + 1].first, f[k + 1].second, a); s.replace(st, ln, b);
	} else ok = false;
	return s;
}

// ---- small valid objects
static Mpz P(2063), Q(1031), G(4), H(16), K(2);
static std::string grp_stream(bool with_k) { std::ostringstream o; o << (mpz_srcptr)P.v << std::endl << (mpz_srcptr)Q.v << std::endl << (mpz_srcptr)G.v << std::endl; if (with_k) o << (mpz_srcptr)K.v << std::endl; return o.str(); }
static BarnettSmartVTMF_dlog *mkvtmf() { std::istringstream is(grp_stream(true)); return new BarnettSmartVTMF_dlog(is, 12, 11, false, true); }
static TMCG_SecretKey *the_key = NULL;

static void build_samples() {
	BarnettSmartVTMF_dlog *vt = mkvtmf();
	vt->KeyGenerationProtocol_GenerateKey(); vt->KeyGenerationProtocol_Finalize();
	SchindelhauerTMCG tm(4, 2, 3);
	{ VTMF_Card c; VTMF_CardSecret cs; tm.TMCG_CreatePrivateCard(c, cs, vt, 5);
	  std::ostringstream a, b; a << c; b << cs; samples.push_back({"vcard", a.str(), false}); samples.push_back({"vcsec", b.str(), false});
	  TMCG_Stack<VTMF_Card> st; for (int i = 0; i < 3; i++) { VTMF_Card ci; tm.TMCG_CreateOpenCard(ci, vt, i); st.push(ci); }
	  TMCG_StackSecret<VTMF_CardSecret> ss; tm.TMCG_CreateStackSecret(ss, false, 3, vt);
	  std::ostringstream d, e; d << st; e << ss; samples.push_back({"vstack", d.str(), false}); samples.push_back({"vssec", e.str(), false});
	  // a cut-and-choose transcript for the verifier's receiving side
	  TMCG_Stack<VTMF_Card> s2; tm.TMCG_MixStack(st, s2, ss, vt);
	  std::stringstream pin, pout; pin << 2 << std::endl << 0 << std::endl << 1 << std::endl;
	  tm.TMCG_ProveStackEquality(st, s2, ss, false, vt, pin, pout);
	  samples.push_back({"ccproof", pout.str(), false});
	  std::ostringstream kp; vt->KeyGenerationProtocol_PublishKey(kp); samples.push_back({"keyproof", kp.str(), false});
	}
	// QR-encoded cards with a real (small) key
	the_key = new TMCG_SecretKey("Alice", "alice@example.org", 704, false);
	{ TMCG_PublicKey pk(*the_key); TMCG_PublicKeyRing ring(2); ring.keys[0] = pk; ring.keys[1] = pk;
	  TMCG_Card c(2, 3); TMCG_CardSecret cs(2, 3); tm.TMCG_CreatePrivateCard(c, cs, ring, 0, 5);
	  std::ostringstream a, b; a << c; b << cs; samples.push_back({"qcard", a.str(), false}); samples.push_back({"qcsec", b.str(), false});
	  TMCG_Stack<TMCG_Card> st; st.push(c); st.push(c);
	  TMCG_StackSecret<TMCG_CardSecret> ss; tm.TMCG_CreateStackSecret(ss, false, ring, 0, 2);
	  std::ostringstream d, e, f, g; d << st; e << ss; f << pk; g << *the_key;
	  samples.push_back({"qstack", d.str(), false}); samples.push_back({"qssec", e.str(), false});
	  // a cut-and-choose transcript of the QR variant for the verifier's receiving side
	  { TMCG_Stack<TMCG_Card> s2q; tm.TMCG_MixStack(st, s2q, ss, ring);
	    std::stringstream pin, pout; pin << 2 << std::endl << 0 << std::endl << 1 << std::endl;
	    tm.TMCG_ProveStackEquality(st, s2q, ss, false, ring, 0, pin, pout);
	    samples.push_back({"qccproof", pout.str(), false}); }
	  samples.push_back({"pubkey", f.str(), false}); samples.push_back({"seckey", g.str(), false});
	  samples.push_back({"sig", the_key->sign("data"), false});
	  samples.push_back({"enc", pk.encrypt((const unsigned char*)"01234567890123456789"), false});
	}
	// parameter streams
	samples.push_back({"g_vtmf", grp_stream(true), false});
	samples.push_back({"g_vtmfqr", grp_stream(true), false});
	{ std::ostringstream o; PedersenCommitmentScheme com(2, P, Q, K, H, 12, 11); com.PublishGroup(o); samples.push_back({"g_com", o.str(), false}); }
	{ std::ostringstream o; GrothVSSHE v(2, P, Q, K, G, H, 12, 11); v.PublishGroup(o); samples.push_back({"g_vsshe", o.str(), false}); }
	{ std::ostringstream o; HooghSchoenmakersSkoricVillegasVRHE v(P, Q, G, H, 12, 11); v.PublishGroup(o); samples.push_back({"g_vrhe", o.str(), false}); }
	{ std::ostringstream o; PedersenVSS v(3, 1, 0, P, Q, G, H, 12, 11, false); v.PublishState(o); samples.push_back({"g_vss", o.str(), false}); }
	{ std::ostringstream o; GennaroJareckiKrawczykRabinDKG v(3, 1, 0, P, Q, G, H, 12, 11, false, false); v.PublishState(o); samples.push_back({"g_gjkr", o.str(), false}); }
	{ std::ostringstream o; CanettiGennaroJareckiKrawczykRabinRVSS v(3, 1, 0, 1, P, Q, G, H, 12, 11, false, false); v.PublishState(o); samples.push_back({"g_rvss", o.str(), false}); }
	{ std::ostringstream o; CanettiGennaroJareckiKrawczykRabinDKG v(3, 1, 0, P, Q, G, H, 12, 11, false, false); v.PublishState(o); samples.push_back({"g_cdkg", o.str(), false}); }
	{ std::ostringstream o; CanettiGennaroJareckiKrawczykRabinDSS v(3, 1, 0, P, Q, G, H, 12, 11, false, false); v.PublishState(o); samples.push_back({"g_dss", o.str(), false}); }
	samples.push_back({"g_eotp", grp_stream(false), false});
	// OpenPGP: packets built with the library's encoders (the signature is not valid - only the parsers are exercised)
	{ tmcg_openpgp_octets_t pub, uid, sig, hashed, left, flags, issuer, all, lit, data, mdc, seipd;
	  gcry_mpi_t n = gcry_mpi_new(1024), e = gcry_mpi_set_ui(NULL, 65537), s = gcry_mpi_new(1024);
	  gcry_mpi_set_bit(n, 1023); gcry_mpi_set_bit(n, 0); gcry_mpi_set_bit(s, 1000); gcry_mpi_set_bit(s, 3);
	  PGP::PacketPubEncode(1500000000, TMCG_OPENPGP_PKALGO_RSA, n, e, e, e, pub);
	  PGP::PacketUidEncode("Alice <alice@example.org>", uid);
	  flags.push_back(0x03); for (int i = 0; i < 8; i++) issuer.push_back((tmcg_openpgp_byte_t)(0x10 + i));
	  PGP::PacketSigPrepareSelfSignature(TMCG_OPENPGP_SIGNATURE_POSITIVE_CERTIFICATION, TMCG_OPENPGP_PKALGO_RSA, TMCG_OPENPGP_HASHALGO_SHA256, 1500000000, 1000, flags, issuer, false, hashed);
	  left.push_back(0xAB); left.push_back(0xCD);
	  PGP::PacketSigEncode(hashed, left, s, sig);
	  all.insert(all.end(), pub.begin(), pub.end()); all.insert(all.end(), uid.begin(), uid.end()); all.insert(all.end(), sig.begin(), sig.end());
	  std::string arm; PGP::ArmorEncode(TMCG_OPENPGP_ARMOR_PUBLIC_KEY_BLOCK, all, arm);
	  samples.push_back({"pgp_keyblock_armor", arm, false});
	  samples.push_back({"pgp_keyblock", std::string(all.begin(), all.end()), true});
	  std::string sarm; PGP::ArmorEncode(TMCG_OPENPGP_ARMOR_SIGNATURE, sig, sarm); samples.push_back({"pgp_sig_armor", sarm, false});
	  samples.push_back({"pgp_sig", std::string(sig.begin(), sig.end()), true});
	  for (int i = 0; i < 40; i++) data.push_back((tmcg_openpgp_byte_t)('a' + i % 26));
	  PGP::PacketLitEncode(data, lit);
	  std::string marm; PGP::ArmorEncode(TMCG_OPENPGP_ARMOR_MESSAGE, lit, marm); samples.push_back({"pgp_msg_armor", marm, false});
	  samples.push_back({"pgp_msg", std::string(lit.begin(), lit.end()), true});
	  PGP::PacketSeipdEncode(data, seipd); samples.push_back({"pgp_seipd", std::string(seipd.begin(), seipd.end()), true});
	  gcry_mpi_release(n); gcry_mpi_release(e); gcry_mpi_release(s);
	}
	delete vt;
}

// ---- the consumers; return 0 refused, 1 accepted
static int consume(const std::string &type, const std::string &s) {
	std::istringstream in(s);
	if (type == "vcard") { VTMF_Card c; bool r = c.import(s); if (r) { std::ostringstream o; o << c; } return r; }
	if (type == "vcsec") { VTMF_CardSecret c; bool r = c.import(s); if (r) { std::ostringstream o; o << c; } return r; }
	if (type == "qcard") { TMCG_Card c; bool r = c.import(s); if (r) { std::ostringstream o; o << c; } return r; }
	if (type == "qcsec") { TMCG_CardSecret c; bool r = c.import(s); if (r) { std::ostringstream o; o << c; } return r; }
	if (type == "vstack") { TMCG_Stack<VTMF_Card> c; bool r = c.import(s); if (r) { std::ostringstream o; o << c; } return r; }
	if (type == "qstack") { TMCG_Stack<TMCG_Card> c; bool r = c.import(s); if (r) { std::ostringstream o; o << c; } return r; }
	if (type == "vssec") { TMCG_StackSecret<VTMF_CardSecret> c; bool r = c.import(s); if (r) { std::ostringstream o; o << c; } return r; }
	if (type == "qssec") { TMCG_StackSecret<TMCG_CardSecret> c; bool r = c.import(s); if (r) { std::ostringstream o; o << c; } return r; }
	if (type == "pubkey") { TMCG_PublicKey k; bool r = k.import(s); if (r) { r = k.check(); if (r) { k.verify("data", the_key->sign("data")); k.encrypt((const unsigned char*)"01234567890123456789"); } } return r; }
	if (type == "seckey") { TMCG_SecretKey k; bool r = k.import(s); if (r) { r = k.check(); if (r) { k.sign("x"); } } return r; }
	if (type == "sig") { TMCG_PublicKey pk(*the_key); return pk.verify("data", s); }
	if (type == "enc") { unsigned char out[64]; return the_key->decrypt(out, s); }
	if (type == "ccproof") {
		BarnettSmartVTMF_dlog *vt = mkvtmf(); vt->KeyGenerationProtocol_GenerateKey(); vt->KeyGenerationProtocol_Finalize();
		SchindelhauerTMCG tm(2, 2, 3);
		TMCG_Stack<VTMF_Card> st, s2; for (int i = 0; i < 3; i++) { VTMF_Card ci; tm.TMCG_CreateOpenCard(ci, vt, i); st.push(ci); s2.push(ci); }
		std::ostringstream vo; bool r = tm.TMCG_VerifyStackEquality(st, s2, false, vt, in, vo); delete vt; return r;
	}
	if (type == "qccproof") {
		TMCG_PublicKey pk(*the_key); TMCG_PublicKeyRing ring(2); ring.keys[0] = pk; ring.keys[1] = pk;
		SchindelhauerTMCG tm(2, 2, 3);
		TMCG_Stack<TMCG_Card> st, s2; for (int i = 0; i < 2; i++) { TMCG_Card ci(2, 3); tm.TMCG_CreateOpenCard(ci, ring, i); st.push(ci); s2.push(ci); }
		std::ostringstream vo; return tm.TMCG_VerifyStackEquality(st, s2, false, ring, in, vo);
	}
	if (type == "keyproof") { BarnettSmartVTMF_dlog *vt = mkvtmf(); vt->KeyGenerationProtocol_GenerateKey(); bool r = vt->KeyGenerationProtocol_UpdateKey(in); delete vt; return r; }
	if (type == "g_vtmf") { BarnettSmartVTMF_dlog v(in, 12, 11, false, true); bool r = v.CheckGroup(); Mpz a(5); v.CheckElement(a); return r; }
	if (type == "g_vtmfqr") { BarnettSmartVTMF_dlog_GroupQR v(in, 12, 11); return v.CheckGroup(); }
	if (type == "g_com") { PedersenCommitmentScheme v(2, in, 12, 11); return v.CheckGroup(); }
	if (type == "g_vsshe") { GrothVSSHE v(2, in, 12, 11); return v.CheckGroup(); }
	if (type == "g_vrhe") { HooghSchoenmakersSkoricVillegasVRHE v(in, 12, 11); return v.CheckGroup(); }
	if (type == "g_vss") { PedersenVSS v(in, 12, 11, false); return v.CheckGroup(); }
	if (type == "g_gjkr") { GennaroJareckiKrawczykRabinDKG v(in, 12, 11, false, false); bool r = v.CheckGroup(); if (r) v.CheckKey(); return r; }
	if (type == "g_rvss") { CanettiGennaroJareckiKrawczykRabinRVSS v(in, 12, 11, false, false); return v.CheckGroup(); }
	if (type == "g_cdkg") { CanettiGennaroJareckiKrawczykRabinDKG v(in, 12, 11, false, false); return v.CheckGroup(); }
	if (type == "g_dss") { CanettiGennaroJareckiKrawczykRabinDSS v(in, 12, 11, false, false); return v.CheckGroup(); }
	if (type == "g_eotp") { NaorPinkasEOTP v(in, 12, 11); return v.CheckGroup(); }
	if (type.compare(0, 4, "pgp_") == 0) {
		tmcg_openpgp_octets_t oct(s.begin(), s.end());
		if (type == "pgp_keyblock_armor") { TMCG_OpenPGP_Pubkey *pub = NULL; bool r = PGP::PublicKeyBlockParse(s, 0, pub); if (r && pub) delete pub; return r; }
		if (type == "pgp_keyblock") { TMCG_OpenPGP_Pubkey *pub = NULL; bool r = PGP::PublicKeyBlockParse(oct, 0, pub); if (r && pub) delete pub; return r; }
		if (type == "pgp_sig_armor") { TMCG_OpenPGP_Signature *sig = NULL; bool r = PGP::SignatureParse(s, 0, sig); if (r && sig) delete sig; return r; }
		if (type == "pgp_sig") { TMCG_OpenPGP_Signature *sig = NULL; bool r = PGP::SignatureParse(oct, 0, sig); if (r && sig) delete sig; return r; }
		if (type == "pgp_msg_armor") { TMCG_OpenPGP_Message *m = NULL; bool r = PGP::MessageParse(s, 0, m); if (r && m) delete m; return r; }
		if (type == "pgp_msg" || type == "pgp_seipd") { TMCG_OpenPGP_Message *m = NULL; bool r = PGP::MessageParse(oct, 0, m); if (r && m) delete m; return r; }
	}
	return 0;
}

static json run_case(const Sample &sm, const json &c) {
	json res; bool ok;
	std::string s = apply(sm, c, ok);
	if (!ok) { res["out"] = "n/a"; return res; }
	int pfd[2]; if (pipe(pfd) != 0) { res["out"] = "n/a"; return res; }
	fflush(stdout);
	pid_t pid = fork();
	if (pid == 0) {
		close(pfd[0]);
		{ int dn = open("/dev/null", O_WRONLY); if (dn >= 0) { dup2(dn, 2); close(dn); } }
		struct rlimit rl; rl.rlim_cur = rl.rlim_max = 120; setrlimit(RLIMIT_CPU, &rl);
		alarm(300);
		char code = 'r';
		try { code = consume(sm.type, s) ? 'a' : 'r'; } catch (std::exception &ex) { code = 'e'; } catch (...) { code = 'e'; }
		ssize_t w = write(pfd[1], &code, 1); (void)w; close(pfd[1]); _exit(0);
	}
	close(pfd[1]);
	char code = 0; ssize_t k = read(pfd[0], &code, 1); close(pfd[0]);
	int status = 0; waitpid(pid, &status, 0);
	if (WIFSIGNALED(status)) { int sg = WTERMSIG(status); res["out"] = (sg == SIGXCPU || sg == SIGALRM) ? "timeout" : "crash"; res["signal"] = sg; }
	else if (k != 1) { res["out"] = "crash"; res["exit"] = WEXITSTATUS(status); }     // sanitizer report: exit without result
	else res["out"] = code == 'a' ? "accepted" : (code == 'e' ? "exception" : "refused");
	return res;
}

int main(int argc, char **argv) {
	install_terminate("drv_malformed");
	quiet_cerr();
	if (!init_libTMCG()) return 2;
	seam::seed(12);
	build_samples();
	if (argc >= 3 && !strcmp(argv[1], "samples")) {
		std::ofstream out(argv[2]);
		for (size_t i = 0; i < samples.size(); i++) {
			json j; j["type"] = samples[i].type; j["nf"] = fields(samples[i].text).size(); j["nc"] = samples[i].text.size(); j["binary"] = samples[i].binary;
			// fields that hold a small decimal number (dimensions, counts, indices): targets of the SetDim mutations
			{ json dims = json::array(); if (!samples[i].binary) { std::vector<std::pair<size_t, size_t> > f = fields(samples[i].text);
			    for (size_t k = 0; k < f.size(); k++) { std::string v = samples[i].text.substr(f[k].first, f[k].second);
			      if (!v.empty() && v.size() <= 3 && v.find_first_not_of("0123456789") == std::string::npos) dims.push_back(k); } }
			  j["dims"] = dims; }
			bool acc = false; try { acc = consume(samples[i].type, samples[i].text); } catch (...) {}
			j["valid_accepted"] = acc;
			out << j.dump() << "\n";
		}
		return 0;
	}
	if (argc >= 3 && !strcmp(argv[1], "single")) {       // debugging aid: one case in this very process
		std::vector<json> cases = read_ndjson(argv[2]);
		for (size_t i = 0; i < samples.size(); i++) if (samples[i].type == cases[0]["type"]) {
			bool ok; std::string s = apply(samples[i], cases[0], ok);
			int r = -1; try { r = consume(samples[i].type, s); } catch (std::exception &ex) { printf("exception %s\n", ex.what()); }
			printf("result %d\n", r);
		}
		return 0;
	}
	if (argc >= 4 && !strcmp(argv[1], "run")) {
		std::vector<json> cases = read_ndjson(argv[2]);
		std::ofstream out(argv[3]);
		std::map<std::string, size_t> idx; for (size_t i = 0; i < samples.size(); i++) idx[samples[i].type] = i;
		// a child works through the cases and reports one character per case; when it dies or hangs, the case it was on is the
		// culprit and a new child continues behind it (one fork per case costs too much under the sanitizers)
		std::vector<json> todo; for (size_t k = 0; k < cases.size(); k++) if (idx.count(cases[k]["type"])) todo.push_back(cases[k]);
		size_t k = 0;
		while (k < todo.size()) {
			int pfd[2]; if (pipe(pfd) != 0) return 2;
			fflush(stdout); out.flush();
			pid_t pid = fork();
			if (pid == 0) {
				close(pfd[0]);
				{ int dn = open("/dev/null", O_WRONLY); if (dn >= 0) { dup2(dn, 2); close(dn); } }
				for (size_t i = k; i < todo.size(); i++) {
					const Sample &sm = samples[idx[todo[i]["type"]]];
					bool ok; std::string s = apply(sm, todo[i], ok);
					char code = 'n';
					if (ok) {
						alarm(300);
						try { code = consume(sm.type, s) ? 'a' : 'r'; } catch (std::exception &ex) { code = 'e'; } catch (...) { code = 'e'; }
						alarm(0);
					}
					ssize_t w = write(pfd[1], &code, 1); (void)w;
				}
				close(pfd[1]); _exit(0);
			}
			close(pfd[1]);
			while (k < todo.size()) {
				char code = 0; ssize_t r = read(pfd[0], &code, 1);
				if (r != 1) break;
				json c = todo[k]; c["out"] = code == 'a' ? "accepted" : (code == 'e' ? "exception" : (code == 'n' ? "n/a" : "refused"));
				out << c.dump() << "\n"; k++;
			}
			close(pfd[0]);
			int status = 0; waitpid(pid, &status, 0);
			if (k < todo.size()) {        // the child ended while working on case k
				json c = todo[k];
				if (WIFSIGNALED(status)) { int sg = WTERMSIG(status); c["out"] = (sg == SIGXCPU || sg == SIGALRM) ? "timeout" : "crash"; c["signal"] = sg; }
				else { c["out"] = "crash"; c["exit"] = WEXITSTATUS(status); }     // sanitizer report: exit without result
				out << c.dump() << "\n"; k++;
			}
		}
		return 0;
	}
	return 2;
}
