// common helpers of all drivers
#ifndef VERIF_COMMON_HH
#define VERIF_COMMON_HH
#include <cstdio>
#include <cstdlib>
#include <cstring>
#include <string>
#include <vector>
#include <map>
#include <set>
#include <sstream>
#include <fstream>
#include <iostream>
#include <exception>
#include <unistd.h>
#include <gmp.h>
#include <nlohmann/json.hpp>
#include "seam_rng.hh"
using json = nlohmann::json;

static inline std::string mpz2s(mpz_srcptr x, int base = 10) {
	char *c = mpz_get_str(NULL, base, x); std::string s(c); free(c); return s;
}
static inline long mpz2l(mpz_srcptr x) { return mpz_get_si(x); }
struct Mpz {   // small RAII wrapper
	mpz_t v;
	Mpz() { mpz_init(v); }
	Mpz(long x) { mpz_init_set_si(v, x); }
	Mpz(const std::string &s, int base = 10) { mpz_init_set_str(v, s.c_str(), base); }
	Mpz(const Mpz &o) { mpz_init_set(v, o.v); }
	Mpz &operator=(const Mpz &o) { mpz_set(v, o.v); return *this; }
	~Mpz() { mpz_clear(v); }
	operator mpz_ptr() { return v; }
	operator mpz_srcptr() const { return v; }
	long l() const { return mpz_get_si(v); }
	std::string s(int base = 10) const { return mpz2s(v, base); }
};
static inline std::vector<json> read_ndjson(const std::string &path) {
	std::vector<json> out; std::ifstream f(path); std::string line;
	while (std::getline(f, line)) { if (line.empty()) continue; out.push_back(json::parse(line)); }
	return out;
}
// the library is chatty on std::cerr; drivers silence it unless VERIF_VERBOSE is set
static inline void quiet_cerr() {
	if (getenv("VERIF_VERBOSE")) return;
	static std::ofstream devnull("/dev/null");
	std::cerr.rdbuf(devnull.rdbuf());
}
// uncaught exception: say so on stdout (so that traces are never silently truncated) and leave
static inline void install_terminate(const char *who) {
	static const char *name = who;
	std::set_terminate([]() {
		const char *what = "unknown";
		try { std::exception_ptr e = std::current_exception(); if (e) std::rethrow_exception(e); }
		catch (const std::exception &ex) { what = ex.what(); } catch (...) {}
		printf("{\"e\":\"TERMINATE\",\"driver\":\"%s\",\"what\":\"%s\"}\n", name, what);
		fflush(stdout); _exit(3);
	});
}
#endif
