// drv_groth: Groth's shuffle arguments (GrothSKC, GrothVSSHE) at class level in small Schnorr groups, all six forms
// (interactive honest-verifier, interactive public-coin with the JareckiLysyanskayaEDCF two-party coin flip,
// non-interactive), real prover against real verifier over in-memory streams.  The two parties run as two threads that
// never run at the same time (a baton is handed over when a party has to wait for input), so every coin (seam_rng) and
// every hash-oracle call (hook H1) is attributed to the party that made it.  A relay between prover and verifier can
// replace one transmitted line (mutation catalogue of C05); the verifier can be given another view of the public
// inputs.  The driver only executes and logs; every expectation comes from spec/GrothTrace.tla.
//   drv_groth record <seed> <executions> <part: C03|C04|C05> <trace.ndjson>
// Executions are reproducible from (seed, part, index); a rejected execution is kept as a file and re-validated from it.
#include "common.hh"
#include <thread>
#include <mutex>
#include <condition_variable>
#include <functional>
#include <algorithm>
#include <csetjmp>
#include <cassert>
#define private public
#define protected public
#include "libTMCG.hh"
#undef private
#undef protected
#include "mpz_helper.hh"

extern void (*tmcg_verif_shash_hook)(const std::string &input, mpz_srcptr output);

// ---------------------------------------------------------------- assert() of the library must not kill the driver
// The library inverts the challenge e under assert(); e = 0 mod q (probability 2^-l_e, frequent in these groups) would
// abort the process.  The executable's __assert_fail takes precedence over libc's: it leaves the party's thread.
static thread_local sigjmp_buf *tl_jb = NULL;
static thread_local const char *tl_assert = NULL;
extern "C" void __assert_fail(const char *assertion, const char *file, unsigned int line, const char *function) noexcept {
	if (tl_jb) { tl_assert = assertion; siglongjmp(*tl_jb, 1); }
	fprintf(stderr, "assertion failed outside a party: %s (%s:%u %s)\n", assertion, file, line, function);
	_exit(4);
}

static Mpz GP, GQ;                   // moduli of the current execution
static size_t LQ = 0;                // byte length of a tmcg_mpz_srandomm(., q) draw
static unsigned long rnd(unsigned long m) { return m ? (unsigned long)(seam::next64() % m) : 0; }

// a transmitted value as the spec sees it (see spec/Groth.tla, "wire numbers")
static json num(mpz_srcptr v) {
	json n; Mpz a; mpz_abs(a, v); Mpz r;
	n["id"] = mpz2s(v, 10);
	n["sg"] = mpz_sgn(v);
	n["bits"] = (long)mpz_sizeinbase(a, 2);
	n["sm"] = (mpz_sizeinbase(a, 2) <= 30) ? a.l() : -1;
	mpz_mod(r, a, GQ); n["mq"] = r.l();
	mpz_mod(r, a, GP); n["mp"] = r.l();
	return n;
}
static json nums(const std::vector<Mpz> &v) { json a = json::array(); for (size_t k = 0; k < v.size(); k++) a.push_back(num(v[k])); return a; }
static json ints(const std::vector<Mpz> &v) {
	json a = json::array();
	for (size_t k = 0; k < v.size(); k++) a.push_back((mpz_sizeinbase(v[k], 2) <= 30) ? json(v[k].l()) : json(-1));
	return a;
}
static json ivec(const std::vector<long> &v) { json a = json::array(); for (size_t k = 0; k < v.size(); k++) a.push_back(v[k]); return a; }

// ---------------------------------------------------------------- two parties, one running at a time
struct Party {
	std::string out, in; size_t inpos; bool done, waiting;
	json coins, hcalls;
	Party(): inpos(0), done(false), waiting(false) { coins = json::array(); hcalls = json::array(); }
};
struct Session {
	std::mutex mu; std::condition_variable cv; int turn;
	Party pt[2];                        // 0 prover, 1 verifier
	long target; std::string mut; bool cut, applied; long nsent;
	std::vector<Mpz> sentP, rcvV, sentV;
	Session(): turn(0), target(-1), mut("none"), cut(false), applied(false), nsent(0) {}
};
static Session *S = NULL;
static int running_party() { return S ? S->turn : -1; }

static void drain_coins(int me) {
	std::vector<seam::Draw> &lg = seam::log();
	for (size_t k = 0; k < lg.size(); k++) {
		json c;
		if (lg[k].len == LQ) { Mpz v(lg[k].hex, 16); mpz_mod(v, v, GQ); c["k"] = "q"; c["v"] = v.l(); }
		else if (lg[k].len == 8) { c["k"] = "w"; c["v"] = 0; }
		else if (lg[k].len <= 3) { c["k"] = "b"; c["v"] = (long)strtoul(lg[k].hex.c_str(), NULL, 16); c["len"] = (long)lg[k].len; }
		else { c["k"] = "x"; c["v"] = (long)lg[k].len; }
		S->pt[me].coins.push_back(c);
	}
	seam::clear_log();
}
static void hook(const std::string &input, mpz_srcptr output) {
	if (!S) return;
	json c; json in = json::array(); size_t pos = 0;
	while (pos < input.size()) {
		size_t e = input.find('|', pos); if (e == std::string::npos) e = input.size();
		Mpz v; if (mpz_set_str(v, input.substr(pos, e - pos).c_str(), 16) != 0) { in.push_back("?"); } else in.push_back(mpz2s(v, 10));
		pos = e + 1;
	}
	Mpz lo; mpz_tdiv_r_2exp(lo, output, 30);
	c["in"] = in; c["lo"] = lo.l();
	S->pt[running_party()].hcalls.push_back(c);
}

// the mutation catalogue of C05 on one transmitted value; false: not applicable (value unchanged)
static bool mutate_value(Mpz &v, const std::string &m) {
	Mpz o(v), t;
	if (m == "plus1") mpz_add_ui(v, v, 1);
	else if (m == "otherres") { mpz_mul_ui(v, v, 2); mpz_add_ui(v, v, 3); mpz_mod(v, v, GQ); }
	else if (m == "zero") mpz_set_ui(v, 0);
	else if (m == "one") mpz_set_ui(v, 1);
	else if (m == "pm1") mpz_sub_ui(v, GP, 1);
	else if (m == "p") mpz_set(v, GP);
	else if (m == "q") mpz_set(v, GQ);
	else if (m == "plusq") mpz_add(v, v, GQ);
	else if (m == "plusp") mpz_add(v, v, GP);
	else if (m == "minusq") mpz_sub(v, v, GQ);
	else if (m == "nonmember") mpz_sub(v, GP, v);
	else if (m == "neg") mpz_neg(v, v);
	else if (m == "oversized") { mpz_mul(t, GP, GQ); mpz_mul_2exp(t, t, 64); mpz_add(v, v, t); }
	else return false;
	return mpz_cmp(o, v) != 0;
}
static std::string line_of(mpz_srcptr v) { std::ostringstream o; o << v; return o.str() + "\n"; }

// move what the peer has written to party `to`; prover -> verifier line by line through the relay
static void relay_to(int to) {
	Party &src = S->pt[1 - to], &dst = S->pt[to];
	std::vector<std::string> lines;
	size_t pos = 0, e;
	while ((e = src.out.find('\n', pos)) != std::string::npos) { lines.push_back(src.out.substr(pos, e - pos)); pos = e + 1; }
	src.out.erase(0, pos);
	for (size_t k = 0; k < lines.size(); k++) {
		Mpz v; bool isnum = mpz_set_str(v, lines[k].c_str(), TMCG_MPZ_IO_BASE) == 0 && !lines[k].empty();
		if (to == 0) { S->sentV.push_back(v); dst.in += lines[k] + "\n"; continue; }
		S->sentP.push_back(v);
		long idx = S->nsent++;
		if (S->cut) continue;
		if (idx == S->target && S->mut == "trunc") { S->cut = true; S->applied = true; continue; }
		if (idx == S->target && S->mut == "swap") {
			Mpz w; bool ok = k + 1 < lines.size() && mpz_set_str(w, lines[k + 1].c_str(), TMCG_MPZ_IO_BASE) == 0;
			if (ok && mpz_cmp(v, w) != 0) {
				S->applied = true; S->sentP.push_back(w); S->nsent++;
				S->rcvV.push_back(w); S->rcvV.push_back(v); dst.in += line_of(w) + line_of(v); k++; continue;
			}
		} else if (idx == S->target && S->mut != "none" && isnum) {
			S->applied = mutate_value(v, S->mut);
		}
		S->rcvV.push_back(v); dst.in += line_of(v);
	}
}
static void yield_to_peer(std::unique_lock<std::mutex> &lk, int me) {
	drain_coins(me);
	S->pt[me].waiting = true; S->turn = 1 - me; S->cv.notify_all();
	S->cv.wait(lk, [&] { return S->turn == me; });
	S->pt[me].waiting = false;
}
class PartyBuf : public std::streambuf {
	public:
		int me; char ch;
		PartyBuf(int m): me(m), ch(0) {}
		virtual int_type underflow() {
			std::unique_lock<std::mutex> lk(S->mu);
			Party &my = S->pt[me], &peer = S->pt[1 - me];
			for (;;) {
				relay_to(me);
				if (my.inpos < my.in.size()) { ch = my.in[my.inpos++]; setg(&ch, &ch, &ch + 1); return traits_type::to_int_type(ch); }
				if (peer.done) return traits_type::eof();
				if (me == 1 && S->cut) return traits_type::eof();
				if (peer.waiting) {                       // the peer is blocked as well: can it go on with what I wrote?
					relay_to(1 - me);
					if (!(peer.inpos < peer.in.size())) return traits_type::eof();    // nobody can move: the conversation is over
				}
				yield_to_peer(lk, me);
			}
		}
		virtual int_type overflow(int_type c) { if (c != traits_type::eof()) { std::lock_guard<std::mutex> lk(S->mu); S->pt[me].out.push_back((char)c); } return c; }
		virtual std::streamsize xsputn(const char *s, std::streamsize n) { std::lock_guard<std::mutex> lk(S->mu); S->pt[me].out.append(s, (size_t)n); return n; }
};
// outcome of a party: 0 returned false, 1 returned true, 2 exception, 3 assertion
struct Outcome { int code; std::string what; Outcome(): code(0) {} };
static void run_party(int me, std::function<bool(std::istream &, std::ostream &)> fn, Outcome &oc) {
	PartyBuf ib(me), ob(me); std::istream in(&ib); std::ostream out(&ob);
	{ std::unique_lock<std::mutex> lk(S->mu); S->cv.wait(lk, [&] { return S->turn == me; }); }
	sigjmp_buf jb; tl_jb = &jb;
	if (sigsetjmp(jb, 0) == 0) {
		try { oc.code = fn(in, out) ? 1 : 0; }
		catch (const std::exception &e) { oc.code = 2; oc.what = e.what(); }
		catch (bool b) { oc.code = 2; oc.what = "bool"; }
		catch (...) { oc.code = 2; oc.what = "unknown"; }
	} else { oc.code = 3; oc.what = tl_assert ? tl_assert : ""; }
	tl_jb = NULL;
	std::unique_lock<std::mutex> lk(S->mu);
	drain_coins(me);
	S->pt[me].done = true; S->turn = 1 - me; S->cv.notify_all();
}

// ---------------------------------------------------------------- one execution
struct Ct { long a, b; };
struct Exec {
	// parameters
	std::string form;                   // skc_i skc_pc skc_ni vsshe_i vsshe_pc vsshe_ni
	long p, q, k, g, h; std::vector<long> ckg; long ckh; long le; size_t n;
	bool batch;                         // SKC stand-alone: the `optimizations` argument of the verifier
	std::string kind, what;             // honest | false | mut | pub ; name of the edit
	// statement and witness as the prover holds them
	std::vector<size_t> pi0; std::vector<long> R; std::vector<Ct> es, Es;      // VSSHE
	long r, c; std::vector<long> m;                                            // SKC
	// the verifier's view of the public inputs
	std::vector<Ct> esV, EsV; long cV; std::vector<long> mV; long gV, hV, ckhV; std::vector<long> ckgV;
	std::string mut; long pos;
	json src;
};
static long powl(long b, long e, long p) { Mpz B(b), E(e), P(p), r; mpz_powm(r, B, E, P); return r.l(); }
static long mull(long a, long b, long p) { return (long)(((unsigned long)(a % p) * (unsigned long)(b % p)) % (unsigned long)p); }
static std::string vsshe_stream(long p, long q, long g, long h, long k, long ckh, const std::vector<long> &ckg) {
	std::ostringstream o; Mpz x;
	long a[] = {p, q, g, h, p, q, k, ckh};
	for (size_t i = 0; i < 8; i++) { mpz_set_si(x, a[i]); o << (mpz_srcptr)x.v << std::endl; }
	for (size_t i = 0; i < ckg.size(); i++) { mpz_set_si(x, ckg[i]); o << (mpz_srcptr)x.v << std::endl; }
	return o.str();
}
static std::string skc_stream(long p, long q, long k, long ckh, const std::vector<long> &ckg) {
	std::ostringstream o; Mpz x;
	long a[] = {p, q, k, ckh};
	for (size_t i = 0; i < 4; i++) { mpz_set_si(x, a[i]); o << (mpz_srcptr)x.v << std::endl; }
	for (size_t i = 0; i < ckg.size(); i++) { mpz_set_si(x, ckg[i]); o << (mpz_srcptr)x.v << std::endl; }
	return o.str();
}
struct MpzVec {
	std::vector<mpz_ptr> v;
	MpzVec(const std::vector<long> &x) { for (size_t i = 0; i < x.size(); i++) { mpz_ptr t = new mpz_t(); mpz_init_set_si(t, x[i]); v.push_back(t); } }
	~MpzVec() { for (size_t i = 0; i < v.size(); i++) { mpz_clear(v[i]); delete [] v[i]; } }
};
struct CtVec {
	std::vector<std::pair<mpz_ptr, mpz_ptr> > v;
	CtVec(const std::vector<Ct> &x) { for (size_t i = 0; i < x.size(); i++) { mpz_ptr a = new mpz_t(), b = new mpz_t(); mpz_init_set_si(a, x[i].a); mpz_init_set_si(b, x[i].b); v.push_back(std::make_pair(a, b)); } }
	~CtVec() { for (size_t i = 0; i < v.size(); i++) { mpz_clear(v[i].first); mpz_clear(v[i].second); delete [] v[i].first; delete [] v[i].second; } }
};
static json cts_j(const std::vector<Ct> &v) { json a = json::array(); for (size_t i = 0; i < v.size(); i++) a.push_back({v[i].a, v[i].b}); return a; }

static void run_exec(Exec &x, std::ofstream &o) {
	mpz_set_si(GP, x.p); mpz_set_si(GQ, x.q);
	LQ = (mpz_sizeinbase(GQ, 2) + 64 + 7) / 8;
	unsigned long fs = mpz_sizeinbase(GP, 2), ss = mpz_sizeinbase(GQ, 2);
	bool vsshe = x.form.compare(0, 5, "vsshe") == 0;
	std::string var = x.form.substr(x.form.find('_') + 1);           // i | pc | ni
	Session sess; sess.target = x.pos; sess.mut = x.mut;
	GrothVSSHE *vp = NULL, *vv = NULL; GrothSKC *sp = NULL, *sv = NULL;
	JareckiLysyanskayaEDCF *ep = NULL, *ev = NULL;
	bool chk = false;
	if (vsshe) {
		std::istringstream i1(vsshe_stream(x.p, x.q, x.g, x.h, x.k, x.ckh, x.ckg)), i2(vsshe_stream(x.p, x.q, x.gV, x.hV, x.k, x.ckhV, x.ckgV));
		vp = new GrothVSSHE(x.ckg.size(), i1, x.le, fs, ss); vv = new GrothVSSHE(x.ckgV.size(), i2, x.le, fs, ss);
		chk = vv->CheckGroup();
	} else {
		std::istringstream i1(skc_stream(x.p, x.q, x.k, x.ckh, x.ckg)), i2(skc_stream(x.p, x.q, x.k, x.ckhV, x.ckgV));
		sp = new GrothSKC(x.ckg.size(), i1, x.le, fs, ss); sv = new GrothSKC(x.ckgV.size(), i2, x.le, fs, ss);
		chk = sv->CheckGroup();
	}
	// the coin flip runs in the ElGamal group (stand-alone SKC: generator g, second base the commitment key's h)
	Mpz mp_(x.p), mq_(x.q), mg_(x.g), mh_(vsshe ? x.h : x.ckh);
	if (var == "pc") { ep = new JareckiLysyanskayaEDCF(2, 0, mp_, mq_, mg_, mh_, fs, ss); ev = new JareckiLysyanskayaEDCF(2, 0, mp_, mq_, mg_, mh_, fs, ss); }
	MpzVec Rv(x.R), mv(x.m), mVv(x.mV); CtVec ec(x.es), Ec(x.Es), ecV(x.esV), EcV(x.EsV);
	Mpz rr(x.r), cc(x.cV);
	seam::clear_log();
	S = &sess;
	Outcome op, ov;
	std::function<bool(std::istream &, std::ostream &)> pf = [&](std::istream &in, std::ostream &out) -> bool {
		if (vsshe) {
			if (var == "i") vp->Prove_interactive(x.pi0, Rv.v, ec.v, Ec.v, in, out);
			else if (var == "pc") vp->Prove_interactive_publiccoin(x.pi0, Rv.v, ec.v, Ec.v, ep, in, out);
			else vp->Prove_noninteractive(x.pi0, Rv.v, ec.v, Ec.v, out);
		} else {
			if (var == "i") sp->Prove_interactive(x.pi0, rr, mv.v, in, out);
			else if (var == "pc") sp->Prove_interactive_publiccoin(x.pi0, rr, mv.v, ep, in, out);
			else sp->Prove_noninteractive(x.pi0, rr, mv.v, out);
		}
		return true;
	};
	std::function<bool(std::istream &, std::ostream &)> vf = [&](std::istream &in, std::ostream &out) -> bool {
		if (vsshe) {
			if (var == "i") return vv->Verify_interactive(ecV.v, EcV.v, in, out);
			if (var == "pc") return vv->Verify_interactive_publiccoin(ecV.v, EcV.v, ev, in, out);
			return vv->Verify_noninteractive(ecV.v, EcV.v, in);
		}
		if (var == "i") return sv->Verify_interactive(cc, mVv.v, in, out, x.batch);
		if (var == "pc") return sv->Verify_interactive_publiccoin(cc, mVv.v, ev, in, out, x.batch);
		return sv->Verify_noninteractive(cc, mVv.v, in, x.batch);
	};
	std::thread tp(run_party, 0, pf, std::ref(op)), tv(run_party, 1, vf, std::ref(ov));
	tp.join(); tv.join();
	{ std::unique_lock<std::mutex> lk(sess.mu); relay_to(1); relay_to(0); }        // what was written and never read still was sent
	S = NULL;
	json ev0;
	ev0["e"] = "Reset"; ev0["form"] = x.form; ev0["n"] = x.n; ev0["le"] = x.le; ev0["kind"] = x.kind; ev0["what"] = x.what;
	ev0["grp"] = {x.p, x.q, x.g, x.h}; ev0["ck"] = {{"h", x.ckh}, {"g", ivec(x.ckg)}};
	ev0["grpV"] = {x.p, x.q, x.gV, x.hV}; ev0["ckV"] = {{"h", x.ckhV}, {"g", ivec(x.ckgV)}};
	ev0["fg"] = {x.p, x.q, x.g, vsshe ? x.h : x.ckh};
	{ json a = json::array(); for (size_t i = 0; i < x.pi0.size(); i++) a.push_back((long)x.pi0[i] + 1); ev0["pi"] = a; }
	ev0["batch"] = x.batch;
	if (vsshe) { ev0["R"] = ivec(x.R); ev0["es"] = cts_j(x.es); ev0["Es"] = cts_j(x.Es); ev0["esV"] = cts_j(x.esV); ev0["EsV"] = cts_j(x.EsV); }
	else { ev0["r"] = x.r; ev0["c"] = x.c; ev0["m"] = ivec(x.m); ev0["cV"] = x.cV; ev0["mV"] = ivec(x.mV); }
	ev0["mut"] = x.mut; ev0["pos"] = x.pos; ev0["applied"] = sess.applied; ev0["src"] = x.src;
	o << ev0.dump() << "\n";
	json e1; e1["e"] = "Prove"; e1["coins"] = sess.pt[0].coins; e1["sent"] = ints(sess.sentP); e1["h"] = sess.pt[0].hcalls;
	e1["exc"] = op.code != 1 ? 1 : 0; e1["what"] = op.what;
	o << e1.dump() << "\n";
	json e2; e2["e"] = "Verify"; e2["coins"] = sess.pt[1].coins; e2["rcv"] = nums(sess.rcvV); e2["sent"] = ints(sess.sentV); e2["h"] = sess.pt[1].hcalls;
	e2["res"] = ov.code == 1 ? "accept" : (ov.code == 0 ? "reject" : (ov.code == 3 ? "abort" : "exception")); e2["what"] = ov.what; e2["chk"] = chk;
	o << e2.dump() << "\n";
	o << "{\"e\":\"End\"}\n";          // the properties of the execution are judged here (see GrothTrace.tla)
	delete vp; delete vv; delete sp; delete sv; delete ep; delete ev;
}

// ---------------------------------------------------------------- seeded random executions
static bool is_prime(long n) { Mpz x(n); return n > 1 && mpz_probab_prime_p(x, 30) > 0; }
struct GP_ { long p, q; };
static std::vector<GP_> group_pool() {
	std::vector<GP_> pool;
	const long fixed[][2] = {{23, 11}, {47, 23}, {2063, 1031}, {67, 11}, {89, 11}, {46199, 23099}, {46237, 3853}, {1019, 509}, {10007, 5003}};
	for (auto &t : fixed) if (is_prime(t[0]) && is_prime(t[1]) && (t[0] - 1) % t[1] == 0) pool.push_back(GP_{t[0], t[1]});
	while (pool.size() < 32) {
		long q = 11 + (long)rnd(pool.size() % 3 == 0 ? 300 : 23000); if (!is_prime(q)) continue;
		long kmax = 46336 / q; if (kmax < 2) continue;
		long k = 2 * (1 + (long)rnd(kmax / 2)); long p = k * q + 1;
		if (p > 46337 || !is_prime(p) || k % q == 0) continue;
		pool.push_back(GP_{p, q});
	}
	return pool;
}
static long rand_member(long p, long q, bool nontrivial) {
	long k = (p - 1) / q;
	for (;;) { long v = powl(2 + (long)rnd(p - 3), k, p); if (!nontrivial || (v != 1)) return v; }
}
static const char *FORMS[] = {"vsshe_i", "vsshe_pc", "vsshe_ni", "skc_i", "skc_pc", "skc_ni"};
static const char *TMUTS[] = {"plus1", "otherres", "zero", "one", "pm1", "p", "q", "plusq", "minusq", "plusp", "nonmember", "neg", "oversized", "swap", "trunc"};
static const int NTMUTS = 15;
static const char *PMUTS[] = {"plus1", "zero", "one", "pm1", "p", "nonmember", "timesg", "swap"};
static const int NPMUTS = 8;
static long pub_mut(long v, const std::string &m, long p, long g) {
	if (m == "plus1") return v + 1; if (m == "zero") return 0; if (m == "one") return 1; if (m == "pm1") return p - 1;
	if (m == "p") return p; if (m == "nonmember") return p - v; if (m == "timesg") return mull(v, g, p);
	return v;
}
static size_t nlines(const std::string &form, size_t n) {
	bool vs = form.compare(0, 5, "vsshe") == 0, pc = form.find("_pc") != std::string::npos;
	return vs ? (3 * n + 9 + (pc ? 3 * (n + 3) : 0)) : (2 * n + 4 + (pc ? 6 : 0));
}
// The directed part of C05: one execution per (form, class of transmitted value), the value replaced by one that only
// the range / membership guard of that value can refuse: exponent + q (same residue), commitment + p (same element) or
// p - commitment (outside the subgroup), coin-flip values likewise.  Returns the number of classes.
struct Directed { const char *form; int cls; };      // cls: index into the class list of the form
static const char *VCLS[] = {"c", "cd", "Ed1", "Ed2", "f", "Z", "scd", "scD", "sca", "sf", "sz", "sfD", "szD", "flipC", "flipa", "flipb"};
static const char *SCLS[] = {"scd", "scD", "sca", "sf", "sz", "sfD", "szD", "flipC", "flipa", "flipb"};
static std::vector<std::pair<std::string, std::string> > directed_list() {
	std::vector<std::pair<std::string, std::string> > v;
	for (int f = 0; f < 6; f++) {
		std::string form = FORMS[f]; bool vs = form.compare(0, 5, "vsshe") == 0, pc = form.find("_pc") != std::string::npos;
		int ncls = vs ? 13 : 7;
		for (int c = 0; c < ncls + (pc ? 3 : 0); c++) v.push_back(std::make_pair(form, std::string(vs ? VCLS[c < 13 ? c : c] : SCLS[c < 7 ? c : c])));
	}
	return v;
}
// 0-based wire position of a value of class `cls` (a random one of the class)
static long directed_pos(const std::string &form, const std::string &cls, size_t n) {
	bool vs = form.compare(0, 5, "vsshe") == 0, pc = form.find("_pc") != std::string::npos;
	long k = 0;                          // 1-based index among the values of the argument
	if (cls.compare(0, 4, "flip") == 0) {
		long nch = vs ? (long)n + 3 : 2, j = 1 + (long)rnd(nch), base;
		if (vs) base = j <= (long)n ? 3 * j + 2 : (j == (long)n + 1 ? 4 * (long)n + 6 : (j == (long)n + 2 ? 4 * (long)n + 9 : 4 * (long)n + 15));
		else base = j == 1 ? 1 : 7;
		return base - 1 + (cls == "flipC" ? 0 : (cls == "flipa" ? 1 : 2));
	}
	long o = vs ? (long)n + 5 : 0;      // offset of the SKC part
	if (cls == "c") k = 1; else if (cls == "cd") k = 2; else if (cls == "Ed1") k = 3; else if (cls == "Ed2") k = 4;
	else if (cls == "f") k = 5 + (long)rnd(n); else if (cls == "Z") k = 5 + (long)n;
	else if (cls == "scd") k = o + 1; else if (cls == "scD") k = o + 2; else if (cls == "sca") k = o + 3;
	else if (cls == "sf") k = o + 4 + (long)rnd(n); else if (cls == "sz") k = o + 4 + (long)n;
	else if (cls == "sfD") k = o + 5 + (long)n + (long)rnd(n - 1); else k = o + 2 * (long)n + 4;
	long w = k;
	if (pc) {
		if (vs) w = k <= 4 ? k : (k <= (long)n + 5 ? k + 3 * (long)n : (k <= (long)n + 8 ? k + 3 * (long)n + 6 : k + 3 * (long)n + 9));
		else w = k <= 3 ? k + 3 : k + 6;
	}
	return w - 1;
}
static void gen_exec(Exec &x, const std::vector<GP_> &pool, const std::string &part, unsigned long seed, long idx) {
	static const std::vector<std::pair<std::string, std::string> > DL = directed_list();
	bool directed = part == "C05" && idx < 2 * (long)DL.size();
	// directed executions: a group in which the refusals by design (f_i too short) are rare, so that the mutated line is reached
	std::vector<size_t> big; for (size_t i = 0; i < pool.size(); i++) if (pool[i].q >= 500) big.push_back(i);
	const GP_ &gp = directed ? pool[big[rnd(big.size())]] : pool[rnd(4) == 0 ? rnd(pool.size()) : rnd(3)];       // else mostly the three small standard groups
	x.p = gp.p; x.q = gp.q; x.k = (gp.p - 1) / gp.q;
	long lmax = (long)mpz_sizeinbase(Mpz(x.q).v, 2) / 2; if (lmax < 1) lmax = 1;
	if (directed && lmax > 2) lmax = 2;
	x.le = 1 + (long)rnd(lmax);
	x.form = FORMS[rnd(6)];
	if (directed) x.form = DL[idx % DL.size()].first;
	bool vsshe = x.form.compare(0, 5, "vsshe") == 0;
	size_t nmax = std::min((size_t)6, (size_t)(x.q - 3));
	x.n = 2 + rnd(nmax - 1);
	size_t N = x.n + (rnd(3) == 0 ? 1 + rnd(2) : 0); if ((long)N + 2 > x.q - 1) N = x.n;
	x.g = rand_member(x.p, x.q, true);
	x.h = powl(x.g, 1 + (long)rnd(x.q - 1), x.p);
	x.ckh = (rnd(4) == 0) ? rand_member(x.p, x.q, true) : x.h;
	x.ckg.clear();
	while (x.ckg.size() < N) { long v = rand_member(x.p, x.q, true); if (v == x.ckh || std::find(x.ckg.begin(), x.ckg.end(), v) != x.ckg.end()) continue; x.ckg.push_back(v); }
	x.batch = vsshe ? true : (rnd(3) != 0);
	// witness and true statement
	x.pi0.resize(x.n); for (size_t i = 0; i < x.n; i++) x.pi0[i] = i;
	for (size_t i = x.n - 1; i > 0; i--) std::swap(x.pi0[i], x.pi0[rnd(i + 1)]);
	x.R.clear(); x.es.clear(); x.Es.clear(); x.m.clear(); x.r = 0; x.c = 1;
	if (vsshe) {
		for (size_t i = 0; i < x.n; i++) {
			long s = (long)rnd(x.q), a = (rnd(5) == 0 && i > 0) ? -1 : (long)rnd(x.q);
			Ct c; if (a < 0) c = x.es[rnd(i)]; else { c.a = powl(x.g, s, x.p); c.b = mull(powl(x.h, s, x.p), powl(x.g, a, x.p), x.p); }
			x.es.push_back(c);
		}
		for (size_t i = 0; i < x.n; i++) {
			long Ri = (long)rnd(x.q); x.R.push_back(Ri);
			Ct c; c.a = mull(x.es[x.pi0[i]].a, powl(x.g, Ri, x.p), x.p); c.b = mull(x.es[x.pi0[i]].b, powl(x.h, Ri, x.p), x.p);
			x.Es.push_back(c);
		}
	} else {
		for (size_t i = 0; i < x.n; i++) x.m.push_back((rnd(6) == 0 && i > 0) ? x.m[rnd(i)] : (long)rnd(x.q));
		x.r = (long)rnd(x.q);
	}
	auto commit = [&](const std::vector<size_t> &pi, const std::vector<long> &mm, long r) {
		long c = powl(x.ckh, r, x.p);
		for (size_t i = 0; i < x.n; i++) c = mull(c, powl(x.ckg[i], mm[pi[i]] % x.q, x.p), x.p);
		return c;
	};
	if (!vsshe) x.c = commit(x.pi0, x.m, x.r);
	x.kind = "honest"; x.what = "none"; x.mut = "none"; x.pos = -1;
	if (part == "C04") {
		x.kind = "false";
		if (vsshe) {
			const char *W[] = {"subst", "dup", "dupadapt", "retype", "c1only", "c2only", "wrongkey", "otherperm", "nonperm"};
			x.what = W[rnd(9)];
			size_t j = rnd(x.n), k2 = (j + 1 + rnd(x.n - 1)) % x.n;
			if (x.what == "subst") { long s = (long)rnd(x.q), a = (long)rnd(x.q); x.Es[j].a = powl(x.g, s, x.p); x.Es[j].b = mull(powl(x.h, s, x.p), powl(x.g, a, x.p), x.p); }
			else if (x.what == "dup") x.Es[j] = x.Es[k2];
			else if (x.what == "dupadapt") { x.Es[j] = x.Es[k2]; x.pi0[j] = x.pi0[k2]; x.R[j] = x.R[k2]; }
			else if (x.what == "retype") x.Es[j].b = mull(x.Es[j].b, powl(x.g, 1 + (long)rnd(x.q - 1), x.p), x.p);
			else if (x.what == "c1only") x.Es[j].a = mull(x.Es[j].a, x.g, x.p);
			else if (x.what == "c2only") x.Es[j].b = mull(x.Es[j].b, x.g, x.p);
			else if (x.what == "wrongkey") { long h2 = mull(x.h, x.g, x.p); for (size_t i = 0; i < x.n; i++) { x.Es[i].a = mull(x.es[x.pi0[i]].a, powl(x.g, x.R[i], x.p), x.p); x.Es[i].b = mull(x.es[x.pi0[i]].b, powl(h2, x.R[i], x.p), x.p); } }
			else if (x.what == "otherperm") std::swap(x.pi0[j], x.pi0[k2]);
			else if (x.what == "nonperm") x.pi0[j] = x.pi0[k2];
		} else {
			const char *W[] = {"badcom", "badr", "otherperm", "nonperm", "nonpermfit"};
			x.what = W[rnd(5)];
			size_t j = rnd(x.n), k2 = (j + 1 + rnd(x.n - 1)) % x.n;
			if (x.what == "badcom") { std::vector<long> m2(x.m); m2[x.pi0[j]] = (m2[x.pi0[j]] + 1 + (long)rnd(x.q - 1)) % x.q; x.c = commit(x.pi0, m2, x.r); }
			else if (x.what == "badr") x.r = (x.r + 1) % x.q;
			else if (x.what == "otherperm") std::swap(x.pi0[j], x.pi0[k2]);
			else if (x.what == "nonperm") x.pi0[j] = x.pi0[k2];
			else if (x.what == "nonpermfit") { x.pi0[j] = x.pi0[k2]; x.c = commit(x.pi0, x.m, x.r); }
		}
	}
	x.esV = x.es; x.EsV = x.Es; x.cV = x.c; x.mV = x.m; x.gV = x.g; x.hV = x.h; x.ckhV = x.ckh; x.ckgV = x.ckg;
	if (directed) {
		const std::string &cls = DL[idx % DL.size()].second; bool second = idx >= (long)DL.size();
		x.kind = "mut"; x.pos = directed_pos(x.form, cls, x.n);
		bool com = cls == "c" || cls == "cd" || cls == "scd" || cls == "scD" || cls == "sca" || cls == "flipC", el = cls == "Ed1" || cls == "Ed2";
		x.mut = (com || el) ? (second ? "plusp" : "nonmember") : (second ? (cls == "Z" ? "zero" : "minusq") : "plusq");
		x.what = x.mut;
	} else if (part == "C05") {
		if (rnd(3) == 0) {
			x.kind = "pub"; std::string mu = PMUTS[rnd(NPMUTS)]; size_t j = rnd(x.n);
			long *tgt = NULL, *nb = NULL; std::string nm;
			unsigned long w = rnd(vsshe ? 8 : 4);
			if (vsshe) {
				if (w == 0) { tgt = &x.esV[j].a; nb = &x.esV[j].b; nm = "e1"; } else if (w == 1) { tgt = &x.esV[j].b; nb = &x.esV[(j + 1) % x.n].a; nm = "e2"; }
				else if (w == 2) { tgt = &x.EsV[j].a; nb = &x.EsV[j].b; nm = "E1"; } else if (w == 3) { tgt = &x.EsV[j].b; nb = &x.EsV[(j + 1) % x.n].a; nm = "E2"; }
				else if (w == 4) { tgt = &x.hV; nb = &x.gV; nm = "h"; } else if (w == 5) { tgt = &x.gV; nb = &x.hV; nm = "g"; }
				else if (w == 6) { tgt = &x.ckhV; nb = &x.ckgV[0]; nm = "ckh"; } else { size_t jj = rnd(x.ckgV.size()); tgt = &x.ckgV[jj]; nb = &x.ckgV[(jj + 1) % x.ckgV.size()]; nm = jj < x.n ? "ckg" : "ckgunused"; }
			} else {
				if (w == 0) { tgt = &x.cV; nb = &x.mV[0]; nm = "c"; } else if (w == 1) { tgt = &x.mV[j]; nb = &x.mV[(j + 1) % x.n]; nm = "m"; }
				else if (w == 2) { tgt = &x.ckhV; nb = &x.ckgV[0]; nm = "ckh"; } else { size_t jj = rnd(x.ckgV.size()); tgt = &x.ckgV[jj]; nb = &x.ckgV[(jj + 1) % x.ckgV.size()]; nm = jj < x.n ? "ckg" : "ckgunused"; }
			}
			if (nm == "m" && mu == "timesg") mu = "plus1";
			long old = *tgt;
			if (mu == "swap") std::swap(*tgt, *nb); else *tgt = pub_mut(*tgt, mu, x.p, x.g);
			x.what = nm + ":" + mu;
			if (*tgt == old) { x.kind = "honest"; x.what = "none"; }
		} else {
			x.kind = "mut"; x.mut = TMUTS[rnd(NTMUTS)];
			size_t L = nlines(x.form, x.n);
			x.pos = (long)(rnd(4) == 0 ? L - 1 - rnd(std::min((size_t)3, L)) : rnd(L));
			if (rnd(5) == 0) {
				// directed: a commitment (c, c_d of VSSHE; c_d, c_Delta, c_a of SKC) replaced by a value outside the subgroup / other catalogue entries
				bool pc = x.form.find("_pc") != std::string::npos;
				std::vector<long> cp;
				if (vsshe) { cp.push_back(0); cp.push_back(1); long b = pc ? 4 * (long)x.n + 11 : (long)x.n + 5; cp.push_back(b); cp.push_back(b + 1); cp.push_back(b + 2); }
				else { long b = pc ? 3 : 0; cp.push_back(b); cp.push_back(b + 1); cp.push_back(b + 2); }
				x.pos = cp[rnd(cp.size())];
				if (rnd(3)) x.mut = "nonmember";
			}
			x.what = x.mut;
		}
	}
	x.src = {{"seed", seed}, {"idx", idx}, {"part", part}};
}

static int do_record(unsigned long seed, long nexec, const std::string &part, const std::string &outp) {
	std::ofstream o(outp);
	seam::record(true); seam::strict(false);
	tmcg_verif_shash_hook = hook;
	seam::seed_harness(seed * 2654435761UL + 97);
	std::vector<GP_> pool = group_pool();
	for (long i = 0; i < nexec; i++) {
		seam::seed_harness(seed * 1000003UL + (unsigned long)i * 7919UL + (part == "C03" ? 1 : part == "C04" ? 2 : 3));
		seam::seed(seed * 104729UL + (unsigned long)i + 11);
		Exec x; gen_exec(x, pool, part, seed, i);
		run_exec(x, o);
	}
	printf("{\"recorded\":%ld}\n", nexec);
	return 0;
}

int main(int argc, char **argv) {
	if (!init_libTMCG()) { fprintf(stderr, "init_libTMCG failed\n"); return 2; }
	quiet_cerr(); install_terminate("drv_groth");
	std::string mode = argc > 1 ? argv[1] : "";
	if (mode == "record" && argc == 6) return do_record(strtoul(argv[2], NULL, 10), atol(argv[3]), argv[4], argv[5]);
	fprintf(stderr, "usage: drv_groth record <seed> <n> <C03|C04|C05> <trace>\n");
	return 2;
}
