// drv_qrproof: the zero-knowledge proofs of the quadratic-residue card encoding of SchindelhauerTMCG
// (TMCG_Prove/VerifyQuadraticResidue, ..NonQuadraticResidue (+ _PerfectZeroKnowledge), ..MaskValue, ..MaskOne and the
// card-level TMCG_Prove/VerifyMaskCard, ..PrivateCard, ..CardSecret for TMCG_Card) run prover against verifier over
// in-memory streams with real TMCG_SecretKey / TMCG_PublicKey objects of tiny Blum moduli.  Both parties run in their
// own thread but never at the same time (baton: a party runs until it has to read a line that is not there), so the
// draws of gcry_randomize can be attributed to the party that made them and every run is deterministic.
// One ndjson event per proof for spec/QRProofTrace.tla: statement, witness, the draws of either party, every line
// either party wrote / was given, verdict, how either party ended.
//   drv_qrproof record <family> <seed> <executions> <trace-out.ndjson>
//   families: open (C01: create, mask chain, verified opening by all players, type)   honest (C03)
//             false (C04: guessing provers with dictated verifier coins, witnesses that do not fit, lying openings)
//             mut (C05: one transmitted line changed by a relay)   typechange   zero   stackeq
#include "common.hh"
#include <list>
#include <deque>
#include <algorithm>
#include <thread>
#include <mutex>
#include <condition_variable>
#include <functional>
#include <csetjmp>
#include <csignal>
#define private public
#define protected public
#include "libTMCG.hh"
#undef private
#undef protected
#include "mpz_helper.hh"
#include "mpz_sqrtm.hh"
#include "mpz_srandom.hh"

static unsigned long rnd(unsigned long m) { return m ? (unsigned long)(seam::next64() % m) : 0; }
static const long PRIMES[] = {7, 11, 19, 23, 31, 43, 47, 59, 67, 71, 79, 83, 103, 107, 127, 131, 139, 151, 163, 167, 179, 191, 199, 211};
static const int NPRIMES = 24;

// ------------------------------------------------------------------------------------------------ keys
static long nqr_y(long p, long q, bool square) {   // smallest y > 1 that is a non-residue (square: a residue) modulo p and modulo q
	for (long y = 2; y < p * q; y++) {
		Mpz Y(y), P(p), Q(q);
		int a = mpz_legendre(Y, P), b = mpz_legendre(Y, Q);
		if (!square && a == -1 && b == -1) return y;
		if (square && a == 1 && b == 1) return y;
	}
	return 0;
}
struct KeyPair { TMCG_SecretKey *sk; TMCG_PublicKey *pk; long m, y, p, q; };
static KeyPair make_key(long p, long q, bool ysquare = false) {
	KeyPair k; k.p = p; k.q = q; k.m = p * q; k.y = nqr_y(p, q, ysquare);
	std::ostringstream os; Mpz M(k.m), Y(k.y), P(p), Q(q);
	os << "sec|A|a@b|TMCGv1:77[CRT]|" << (mpz_srcptr)M.v << "|" << (mpz_srcptr)Y.v << "|" << (mpz_srcptr)P.v << "|" << (mpz_srcptr)Q.v << "|nzk^0^0^^0^^0^^|sig";
	k.sk = new TMCG_SecretKey();
	if (!k.sk->import(os.str())) { fprintf(stderr, "key import failed for %ld %ld\n", p, q); exit(2); }
	k.pk = new TMCG_PublicKey(*k.sk);
	return k;
}
static void free_key(KeyPair &k) { delete k.sk; delete k.pk; }
static KeyPair random_key(bool small, bool ysquare = false) {
	int lim = small ? 6 : NPRIMES;
	long p = PRIMES[rnd(lim)], q = PRIMES[rnd(lim)];
	// a usable key needs gcd(m, phi(m)) = 1 (the library precomputes m^-1 mod phi(m))
	while (q == p || (p - 1) % q == 0 || (q - 1) % p == 0) { p = PRIMES[rnd(lim)]; q = PRIMES[rnd(lim)]; }
	return make_key(p, q, ysquare);
}
static json key_j(const KeyPair &k) { return {{"m", k.m}, {"y", k.y}, {"p", k.p}, {"q", k.q}}; }

// ------------------------------------------------------------------------------------------------ small arithmetic of the harness
static long gcdl(long a, long b) { while (b) { long t = a % b; a = b; b = t; } return a < 0 ? -a : a; }
static long mulm(long a, long b, long m) { return (long)(((__int128)((a % m + m) % m) * ((b % m + m) % m)) % m); }
static long invm(long a, long m) { Mpz A(a), M(m), R; if (!mpz_invert(R, A, M)) return 0; return R.l(); }
static long rand_unit(long m, bool no1) { for (;;) { long u = 1 + rnd(m - 1); if (gcdl(u, m) == 1 && !(no1 && u == 1)) return u; } }
static int jac(long a, const KeyPair &k) { Mpz A(a), M(k.m); return mpz_jacobi(A, M); }
static bool is_qr(long a, const KeyPair &k) { Mpz A(a), P(k.p), Q(k.q); return tmcg_mpz_qrmn_p(A, P, Q); }
static long maskv(const KeyPair &k, long z, long r, long b) { long v = mulm(z, mulm(r, r, k.m), k.m); return (b & 1) ? mulm(v, k.y, k.m) : v; }
static long rand_qr(const KeyPair &k) { long u = rand_unit(k.m, false); return mulm(u, u, k.m); }
static long rand_nqr(const KeyPair &k) { return mulm(rand_qr(k), k.y, k.m); }               // Jacobi symbol +1, no square
static long rand_jm1(const KeyPair &k) { for (;;) { long u = rand_unit(k.m, false); if (jac(u, k) == -1) return u; } }
static long sqrt_of(const KeyPair &k, long t) {      // the root the library's prover uses
	Mpz T(t), R;
	tmcg_mpz_sqrtmn_fast(R, T, k.sk->p, k.sk->q, k.sk->m, k.sk->gcdext_up, k.sk->gcdext_vq, k.sk->pa1d4, k.sk->qa1d4);
	return R.l();
}

// ------------------------------------------------------------------------------------------------ two parties, one baton
struct Mutation { std::string kind = "none"; int dir = 0; size_t pos = 0; long m = 0, p = 0; };   // dir 0: lines of the prover, 1: of the verifier
static thread_local sigjmp_buf *tl_jb = NULL;
static void on_abort(int) { if (tl_jb) siglongjmp(*tl_jb, 1); signal(SIGABRT, SIG_DFL); raise(SIGABRT); }

struct Duplex {
	std::mutex mu; std::condition_variable cv;
	int turn = 1; bool done[2] = {false, false}, waiting[2] = {false, false};
	std::deque<char> q[2];                       // q[i]: what party i can read
	struct Line { std::string s; bool dec; };    // dec: a security parameter, written in decimal
	std::vector<Line> sent[2], got[2];           // lines party i wrote / was given
	std::string partial[2];
	Mutation mut; bool holding = false, helddec = false; std::string held;
	std::vector<seam::Draw> coins[2];
	std::vector<std::pair<size_t, unsigned long> > script[2]; size_t pushed = 0;
	std::string status[2]; bool mismatch = false;
	long kdec[2] = {-1, -1};                      // lines equal to this decimal are a security parameter (written by party i)

	void install(int i) { seam::clear_script(); for (size_t k = 0; k < script[i].size(); k++) seam::push_be_ui(script[i][k].first, script[i][k].second); pushed = script[i].size(); }
	void harvest(int i) {
		std::vector<seam::Draw> &lg = seam::log();
		coins[i].insert(coins[i].end(), lg.begin(), lg.end()); seam::clear_log();
		size_t used = pushed - seam::pending();
		script[i].erase(script[i].begin(), script[i].begin() + std::min(used, script[i].size()));
		seam::clear_script(); pushed = 0;
	}
	void pass(int from) { harvest(from); turn = 1 - from; install(turn); cv.notify_all(); }
	// ---- reading side of party i
	int getc(int i) {
		std::unique_lock<std::mutex> lk(mu);
		while (q[i].empty()) {
			if (done[1 - i]) return EOF;
			if (waiting[1 - i] && q[1 - i].empty()) return EOF;      // both would wait: nothing will ever come
			waiting[i] = true; pass(i);
			cv.wait(lk, [&] { return turn == i; });
			waiting[i] = false;
		}
		char c = q[i].front(); q[i].pop_front(); return (unsigned char)c;
	}
	// ---- writing side of party i: complete lines go through the relay
	static bool parse(const std::string &line, long kd, Mpz &v) {
		if (kd >= 0 && line == std::to_string(kd)) { mpz_set_si(v, kd); return true; }
		return mpz_set_str(v, line.c_str(), TMCG_MPZ_IO_BASE) == 0;
	}
	bool is_dec(const std::string &line, int i) { return kdec[i] >= 0 && line == std::to_string(kdec[i]); }
	std::string mutate(const std::string &line, int i) {
		Mpz v; if (!parse(line, kdec[i], v)) return line;
		bool dec = is_dec(line, i);
		Mpz M(mut.m);
		const std::string &k = mut.kind;
		if (k == "plus1") mpz_add_ui(v, v, 1);
		else if (k == "neg") { mpz_mod(v, v, M); mpz_sub(v, M, v); }
		else if (k == "minus") mpz_neg(v, v);
		else if (k == "zero") mpz_set_ui(v, 0);
		else if (k == "one") mpz_set_ui(v, 1);
		else if (k == "mm1") mpz_sub_ui(v, M, 1);
		else if (k == "m") mpz_set(v, M);
		else if (k == "nonunit") mpz_set_si(v, mut.p);
		else if (k == "over") mpz_add(v, v, M);
		else if (k == "flip") { mpz_ui_sub(v, 1, v); }
		if (dec) return std::to_string(v.l());
		std::ostringstream o; o << (mpz_srcptr)v.v; return o.str();
	}
	// a line that arrives after its reader has ended is not part of what that party was given
	void deliver(int to, const std::string &line, bool dec) { if (!done[to]) got[to].push_back({line, dec}); q[to].insert(q[to].end(), line.begin(), line.end()); q[to].push_back('\n'); }
	void put(int i, char c) {
		std::lock_guard<std::mutex> lk(mu);
		if (c != '\n') { partial[i].push_back(c); return; }
		std::string line = partial[i]; partial[i].clear();
		bool dec = is_dec(line, i);
		sent[i].push_back({line, dec});
		size_t idx = sent[i].size();
		if (mut.kind != "none" && mut.dir == i) {
			if (mut.kind == "swap") {
				if (idx == mut.pos) { holding = true; held = line; helddec = dec; return; }
				if (idx == mut.pos + 1 && holding) { deliver(1 - i, line, dec); deliver(1 - i, held, helddec); holding = false; return; }
			} else if (idx == mut.pos) { deliver(1 - i, mutate(line, i), dec); return; }
		}
		deliver(1 - i, line, dec);
	}
	void finish(int i) { std::lock_guard<std::mutex> lk(mu); harvest(i); done[i] = true; turn = 1 - i; install(turn); cv.notify_all(); }
};
class InBuf : public std::streambuf {
	public: Duplex *d; int i; char ch;
	InBuf(Duplex *dd, int ii): d(dd), i(ii) {}
	virtual int underflow() { int c = d->getc(i); if (c == EOF) return EOF; ch = (char)c; setg(&ch, &ch, &ch + 1); return (unsigned char)ch; }
};
class OutBuf : public std::streambuf {
	public: Duplex *d; int i;
	OutBuf(Duplex *dd, int ii): d(dd), i(ii) {}
	virtual int overflow(int c) { if (c != EOF) d->put(i, (char)c); return c; }
	virtual std::streamsize xsputn(const char *s, std::streamsize n) { for (std::streamsize k = 0; k < n; k++) d->put(i, s[k]); return n; }
};
typedef std::function<void(std::istream &, std::ostream &)> Body;
static void party(Duplex *d, int i, Body f) {
	{ std::unique_lock<std::mutex> lk(d->mu); d->cv.wait(lk, [&] { return d->turn == i; }); }
	InBuf ib(d, i); OutBuf ob(d, i); std::istream in(&ib); std::ostream out(&ob);
	sigjmp_buf jb; tl_jb = &jb;
	d->status[i] = "ok";
	if (sigsetjmp(jb, 1) == 0) {
		try { f(in, out); }
		catch (...) { d->status[i] = "exc"; }
	} else d->status[i] = "abort";
	tl_jb = NULL;
	d->finish(i);
}
// runs prover (party 0) and verifier (party 1); the verifier starts
static void run_pair(Duplex &d, Body prover, Body verifier) {
	seam::clear_log(); seam::clear_script();
	d.turn = 1; d.install(1);
	std::thread tp(party, &d, 0, prover), tv(party, &d, 1, verifier);
	tp.join(); tv.join();
	seam::clear_script(); seam::clear_log();
}

// ------------------------------------------------------------------------------------------------ logging
static json lines_j(const std::vector<Duplex::Line> &ls) {
	json a = json::array();
	for (size_t k = 0; k < ls.size(); k++) {
		Mpz v; if (mpz_set_str(v, ls[k].s.c_str(), ls[k].dec ? 10 : TMCG_MPZ_IO_BASE) != 0) { a.push_back(-999999); continue; }
		a.push_back(v.l());
	}
	return a;
}
// draws of one party; residue draws are reduced modulo the modulus of the entry they were made for: `plan` lists
// (modulus, rounds) per value proof in order, a value proof ends after `rounds` kept units
struct Plan { long m; unsigned long rounds; bool no1; };
static json coins_j(const std::vector<seam::Draw> &lg, const std::vector<Plan> &plan) {
	json cs = json::array(); size_t pi = 0; unsigned long kept = 0;
	while (pi < plan.size() && plan[pi].rounds == 0) pi++;
	for (size_t k = 0; k < lg.size(); k++) {
		json c;
		if (lg[k].len == 1) { c["k"] = "b"; c["v"] = strtoul(lg[k].hex.c_str(), NULL, 16); }
		else {
			const Plan &pl = plan[std::min(pi, plan.size() - 1)];
			Mpz v(lg[k].hex, 16), M(pl.m); mpz_mod(v, v, M);
			c["k"] = "m"; c["v"] = v.l(); c["mod"] = pl.m;
			Mpz g; mpz_gcd(g, v, M);
			if (mpz_cmp_ui(g.v, 1) == 0 && !(pl.no1 && v.l() == 1)) { kept++; if (kept >= pl.rounds) { kept = 0; pi++; while (pi < plan.size() && plan[pi].rounds == 0) pi++; } }
		}
		cs.push_back(c);
	}
	return cs;
}
static json card_j(const TMCG_Card &c) {
	json a = json::array();
	for (size_t k = 0; k < c.z.size(); k++) { json r = json::array(); for (size_t w = 0; w < c.z[k].size(); w++) r.push_back(mpz_get_si(&c.z[k][w])); a.push_back(r); }
	return a;
}
static json sec_j(const TMCG_CardSecret &c) {
	json a; json rr = json::array(), bb = json::array();
	for (size_t k = 0; k < c.r.size(); k++) { json r = json::array(), b = json::array(); for (size_t w = 0; w < c.r[k].size(); w++) { r.push_back(mpz_get_si(&c.r[k][w])); b.push_back(mpz_get_si(&c.b[k][w])); } rr.push_back(r); bb.push_back(b); }
	a["r"] = rr; a["b"] = bb; return a;
}
static json mut_j(const Mutation &m) {
	if (m.kind == "none") return {{"kind", "none"}};
	return {{"kind", m.kind}, {"dir", m.dir == 0 ? "p" : "v"}, {"pos", m.pos}, {"m", m.m}, {"p", m.p}};
}
static unsigned long rounds_of(unsigned long kap) { return std::min<unsigned long>(kap, TMCG_MAX_ZNP_ITERATIONS); }

// ------------------------------------------------------------------------------------------------ cheating provers (QRProof.tla section 3)
static int gbit(const std::vector<int> &g, unsigned long i) { return i < g.size() ? g[i] : 0; }
static unsigned long read_kappa(std::istream &in) { unsigned long k = 0; in >> k; in.ignore(1, '\n'); return rounds_of(k); }
static long draw_unit(long m) { Mpz r, M(m), g; do { tmcg_mpz_srandomm(r, M); mpz_gcd(g, r, M); } while (mpz_cmp_ui(g.v, 1) || !mpz_cmp_ui(r.v, 1)); return r.l(); }
static long draw_bit() { Mpz b; tmcg_mpz_srandomb(b, 1); return b.l(); }
static void put_l(std::ostream &out, long v) { Mpz V(v); out << (mpz_srcptr)V.v << std::endl; }
static void guess_qr(long m, long t, const std::vector<int> &g, std::istream &in, std::ostream &out) {
	unsigned long n = read_kappa(in); std::vector<long> u(n);
	for (unsigned long i = 0; i < n; i++) {
		u[i] = draw_unit(m); long q = mulm(u[i], u[i], m), o = mulm(t, invm(q, m), m);
		if (gbit(g, i) & 1) { put_l(out, q); put_l(out, o); } else { put_l(out, o); put_l(out, q); }
	}
	for (unsigned long i = 0; i < n; i++) { Mpz c; in >> c.v; put_l(out, u[i]); }
}
static void guess_nqr(const KeyPair &k, long t, const std::vector<int> &g, std::istream &in, std::ostream &out) {
	long bar = mulm(t, invm(k.y, k.m), k.m); put_l(out, bar); guess_qr(k.m, bar, g, in, out);
}
static void guess_mv(const KeyPair &k, long z, long zz, const std::vector<int> &g, std::istream &in, std::ostream &out) {
	unsigned long n = read_kappa(in); std::vector<long> u(n), b(n);
	for (unsigned long i = 0; i < n; i++) { b[i] = draw_bit(); u[i] = draw_unit(k.m); put_l(out, maskv(k, (gbit(g, i) & 1) ? zz : z, u[i], b[i])); }
	for (unsigned long i = 0; i < n; i++) { Mpz c; in >> c.v; put_l(out, u[i]); put_l(out, b[i]); }
}
static void guess_mo(const KeyPair &k, long t, const std::vector<int> &g, std::istream &in, std::ostream &out) {
	unsigned long n = read_kappa(in); std::vector<long> u(n), b(n);
	for (unsigned long i = 0; i < n; i++) {
		b[i] = draw_bit(); u[i] = draw_unit(k.m); long q = maskv(k, 1, u[i], b[i]), o = mulm(t, invm(q, k.m), k.m);
		if (gbit(g, i) & 1) { put_l(out, q); put_l(out, o); } else { put_l(out, o); put_l(out, q); }
	}
	for (unsigned long i = 0; i < n; i++) { Mpz c; in >> c.v; put_l(out, u[i]); put_l(out, b[i]); }
}
static void zero_mv(std::istream &in, std::ostream &out) {
	unsigned long n = read_kappa(in);
	for (unsigned long i = 0; i < n; i++) put_l(out, 0);
	for (unsigned long i = 0; i < n; i++) { Mpz c; in >> c.v; put_l(out, 0); put_l(out, 0); }
}

// ------------------------------------------------------------------------------------------------ one proof, one event
struct Ctx {
	std::ofstream *out; std::vector<KeyPair> *keys; TMCG_PublicKeyRing *ring; size_t np, w;
	unsigned long kv, kp; SchindelhauerTMCG *tv, *tp; std::string family;
};
static std::vector<int> rand_bits(size_t n) { std::vector<int> g(n); for (size_t i = 0; i < n; i++) g[i] = (int)rnd(2); return g; }
static json bits_j(const std::vector<int> &g) { json a = json::array(); for (size_t i = 0; i < g.size(); i++) a.push_back(g[i]); return a; }
// dictate the verifier's challenge bits: the guess itself, the guess with one bit changed, or random bits
static void dictate(Duplex &d, const std::vector<int> &g, size_t from, size_t n, int how) {
	std::vector<int> c(g.begin(), g.begin() + std::min(n, g.size())); c.resize(n, 0);
	if (how == 1 && n > 0) c[rnd(n)] ^= 1;
	if (how == 2) for (size_t i = 0; i < n; i++) c[i] = (int)rnd(2);
	for (size_t i = 0; i < from; i++) d.script[1].push_back(std::make_pair((size_t)1, (unsigned long)rnd(2)));
	for (size_t i = 0; i < n; i++) d.script[1].push_back(std::make_pair((size_t)1, (unsigned long)c[i]));
}
static void emit(Ctx &cx, Duplex &d, json e, bool acc, bool vexc, const std::vector<Plan> &pplan, const std::vector<Plan> &vplan, long pkd) {
	e["e"] = "Proof"; e["kv"] = cx.kv; e["kp"] = cx.kp;
	e["pc"] = coins_j(d.coins[0], pplan); e["vc"] = coins_j(d.coins[1], vplan);
	e["pl"] = lines_j(d.sent[0]); e["vl"] = lines_j(d.sent[1]);
	e["rl"] = lines_j(d.got[1]); e["ql"] = lines_j(d.got[0]); (void)pkd;
	e["acc"] = acc; e["vexc"] = vexc; e["pst"] = d.status[0]; e["mut"] = mut_j(d.mut);
	(*cx.out) << e.dump() << "\n";
}
static Mutation pick_mutation(const KeyPair &k, size_t plines, size_t vlines, bool allow_v) {
	static const char *PK[] = {"plus1", "neg", "minus", "zero", "one", "mm1", "m", "nonunit", "over", "swap"};
	static const char *VK[] = {"plus1", "zero", "one", "mm1", "over", "flip"};
	Mutation m; m.m = k.m; m.p = rnd(2) ? k.p : k.q;
	if (allow_v && vlines > 0 && rnd(5) == 0) { m.dir = 1; m.kind = VK[rnd(6)]; m.pos = 1 + rnd(vlines); }
	else { m.dir = 0; m.kind = PK[rnd(10)]; m.pos = 1 + rnd(std::max<size_t>(plines, 1)); }
	return m;
}

// ---- value level.  mode: 0 honest, 1 guess (false statement), 2 witness that does not fit, 3 mutated, 4 zeros
static bool value_proof(Ctx &cx, const std::string &proto, int mode) {
	bool small = rnd(3) != 0;
	bool ysq = (proto == "PZK" && mode == 1);
	KeyPair k = random_key(small, ysq);
	unsigned long kv = cx.kv, n = rounds_of(kv);
	Duplex d; d.kdec[1] = (long)kv; d.kdec[0] = (proto == "PZK") ? (long)cx.kp : -1;
	json e; e["proto"] = proto; e["key"] = key_j(k); e["pm"] = "alg";
	std::vector<int> g = rand_bits(n);
	Body P, V; bool acc = false, vexc = false;
	std::vector<Plan> pplan, vplan; pplan.push_back({k.m, 1UL << 30, true}); vplan.push_back({k.m, 1UL << 30, false});
	long t = 0, root = 0, z = 0, zz = 0, r = 0, b = 0;
	SchindelhauerTMCG *tp = cx.tp, *tv = cx.tv;
	Mpz T, Z, ZZ, R, B;
	auto vwrap = [&](std::function<bool(std::istream &, std::ostream &)> f) {
		return [&, f](std::istream &in, std::ostream &out) { try { acc = f(in, out); } catch (...) { acc = false; vexc = true; } };
	};
	size_t plines = 0;
	if (proto == "QR" || proto == "NQR") {
		bool isq = (proto == "QR");
		bool truth = (mode != 1);
		t = (isq == truth) ? rand_qr(k) : rand_nqr(k);
		// statements outside Z°_m (Jacobi symbol -1, or a multiple of a factor): refused before any round
		if ((mode == 3 && rnd(8) == 0) || (mode == 1 && rnd(4) == 0)) t = rnd(3) ? rand_jm1(k) : k.p * (long)(1 + rnd(k.q - 1));
		mpz_set_si(T, t); e["t"] = t;
		plines = 3 * n + (isq ? 0 : 1);
		if (!isq && mode == 2) {          // NQR claimed through an unrelated square, proved honestly
			long bar = rand_qr(k); static Mpz BAR; mpz_set_si(BAR, bar);
			t = rnd(2) ? rand_qr(k) : rand_nqr(k); mpz_set_si(T, t); e["t"] = t;
			root = sqrt_of(k, bar); e["root"] = root; e["bar"] = bar; e["pm"] = "unrel";
			P = [&, bar](std::istream &in, std::ostream &out) { put_l(out, bar); tp->TMCG_ProveQuadraticResidue(*k.sk, BAR, in, out); };
		} else if (truth && is_qr(isq ? t : mulm(t, invm(k.y, k.m), k.m), k) && jac(t, k) == 1) {
			root = sqrt_of(k, isq ? t : mulm(t, invm(k.y, k.m), k.m)); e["root"] = root;
			if (isq) P = [&](std::istream &in, std::ostream &out) { tp->TMCG_ProveQuadraticResidue(*k.sk, T, in, out); };
			else P = [&](std::istream &in, std::ostream &out) { tp->TMCG_ProveNonQuadraticResidue(*k.sk, T, in, out); };
		} else {
			e["pm"] = "guess"; e["guess"] = bits_j(g);
			if (isq) P = [&](std::istream &in, std::ostream &out) { guess_qr(k.m, t, g, in, out); };
			else P = [&](std::istream &in, std::ostream &out) { guess_nqr(k, t, g, in, out); };
			dictate(d, g, 0, n, (int)rnd(3));
		}
		if (isq) V = vwrap([&](std::istream &in, std::ostream &out) { return tv->TMCG_VerifyQuadraticResidue(*k.pk, T, in, out); });
		else V = vwrap([&](std::istream &in, std::ostream &out) { return tv->TMCG_VerifyNonQuadraticResidue(*k.pk, T, in, out); });
	} else if (proto == "MV") {
		z = rnd(4) ? (rnd(2) ? rand_qr(k) : rand_nqr(k)) : rand_jm1(k);
		r = rand_unit(k.m, false); b = rnd(2); zz = maskv(k, z, r, b);
		while (z == zz && rnd(4)) { r = rand_unit(k.m, false); b = rnd(2); zz = maskv(k, z, r, b); }    // z = zz stops the library's prover (kept now and then)
		plines = 3 * n;
		if (mode == 1) {            // no masking leads from z to zz
			zz = (jac(z, k) == 1) ? rand_jm1(k) : (rnd(2) ? rand_qr(k) : rand_nqr(k));
			e["pm"] = "guess"; e["guess"] = bits_j(g);
			P = [&](std::istream &in, std::ostream &out) { guess_mv(k, z, zz, g, in, out); };
			dictate(d, g, 0, n, (int)rnd(3));
		} else if (mode == 4) {
			if (rnd(2)) zz = rnd(2) ? rand_jm1(k) : rand_unit(k.m, false);
			e["pm"] = "zero";
			P = [&](std::istream &in, std::ostream &out) { zero_mv(in, out); };
		} else {
			if (mode == 2) {       // another pair (r, b) than the one that made zz; passes when every challenge is 1
				r = rand_unit(k.m, false); b = rnd(2);
				if (rnd(4) == 0) dictate(d, std::vector<int>(n, 1), 0, n, 0);
			}
			P = [&](std::istream &in, std::ostream &out) { tp->TMCG_ProveMaskValue(*k.pk, Z, ZZ, R, B, in, out); };
		}
		mpz_set_si(Z, z); mpz_set_si(ZZ, zz); mpz_set_si(R, r); mpz_set_si(B, b);
		e["z"] = z; e["zz"] = zz; e["r"] = r; e["b"] = b;
		V = vwrap([&](std::istream &in, std::ostream &out) { return tv->TMCG_VerifyMaskValue(*k.pk, Z, ZZ, in, out); });
	} else if (proto == "MO") {
		r = rand_unit(k.m, false); b = rnd(2); t = maskv(k, 1, r, b);
		plines = 4 * n;
		if (mode == 1) {
			t = rand_jm1(k); e["pm"] = "guess"; e["guess"] = bits_j(g);
			P = [&](std::istream &in, std::ostream &out) { guess_mo(k, t, g, in, out); };
			dictate(d, g, 0, n, (int)rnd(3));
		} else {
			if (mode == 2) { r = rand_unit(k.m, false); b = rnd(2); }
			P = [&](std::istream &in, std::ostream &out) { tp->TMCG_ProveMaskOne(*k.pk, R, B, in, out); };
		}
		mpz_set_si(T, t); mpz_set_si(R, r); mpz_set_si(B, b);
		e["t"] = t; e["r"] = r; e["b"] = b;
		V = vwrap([&](std::istream &in, std::ostream &out) { return tv->TMCG_VerifyMaskOne(*k.pk, T, in, out); });
	} else if (proto == "PZK") {
		plines = n * (cx.kp + 2);
		P = [&](std::istream &in, std::ostream &out) { tp->TMCG_ProveNonQuadraticResidue_PerfectZeroKnowledge(*k.sk, in, out); };
		V = vwrap([&](std::istream &in, std::ostream &out) { return tv->TMCG_VerifyNonQuadraticResidue_PerfectZeroKnowledge(*k.pk, in, out); });
	}
	if (mode == 3) d.mut = pick_mutation(k, plines, 1 + n, proto != "PZK");
	run_pair(d, P, V);
	emit(cx, d, e, acc, vexc, pplan, vplan, d.kdec[0]);
	free_key(k);
	return acc;
}

// ---- card level
static void set_secret_random(Ctx &cx, TMCG_CardSecret &cs, bool neutral) {
	for (size_t k = 0; k < cx.np; k++) for (size_t w = 0; w < cx.w; w++) {
		mpz_set_si(&cs.r[k][w], rand_unit((*cx.keys)[k].m, false)); mpz_set_si(&cs.b[k][w], (long)rnd(2));
	}
	if (neutral) for (size_t w = 0; w < cx.w; w++) {
		long x = 0; for (size_t k = 0; k < cx.np; k++) x ^= (mpz_get_si(&cs.b[k][w]) & 1);
		if (x) { size_t k = rnd(cx.np); mpz_set_si(&cs.b[k][w], (mpz_get_si(&cs.b[k][w]) & 1) ^ 1); }
	}
}
static bool neutral_secret(Ctx &cx, const TMCG_CardSecret &cs) {
	for (size_t w = 0; w < cx.w; w++) { long x = 0; for (size_t k = 0; k < cx.np; k++) x ^= (mpz_get_si(&cs.b[k][w]) & 1); if (x) return false; }
	return true;
}
static std::vector<Plan> entry_plan(Ctx &cx, unsigned long n) {
	std::vector<Plan> p; for (size_t k = 0; k < cx.np; k++) for (size_t w = 0; w < cx.w; w++) p.push_back({(*cx.keys)[k].m, n, true});
	p.push_back({(*cx.keys)[cx.np - 1].m, 1UL << 30, true});
	return p;
}
// mask card.  mode 0: honest, neutral secret; 2: the prover uses another secret than the one that made cc;
// 3: mutated; 4: zeros (cc arbitrary); 5: a secret that is NOT neutral (the type changes), otherwise honest
static bool mask_card_proof(Ctx &cx, const TMCG_Card &c, int mode, TMCG_Card *result = NULL) {
	unsigned long n = rounds_of(cx.kv);
	TMCG_CardSecret cs(cx.np, cx.w), cs2(cx.np, cx.w); TMCG_Card cc(cx.np, cx.w);
	set_secret_random(cx, cs, mode != 5);
	if (mode == 5 && neutral_secret(cx, cs)) { size_t k = rnd(cx.np), w = rnd(cx.w); mpz_set_si(&cs.b[k][w], (mpz_get_si(&cs.b[k][w]) & 1) ^ 1); }
	cx.tp->TMCG_MaskCard(c, cc, cs, *cx.ring, rnd(2));
	Duplex d; d.kdec[1] = (long)cx.kv;
	json e; e["proto"] = "MC"; e["pm"] = "alg"; e["c"] = card_j(c);
	TMCG_CardSecret *use = &cs;
	if (mode == 2) { set_secret_random(cx, cs2, rnd(2)); size_t k = rnd(cx.np), w = rnd(cx.w); if (rnd(2)) { mpz_set(&cs2.r[k][w], &cs.r[k][w]); } use = &cs2; }
	if (mode == 4) { if (rnd(2)) for (size_t k = 0; k < cx.np; k++) for (size_t w = 0; w < cx.w; w++) mpz_set_si(&cc.z[k][w], rnd(3) ? rand_unit((*cx.keys)[k].m, false) : (long)rnd(2) * (*cx.keys)[k].p); e["pm"] = "zero"; }
	e["cc"] = card_j(cc); e["sec"] = sec_j(*use);
	bool acc = false, vexc = false;
	Body P = [&](std::istream &in, std::ostream &out) {
		if (mode == 4) { for (size_t j = 0; j < cx.np * cx.w; j++) zero_mv(in, out); }
		else cx.tp->TMCG_ProveMaskCard(c, cc, *use, *cx.ring, in, out);
	};
	Body V = [&](std::istream &in, std::ostream &out) { try { acc = cx.tv->TMCG_VerifyMaskCard(c, cc, *cx.ring, in, out); } catch (...) { acc = false; vexc = true; } };
	if (mode == 3) { size_t k = rnd(cx.np); d.mut = pick_mutation((*cx.keys)[k], 3 * n * cx.np * cx.w, 0, false); }
	if (mode == 2 && rnd(3) == 0) dictate(d, std::vector<int>(n * cx.np * cx.w, 1), 0, n * cx.np * cx.w, 0);
	run_pair(d, P, V);
	std::vector<Plan> vplan; vplan.push_back({(*cx.keys)[0].m, 1UL << 30, false});
	emit(cx, d, e, acc, vexc, entry_plan(cx, n), vplan, -1);
	if (result) *result = cc;
	return acc;
}
// private card: the creator shows that it knows the content (r, b) of every entry.  mode 0 honest, 2 the secret of another card, 3 mutated
static bool private_card_proof(Ctx &cx, int mode) {
	unsigned long n = rounds_of(cx.kv);
	TMCG_CardSecret cs(cx.np, cx.w), cs2(cx.np, cx.w); TMCG_Card one(cx.np, cx.w), c(cx.np, cx.w);
	for (size_t k = 0; k < cx.np; k++) for (size_t w = 0; w < cx.w; w++) mpz_set_ui(&one.z[k][w], 1);
	set_secret_random(cx, cs, false);
	cx.tp->TMCG_MaskCard(one, c, cs, *cx.ring, rnd(2));
	TMCG_CardSecret *use = &cs;
	if (mode == 2) { cs2 = cs; size_t k = rnd(cx.np), w = rnd(cx.w); if (rnd(2)) mpz_set_si(&cs2.b[k][w], (mpz_get_si(&cs.b[k][w]) & 1) ^ 1); else mpz_set_si(&cs2.r[k][w], rand_unit((*cx.keys)[k].m, false)); use = &cs2; }
	Duplex d; d.kdec[1] = (long)cx.kv;
	json e; e["proto"] = "PC"; e["pm"] = "alg"; e["c"] = card_j(c); e["sec"] = sec_j(*use);
	bool acc = false, vexc = false;
	Body P = [&](std::istream &in, std::ostream &out) { cx.tp->TMCG_ProvePrivateCard(*use, *cx.ring, in, out); };
	Body V = [&](std::istream &in, std::ostream &out) { try { acc = cx.tv->TMCG_VerifyPrivateCard(c, *cx.ring, in, out); } catch (...) { acc = false; vexc = true; } };
	if (mode == 3) { size_t k = rnd(cx.np); d.mut = pick_mutation((*cx.keys)[k], 4 * n * cx.np * cx.w, 0, false); }
	run_pair(d, P, V);
	std::vector<Plan> vplan; vplan.push_back({(*cx.keys)[0].m, 1UL << 30, false});
	emit(cx, d, e, acc, vexc, entry_plan(cx, n), vplan, -1);
	return acc;
}
// opening of row idx of card c towards a verifier.  mode 0 honest, 1 lie about bit lw (guessing prover), 3 mutated
static bool card_secret_proof(Ctx &cx, const TMCG_Card &c, size_t idx, int mode, TMCG_CardSecret &acc_cs) {
	unsigned long n = rounds_of(cx.kv);
	KeyPair &k = (*cx.keys)[idx];
	Duplex d; d.kdec[1] = (long)cx.kv;
	json e; e["proto"] = "CS"; e["pm"] = "alg"; e["c"] = card_j(c); e["idx"] = idx;
	json roots = json::array(); size_t nnqr = 0;
	for (size_t w = 0; w < cx.w; w++) {
		long z = mpz_get_si(&c.z[idx][w]); bool q = is_qr(z, k); if (!q) nnqr++;
		roots.push_back(sqrt_of(k, q ? z : mulm(z, invm(k.y, k.m), k.m)));
	}
	e["roots"] = roots;
	size_t lw = rnd(cx.w); std::vector<int> g = rand_bits(n);
	bool acc = false, vexc = false;
	Body P;
	if (mode == 1) {
		e["pm"] = "lie"; e["lw"] = lw; e["guess"] = bits_j(g);
		P = [&](std::istream &in, std::ostream &out) {
			for (size_t w = 0; w < cx.w; w++) {
				long z = mpz_get_si(&c.z[idx][w]); bool q = is_qr(z, k);
				if (w != lw) {
					if (q) { out << "0" << std::endl; cx.tp->TMCG_ProveQuadraticResidue(*k.sk, &c.z[idx][w], in, out); }
					else { out << "1" << std::endl; cx.tp->TMCG_ProveNonQuadraticResidue(*k.sk, &c.z[idx][w], in, out); }
				} else if (q) { out << "1" << std::endl; guess_nqr(k, z, g, in, out); }
				else { out << "0" << std::endl; guess_qr(k.m, z, g, in, out); }
			}
		};
		dictate(d, g, lw * n, n, (int)rnd(3));
	} else P = [&](std::istream &in, std::ostream &out) { cx.tp->TMCG_ProveCardSecret(c, *k.sk, idx, in, out); };
	Body V = [&](std::istream &in, std::ostream &out) { try { acc = cx.tv->TMCG_VerifyCardSecret(c, acc_cs, *k.pk, idx, in, out); } catch (...) { acc = false; vexc = true; } };
	if (mode == 3) d.mut = pick_mutation(k, cx.w * (1 + 3 * n) + nnqr, 0, false);
	for (size_t w = 0; w < cx.w; w++) mpz_set_ui(&acc_cs.b[idx][w], 0);
	run_pair(d, P, V);
	json bits = json::array(); for (size_t w = 0; w < cx.w; w++) bits.push_back(mpz_get_si(&acc_cs.b[idx][w]));
	e["bits"] = bits;
	std::vector<Plan> pplan, vplan; pplan.push_back({k.m, 1UL << 30, true}); vplan.push_back({k.m, 1UL << 30, false});
	emit(cx, d, e, acc, vexc, pplan, vplan, -1);
	return acc;
}

// ---- the events of QRTrace.tla (card encoding), as in drv_qr.cc
static json draws_for_secret(Ctx &cx) {
	std::vector<Plan> plan; for (size_t k = 0; k < cx.np; k++) for (size_t w = 0; w < cx.w; w++) plan.push_back({(*cx.keys)[k].m, 1, false});
	plan.push_back({(*cx.keys)[cx.np - 1].m, 1UL << 30, false});
	json cs = coins_j(seam::log(), plan); seam::clear_log();
	for (size_t k = 0; k < cs.size(); k++) if (cs[k]["k"] == "b") cs[k]["v"] = cs[k]["v"].get<unsigned long>() & 1;
	return cs;
}

// ------------------------------------------------------------------------------------------------ executions
static void run_one(std::ofstream &out, const std::string &family, unsigned long seed, long x, bool thorough) {
	seam::seed_harness(seed * 1000003UL + x * 7 + std::hash<std::string>()(family) % 1000); seam::seed(seed * 7919UL + x * 13 + family.size());
	size_t np = 1 + rnd(4), w = 1 + rnd(3);
	if (family == "open" && np < 2) np = 2;
	bool small = rnd(3) != 0;
	std::vector<KeyPair> keys; json kj = json::array();
	for (size_t k = 0; k < np; k++) { keys.push_back(random_key(small)); kj.push_back(key_j(keys[k])); }
	TMCG_PublicKeyRing ring(np); for (size_t k = 0; k < np; k++) ring.keys[k] = *keys[k].pk;
	unsigned long kv = rnd(9), kp = rnd(9);
	if (rnd(6) == 0) kv = rnd(3);
	if (thorough && rnd(12) == 0 && family != "open") kv = 10 + rnd(71);
	SchindelhauerTMCG tv(kv, np, w), tp(kp, np, w);
	Ctx cx; cx.out = &out; cx.keys = &keys; cx.ring = &ring; cx.np = np; cx.w = w; cx.kv = kv; cx.kp = kp; cx.tv = &tv; cx.tp = &tp; cx.family = family;
	json ev; ev["e"] = "Reset"; ev["keys"] = kj; ev["np"] = np; ev["w"] = w; ev["src"] = {{"family", family}, {"seed", seed}, {"k", x}};
	out << ev.dump() << "\n";
	seam::record(true);
	size_t T = (size_t)1 << w;
	static const char *VP[] = {"QR", "NQR", "MV", "MO", "PZK"};
	auto some_card = [&](TMCG_Card &c) {          // a card of a random type, masked once with a neutral secret
		TMCG_Card o(np, w); TMCG_CardSecret cs(np, w);
		tp.TMCG_CreateOpenCard(o, ring, rnd(T)); set_secret_random(cx, cs, true); tp.TMCG_MaskCard(o, c, cs, ring, rnd(2));
	};
	if (family == "open") {
		size_t t = rnd(T);
		TMCG_Card cur(np, w);
		tp.TMCG_CreateOpenCard(cur, ring, t);
		{ json e; e["e"] = "Open"; e["t"] = t; e["card"] = card_j(cur); out << e.dump() << "\n"; }
		size_t chain = rnd(4); bool ok = true;
		for (size_t s = 0; s < chain && ok; s++) {
			size_t who = rnd(np);
			TMCG_CardSecret cs(np, w); TMCG_Card nxt(np, w);
			seam::clear_log();
			tp.TMCG_CreateCardSecret(cs, ring, who);
			json cc = draws_for_secret(cx);
			{ json e; e["e"] = "CSec"; e["i"] = who; e["coins"] = cc; e["sec"] = sec_j(cs); out << e.dump() << "\n"; }
			bool tap = rnd(2);
			tp.TMCG_MaskCard(cur, nxt, cs, ring, tap);
			{ json e; e["e"] = "Mask"; e["in"] = card_j(cur); e["sec"] = sec_j(cs); e["card"] = card_j(nxt); e["tap"] = tap; out << e.dump() << "\n"; }
			// the masking player proves the mask to the others (one verifier stands for them)
			if (rnd(2)) {
				Duplex d; d.kdec[1] = (long)kv; bool acc = false, vexc = false;
				json e; e["proto"] = "MC"; e["pm"] = "alg"; e["c"] = card_j(cur); e["cc"] = card_j(nxt); e["sec"] = sec_j(cs);
				Body P = [&](std::istream &in, std::ostream &o2) { tp.TMCG_ProveMaskCard(cur, nxt, cs, ring, in, o2); };
				Body V = [&](std::istream &in, std::ostream &o2) { try { acc = tv.TMCG_VerifyMaskCard(cur, nxt, ring, in, o2); } catch (...) { acc = false; vexc = true; } };
				run_pair(d, P, V);
				std::vector<Plan> vplan; vplan.push_back({keys[0].m, 1UL << 30, false});
				emit(cx, d, e, acc, vexc, entry_plan(cx, rounds_of(kv)), vplan, -1);
			}
			cur = nxt;
		}
		// opening towards player o: every other player proves its row, o decodes its own
		size_t o = rnd(np);
		TMCG_CardSecret acc_cs(np, w);
		for (size_t k = 0; k < np && ok; k++) {
			if (k == o) {
				tv.TMCG_SelfCardSecret(cur, acc_cs, *keys[k].sk, k);
				json e; e["e"] = "Self"; e["i"] = k; e["card"] = card_j(cur); e["row"] = sec_j(acc_cs)["b"][k]; out << e.dump() << "\n";
			} else ok = card_secret_proof(cx, cur, k, 0, acc_cs);
		}
		if (ok) {
			size_t ty = tv.TMCG_TypeOfCard(acc_cs);
			json e; e["e"] = "Type"; e["card"] = card_j(cur); e["bits"] = sec_j(acc_cs)["b"]; e["res"] = ty; e["t"] = t; out << e.dump() << "\n";
		}
	} else if (family == "honest" || family == "false" || family == "mut") {
		int mode0 = family == "honest" ? 0 : family == "mut" ? 3 : 1;
		size_t nev = 3 + rnd(4);
		for (size_t j = 0; j < nev; j++) {
			size_t pick = rnd(9);
			int mode = mode0;
			if (family == "false" && rnd(3) == 0) mode = 2;
			if (pick < 5) {
				std::string proto = VP[pick];
				if (proto == "PZK" && (kv > 9 || kp > 9)) proto = "QR";
				if (mode == 2 && (proto == "QR" || proto == "PZK")) mode = 1;     // the library's QR prover stops on a non-square: only the guessing prover can claim it
				value_proof(cx, proto, mode);
			} else if (pick < 7) {
				TMCG_Card c(np, w); some_card(c);
				mask_card_proof(cx, c, family == "false" ? 2 : mode);
			} else if (pick == 7) {
				private_card_proof(cx, family == "false" ? 2 : mode);
			} else {
				TMCG_Card c(np, w); some_card(c); TMCG_CardSecret acc_cs(np, w);
				card_secret_proof(cx, c, rnd(np), family == "false" ? 1 : mode, acc_cs);
			}
		}
	} else if (family == "typechange") {
		TMCG_Card c(np, w); some_card(c);
		mask_card_proof(cx, c, 5);
	} else if (family == "zero") {
		if (rnd(2)) value_proof(cx, "MV", 4);
		else { TMCG_Card c(np, w); some_card(c); mask_card_proof(cx, c, 4); }
	}
	else if (family == "stackeq") {
		// cut-and-choose stack proof of TMCG_Card stacks with a stack secret in which one card secret is NOT neutral:
		// s2 really is the mix of s under that secret, the prover is the library's, only the types change
		size_t n = 2 + rnd(3), index = rnd(np);
		TMCG_Stack<TMCG_Card> st, s2; TMCG_StackSecret<TMCG_CardSecret> ss;
		for (size_t c = 0; c < n; c++) { TMCG_Card cd(np, w); some_card(cd); st.push(cd); }
		tp.TMCG_CreateStackSecret(ss, false, ring, index, n);
		bool neutral = rnd(4) == 0;
		if (!neutral) { size_t j = rnd(n), k = rnd(np), ww = rnd(w); mpz_set_si(&ss[j].second.b[k][ww], (mpz_get_si(&ss[j].second.b[k][ww]) & 1) ^ 1); }
		tp.TMCG_MixStack(st, s2, ss, ring, rnd(2));
		Duplex d; bool acc = false, vexc = false;
		Body P = [&](std::istream &in, std::ostream &o2) { tp.TMCG_ProveStackEquality(st, s2, ss, false, ring, index, in, o2); };
		Body V = [&](std::istream &in, std::ostream &o2) { try { acc = tv.TMCG_VerifyStackEquality(st, s2, false, ring, in, o2); } catch (...) { acc = false; vexc = true; } };
		run_pair(d, P, V);
		json a = json::array(), b = json::array(), ssj = json::array();
		for (size_t k = 0; k < n; k++) { a.push_back(card_j(st[k])); b.push_back(card_j(s2[k])); json e = sec_j(ss[k].second); e["pi"] = ss[k].first; ssj.push_back(e); }
		json e; e["e"] = "StackEq"; e["in"] = a; e["out"] = b; e["ss"] = ssj; e["acc"] = acc; e["vexc"] = vexc; e["kv"] = kv; e["pst"] = d.status[0];
		out << e.dump() << "\n";
	}
	seam::record(false);
	for (size_t k = 0; k < np; k++) free_key(keys[k]);
}

int main(int argc, char **argv) {
	install_terminate("drv_qrproof");
	quiet_cerr();
	if (!init_libTMCG()) return 2;
	struct sigaction sa; memset(&sa, 0, sizeof(sa)); sa.sa_handler = on_abort; sa.sa_flags = SA_NODEFER; sigaction(SIGABRT, &sa, NULL);
	if (!getenv("VERIF_VERBOSE")) { FILE *f = freopen("/dev/null", "w", stderr); (void)f; }      // assertion messages of the library
	if (argc >= 6 && !strcmp(argv[1], "record")) {
		std::string family = argv[2]; unsigned long seed = strtoul(argv[3], NULL, 10); long execs = atol(argv[4]);
		bool thorough = argc >= 7 && !strcmp(argv[6], "thorough");
		std::ofstream out(argv[5]);
		for (long x = 0; x < execs; x++) run_one(out, family, seed, x, thorough);
		return 0;
	}
	return 2;
}
