#include "seam_rng.hh"
#include <cstring>
#include <cstdlib>
#include <gcrypt.h>

namespace seam {
static uint64_t st_lib = 0x9E3779B97F4A7C15ULL, st_h = 0x1234567ULL;
static bool rec = false, strict_mode = false, mism = false;
static std::vector<Draw> the_log;
static std::deque<Scripted> script;
static unsigned long cnt_draws = 0, cnt_bytes = 0;

static inline uint64_t splitmix(uint64_t &s) {
	uint64_t z = (s += 0x9E3779B97F4A7C15ULL);
	z = (z ^ (z >> 30)) * 0xBF58476D1CE4E5B9ULL;
	z = (z ^ (z >> 27)) * 0x94D049BB133111EBULL;
	return z ^ (z >> 31);
}
void seed(uint64_t s) { st_lib = s * 0x2545F4914F6CDD1DULL + 0x9E3779B97F4A7C15ULL; }
void seed_harness(uint64_t s) { st_h = s * 0x9E3779B97F4A7C15ULL + 77; }
uint64_t next64() { return splitmix(st_h); }
void record(bool on) { rec = on; }
std::vector<Draw> &log() { return the_log; }
void clear_log() { the_log.clear(); }
void push_bytes(const std::vector<unsigned char> &b) { Scripted s; s.len = b.size(); s.bytes = b; script.push_back(s); }
void push_be(size_t len, mpz_srcptr v) {
	std::vector<unsigned char> b(len, 0);
	size_t cnt = (mpz_sizeinbase(v, 2) + 7) / 8;
	if (mpz_sgn(v) != 0 && cnt <= len) {
		std::vector<unsigned char> t(cnt, 0);
		size_t c2 = 0;
		mpz_export(t.data(), &c2, 1, 1, 1, 0, v);
		memcpy(b.data() + (len - c2), t.data(), c2);
	}
	push_bytes(b);
}
void push_be_ui(size_t len, unsigned long v) { mpz_t x; mpz_init_set_ui(x, v); push_be(len, x); mpz_clear(x); }
void push_native_ul(unsigned long v) {
	std::vector<unsigned char> b(sizeof(unsigned long));
	memcpy(b.data(), &v, sizeof(v));
	push_bytes(b);
}
size_t pending() { return script.size(); }
void clear_script() { script.clear(); mism = false; }
unsigned long ndraws() { return cnt_draws; }
unsigned long nbytes() { return cnt_bytes; }
void reset_counters() { cnt_draws = 0; cnt_bytes = 0; }
void strict(bool on) { strict_mode = on; }
bool mismatch() { return mism; }

static void fill(void *buf, size_t len, int level) {
	unsigned char *p = (unsigned char *)buf;
	cnt_draws++; cnt_bytes += len;
	if (!script.empty() && script.front().len == len) {
		memcpy(p, script.front().bytes.data(), len);
		script.pop_front();
	} else {
		if (!script.empty() && strict_mode) mism = true;
		for (size_t i = 0; i < len; i += 8) {
			uint64_t z = splitmix(st_lib);
			size_t k = (len - i < 8) ? (len - i) : 8;
			memcpy(p + i, &z, k);
		}
	}
	if (rec) {
		static const char *hx = "0123456789abcdef";
		Draw d; d.len = len; d.level = level;
		d.hex.reserve(2 * len);
		for (size_t i = 0; i < len; i++) { d.hex.push_back(hx[p[i] >> 4]); d.hex.push_back(hx[p[i] & 15]); }
		the_log.push_back(d);
	}
}
}

extern "C" {
void gcry_randomize(void *buffer, size_t length, enum gcry_random_level level) { seam::fill(buffer, length, (int)level); }
void gcry_create_nonce(void *buffer, size_t length) { seam::fill(buffer, length, -1); }
void *gcry_random_bytes(size_t nbytes, enum gcry_random_level level) { void *p = gcry_malloc(nbytes); seam::fill(p, nbytes, (int)level); return p; }
void *gcry_random_bytes_secure(size_t nbytes, enum gcry_random_level level) { void *p = gcry_malloc_secure(nbytes); if (!p) p = gcry_malloc(nbytes); seam::fill(p, nbytes, (int)level); return p; }
}
