// drv_ot with NaorPinkasEOTP.cc compiled as `./configure --disable-assert` (NDEBUG) compiles it; see drv_ot.cc
#define OT_NDEBUG 1
#include "drv_ot.cc"
