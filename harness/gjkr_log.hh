// gjkr_log.hh: message-level recording of GennaroJareckiKrawczykRabinDKG::Generate / Reconstruct for
// spec/GJKRTrace.tla, and scripted deviations of one party.
//
// Two seams, none of them in /repo:
//  * the private links: LogAio (a sim::Aio) logs every Send / Receive of the protocol ("S" / "P" events) and rewrites
//    or drops what a deviating party sends;
//  * the reliable broadcast as the protocol sees it: the four calls Generate() makes on CachinKursawePetzoldShoupRBC
//    (Broadcast, DeliverFrom, setID, unsetID) are not virtual, so the driver is linked with
//       -Wl,--wrap=<mangled name>
//    and the __wrap_ functions below log them ("B" / "R" events, with the channel the party is on) before / after
//    calling the real member function.  Only references from *other* object files are redirected: the broadcast
//    class itself (DeliverFrom -> Deliver ...) runs unchanged, the protocol messages still travel through the real
//    Bracha broadcast over the in-memory transport.  A deviating party is a real object whose Broadcast calls are
//    rewritten here (value changed, call dropped, extra calls inserted) - i.e. it deviates in WHAT it broadcasts, not
//    in how the broadcast works (that is property C14's business).
#ifndef VERIF_GJKR_LOG_HH
#define VERIF_GJKR_LOG_HH
#include "sim.hh"

#define GJ_SYM_BCAST   _ZN28CachinKursawePetzoldShoupRBC9BroadcastEPK12__mpz_structb
#define GJ_SYM_DELIV   _ZN28CachinKursawePetzoldShoupRBC11DeliverFromEP12__mpz_structmml
#define GJ_SYM_SETID   _ZN28CachinKursawePetzoldShoupRBC5setIDERKNSt7__cxx1112basic_stringIcSt11char_traitsIcESaIcEEEb
#define GJ_SYM_UNSETID _ZN28CachinKursawePetzoldShoupRBC7unsetIDEb
#define GJ_CAT2(a, b) a##b
#define GJ_CAT(a, b) GJ_CAT2(a, b)
#define GJ_STR2(a) #a
#define GJ_STR(a) GJ_STR2(a)

namespace gj {
// phases of a party's own sending, in the order Generate() goes through them
enum Ph { PH_C = 0, PH_S = 1, PH_K = 2, PH_N = 3, PH_A = 4, PH_X = 5, PH_R = 6, PH_END = 7 };
static const char *PHN[] = {"C", "S", "K", "N", "A", "X", "R", "END"};
static inline int ph_of(const std::string &s) { for (int k = 0; k < 8; k++) if (s == PHN[k]) return k; return 99; }

struct Ctx {
	size_t i = 0, n = 0, t = 0; int role = 0;
	json devs = json::array();
	GennaroJareckiKrawczykRabinDKG *dkg = NULL;
	std::ostream *out = NULL; std::mutex *mu = NULL;
	Mpz p, q, g;
	std::vector<std::string> chan;        // channel stack of this party ("G", "R:1,2", "x")
	// classifier of the party's own (unrewritten) broadcast stream
	int ph = PH_C; size_t cnt = 0; int field = 0; long curwho = -1; bool droptriple = false;
	int silent_from = 99;
	size_t coin_mark = 0; bool coins_logged = false;
	std::vector<int> sends_to;            // private sends so far per destination
	bool active = false;
};
static std::vector<Ctx> ctx;
static inline Ctx *of(size_t j) { return (j < ctx.size() && ctx[j].active) ? &ctx[j] : NULL; }
static inline void emit(Ctx &c, const json &e) { std::lock_guard<std::mutex> lk(*c.mu); (*c.out) << e.dump() << "\n"; }
static inline json val(mpz_srcptr v) {      // the numbers of these runs are small; anything else is marked
	if (mpz_sizeinbase(v, 2) <= 30) return json(mpz_get_si(v));
	return json(-1000000000L);
}
static inline std::string chan_of(const std::string &id) {
	size_t r = id.find("GennaroJareckiKrawczykRabinDKG::Reconstruct()");
	if (r != std::string::npos) {
		std::string s = "R"; size_t pos = id.find('[');
		while (pos != std::string::npos) { size_t e = id.find(']', pos); s += (s.size() == 1 ? ":" : ",") + id.substr(pos + 1, e - pos - 1); pos = id.find('[', e); }
		return s;
	}
	if (id.find("GennaroJareckiKrawczykRabinDKG::Generate()") != std::string::npos) return "G";
	return "x";
}
static inline std::string cur_chan(Ctx &c) { return c.chan.empty() ? std::string("x") : c.chan.back(); }
// the channel as the trace specification names it: [-1] Generate(), [d1, d2, ...] Reconstruct() of these parties
static inline json chan_j(Ctx &c) {
	std::string s = cur_chan(c); json a = json::array();
	if (s == "G") { a.push_back(-1); return a; }
	if (s == "x") { a.push_back(-2); return a; }
	size_t pos = s.find(':');
	if (pos == std::string::npos) return a;
	std::stringstream ss(s.substr(pos + 1)); std::string tok;
	while (std::getline(ss, tok, ',')) a.push_back(atol(tok.c_str()));
	return a;
}
static inline bool has_dev(Ctx &c, const char *op, const char *key = NULL, long v = 0, json *found = NULL) {
	for (auto &d : c.devs) if (d["op"] == op && (!key || d[key].get<long>() == v)) { if (found) *found = d; return true; }
	return false;
}
// the polynomials the party drew: 2(t+1) draws of tmcg_mpz_srandomm(., q) = (|q| + 71) / 8 octets each, strong level,
// a_0, b_0, a_1, b_1, ... - read from the coin log between the start of the party and its first broadcast
static inline void log_coins(Ctx &c) {
	if (c.coins_logged) return; c.coins_logged = true;
	size_t nbytes = (mpz_sizeinbase(c.q, 2) + 64 + 7) / 8;
	json a = json::array(), b = json::array(); size_t k = 0;
	std::vector<seam::Draw> &lg = seam::log();
	for (size_t x = c.coin_mark; x < lg.size() && k < 2 * (c.t + 1); x++) {
		if (lg[x].len != nbytes || lg[x].level < 0) continue;
		Mpz v(lg[x].hex, 16); mpz_mod(v, v, c.q);
		if (k % 2 == 0) a.push_back(v.l()); else b.push_back(v.l());
		k++;
	}
	json e; e["e"] = "Coins"; e["i"] = c.i; e["a"] = a; e["b"] = b; emit(c, e);
}
}

extern "C" {
void GJ_CAT(__real_, GJ_SYM_BCAST)(CachinKursawePetzoldShoupRBC *, mpz_srcptr, bool);
bool GJ_CAT(__real_, GJ_SYM_DELIV)(CachinKursawePetzoldShoupRBC *, mpz_ptr, size_t, size_t, time_t);
void GJ_CAT(__real_, GJ_SYM_SETID)(CachinKursawePetzoldShoupRBC *, const std::string &, bool);
void GJ_CAT(__real_, GJ_SYM_UNSETID)(CachinKursawePetzoldShoupRBC *, bool);
}

namespace gj {
static inline void put(Ctx &c, CachinKursawePetzoldShoupRBC *self, mpz_srcptr v, bool f) {
	json e; e["e"] = "B"; e["i"] = c.i; e["ch"] = chan_j(c); e["v"] = val(v); e["ph"] = PHN[c.ph]; emit(c, e);
	GJ_CAT(__real_, GJ_SYM_BCAST)(self, v, f);
}
static inline void put_ui(Ctx &c, CachinKursawePetzoldShoupRBC *self, long v, bool f) { Mpz x(v); put(c, self, x, f); }

// one Broadcast call of the party's code: classify it (the unrewritten stream is well formed), apply the script
static inline void on_bcast(Ctx &c, CachinKursawePetzoldShoupRBC *self, mpz_srcptr m, bool f) {
	log_coins(c);
	if (c.ph == PH_S) c.ph = PH_K;          // the first broadcast after the private shares
	if (cur_chan(c).substr(0, 1) == "R" && c.ph != PH_R) { c.ph = PH_R; c.cnt = 0; }
	bool scripted = (c.role == 7);
	bool silent = scripted && c.silent_from <= c.ph;
	Mpz v; mpz_set(v, m);
	unsigned long raw = mpz_get_ui(m);
	switch (c.ph) {
	case PH_C: {
		json d; if (scripted && has_dev(c, "badC", "k", (long)c.cnt, &d)) { mpz_mul(v, v, c.g); mpz_mod(v, v, c.p); }
		if (!silent) put(c, self, v, f);
		if (++c.cnt > c.t) { c.ph = PH_K; c.cnt = 0; }
		return; }
	case PH_K: {
		bool marker = raw >= c.n;
		if (marker && scripted && !silent) for (auto &d : c.devs) if (d["op"] == "fcompl") put_ui(c, self, d["who"].get<long>(), f);
		if (!silent && !(marker && scripted && has_dev(c, "nomarkK"))) put(c, self, v, f);
		if (marker) { c.ph = PH_N; c.field = 0; }
		return; }
	case PH_N: case PH_X: {
		bool ext = (c.ph == PH_X);
		if (c.field == 0) {
			bool marker = raw >= c.n;
			if (marker) {
				if (ext && scripted && !silent) for (auto &d : c.devs) if (d["op"] == "xcompl") {
					long who = d["who"].get<long>();
					Mpz s, sp; mpz_set(s, c.dkg->s_ij[who][c.i]); mpz_set(sp, c.dkg->sprime_ij[who][c.i]);
					if (d["mode"] == "bogus") mpz_add_ui(s, s, 1);
					put_ui(c, self, who, f); put(c, self, s, f); put(c, self, sp, f);
				}
				if (!ext && scripted && !silent) for (auto &d : c.devs) if (d["op"] == "extraans") {
					// a published pair nobody asked for (the right one unless ds is given)
					long who = d["who"].get<long>();
					Mpz s, sp; mpz_set(s, c.dkg->s_ij[c.i][who]); mpz_set(sp, c.dkg->sprime_ij[c.i][who]);
					mpz_add_ui(s, s, d.value("ds", 0L));
					put_ui(c, self, who, f); put(c, self, s, f); put(c, self, sp, f);
				}
				if (!silent) put(c, self, v, f);
				c.ph = ext ? PH_R : PH_A; c.cnt = 0;
				return;
			}
			c.curwho = (long)raw;
			c.droptriple = scripted && !ext && has_dev(c, "noans", "who", c.curwho);
			if (!silent && !c.droptriple) put(c, self, v, f);
			c.field = 1; return;
		}
		json d;
		if (c.field == 1 && scripted && !ext && has_dev(c, "badans", "who", c.curwho, &d)) mpz_add_ui(v, v, d.value("ds", 1L));
		if (!silent && !c.droptriple) put(c, self, v, f);
		c.field = (c.field + 1) % 3; return; }
	case PH_A: {
		json d; if (scripted && has_dev(c, "badA", "k", (long)c.cnt, &d)) {
			if (d.value("mode", std::string("mul")) == "add") mpz_add_ui(v, v, 1); else { mpz_mul(v, v, c.g); mpz_mod(v, v, c.p); }
		}
		if (!silent) put(c, self, v, f);
		if (++c.cnt > c.t) { c.ph = PH_X; c.field = 0; }
		return; }
	default: {      // PH_R: the pairs published for a reconstruction
		if (scripted && has_dev(c, "badrec") && (c.cnt % 2 == 0)) mpz_add_ui(v, v, 1);
		c.cnt++;
		if (!silent) put(c, self, v, f);
		return; }
	}
}
}

extern "C" {
void GJ_CAT(__wrap_, GJ_SYM_BCAST)(CachinKursawePetzoldShoupRBC *self, mpz_srcptr m, bool f) {
	gj::Ctx *c = gj::of(self->j);
	if (!c || gj::cur_chan(*c) == "x") { GJ_CAT(__real_, GJ_SYM_BCAST)(self, m, f); return; }
	gj::on_bcast(*c, self, m, f);
}
bool GJ_CAT(__wrap_, GJ_SYM_DELIV)(CachinKursawePetzoldShoupRBC *self, mpz_ptr m, size_t i_in, size_t sch, time_t to) {
	bool r = GJ_CAT(__real_, GJ_SYM_DELIV)(self, m, i_in, sch, to);
	gj::Ctx *c = gj::of(self->j);
	if (c && gj::cur_chan(*c) != "x") {
		json e; e["e"] = "R"; e["i"] = c->i; e["from"] = i_in; e["ch"] = gj::chan_j(*c); e["ok"] = r; e["v"] = r ? gj::val(m) : json(0);
		gj::emit(*c, e);
	}
	return r;
}
void GJ_CAT(__wrap_, GJ_SYM_SETID)(CachinKursawePetzoldShoupRBC *self, const std::string &id, bool fifo) {
	gj::Ctx *c = gj::of(self->j);
	if (c) c->chan.push_back(gj::chan_of(id));
	GJ_CAT(__real_, GJ_SYM_SETID)(self, id, fifo);
}
void GJ_CAT(__wrap_, GJ_SYM_UNSETID)(CachinKursawePetzoldShoupRBC *self, bool fifo) {
	gj::Ctx *c = gj::of(self->j);
	if (c && !c->chan.empty()) c->chan.pop_back();
	GJ_CAT(__real_, GJ_SYM_UNSETID)(self, fifo);
}
}

namespace gj {
// the private links of the protocol (one object per party; the reliable broadcast has its own, unlogged one)
class LogAio : public sim::Aio {
	public:
		LogAio(sim::Net *net_in, sim::Sched *sc_in, size_t j_in, time_t deftimeout): sim::Aio(net_in, sc_in, j_in, deftimeout) {}
		virtual bool Send(mpz_srcptr m, const size_t i_in, const time_t timeout = aio_timeout_default) {
			Ctx *c = of(j);
			if (!c || i_in >= n) return sim::Aio::Send(m, i_in, timeout);
			log_coins(*c);
			if (c->ph == PH_K && c->cnt == 0) c->ph = PH_S;
			int idx = c->sends_to[i_in]++;          // 0: s, 1: s'
			Mpz w; mpz_set(w, m); bool drop = false;
			if (c->role == 7) {
				if (c->silent_from <= PH_S) drop = true;
				for (auto &d : c->devs) if (d["op"] == "share" && d["to"].get<size_t>() == i_in) {
					long add = (idx == 0) ? d.value("ds", 0L) : d.value("dsp", 0L);
					if (add) { mpz_add_ui(w, w, (unsigned long)add); if (d.value("mod", true)) mpz_mod(w, w, c->q); }
				}
			}
			json e; e["e"] = "S"; e["i"] = j; e["to"] = i_in; e["v"] = val(m); e["w"] = val(w); e["drop"] = drop; emit(*c, e);
			if (drop) return true;
			return sim::Aio::Send(w, i_in, timeout);
		}
		virtual bool Receive(mpz_ptr m, size_t &i_out, const size_t scheduler = aio_scheduler_default, const time_t timeout = aio_timeout_default) {
			size_t asked = i_out;
			bool r = sim::Aio::Receive(m, i_out, scheduler, timeout);
			Ctx *c = of(j);
			if (c) { json e; e["e"] = "P"; e["i"] = j; e["from"] = (scheduler == aio_scheduler_direct) ? asked : i_out; e["ok"] = r; e["v"] = r ? val(m) : json(0); emit(*c, e); }
			return r;
		}
};
}
#endif
