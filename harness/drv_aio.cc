// drv_aio: n real aiounicast_select / aiounicast_nonblock objects, every directed link led through a
// harness-owned byte relay (two socketpairs per link: sender -> relay, relay -> receiver).  The relay
// forwards chosen numbers of octets and rewrites what it still holds (flip / insert / delete single octets,
// delete / replay / swap / forge whole frames).  Every public call and every relay action is logged as one
// ndjson event for spec/AioTrace.tla.
//   drv_aio run <schedules.ndjson> <trace-out.ndjson>      schedules = behaviours computed by TLC (AioGen)
//   drv_aio random <seed> <executions> <trace-out.ndjson> [first-index]   randomized exploration
// select(), time(), sleep() are interposed (virtual clock, zero-wait polls): a Receive with timeout 0 is one
// pass over the links and costs nothing when nothing has arrived.  gcry_kdf_derive is interposed to one
// PBKDF2 iteration (the link keys are just keys; 25000 iterations per link and object are only slow).
#include "common.hh"
#include <deque>
#include <list>
#include <algorithm>
#include <sys/types.h>
#include <sys/socket.h>
#include <sys/select.h>
#include <fcntl.h>
#include <dlfcn.h>
#include <errno.h>
#include <time.h>
#include <gcrypt.h>
#define private public       // projection of buf_ptr / buf_flag / mac_sqn_in / buf_mpz without a hook
#define protected public
#include "libTMCG.hh"
#include "aiounicast_select.hh"
#include "aiounicast_nonblock.hh"
#undef private
#undef protected

// ---------------------------------------------------------------------------------------------------
// seams
static time_t vclock = 1700000000;
static unsigned long n_select = 0;
extern "C" time_t time(time_t *t) noexcept { if (t) *t = vclock; return vclock; }
typedef int (*select_fn)(int, fd_set *, fd_set *, fd_set *, struct timeval *);
extern "C" int select(int nfds, fd_set *r, fd_set *w, fd_set *e, struct timeval *tv) {
	static select_fn real = (select_fn)dlsym(RTLD_NEXT, "select");
	struct timeval z; z.tv_sec = 0; z.tv_usec = 0;
	if ((++n_select & 0xFFFF) == 0) vclock++;      // a send loop that can never finish still times out
	return real(nfds, r, w, e, &z);
}
static int g_in_send = 0, g_eagain_next = 0, g_synthetic = 0, g_short_left = 0; static size_t g_short = 0; static unsigned long n_short = 0;
// (the back-pressure of the short-write seam resolves before the virtual clock moves: send time-outs, which leave a partial
// message on the stream, are outside the model; a genuine EAGAIN of the socket still lets the clock run)
extern "C" unsigned int sleep(unsigned int s) { if (!g_synthetic) vclock += s ? s : 1; g_synthetic = 0; return 0; }
// back-pressure on the sending side: while a Send call runs, a write() takes at most g_short octets and the next
// write() finds the socket full once (EAGAIN), at most 8 times per Send call; what reaches the wire must be the same
// octets all the same
typedef ssize_t (*write_fn)(int, const void *, size_t);
extern "C" ssize_t write(int fd, const void *buf, size_t n) {
	static write_fn real = (write_fn)dlsym(RTLD_NEXT, "write");
	if (g_in_send && g_short && fd > 2) {
		if (g_eagain_next) { g_eagain_next = 0; g_synthetic = 1; errno = EAGAIN; return -1; }
		if (n > g_short && g_short_left > 0) { n = g_short; g_eagain_next = 1; g_short_left--; n_short++; }
	}
	ssize_t r = real(fd, buf, n);
	if (r < 0) g_synthetic = 0;          // a genuine refusal: the clock runs
	return r;
}
typedef gcry_error_t (*kdf_fn)(const void *, size_t, int, int, const void *, size_t, unsigned long, size_t, void *);
extern "C" gcry_error_t gcry_kdf_derive(const void *pass, size_t passlen, int algo, int subalgo, const void *salt,
	size_t saltlen, unsigned long iterations, size_t keysize, void *keybuffer) {
	static kdf_fn real = (kdf_fn)dlsym(RTLD_NEXT, "gcry_kdf_derive");
	return real(pass, passlen, algo, subalgo, salt, saltlen, 1UL, keysize, keybuffer);
}

static unsigned long rnd(unsigned long m) { return m ? (unsigned long)(seam::next64() % m) : 0; }

// ---------------------------------------------------------------------------------------------------
struct PartyIf {
	virtual ~PartyIf() {}
	virtual aiounicast *aio() = 0;
	virtual size_t ptr(size_t i) = 0;
	virtual bool flag(size_t i) = 0;
	virtual long sqn(size_t i) = 0;
	virtual size_t qlen(size_t i) = 0;
	virtual size_t bufsz() = 0;
	virtual size_t maclen() = 0;
	virtual size_t blklen() = 0;
};
template <class T> struct PartyT : PartyIf {
	T *o;
	PartyT(size_t n, size_t j, const std::vector<int> &fi, const std::vector<int> &fo, const std::vector<std::string> &keys,
		bool auth, bool enc, bool chunked) {
		o = new T(n, j, fi, fo, keys, aiounicast::aio_scheduler_roundrobin, aiounicast::aio_timeout_very_short, auth, enc, chunked);
	}
	~PartyT() { delete o; }
	aiounicast *aio() { return o; }
	size_t ptr(size_t i) { return o->buf_ptr[i]; }
	bool flag(size_t i) { return o->buf_flag[i]; }
	long sqn(size_t i) { return o->aio_is_authenticated ? mpz_get_si(o->mac_sqn_in[i]) : 0; }
	size_t qlen(size_t i) { return o->buf_mpz[i].size(); }
	size_t bufsz() { return o->buf_in_size; }
	size_t maclen() { return o->maclen; }
	size_t blklen() { return o->blklen; }
};

struct Link {
	int s_w, s_r, r_w, r_r;                     // sender writes s_w, relay reads s_r; relay writes r_w, receiver reads r_r
	std::deque<unsigned char> wire;             // octets held by the relay
	std::vector<size_t> ivlen;                  // per frame sent on this link
	std::vector<std::vector<unsigned char> > body;   // line NL tag of every frame
	bool dirty;                                 // an octet-level rewrite happened: frame bookkeeping no longer valid
	bool lookalike;                             // some tag / IV octet equals NL
	bool touched;                               // the sender or the relay put something on this link
	Link(): s_w(-1), s_r(-1), r_w(-1), r_r(-1), dirty(false), lookalike(false), touched(false) {}
};

static void nonblock(int fd) { int fl = fcntl(fd, F_GETFL); fcntl(fd, F_SETFL, fl | O_NONBLOCK); }

struct Exec {
	size_t n; std::string variant; bool auth, enc, chunked;
	std::vector<std::vector<Link> > L;          // L[a][b]
	std::vector<PartyIf *> P;
	std::ofstream *out;
	long nevents;
	std::map<std::string, json> dl, da;         // "b<-a" -> values returned by Receive / arrays returned
	bool chk() const { return chunked && variant == "select"; }

	Exec(size_t n_in, const std::string &variant_in, bool auth_in, bool enc_in, bool chunked_in, std::ofstream *o, const json &extra):
		n(n_in), variant(variant_in), auth(auth_in), enc(enc_in), chunked(chunked_in), L(n_in, std::vector<Link>(n_in)), out(o), nevents(0) {
		for (size_t a = 0; a < n; a++) for (size_t b = 0; b < n; b++) {
			int s[2], r[2];
			if (socketpair(AF_UNIX, SOCK_STREAM, 0, s) < 0 || socketpair(AF_UNIX, SOCK_STREAM, 0, r) < 0) { perror("socketpair"); exit(2); }
			L[a][b].s_w = s[0]; L[a][b].s_r = s[1]; L[a][b].r_w = r[0]; L[a][b].r_r = r[1];
			nonblock(s[0]); nonblock(s[1]); nonblock(r[0]); nonblock(r[1]);
		}
		for (size_t i = 0; i < n; i++) {
			std::vector<int> fi, fo; std::vector<std::string> keys;
			for (size_t k = 0; k < n; k++) {
				fi.push_back(L[k][i].r_r); fo.push_back(L[i][k].s_w);
				std::stringstream ks; ks << "link-key-" << std::min(i, k) << "-" << std::max(i, k);
				keys.push_back(ks.str());
			}
			if (variant == "select") P.push_back(new PartyT<aiounicast_select>(n, i, fi, fo, keys, auth, enc, chunked));
			else P.push_back(new PartyT<aiounicast_nonblock>(n, i, fi, fo, keys, auth, enc, chunked));
		}
		json ev; ev["e"] = "Reset"; ev["n"] = n; ev["variant"] = variant; ev["auth"] = auth; ev["enc"] = enc; ev["chunked"] = chunked;
		ev["maclen"] = P[0]->maclen(); ev["blk"] = P[0]->blklen(); ev["bufsz"] = P[0]->bufsz(); ev["uni"] = false;
		for (json::const_iterator it = extra.begin(); it != extra.end(); ++it) ev[it.key()] = it.value();
		emit(ev);
	}
	~Exec() {
		for (size_t i = 0; i < n; i++) delete P[i];
		for (size_t a = 0; a < n; a++) for (size_t b = 0; b < n; b++) { close(L[a][b].s_w); close(L[a][b].s_r); close(L[a][b].r_w); close(L[a][b].r_r); }
	}
	void emit(json &ev) { (*out) << ev.dump() << "\n"; out->flush(); nevents++; }   // flushed: a crash of the library must not lose the log
	size_t maclen() { return P[0]->maclen(); }
	size_t blklen() { return P[0]->blklen(); }

	json state_of(size_t b) {
		json st = json::array();
		for (size_t a = 0; a < n; a++) { json x = json::array(); x.push_back(P[b]->ptr(a)); x.push_back(P[b]->flag(a)); x.push_back(P[b]->sqn(a)); st.push_back(x); }
		return st;
	}

	// ---- Send / Send(vector)
	bool send(size_t a, size_t b, const std::vector<std::string> &vs, bool arr) {
		std::vector<Mpz> vals; for (size_t k = 0; k < vs.size(); k++) vals.push_back(Mpz(vs[k]));
		json ev; ev["e"] = "Send"; ev["a"] = a; ev["b"] = b; ev["arr"] = arr;
		json jv = json::array(), jsv = json::array(), jnd = json::array();
		for (size_t k = 0; k < vals.size(); k++) {
			jv.push_back(vals[k].s());
			jsv.push_back((mpz_sgn(vals[k].v) >= 0 && mpz_sizeinbase(vals[k].v, 2) <= 31 && mpz_cmp_ui(vals[k].v, 2147483647UL) <= 0) ? vals[k].l() : -1L);
			Mpz t(vals[k]); if (enc) { Mpz h(1); mpz_mul_2exp(h, h, TMCG_AIO_HIDE_SIZE); mpz_add(t, t, h); }
			jnd.push_back(t.s(62).size());
		}
		ev["vs"] = jv; ev["sv"] = jsv; ev["nd"] = jnd;
		bool ok;
		g_in_send = 1; g_eagain_next = 0; g_short_left = 8;
		if (arr) { std::vector<mpz_srcptr> mv; for (size_t k = 0; k < vals.size(); k++) mv.push_back(vals[k].v); ok = P[a]->aio()->Send(mv, b); }
		else ok = P[a]->aio()->Send(vals[0].v, b);
		g_in_send = 0;
		ev["ok"] = ok;
		// what did the sender write?
		std::vector<unsigned char> got; unsigned char tmp[65536];
		for (;;) { ssize_t r = read(L[a][b].s_r, tmp, sizeof(tmp)); if (r <= 0) break; got.insert(got.end(), tmp, tmp + r); }
		json jb = json::array(); for (size_t k = 0; k < got.size(); k++) jb.push_back((int)got[k]);
		ev["bytes"] = jb;
		Link &lk = L[a][b];
		lk.wire.insert(lk.wire.end(), got.begin(), got.end());
		if (!got.empty()) lk.touched = true;
		// frame bookkeeping for frame-level rewrites (positional, like the definition of the frame)
		size_t pos = 0, expect = vals.size() + ((arr && chk()) ? 1 : 0);
		for (size_t f = 0; f < expect && ok; f++) {
			size_t iv = (enc && lk.body.empty()) ? blklen() : 0;
			if (pos + iv > got.size()) break;
			for (size_t k = pos; k < pos + iv; k++) if (got[k] == '\n') lk.lookalike = true;
			size_t p = pos + iv; while (p < got.size() && got[p] != '\n') p++;
			if (p >= got.size() || p + 1 + maclen() > got.size()) break;
			for (size_t k = p + 1; k < p + 1 + maclen(); k++) if (got[k] == '\n') lk.lookalike = true;
			lk.ivlen.push_back(iv);
			lk.body.push_back(std::vector<unsigned char>(got.begin() + pos + iv, got.begin() + p + 1 + maclen()));
			pos = p + 1 + maclen();
		}
		emit(ev);
		return ok;
	}

	// ---- relay
	size_t move(size_t a, size_t b, size_t k) {
		Link &lk = L[a][b];
		if (k > lk.wire.size()) k = lk.wire.size();
		size_t done = 0;
		while (done < k) {
			unsigned char tmp[4096]; size_t c = std::min(k - done, sizeof(tmp));
			for (size_t i = 0; i < c; i++) tmp[i] = lk.wire[i];
			ssize_t wr = write(lk.r_w, tmp, c);
			if (wr <= 0) break;
			lk.wire.erase(lk.wire.begin(), lk.wire.begin() + wr); done += wr;
		}
		json ev; ev["e"] = "Move"; ev["a"] = a; ev["b"] = b; ev["k"] = done;
		emit(ev);
		return done;
	}
	void splice(size_t a, size_t b, size_t pos, size_t del, const std::vector<unsigned char> &ins, const std::string &kind) {
		Link &lk = L[a][b];
		if (pos > lk.wire.size()) pos = lk.wire.size();
		if (pos + del > lk.wire.size()) del = lk.wire.size() - pos;
		lk.wire.erase(lk.wire.begin() + pos, lk.wire.begin() + pos + del);
		lk.wire.insert(lk.wire.begin() + pos, ins.begin(), ins.end());
		lk.touched = true;
		json ev; ev["e"] = "Fault"; ev["a"] = a; ev["b"] = b; ev["pos"] = pos; ev["del"] = del; ev["kind"] = kind;
		json ji = json::array(); for (size_t k = 0; k < ins.size(); k++) ji.push_back((int)ins[k]);
		ev["ins"] = ji;
		emit(ev);
	}
	// octet-level rewrite; returns false when it does not apply (nothing held)
	bool fault_byte(size_t a, size_t b, const std::string &kind, size_t pos, bool want_nl) {
		Link &lk = L[a][b];
		std::vector<unsigned char> ins;
		if (kind == "flip") {
			if (lk.wire.empty()) return false;
			if (pos >= lk.wire.size()) pos = lk.wire.size() - 1;
			unsigned char o = lk.wire[pos], c = want_nl ? '\n' : (unsigned char)(o ^ 0x01);
			if (c == o) c = o ^ 0x01;
			if (!want_nl && c == '\n') c = o ^ 0x02;
			ins.push_back(c); lk.dirty = true; splice(a, b, pos, 1, ins, kind);
		} else if (kind == "ins") {
			if (pos > lk.wire.size()) pos = lk.wire.size();
			ins.push_back(want_nl ? '\n' : 'X'); lk.dirty = true; splice(a, b, pos, 0, ins, kind);
		} else if (kind == "del") {
			if (lk.wire.empty()) return false;
			if (pos >= lk.wire.size()) pos = lk.wire.size() - 1;
			lk.dirty = true; splice(a, b, pos, 1, ins, kind);
		} else return false;
		return true;
	}
	// index (0-based) of the first frame the relay still holds completely, frames.size() if the held octets
	// are not a whole number of frames
	size_t whole_from(const Link &lk) {
		if (lk.dirty) return lk.body.size();
		size_t acc = 0;
		for (size_t i = lk.body.size(); i-- > 0; ) {
			acc += lk.ivlen[i] + lk.body[i].size();
			if (acc == lk.wire.size()) return i;
			if (acc > lk.wire.size()) break;
		}
		return lk.body.size();
	}
	size_t frame_start(const Link &lk, size_t first, size_t i) {
		size_t acc = 0; for (size_t k = first; k < i && k < lk.body.size(); k++) acc += lk.ivlen[k] + lk.body[k].size();
		return acc;
	}
	// frame-level rewrite; i, j are 1-based frame numbers of the link (as in MC_Aio.tla)
	bool fault_msg(size_t a, size_t b, const std::string &kind, size_t i, size_t j, size_t forgelen = 1) {
		Link &lk = L[a][b];
		size_t nfr = lk.body.size(), first = whole_from(lk);
		if (first >= nfr || lk.wire.empty()) return false;
		first += 1;                                       // 1-based
		std::vector<unsigned char> ins;
		if (kind == "delmsg") {
			if (i < first || i > nfr) return false;
			splice(a, b, frame_start(lk, first - 1, i - 1) + lk.ivlen[i - 1], lk.body[i - 1].size(), ins, kind);
		} else if (kind == "replay") {
			if (i < first || i > nfr + 1 || j < 1 || j > nfr) return false;
			ins = lk.body[j - 1];
			splice(a, b, frame_start(lk, first - 1, i - 1) + (i <= nfr ? lk.ivlen[i - 1] : 0), 0, ins, kind);
		} else if (kind == "swap") {
			if (i < first || i + 1 > nfr) return false;
			ins = lk.body[i]; ins.insert(ins.end(), lk.body[i - 1].begin(), lk.body[i - 1].end());
			splice(a, b, frame_start(lk, first - 1, i - 1) + lk.ivlen[i - 1], lk.body[i - 1].size() + lk.body[i].size(), ins, kind);
		} else if (kind == "forge") {
			if (i < first || i > nfr + 1) return false;
			for (size_t k = 0; k < forgelen && k < 4; k++) ins.push_back("7Xq0"[k]);
			ins.push_back('\n');
			for (size_t k = 0; k < maclen(); k++) ins.push_back((unsigned char)(0x80 + k));
			splice(a, b, frame_start(lk, first - 1, i - 1) + (i <= nfr ? lk.ivlen[i - 1] : 0), 0, ins, kind);
		} else return false;
		lk.dirty = true;
		return true;
	}

	// ---- Receive
	static std::string key(size_t b, size_t a) { std::stringstream s; s << b << "<-" << a; return s.str(); }
	bool recv(size_t b, size_t sched, size_t who, const std::vector<size_t> &picks, size_t *from = NULL) {
		seam::clear_script();
		if (sched == aiounicast::aio_scheduler_random) for (size_t k = 0; k < picks.size(); k++) seam::push_native_ul(picks[k]);
		size_t io = (sched == aiounicast::aio_scheduler_direct) ? who : n;
		Mpz m;
		bool ok = P[b]->aio()->Receive(m.v, io, sched, 0);
		seam::clear_script();
		json ev; ev["e"] = "Recv"; ev["b"] = b; ev["sched"] = sched; ev["who"] = who; ev["picks"] = picks;
		ev["ok"] = ok; ev["from"] = io; ev["v"] = ok ? m.s() : std::string("");
		ev["st"] = state_of(b);
		emit(ev);
		if (ok) { json &d = dl[key(b, io)]; if (d.is_null()) d = json::array(); d.push_back(m.s()); }
		if (from) *from = io;
		return ok;
	}
	bool recvarr(size_t b, size_t size, size_t sched, size_t who, const std::vector<size_t> &picks, size_t *from = NULL) {
		seam::clear_script();
		if (sched == aiounicast::aio_scheduler_random) for (size_t k = 0; k < picks.size(); k++) seam::push_native_ul(picks[k]);
		size_t io = (sched == aiounicast::aio_scheduler_direct) ? who : n;
		std::vector<Mpz> store(size); std::vector<mpz_ptr> mv; for (size_t k = 0; k < size; k++) mv.push_back(store[k].v);
		bool ok = P[b]->aio()->Receive(mv, io, sched, 0);
		seam::clear_script();
		json ev; ev["e"] = "RecvArr"; ev["b"] = b; ev["size"] = size; ev["sched"] = sched; ev["who"] = who; ev["picks"] = picks;
		ev["ok"] = ok; ev["from"] = io;
		json jv = json::array(); if (ok) for (size_t k = 0; k < size; k++) jv.push_back(store[k].s());
		ev["vs"] = jv; ev["st"] = state_of(b);
		json ql = json::array(); for (size_t a = 0; a < n; a++) ql.push_back(P[b]->qlen(a));
		ev["ql"] = ql;
		emit(ev);
		if (ok) { json &d = da[key(b, io)]; if (d.is_null()) d = json::array(); d.push_back(jv); }
		if (from) *from = io;
		return ok;
	}
	// hand over everything, then let every receiver look at every link until nothing changes any more
	void drain(size_t arrsize) {
		for (size_t a = 0; a < n; a++) for (size_t b = 0; b < n; b++) if (!L[a][b].wire.empty()) move(a, b, L[a][b].wire.size());
		std::vector<size_t> none;
		for (size_t b = 0; b < n; b++) for (size_t a = 0; a < n; a++) {
			if (!L[a][b].touched) continue;          // nothing was ever written to or by the relay on this link
			int idle = 0;
			for (int it = 0; it < 100000 && idle < 2; it++) {
				json before = state_of(b); size_t qb = P[b]->qlen(a);
				bool ok = arrsize ? recvarr(b, arrsize, aiounicast::aio_scheduler_direct, a, none) : recv(b, aiounicast::aio_scheduler_direct, a, none);
				if (!ok && before == state_of(b) && qb == P[b]->qlen(a)) idle++; else idle = 0;
			}
		}
		json ev; ev["e"] = "Quiesce";
		json jdl = json::object(), jda = json::object(), jst = json::object();
		for (std::map<std::string, json>::iterator it = dl.begin(); it != dl.end(); ++it) jdl[it->first] = it->second;
		for (std::map<std::string, json>::iterator it = da.begin(); it != da.end(); ++it) jda[it->first] = it->second;
		ev["dl"] = jdl; ev["da"] = jda;
		bool la = false; for (size_t a = 0; a < n; a++) for (size_t b = 0; b < n; b++) if (L[a][b].lookalike) la = true;
		ev["lookalike"] = la;
		emit(ev);
	}
};

// ---------------------------------------------------------------------------------------------------
// behaviours computed by TLC
static std::string val2s(const json &v) { return v.is_string() ? v.get<std::string>() : std::to_string(v.get<long>()); }
static int run_schedules(const char *in, const char *outp) {
	std::vector<json> sch = read_ndjson(in);
	std::ofstream out(outp);
	long total = 0;
	for (size_t k = 0; k < sch.size(); k++) {
		const json &s = sch[k]; const json &c = s["cfg"];
		seam::seed_harness(1000 + k); seam::seed(77 + k);
		json extra; extra["src"] = "tlc"; extra["k"] = k; if (s.contains("id")) extra["id"] = s["id"];
		extra["uni"] = s.value("uni", false);
		Exec x(c["n"], c["variant"], c["auth"], c["enc"], c["chunked"], &out, extra);
		size_t arrsize = s.value("arrsize", 0);
		for (size_t e = 0; e < s["events"].size(); e++) {
			const json &ev = s["events"][e];
			std::string kind = ev["e"];
			if (kind == "Send") {
				std::vector<std::string> vs; for (size_t i = 0; i < ev["vs"].size(); i++) vs.push_back(val2s(ev["vs"][i]));
				x.send(ev["a"], ev["b"], vs, ev.value("arr", false));
			} else if (kind == "Move") x.move(ev["a"], ev["b"], ev["k"]);
			else if (kind == "Fault") {
				std::string fk = ev["kind"];
				if (fk == "flip" || fk == "ins" || fk == "del") x.fault_byte(ev["a"], ev["b"], fk, ev["pos"], ev.value("nl", false));
				else x.fault_msg(ev["a"], ev["b"], fk, ev.value("i", 0), ev.value("j", 0));
			} else if (kind == "Recv") x.recv(ev["b"], ev["sched"], ev.value("who", 0), ev.value("picks", std::vector<size_t>()));
			else if (kind == "RecvArr") x.recvarr(ev["b"], ev["size"], ev["sched"], ev.value("who", 0), ev.value("picks", std::vector<size_t>()));
		}
		x.drain(arrsize);
		total += x.nevents;
	}
	out.close();
	printf("{\"executions\":%zu,\"events\":%ld,\"selects\":%lu}\n", sch.size(), total, n_select);
	return 0;
}

// ---------------------------------------------------------------------------------------------------
// randomized exploration: long exchanges on several links, random chunking with delays, the three schedulers,
// arrays, big values, one rewrite of the wire on authenticated links
static std::string random_value(int cls) {
	Mpz v;
	switch (cls) {
		case 0: mpz_set_ui(v, rnd(3) == 0 ? 0 : rnd(62)); break;                       // 0 and single digits
		case 1: mpz_set_ui(v, 14776336UL + rnd(2000000000UL)); break;                 // 5..6 digits, below 2^31
		case 2: { size_t bits = 64 + rnd(2000); tmcg_mpz_wrandomb(v, bits); break; }   // protocol-sized
		case 3: mpz_ui_pow_ui(v, 62, 2046); mpz_sub_ui(v, v, 1 + rnd(1000)); break;     // largest accepted text (2046 digits)
		case 4: mpz_ui_pow_ui(v, 62, 2047); mpz_add_ui(v, v, rnd(1000)); break;         // one digit too many: refused
		default: mpz_set_ui(v, 4242424242UL); break;                                   // the array delimiter as payload
	}
	return v.s();
}

static int run_random(unsigned long seed, long execs, const char *outp, long first) {
	std::ofstream out(outp);
	long total = 0;
	for (long xi = first; xi < first + execs; xi++) {
		seam::seed_harness(seed * 1000003UL + xi);
		seam::seed(seed * 7919UL + xi);
		size_t n = 2 + rnd(2);
		std::string variant = (xi % 2) ? "nonblock" : "select";
		bool auth = (xi / 2) % 2, enc = (xi / 4) % 2, chunked = (xi / 8) % 2;
		int shape = (int)rnd(10);      // 0-5 single messages, 6-7 uniform arrays, 8 mixed arrays/singles, 9 big values
		if (chunked && variant == "select" && shape >= 3 && shape <= 5) shape = 8;   // the delimiter logic exists only here: more mixed traffic
		size_t arrsize = (shape >= 6 && shape <= 8) ? 1 + rnd(3) : 0;
		bool uni = (shape == 6 || shape == 7);
		// trickle executions: the transport never hands over more than a few octets at a time and the receiver looks after
		// every hand-over, so that no read() ever returns a whole IV, tag or line
		static const size_t trsizes[] = {1, 2, 3, 7, 15};
		size_t trickle = (rnd(4) == 0) ? trsizes[rnd(5)] : 0;
		bool faulty = auth && !trickle && rnd(100) < 45 && shape != 8;   // (a link stopped by a rewrite is no longer read: octet-sized writes would fill its socket)
		// short writes: in one of five executions the sender's socket takes only a few octets at a time
		static const size_t shsizes[] = {1, 5, 15, 16, 33, 100, 300};
		g_short = (rnd(5) == 0) ? shsizes[rnd(7)] : 0;
		json extra; extra["shortw"] = g_short; extra["trickle"] = trickle; extra["src"] = "random"; extra["seed"] = seed; extra["k"] = xi; extra["uni"] = uni; extra["shape"] = shape;
		Exec x(n, variant, auth, enc, chunked, &out, extra);
		// plan: number of Send calls per link
		std::vector<std::vector<int> > left(n, std::vector<int>(n, 0));
		int totalleft = 0;
		size_t nlinks = 1 + rnd(n * n > 4 ? 4 : n * n);
		for (size_t k = 0; k < nlinks; k++) { size_t a = rnd(n), b = rnd(n); int c = 1 + rnd(shape == 9 ? 2 : 5); left[a][b] += c; totalleft += c; }
		int faultsleft = faulty ? 1 : 0;
		size_t recvsched = rnd(4);     // 0: mixed, else fixed scheduler
		long steps = 0;
		while (steps < 400 && (totalleft > 0 || steps < 40)) {
			steps++;
			unsigned long c = rnd(100);
			if (c < 22 && totalleft > 0) {
				size_t a = rnd(n), b = rnd(n);
				for (int t = 0; t < 20 && left[a][b] == 0; t++) { a = rnd(n); b = rnd(n); }
				if (left[a][b] == 0) continue;
				left[a][b]--; totalleft--;
				std::vector<std::string> vs;
				bool arr = arrsize && !(shape == 8 && rnd(3) == 0);
				size_t cnt = arr ? (uni ? arrsize : 1 + rnd(4)) : 1;
				for (size_t k = 0; k < cnt; k++) {
					int cls = (shape == 9) ? 2 + (int)rnd(3) : (rnd(12) == 0 ? 5 : (int)rnd(3));
					if (arr && cls >= 3) cls = 1;
					if (uni && chunked && cls == 5) cls = 1;      // the delimiter as array payload breaks uniformity by design
					vs.push_back(random_value(cls));
				}
				x.send(a, b, vs, arr);
			} else if (c < 55) {
				size_t a = rnd(n), b = rnd(n);
				for (int t = 0; t < 8 && x.L[a][b].wire.empty(); t++) { a = rnd(n); b = rnd(n); }
				size_t have = x.L[a][b].wire.size();
				if (!have) continue;
				size_t k;
				switch (rnd(6)) { case 0: k = 1; break; case 1: k = 1 + rnd(3); break; case 2: k = 1 + rnd(40); break;
					case 3: k = 1 + rnd(have); break; case 4: k = have; break; default: k = 1 + rnd(120); break; }
				if (trickle) k = 1 + rnd(trickle);
				x.move(a, b, k);
				if (trickle) { std::vector<size_t> none; if (arrsize) x.recvarr(b, arrsize, aiounicast::aio_scheduler_direct, a, none); else x.recv(b, aiounicast::aio_scheduler_direct, a, none); }
			} else if (c < 60 && faultsleft > 0) {
				size_t a = rnd(n), b = rnd(n);
				for (int t = 0; t < 20 && x.L[a][b].wire.empty(); t++) { a = rnd(n); b = rnd(n); }
				if (x.L[a][b].wire.empty()) continue;
				bool done;
				unsigned long fk = rnd(7);
				static const char *names[] = {"flip", "ins", "del", "delmsg", "replay", "swap", "forge"};
				if (fk < 3) done = x.fault_byte(a, b, names[fk], rnd(x.L[a][b].wire.size() + (fk == 1 ? 1 : 0)), rnd(3) == 0);
				else { size_t nfr = x.L[a][b].body.size(); done = x.fault_msg(a, b, names[fk], 1 + rnd(nfr + 1), 1 + rnd(nfr ? nfr : 1), 1 + rnd(4)); }
				if (done) faultsleft--;
			} else {
				size_t b = rnd(n);
				size_t sched = recvsched ? recvsched : 1 + rnd(3);
				size_t who = rnd(n);
				std::vector<size_t> picks; if (sched == aiounicast::aio_scheduler_random) for (size_t k = 0; k < n + 1; k++) picks.push_back(rnd(n));
				if (arrsize) x.recvarr(b, arrsize, sched, who, picks); else x.recv(b, sched, who, picks);
			}
		}
		if (trickle) {
			std::vector<size_t> none;
			for (size_t a = 0; a < n; a++) for (size_t b = 0; b < n; b++) for (int it = 0; it < 20000 && !x.L[a][b].wire.empty(); it++) {
				if (x.move(a, b, 1 + rnd(trickle)) == 0) break;
				if (arrsize) x.recvarr(b, arrsize, aiounicast::aio_scheduler_direct, a, none); else x.recv(b, aiounicast::aio_scheduler_direct, a, none);
			}
		}
		x.drain(arrsize);
		total += x.nevents;
	}
	out.close();
	g_short = 0;
	printf("{\"executions\":%ld,\"events\":%ld,\"selects\":%lu,\"short_writes\":%lu}\n", execs, total, n_select, n_short);
	return 0;
}

int main(int argc, char **argv) {
	install_terminate("drv_aio");
	quiet_cerr();
	if (!init_libTMCG()) { fprintf(stderr, "init_libTMCG failed\n"); return 2; }
	seam::seed(1);
	if (argc >= 4 && !strcmp(argv[1], "run")) return run_schedules(argv[2], argv[3]);
	if (argc >= 5 && !strcmp(argv[1], "random"))
		return run_random(strtoul(argv[2], NULL, 10), atol(argv[3]), argv[4], argc > 5 ? atol(argv[5]) : 0);
	fprintf(stderr, "usage: drv_aio run <schedules> <trace> | random <seed> <execs> <trace> [first]\n");
	return 2;
}
