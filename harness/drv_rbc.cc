// drv_rbc: drives n real CachinKursawePetzoldShoupRBC objects over the in-memory transport and records,
// per public call, what the object received, sent and delivered (trace for spec/RBCTrace.tla).
//   drv_rbc run <schedules.ndjson> <trace-out.ndjson>      schedules = behaviours printed by TLC (direction A)
//   drv_rbc random <seed> <executions> <trace-out.ndjson> [n] [maxsteps]   randomized exploration (direction B)
#include "common.hh"
#include <list>
#include <deque>
#include <algorithm>
#define private public       // projection of internal state (ID, deliver_s, deliver_buf) without a hook
#define protected public
#include "libTMCG.hh"
#undef private
#undef protected
#include "mpz_shash.hh"
#include "memaio.hh"

static std::map<std::string, long> bodycode;     // real value (decimal) -> code used in traces
static std::map<long, std::string> bodyreal;     // code -> real value
static long junk_next = 9000000;

static void init_codes() {
	for (long v = 0; v < 1000; v++) {
		Mpz x(v), h1, h2;
		tmcg_mpz_shash(h1, 1, (mpz_srcptr)x.v);
		tmcg_mpz_shash(h2, 1, (mpz_srcptr)h1.v);
		bodycode[x.s()] = v; bodyreal[v] = x.s();
		bodycode[h1.s()] = 1000 + v; bodyreal[1000 + v] = h1.s();
		bodycode[h2.s()] = 4000 + v; bodyreal[4000 + v] = h2.s();
	}
}
static long code_of(const std::string &real) {
	std::map<std::string, long>::iterator it = bodycode.find(real);
	if (it != bodycode.end()) return it->second;
	long c = junk_next++;
	bodycode[real] = c; bodyreal[c] = real;
	return c;
}
static std::string real_of(long code) {
	std::map<long, std::string>::iterator it = bodyreal.find(code);
	if (it != bodyreal.end()) return it->second;
	// unknown code: make up a big junk value
	Mpz x(code); mpz_mul_2exp(x, x, 200); mpz_add_ui(x, x, 12345);
	bodycode[x.s()] = code; bodyreal[code] = x.s();
	return x.s();
}
static long small_or(const std::string &dec, long big) {
	Mpz x(dec);
	if (mpz_sizeinbase(x, 2) > 30) return big;
	return x.l();
}

struct World {
	size_t n, t;
	std::vector<bool> honest;
	MemNet *net;
	std::vector<MemAio*> aio;
	std::vector<CachinKursawePetzoldShoupRBC*> rbc;
	std::vector<json> path;                       // driver-side mirror of its own setID/unsetID calls
	std::vector<std::vector<json> > pstack;
	std::map<std::string, json> idpath;           // real ID -> path
	std::map<std::string, std::string> pathid;    // path dump -> real ID
	std::ofstream *out;
	long nevents;

	World(size_t n_in, size_t t_in, const std::vector<size_t> &hon, std::ofstream *o): n(n_in), t(t_in), honest(n_in, false), out(o), nevents(0) {
		net = new MemNet(n);
		for (size_t k = 0; k < hon.size(); k++) honest[hon[k]] = true;
		for (size_t i = 0; i < n; i++) {
			net->keep[i] = honest[i];
			aio.push_back(new MemAio(net, i));
			rbc.push_back(honest[i] ? new CachinKursawePetzoldShoupRBC(n, t, i, aio[i], aiounicast::aio_scheduler_roundrobin, 0) : NULL);
			path.push_back(json::array());
			pstack.push_back(std::vector<json>());
		}
		reg(json::array(), "0");
	}
	~World() {
		for (size_t i = 0; i < n; i++) { if (rbc[i]) delete rbc[i]; delete aio[i]; }
		delete net;
	}
	void reg(const json &p, const std::string &real) { idpath[real] = p; pathid[p.dump()] = real; }
	std::string real_id(const json &p) {
		std::map<std::string, std::string>::iterator it = pathid.find(p.dump());
		if (it != pathid.end()) return it->second;
		if (p.size() > 0 && p[0] == "?") return "424242424242424242424242";
		MemNet sn(2); MemAio sa(&sn, 0);
		CachinKursawePetzoldShoupRBC scratch(2, 0, 0, &sa, aiounicast::aio_scheduler_roundrobin, 0);
		for (size_t k = 0; k < p.size(); k++) scratch.setID(p[k].get<std::string>());
		std::string r = mpz2s(scratch.ID);
		reg(p, r);
		return r;
	}
	json msg2json(const MemNet::Wire &w) {
		json m;
		std::map<std::string, json>::iterator it = idpath.find(w[0]);
		if (it != idpath.end()) m["id"] = it->second; else { json q = json::array(); q.push_back("?"); m["id"] = q; }
		m["j"] = small_or(w[1], 1000000000);
		m["s"] = small_or(w[2], 1000000000);
		m["a"] = small_or(w[3], 1000000000);
		m["b"] = code_of(w[4]);
		return m;
	}
	MemNet::Wire json2msg(const json &m) {
		MemNet::Wire w;
		w.push_back(real_id(m["id"]));
		w.push_back(std::to_string(m["j"].get<long>()));
		w.push_back(std::to_string(m["s"].get<long>()));
		w.push_back(std::to_string(m["a"].get<long>()));
		w.push_back(real_of(m["b"].get<long>()));
		return w;
	}
	void emit(json &ev) { (*out) << ev.dump() << "\n"; nevents++; }
	json tx_of(size_t i) {
		json tx = json::array();
		for (size_t k = 0; k < net->sent[i].size(); k++) {
			json e; e["to"] = net->sent[i][k].first; e["m"] = msg2json(net->sent[i][k].second);
			tx.push_back(e);
		}
		net->sent[i].clear();
		return tx;
	}
	void project(size_t i, json &ev) {
		json ds = json::array();
		for (size_t w = 0; w < n; w++) ds.push_back(small_or(mpz2s(rbc[i]->deliver_s[w]), 1000000000));
		ev["ds"] = ds;
		ev["nb"] = rbc[i]->deliver_buf.size();
		ev["sq"] = small_or(mpz2s(rbc[i]->s), 1000000000);
		std::map<std::string, json>::iterator it = idpath.find(mpz2s(rbc[i]->ID));
		if (it != idpath.end()) ev["cid"] = it->second; else { json q = json::array(); q.push_back("?"); ev["cid"] = q; }
	}
	// ---- the calls
	void bcast(size_t i, long v, long sq) {
		net->sent[i].clear();
		seam::clear_script();
		if (!rbc[i]->fifo) seam::push_be_ui(32, (unsigned long)sq);   // the 256-bit "random" sequence token
		Mpz m(v);
		json ev; ev["e"] = "Bcast"; ev["i"] = i; ev["v"] = v;
		try { rbc[i]->Broadcast(m); } catch (std::exception &ex) { ev["exc"] = ex.what(); }
		seam::clear_script();
		ev["sq"] = small_or(mpz2s(rbc[i]->s), 1000000000);
		ev["tx"] = tx_of(i);
		emit(ev);
	}
	void setid(size_t i, const std::string &c, bool f, int kind) {  // 0 set, 1 recover
		json ev; ev["e"] = kind == 0 ? "SetID" : "RecoverID"; ev["i"] = i; ev["c"] = c; ev["f"] = f;
		if (kind == 0) rbc[i]->setID(c, f); else rbc[i]->recoverID(c, f);
		pstack[i].push_back(path[i]);
		path[i].push_back(c);
		reg(path[i], mpz2s(rbc[i]->ID));
		project(i, ev);
		emit(ev);
	}
	void unsetid(size_t i, bool f) {
		json ev; ev["e"] = "UnsetID"; ev["i"] = i; ev["f"] = f;
		rbc[i]->unsetID(f);
		if (!pstack[i].empty()) { path[i] = pstack[i].back(); pstack[i].pop_back(); } else path[i] = json::array();
		project(i, ev);
		emit(ev);
	}
	bool step(size_t i, size_t l, long *dl_who = NULL) {
		net->sent[i].clear();
		aio[i]->next_link = l; aio[i]->got = false;
		Mpz m; size_t who = n;
		json ev; ev["e"] = "Step"; ev["i"] = i; ev["l"] = l;
		bool r = false;
		try { r = rbc[i]->Deliver(m, who, aiounicast::aio_scheduler_roundrobin, 0); }
		catch (std::exception &ex) { ev["exc"] = ex.what(); }
		json rx = json::array(); if (aio[i]->got) rx.push_back(msg2json(aio[i]->last));
		ev["rx"] = rx;
		ev["tx"] = tx_of(i);
		json dl = json::array();
		if (r) { json d; d["who"] = who; d["v"] = code_of(m.s()); dl.push_back(d); if (dl_who) *dl_who = (long)who; }
		ev["dl"] = dl;
		project(i, ev);
		emit(ev);
		return r;
	}
	bool dfrom(size_t i, size_t who, size_t l) {
		net->sent[i].clear();
		aio[i]->next_link = l; aio[i]->got = false;
		Mpz m;
		json ev; ev["e"] = "DFrom"; ev["i"] = i; ev["who"] = who; ev["l"] = l;
		bool r = false;
		try { r = rbc[i]->DeliverFrom(m, who, aiounicast::aio_scheduler_roundrobin, 0); }
		catch (std::exception &ex) { ev["exc"] = ex.what(); }
		json rx = json::array(); if (aio[i]->got) rx.push_back(msg2json(aio[i]->last));
		ev["rx"] = rx;
		ev["tx"] = tx_of(i);
		json ret = json::array(); if (r) ret.push_back(code_of(m.s()));
		ev["ret"] = ret;
		json pk = json::array();
		for (size_t w = 0; w < n; w++) pk.push_back(rbc[i]->buf_mpz[w].size());
		ev["pk"] = pk;
		project(i, ev);
		emit(ev);
		return r;
	}
	void queue(size_t i, size_t who, long v) {
		Mpz m(v);
		rbc[i]->QueueFrom(m, who);
		json ev; ev["e"] = "Queue"; ev["i"] = i; ev["who"] = who; ev["v"] = v;
		emit(ev);
	}
	void byz(size_t b, size_t to, const json &m) {
		MemNet::Wire w = json2msg(m);
		net->q[b][to].push_back(w);
		json ev; ev["e"] = "Byz"; ev["b"] = b; ev["to"] = to; ev["m"] = msg2json(w);
		emit(ev);
	}
	bool link_nonempty(size_t l, size_t i) { return !net->q[l][i].empty(); }
};

static void emit_reset(std::ofstream &out, size_t n, size_t t, const std::vector<size_t> &hon, const json &chan, bool fifo, const json &extra) {
	json ev; ev["e"] = "Reset"; ev["n"] = n; ev["t"] = t; ev["honest"] = hon; ev["chan"] = chan; ev["fifo"] = fifo;
	for (json::const_iterator it = extra.begin(); it != extra.end(); ++it) ev[it.key()] = it.value();
	out << ev.dump() << "\n";
}

static World *start(std::ofstream &out, size_t n, size_t t, const std::vector<size_t> &hon, const json &chan, bool fifo, const json &extra) {
	emit_reset(out, n, t, hon, chan, fifo, extra);
	World *w = new World(n, t, hon, &out);
	// InitChan = <<"A">>: every honest party has called setID("A", fifo) - not an event of the trace (part of Reset)
	for (size_t k = 0; k < chan.size(); k++)
		for (size_t i = 0; i < n; i++) if (w->honest[i]) {
			w->rbc[i]->setID(chan[k].get<std::string>(), fifo);
			w->pstack[i].push_back(w->path[i]); w->path[i].push_back(chan[k]);
			w->reg(w->path[i], mpz2s(w->rbc[i]->ID));
		}
	return w;
}

static int run_schedules(const char *in, const char *outp) {
	std::vector<json> sch = read_ndjson(in);
	std::ofstream out(outp);
	long total = 0;
	for (size_t k = 0; k < sch.size(); k++) {
		const json &s = sch[k];
		std::vector<size_t> hon = s["honest"].get<std::vector<size_t> >();
		json extra; extra["src"] = "tlc"; extra["k"] = k;
		World *w = start(out, s["n"], s["t"], hon, s["chan"], s["fifo"], extra);
		for (size_t e = 0; e < s["events"].size(); e++) {
			const json &ev = s["events"][e];
			std::string kind = ev["e"];
			if (kind == "Bcast") w->bcast(ev["i"], ev["v"], ev["sq"]);
			else if (kind == "SetID") w->setid(ev["i"], ev["c"], ev["f"], 0);
			else if (kind == "RecoverID") w->setid(ev["i"], ev["c"], ev["f"], 1);
			else if (kind == "UnsetID") w->unsetid(ev["i"], ev["f"]);
			else if (kind == "Step") w->step(ev["i"], ev["l"]);
			else if (kind == "DFrom") w->dfrom(ev["i"], ev["who"], ev["l"]);
			else if (kind == "Queue") w->queue(ev["i"], ev["who"], ev["v"]);
			else if (kind == "Byz") w->byz(ev["b"], ev["to"], ev["m"]);
		}
		total += w->nevents;
		delete w;
	}
	out.close();
	printf("{\"executions\":%zu,\"events\":%ld}\n", sch.size(), total);
	return 0;
}

// ---------------------------------------------------------------------------------------------------
// randomized exploration of the real objects
static unsigned long rnd(unsigned long m) { return m ? (unsigned long)(seam::next64() % m) : 0; }

static int run_random(unsigned long seed, long execs, const char *outp, long fixed_n, long maxsteps) {
	std::ofstream out(outp);
	long total = 0;
	for (long x = 0; x < execs; x++) {
		seam::seed_harness(seed * 1000003UL + x);
		seam::seed(seed * 7919UL + x);
		size_t n = fixed_n > 0 ? (size_t)fixed_n : 2 + rnd(6);
		size_t tmax = (n - 1) / 3;
		size_t t = tmax ? (rnd(4) == 0 ? rnd(tmax + 1) : tmax) : 0;
		size_t nfaulty = t ? rnd(t + 1) : 0;
		std::vector<bool> faulty(n, false);
		for (size_t k = 0; k < nfaulty; ) { size_t b = rnd(n); if (!faulty[b]) { faulty[b] = true; k++; } }
		std::vector<size_t> hon, byzs;
		for (size_t i = 0; i < n; i++) (faulty[i] ? byzs : hon).push_back(i);
		bool usechan = rnd(3) == 0;
		bool fifo = usechan ? (rnd(2) == 0) : true;
		json chan = json::array(); if (usechan) chan.push_back("A");
		json extra; extra["src"] = "random"; extra["seed"] = seed; extra["k"] = x;
		World *w = start(out, n, t, hon, chan, fifo, extra);
		// per-party plan
		std::vector<int> bleft(n, 0), mode(n, 0), depth(n, 0);
		std::vector<long> nfseq(n, 0);
		for (size_t i = 0; i < n; i++) { bleft[i] = rnd(4); mode[i] = rnd(4) == 0 ? 1 : 0; }   // mode 1: DeliverFrom consumer
		bool switching = rnd(3) == 0;
		int byzleft = byzs.empty() ? 0 : 2 + rnd(3 * n);
		std::vector<json> seen;          // messages seen on the wire (raw material for forgeries)
		long steps = 0, idle = 0;
		while (steps < maxsteps && idle < 40) {
			steps++;
			unsigned long c = rnd(100);
			size_t i = hon[rnd(hon.size())];
			if (c < 8 && bleft[i] > 0) {
				bleft[i]--;
				long sq = w->rbc[i]->fifo ? 0 : (long)(10 * (i + 1) + (++nfseq[i]));
				w->bcast(i, 1 + rnd(5), sq);
				idle = 0;
			} else if (c < 11 && switching && depth[i] < 2) {
				static const char *names[] = {"B", "C"};
				size_t which = rnd(2);
				bool f = (which == 0);      // all parties use the same mode on a channel: "B" is FIFO, "C" is not
				if (rnd(5) == 0) w->setid(i, names[which], f, 1); else w->setid(i, names[which], f, 0);
				depth[i]++; if (rnd(2)) bleft[i] += 1;
			} else if (c < 13 && switching && depth[i] > 0) {
				json parent = w->pstack[i].empty() ? json::array() : w->pstack[i].back();
				bool pf = true;
				if (!parent.empty()) { std::string last = parent[parent.size() - 1]; pf = (last == "A") ? fifo : (last == "B"); }
				w->unsetid(i, pf); depth[i]--;
			} else if (c < 14 && mode[i] == 1) {
				w->queue(i, rnd(n), 900 + rnd(9));
			} else if (c < 30 && byzleft > 0) {
				byzleft--;
				size_t b = byzs[rnd(byzs.size())];
				json m;
				if (!seen.empty() && rnd(4) != 0) {
					m = seen[rnd(seen.size())];
					switch (rnd(7)) {
						case 0: m["b"] = 1 + rnd(5); break;
						case 1: m["b"] = 1001 + rnd(5); break;
						case 2: m["j"] = rnd(n + 1); break;
						case 3: m["s"] = rnd(4); break;
						case 4: m["a"] = rnd(10); break;
						case 5: m["a"] = 1; m["j"] = b; m["b"] = 1 + rnd(5); break;
						default: break;
					}
				} else {
					m["id"] = w->path[hon[0]]; m["j"] = b; m["s"] = 1 + rnd(3); m["a"] = 1 + rnd(5);
					long v = 1 + rnd(3);
					m["b"] = (m["a"] == 2 || m["a"] == 3) ? 1000 + v : v;
				}
				w->byz(b, hon[rnd(hon.size())], m);
				idle = 0;
			} else {
				// hand-over step: prefer links that hold something
				size_t l = rnd(n);
				for (int tries = 0; tries < 6 && !w->link_nonempty(l, i); tries++) l = rnd(n);
				size_t before = w->net->q[l][i].size();
				bool r;
				if (mode[i] == 1 || (mode[i] == 0 && rnd(40) == 0)) r = w->dfrom(i, rnd(n), l);
				else r = w->step(i, l);
				if (w->aio[i]->got) { if (seen.size() < 64) seen.push_back(w->msg2json(w->aio[i]->last)); }
				if (before > 0 || r) idle = 0; else idle++;
			}
		}
		// drain: hand over everything that is left, round robin, until nothing moves any more
		for (int round = 0; round < 5000; round++) {
			bool moved = false;
			for (size_t hi = 0; hi < hon.size(); hi++) {
				size_t i = hon[hi];
				bool any = false;
				for (size_t l = 0; l < n; l++) {
					if (!w->link_nonempty(l, i)) continue;
					any = true; moved = true;
					if (mode[i] == 1) w->dfrom(i, (l + round) % n, l); else w->step(i, l);
				}
				if (!any) {   // one call on an empty link: the deliver buffer scan may still have work
					size_t nb = w->rbc[i]->deliver_buf.size();
					size_t pk = 0; for (size_t k = 0; k < n; k++) pk += w->rbc[i]->buf_mpz[k].size();
					bool r = (mode[i] == 1) ? w->dfrom(i, round % n, 0) : w->step(i, 0);
					size_t pk2 = 0; for (size_t k = 0; k < n; k++) pk2 += w->rbc[i]->buf_mpz[k].size();
					if (r || nb != w->rbc[i]->deliver_buf.size() || pk != pk2 || !w->net->sent[i].empty()) moved = true;
					for (size_t l = 0; l < n; l++) if (w->link_nonempty(l, i)) moved = true;
				}
			}
			if (!moved && round >= (int)n) break;
		}
		json q; q["e"] = "Quiesce";
		bool empty = true;
		for (size_t hi = 0; hi < hon.size(); hi++) for (size_t l = 0; l < n; l++) if (w->link_nonempty(l, hon[hi])) empty = false;
		q["empty"] = empty;
		w->emit(q);
		total += w->nevents;
		delete w;
	}
	out.close();
	printf("{\"executions\":%ld,\"events\":%ld}\n", execs, total);
	return 0;
}

int main(int argc, char **argv) {
	install_terminate("drv_rbc");
	quiet_cerr();
	if (!init_libTMCG()) { fprintf(stderr, "init_libTMCG failed\n"); return 2; }
	seam::seed(1);
	init_codes();
	if (argc >= 4 && !strcmp(argv[1], "run")) return run_schedules(argv[2], argv[3]);
	if (argc >= 5 && !strcmp(argv[1], "random"))
		return run_random(strtoul(argv[2], NULL, 10), atol(argv[3]), argv[4], argc > 5 ? atol(argv[5]) : 0, argc > 6 ? atol(argv[6]) : 600);
	fprintf(stderr, "usage: drv_rbc run <schedules> <trace> | random <seed> <execs> <trace> [n] [maxsteps]\n");
	return 2;
}
