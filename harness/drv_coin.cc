// drv_coin: the distributed coin flip JareckiLysyanskayaEDCF (src/JareckiLysyanskayaASTC.cc) in a tiny group.
//
// Two-party protocol Flip_twoparty: every party runs the real library code in its own thread on a stream pair
// owned by the harness.  The streambufs hand every read attempt and every written line to the scheduler (main
// thread) BEFORE it happens; exactly one thread is runnable at any time (baton), so the log has a total order
// with sequence numbers and "no opening is written before the peer's commitment has been read" is decidable
// from the log.  The peer is either the second real party (all schedules) or the harness playing an adversary
// (C05 catalogue on commitment and opening, withheld messages, adaptive peers).  One ndjson event per
// I/O operation / adversary move / return; spec/CoinTrace.tla must be able to consume the log.
//
//   drv_coin hh <schedules.ndjson> <trace-out>            schedules (from TLC, GEN_Coin_hh) replayed, direction A
//   drv_coin hhrand <seed> <n> <trace-out> [p q g h]      seeded random schedules and coins
//   drv_coin adv <seed> <ncoins> <trace-out> [p q g h]    adversarial peer: roles x catalogue x timing x coins
//   drv_coin np ...                                       n-party protocol, see below
#include "common.hh"
#include <thread>
#include <mutex>
#include <condition_variable>
#include <streambuf>
#include <deque>
#include <algorithm>
#include <functional>
#define private public
#define protected public
#include "libTMCG.hh"
#undef private
#undef protected
#include "memaio.hh"

static Mpz GP, GQ, GG, GH;
static size_t LQ = 0;                 // byte length of a tmcg_mpz_srandomm(., q) draw
static long SEQ = 0;                  // sequence number of the next event of the current execution
static std::ofstream *OUT = NULL;
static long NEV = 0;

static void set_group(long p, long q, long g, long h) {
	GP = Mpz(p); GQ = Mpz(q); GG = Mpz(g); GH = Mpz(h);
	LQ = (mpz_sizeinbase(GQ, 2) + 64 + 7) / 8;
}
static json grp_j() { json a = json::array(); a.push_back(GP.l()); a.push_back(GQ.l()); a.push_back(GG.l()); a.push_back(GH.l()); return a; }
static void emit(json &ev) { ev["seq"] = SEQ++; (*OUT) << ev.dump() << "\n"; NEV++; }

// a value on the wire as the spec sees it: sign and magnitude, sm = -1 too large for the model, sm = -2 not a number
static json num(mpz_srcptr v) {
	json n; Mpz a; mpz_abs(a, v);
	n["sg"] = mpz_sgn(v);
	n["sm"] = (mpz_sizeinbase(a, 2) <= 30) ? a.l() : -1;
	return n;
}
static json junk_j() { json n; n["sg"] = 0; n["sm"] = -2; return n; }
static std::string wire(mpz_srcptr v) { return mpz2s(v, TMCG_MPZ_IO_BASE); }     // one line of the protocol (without '\n')
static json line_j(const std::string &line) {     // decode a transmitted line (GMP, not the library's reader)
	Mpz v;
	if (line.empty() || mpz_set_str(v, line.c_str(), TMCG_MPZ_IO_BASE) != 0) return junk_j();
	return num(v);
}
static unsigned long rnd(unsigned long m) { return m ? (unsigned long)(seam::next64() % m) : 0; }

// the q-draws made since the last call (value reduced mod q, as tmcg_mpz_srandomm does)
static json take_coins() {
	json cs = json::array();
	std::vector<seam::Draw> &lg = seam::log();
	for (size_t k = 0; k < lg.size(); k++)
		if (lg[k].len == LQ) { Mpz v(lg[k].hex, 16); mpz_mod(v, v, GQ); cs.push_back(v.l()); }
	seam::clear_log();
	return cs;
}

// ---------------------------------------------------------------------------------------------------
// baton: exactly one runnable thread
struct Baton {
	std::mutex mu; std::condition_variable cv; int turn;
	Baton(): turn(-1) {}
	void pass(int to) { { std::lock_guard<std::mutex> g(mu); turn = to; } cv.notify_all(); }
	void wait(int me) { std::unique_lock<std::mutex> lk(mu); cv.wait(lk, [&] { return turn == me; }); }
};
static const int MAIN = -1;
struct HarnessStop {};                 // thrown into a library thread that has to be abandoned

// ---------------------------------------------------------------------------------------------------
// two-party world
struct Msg { std::string raw; };        // one line as transmitted
enum OpKind { OP_NONE, OP_WRITE, OP_READ, OP_DONE };
struct TwoParty;
class OutBuf : public std::streambuf {
	public:
		TwoParty *w; int i; std::string cur;
		OutBuf(TwoParty *w_in, int i_in): w(w_in), i(i_in) {}
	protected:
		virtual int_type overflow(int_type c) { if (c != traits_type::eof()) put((char)c); return traits_type::not_eof(c); }
		virtual std::streamsize xsputn(const char *s, std::streamsize n) { for (std::streamsize k = 0; k < n; k++) put(s[k]); return n; }
		void put(char c);
};
class InBuf : public std::streambuf {
	public:
		TwoParty *w; int i; std::string buf;
		InBuf(TwoParty *w_in, int i_in): w(w_in), i(i_in) {}
	protected:
		virtual int_type underflow();
};
struct TPParty {
	bool honest, started, finished, res, stop;
	OpKind op; std::string wline;               // pending operation
	std::string rline; bool reof;               // result of a granted read
	json coins;                                 // q-draws made before the pending operation
	std::deque<Msg> chan; bool closed;          // messages on their way to this party
	std::vector<std::string> written;           // lines this party has written (what an adversary has seen)
	std::string exc; Mpz coin;
	std::thread th;
	JareckiLysyanskayaEDCF *edcf;
	TPParty(): honest(false), started(false), finished(false), res(false), stop(false), op(OP_NONE), reof(false), closed(false), edcf(NULL) {}
};
struct TwoParty {
	Baton b; TPParty p[2];
	// ---- library side (runs in the party's thread)
	void announce(int i) {             // hand the pending operation to the scheduler and wait for the grant
		if (p[i].stop) { p[i].reof = true; return; }   // abandoned execution: run to the end on a dead stream
		b.pass(MAIN); b.wait(i);
	}
	void op_write(int i, const std::string &line) { p[i].op = OP_WRITE; p[i].wline = line; announce(i); }
	bool op_read(int i, std::string &line) {     // returns false at end of stream
		p[i].op = OP_READ; announce(i);
		if (p[i].reof) return false;
		line = p[i].rline; return true;
	}
	void body(int i) {
		b.wait(i);
		OutBuf ob(this, i); InBuf ib(this, i);
		std::ostream os(&ob); std::istream is(&ib);
		std::ostringstream err;
		try {
			if (!p[i].stop) p[i].res = p[i].edcf->Flip_twoparty((size_t)i, p[i].coin, is, os, err);
		} catch (HarnessStop &) { p[i].exc = "harness-stop"; }
		catch (std::exception &ex) { p[i].exc = std::string("exception: ") + ex.what(); }
		catch (...) { p[i].exc = "exception: unknown"; }
		p[i].op = OP_DONE; p[i].finished = true;
		b.pass(MAIN);
	}
	// ---- scheduler side (main thread)
	void create(int i, long a, long r) {          // a, r >= 0: dictate the two coins of party i
		p[i].honest = true;
		p[i].edcf = new JareckiLysyanskayaEDCF(2, 0, GP, GQ, GG, GH, mpz_sizeinbase(GP, 2), mpz_sizeinbase(GQ, 2));
		seam::clear_script(); seam::clear_log();
		if (a >= 0) { seam::push_be_ui(LQ, (unsigned long)a); seam::push_be_ui(LQ, (unsigned long)r); }
		p[i].th = std::thread(&TwoParty::body, this, i);
		p[i].started = true;
		run(i);                                     // up to its first operation (the coins are drawn before it)
		seam::clear_script();
	}
	void run(int i) {                               // let party i run until it announces its next operation
		seam::clear_log();
		b.pass(i); b.wait(MAIN);
		p[i].coins = take_coins();
	}
	bool enabled(int i) {
		if (!p[i].started || p[i].finished) return false;
		if (p[i].op == OP_WRITE) return true;
		if (p[i].op == OP_READ) return !p[i].chan.empty() || no_more(i);
		return false;
	}
	bool no_more(int i) { return p[i].closed || (p[1 - i].honest && p[1 - i].finished); }
	void step(int i) {                              // perform the pending operation of party i, log it, resume i
		json ev; ev["i"] = i; ev["coins"] = p[i].coins;
		if (p[i].op == OP_WRITE) {
			ev["e"] = "W"; ev["m"] = line_j(p[i].wline);
			p[i].written.push_back(p[i].wline);
			Msg m; m.raw = p[i].wline; p[1 - i].chan.push_back(m);
		} else {
			ev["e"] = "R";
			if (p[i].chan.empty()) { ev["eof"] = true; p[i].reof = true; }
			else { ev["eof"] = false; p[i].reof = false; p[i].rline = p[i].chan.front().raw; p[i].chan.pop_front(); ev["m"] = line_j(p[i].rline); }
		}
		emit(ev);
		run(i);
		if (p[i].finished) ret(i);
	}
	void ret(int i) {
		json ev; ev["e"] = "Ret"; ev["i"] = i; ev["res"] = p[i].res && p[i].exc.empty();
		ev["coin"] = (p[i].res && p[i].exc.empty()) ? p[i].coin.l() : -1;
		if (!p[i].exc.empty()) ev["exc"] = p[i].exc;
		ev["coins"] = p[i].coins;                   // draws after the last operation (none expected)
		emit(ev);
	}
	void adv_send(int to, const std::string &raw) {
		Msg m; m.raw = raw; p[to].chan.push_back(m);
		json ev; ev["e"] = "Adv"; ev["to"] = to; ev["m"] = line_j(raw); emit(ev);
	}
	void adv_close(int to) { p[to].closed = true; json ev; ev["e"] = "Close"; ev["to"] = to; emit(ev); }
	void teardown() {
		for (int i = 0; i < 2; i++) if (p[i].started) {
			if (!p[i].finished) { p[i].stop = true; p[i].reof = true; b.pass(i); b.wait(MAIN); }
			p[i].th.join();
			delete p[i].edcf;
		}
	}
};
void OutBuf::put(char c) { if (c == '\n') { std::string l = cur; cur.clear(); w->op_write(i, l); } else cur.push_back(c); }
std::streambuf::int_type InBuf::underflow() {
	if (gptr() < egptr()) return traits_type::to_int_type(*gptr());
	std::string line;
	if (!w->op_read(i, line)) return traits_type::eof();
	buf = line + "\n";
	setg(&buf[0], &buf[0], &buf[0] + buf.size());
	return traits_type::to_int_type(buf[0]);
}

static void reset_ev(const json &honest, const json &extra) {
	SEQ = 0;
	json ev; ev["e"] = "Reset"; ev["grp"] = grp_j(); ev["honest"] = honest;
	JareckiLysyanskayaEDCF probe(2, 0, GP, GQ, GG, GH, mpz_sizeinbase(GP, 2), mpz_sizeinbase(GQ, 2));
	ev["okgrp"] = probe.CheckGroup();
	for (json::const_iterator it = extra.begin(); it != extra.end(); ++it) ev[it.key()] = it.value();
	emit(ev);
}

// ---- two honest parties under a given schedule (sequence of party indices; afterwards: whoever is enabled)
static void run_hh(const std::vector<int> &sched, long a0, long r0, long a1, long r1, const json &extra, bool randomsched) {
	json hon = json::array(); hon.push_back(0); hon.push_back(1);
	reset_ev(hon, extra);
	TwoParty w;
	w.create(0, a0, r0); w.create(1, a1, r1);
	size_t k = 0; long guard = 0;
	while (guard++ < 1000) {
		bool e0 = w.enabled(0), e1 = w.enabled(1);
		if (!e0 && !e1) break;
		int i;
		if (k < sched.size()) { i = sched[k++]; if (!w.enabled(i)) { json ev; ev["e"] = "Stuck"; ev["i"] = i; emit(ev); break; } }
		else if (randomsched) i = (e0 && e1) ? (int)rnd(2) : (e0 ? 0 : 1);
		else i = e0 ? 0 : 1;
		w.step(i);
	}
	w.teardown();
}

// ---- adversarial peer
static const char *MUTS[] = {"none", "plus1", "otherres", "zero", "one", "pm1", "p", "q", "plusq", "minusq", "nonmember",
                             "neg", "oversized", "swap", "trunc", "junk", "empty", "mirror", "steer"};
static const int NMUTS = 19;
// the messages <<C', a', r'>> of a peer that follows the protocol with coins (b, s), then one deviation at `pos`.
// Items that depend on what the library has written are resolved when they are sent.
struct Item { std::string kind; Mpz v; std::string raw; };   // kind: num | raw | eof | mirror | steerA | fitR
static void commit(mpz_ptr c, mpz_srcptr a, mpz_srcptr r) {   // the adversary's own arithmetic (GMP)
	Mpz x, y; mpz_powm(x, GG, a, GP); mpz_powm(y, GH, r, GP); mpz_mul(c, x, y); mpz_mod(c, c, GP);
}
static bool build_script(std::vector<Item> &it, long b, long s, const std::string &m, size_t pos) {
	it.clear(); it.resize(3);
	Mpz B(b), S(s), C; commit(C, B, S);
	it[0].kind = it[1].kind = it[2].kind = "num"; it[0].v = C; it[1].v = B; it[2].v = S;
	Mpz &v = it[pos].v;
	if (m == "none") return pos == 0;
	else if (m == "plus1") mpz_add_ui(v, v, 1);
	else if (m == "otherres") mpz_add_ui(v, v, 3);
	else if (m == "zero") mpz_set_ui(v, 0);
	else if (m == "one") mpz_set_ui(v, 1);
	else if (m == "pm1") mpz_sub_ui(v, GP, 1);
	else if (m == "p") mpz_set(v, GP);
	else if (m == "q") mpz_set(v, GQ);
	else if (m == "plusq") mpz_add(v, v, GQ);
	else if (m == "minusq") mpz_sub(v, v, GQ);
	else if (m == "nonmember") { Mpz a(2), t; for (;;) { mpz_powm(t, a, GQ, GP); if (mpz_cmp_ui(t.v, 1) != 0) break; mpz_add_ui(a, a, 1); } mpz_set(v, a); }
	else if (m == "neg") mpz_neg(v, v);
	else if (m == "oversized") { mpz_set_ui(v, 1); mpz_mul_2exp(v, v, 300); mpz_add_ui(v, v, 5); }
	else if (m == "swap") { if (pos + 1 >= 3) return false; Mpz t = it[pos].v; it[pos].v = it[pos + 1].v; it[pos + 1].v = t; }
	else if (m == "trunc") { for (size_t k = pos; k < 3; k++) it[k].kind = "eof"; }
	else if (m == "junk") { it[pos].kind = "raw"; it[pos].raw = "!?"; }
	else if (m == "empty") { it[pos].kind = "raw"; it[pos].raw = ""; }
	else if (m == "mirror") { for (size_t k = pos; k < 3; k++) it[k].kind = "mirror"; }      // repeat what the library wrote
	else if (m == "steer") {    // try to force the outcome `b`: only possible once the library's share is known
		if (pos != 1) return false;
		it[1].kind = "steerA"; it[1].v = B; it[2].kind = "fitR";
	}
	else return false;
	return true;
}
static void run_adv(int role, long a, long r, long b, long s, const std::string &mut, size_t pos, int timing, const json &src) {
	std::vector<Item> it;
	if (!build_script(it, b, s, mut, pos)) return;
	json hon = json::array(); hon.push_back(role);
	json extra; extra["src"] = src; extra["mut"] = mut; extra["pos"] = pos; extra["timing"] = timing;
	json pc = json::array(); pc.push_back(b); pc.push_back(s); extra["peercoins"] = pc;
	reset_ev(hon, extra);
	TwoParty w;
	size_t next = 0;                        // next script item
	Mpz sentC, sentA;
	std::function<bool()> adaptive = [&]() { return it[next].kind == "mirror" || it[next].kind == "steerA" || it[next].kind == "fitR"; };
	std::function<void()> deliver = [&]() {        // the adversary's next move
		Item &x = it[next];
		if (x.kind == "eof") { w.adv_close(role); next = 3; return; }
		std::string raw;
		if (x.kind == "num") raw = wire(x.v);
		else if (x.kind == "raw") raw = x.raw;
		else if (x.kind == "mirror") raw = next < w.p[role].written.size() ? w.p[role].written[next] : std::string("0");
		else if (x.kind == "steerA") {       // a' = target - a (mod q), a = the share the library has revealed (if it has)
			Mpz al(0); if (w.p[role].written.size() >= 2) mpz_set_str(al, w.p[role].written[1].c_str(), TMCG_MPZ_IO_BASE);
			Mpz t; mpz_sub(t, x.v, al); mpz_mod(t, t, GQ); x.v = t; raw = wire(t);
		} else if (x.kind == "fitR") {       // r' with g^a' h^r' = C' (exhaustive search: the group is tiny)
			Mpz rr(0), c; bool found = false;
			for (long k = 0; k < GQ.l(); k++) { Mpz kk(k); commit(c, sentA, kk); if (mpz_cmp(c, sentC) == 0) { rr = kk; found = true; break; } }
			(void)found; raw = wire(rr);
		}
		Mpz dec; if (!raw.empty() && mpz_set_str(dec, raw.c_str(), TMCG_MPZ_IO_BASE) == 0) { if (next == 0) sentC = dec; if (next == 1) sentA = dec; }
		w.adv_send(role, raw);
		next++;
	};
	if (timing == 1) while (next < 3 && !adaptive()) deliver();             // everything before the library starts
	w.create(role, a, r);
	long guard = 0;
	while (!w.p[role].finished && guard++ < 100) {
		if (timing == 2 && w.p[role].written.size() >= 1) while (next < 3 && !adaptive()) deliver();   // right after its commitment
		if (w.enabled(role)) { w.step(role); continue; }
		// the library waits for input: the adversary moves (or closes when it has nothing left)
		if (next < 3) deliver(); else w.adv_close(role);
	}
	w.teardown();
}

static int main_hh(const char *in, const char *outp) {
	std::vector<json> sch = read_ndjson(in);
	std::ofstream out(outp); OUT = &out;
	for (size_t k = 0; k < sch.size(); k++) {
		const json &s = sch[k];
		set_group(s["grp"][0], s["grp"][1], s["grp"][2], s["grp"][3]);
		seam::seed(s.value("seed", 1UL) * 7919UL + k); seam::seed_harness(s.value("seed", 1UL) * 1000003UL + k);
		std::vector<int> sc = s["sched"].get<std::vector<int> >();
		long q = GQ.l();
		json extra; extra["src"] = "tlc"; extra["k"] = k;
		const json &c = s["coins"];
		if (c.is_array()) run_hh(sc, c[0][0], c[0][1], c[1][0], c[1][1], extra, false);
		else run_hh(sc, (long)rnd(q), (long)rnd(q), (long)rnd(q), (long)rnd(q), extra, false);
	}
	out.close();
	printf("{\"executions\":%zu,\"events\":%ld}\n", sch.size(), NEV);
	return 0;
}
static int main_hhrand(unsigned long seed, long n, const char *outp) {
	std::ofstream out(outp); OUT = &out;
	long q = GQ.l();
	for (long k = 0; k < n; k++) {
		seam::seed(seed * 7919UL + k); seam::seed_harness(seed * 1000003UL + k);
		json extra; extra["src"] = "random"; extra["seed"] = seed; extra["k"] = k;
		// all coin pairs in turn when n is large enough, random schedule
		long a0, r0, a1, r1;
		if (n >= q * q * q * q) { long x = k; a0 = x % q; x /= q; r0 = x % q; x /= q; a1 = x % q; x /= q; r1 = x % q; }
		else { a0 = rnd(q); r0 = rnd(q); a1 = rnd(q); r1 = rnd(q); }
		std::vector<int> none;
		run_hh(none, a0, r0, a1, r1, extra, true);
	}
	out.close();
	printf("{\"executions\":%ld,\"events\":%ld}\n", n, NEV);
	return 0;
}
static int main_adv(unsigned long seed, long ncoins, const char *outp) {
	std::ofstream out(outp); OUT = &out;
	long q = GQ.l(), nx = 0;
	bool all = ncoins >= q * q;
	for (int role = 0; role < 2; role++)
	for (int m = 0; m < NMUTS; m++)
	for (size_t pos = 0; pos < 3; pos++)
	for (int timing = 0; timing < 3; timing++)
	for (long c = 0; c < (all ? q * q : ncoins); c++) {
		seam::seed(seed * 7919UL + nx); seam::seed_harness(seed * 1000003UL + nx);
		long a = all ? c % q : (long)rnd(q), r = all ? c / q : (long)rnd(q);
		long b = rnd(q), s = rnd(q);
		if (c == 0) { b = 0; }                      // boundary shares on the peer's side as well
		if (c == 1) { b = q - 1; s = 0; }
		json src; src["seed"] = seed; src["k"] = nx;
		long before = NEV;
		run_adv(role, a, r, b, s, MUTS[m], pos, timing, src);
		if (NEV != before) nx++;
	}
	out.close();
	printf("{\"executions\":%ld,\"events\":%ld}\n", nx, NEV);
	return 0;
}


// ===================================================================================================
// n-party protocol: Flip() on real CachinKursawePetzoldShoupRBC objects over an in-memory transport.
// One thread per party, exactly one runnable (baton); every poll of the transport is a scheduling point.
// time() is the harness' virtual clock: it advances only when every live party has polled in vain since the last
// progress, so time-outs cost nothing and no verdict depends on the wall clock.
//   drv_coin np <seed> <executions> <trace-out> [scenario-filter]
static time_t VNOW = 1000000000;
extern "C" time_t time(time_t *t) { if (t) *t = VNOW; return VNOW; }
// time-outs in virtual seconds: a party that waits in vain for a private share (TOP) must still be in time for the
// next broadcast round of the others (TOB) - the synchrony assumption of the protocol; with equal values an honest
// party that was denied a share misses the complaint round and is disqualified by the others
static const time_t TOP = 2, TOB = 9;

struct Dev {                           // how a party deviates (spec: CoinN.tla, dev record)
	std::string kind;                  // honest | lib | byz | crash0 | crashopen | tamper
	bool commit; std::vector<int> sd; std::vector<size_t> complain; std::string answer, open;
	long reconw;                       // >= 0: in the reconstruction of this party's share it broadcasts a share that does not verify
	Dev() : commit(true), reconw(-1) {}
};
struct NP;
class SimAio : public aiounicast {
	public:
		NP *w; int kind;                 // 0 private links, 1 links under the reliable broadcast
		std::vector<std::deque<MemNet::Wire> > inq;   // per sender
		size_t rr;
		SimAio(NP *w_in, int kind_in, size_t n_in, size_t j_in):
			aiounicast(n_in, j_in, aio_scheduler_roundrobin, TOP, false, false, false), w(w_in), kind(kind_in), inq(n_in), rr(0) {}
		virtual bool Send(mpz_srcptr m, const size_t i_in, const time_t timeout = aio_timeout_default) {
			std::vector<mpz_srcptr> v; v.push_back(m); return Send(v, i_in, timeout);
		}
		virtual bool Send(const std::vector<mpz_srcptr> &m, const size_t i_in, const time_t timeout = aio_timeout_default);
		virtual bool Receive(mpz_ptr m, size_t &i_out, const size_t scheduler = aio_scheduler_default, const time_t timeout = aio_timeout_default) {
			std::vector<mpz_ptr> v; v.push_back(m); return Receive(v, i_out, scheduler, timeout);
		}
		virtual bool Receive(std::vector<mpz_ptr> &m, size_t &i_out, const size_t scheduler = aio_scheduler_default, const time_t timeout = aio_timeout_default);
		virtual void Reset(const size_t i_in, const bool input) { (void)i_in; (void)input; }
		virtual ~SimAio() {}
};
struct NPParty {
	Dev dev; bool started, finished, stop, fruitless, res;
	SimAio *aioP, *aioB; CachinKursawePetzoldShoupRBC *rbc; JareckiLysyanskayaEDCF *edcf;
	std::thread th; Mpz coin; std::string exc; std::ostringstream err;
	std::vector<long> qdraws; std::vector<int> wpar;       // q-draws, parity of the 8-byte draws
	std::vector<long> pc, ph;                              // polynomials (deviating harness party: chosen by the harness)
	std::vector<size_t> ptp;                                // private messages sent per recipient (tampering)
	std::set<std::string> bseen;
	NPParty(): started(false), finished(false), stop(false), fruitless(false), res(false), aioP(NULL), aioB(NULL), rbc(NULL), edcf(NULL) {}
};
struct NP {
	size_t n, t, trbc; Baton b; std::vector<NPParty*> p;
	std::string idF, idS; std::string strF, strS;
	std::vector<json> evbuf; long steps; bool honest_done;
	NP(size_t n_in, size_t t_in, size_t trbc_in): n(n_in), t(t_in), trbc(trbc_in), steps(0), honest_done(false) {
		std::ostringstream f, s;
		f << "JareckiLysyanskayaEDCF::Flip()" << (mpz_srcptr)GP.v << (mpz_srcptr)GQ.v << (mpz_srcptr)GG.v << (mpz_srcptr)GH.v << n << t;
		s << "JareckiLysyanskayaRVSS::Share()" << (mpz_srcptr)GP.v << (mpz_srcptr)GQ.v << (mpz_srcptr)GG.v << (mpz_srcptr)GH.v << n << t;
		strF = f.str(); strS = s.str();
		for (size_t i = 0; i < n; i++) {
			NPParty *q = new NPParty();
			q->aioP = new SimAio(this, 0, n, i); q->aioB = new SimAio(this, 1, n, i);
			q->rbc = new CachinKursawePetzoldShoupRBC(n, trbc, i, q->aioB, aiounicast::aio_scheduler_roundrobin, TOB);
			q->edcf = new JareckiLysyanskayaEDCF(n, t, GP, GQ, GG, GH, mpz_sizeinbase(GP, 2), mpz_sizeinbase(GQ, 2));
			q->ptp.resize(n, 0);
			p.push_back(q);
		}
		// the channel identifiers of the two phases, computed by a scratch object
		MemNet sn(2); MemAio sa(&sn, 0);
		CachinKursawePetzoldShoupRBC scratch(2, 0, 0, &sa, aiounicast::aio_scheduler_roundrobin, 0);
		scratch.setID(strF); idF = mpz2s(scratch.ID); scratch.setID(strS); idS = mpz2s(scratch.ID);
	}
	~NP() { for (size_t i = 0; i < n; i++) { delete p[i]->edcf; delete p[i]->rbc; delete p[i]->aioP; delete p[i]->aioB; delete p[i]; } }
	void progress() { for (size_t i = 0; i < n; i++) p[i]->fruitless = false; }
	void yield(size_t i) {              // scheduling point of party i (called in its thread)
		if (p[i]->stop) throw HarnessStop();
		b.pass(MAIN); b.wait((int)i);
		if (p[i]->stop) throw HarnessStop();
	}
	void account(size_t i) {            // attribute the draws made since the last switch to party i
		std::vector<seam::Draw> &lg = seam::log();
		for (size_t k = 0; k < lg.size(); k++) {
			if (lg[k].len == LQ) { Mpz v(lg[k].hex, 16); mpz_mod(v, v, GQ); p[i]->qdraws.push_back(v.l()); }
			else if (lg[k].len == 8 && p[i]->wpar.size() < 4) p[i]->wpar.push_back((int)(strtoul(lg[k].hex.substr(0, 2).c_str(), NULL, 16) & 1));
		}
		seam::clear_log();
	}
	void run(size_t i) { seam::clear_log(); b.pass((int)i); b.wait(MAIN); account(i); }
	json qual_j(size_t i) { json a = json::array(); std::vector<size_t> &Q = p[i]->edcf->rvss->Qual; for (size_t k = 0; k < Q.size(); k++) a.push_back(Q[k]); return a; }
	void on_own_broadcast(size_t i, const MemNet::Wire &m) {     // first copy of an r-send of party i in its own name
		std::string key = m[0] + "/" + m[2];
		if (p[i]->bseen.count(key)) return;
		p[i]->bseen.insert(key);
		bool isF = (m[0] == idF);
		if (isF && m[2] == "1") {          // the first broadcast on the channel of Flip(): the share is revealed
			if (p[i]->dev.kind == "crashopen" || p[i]->dev.kind == "tampercrash") { p[i]->stop = true; throw HarnessStop(); }
			if (p[i]->dev.kind == "byz") return;
			json ev; ev["e"] = "Open"; ev["i"] = i; Mpz v(m[4]); ev["a"] = num(v);
			json st = json::array();
			for (size_t j = 0; j < n; j++) st.push_back(num(p[i]->edcf->rvss->C_ik[j][0]));
			ev["stored"] = st; ev["qual"] = qual_j(i);
			evbuf.push_back(ev);
		}
	}
	void body(size_t i);
	void byz_body(size_t i);
	long eval(const std::vector<long> &cs, long x) { long q = GQ.l(), r = 0, pw = 1; for (size_t k = 0; k < cs.size(); k++) { r = (r + cs[k] * pw) % q; pw = (pw * x) % q; } return r; }
};
bool SimAio::Send(const std::vector<mpz_srcptr> &m, const size_t i_in, const time_t timeout) {
	(void)timeout;
	if (i_in >= n) return false;
	if (w->p[j]->stop) throw HarnessStop();
	MemNet::Wire wire;
	for (size_t k = 0; k < m.size(); k++) wire.push_back(mpz2s(m[k]));
	if (kind == 1 && wire.size() == 5 && wire[3] == "1" && wire[1] == std::to_string(j)) w->on_own_broadcast(j, wire);
	if (kind == 0 && (w->p[j]->dev.kind == "tamper" || w->p[j]->dev.kind == "tampercrash") && wire.size() == 1) {
		// faulty private link j -> i_in: the first message is the share, the second its companion
		size_t cnt = w->p[j]->ptp[i_in]++;
		int d = w->p[j]->dev.sd[i_in];
		if (d == 2 && cnt < 2) { numWrite++; return true; }
		if (d == 1 && cnt == 0) { Mpz v(wire[0]); mpz_add_ui(v, v, 1); wire[0] = v.s(); }
	}
	w->p[i_in]->aioB->w->progress();
	(kind == 0 ? w->p[i_in]->aioP : w->p[i_in]->aioB)->inq[j].push_back(wire);
	numWrite++;
	return true;
}
bool SimAio::Receive(std::vector<mpz_ptr> &m, size_t &i_out, const size_t scheduler_in, const time_t timeout_in) {
	size_t scheduler = (scheduler_in == aio_scheduler_default) ? aio_default_scheduler : scheduler_in;
	time_t timeout = (timeout_in == aio_timeout_default) ? aio_default_timeout : timeout_in;
	time_t entry = VNOW;
	if (scheduler == aio_scheduler_direct && i_out >= n) return false;
	do {
		w->yield(j);
		size_t from = n;
		if (scheduler == aio_scheduler_direct) { if (!inq[i_out].empty()) from = i_out; }
		else for (size_t k = 0; k < n; k++) { size_t c = (rr + k) % n; if (!inq[c].empty()) { from = c; rr = (c + 1) % n; break; } }
		if (from < n) {
			MemNet::Wire wire = inq[from].front(); inq[from].pop_front();
			w->progress();
			if (wire.size() != m.size()) { i_out = from; return false; }
			for (size_t k = 0; k < m.size(); k++) mpz_set_str(m[k], wire[k].c_str(), 10);
			i_out = from; numRead++;
			return true;
		}
		w->p[j]->fruitless = true;
	} while (VNOW < entry + timeout);
	if (scheduler != aio_scheduler_direct) i_out = n;
	return false;
}
void NP::body(size_t i) {
	b.wait((int)i);
	NPParty &P = *p[i];
	try {
		if (!P.stop) {
			if (P.dev.kind == "byz") byz_body(i);
			else P.res = P.edcf->Flip(i, P.coin, P.aioP, P.rbc, P.err, P.dev.kind == "lib");
		}
	} catch (HarnessStop &) { P.exc = "harness-stop"; }
	catch (std::exception &ex) { P.exc = std::string("exception: ") + ex.what(); }
	catch (...) { P.exc = "exception: unknown"; }
	if (P.dev.kind != "byz" && P.exc != "harness-stop") {
		json ev; ev["e"] = "Out"; ev["i"] = i; ev["res"] = P.res && P.exc.empty();
		ev["coin"] = (P.res && P.exc.empty()) ? P.coin.l() : -1; ev["qual"] = qual_j(i);
		if (!P.exc.empty()) ev["exc"] = P.exc;
		evbuf.push_back(ev);
	}
	P.finished = true;
	b.pass(MAIN);
}
// a deviating party played by the harness on the real transport objects: it walks through the message flow of the
// protocol and deviates where its Dev record says so
void NP::byz_body(size_t f) {
	NPParty &P = *p[f];
	CachinKursawePetzoldShoupRBC *rbc = P.rbc;
	Mpz tmp, tmp2; long q = GQ.l();
	rbc->setID(strF); rbc->setID(strS);
	if (P.dev.commit) for (size_t k = 0; k <= t; k++) { Mpz c, a(P.pc[k]), h(P.ph[k]); commit(c, a, h); rbc->Broadcast(c); }
	for (size_t j = 0; j < n; j++) if (j != f) for (size_t k = 0; k <= t; k++) if (!rbc->DeliverFrom(tmp, j)) break;
	for (size_t j = 0; j < n; j++) if (j != f && P.dev.sd[j] != 2) {
		Mpz a(eval(P.pc, j + 1) + P.dev.sd[j]), h(eval(P.ph, j + 1));
		P.aioP->Send(a, j); P.aioP->Send(h, j);
	}
	std::vector<Mpz> ra(n), rh(n);        // the shares this party received
	for (size_t j = 0; j < n; j++) if (j != f) { size_t from = j; if (P.aioP->Receive(ra[j], from, aiounicast::aio_scheduler_direct)) { from = j; P.aioP->Receive(rh[j], from, aiounicast::aio_scheduler_direct); } }
	for (size_t k = 0; k < P.dev.complain.size(); k++) { Mpz c((long)P.dev.complain[k]); rbc->Broadcast(c); }
	{ Mpz e((long)n); rbc->Broadcast(e); }
	std::vector<size_t> from_me;
	for (size_t j = 0; j < n; j++) if (j != f) {
		for (size_t cnt = 0; cnt <= n; cnt++) {
			if (!rbc->DeliverFrom(tmp, j)) break;
			size_t who = mpz_get_ui(tmp);
			if (who >= n) break;
			if (who == f) from_me.push_back(j);
		}
	}
	if (P.dev.answer != "ignore") for (size_t k = 0; k < from_me.size(); k++) {
		size_t l = from_me[k];
		Mpz who((long)l), a(eval(P.pc, l + 1) + (P.dev.answer == "wrong" ? 1 : 0)), h(eval(P.ph, l + 1));
		rbc->Broadcast(who); rbc->Broadcast(a); rbc->Broadcast(h);
	}
	{ Mpz e((long)n); rbc->Broadcast(e); }
	for (size_t j = 0; j < n; j++) if (j != f) {
		for (size_t cnt = 0; cnt <= n; cnt++) {
			if (!rbc->DeliverFrom(tmp, j)) break;
			if (mpz_get_ui(tmp) >= n) break;
			if (!rbc->DeliverFrom(tmp, j) || !rbc->DeliverFrom(tmp2, j)) break;
		}
	}
	rbc->unsetID();
	if (P.dev.open != "none") {
		Mpz a(P.pc[0] + (P.dev.open == "wrong" ? 1 : 0)), h(P.ph[0]);
		rbc->Broadcast(a); rbc->Broadcast(h);
	}
	if (P.dev.reconw >= 0) {
		// the reconstruction phase of the share of party reconw: a share that fails the verification against its commitments
		std::ostringstream id;
		id << "JareckiLysyanskayaRVSS::Reconstruct()" << (mpz_srcptr)GP.v << (mpz_srcptr)GQ.v << (mpz_srcptr)GG.v << (mpz_srcptr)GH.v << n << t << "[" << P.dev.reconw << "]";
		rbc->setID(id.str());
		Mpz a(ra[(size_t)P.dev.reconw]), h(rh[(size_t)P.dev.reconw]); mpz_add_ui(a, a, 1); mpz_mod(a, a, GQ);
		rbc->Broadcast(a); rbc->Broadcast(h);
	}
	// keep the reliable broadcast of this party alive until the honest parties are through
	size_t l;
	while (!honest_done) rbc->Deliver(tmp, l, aiounicast::aio_scheduler_roundrobin, 0);
	(void)q;
}

static json dev_j(const Dev &d, size_t n) {
	json j; j["kind"] = d.kind;
	j["byz"] = (d.kind == "byz" || d.kind == "crash0");      // broadcasts the complaint list of its record (others complain as the protocol says)
	j["commit"] = d.commit; j["sd"] = d.sd; j["complain"] = d.complain; j["answer"] = d.answer; j["open"] = d.open;
	j["recon"] = (d.kind == "honest" || d.kind == "tamper"); j["checked"] = (d.kind == "honest" || d.kind == "tamper");
	(void)n; return j;
}
static Dev honest_dev(size_t n) { Dev d; d.kind = "honest"; d.commit = true; d.sd.assign(n, 0); d.answer = "true"; d.open = "true"; d.reconw = -1; return d; }

// one execution: parties with their deviations, seeded random schedule
static void run_np(size_t n, size_t t, size_t trbc, std::vector<Dev> devs, const json &src) {
	SEQ = 0; VNOW = 1000000000;
	NP w(n, t, trbc);
	long q = GQ.l();
	for (size_t i = 0; i < n; i++) {
		w.p[i]->dev = devs[i];
		if (devs[i].kind == "byz") for (size_t k = 0; k <= t; k++) { w.p[i]->pc.push_back((long)rnd(q)); w.p[i]->ph.push_back((long)rnd(q)); }
	}
	// start the threads (a party that is silent from the beginning has none)
	for (size_t i = 0; i < n; i++) if (devs[i].kind != "crash0") {
		w.p[i]->th = std::thread(&NP::body, &w, i); w.p[i]->started = true;
		w.run(i);
	}
	long guard = 0;
	for (;;) {
		std::vector<size_t> live, cand;
		bool hd = true;
		for (size_t i = 0; i < n; i++) if (w.p[i]->started && !w.p[i]->finished) {
			live.push_back(i);
			if (devs[i].kind != "byz") hd = false;
			if (!w.p[i]->fruitless) cand.push_back(i);
		}
		if (live.empty()) break;
		if (hd) w.honest_done = true;
		if (++guard > 4000000) { for (size_t k = 0; k < live.size(); k++) w.p[live[k]]->stop = true; json ev; ev["e"] = "Stuck"; w.evbuf.push_back(ev); }
		if (cand.empty()) { VNOW += 1; w.progress(); continue; }
		w.run(cand[rnd(cand.size())]);
	}
	for (size_t i = 0; i < n; i++) if (w.p[i]->started) w.p[i]->th.join();
	// the log: Reset first (polynomials and deviations are known only now), then the events in their order
	json ev; ev["e"] = "Reset"; ev["n"] = n; ev["t"] = t; ev["trbc"] = trbc; ev["grp"] = grp_j(); ev["src"] = src;
	json polys = json::array(), dj = json::array();
	for (size_t i = 0; i < n; i++) {
		NPParty &P = *w.p[i];
		Dev d = devs[i];
		json c = json::array(), h = json::array();
		if (d.kind == "byz") { c = P.pc; h = P.ph; }
		else if (d.kind == "crash0") { for (size_t k = 0; k <= t; k++) { c.push_back(0); h.push_back(0); } }
		else {
			if (P.qdraws.size() != 2 * (t + 1)) { json e2; e2["e"] = "BadDraws"; e2["i"] = i; e2["n"] = P.qdraws.size(); w.evbuf.push_back(e2); P.qdraws.resize(2 * (t + 1), 0); }
			for (size_t k = 0; k <= t; k++) { c.push_back(P.qdraws[2 * k]); h.push_back(P.qdraws[2 * k + 1]); }
		}
		if (d.kind == "lib") {      // the library's own deviating mode: which deviations it chose (its two coin tosses)
			int flip_r = P.wpar.size() > 0 ? P.wpar[0] : 0, share_r = P.wpar.size() > 1 ? P.wpar[1] : 0;
			(void)flip_r;
			d.sd.assign(n, share_r ? 1 : 0); d.sd[i] = 0; d.answer = share_r ? "wrong" : "true"; d.open = "wrong";
		}
		if (d.kind == "crash0") { d.commit = false; d.sd.assign(n, 2); d.sd[i] = 0; d.answer = "ignore"; d.open = "none"; }
		if (d.kind == "crashopen" || d.kind == "tampercrash") { d.open = "none"; }
		json pj; pj["c"] = c; pj["h"] = h; polys.push_back(pj);
		dj.push_back(dev_j(d, n));
	}
	ev["poly"] = polys; ev["dev"] = dj; ev["vclock"] = (long)(VNOW - 1000000000);
	emit(ev);
	for (size_t k = 0; k < w.evbuf.size(); k++) emit(w.evbuf[k]);
	if (getenv("VERIF_VERBOSE")) for (size_t i = 0; i < n; i++) fprintf(stderr, "--- P%zu\n%s\n", i, w.p[i]->err.str().c_str());
}

static int main_np(unsigned long seed, long execs, const char *outp, const char *filter) {
	std::ofstream out(outp); OUT = &out;
	long done = 0;
	for (long x = 0; done < execs && x < 100 * execs; x++) {
		seam::seed(seed * 7919UL + x); seam::seed_harness(seed * 1000003UL + x);
		// two of ten executions are all-honest (n = 2..7); the others have deviating parties (n = 4..7), the first of
		// which takes the deviation kinds in turn so that every kind occurs in every run
		bool allhonest = (x % 10 == 0) || (x % 10 == 5);
		size_t n = allhonest ? 2 + rnd(6) : 4 + rnd(4);
		size_t trbc = (n - 1) / 3, tmax = (n - 1) / 2;
		size_t t = (rnd(3) == 0) ? (allhonest ? rnd(tmax + 1) : 1 + rnd(tmax)) : trbc;
		size_t budget = std::min(t, trbc);                   // deviating parties tolerated by both layers
		std::vector<Dev> devs; for (size_t i = 0; i < n; i++) devs.push_back(honest_dev(n));
		std::string scen = "honest";
		size_t ndev = allhonest ? 0 : (budget >= 2 && rnd(2) ? 2 : 1);
		std::vector<size_t> who;
		while (who.size() < ndev) { size_t f = rnd(n); if (std::find(who.begin(), who.end(), f) == who.end()) who.push_back(f); }
		static unsigned long turn = 0;
		for (size_t k = 0; k < who.size(); k++) {
			size_t f = who[k]; Dev &d = devs[f];
			size_t l1 = (f + 1 + rnd(n - 1)) % n;              // some other party
			unsigned long c = (k == 0) ? (turn++ % 12) : rnd(12);
			std::string label;
			switch (c) {
				case 0: d.kind = "lib"; break;
				case 1: d.kind = "crash0"; break;
				case 2: d.kind = "crashopen"; break;
				case 3: {   // faulty private links from an honest party (at most t of them: it stays qualified; or more)
					d.kind = "tamper"; size_t m = 1 + rnd(t + 1);
					for (size_t c2 = 0; c2 < m; c2++) { size_t l = rnd(n); if (l != f) d.sd[l] = 1 + (int)rnd(2); }
					break; }
				case 4: d.kind = "tamper"; d.sd[l1] = 1; break;
				case 5: d.kind = "tampercrash"; d.sd[l1] = 1 + (int)rnd(2); break;   // ... that answers the complaint and then withholds its opening
				// designed deviations of a party that walks through the protocol
				case 6: d.kind = "byz"; label = "byz-wrongshare-ignore-wrongopen"; d.sd[l1] = 1; d.answer = "ignore"; d.open = "wrong"; break;
				case 7: d.kind = "byz"; label = "byz-noshare-ignore-noopen"; d.sd[l1] = 2; d.answer = "ignore"; d.open = "none"; break;
				case 8: d.kind = "byz"; label = "byz-wrongshare-answer-wrongopen"; d.sd[l1] = 1; d.answer = "true"; d.open = "wrong"; break;
				case 9: d.kind = "byz"; label = "byz-wrongshare-wronganswer"; d.sd[l1] = 1; d.answer = "wrong"; d.open = "true"; break;
				case 10: d.kind = "byz"; label = "byz-falsecomplaint-noopen"; d.complain.push_back(l1); d.open = "none"; break;
				default: {  // ... and deviates at will
					d.kind = "byz"; d.commit = rnd(8) != 0;
					size_t m = rnd(t + 2);
					for (size_t c2 = 0; c2 < m; c2++) { size_t l = rnd(n); if (l != f) d.sd[l] = 1 + (int)rnd(2); }
					if (rnd(3) == 0) { size_t l = rnd(n); if (l != f) d.complain.push_back(l); }
					static const char *A[] = {"true", "wrong", "ignore"}; static const char *O[] = {"true", "wrong", "none"};
					d.answer = A[rnd(3)]; d.open = O[rnd(3)];
					break; }
			}
			if (label.empty()) label = d.kind;
			scen = (k == 0 ? label : scen + "+" + label);
		}
		// a designed pair (t >= 2): one party opens a value that does not match its commitment, a second one with a low index
		// (so that it is among the first t+1 whose shares are collected) follows the protocol and then broadcasts a wrong share
		// in the reconstruction of the first one's share
		if (!allhonest && x % 10 == 7) {
			n = 5 + rnd(3); t = 2; trbc = (n - 1) / 3;
			devs.clear(); for (size_t i = 0; i < n; i++) devs.push_back(honest_dev(n));
			size_t b = rnd(2), a = 2 + rnd(n - 2);
			devs[a].kind = "byz"; devs[a].open = "wrong";
			devs[b].kind = "byz"; devs[b].reconw = (long)a;
			scen = "byz-wrongopen+byz-wrongrecon";
		}
		if (filter && *filter && scen.find(filter) == std::string::npos) continue;
		json src; src["seed"] = seed; src["k"] = x; src["scen"] = scen;
		run_np(n, t, trbc, devs, src);
		done++;
	}
	out.close();
	printf("{\"executions\":%ld,\"events\":%ld}\n", done, NEV);
	return 0;
}

int main(int argc, char **argv) {
	install_terminate("drv_coin");
	quiet_cerr();
	if (!init_libTMCG()) { fprintf(stderr, "init_libTMCG failed\n"); return 2; }
	seam::seed(1); seam::record(true);
	set_group(23, 11, 2, 3);
	if (argc >= 4 && !strcmp(argv[1], "hh")) return main_hh(argv[2], argv[3]);
	if (argc >= 5 && (!strcmp(argv[1], "hhrand") || !strcmp(argv[1], "adv"))) {
		if (argc >= 9) set_group(atol(argv[5]), atol(argv[6]), atol(argv[7]), atol(argv[8]));
		if (!strcmp(argv[1], "hhrand")) return main_hhrand(strtoul(argv[2], NULL, 10), atol(argv[3]), argv[4]);
		return main_adv(strtoul(argv[2], NULL, 10), atol(argv[3]), argv[4]);
	}
	if (argc >= 5 && !strcmp(argv[1], "np")) return main_np(strtoul(argv[2], NULL, 10), atol(argv[3]), argv[4], argc > 5 ? argv[5] : "");
	fprintf(stderr, "usage: drv_coin np <seed> <n> <trace> [filter] | hh <schedules> <trace> | hhrand <seed> <n> <trace> [p q g h] | adv <seed> <ncoins> <trace> [p q g h]\n");
	return 2;
}
