// drv_coin: the distributed coin flip JareckiLysyanskayaEDCF (src/JareckiLysyanskayaASTC.cc) in a tiny group.
//
// Two-party protocol Flip_twoparty: every party runs the real library code in its own thread on a stream pair
// owned by the harness.  The streambufs hand every read attempt and every written line to the scheduler (main
// thread) BEFORE it happens; exactly one thread is runnable at any time (baton), so the log has a total order
// with sequence numbers and "no opening is written before the peer's commitment has been read" is decidable
// from the log.  The peer is either the second real party (all schedules) or the harness playing an adversary
// (C05 catalogue on commitment and opening, withheld messages, adaptive peers).  One ndjson event per
// I/O operation / adversary move / return; spec/CoinTrace.tla must be able to consume the log.
//
//   drv_coin hh <schedules.ndjson> <trace-out>            schedules (from TLC, GEN_Coin_hh) replayed, direction A
//   drv_coin hhrand <seed> <n> <trace-out> [p q g h]      seeded random schedules and coins
//   drv_coin adv <seed> <ncoins> <trace-out> [p q g h]    adversarial peer: roles x catalogue x timing x coins
//   drv_coin np ...                                       n-party protocol, see below
#include "common.hh"
#include <thread>
#include <mutex>
#include <condition_variable>
#include <streambuf>
#include <deque>
#include <algorithm>
#include <functional>
#define private public
#define protected public
#include "libTMCG.hh"
#undef private
#undef protected
#include "memaio.hh"

static Mpz GP, GQ, GG, GH;
static size_t LQ = 0;                 // byte length of a tmcg_mpz_srandomm(., q) draw
static long SEQ = 0;                  // sequence number of the next event of the current execution
static std::ofstream *OUT = NULL;
static long NEV = 0;

static void set_group(long p, long q, long g, long h) {
	GP = Mpz(p); GQ = Mpz(q); GG = Mpz(g); GH = Mpz(h);
	LQ = (mpz_sizeinbase(GQ, 2) + 64 + 7) / 8;
}
static json grp_j() { json a = json::array(); a.push_back(GP.l()); a.push_back(GQ.l()); a.push_back(GG.l()); a.push_back(GH.l()); return a; }
static void emit(json &ev) { ev["seq"] = SEQ++; (*OUT) << ev.dump() << "\n"; NEV++; }

// a value on the wire as the spec sees it: sign and magnitude, sm = -1 too large for the model, sm = -2 not a number
static json num(mpz_srcptr v) {
	json n; Mpz a; mpz_abs(a, v);
	n["sg"] = mpz_sgn(v);
	n["sm"] = (mpz_sizeinbase(a, 2) <= 30) ? a.l() : -1;
	return n;
}
static json junk_j() { json n; n["sg"] = 0; n["sm"] = -2; return n; }
static std::string wire(mpz_srcptr v) { return mpz2s(v, TMCG_MPZ_IO_BASE); }     // one line of the protocol (without '\n')
static json line_j(const std::string &line) {     // decode a transmitted line (GMP, not the library's reader)
	Mpz v;
	if (line.empty() || mpz_set_str(v, line.c_str(), TMCG_MPZ_IO_BASE) != 0) return junk_j();
	return num(v);
}
static unsigned long rnd(unsigned long m) { return m ? (unsigned long)(seam::next64() % m) : 0; }

// the q-draws made since the last call (value reduced mod q, as tmcg_mpz_srandomm does)
static json take_coins() {
	json cs = json::array();
	std::vector<seam::Draw> &lg = seam::log();
	for (size_t k = 0; k < lg.size(); k++)
		if (lg[k].len == LQ) { Mpz v(lg[k].hex, 16); mpz_mod(v, v, GQ); cs.push_back(v.l()); }
	seam::clear_log();
	return cs;
}

// ---------------------------------------------------------------------------------------------------
// baton: exactly one runnable thread
struct Baton {
	std::mutex mu; std::condition_variable cv; int turn;
	Baton(): turn(-1) {}
	void pass(int to) { { std::lock_guard<std::mutex> g(mu); turn = to; } cv.notify_all(); }
	void wait(int me) { std::unique_lock<std::mutex> lk(mu); cv.wait(lk, [&] { return turn == me; }); }
};
static const int MAIN = -1;
struct HarnessStop {};                 // thrown into a library thread that has to be abandoned

// ---------------------------------------------------------------------------------------------------
// two-party world
struct Msg { std::string raw; };        // one line as transmitted
enum OpKind { OP_NONE, OP_WRITE, OP_READ, OP_DONE };
struct TwoParty;
class OutBuf : public std::streambuf {
	public:
		TwoParty *w; int i; std::string cur;
		OutBuf(TwoParty *w_in, int i_in): w(w_in), i(i_in) {}
	protected:
		virtual int_type overflow(int_type c) { if (c != traits_type::eof()) put((char)c); return traits_type::not_eof(c); }
		virtual std::streamsize xsputn(const char *s, std::streamsize n) { for (std::streamsize k = 0; k < n; k++) put(s[k]); return n; }
		void put(char c);
};
class InBuf : public std::streambuf {
	public:
		TwoParty *w; int i; std::string buf;
		InBuf(TwoParty *w_in, int i_in): w(w_in), i(i_in) {}
	protected:
		virtual int_type underflow();
};
struct TPParty {
	bool honest, started, finished, res, stop;
	OpKind op; std::string wline;               // pending operation
	std::string rline; bool reof;               // result of a granted read
	json coins;                                 // q-draws made before the pending operation
	std::deque<Msg> chan; bool closed;          // messages on their way to this party
	std::vector<std::string> written;           // lines this party has written (what an adversary has seen)
	std::string exc; Mpz coin;
	std::thread th;
	JareckiLysyanskayaEDCF *edcf;
	TPParty(): honest(false), started(false), finished(false), res(false), stop(false), op(OP_NONE), reof(false), closed(false), edcf(NULL) {}
};
struct TwoParty {
	Baton b; TPParty p[2];
	// ---- library side (runs in the party's thread)
	void announce(int i) {             // hand the pending operation to the scheduler and wait for the grant
		if (p[i].stop) { p[i].reof = true; return; }   // abandoned execution: run to the end on a dead stream
		b.pass(MAIN); b.wait(i);
	}
	void op_write(int i, const std::string &line) { p[i].op = OP_WRITE; p[i].wline = line; announce(i); }
	bool op_read(int i, std::string &line) {     // returns false at end of stream
		p[i].op = OP_READ; announce(i);
		if (p[i].reof) return false;
		line = p[i].rline; return true;
	}
	void body(int i) {
		b.wait(i);
		OutBuf ob(this, i); InBuf ib(this, i);
		std::ostream os(&ob); std::istream is(&ib);
		std::ostringstream err;
		try {
			if (!p[i].stop) p[i].res = p[i].edcf->Flip_twoparty((size_t)i, p[i].coin, is, os, err);
		} catch (HarnessStop &) { p[i].exc = "harness-stop"; }
		catch (std::exception &ex) { p[i].exc = std::string("exception: ") + ex.what(); }
		catch (...) { p[i].exc = "exception: unknown"; }
		p[i].op = OP_DONE; p[i].finished = true;
		b.pass(MAIN);
	}
	// ---- scheduler side (main thread)
	void create(int i, long a, long r) {          // a, r >= 0: dictate the two coins of party i
		p[i].honest = true;
		p[i].edcf = new JareckiLysyanskayaEDCF(2, 0, GP, GQ, GG, GH, mpz_sizeinbase(GP, 2), mpz_sizeinbase(GQ, 2));
		seam::clear_script(); seam::clear_log();
		if (a >= 0) { seam::push_be_ui(LQ, (unsigned long)a); seam::push_be_ui(LQ, (unsigned long)r); }
		p[i].th = std::thread(&TwoParty::body, this, i);
		p[i].started = true;
		run(i);                                     // up to its first operation (the coins are drawn before it)
		seam::clear_script();
	}
	void run(int i) {                               // let party i run until it announces its next operation
		seam::clear_log();
		b.pass(i); b.wait(MAIN);
		p[i].coins = take_coins();
	}
	bool enabled(int i) {
		if (!p[i].started || p[i].finished) return false;
		if (p[i].op == OP_WRITE) return true;
		if (p[i].op == OP_READ) return !p[i].chan.empty() || no_more(i);
		return false;
	}
	bool no_more(int i) { return p[i].closed || (p[1 - i].honest && p[1 - i].finished); }
	void step(int i) {                              // perform the pending operation of party i, log it, resume i
		json ev; ev["i"] = i; ev["coins"] = p[i].coins;
		if (p[i].op == OP_WRITE) {
			ev["e"] = "W"; ev["m"] = line_j(p[i].wline);
			p[i].written.push_back(p[i].wline);
			Msg m; m.raw = p[i].wline; p[1 - i].chan.push_back(m);
		} else {
			ev["e"] = "R";
			if (p[i].chan.empty()) { ev["eof"] = true; p[i].reof = true; }
			else { ev["eof"] = false; p[i].reof = false; p[i].rline = p[i].chan.front().raw; p[i].chan.pop_front(); ev["m"] = line_j(p[i].rline); }
		}
		emit(ev);
		run(i);
		if (p[i].finished) ret(i);
	}
	void ret(int i) {
		json ev; ev["e"] = "Ret"; ev["i"] = i; ev["res"] = p[i].res && p[i].exc.empty();
		ev["coin"] = (p[i].res && p[i].exc.empty()) ? p[i].coin.l() : -1;
		if (!p[i].exc.empty()) ev["exc"] = p[i].exc;
		ev["coins"] = p[i].coins;                   // draws after the last operation (none expected)
		emit(ev);
	}
	void adv_send(int to, const std::string &raw) {
		Msg m; m.raw = raw; p[to].chan.push_back(m);
		json ev; ev["e"] = "Adv"; ev["to"] = to; ev["m"] = line_j(raw); emit(ev);
	}
	void adv_close(int to) { p[to].closed = true; json ev; ev["e"] = "Close"; ev["to"] = to; emit(ev); }
	void teardown() {
		for (int i = 0; i < 2; i++) if (p[i].started) {
			if (!p[i].finished) { p[i].stop = true; p[i].reof = true; b.pass(i); b.wait(MAIN); }
			p[i].th.join();
			delete p[i].edcf;
		}
	}
};
void OutBuf::put(char c) { if (c == '\n') { std::string l = cur; cur.clear(); w->op_write(i, l); } else cur.push_back(c); }
std::streambuf::int_type InBuf::underflow() {
	if (gptr() < egptr()) return traits_type::to_int_type(*gptr());
	std::string line;
	if (!w->op_read(i, line)) return traits_type::eof();
	buf = line + "\n";
	setg(&buf[0], &buf[0], &buf[0] + buf.size());
	return traits_type::to_int_type(buf[0]);
}

static void reset_ev(const json &honest, const json &extra) {
	SEQ = 0;
	json ev; ev["e"] = "Reset"; ev["grp"] = grp_j(); ev["honest"] = honest;
	JareckiLysyanskayaEDCF probe(2, 0, GP, GQ, GG, GH, mpz_sizeinbase(GP, 2), mpz_sizeinbase(GQ, 2));
	ev["okgrp"] = probe.CheckGroup();
	for (json::const_iterator it = extra.begin(); it != extra.end(); ++it) ev[it.key()] = it.value();
	emit(ev);
}

// ---- two honest parties under a given schedule (sequence of party indices; afterwards: whoever is enabled)
static void run_hh(const std::vector<int> &sched, long a0, long r0, long a1, long r1, const json &extra, bool randomsched) {
	json hon = json::array(); hon.push_back(0); hon.push_back(1);
	reset_ev(hon, extra);
	TwoParty w;
	w.create(0, a0, r0); w.create(1, a1, r1);
	size_t k = 0; long guard = 0;
	while (guard++ < 1000) {
		bool e0 = w.enabled(0), e1 = w.enabled(1);
		if (!e0 && !e1) break;
		int i;
		if (k < sched.size()) { i = sched[k++]; if (!w.enabled(i)) { json ev; ev["e"] = "Stuck"; ev["i"] = i; emit(ev); break; } }
		else if (randomsched) i = (e0 && e1) ? (int)rnd(2) : (e0 ? 0 : 1);
		else i = e0 ? 0 : 1;
		w.step(i);
	}
	w.teardown();
}

// ---- adversarial peer
static const char *MUTS[] = {"none", "plus1", "otherres", "zero", "one", "pm1", "p", "q", "plusq", "minusq", "nonmember",
                             "neg", "oversized", "swap", "trunc", "junk", "empty", "mirror", "steer"};
static const int NMUTS = 19;
// the messages <<C', a', r'>> of a peer that follows the protocol with coins (b, s), then one deviation at `pos`.
// Items that depend on what the library has written are resolved when they are sent.
struct Item { std::string kind; Mpz v; std::string raw; };   // kind: num | raw | eof | mirror | steerA | fitR
static void commit(mpz_ptr c, mpz_srcptr a, mpz_srcptr r) {   // the adversary's own arithmetic (GMP)
	Mpz x, y; mpz_powm(x, GG, a, GP); mpz_powm(y, GH, r, GP); mpz_mul(c, x, y); mpz_mod(c, c, GP);
}
static bool build_script(std::vector<Item> &it, long b, long s, const std::string &m, size_t pos) {
	it.clear(); it.resize(3);
	Mpz B(b), S(s), C; commit(C, B, S);
	it[0].kind = it[1].kind = it[2].kind = "num"; it[0].v = C; it[1].v = B; it[2].v = S;
	Mpz &v = it[pos].v;
	if (m == "none") return pos == 0;
	else if (m == "plus1") mpz_add_ui(v, v, 1);
	else if (m == "otherres") mpz_add_ui(v, v, 3);
	else if (m == "zero") mpz_set_ui(v, 0);
	else if (m == "one") mpz_set_ui(v, 1);
	else if (m == "pm1") mpz_sub_ui(v, GP, 1);
	else if (m == "p") mpz_set(v, GP);
	else if (m == "q") mpz_set(v, GQ);
	else if (m == "plusq") mpz_add(v, v, GQ);
	else if (m == "minusq") mpz_sub(v, v, GQ);
	else if (m == "nonmember") { Mpz a(2), t; for (;;) { mpz_powm(t, a, GQ, GP); if (mpz_cmp_ui(t.v, 1) != 0) break; mpz_add_ui(a, a, 1); } mpz_set(v, a); }
	else if (m == "neg") mpz_neg(v, v);
	else if (m == "oversized") { mpz_set_ui(v, 1); mpz_mul_2exp(v, v, 300); mpz_add_ui(v, v, 5); }
	else if (m == "swap") { if (pos + 1 >= 3) return false; Mpz t = it[pos].v; it[pos].v = it[pos + 1].v; it[pos + 1].v = t; }
	else if (m == "trunc") { for (size_t k = pos; k < 3; k++) it[k].kind = "eof"; }
	else if (m == "junk") { it[pos].kind = "raw"; it[pos].raw = "!?"; }
	else if (m == "empty") { it[pos].kind = "raw"; it[pos].raw = ""; }
	else if (m == "mirror") { for (size_t k = pos; k < 3; k++) it[k].kind = "mirror"; }      // repeat what the library wrote
	else if (m == "steer") {    // try to force the outcome `b`: only possible once the library's share is known
		if (pos != 1) return false;
		it[1].kind = "steerA"; it[1].v = B; it[2].kind = "fitR";
	}
	else return false;
	return true;
}
static void run_adv(int role, long a, long r, long b, long s, const std::string &mut, size_t pos, int timing, const json &src) {
	std::vector<Item> it;
	if (!build_script(it, b, s, mut, pos)) return;
	json hon = json::array(); hon.push_back(role);
	json extra; extra["src"] = src; extra["mut"] = mut; extra["pos"] = pos; extra["timing"] = timing;
	json pc = json::array(); pc.push_back(b); pc.push_back(s); extra["peercoins"] = pc;
	reset_ev(hon, extra);
	TwoParty w;
	size_t next = 0;                        // next script item
	Mpz sentC, sentA;
	std::function<bool()> adaptive = [&]() { return it[next].kind == "mirror" || it[next].kind == "steerA" || it[next].kind == "fitR"; };
	std::function<void()> deliver = [&]() {        // the adversary's next move
		Item &x = it[next];
		if (x.kind == "eof") { w.adv_close(role); next = 3; return; }
		std::string raw;
		if (x.kind == "num") raw = wire(x.v);
		else if (x.kind == "raw") raw = x.raw;
		else if (x.kind == "mirror") raw = next < w.p[role].written.size() ? w.p[role].written[next] : std::string("0");
		else if (x.kind == "steerA") {       // a' = target - a (mod q), a = the share the library has revealed (if it has)
			Mpz al(0); if (w.p[role].written.size() >= 2) mpz_set_str(al, w.p[role].written[1].c_str(), TMCG_MPZ_IO_BASE);
			Mpz t; mpz_sub(t, x.v, al); mpz_mod(t, t, GQ); x.v = t; raw = wire(t);
		} else if (x.kind == "fitR") {       // r' with g^a' h^r' = C' (exhaustive search: the group is tiny)
			Mpz rr(0), c; bool found = false;
			for (long k = 0; k < GQ.l(); k++) { Mpz kk(k); commit(c, sentA, kk); if (mpz_cmp(c, sentC) == 0) { rr = kk; found = true; break; } }
			(void)found; raw = wire(rr);
		}
		Mpz dec; if (!raw.empty() && mpz_set_str(dec, raw.c_str(), TMCG_MPZ_IO_BASE) == 0) { if (next == 0) sentC = dec; if (next == 1) sentA = dec; }
		w.adv_send(role, raw);
		next++;
	};
	if (timing == 1) while (next < 3 && !adaptive()) deliver();             // everything before the library starts
	w.create(role, a, r);
	long guard = 0;
	while (!w.p[role].finished && guard++ < 100) {
		if (timing == 2 && w.p[role].written.size() >= 1) while (next < 3 && !adaptive()) deliver();   // right after its commitment
		if (w.enabled(role)) { w.step(role); continue; }
		// the library waits for input: the adversary moves (or closes when it has nothing left)
		if (next < 3) deliver(); else w.adv_close(role);
	}
	w.teardown();
}

static int main_hh(const char *in, const char *outp) {
	std::vector<json> sch = read_ndjson(in);
	std::ofstream out(outp); OUT = &out;
	for (size_t k = 0; k < sch.size(); k++) {
		const json &s = sch[k];
		set_group(s["grp"][0], s["grp"][1], s["grp"][2], s["grp"][3]);
		seam::seed(s.value("seed", 1UL) * 7919UL + k); seam::seed_harness(s.value("seed", 1UL) * 1000003UL + k);
		std::vector<int> sc = s["sched"].get<std::vector<int> >();
		long q = GQ.l();
		json extra; extra["src"] = "tlc"; extra["k"] = k;
		const json &c = s["coins"];
		if (c.is_array()) run_hh(sc, c[0][0], c[0][1], c[1][0], c[1][1], extra, false);
		else run_hh(sc, (long)rnd(q), (long)rnd(q), (long)rnd(q), (long)rnd(q), extra, false);
	}
	out.close();
	printf("{\"executions\":%zu,\"events\":%ld}\n", sch.size(), NEV);
	return 0;
}
static int main_hhrand(unsigned long seed, long n, const char *outp) {
	std::ofstream out(outp); OUT = &out;
	long q = GQ.l();
	for (long k = 0; k < n; k++) {
		seam::seed(seed * 7919UL + k); seam::seed_harness(seed * 1000003UL + k);
		json extra; extra["src"] = "random"; extra["seed"] = seed; extra["k"] = k;
		// all coin pairs in turn when n is large enough, random schedule
		long a0, r0, a1, r1;
		if (n >= q * q * q * q) { long x = k; a0 = x % q; x /= q; r0 = x % q; x /= q; a1 = x % q; x /= q; r1 = x % q; }
		else { a0 = rnd(q); r0 = rnd(q); a1 = rnd(q); r1 = rnd(q); }
		std::vector<int> none;
		run_hh(none, a0, r0, a1, r1, extra, true);
	}
	out.close();
	printf("{\"executions\":%ld,\"events\":%ld}\n", n, NEV);
	return 0;
}
static int main_adv(unsigned long seed, long ncoins, const char *outp) {
	std::ofstream out(outp); OUT = &out;
	long q = GQ.l(), nx = 0;
	bool all = ncoins >= q * q;
	for (int role = 0; role < 2; role++)
	for (int m = 0; m < NMUTS; m++)
	for (size_t pos = 0; pos < 3; pos++)
	for (int timing = 0; timing < 3; timing++)
	for (long c = 0; c < (all ? q * q : ncoins); c++) {
		seam::seed(seed * 7919UL + nx); seam::seed_harness(seed * 1000003UL + nx);
		long a = all ? c % q : (long)rnd(q), r = all ? c / q : (long)rnd(q);
		long b = rnd(q), s = rnd(q);
		if (c == 0) { b = 0; }                      // boundary shares on the peer's side as well
		if (c == 1) { b = q - 1; s = 0; }
		json src; src["seed"] = seed; src["k"] = nx;
		long before = NEV;
		run_adv(role, a, r, b, s, MUTS[m], pos, timing, src);
		if (NEV != before) nx++;
	}
	out.close();
	printf("{\"executions\":%ld,\"events\":%ld}\n", nx, NEV);
	return 0;
}

int main(int argc, char **argv) {
	install_terminate("drv_coin");
	quiet_cerr();
	if (!init_libTMCG()) { fprintf(stderr, "init_libTMCG failed\n"); return 2; }
	seam::seed(1); seam::record(true);
	set_group(23, 11, 2, 3);
	if (argc >= 4 && !strcmp(argv[1], "hh")) return main_hh(argv[2], argv[3]);
	if (argc >= 5 && (!strcmp(argv[1], "hhrand") || !strcmp(argv[1], "adv"))) {
		if (argc >= 9) set_group(atol(argv[5]), atol(argv[6]), atol(argv[7]), atol(argv[8]));
		if (!strcmp(argv[1], "hhrand")) return main_hhrand(strtoul(argv[2], NULL, 10), atol(argv[3]), argv[4]);
		return main_adv(strtoul(argv[2], NULL, 10), atol(argv[3]), argv[4]);
	}
	fprintf(stderr, "usage: drv_coin hh <schedules> <trace> | hhrand <seed> <n> <trace> [p q g h] | adv <seed> <ncoins> <trace> [p q g h]\n");
	return 2;
}
