----------------------------- MODULE MC_Group -----------------------------
(* Bounded instance of Group.tla for TLC.                                   *)
(*                                                                          *)
(* State machine: pick a block (variant, p) of the box, pick a parameter    *)
(* set of that block which is well-formed, then corrupt exactly one field   *)
(* to any value of that field's range.  In every state TLC evaluates the    *)
(* theorems (acceptance means a prime-order subgroup with generators of     *)
(* exactly that order; WFv is the complement of the property's defect list; *)
(* the block-wise accepting set is the set the definition gives), and       *)
(* prints what the harness needs: the accepting set of every block and, per *)
(* well-formed set, the accepted values in each field's neighbourhood.      *)
EXTENDS Group

CONSTANTS MaxP, MaxQ, MaxK,   \* box: p in 0..MaxP, q in 0..MaxQ, k in 0..MaxK
          Margin,             \* generators and elements range over -Margin .. p+Margin
          Variants,           \* set of variants [fam, F, G, E, le, canon, n]
          NaiveMaxP,          \* blocks with p <= NaiveMaxP of the variants in NaiveVariants are also computed by filtering the whole block
          NaiveVariants,
          AccMaxP,            \* accepting sets are printed for the blocks p <= AccMaxP (the box the harness enumerates)
          NbrMaxP, NbrVariants, \* well-formed sets with p <= NbrMaxP of these variants get their neighbourhoods explored
          Mode,               \* "acc": blocks only;  "nbr": + neighbourhoods;  "needs": oracle strings only;  "elem": member sets
          CheckArith,         \* evaluate the arithmetic agreement theorem at start-up (once per run is enough)
          SortedBases         \* TRUE: of the well-formed sets that differ only in the order of their generators, one is picked

VARIABLES stage, v, ps, fld
vars == <<stage, v, ps, fld>>

V(fam, F, G, E, le, canon, n) == [fam |-> fam, F |-> F, G |-> G, E |-> E, le |-> le, canon |-> canon, n |-> n]

GRange(p) == (0 - Margin)..(p + Margin)
QK(p) == {qk \in (0..MaxQ) \X (0..MaxK) : p = qk[2] * qk[1] + 1}        \* (only these can satisfy the relation)

\* accepted tuples of the block (variant w, prime p), built generator by generator
GoodGen(p, q) == {x \in GRange(p) : GenOK(p, q, x)}
RECURSIVE DistinctSeqs(_, _)
DistinctSeqs(S, n) == IF n = 0 THEN {<<>>}
                      ELSE {Append(s, x) : s \in DistinctSeqs(S, n - 1), x \in S}
AccBlock(w, p) ==
  CASE w.fam = "dlog" ->
         UNION {{<<p, qk[1], qk[2], g>> : g \in {x \in GoodGen(p, qk[1]) : w.canon => IsCanon(p, qk[1], x)}}
                : qk \in {y \in QK(p) : Struct(w.F, w.G, p, y[1], y[2])}}
    [] w.fam = "qr" ->
         UNION {{<<p, q, g>> : g \in {x \in GRange(p) : WellQR(w.F, w.E, p, q, x)}}
                : q \in {y \in 0..MaxQ : p = 2 * y + 1}}
    [] w.fam = "com" ->
         UNION {{<<p, qk[1], qk[2]>> \o s : s \in {z \in DistinctSeqs(GoodGen(p, qk[1]), w.n + 1) : Distinct(z)}}
                : qk \in {y \in QK(p) : Struct(w.F, w.G, p, y[1], y[2]) /\
                                         (w.le > 0 => (Bits(y[1]) >= w.le /\ Bits(y[1]) >= 2 * w.le))}}
    [] w.fam = "pqgh" ->
         UNION {{<<p, q, g, h>> : g \in {x \in GoodGen(p, q) : w.canon => IsCanon(p, q, x)},
                                  h \in GoodGen(p, q)} \ {<<p, q, x, x>> : x \in GoodGen(p, q)}
                : q \in {y \in 1..MaxQ : StructD(w.F, w.G, p, y)}}
    [] w.fam = "pqg" ->
         UNION {{<<p, q, g>> : g \in GoodGen(p, q)} : q \in {y \in 1..MaxQ : StructD(w.F, w.G, p, y)}}

\* the same set straight from the definition: filter the whole block
RECURSIVE GenTuples(_, _)
GenTuples(p, n) == IF n = 0 THEN {<<>>} ELSE {Append(s, x) : s \in GenTuples(p, n - 1), x \in GRange(p)}
BoxBlock(w, p) ==
  CASE w.fam = "dlog" -> {<<p, q, k, g>> : q \in 0..MaxQ, k \in 0..MaxK, g \in GRange(p)}
    [] w.fam = "qr"   -> {<<p, q, g>> : q \in 0..MaxQ, g \in GRange(p)}
    [] w.fam = "com"  -> {<<p, qk[1], qk[2]>> \o s : qk \in (0..MaxQ) \X (0..MaxK), s \in GenTuples(p, w.n + 1)}
    [] w.fam = "pqgh" -> {<<p, q, g, h>> : q \in 0..MaxQ, g \in GRange(p), h \in GRange(p)}
    [] w.fam = "pqg"  -> {<<p, q, g>> : q \in 0..MaxQ, g \in GRange(p)}
NaiveBlock(w, p) == {t \in BoxBlock(w, p) : WFv(w, t)}

\* range of field f of the set t when it alone is corrupted
\* (the whole range of the box, plus the negated value and, for generators, the congruent values outside 0..p-1)
FieldRange(w, t, f) ==
  IF f = 1 THEN 0..MaxP \cup {0 - t[1]}
  ELSE IF f = 2 THEN 0..MaxQ \cup {0 - t[2]}
  ELSE IF f = 3 /\ w.fam \in {"dlog", "com"} THEN 0..MaxK \cup {0 - t[3]}
  ELSE GRange(t[1]) \cup {0 - t[f], t[f] - t[1], t[f] + t[1]}
NbrAcc(w, t, f) == {x \in FieldRange(w, t, f) : WFv(w, [t EXCEPT ![f] = x])}

\* classes with a CheckElement(): all test a^q = 1 (mod p), 0 < a < p; the QR class tests the Jacobi symbol
ElemClasses == {"dlog", "eotp", "vrhe", "pubrotzk", "pvss", "gjkr_dkg", "cg_rvss", "cg_zvss", "cg_dkg", "cg_dss", "jl_rvss"}

\* a candidate is passed over only when it is 0, 1 or p-1 (W^k has order 1 or q otherwise): the strings that can follow u
RECURSIVE Continuations(_, _, _)
Continuations(u, p, depth) ==
  IF depth = 0 THEN {u}
  ELSE {u} \cup UNION {Continuations(u \o B62(c) \o "|", p, depth - 1) : c \in {0, 1, p - 1}}

\* oracle strings still missing for the canonical generators of this block
NeedsOf(w, p) ==
  IF ~(w.fam \in {"dlog", "pqgh"} /\ w.canon) THEN {}
  ELSE {c \in {Canon(p, q) : q \in {y \in 1..MaxQ : StructD(1, 1, p, y) /\ GoodGen(p, y) # {}}} : c.st # "ok"}

---------------------------------------------------------------------------
Init == /\ stage = "block" /\ v \in Variants /\ ps \in {<<p>> : p \in 0..MaxP} /\ fld = 0

\* WFv of "com" (and of "pqgh" without the verifiable generator) is symmetric in the generators
Increasing(s) == \A i \in 1..(Len(s) - 1) : s[i] < s[i + 1]
Representative(w, t) == (SortedBases /\ (w.fam = "com" \/ (w.fam = "pqgh" /\ ~w.canon))) => Increasing(GensOf(w, t))
PickValid == /\ stage = "block" /\ Mode = "nbr" /\ ps[1] <= NbrMaxP /\ v \in NbrVariants
             /\ ps' \in {t \in AccBlock(v, ps[1]) : Representative(v, t)}
             /\ stage' = "valid" /\ UNCHANGED <<v, fld>>
Corrupt == /\ stage = "valid"
           /\ \E f \in 1..NFields(v) : \E x \in FieldRange(v, ps, f) \ {ps[f]} :
                 ps' = [ps EXCEPT ![f] = x] /\ fld' = f
           /\ stage' = "corrupt" /\ UNCHANGED v
Next == PickValid \/ Corrupt
Spec == Init /\ [][Next]_vars

---------------------------------------------------------------------------
(* theorems evaluated in every state                                        *)
\* the block-wise construction is the definition
BlockIsDefinition == (stage = "block" /\ Mode \in {"acc", "nbr"} /\ ps[1] <= NaiveMaxP /\ v \in NaiveVariants) =>
                        AccBlock(v, ps[1]) = NaiveBlock(v, ps[1])
\* (for every block: what was built is well-formed and lies in the box)
InBox(w, t) == /\ Len(t) = NFields(w) /\ t[2] \in 0..MaxQ
               /\ \A f \in 3..Len(t) : IF f = 3 /\ w.fam \in {"dlog", "com"} THEN t[f] \in 0..MaxK ELSE t[f] \in GRange(t[1])
BlockSound == (stage = "block" /\ Mode \in {"acc", "nbr"}) => \A t \in AccBlock(v, ps[1]) : t[1] = ps[1] /\ WFv(v, t) /\ InBox(v, t)
\* acceptance means what it should
Sound == (stage # "block" /\ WFv(v, ps)) => MathOK(v, ps)
\* WFv is exactly the complement of the property's defect list
Complete == stage # "block" => (WFv(v, ps) <=> ~Defect(v, ps))
\* a picked set is well-formed, a corrupted one differs from a well-formed one in one field
Shape == /\ stage = "valid" => WFv(v, ps)
         /\ stage = "corrupt" => fld \in 1..NFields(v)
\* element checks: Member is membership in the subgroup generated by any accepted generator
Elements == (stage = "valid") =>
              LET S == Powers(GensOf(v, ps)[1], ps[2], ps[1]) IN
              \A a \in GRange(ps[1]) : (Member(ps[1], ps[2], a) <=> a \in S) /\
                                       (v.fam = "qr" => (MemberQR(ps[1], a) <=> a \in S))

(* output for the harness                                                   *)
Emit ==
  /\ (stage = "block" /\ Mode \in {"acc", "nbr"} /\ ps[1] <= AccMaxP) =>
        PrintT(ToJson([kind |-> "acc", v |-> v, classes |-> ClassesOf(v), p |-> ps[1],
                       box |-> [maxq |-> MaxQ, maxk |-> MaxK, margin |-> Margin],
                       acc |-> AccBlock(v, ps[1])]))
  /\ (stage = "block" /\ Mode \in {"acc", "nbr"}) =>
        \A c \in NeedsOf(v, ps[1]) : \A u \in Continuations(c.u, c.m, 3) : PrintT(ToJson([kind |-> "need", u |-> u, m |-> c.m, st |-> c.st]))
  /\ (stage = "block" /\ Mode = "needs") =>
        \A c \in NeedsOf(v, ps[1]) : \A u \in Continuations(c.u, c.m, 2) : PrintT(ToJson([kind |-> "need", u |-> u, m |-> c.m, st |-> c.st]))
  /\ (stage = "block" /\ Mode = "elem" /\ ps[1] >= 1) =>
        /\ \A q \in 0..MaxQ :
              PrintT(ToJson([kind |-> "elem", classes |-> ElemClasses, p |-> ps[1], q |-> q, lo |-> 0 - Margin, hi |-> ps[1] + Margin,
                             mem |-> {a \in GRange(ps[1]) : Member(ps[1], q, a)}]))
        /\ \A q \in {y \in 1..MaxQ : ps[1] = 2 * y + 1 /\ IsPrime(y) /\ IsPrime(ps[1]) /\ ps[1] % 8 = 7} :
              PrintT(ToJson([kind |-> "elem", classes |-> {"qr"}, p |-> ps[1], q |-> q, lo |-> 0 - Margin, hi |-> ps[1] + Margin,
                             mem |-> {a \in GRange(ps[1]) : MemberQR(ps[1], a)}]))
  /\ (stage = "valid") =>
        PrintT(ToJson([kind |-> "nbr", v |-> v, classes |-> ClassesOf(v), base |-> ps,
                       vals |-> [f \in 1..NFields(v) |-> FieldRange(v, ps, f)],
                       acc |-> [f \in 1..NFields(v) |-> NbrAcc(v, ps, f)]]))

---------------------------------------------------------------------------
(* agreement of the defining and the evaluated arithmetic                   *)
ArithOK ==
  /\ \A n \in 0..300 : IsPrime(n) = IsPrimeDef(n)
  /\ \A n \in 1..400 : Bits(n) = (CHOOSE b \in 1..10 : 2^(b - 1) <= n /\ n < 2^b)
  /\ Bits(0) = 0
  /\ \A m \in 1..14, a \in (0 - 3)..16, e \in 0..13 : PowM(a, e, m) = PowDef(a, e, m)
  /\ \A a \in 0..40, b \in 0..40 : Gcd(a, b) = GcdDef(a, b)
  /\ \A n \in {46301, 46307, 46327, 46337, 46339, 46340} : IsPrime(n) = IsPrimeDef(n)
  /\ B62(0) = "0" /\ B62(23) = "N" /\ B62(61) = "z" /\ B62(62) = "10" /\ B62(2063) = "XH"
ASSUME CheckArith => ArithOK
=============================================================================
