------------------------------- MODULE PGPMsg -------------------------------
(* OpenPGP signatures and encryption are tamper-evident (property C20).     *)
(* Written from RFC 4880 (5.1, 5.2, 5.7, 5.13, 5.14, 13.6, 13.9), RFC 6637   *)
(* and draft rfc4880bis (v5 signatures, AEAD Encrypted Data packet 5.16) and *)
(* from the property text - not from the C++.                               *)
(*                                                                          *)
(* The model is SYMBOLIC: hash functions, signature schemes, block ciphers  *)
(* and AEAD modes are ideal constructors (injective records), so "a digest  *)
(* matches" means "it was computed over the same input".  What the module   *)
(* fixes is                                                                  *)
(*   1. the validity rules of a signature (expiry, older than its key,      *)
(*      dated in the far future, weak hash) as arithmetic on times,         *)
(*   2. which octets of a signature packet, a key packet and the signed     *)
(*      object enter the hash / the value / the key (field classes with the *)
(*      layout of 5.2.3 and 5.5.2 as a region grammar), and from that the   *)
(*      verdict of the verification procedure for every tampered class,     *)
(*   3. the structure of integrity protected data: SEIPD = CFB(prefix ||    *)
(*      repeat || data || D3 14 || SHA-1(all of the preceding)), AEAD =     *)
(*      chunks sealed under nonce = IV xor index, additional data = header  *)
(*      || index, a final tag over header || #chunks || #octets, and the    *)
(*      verdict of decryption for every tampered class / reordering /       *)
(*      truncation / splice; data without integrity protection is refused,  *)
(*   4. the concrete AEAD schedule (chunk boundaries, nonces, additional    *)
(*      data) as octet strings, for the validation of recorded cipher calls.*)
EXTENDS PGPFrame

-----------------------------------------------------------------------------
(* 1. Signature validity.  c = creation time, e = expiration subpacket      *)
(* (seconds after creation, 0 = never, 5.2.3.10), k = creation time of the  *)
(* signing key, now = current time, h = hash algorithm id.                  *)
FutureSlack == 90000                       \* 25 hours of tolerated clock skew (the library's documented threshold)
WeakHashes == {1, 2, 3}                    \* MD5, SHA-1, RIPEMD-160
StrongHashes == {8, 9, 10, 12, 14}         \* SHA2-256/384/512, SHA3-256/512
PolicyHashes == {11}                       \* SHA2-224: not broken, below 128-bit strength; left to the implementation
KnownHashes == WeakHashes \cup StrongHashes \cup PolicyHashes
HashOctets(h) == CASE h = 1 -> 16 [] h \in {2, 3} -> 20 [] h = 11 -> 28 [] h \in {8, 12} -> 32 [] h = 9 -> 48
                   [] h \in {10, 14} -> 64 [] OTHER -> 0

Expired(c, e, now) == e # 0 /\ now > c + e
ExpiryEdge(c, e, now) == e # 0 /\ now = c + e   \* "the number of seconds after the creation time that the signature
                                                \* expires": the instant itself can be read either way
OlderThanKey(c, k) == c < k
FarFuture(c, now) == c > now + FutureSlack
Invalid(c, e, k, now, h) ==
  Expired(c, e, now) \/ OlderThanKey(c, k) \/ FarFuture(c, now) \/ h \notin (StrongHashes \cup PolicyHashes)
Validity(c, e, k, now, h) ==
  IF Invalid(c, e, k, now, h) THEN "invalid"
  ELSE IF ExpiryEdge(c, e, now) \/ h \in PolicyHashes THEN "any" ELSE "valid"
ExpiredFlag(c, e, now) == IF Expired(c, e, now) THEN "yes" ELSE IF ExpiryEdge(c, e, now) THEN "any" ELSE "no"

-----------------------------------------------------------------------------
(* 2. Signatures.  Layout of a v4/v5 signature packet (5.2.3) and of a v4   *)
(* public key packet (5.5.2) as region grammars.  An item is                 *)
(*   [k |-> "hdr"]                      packet tag and length octets         *)
(*   [k |-> "fix", c, n]                n octets of class c                  *)
(*   [k |-> "len2"/"len1", c, v]        a 2/1-octet count of class c, stored as variable v *)
(*   [k |-> "var", c, v]                v octets of class c                  *)
(*   [k |-> "mpi", c, d]                an MPI: 2 octets bit count (class c), ceil(bits/8) octets (class d) *)
Hdr == [k |-> "hdr", c |-> "hdr", n |-> 0, v |-> ""]
Fix(c, n) == [k |-> "fix", c |-> c, n |-> n, v |-> ""]
Len2(c, v) == [k |-> "len2", c |-> c, n |-> 2, v |-> v]
Len1(c, v) == [k |-> "len1", c |-> c, n |-> 1, v |-> v]
Var(c, v) == [k |-> "var", c |-> c, n |-> 0, v |-> v]
Mpi(c, d) == [k |-> "mpi", c |-> c, n |-> 0, v |-> d]

PkRSA == 1  PkELG == 16  PkDSA == 17  PkECDH == 18  PkECDSA == 19  PkEDDSA == 22
SigPkAlgos == {PkRSA, PkDSA, PkECDSA, PkEDDSA}
NSigMPI(pk) == IF pk = PkRSA THEN 1 ELSE 2                 \* RSA: m^d; DSA, ECDSA, EdDSA: r, s
SigGrammar(pk) ==
  <<Hdr, Fix("version", 1), Fix("type", 1), Fix("pkalgo", 1), Fix("hashalgo", 1),
    Len2("hlen", "H"), Var("hashed", "H"), Len2("ulen", "U"), Var("unhashed", "U"), Fix("left", 2)>>
  \o Tup([i \in 1..NSigMPI(pk) |-> Mpi("mpihdr", "mpival")])
NKeyMPI(pk) == CASE pk = PkRSA -> 2 [] pk = PkDSA -> 4 [] pk = PkELG -> 3 [] OTHER -> 1
KeyGrammar(pk) ==
  <<Hdr, Fix("kversion", 1), Fix("ktime", 4), Fix("kalgo", 1)>>
  \o (IF pk \in {PkECDSA, PkEDDSA, PkECDH} THEN <<Len1("koidlen", "O"), Var("koid", "O")>> ELSE <<>>)
  \o Tup([i \in 1..NKeyMPI(pk) |-> Mpi("kmpihdr", "kmpival")])
  \o (IF pk = PkECDH THEN <<Fix("kkdf", 4)>> ELSE <<>>)
ClassesOf(g) == {g[i].c : i \in 1..Len(g)} \cup {g[i].v : i \in {j \in 1..Len(g) : g[j].k = "mpi"}}

SigClasses == ClassesOf(SigGrammar(PkRSA))
HashedSigClasses == {"version", "type", "pkalgo", "hashalgo", "hlen", "hashed"}  \* 5.2.4: from the version number
                                                                                \* through the hashed subpacket data
(* classes for which the property makes no claim: the unhashed area (and its count), and the bit count of an *)
(* MPI (an encoding of the same integer)                                                                       *)
UnclaimedSig == {"ulen", "unhashed", "mpihdr"}
UnclaimedKeyVerify == {"kmpihdr"}
CheckLeft16 == TRUE      \* 5.2.3 "left 16 bits of the signed hash value", a quick check the library documents to make

SigKinds == {"binary", "text", "alone", "key", "subkey", "certuid", "certuat"}
ObjParts(kind) == CASE kind \in {"binary", "text"} -> {"data"}
                    [] kind = "alone" -> {}
                    [] kind = "key" -> {}
                    [] kind = "subkey" -> {"subbody"}
                    [] kind = "certuid" -> {"uid"}
                    [] kind = "certuat" -> {"uat"}
HashesKeyBody(kind) == kind \in {"key", "subkey", "certuid", "certuat"}   \* 5.2.4: key signatures hash the key packet body
KindTypes(kind) == CASE kind = "binary" -> <<0>> [] kind = "text" -> <<1>> [] kind = "alone" -> <<2, 64>>
                     [] kind = "key" -> <<31, 32>> [] kind = "subkey" -> <<24, 40>>
                     [] kind \in {"certuid", "certuat"} -> <<16, 17, 18, 19, 48>>
(* 13.6 / FIPS 186: a DSA signature uses a hash at least as long as q (truncated to its leftmost bits) *)
Emittable(pk, h, qbits) == h \in KnownHashes /\ (pk = PkDSA => 8 * HashOctets(h) >= qbits)

Orig(f) == [fn |-> "F", f |-> f, s |-> "orig"]            \* the octets of class f as they were made
Alt(f) == [fn |-> "F", f |-> f, s |-> "alt"]              \* ... altered
Digest(h, x) == [fn |-> "H", h |-> h, x |-> x]              \* ideal hash: equal digests <=> equal inputs
SigValue(pub, d) == [fn |-> "S", pub |-> pub, d |-> d]      \* ideal signature: verifies only for this key and digest
Left16Of(d) == [fn |-> "L", d |-> d]

KeyBodyClasses(pk) == ClassesOf(KeyGrammar(pk)) \ {"hdr"}
KeyValueClasses(pk) == KeyBodyClasses(pk) \ {"kversion", "ktime", "kalgo", "kmpihdr", "koidlen", "kkdf"}   \* the key itself: integers, curve
KeyBody(pk, key) == [f \in KeyBodyClasses(pk) |-> key[f]]
PubOf(pk, key) == [f \in KeyValueClasses(pk) |-> key[f]]
Fingerprint(pk, key) == Digest("fpr", KeyBody(pk, key))       \* 12.2: hash of the whole key packet body
HashInputOf(kind, pk, w) ==
  [kind |-> kind,
   key |-> IF HashesKeyBody(kind) THEN KeyBody(pk, w.key) ELSE <<>>,
   obj |-> [p \in ObjParts(kind) |-> w.obj[p]],
   hashed |-> [f \in HashedSigClasses |-> w.sig[f]]]
(* the untouched world: a signature made with the key over the object; the issuer fingerprint subpacket is part *)
(* of the hashed area                                                                                              *)
Key0(pk) == [f \in ClassesOf(KeyGrammar(pk)) |-> Orig(f)]
World0(kind, pk) ==
  LET key == Key0(pk)
      obj == [p \in ObjParts(kind) |-> Orig(p)]
      s0 == [f \in SigClasses |-> Orig(f)]
      d == Digest(Orig("hashalgo"), HashInputOf(kind, pk, [sig |-> s0, obj |-> obj, key |-> key]))
  IN [sig |-> [s0 EXCEPT !["left"] = Left16Of(d), !["mpival"] = SigValue(PubOf(pk, key), d)],
      obj |-> obj, key |-> key]
IssuerOf(kind, pk, w) == IF w.sig["hashed"] = Orig("hashed") THEN Fingerprint(pk, Key0(pk)) ELSE Alt("issuer")
Parseable(w) == w.sig["hdr"] = Orig("hdr") /\ w.key["hdr"] = Orig("hdr")
MatchC(kind, pk, w) == IssuerOf(kind, pk, w) = Fingerprint(pk, w.key)
VerifyC(kind, pk, w) ==
  LET d == Digest(w.sig["hashalgo"], HashInputOf(kind, pk, w)) IN
  /\ (CheckLeft16 => w.sig["left"] = Left16Of(d))
  /\ w.sig["mpival"] = SigValue(PubOf(pk, w.key), d)
Accept(kind, pk, w) == Parseable(w) /\ MatchC(kind, pk, w) /\ VerifyC(kind, pk, w)
(* tampering: the octets of one class are altered *)
TamperSig(w, f) == [w EXCEPT !.sig[f] = Alt(f)]
TamperKey(w, f) == [w EXCEPT !.key[f] = Alt(f)]
TamperObj(w, p) == [w EXCEPT !.obj[p] = Alt(p)]
Verdict(b) == IF b THEN "accept" ELSE "refuse"
SigTable(kind, pk) ==
  LET w == World0(kind, pk) IN
  [sig |-> [f \in SigClasses |-> IF f \in UnclaimedSig THEN "any" ELSE Verdict(Accept(kind, pk, TamperSig(w, f)))],
   key |-> [f \in ClassesOf(KeyGrammar(pk)) |-> Verdict(Accept(kind, pk, TamperKey(w, f)))],
   keyverify |-> [f \in ClassesOf(KeyGrammar(pk)) |->
                    IF f \in UnclaimedKeyVerify \/ f = "hdr" THEN "any"
                    ELSE IF VerifyC(kind, pk, TamperKey(w, f)) THEN "any" ELSE "refuse"],
   obj |-> [p \in ObjParts(kind) |-> Verdict(Accept(kind, pk, TamperObj(w, p)))]]
(* theorems of the signature model *)
ThmSig(kind, pk) ==
  LET w == World0(kind, pk) IN
  /\ Accept(kind, pk, w)
  /\ \A f \in SigClasses \ UnclaimedSig : ~Accept(kind, pk, TamperSig(w, f))
  /\ \A f \in UnclaimedSig : Accept(kind, pk, TamperSig(w, f))            \* nothing in the model binds them
  /\ \A f \in ClassesOf(KeyGrammar(pk)) : ~Accept(kind, pk, TamperKey(w, f))
  /\ \A f \in KeyValueClasses(pk) : ~VerifyC(kind, pk, TamperKey(w, f))
  /\ (HashesKeyBody(kind) => \A f \in KeyBodyClasses(pk) : ~VerifyC(kind, pk, TamperKey(w, f)))
  /\ \A p \in ObjParts(kind) : ~Accept(kind, pk, TamperObj(w, p))
(* a canonical text document is signed through its canonical form: two texts verify under the same signature *)
(* exactly when their canonical forms agree (5.2.1 type 0x01, 5.2.4)                                          *)
SameText(d1, d2) == CanonText(d1) = CanonText(d2)

-----------------------------------------------------------------------------
(* 3. Encryption.  Ciphers of 9.2 / RFC 5581: key length and block length in octets. *)
CipherIds == {1, 2, 3, 4, 7, 8, 9, 10, 11, 12, 13}
KeyOctets(sk) == CASE sk \in {1, 3, 4, 7, 11} -> 16 [] sk \in {2, 8, 12} -> 24 [] sk \in {9, 10, 13} -> 32 [] OTHER -> 0
BlockOctets(sk) == CASE sk \in {1, 2, 3, 4} -> 8 [] sk \in {7, 8, 9, 10, 11, 12, 13} -> 16 [] OTHER -> 0
AeadCiphers == {sk \in CipherIds : BlockOctets(sk) = 16}
AeadEAX == 1  AeadOCB == 2
IVOctets(aead) == IF aead = AeadEAX THEN 16 ELSE 15
TagOctets == 16
(* 5.1: session key material = algorithm octet || key || two-octet sum of the key octets mod 65536 *)
SessionKey(sk, key) == <<sk>> \o key \o BE(SumOctets(key), 2)
SessionKeyOk(m) == /\ Len(m) >= 3
                   /\ KeyOctets(m[1]) = Len(m) - 3
                   /\ BE(SumOctets(SubSeq(m, 2, Len(m) - 2)), 2) = SubSeq(m, Len(m) - 1, Len(m))

(* 5.13: SEIPD packet = version 1 || CFB( random block || its last two octets again || plaintext || D3 14 || *)
(* SHA-1(random block || repeat || plaintext || D3 14) )                                                       *)
SeipdGrammar(sk, n) ==
  <<Hdr, Fix("version", 1), Fix("prefix", BlockOctets(sk)), Fix("repeat", 2), Fix("data", n), Fix("mdchdr", 2), Fix("mdc", 20)>>
SedGrammar(sk, n) == <<Hdr, Fix("prefix", BlockOctets(sk)), Fix("repeat", 2), Fix("data", n)>>
SeipdClasses == ClassesOf(SeipdGrammar(9, 1)) \ {"hdr", "version"}
(* symbolic: the decrypted stream, class by class; CFB turns a changed ciphertext octet into a changed plaintext *)
(* octet of the same class                                                                                         *)
Seipd0 ==
  LET p == [f \in {"prefix", "repeat", "data", "mdchdr"} |-> Orig(f)] IN
  [hdr |-> Orig("hdr"), version |-> Orig("version"), kind |-> "seipd",
   pt |-> [f \in SeipdClasses |-> IF f = "mdc" THEN Digest(2, p) ELSE p[f]]]
SeipdAccept(m) ==
  /\ m.hdr = Orig("hdr") /\ m.version = Orig("version")
  /\ m.kind = "seipd"                                   \* 5.7 data (no MDC) is refused, whatever it decrypts to
  /\ m.pt["repeat"] = Orig("repeat")                    \* the two repeated octets identify the session key
  /\ m.pt["mdchdr"] = Orig("mdchdr")
  /\ m.pt["mdc"] = Digest(2, [f \in {"prefix", "repeat", "data", "mdchdr"} |-> m.pt[f]])
SeipdTamper(m, f) == IF f \in {"hdr", "version"} THEN [m EXCEPT ![f] = Alt(f)] ELSE [m EXCEPT !.pt[f] = Alt(f)]
SeipdTable == [f \in ClassesOf(SeipdGrammar(9, 1)) |-> Verdict(SeipdAccept(SeipdTamper(Seipd0, f)))]
ThmSeipd == /\ SeipdAccept(Seipd0)
            /\ \A f \in ClassesOf(SeipdGrammar(9, 1)) : ~SeipdAccept(SeipdTamper(Seipd0, f))
            /\ ~SeipdAccept([Seipd0 EXCEPT !.kind = "sed"])

(* 5.16 (rfc4880bis): AEAD Encrypted Data packet = version 1, cipher, AEAD algorithm, chunk size octet c, IV, *)
(* then per chunk of 2^(c+6) plaintext octets its ciphertext and tag, then the final tag.                      *)
ChunkSize(c) == 2 ^ (c + 6)
NChunks(c, n) == (n + ChunkSize(c) - 1) \div ChunkSize(c)                    \* n >= 1 plaintext octets
ChunkLen(c, n, i) == IF i < NChunks(c, n) - 1 THEN ChunkSize(c) ELSE n - (NChunks(c, n) - 1) * ChunkSize(c)   \* i from 0
ADHead(sk, aead, c) == <<TagNew(20), 1, sk, aead, c>>
AD(sk, aead, c, i) == ADHead(sk, aead, c) \o BE8(i)
ADFinal(sk, aead, c, n) == AD(sk, aead, c, NChunks(c, n)) \o BE8(n)
(* the nonce of chunk i: the IV as a big-endian number, its low eight octets exclusive-ored with the index *)
Nonce(iv, i) == Tup([k \in 1..Len(iv) |-> IF k > Len(iv) - 8 THEN iv[k] ^^ BE8(i)[k - (Len(iv) - 8)] ELSE iv[k]])
AeadGrammar(sk, aead, c, n) ==
  <<Hdr, Fix("version", 1), Fix("skalgo", 1), Fix("aeadalgo", 1), Fix("chunksize", 1), Fix("iv", IVOctets(aead))>>
  \o Flat([i \in 1..NChunks(c, n) |-> <<Fix("chunk", ChunkLen(c, n, i - 1)), Fix("tag", TagOctets)>>])
  \o <<Fix("finaltag", TagOctets)>>
AeadCiphertextOctets(c, n) == n + TagOctets * (NChunks(c, n) + 1)
(* the calls an encryption / decryption makes on the AEAD primitive, in order *)
AeadSchedule(sk, aead, c, n, iv) ==
  Tup([i \in 1..(NChunks(c, n) + 1) |->
        IF i <= NChunks(c, n) THEN [nonce |-> Nonce(iv, i - 1), ad |-> AD(sk, aead, c, i - 1), n |-> ChunkLen(c, n, i - 1)]
        ELSE [nonce |-> Nonce(iv, i - 1), ad |-> ADFinal(sk, aead, c, n), n |-> 0]])
NoncesDistinct(c, n, iv) == \A i, j \in 0..NChunks(c, n) : i # j => Nonce(iv, i) # Nonce(iv, j)

(* symbolic AEAD with the structure of OCB (RFC 7253): every 16-octet block is enciphered under (key, nonce, *)
(* position); the tag seals (key, nonce, additional data, xor of the plaintext blocks).  A block deciphers to  *)
(* its plaintext only under the nonce and position it was made for.  Plaintext blocks are small numbers.       *)
(* NonceRule "rfc": nonce(i) = IV xor i.  NonceRule "cumulative" (only used to show that the model is          *)
(* sensitive): nonce(i) = nonce(i-1) xor i.                                                                     *)
RECURSIVE XorUpTo(_)
XorUpTo(i) == IF i = 0 THEN 0 ELSE XorUpTo(i - 1) ^^ i
SymNonce(rule, i) == IF rule = "rfc" THEN i ELSE XorUpTo(i)       \* the IV is a constant summand and is left out
SymAD(i) == <<"ad", i>>
RECURSIVE XorAll(_)
XorAll(s) == IF s = <<>> THEN 0 ELSE Head(s) ^^ XorAll(Tail(s))
Block(nonce, pos, x) == [nonce |-> nonce, pos |-> pos, x |-> x]
SealChunk(rule, i, pt) == [blocks |-> Tup([p \in 1..Len(pt) |-> Block(SymNonce(rule, i), p, pt[p])]),
                           tag |-> [nonce |-> SymNonce(rule, i), ad |-> SymAD(i), sum |-> XorAll(pt)]]
SealFinal(rule, nchunks, total) == [nonce |-> SymNonce(rule, nchunks), ad |-> <<"final", nchunks, total>>, sum |-> 0]
SealMessage(rule, pts) == [chunks |-> Tup([i \in 1..Len(pts) |-> SealChunk(rule, i - 1, pts[i])]),
                           final |-> SealFinal(rule, Len(pts), Len(Flat(pts)))]
Garbage == 99                                           \* what a block deciphers to under a wrong nonce or position
OpenBlocks(rule, i, ch) == Tup([p \in 1..Len(ch.blocks) |->
                                  IF ch.blocks[p].nonce = SymNonce(rule, i) /\ ch.blocks[p].pos = p THEN ch.blocks[p].x ELSE Garbage])
OpenChunkOk(rule, i, ch) ==
  LET pt == OpenBlocks(rule, i, ch) IN
  /\ Garbage \notin {pt[p] : p \in 1..Len(pt)}
  /\ ch.tag = [nonce |-> SymNonce(rule, i), ad |-> SymAD(i), sum |-> XorAll(pt)]
OpenMessageOk(rule, full, m) ==
  /\ Len(m.chunks) >= 1
  /\ \A i \in 1..Len(m.chunks) : OpenChunkOk(rule, i - 1, m.chunks[i])
  /\ \A i \in 1..(Len(m.chunks) - 1) : Len(m.chunks[i].blocks) = full          \* all but the last chunk are full
  /\ Len(m.chunks[Len(m.chunks)].blocks) \in 1..full
  /\ m.final = SealFinal(rule, Len(m.chunks), Len(Flat([i \in 1..Len(m.chunks) |-> m.chunks[i].blocks])))
OpenMessage(rule, m) == Tup([i \in 1..Len(m.chunks) |-> OpenBlocks(rule, i - 1, m.chunks[i])])
=============================================================================
