SPECIFICATION Spec
CONSTANTS
 MaxP = 90
 MaxQ = 45
 MaxK = 10
 Margin = 4
 Variants <- A_one
 NaiveMaxP = 29
 NaiveVariants <- D_one
 AccMaxP = 1000
 NbrMaxP = 90
 NbrVariants <- N_one
 Mode = "nbr"
 CheckArith = TRUE
 SortedBases = TRUE
INVARIANTS BlockIsDefinition BlockSound Sound Complete Shape Elements Emit
CHECK_DEADLOCK FALSE
