-------------------------------- MODULE Wire --------------------------------
(***************************************************************************)
(* Property C11: the textual transport encodings of libTMCG.               *)
(*                                                                         *)
(* Every exportable type is an abstract object (a record); Export(o) is    *)
(* the text the object has on the wire, Import(ty, big, txt) is the parser *)
(* of that text with the limits the format imposes on its dimensions.      *)
(* The texts are written from the format definitions:                      *)
(*                                                                         *)
(*   integer      base-62 numeral, digits 0-9 A-Z a-z, most significant    *)
(*                first, no leading zero, '-' in front of negative values  *)
(*   dimension    decimal numeral (players, type bits, sizes, indices)     *)
(*   card         crd|k|w|z_11|...|z_kw|        (quadratic-residue coding) *)
(*                crd|c_1|c_2|                  (discrete-log coding)      *)
(*   card secret  crs|k|w|r_11|b_11|...|r_kw|b_kw|     and     crs|r|      *)
(*   stack        stk^n^card^...^card^                                     *)
(*   stack secret sts^n^pi_0^secret^...^pi_(n-1)^secret^   pi a permutation*)
(*   public key   pub|name|email|type|m|y|nizk|sig                         *)
(*   secret key   sec|name|email|type|m|y|p|q|nizk|sig                     *)
(*   parameter sets and persisted protocol states: one numeral per line,   *)
(*                every line closed by NL, in the order given below        *)
(*                                                                         *)
(* An integer leaf of an object is a TLC integer (|v| < 2^31) when the     *)
(* object's flag big is FALSE; in an object with big = TRUE every leaf is  *)
(* an opaque canonical numeral (a string): identity is checked, arithmetic *)
(* meaning is not.  Big(.) below computes such numerals for 2^k, 2^k - 1   *)
(* and 2^k + 1 with schoolbook arithmetic on digit sequences.              *)
(***************************************************************************)
EXTENDS Integers, Sequences, FiniteSets, TLC

CONSTANTS MaxPlayers,      \* card dimension k (players)        1..MaxPlayers
          MaxTypeBits,     \* card dimension w (type bits)      1..MaxTypeBits
          MaxCards,        \* stack / stack secret size         1..MaxCards
          MaxDkgPlayers    \* parties of a persisted protocol state

---------------------------------------------------------------------------
(* characters, numerals                                                    *)
Ch(s, i) == SubSeq(s, i, i)
Digits62 == "0123456789ABCDEFGHIJKLMNOPQRSTUVWXYZabcdefghijklmnopqrstuvwxyz"
Digits10 == "0123456789"
DigitChar(d) == Ch(Digits62, d + 1)
DigitSet62 == {Ch(Digits62, i) : i \in 1..62}
DigitSet10 == {Ch(Digits10, i) : i \in 1..10}
DigitVal == [c \in DigitSet62 |-> (CHOOSE i \in 1..62 : Ch(Digits62, i) = c) - 1]
NL == "\n"

RECURSIVE EncNat(_, _)
EncNat(n, base) == IF n < base THEN DigitChar(n) ELSE EncNat(n \div base, base) \o DigitChar(n % base)
Enc62(n) == IF n < 0 THEN "-" \o EncNat(-n, 62) ELSE EncNat(n, 62)       \* |n| <= 2^31 - 1
Enc10(n) == EncNat(n, 10)                                                 \* n >= 0

\* value of the digit string s[lo..hi] (Horner); the caller keeps it below 2^31
RECURSIVE Horner(_, _, _, _)
Horner(s, lo, hi, base) == IF hi < lo THEN 0 ELSE Horner(s, lo, hi - 1, base) * base + DigitVal[Ch(s, hi)]

\* (TLC may evaluate an operator's argument expression again at every use of the parameter; operators that use a
\*  parameter many times therefore name its value once with LET)
AllIn(s0, lo, set) == LET s == s0 IN \A i \in lo..Len(s) : Ch(s, i) \in set
IsNumeral62(s0) == LET s == s0 IN
                  IF Len(s) >= 1 /\ Ch(s, 1) = "-" THEN Len(s) >= 2 /\ AllIn(s, 2, DigitSet62)
                  ELSE Len(s) >= 1 /\ AllIn(s, 1, DigitSet62)
IsCanonical62(s0) == LET s == s0 IN
                    /\ IsNumeral62(s)
                    /\ LET neg == Ch(s, 1) = "-"
                           first == IF neg THEN 2 ELSE 1
                       IN /\ (Ch(s, first) = "0" => Len(s) = first)       \* no leading zero
                          /\ ~(neg /\ Ch(s, 2) = "0")                      \* no "-0"
\* the numerals whose value the spec can compute: up to five digits, or six digits below 2^31
Small62(s0) == LET s == s0  neg == Len(s) >= 1 /\ Ch(s, 1) = "-"
                  nd == IF neg THEN Len(s) - 1 ELSE Len(s)
                  f == IF neg THEN 2 ELSE 1
              IN IsNumeral62(s) /\ (nd <= 5 \/ (nd = 6 /\ (DigitVal[Ch(s, f)] < 2 \/
                    (DigitVal[Ch(s, f)] = 2 /\ Horner(s, f + 1, Len(s), 62) <= 2147483647 - 2 * 916132832))))
Dec62(s0) == LET s == s0 IN IF Ch(s, 1) = "-" THEN -Horner(s, 2, Len(s), 62) ELSE Horner(s, 1, Len(s), 62)
IsNumeral10(s0) == LET s == s0 IN Len(s) >= 1 /\ Len(s) <= 9 /\ AllIn(s, 1, DigitSet10)
Dec10(s0) == LET s == s0 IN Horner(s, 1, Len(s), 10)

\* a leaf: integer (big = FALSE) or opaque canonical numeral (big = TRUE)
EncLeaf(big, v) == IF big THEN v ELSE Enc62(v)
LeafOK(big, s0) == LET s == s0 IN IF big THEN IsCanonical62(s) ELSE Small62(s)
DecLeaf(big, s0) == LET s == s0 IN IF big THEN s ELSE Dec62(s)

---------------------------------------------------------------------------
(* sequences of strings                                                    *)
RECURSIVE Cat(_, _, _)
Cat(ss, lo, hi) == IF lo > hi THEN "" ELSE IF lo = hi THEN ss[lo]
                   ELSE LET mid == (lo + hi) \div 2 IN Cat(ss, lo, mid) \o Cat(ss, mid + 1, hi)
Concat(ss0) == LET ss == ss0 IN Cat(ss, 1, Len(ss))
Idx(n) == [i \in 1..n |-> i]
\* positions of the delimiter d in s, ascending
Delims(s0, d) == LET s == s0 IN SelectSeq(Idx(Len(s)), LAMBDA i : Ch(s, i) = d)
\* the j-th field when P are the delimiter positions: the text between delimiter j-1 and delimiter j
Field(s, P, j) == SubSeq(s, (IF j = 1 THEN 1 ELSE P[j - 1] + 1), P[j] - 1)
Rest(s, P, j) == SubSeq(s, P[j] + 1, Len(s))              \* everything behind the j-th delimiter
Lines(nums0) == LET nums == nums0 IN Concat([i \in 1..Len(nums) |-> nums[i] \o NL])
Flat(seqs0) == LET seqs == seqs0
                  RECURSIVE F(_, _)
                  F(lo, hi) == IF lo > hi THEN <<>> ELSE IF lo = hi THEN seqs[lo]
                               ELSE LET mid == (lo + hi) \div 2 IN F(lo, mid) \o F(mid + 1, hi)
              IN F(1, Len(seqs))
IsPerm0(pi0) == LET pi == pi0 IN \A v \in 0..(Len(pi) - 1) : \E i \in 1..Len(pi) : pi[i] = v    \* a permutation of 0..n-1

Reject == [ok |-> FALSE]
Accept(o) == [ok |-> TRUE, o |-> o]

---------------------------------------------------------------------------
(* cards and card secrets                                                  *)
TCard(big, k, w, z) == [ty |-> "tcard", big |-> big, k |-> k, w |-> w, z |-> z]             \* z[i][j], i in 1..k, j in 1..w
TSec(big, k, w, r, b) == [ty |-> "tsec", big |-> big, k |-> k, w |-> w, r |-> r, b |-> b]
VCard(big, c1, c2) == [ty |-> "vcard", big |-> big, c1 |-> c1, c2 |-> c2]
VSec(big, r) == [ty |-> "vsec", big |-> big, r |-> r]

ExpTCard(o0) == LET o == o0 IN "crd|" \o Enc10(o.k) \o "|" \o Enc10(o.w) \o "|" \o
  Concat([n \in 1..(o.k * o.w) |-> EncLeaf(o.big, o.z[(n - 1) \div o.w + 1][((n - 1) % o.w) + 1]) \o "|"])
ExpTSec(o0) == LET o == o0 IN "crs|" \o Enc10(o.k) \o "|" \o Enc10(o.w) \o "|" \o
  Concat([n \in 1..(o.k * o.w) |->
            LET i == (n - 1) \div o.w + 1  j == ((n - 1) % o.w) + 1
            IN EncLeaf(o.big, o.r[i][j]) \o "|" \o EncLeaf(o.big, o.b[i][j]) \o "|"])
ExpVCard(o0) == LET o == o0 IN "crd|" \o EncLeaf(o.big, o.c1) \o "|" \o EncLeaf(o.big, o.c2) \o "|"
ExpVSec(o0) == LET o == o0 IN "crs|" \o EncLeaf(o.big, o.r) \o "|"

\* header  magic|k|w|  with both dimensions inside their limits
DimsOK(s, P, magic) ==
  /\ Len(P) >= 3 /\ Field(s, P, 1) = magic
  /\ IsNumeral10(Field(s, P, 2)) /\ Dec10(Field(s, P, 2)) \in 1..MaxPlayers
  /\ IsNumeral10(Field(s, P, 3)) /\ Dec10(Field(s, P, 3)) \in 1..MaxTypeBits
ImpTCard(big, s0) ==
  LET s == s0  P == Delims(s, "|") IN
  IF ~DimsOK(s, P, "crd") THEN Reject ELSE
  LET k == Dec10(Field(s, P, 2))  w == Dec10(Field(s, P, 3)) IN
  IF Len(P) < 3 + k * w \/ \E n \in 1..(k * w) : ~LeafOK(big, Field(s, P, 3 + n)) THEN Reject
  ELSE Accept(TCard(big, k, w, [i \in 1..k |-> [j \in 1..w |-> DecLeaf(big, Field(s, P, 3 + (i - 1) * w + j))]]))
ImpTSec(big, s0) ==
  LET s == s0  P == Delims(s, "|") IN
  IF ~DimsOK(s, P, "crs") THEN Reject ELSE
  LET k == Dec10(Field(s, P, 2))  w == Dec10(Field(s, P, 3)) IN
  IF Len(P) < 3 + 2 * k * w \/ \E n \in 1..(2 * k * w) : ~LeafOK(big, Field(s, P, 3 + n)) THEN Reject
  ELSE Accept(TSec(big, k, w,
         [i \in 1..k |-> [j \in 1..w |-> DecLeaf(big, Field(s, P, 3 + 2 * ((i - 1) * w + j) - 1))]],
         [i \in 1..k |-> [j \in 1..w |-> DecLeaf(big, Field(s, P, 3 + 2 * ((i - 1) * w + j)))]]))
ImpVCard(big, s0) ==
  LET s == s0  P == Delims(s, "|") IN
  IF Len(P) < 3 \/ Field(s, P, 1) # "crd" \/ ~LeafOK(big, Field(s, P, 2)) \/ ~LeafOK(big, Field(s, P, 3)) THEN Reject
  ELSE Accept(VCard(big, DecLeaf(big, Field(s, P, 2)), DecLeaf(big, Field(s, P, 3))))
ImpVSec(big, s0) ==
  LET s == s0  P == Delims(s, "|") IN
  IF Len(P) < 2 \/ Field(s, P, 1) # "crs" \/ ~LeafOK(big, Field(s, P, 2)) THEN Reject
  ELSE Accept(VSec(big, DecLeaf(big, Field(s, P, 2))))

---------------------------------------------------------------------------
(* stacks and stack secrets (elements: cards resp. card secrets of one coding) *)
Stack(ty, big, s) == [ty |-> ty, big |-> big, s |-> s]                      \* ty: "tstack" | "vstack"
StackSecret(ty, big, pi, s) == [ty |-> ty, big |-> big, pi |-> pi, s |-> s]  \* ty: "tss" | "vss"; pi[i] in 0..n-1

ExpElem(o0) == LET o == o0 IN CASE o.ty = "tcard" -> ExpTCard(o) [] o.ty = "vcard" -> ExpVCard(o)
                [] o.ty = "tsec" -> ExpTSec(o)   [] o.ty = "vsec" -> ExpVSec(o)
ExpStack(o0) == LET o == o0 IN "stk^" \o Enc10(Len(o.s)) \o "^" \o Concat([i \in 1..Len(o.s) |-> ExpElem(o.s[i]) \o "^"])
ExpStackSecret(o0) == LET o == o0 IN "sts^" \o Enc10(Len(o.s)) \o "^" \o
  Concat([i \in 1..Len(o.s) |-> Enc10(o.pi[i]) \o "^" \o ExpElem(o.s[i]) \o "^"])

ImpStack(ty, big, s0) ==
  LET s == s0  P == Delims(s, "^") IN
  IF Len(P) < 2 \/ Field(s, P, 1) # "stk" \/ ~IsNumeral10(Field(s, P, 2)) THEN Reject ELSE
  LET n == Dec10(Field(s, P, 2)) IN
  IF n < 1 \/ n > MaxCards \/ Len(P) < 2 + n THEN Reject ELSE
  LET c == [i \in 1..n |-> LET e == Field(s, P, 2 + i) IN IF ty = "tstack" THEN ImpTCard(big, e) ELSE ImpVCard(big, e)] IN
  IF \E i \in 1..n : ~c[i].ok THEN Reject ELSE Accept(Stack(ty, big, [i \in 1..n |-> c[i].o]))
ImpStackSecret(ty, big, s0) ==
  LET s == s0  P == Delims(s, "^") IN
  IF Len(P) < 2 \/ Field(s, P, 1) # "sts" \/ ~IsNumeral10(Field(s, P, 2)) THEN Reject ELSE
  LET n == Dec10(Field(s, P, 2)) IN
  IF n < 1 \/ n > MaxCards \/ Len(P) < 2 + 2 * n THEN Reject ELSE
  IF \E i \in 1..n : ~IsNumeral10(Field(s, P, 2 * i + 1)) THEN Reject ELSE
  LET pi == [i \in 1..n |-> Dec10(Field(s, P, 2 * i + 1))]
      c == [i \in 1..n |-> LET e == Field(s, P, 2 * i + 2) IN IF ty = "tss" THEN ImpTSec(big, e) ELSE ImpVSec(big, e)] IN
  IF (\E i \in 1..n : pi[i] >= n) \/ ~IsPerm0(pi) \/ (\E i \in 1..n : ~c[i].ok) THEN Reject
  ELSE Accept(StackSecret(ty, big, pi, [i \in 1..n |-> c[i].o]))

---------------------------------------------------------------------------
(* keys: name, email, type and nizk are texts without '|' and NL, sig is the rest of the line *)
PubKey(big, name, email, kty, m, y, nizk, sig) ==
  [ty |-> "pub", big |-> big, name |-> name, email |-> email, kty |-> kty, m |-> m, y |-> y, nizk |-> nizk, sig |-> sig]
SecKey(big, name, email, kty, m, y, p, q, nizk, sig) ==
  [ty |-> "sec", big |-> big, name |-> name, email |-> email, kty |-> kty, m |-> m, y |-> y, p |-> p, q |-> q,
   nizk |-> nizk, sig |-> sig]
ExpPub(o0) == LET o == o0 IN "pub|" \o o.name \o "|" \o o.email \o "|" \o o.kty \o "|" \o EncLeaf(o.big, o.m) \o "|" \o
             EncLeaf(o.big, o.y) \o "|" \o o.nizk \o "|" \o o.sig
ExpSec(o0) == LET o == o0 IN "sec|" \o o.name \o "|" \o o.email \o "|" \o o.kty \o "|" \o EncLeaf(o.big, o.m) \o "|" \o
             EncLeaf(o.big, o.y) \o "|" \o EncLeaf(o.big, o.p) \o "|" \o EncLeaf(o.big, o.q) \o "|" \o o.nizk \o "|" \o o.sig
ImpPub(big, s0) ==
  LET s == s0  P == Delims(s, "|") IN
  IF Len(P) < 7 \/ Field(s, P, 1) # "pub" \/ ~LeafOK(big, Field(s, P, 5)) \/ ~LeafOK(big, Field(s, P, 6)) THEN Reject
  ELSE Accept(PubKey(big, Field(s, P, 2), Field(s, P, 3), Field(s, P, 4), DecLeaf(big, Field(s, P, 5)),
                     DecLeaf(big, Field(s, P, 6)), Field(s, P, 7), Rest(s, P, 7)))
ImpSec(big, s0) ==
  LET s == s0  P == Delims(s, "|") IN
  IF Len(P) < 9 \/ Field(s, P, 1) # "sec" \/ \E j \in 5..8 : ~LeafOK(big, Field(s, P, j)) THEN Reject
  ELSE Accept(SecKey(big, Field(s, P, 2), Field(s, P, 3), Field(s, P, 4), DecLeaf(big, Field(s, P, 5)),
                     DecLeaf(big, Field(s, P, 6)), DecLeaf(big, Field(s, P, 7)), DecLeaf(big, Field(s, P, 8)),
                     Field(s, P, 9), Rest(s, P, 9)))

---------------------------------------------------------------------------
(* line formats: parameter sets and persisted protocol states.               *)
(* LinesOf(o) is the sequence of lines (leaves already rendered); the text   *)
(* is every line followed by NL.  A reader takes the lines in this order.    *)
L(o, v) == EncLeaf(o.big, v)
LS(o, vs) == [i \in 1..Len(vs) |-> EncLeaf(o.big, vs[i])]
D(n) == Enc10(n)
DS(ns) == [i \in 1..Len(ns) |-> Enc10(ns[i])]
RECURSIVE LinesOf(_)
LinesOf(o0) ==
  LET o == o0 IN
  CASE o.ty = "int"   -> <<L(o, o.v)>>                                           \* one integer on a line of its own
    [] o.ty = "ints"  -> LS(o, o.v)                                              \* several integers, NL framing
    [] o.ty = "vtmf"  -> <<L(o, o.p), L(o, o.q), L(o, o.g), L(o, o.k)>>          \* Barnett-Smart group (all VTMF classes)
    [] o.ty = "com"   -> <<L(o, o.p), L(o, o.q), L(o, o.k), L(o, o.h)>> \o LS(o, o.g)   \* Pedersen commitment, n generators
    [] o.ty = "vsshe" -> <<L(o, o.p), L(o, o.q), L(o, o.g), L(o, o.h)>> \o LinesOf(o.com)   \* Groth shuffle: own group + commitment
    [] o.ty = "vrhe"  -> <<L(o, o.p), L(o, o.q), L(o, o.g), L(o, o.h)>>          \* rotation argument
    [] o.ty = "ptc"   -> <<L(o, o.p), L(o, o.q), L(o, o.k), L(o, o.g), L(o, o.h)>>   \* trapdoor commitment
    [] o.ty = "eotp"  -> <<L(o, o.p), L(o, o.q), L(o, o.g)>>                     \* oblivious transfer group
    \* Pedersen VSS: CRS, n t i, own share pair, the two polynomials and the commitments (t+1 each)
    [] o.ty = "pvss"  -> <<L(o, o.p), L(o, o.q), L(o, o.g), L(o, o.h), D(o.n), D(o.t), D(o.i), L(o, o.sigma), L(o, o.tau)>>
                         \o LS(o, o.a) \o LS(o, o.b) \o LS(o, o.A)
    \* GJKR DKG: CRS, n t i, x_i x'_i y, |QUAL| QUAL, y_i z_i v_i (n each), per party i: (s_ij s'_ij) for all j, C_ik k=0..t
    [] o.ty = "gjkr"  -> <<L(o, o.p), L(o, o.q), L(o, o.g), L(o, o.h), D(o.n), D(o.t), D(o.i), L(o, o.x), L(o, o.xp), L(o, o.y),
                           D(Len(o.qual))>> \o DS(o.qual) \o LS(o, o.yi) \o LS(o, o.zi) \o LS(o, o.vi) \o
                         Flat([a \in 1..o.n |-> Flat([b \in 1..o.n |-> <<L(o, o.s[a][b]), L(o, o.sp[a][b])>>]) \o LS(o, o.C[a])])
    \* CGJKR RVSS: CRS, n t i t', x_i x'_i z_i z'_i, |QUAL| QUAL, per party i: (s_ji s'_ji) for all j, C_ik k=0..t'
    [] o.ty = "rvss"  -> <<L(o, o.p), L(o, o.q), L(o, o.g), L(o, o.h), D(o.n), D(o.t), D(o.i), D(o.tp),
                           L(o, o.x), L(o, o.xp), L(o, o.z), L(o, o.zp), D(Len(o.qual))>> \o DS(o.qual) \o
                         Flat([a \in 1..o.n |-> Flat([b \in 1..o.n |-> <<L(o, o.s[b][a]), L(o, o.sp[b][a])>>]) \o LS(o, o.C[a])])
    \* CGJKR ZVSS: as RVSS without z_i z'_i
    [] o.ty = "zvss"  -> <<L(o, o.p), L(o, o.q), L(o, o.g), L(o, o.h), D(o.n), D(o.t), D(o.i), D(o.tp),
                           L(o, o.x), L(o, o.xp), D(Len(o.qual))>> \o DS(o.qual) \o
                         Flat([a \in 1..o.n |-> Flat([b \in 1..o.n |-> <<L(o, o.s[b][a]), L(o, o.sp[b][a])>>]) \o LS(o, o.C[a])])
    \* CGJKR DKG: CRS, n t i, x_i x'_i y, |QUAL| QUAL, then the state of its RVSS instance
    [] o.ty = "cdkg"  -> <<L(o, o.p), L(o, o.q), L(o, o.g), L(o, o.h), D(o.n), D(o.t), D(o.i), L(o, o.x), L(o, o.xp), L(o, o.y),
                           D(Len(o.qual))>> \o DS(o.qual) \o LinesOf(o.rvss)
    \* CGJKR DSS: the same head, then the state of its DKG instance
    [] o.ty = "dss"   -> <<L(o, o.p), L(o, o.q), L(o, o.g), L(o, o.h), D(o.n), D(o.t), D(o.i), L(o, o.x), L(o, o.xp), L(o, o.y),
                           D(Len(o.qual))>> \o DS(o.qual) \o LinesOf(o.dkg)
ExpLines(o0) == LET o == o0 IN Lines(LinesOf(o))

\* reading: a cursor over the lines; R.ok turns FALSE when a line is missing or is not what the field requires
SplitLines(s0) == LET s == s0  P == Delims(s, NL) IN [j \in 1..Len(P) |-> Field(s, P, j)]
Rd0(ls) == [ok |-> TRUE, at |-> 1, ls |-> ls]
Have(R, n) == R.ok /\ R.at + n - 1 <= Len(R.ls)
\* n leaves / n dimensions starting at the cursor (only evaluated when Have(R, n))
LeavesAt(R, big, n) == [j \in 1..n |-> DecLeaf(big, R.ls[R.at + j - 1])]
LeavesOK(R, big, n) == Have(R, n) /\ \A j \in 1..n : LeafOK(big, R.ls[R.at + j - 1])
DimsAt(R, n) == [j \in 1..n |-> Dec10(R.ls[R.at + j - 1])]
DimsOKAt(R, n) == Have(R, n) /\ \A j \in 1..n : IsNumeral10(R.ls[R.at + j - 1])
Adv(R, n) == [R EXCEPT !.at = @ + n]
Fail(R) == [R EXCEPT !.ok = FALSE]

\* each reader returns [ok, o, R] - the object and the cursor behind it
Bad(R) == [ok |-> FALSE, R |-> Fail(R)]
Got(o, R) == [ok |-> TRUE, o |-> o, R |-> R]

RdFlat(ty, big, names, R) ==      \* a parameter set of Len(names) leaves
  IF ~LeavesOK(R, big, Len(names)) THEN Bad(R) ELSE
  LET v == LeavesAt(R, big, Len(names)) IN
  Got([f \in {"ty", "big"} \cup {names[j] : j \in 1..Len(names)} |->
         IF f = "ty" THEN ty ELSE IF f = "big" THEN big ELSE v[CHOOSE j \in 1..Len(names) : names[j] = f]], Adv(R, Len(names)))
RdCom(big, n, R) ==               \* the reader knows the number n of generators
  IF ~LeavesOK(R, big, 4 + n) THEN Bad(R) ELSE
  LET v == LeavesAt(R, big, 4 + n) IN
  Got([ty |-> "com", big |-> big, p |-> v[1], q |-> v[2], k |-> v[3], h |-> v[4], g |-> [j \in 1..n |-> v[4 + j]]], Adv(R, 4 + n))
\* head of every protocol state: CRS and the dimensions n, t, i (and t' when tpd) inside their limits
HeadOK(R, big, tpd) ==
  /\ LeavesOK(R, big, 4) /\ DimsOKAt(Adv(R, 4), IF tpd THEN 4 ELSE 3)
  /\ LET d == DimsAt(Adv(R, 4), IF tpd THEN 4 ELSE 3) IN
       d[1] <= MaxDkgPlayers /\ d[2] <= d[1] /\ d[3] < d[1] /\ (tpd => d[4] <= d[1])
\* QUAL: a count <= n followed by that many party indices < n
QualOK(R, n) == /\ DimsOKAt(R, 1) /\ DimsAt(R, 1)[1] <= n
                /\ DimsOKAt(Adv(R, 1), DimsAt(R, 1)[1]) /\ \A j \in 1..DimsAt(R, 1)[1] : DimsAt(Adv(R, 1), DimsAt(R, 1)[1])[j] < n
QualAt(R) == DimsAt(Adv(R, 1), DimsAt(R, 1)[1])
\* per-party blocks: n blocks of 2n + c leaves
Blocks(R, big, n, c) == [a \in 1..n |-> LeavesAt(Adv(R, (a - 1) * (2 * n + c)), big, 2 * n + c)]

RdPvss(big, R) ==
  IF ~HeadOK(R, big, FALSE) THEN Bad(R) ELSE
  LET crs == LeavesAt(R, big, 4)  d == DimsAt(Adv(R, 4), 3)  R1 == Adv(R, 7)  t1 == d[2] + 1 IN
  IF ~LeavesOK(R1, big, 2 + 3 * t1) THEN Bad(R) ELSE
  LET v == LeavesAt(R1, big, 2 + 3 * t1) IN
  Got([ty |-> "pvss", big |-> big, p |-> crs[1], q |-> crs[2], g |-> crs[3], h |-> crs[4], n |-> d[1], t |-> d[2], i |-> d[3],
       sigma |-> v[1], tau |-> v[2], a |-> [j \in 1..t1 |-> v[2 + j]], b |-> [j \in 1..t1 |-> v[2 + t1 + j]],
       A |-> [j \in 1..t1 |-> v[2 + 2 * t1 + j]]], Adv(R1, 2 + 3 * t1))
RdGjkr(big, R) ==
  IF ~HeadOK(R, big, FALSE) THEN Bad(R) ELSE
  LET crs == LeavesAt(R, big, 4)  d == DimsAt(Adv(R, 4), 3)  R1 == Adv(R, 7)  n == d[1]  t1 == d[2] + 1 IN
  IF ~LeavesOK(R1, big, 3) \/ ~QualOK(Adv(R1, 3), n) THEN Bad(R) ELSE
  LET x == LeavesAt(R1, big, 3)  qual == QualAt(Adv(R1, 3))  R2 == Adv(R1, 4 + Len(qual)) IN
  IF ~LeavesOK(R2, big, 3 * n + n * (2 * n + t1)) THEN Bad(R) ELSE
  LET v == LeavesAt(R2, big, 3 * n)  bl == Blocks(Adv(R2, 3 * n), big, n, t1) IN
  Got([ty |-> "gjkr", big |-> big, p |-> crs[1], q |-> crs[2], g |-> crs[3], h |-> crs[4], n |-> n, t |-> d[2], i |-> d[3],
       x |-> x[1], xp |-> x[2], y |-> x[3], qual |-> qual,
       yi |-> [j \in 1..n |-> v[j]], zi |-> [j \in 1..n |-> v[n + j]], vi |-> [j \in 1..n |-> v[2 * n + j]],
       s |-> [a \in 1..n |-> [b \in 1..n |-> bl[a][2 * b - 1]]], sp |-> [a \in 1..n |-> [b \in 1..n |-> bl[a][2 * b]]],
       C |-> [a \in 1..n |-> [k \in 1..t1 |-> bl[a][2 * n + k]]]], Adv(R2, 3 * n + n * (2 * n + t1)))
RdXvss(ty, big, R) ==                                  \* ty: "rvss" (with z_i z'_i) | "zvss"
  IF ~HeadOK(R, big, TRUE) THEN Bad(R) ELSE
  LET crs == LeavesAt(R, big, 4)  d == DimsAt(Adv(R, 4), 4)  R1 == Adv(R, 8)  n == d[1]  t1 == d[4] + 1
      nx == IF ty = "rvss" THEN 4 ELSE 2 IN
  IF ~LeavesOK(R1, big, nx) \/ ~QualOK(Adv(R1, nx), n) THEN Bad(R) ELSE
  LET x == LeavesAt(R1, big, nx)  qual == QualAt(Adv(R1, nx))  R2 == Adv(R1, nx + 1 + Len(qual)) IN
  IF ~LeavesOK(R2, big, n * (2 * n + t1)) THEN Bad(R) ELSE
  LET bl == Blocks(R2, big, n, t1)
      base == [ty |-> ty, big |-> big, p |-> crs[1], q |-> crs[2], g |-> crs[3], h |-> crs[4], n |-> n, t |-> d[2], i |-> d[3],
               tp |-> d[4], x |-> x[1], xp |-> x[2], qual |-> qual,
               s |-> [b \in 1..n |-> [a \in 1..n |-> bl[a][2 * b - 1]]], sp |-> [b \in 1..n |-> [a \in 1..n |-> bl[a][2 * b]]],
               C |-> [a \in 1..n |-> [k \in 1..t1 |-> bl[a][2 * n + k]]]] IN
  Got(IF ty = "rvss" THEN [f \in DOMAIN base \cup {"z", "zp"} |-> IF f = "z" THEN x[3] ELSE IF f = "zp" THEN x[4] ELSE base[f]]
      ELSE base, Adv(R2, n * (2 * n + t1)))
RdHead(big, R) ==                                      \* common head of cdkg and dss
  IF ~HeadOK(R, big, FALSE) THEN Bad(R) ELSE
  LET crs == LeavesAt(R, big, 4)  d == DimsAt(Adv(R, 4), 3)  R1 == Adv(R, 7) IN
  IF ~LeavesOK(R1, big, 3) \/ ~QualOK(Adv(R1, 3), d[1]) THEN Bad(R) ELSE
  LET x == LeavesAt(R1, big, 3)  qual == QualAt(Adv(R1, 3)) IN
  Got([big |-> big, p |-> crs[1], q |-> crs[2], g |-> crs[3], h |-> crs[4], n |-> d[1], t |-> d[2], i |-> d[3],
       x |-> x[1], xp |-> x[2], y |-> x[3], qual |-> qual], Adv(R1, 4 + Len(qual)))
With(rec0, f1, v10, f2, v20) == LET rec == rec0  v1 == v10  v2 == v20 IN [f \in DOMAIN rec \cup {f1, f2} |-> IF f = f1 THEN v1 ELSE IF f = f2 THEN v2 ELSE rec[f]]
RdCdkg(big, R) ==
  LET h == RdHead(big, R) IN IF ~h.ok THEN Bad(R) ELSE
  LET r == RdXvss("rvss", big, h.R) IN IF ~r.ok THEN Bad(R) ELSE Got(With(h.o, "ty", "cdkg", "rvss", r.o), r.R)
RdDss(big, R) ==
  LET h == RdHead(big, R) IN IF ~h.ok THEN Bad(R) ELSE
  LET r == RdCdkg(big, h.R) IN IF ~r.ok THEN Bad(R) ELSE Got(With(h.o, "ty", "dss", "dkg", r.o), r.R)

\* arg: what the reader must be told beforehand (number of generators for com / vsshe, number of integers for ints)
ImpLines(ty, big, arg, s) ==
  LET R == Rd0(SplitLines(s))
      res == CASE ty = "int"   -> RdFlat("int", big, <<"v">>, R)
               [] ty = "ints"  -> IF ~LeavesOK(R, big, arg) THEN Bad(R)
                                  ELSE Got([ty |-> "ints", big |-> big, v |-> LeavesAt(R, big, arg)], Adv(R, arg))
               [] ty = "vtmf"  -> RdFlat("vtmf", big, <<"p", "q", "g", "k">>, R)
               [] ty = "com"   -> RdCom(big, arg, R)
               [] ty = "vsshe" -> LET a == RdFlat("vsshe", big, <<"p", "q", "g", "h">>, R) IN IF ~a.ok THEN Bad(R) ELSE
                                  LET c == RdCom(big, arg, a.R) IN IF ~c.ok THEN Bad(R) ELSE
                                  Got([f \in DOMAIN a.o \cup {"com"} |-> IF f = "com" THEN c.o ELSE a.o[f]], c.R)
               [] ty = "vrhe"  -> RdFlat("vrhe", big, <<"p", "q", "g", "h">>, R)
               [] ty = "ptc"   -> RdFlat("ptc", big, <<"p", "q", "k", "g", "h">>, R)
               [] ty = "eotp"  -> RdFlat("eotp", big, <<"p", "q", "g">>, R)
               [] ty = "pvss"  -> RdPvss(big, R)
               [] ty = "gjkr"  -> RdGjkr(big, R)
               [] ty = "rvss"  -> RdXvss("rvss", big, R)
               [] ty = "zvss"  -> RdXvss("zvss", big, R)
               [] ty = "cdkg"  -> RdCdkg(big, R)
               [] ty = "dss"   -> RdDss(big, R)
  IN IF res.ok THEN Accept(res.o) ELSE Reject

---------------------------------------------------------------------------
(* the two directions for every type                                        *)
LineTypes == {"int", "ints", "vtmf", "com", "vsshe", "vrhe", "ptc", "eotp", "pvss", "gjkr", "rvss", "zvss", "cdkg", "dss"}
Export(o0) ==
  LET o == o0 IN
  CASE o.ty = "tcard" -> ExpTCard(o) [] o.ty = "tsec" -> ExpTSec(o) [] o.ty = "vcard" -> ExpVCard(o) [] o.ty = "vsec" -> ExpVSec(o)
    [] o.ty \in {"tstack", "vstack"} -> ExpStack(o) [] o.ty \in {"tss", "vss"} -> ExpStackSecret(o)
    [] o.ty = "pub" -> ExpPub(o) [] o.ty = "sec" -> ExpSec(o)
    [] o.ty \in LineTypes -> ExpLines(o)
Import(ty, big, arg, s0) ==
  LET s == s0 IN
  CASE ty = "tcard" -> ImpTCard(big, s) [] ty = "tsec" -> ImpTSec(big, s) [] ty = "vcard" -> ImpVCard(big, s) [] ty = "vsec" -> ImpVSec(big, s)
    [] ty \in {"tstack", "vstack"} -> ImpStack(ty, big, s) [] ty \in {"tss", "vss"} -> ImpStackSecret(ty, big, s)
    [] ty = "pub" -> ImpPub(big, s) [] ty = "sec" -> ImpSec(big, s)
    [] ty \in LineTypes -> ImpLines(ty, big, arg, s)
\* what the reader of a line format has to know beforehand
ArgOf(o) == CASE o.ty = "com" -> Len(o.g) [] o.ty = "vsshe" -> Len(o.com.g) [] o.ty = "ints" -> Len(o.v) [] OTHER -> 0

\* the property, on the level of the specification
RoundTrip(o0) == LET o == o0  txt == Export(o)  r == Import(o.ty, o.big, ArgOf(o), txt)
                IN r.ok /\ r.o = o /\ Export(r.o) = txt

---------------------------------------------------------------------------
(* numerals beyond 2^31: schoolbook arithmetic on little-endian sequences of base-62 digits *)
RECURSIVE ConvSum(_, _, _, _, _)                   \* sum of a[i] * b[k + 1 - i] for i in lo..hi
ConvSum(a, b, k, lo, hi) == IF lo > hi THEN 0 ELSE IF lo = hi THEN a[lo] * b[k + 1 - lo]
                            ELSE LET mid == (lo + hi) \div 2 IN ConvSum(a, b, k, lo, mid) + ConvSum(a, b, k, mid + 1, hi)
MaxI(x, y) == IF x > y THEN x ELSE y
MinI(x, y) == IF x < y THEN x ELSE y
\* carries: every round moves the excess of each position one position up; rounds until every entry is a digit
RECURSIVE Norm(_)
Norm(ds0) == LET ds == ds0 IN
            IF \A i \in 1..Len(ds) : ds[i] < 62 THEN (IF Len(ds) > 1 /\ ds[Len(ds)] = 0 THEN Norm(SubSeq(ds, 1, Len(ds) - 1)) ELSE ds)
            ELSE Norm([i \in 1..(Len(ds) + 1) |-> (IF i <= Len(ds) THEN ds[i] % 62 ELSE 0) + (IF i > 1 THEN ds[i - 1] \div 62 ELSE 0)])
Mul(a0, b0) == LET a == a0  b == b0 IN Norm([k \in 1..(Len(a) + Len(b)) |-> ConvSum(a, b, k, MaxI(1, k + 1 - Len(b)), MinI(k, Len(a)))])   \* Len(a), Len(b) <= 2800
RECURSIVE Pow2Digits(_)
Pow2Digits(k) == IF k = 0 THEN <<1>> ELSE IF k % 2 = 1 THEN LET d == Pow2Digits(k - 1) IN Mul(d, <<2>>)
                 ELSE LET h == Pow2Digits(k \div 2) IN Mul(h, h)
\* digit sequence minus one (value >= 1) / plus one
RECURSIVE DecFrom(_, _)
DecFrom(ds0, i) == LET ds == ds0 IN IF ds[i] > 0 THEN [ds EXCEPT ![i] = @ - 1] ELSE DecFrom([ds EXCEPT ![i] = 61], i + 1)
RECURSIVE IncFrom(_, _)
IncFrom(ds0, i) == LET ds == ds0 IN IF i > Len(ds) THEN Append(ds, 1)
                  ELSE IF ds[i] < 61 THEN [ds EXCEPT ![i] = @ + 1] ELSE IncFrom([ds EXCEPT ![i] = 0], i + 1)
Render(ds0) == LET ds == ds0 IN Concat([j \in 1..Len(ds) |-> DigitChar(ds[Len(ds) + 1 - j])])
Pow2Str(k) == Render(Pow2Digits(k))                         \* 2^k
Pow2m1Str(k) == Render(Norm(DecFrom(Pow2Digits(k), 1)))     \* 2^k - 1
Pow2p1Str(k) == Render(IncFrom(Pow2Digits(k), 1))           \* 2^k + 1
\* 62^n, 62^n - 1, a * 62^n - 1: numerals known without arithmetic
Rep(c, n) == Concat([j \in 1..n |-> c])
Pow62Str(n) == "1" \o Rep("0", n)
Pow62m1Str(n) == Rep("z", n)
=============================================================================
